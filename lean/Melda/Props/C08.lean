/-
  C08 — every operation returns in every reachable state: lock-discipline part.
  A concrete big-step semantics (`Exec`) of the lock programs of `Melda.LockProg` (threads, `par` workers
  with a waiting parent, calls with fresh frames, recursion), the notion of an acquisition that blocks for
  ever (`Blocks`), and the soundness of the checker `safe` (`safe_sound`): a checked program never reaches
  such an acquisition.  Instantiated with the program extracted from the Rust source
  (`extracted_no_self_deadlock`).

  Design notes.
  * Instead of substituting the callee's body (`flipBody`), `Exec` threads the receiver `recv` of the current
    frame (whose replica the frame's `self` denotes); `exec_flipBody_iff` shows both readings coincide.
    Events and guards carry absolute lock names.
  * Nested calls need one whitelist per enclosing frame (`A` calls `B` calls `C`: an acquisition in `C` is
    checked against `B`'s guards under `allowFor allow B C` and against `A`'s under `allowFor allow A B`), so
    an event records the list of enclosing frames with their call sites rather than one innermost call.
  * `branch` alternatives and `loop` iterations are blocks, as in `walk` ("bodies are block scopes"): guards
    acquired inside are released at the end of the alternative / iteration; guards dropped inside stay
    dropped (the semantics is exact here, `walk` is conservative).
-/
import Melda.LockProg
import Melda.Gen.LockProgs
namespace Melda.Props.C08
open Melda.Lock

/-! ## Concrete semantics -/

/-- composition of receivers: a frame whose `self` denotes replica `r` calls a function on `on` -/
def compInst (r on : Inst) : Inst :=
  match on with
  | .self => r
  | .other => match r with | .self => .other | .other => .self

/-- an enclosing call frame, as seen from inside the callee: the call site `caller → callee`, and every
    guard the calling thread held at that moment in the caller's frame (its own guards and those of the
    parents waiting for it inside that frame) -/
structure Frame where
  caller : Nat
  callee : Nat
  guards : List Lk
deriving DecidableEq

/-- one acquisition: the lock (absolute, i.e. after mapping through the receivers of the call chain),
    the guards of the acquiring thread in the current function frame, the guards of the parents waiting
    for it within the current frame, and the enclosing call frames (innermost first) -/
structure Ev where
  lock : Lk
  own : List Lk
  parent : List Lk
  outer : List Frame
deriving DecidableEq

inductive Exec (fns : List Fn) :
    (self : Nat) → (recv : Inst) → (outer : List Frame) → (parent : List Lk) → (depth : Nat) →
    List Held → List Stmt → List Ev → List Held → Prop
  | nil {i r outer parent d held} : Exec fns i r outer parent d held [] [] held
  | acq {i r outer parent d held l b rest evs held'} :
      Exec fns i r outer parent d (⟨flipInst r l, b, d⟩ :: held) rest evs held' →
      Exec fns i r outer parent d held (.acq l b :: rest)
        (⟨flipInst r l, held.map (·.l), parent, outer⟩ :: evs) held'
  | drop {i r outer parent d held n rest evs held'} :
      Exec fns i r outer parent d (held.filter (fun h => h.bind ≠ some n)) rest evs held' →
      Exec fns i r outer parent d held (.drop n :: rest) evs held'
  | stmt {i r outer parent d held body rest evs1 held1 evs2 held'} :
      Exec fns i r outer parent (d + 1) held body evs1 held1 →
      Exec fns i r outer parent d (releaseScope (releaseTemps held1 (d + 1)) (d + 1)) rest evs2 held' →
      Exec fns i r outer parent d held (.stmt body :: rest) (evs1 ++ evs2) held'
  | scope {i r outer parent d held body rest evs1 held1 evs2 held'} :
      Exec fns i r outer parent (d + 1) held body evs1 held1 →
      Exec fns i r outer parent d (releaseScope held1 (d + 1)) rest evs2 held' →
      Exec fns i r outer parent d held (.scope body :: rest) (evs1 ++ evs2) held'
  /-- one alternative runs; it is a block: what it acquired is released at its end, what it dropped stays dropped -/
  | branch {i r outer parent d held alts alt rest evs1 held1 evs2 held'} :
      alt ∈ alts →
      Exec fns i r outer parent (d + 1) held alt evs1 held1 →
      Exec fns i r outer parent d (releaseScope held1 (d + 1)) rest evs2 held' →
      Exec fns i r outer parent d held (.branch alts :: rest) (evs1 ++ evs2) held'
  | loopDone {i r outer parent d held body rest evs held'} :
      Exec fns i r outer parent d held rest evs held' →
      Exec fns i r outer parent d held (.loop body :: rest) evs held'
  /-- one more iteration (a block), then the loop again from the guards really held -/
  | loopStep {i r outer parent d held body rest evs1 held1 evs2 held'} :
      Exec fns i r outer parent (d + 1) held body evs1 held1 →
      Exec fns i r outer parent d (releaseScope held1 (d + 1)) (.loop body :: rest) evs2 held' →
      Exec fns i r outer parent d held (.loop body :: rest) (evs1 ++ evs2) held'
  /-- a worker runs the body with no guards of its own while the parent waits holding `held` -/
  | par {i r outer parent d held body rest evs1 held1 evs2 held'} :
      Exec fns i r outer (parent ++ held.map (·.l)) 0 [] body evs1 held1 →
      Exec fns i r outer parent d held rest evs2 held' →
      Exec fns i r outer parent d held (.par body :: rest) (evs1 ++ evs2) held'
  /-- the callee runs in a fresh frame (no guards of its own, fresh variable numbering, no parent within
      the frame); everything the thread holds or waits under becomes an enclosing frame; all callee guards
      are released at return -/
  | call {i r outer parent d held f on fn rest evs1 held1 evs2 held'} :
      fns[f]? = some fn →
      Exec fns f (compInst r on) (⟨i, f, held.map (·.l) ++ parent⟩ :: outer) [] 0 [] fn.body evs1 held1 →
      Exec fns i r outer parent d held rest evs2 held' →
      Exec fns i r outer parent d held (.call f on :: rest) (evs1 ++ evs2) held'

/-- the acquisition blocks for ever: it conflicts with a guard of the same thread in the current frame or of a
    parent waiting within the current frame (no whitelist), or with a guard in an enclosing call frame, where
    the whitelist of that call site applies -/
def Blocks (allow : List (Nat × Nat × LClass)) (ev : Ev) : Prop :=
  (∃ h ∈ ev.own ++ ev.parent, conflicts [] h ev.lock = true) ∨
  (∃ fr ∈ ev.outer, ∃ h ∈ fr.guards, conflicts (allowFor allow fr.caller fr.callee) h ev.lock = true)


/-! ## Algebra of `flipInst` / `conflicts` -/

theorem flipInst_invol (r : Inst) (l : Lk) : flipInst r (flipInst r l) = l := by
  rcases l with ⟨c, i, m⟩; cases r <;> cases i <;> rfl

theorem flipInst_comp (r on : Inst) (l : Lk) : flipInst (compInst r on) l = flipInst r (flipInst on l) := by
  rcases l with ⟨c, i, m⟩; cases r <;> cases on <;> cases i <;> rfl

theorem conflicts_flip (al : List LClass) (r : Inst) (h x : Lk) :
    conflicts al (flipInst r h) (flipInst r x) = conflicts al h x := by
  rcases h with ⟨hc, hi, hm⟩; rcases x with ⟨xc, xi, xm⟩
  cases r <;> cases hi <;> cases xi <;> rfl

theorem conflicts_flip_left (al : List LClass) (r : Inst) (h x : Lk) :
    conflicts al h (flipInst r x) = conflicts al (flipInst r h) x := by
  rw [← conflicts_flip al r (flipInst r h) x, flipInst_invol]

/-! ## Inversion of `walk` -/

section walkinv
variable {may : Nat → List Lk} {al : Nat → List LClass} {pa : List Lk} {d : Nat} {a a' : List Held}

theorem walk_nil_inv (h : walk may al pa d a [] = some a') : a' = a := by
  simp [walk] at h; exact h.symm

theorem walk_acq_inv {l b rest} (h : walk may al pa d a (.acq l b :: rest) = some a') :
    (∀ x ∈ a, conflicts [] x.l l = false) ∧ (∀ p ∈ pa, conflicts [] p l = false) ∧
    walk may al pa d (⟨l, b, d⟩ :: a) rest = some a' := by
  simp only [walk] at h
  split at h
  · next hc => simp at hc; exact ⟨hc.1, hc.2, h⟩
  · cases h

theorem walk_drop_inv {n rest} (h : walk may al pa d a (.drop n :: rest) = some a') :
    walk may al pa d (a.filter (fun h => h.bind ≠ some n)) rest = some a' := by
  simpa only [walk] using h

theorem walk_call_inv {f on rest} (h : walk may al pa d a (.call f on :: rest) = some a') :
    (∀ x ∈ may f, (∀ g ∈ a, conflicts (al f) g.l (flipInst on x) = false) ∧
                  (∀ p ∈ pa, conflicts (al f) p (flipInst on x) = false)) ∧
    walk may al pa d a rest = some a' := by
  simp only [walk] at h
  split at h
  · next hc => simp at hc; exact ⟨hc, h⟩
  · cases h

theorem walk_stmt_inv {body rest} (h : walk may al pa d a (.stmt body :: rest) = some a') :
    ∃ a1, walk may al pa (d + 1) a body = some a1 ∧
      walk may al pa d (releaseScope (releaseTemps a1 (d + 1)) (d + 1)) rest = some a' := by
  simp only [walk] at h
  split at h
  · next a1 h1 => exact ⟨a1, h1, h⟩
  · cases h

theorem walk_scope_inv {body rest} (h : walk may al pa d a (.scope body :: rest) = some a') :
    ∃ a1, walk may al pa (d + 1) a body = some a1 ∧
      walk may al pa d (releaseScope a1 (d + 1)) rest = some a' := by
  simp only [walk] at h
  split at h
  · next a1 h1 => exact ⟨a1, h1, h⟩
  · cases h

theorem walk_loop_inv {body rest} (h : walk may al pa d a (.loop body :: rest) = some a') :
    (∃ a1, walk may al pa (d + 1) a body = some a1) ∧ walk may al pa d a rest = some a' := by
  simp only [walk] at h
  split at h
  · next a1 h1 => exact ⟨⟨a1, h1⟩, h⟩
  · cases h

theorem walk_par_inv {body rest} (h : walk may al pa d a (.par body :: rest) = some a') :
    (∃ a1, walk may al (pa ++ a.map (·.l)) 0 [] body = some a1) ∧ walk may al pa d a rest = some a' := by
  simp only [walk] at h
  split at h
  · next a1 h1 => exact ⟨⟨a1, h1⟩, h⟩
  · cases h

theorem goAlts_mem {alts : List (List Stmt)} (h : walk.goAlts may al pa d a alts = true) :
    ∀ alt ∈ alts, ∃ a1, walk may al pa (d + 1) a alt = some a1 := by
  induction alts with
  | nil => intro _ h; cases h
  | cons x xs ih =>
    simp only [walk.goAlts, Bool.and_eq_true] at h
    intro alt hm
    rcases List.mem_cons.mp hm with e | hm
    · subst e; exact Option.isSome_iff_exists.mp h.1
    · exact ih h.2 alt hm

theorem walk_branch_inv {alts rest} (h : walk may al pa d a (.branch alts :: rest) = some a') :
    (∀ alt ∈ alts, ∃ a1, walk may al pa (d + 1) a alt = some a1) ∧ walk may al pa d a rest = some a' := by
  simp only [walk] at h
  split at h
  · next hc => exact ⟨goAlts_mem hc, h⟩
  · cases h

end walkinv


/-! ## The may-acquire table covers a body -/

/-- `t` contains every direct acquisition of `body` and, for every call in it, the callee's table entry
    mapped to the caller's receiver -/
def Covers (table : List (List Lk)) (t : List Lk) (body : List Stmt) : Prop :=
  (∀ l ∈ directAcqs body, l ∈ t) ∧
  (∀ c ∈ directCalls body, ∃ tc, table[c.1]? = some tc ∧ ∀ x ∈ tc, flipInst c.2 x ∈ t)

section covers
variable {table : List (List Lk)} {t : List Lk}

theorem covers_acq {l b rest} (h : Covers table t (.acq l b :: rest)) : l ∈ t ∧ Covers table t rest := by
  simp only [Covers, directAcqs, directCalls, List.mem_cons, forall_eq_or_imp] at h
  exact ⟨h.1.1, h.1.2, h.2⟩

theorem covers_drop {n rest} (h : Covers table t (.drop n :: rest)) : Covers table t rest := by
  simpa only [Covers, directAcqs, directCalls] using h

theorem covers_call {f on rest} (h : Covers table t (.call f on :: rest)) :
    (∃ tc, table[f]? = some tc ∧ ∀ x ∈ tc, flipInst on x ∈ t) ∧ Covers table t rest := by
  simp only [Covers, directAcqs, directCalls, List.mem_cons, forall_eq_or_imp] at h
  exact ⟨h.2.1, h.1, h.2.2⟩

theorem covers_append {b r : List Stmt} {A : List Lk} {C : List (Nat × Inst)}
    (hA : directAcqs b ++ directAcqs r = A) (hC : directCalls b ++ directCalls r = C)
    (h : (∀ l ∈ A, l ∈ t) ∧ (∀ c ∈ C, ∃ tc, table[c.1]? = some tc ∧ ∀ x ∈ tc, flipInst c.2 x ∈ t)) :
    Covers table t b ∧ Covers table t r := by
  subst hA; subst hC
  simp only [List.mem_append] at h
  exact ⟨⟨fun l hl => h.1 l (Or.inl hl), fun c hc => h.2 c (Or.inl hc)⟩,
         ⟨fun l hl => h.1 l (Or.inr hl), fun c hc => h.2 c (Or.inr hc)⟩⟩

theorem covers_stmt {b rest} (h : Covers table t (.stmt b :: rest)) : Covers table t b ∧ Covers table t rest :=
  covers_append (by simp [directAcqs]) (by simp [directCalls]) h
theorem covers_scope {b rest} (h : Covers table t (.scope b :: rest)) : Covers table t b ∧ Covers table t rest :=
  covers_append (by simp [directAcqs]) (by simp [directCalls]) h
theorem covers_loop {b rest} (h : Covers table t (.loop b :: rest)) : Covers table t b ∧ Covers table t rest :=
  covers_append (by simp [directAcqs]) (by simp [directCalls]) h
theorem covers_par {b rest} (h : Covers table t (.par b :: rest)) : Covers table t b ∧ Covers table t rest :=
  covers_append (by simp [directAcqs]) (by simp [directCalls]) h

theorem goA_mem {alts : List (List Stmt)} {alt} (hm : alt ∈ alts) : ∀ l ∈ directAcqs alt, l ∈ directAcqs.goA alts := by
  induction alts with
  | nil => cases hm
  | cons x xs ih =>
    intro l hl
    simp only [directAcqs.goA, List.mem_append]
    rcases List.mem_cons.mp hm with e | hm
    · subst e; exact Or.inl hl
    · exact Or.inr (ih hm l hl)

theorem goC_mem {alts : List (List Stmt)} {alt} (hm : alt ∈ alts) : ∀ c ∈ directCalls alt, c ∈ directCalls.goC alts := by
  induction alts with
  | nil => cases hm
  | cons x xs ih =>
    intro l hl
    simp only [directCalls.goC, List.mem_append]
    rcases List.mem_cons.mp hm with e | hm
    · subst e; exact Or.inl hl
    · exact Or.inr (ih hm l hl)

theorem covers_branch {alts rest} (h : Covers table t (.branch alts :: rest)) :
    (∀ alt ∈ alts, Covers table t alt) ∧ Covers table t rest := by
  simp only [Covers, directAcqs, directCalls, List.mem_append] at h
  refine ⟨fun alt hm => ⟨fun l hl => h.1 l (Or.inl (goA_mem hm l hl)), fun c hc => h.2 c (Or.inl (goC_mem hm c hc))⟩,
          ⟨fun l hl => h.1 l (Or.inr hl), fun c hc => h.2 c (Or.inr hc)⟩⟩

theorem closed_covers {fns : List Fn} (h : closed fns table = true) {i : Nat} {f : Fn} (hf : fns[i]? = some f) :
    ∃ t, table[i]? = some t ∧ Covers table t f.body := by
  have hi : i < fns.length := (List.getElem?_eq_some_iff.mp hf).1
  simp only [closed, List.all_eq_true, List.mem_range] at h
  have h := h i hi
  rw [hf] at h
  cases ht : table[i]? with
  | none => simp [ht] at h
  | some t =>
    refine ⟨t, rfl, ?_⟩
    simp only [ht, Bool.and_eq_true, List.all_eq_true, List.contains_iff_mem] at h
    refine ⟨h.1, fun c hc => ?_⟩
    have h2 := h.2 c hc
    cases htc : table[c.1]? with
    | none => simp [htc] at h2
    | some tc =>
      refine ⟨tc, rfl, ?_⟩
      simpa [htc] using h2
end covers


/-! ## Facts about executions -/

theorem mem_releaseScope {h : Held} {l : List Held} {d : Nat} : h ∈ releaseScope l d ↔ h ∈ l ∧ h.depth < d := by
  simp [releaseScope]

theorem mem_releaseTemps {h : Held} {l : List Held} {d : Nat} :
    h ∈ releaseTemps l d ↔ h ∈ l ∧ (!(h.bind.isNone && h.depth ≥ d)) = true := by
  unfold releaseTemps; exact List.mem_filter

/-- guards that come out of a body run at depth `d` with a smaller depth were held at its start -/
theorem exec_old {fns i r outer pc d c body evs c'} (hex : Exec fns i r outer pc d c body evs c') :
    ∀ h ∈ c', h.depth < d → h ∈ c := by
  induction hex with
  | nil => intro h hm _; exact hm
  | acq _ ih =>
    intro h hm hd
    rcases List.mem_cons.mp (ih h hm hd) with e | hm
    · subst e; simp at hd
    · exact hm
  | drop _ ih => intro h hm hd; exact (List.mem_filter.mp (ih h hm hd)).1
  | stmt _ _ ih1 ih2 =>
    intro h hm hd
    have := ih2 h hm hd
    rw [mem_releaseScope, mem_releaseTemps] at this
    exact ih1 h this.1.1 this.2
  | scope _ _ ih1 ih2 =>
    intro h hm hd
    have := ih2 h hm hd
    rw [mem_releaseScope] at this
    exact ih1 h this.1 this.2
  | branch _ _ _ ih1 ih2 =>
    intro h hm hd
    have := ih2 h hm hd
    rw [mem_releaseScope] at this
    exact ih1 h this.1 this.2
  | loopDone _ ih => exact ih
  | loopStep _ _ ih1 ih2 =>
    intro h hm hd
    have := ih2 h hm hd
    rw [mem_releaseScope] at this
    exact ih1 h this.1 this.2
  | par _ _ _ ih2 => exact ih2
  | call _ _ _ _ ih2 => exact ih2

/-- (a) **may-acquire soundness**: with a closed table, every lock acquired while a body of function `g` runs
    (directly, in workers, or in callees, transitively) is an entry of any `t` that covers the body,
    mapped through the receiver of the frame. -/
theorem may_sound_body {fns : List Fn} {table : List (List Lk)} (hclosed : closed fns table = true)
    {i r outer pc d c body evs c'} (hex : Exec fns i r outer pc d c body evs c') :
    ∀ t, Covers table t body → ∀ ev ∈ evs, ∃ x ∈ t, ev.lock = flipInst r x := by
  induction hex with
  | nil => intro t _ ev hm; cases hm
  | acq _ ih =>
    intro t hc ev hm
    have ⟨hl, hc⟩ := covers_acq hc
    rcases List.mem_cons.mp hm with e | hm
    · subst e; exact ⟨_, hl, rfl⟩
    · exact ih t hc ev hm
  | drop _ ih => intro t hc; exact ih t (covers_drop hc)
  | stmt _ _ ih1 ih2 =>
    intro t hc ev hm
    have ⟨hb, hr⟩ := covers_stmt hc
    rcases List.mem_append.mp hm with hm | hm
    · exact ih1 t hb ev hm
    · exact ih2 t hr ev hm
  | scope _ _ ih1 ih2 =>
    intro t hc ev hm
    have ⟨hb, hr⟩ := covers_scope hc
    rcases List.mem_append.mp hm with hm | hm
    · exact ih1 t hb ev hm
    · exact ih2 t hr ev hm
  | branch hmem _ _ ih1 ih2 =>
    intro t hc ev hm
    have ⟨hb, hr⟩ := covers_branch hc
    rcases List.mem_append.mp hm with hm | hm
    · exact ih1 t (hb _ hmem) ev hm
    · exact ih2 t hr ev hm
  | loopDone _ ih => intro t hc; exact ih t (covers_loop hc).2
  | loopStep _ _ ih1 ih2 =>
    intro t hc ev hm
    rcases List.mem_append.mp hm with hm | hm
    · exact ih1 t (covers_loop hc).1 ev hm
    · exact ih2 t hc ev hm
  | par _ _ ih1 ih2 =>
    intro t hc ev hm
    have ⟨hb, hr⟩ := covers_par hc
    rcases List.mem_append.mp hm with hm | hm
    · exact ih1 t hb ev hm
    · exact ih2 t hr ev hm
  | call hf _ _ ih1 ih2 =>
    intro t hc ev hm
    have ⟨⟨tc, htc, hsub⟩, hr⟩ := covers_call hc
    rcases List.mem_append.mp hm with hm | hm
    · obtain ⟨tf, htf, hcov⟩ := closed_covers hclosed hf
      rw [htc] at htf; cases htf
      obtain ⟨x, hx, he⟩ := ih1 tc hcov ev hm
      exact ⟨flipInst _ x, hsub x hx, by rw [he, flipInst_comp]⟩
    · exact ih2 t hr ev hm

theorem may_sound {fns : List Fn} {table : List (List Lk)} (hclosed : closed fns table = true)
    {g : Nat} {fn : Fn} (hg : fns[g]? = some fn)
    {r outer pc d c evs c'} (hex : Exec fns g r outer pc d c fn.body evs c') :
    ∀ ev ∈ evs, ∃ x ∈ table.getD g [], ev.lock = flipInst r x := by
  obtain ⟨t, ht, hcov⟩ := closed_covers hclosed hg
  have : table.getD g [] = t := by simp [List.getD_eq_getElem?_getD, ht]
  rw [this]
  exact may_sound_body hclosed hex t hcov


/-! ## (b), (c) Simulation of an execution by `walk` -/

/-- the may-acquire function that `safe` hands to `walk` -/
abbrev mayOf (table : List (List Lk)) : Nat → List Lk := fun j => table.getD j [⟨.unknown, .self, .W⟩]

def flipH (r : Inst) (h : Held) : Held := ⟨flipInst r h.l, h.bind, h.depth⟩

/-- every concrete guard (absolute lock names) is an abstract guard (names relative to the frame's receiver),
    with the same binding and depth -/
def Sim (r : Inst) (c a : List Held) : Prop := ∀ h ∈ c, flipH r h ∈ a
def PSim (r : Inst) (pc pa : List Lk) : Prop := ∀ p ∈ pc, flipInst r p ∈ pa

/-- nothing that the current frame may acquire (`t`, relative to receiver `r`) conflicts with a guard in an
    enclosing call frame, under the whitelist of that frame's call site -/
def OuterOK (allow : List (Nat × Nat × LClass)) (outer : List Frame) (r : Inst) (t : List Lk) : Prop :=
  ∀ fr ∈ outer, ∀ h ∈ fr.guards, ∀ x ∈ t, conflicts (allowFor allow fr.caller fr.callee) h (flipInst r x) = false

theorem sim_releaseScope {r c a d} (h : Sim r c a) : Sim r (releaseScope c d) (releaseScope a d) := by
  intro g hg
  rw [mem_releaseScope] at hg ⊢
  exact ⟨h g hg.1, hg.2⟩

theorem sim_releaseTemps {r c a d} (h : Sim r c a) : Sim r (releaseTemps c d) (releaseTemps a d) := by
  intro g hg
  rw [mem_releaseTemps] at hg ⊢
  exact ⟨h g hg.1, hg.2⟩

theorem sim_filter_bind {r c a} (n : Nat) (h : Sim r c a) :
    Sim r (c.filter (fun h => h.bind ≠ some n)) (a.filter (fun h => h.bind ≠ some n)) := by
  intro g hg
  rw [List.mem_filter] at hg ⊢
  exact ⟨h g hg.1, hg.2⟩

theorem sim_cons {r c a} (l : Lk) (b : Option Nat) (d : Nat) (h : Sim r c a) :
    Sim r (⟨flipInst r l, b, d⟩ :: c) (⟨l, b, d⟩ :: a) := by
  intro g hg
  rcases List.mem_cons.mp hg with e | hg
  · subst e; simp [flipH, flipInst_invol]
  · exact List.mem_cons_of_mem _ (h g hg)

theorem psim_append {r pc pa c a} (hp : PSim r pc pa) (hs : Sim r c a) :
    PSim r (pc ++ c.map (·.l)) (pa ++ a.map (·.l)) := by
  intro p hm
  rcases List.mem_append.mp hm with hm | hm
  · exact List.mem_append_left _ (hp p hm)
  · obtain ⟨g, hg, e⟩ := List.mem_map.mp hm
    subst e
    exact List.mem_append_right _ (List.mem_map.mpr ⟨flipH r g, hs g hg, rfl⟩)

/-- an acquisition accepted by `walk` does not block -/
theorem acq_ok {allow outer r t c a pc pa} {l : Lk}
    (hs : Sim r c a) (hp : PSim r pc pa) (ho : OuterOK allow outer r t) (hl : l ∈ t)
    (hown : ∀ x ∈ a, conflicts [] x.l l = false) (hpar : ∀ p ∈ pa, conflicts [] p l = false) :
    ¬ Blocks allow ⟨flipInst r l, c.map (·.l), pc, outer⟩ := by
  rintro (⟨h, hm, hcf⟩ | ⟨fr, hfr, h, hh, hcf⟩)
  · rw [conflicts_flip_left] at hcf
    rcases List.mem_append.mp hm with hm | hm
    · obtain ⟨g, hg, e⟩ := List.mem_map.mp hm
      subst e
      have := hown _ (hs g hg)
      simp only [flipH] at this
      rw [this] at hcf; cases hcf
    · rw [hpar _ (hp h hm)] at hcf; cases hcf
  · rw [ho fr hfr h hh l hl] at hcf; cases hcf

theorem sim {fns : List Fn} {table : List (List Lk)} {allow : List (Nat × Nat × LClass)}
    (hclosed : closed fns table = true)
    (hwalk : ∀ i f, fns[i]? = some f → (walk (mayOf table) (allowFor allow i) [] 0 [] f.body).isSome = true)
    {i r outer pc d c body evs c'} (hex : Exec fns i r outer pc d c body evs c') :
    ∀ (pa : List Lk) (a a' : List Held) (t : List Lk),
      walk (mayOf table) (allowFor allow i) pa d a body = some a' →
      Sim r c a → PSim r pc pa → Covers table t body → OuterOK allow outer r t →
      (∀ ev ∈ evs, ¬ Blocks allow ev) ∧ Sim r c' a' := by
  induction hex with
  | nil =>
    intro pa a a' t hw hs _ _ _
    cases walk_nil_inv hw
    exact ⟨fun ev hm => (by cases hm), hs⟩
  | acq _ ih =>
    intro pa a a' t hw hs hp hc ho
    obtain ⟨hown, hpar, hw'⟩ := walk_acq_inv hw
    obtain ⟨hl, hc'⟩ := covers_acq hc
    obtain ⟨hev, hs'⟩ := ih pa _ a' t hw' (sim_cons _ _ _ hs) hp hc' ho
    refine ⟨fun ev hm => ?_, hs'⟩
    rcases List.mem_cons.mp hm with e | hm
    · subst e; exact acq_ok hs hp ho hl hown hpar
    · exact hev ev hm
  | drop _ ih =>
    intro pa a a' t hw hs hp hc ho
    exact ih pa _ a' t (walk_drop_inv hw) (sim_filter_bind _ hs) hp (covers_drop hc) ho
  | stmt _ _ ih1 ih2 =>
    intro pa a a' t hw hs hp hc ho
    obtain ⟨a1, h1, hw'⟩ := walk_stmt_inv hw
    obtain ⟨hb, hr⟩ := covers_stmt hc
    obtain ⟨hev1, hs1⟩ := ih1 pa a a1 t h1 hs hp hb ho
    obtain ⟨hev2, hs2⟩ := ih2 pa _ a' t hw' (sim_releaseScope (sim_releaseTemps hs1)) hp hr ho
    exact ⟨fun ev hm => (List.mem_append.mp hm).elim (hev1 ev) (hev2 ev), hs2⟩
  | scope _ _ ih1 ih2 =>
    intro pa a a' t hw hs hp hc ho
    obtain ⟨a1, h1, hw'⟩ := walk_scope_inv hw
    obtain ⟨hb, hr⟩ := covers_scope hc
    obtain ⟨hev1, hs1⟩ := ih1 pa a a1 t h1 hs hp hb ho
    obtain ⟨hev2, hs2⟩ := ih2 pa _ a' t hw' (sim_releaseScope hs1) hp hr ho
    exact ⟨fun ev hm => (List.mem_append.mp hm).elim (hev1 ev) (hev2 ev), hs2⟩
  | branch hmem hex1 _ ih1 ih2 =>
    intro pa a a' t hw hs hp hc ho
    obtain ⟨hall, hw'⟩ := walk_branch_inv hw
    obtain ⟨a1, h1⟩ := hall _ hmem
    obtain ⟨hb, hr⟩ := covers_branch hc
    obtain ⟨hev1, _⟩ := ih1 pa a a1 t h1 hs hp (hb _ hmem) ho
    have hs1 : Sim _ (releaseScope _ _) a := fun g hg =>
      hs g (exec_old hex1 g (mem_releaseScope.mp hg).1 (mem_releaseScope.mp hg).2)
    obtain ⟨hev2, hs2⟩ := ih2 pa a a' t hw' hs1 hp hr ho
    exact ⟨fun ev hm => (List.mem_append.mp hm).elim (hev1 ev) (hev2 ev), hs2⟩
  | loopDone _ ih =>
    intro pa a a' t hw hs hp hc ho
    exact ih pa a a' t (walk_loop_inv hw).2 hs hp (covers_loop hc).2 ho
  | loopStep hex1 _ ih1 ih2 =>
    intro pa a a' t hw hs hp hc ho
    obtain ⟨⟨a1, h1⟩, _⟩ := walk_loop_inv hw
    obtain ⟨hev1, _⟩ := ih1 pa a a1 t h1 hs hp (covers_loop hc).1 ho
    have hs1 : Sim _ (releaseScope _ _) a := fun g hg =>
      hs g (exec_old hex1 g (mem_releaseScope.mp hg).1 (mem_releaseScope.mp hg).2)
    obtain ⟨hev2, hs2⟩ := ih2 pa a a' t hw hs1 hp hc ho
    exact ⟨fun ev hm => (List.mem_append.mp hm).elim (hev1 ev) (hev2 ev), hs2⟩
  | par _ _ ih1 ih2 =>
    intro pa a a' t hw hs hp hc ho
    obtain ⟨⟨a1, h1⟩, hw'⟩ := walk_par_inv hw
    obtain ⟨hb, hr⟩ := covers_par hc
    obtain ⟨hev1, _⟩ := ih1 _ [] a1 t h1 (fun g hg => by cases hg) (psim_append hp hs) hb ho
    obtain ⟨hev2, hs2⟩ := ih2 pa a a' t hw' hs hp hr ho
    exact ⟨fun ev hm => (List.mem_append.mp hm).elim (hev1 ev) (hev2 ev), hs2⟩
  | @call i r outer pc d c f on fn rest evs1 c1 evs2 c' hf _ _ ih1 ih2 =>
    intro pa a a' t hw hs hp hc ho
    obtain ⟨hall, hw'⟩ := walk_call_inv hw
    obtain ⟨⟨tc, htc, hsub⟩, hr⟩ := covers_call hc
    obtain ⟨tf, htf, hcov⟩ := closed_covers hclosed hf
    rw [htc] at htf; cases htf
    have hmay : mayOf table f = tc := by simp [mayOf, List.getD_eq_getElem?_getD, htc]
    rw [hmay] at hall
    obtain ⟨af, haf⟩ := Option.isSome_iff_exists.mp (hwalk f fn hf)
    have ho' : OuterOK allow (⟨i, f, c.map (·.l) ++ pc⟩ :: outer) (compInst r on) tc := by
      intro fr hfr h hh x hx
      rw [flipInst_comp]
      rcases List.mem_cons.mp hfr with e | hfr
      · subst e
        rw [conflicts_flip_left]
        rcases List.mem_append.mp hh with hh | hh
        · obtain ⟨g, hg, e⟩ := List.mem_map.mp hh
          subst e
          exact (hall x hx).1 _ (hs g hg)
        · exact (hall x hx).2 _ (hp h hh)
      · exact ho fr hfr h hh _ (hsub x hx)
    obtain ⟨hev1, _⟩ := ih1 [] [] af tc haf (fun g hg => by cases hg) (fun g hg => by cases hg) hcov ho'
    obtain ⟨hev2, hs2⟩ := ih2 pa a a' t hw' hs hp hr ho
    exact ⟨fun ev hm => (List.mem_append.mp hm).elim (hev1 ev) (hev2 ev), hs2⟩


/-! ## Receiver threading = substitution of the callee's body -/

mutual
/-- the body of a callee with every lock (and every nested call) mapped to the receiver `r` -/
def flipStmt (r : Inst) : Stmt → Stmt
  | .acq l b => .acq (flipInst r l) b
  | .drop n => .drop n
  | .call f on => .call f (compInst r on)
  | .stmt b => .stmt (flipBody r b)
  | .scope b => .scope (flipBody r b)
  | .loop b => .loop (flipBody r b)
  | .par b => .par (flipBody r b)
  | .branch alts => .branch (flipAlts r alts)
def flipBody (r : Inst) : List Stmt → List Stmt
  | [] => []
  | s :: ss => flipStmt r s :: flipBody r ss
def flipAlts (r : Inst) : List (List Stmt) → List (List Stmt)
  | [] => []
  | a :: as => flipBody r a :: flipAlts r as
end

theorem compInst_assoc (a b c : Inst) : compInst (compInst a b) c = compInst a (compInst b c) := by
  cases a <;> cases b <;> cases c <;> rfl
theorem compInst_self_left (a : Inst) : compInst .self a = a := by cases a <;> rfl
theorem compInst_same (a : Inst) : compInst a a = .self := by cases a <;> rfl
theorem compInst_invol (r a : Inst) : compInst r (compInst r a) = a := by cases r <;> cases a <;> rfl

mutual
theorem flipStmt_invol (r : Inst) : ∀ s : Stmt, flipStmt r (flipStmt r s) = s
  | .acq l b => by simp [flipStmt, flipInst_invol]
  | .drop n => by simp [flipStmt]
  | .call f on => by simp [flipStmt, compInst_invol]
  | .stmt b => by simp [flipStmt, flipBody_invol r b]
  | .scope b => by simp [flipStmt, flipBody_invol r b]
  | .loop b => by simp [flipStmt, flipBody_invol r b]
  | .par b => by simp [flipStmt, flipBody_invol r b]
  | .branch alts => by simp [flipStmt, flipAlts_invol r alts]
theorem flipBody_invol (r : Inst) : ∀ b : List Stmt, flipBody r (flipBody r b) = b
  | [] => by simp [flipBody]
  | s :: ss => by simp [flipBody, flipStmt_invol r s, flipBody_invol r ss]
theorem flipAlts_invol (r : Inst) : ∀ b : List (List Stmt), flipAlts r (flipAlts r b) = b
  | [] => by simp [flipAlts]
  | s :: ss => by simp [flipAlts, flipBody_invol r s, flipAlts_invol r ss]
end

theorem mem_flipAlts {r : Inst} {alt : List Stmt} {alts : List (List Stmt)} (h : alt ∈ alts) :
    flipBody r alt ∈ flipAlts r alts := by
  induction alts with
  | nil => cases h
  | cons x xs ih =>
    simp only [flipAlts]
    rcases List.mem_cons.mp h with e | h
    · subst e; exact List.mem_cons_self
    · exact List.mem_cons_of_mem _ (ih h)

theorem exec_flip_gen {fns i rr outer pc d c body evs c'} (hex : Exec fns i rr outer pc d c body evs c') :
    ∀ r0 r, rr = compInst r0 r → Exec fns i r0 outer pc d c (flipBody r body) evs c' := by
  induction hex with
  | nil => intro r0 r _; exact .nil
  | acq _ ih =>
    intro r0 r e; subst e
    simp only [flipBody, flipStmt, flipInst_comp]
    exact .acq (by have := ih r0 r rfl; rwa [flipInst_comp] at this)
  | drop _ ih => intro r0 r e; exact .drop (ih r0 r e)
  | stmt _ _ ih1 ih2 => intro r0 r e; exact .stmt (ih1 r0 r e) (ih2 r0 r e)
  | scope _ _ ih1 ih2 => intro r0 r e; exact .scope (ih1 r0 r e) (ih2 r0 r e)
  | branch hm _ _ ih1 ih2 => intro r0 r e; exact .branch (mem_flipAlts hm) (ih1 r0 r e) (ih2 r0 r e)
  | loopDone _ ih => intro r0 r e; exact .loopDone (ih r0 r e)
  | loopStep _ _ ih1 ih2 => intro r0 r e; exact .loopStep (ih1 r0 r e) (ih2 r0 r e)
  | par _ _ ih1 ih2 => intro r0 r e; exact .par (ih1 r0 r e) (ih2 r0 r e)
  | call hf h1 _ _ ih2 =>
    intro r0 r e; subst e
    rw [compInst_assoc] at h1
    exact .call hf h1 (ih2 r0 r rfl)

/-- threading the receiver through the frames is the same as running the callee's body with its locks
    substituted (`flipBody`) -/
theorem exec_flipBody_iff {fns i r outer pc d c body evs c'} :
    Exec fns i r outer pc d c body evs c' ↔ Exec fns i .self outer pc d c (flipBody r body) evs c' := by
  constructor
  · intro h; exact exec_flip_gen h .self r (compInst_self_left r).symm
  · intro h
    have := exec_flip_gen h r r (compInst_same r).symm
    rwa [flipBody_invol] at this

/-! ## Main theorem -/

theorem safe_closed {fns table allow} (h : safe fns table allow = true) : closed fns table = true := by
  simp only [safe, Bool.and_eq_true] at h; exact h.1

theorem safe_walk {fns table allow} (h : safe fns table allow = true) :
    ∀ i f, fns[i]? = some f → (walk (mayOf table) (allowFor allow i) [] 0 [] f.body).isSome = true := by
  intro i f hf
  simp only [safe, Bool.and_eq_true, List.all_eq_true, List.mem_range] at h
  have := h.2 i (List.getElem?_eq_some_iff.mp hf).1
  rw [hf] at this
  exact this

/-- **C08, lock discipline.** If the checker accepts the program, then in every (finite prefix of an) execution
    of any function `i` — in particular of every public entry point — called with no guard held, on either
    replica, every acquisition made by the thread, by the workers it spawns in `par` sections (to any nesting
    depth) and inside the functions it calls (to any call depth, recursion included) is compatible with
    * every guard the acquiring thread holds in its current function frame, and every guard held by the chain
      of parents waiting for it within that frame (plain `conflicts []`), and
    * every guard held, or waited under, by the thread in each enclosing call frame, where for the frame of
      call site `caller → callee` the whitelist `allowFor allow caller callee` applies (it only ever excuses
      an instance-indexed class, see `conflicts_whitelist_irrelevant`).
    So no thread of a checked program ever blocks for ever on a lock that itself or a parent waiting for it holds. -/
theorem safe_sound {fns : List Fn} {table : List (List Lk)} {allow : List (Nat × Nat × LClass)}
    (hsafe : safe fns table allow = true) {i : Nat} {f : Fn} (hf : fns[i]? = some f)
    {r : Inst} {evs : List Ev} {held' : List Held}
    (hex : Exec fns i r [] [] 0 [] f.body evs held') :
    ∀ ev ∈ evs, ¬ Blocks allow ev := by
  obtain ⟨t, _, hcov⟩ := closed_covers (safe_closed hsafe) hf
  obtain ⟨a', ha'⟩ := Option.isSome_iff_exists.mp (safe_walk hsafe i f hf)
  exact (sim (safe_closed hsafe) (safe_walk hsafe) hex [] [] a' t ha'
    (fun g hg => by cases hg) (fun g hg => by cases hg) hcov (fun fr hfr => by cases hfr)).1

/-- the same, spelled out without `Blocks` -/
theorem safe_sound_explicit {fns : List Fn} {table : List (List Lk)} {allow : List (Nat × Nat × LClass)}
    (hsafe : safe fns table allow = true) {i : Nat} {f : Fn} (hf : fns[i]? = some f)
    {r : Inst} {evs : List Ev} {held' : List Held}
    (hex : Exec fns i r [] [] 0 [] f.body evs held') :
    ∀ ev ∈ evs,
      (∀ h ∈ ev.own, conflicts [] h ev.lock = false) ∧
      (∀ h ∈ ev.parent, conflicts [] h ev.lock = false) ∧
      (∀ fr ∈ ev.outer, ∀ h ∈ fr.guards, conflicts (allowFor allow fr.caller fr.callee) h ev.lock = false) := by
  intro ev hm
  have hnb := safe_sound hsafe hf hex ev hm
  refine ⟨fun h hh => ?_, fun h hh => ?_, fun fr hfr h hh => ?_⟩
  · cases hc : conflicts [] h ev.lock with
    | false => rfl
    | true => exact absurd (Or.inl ⟨h, List.mem_append_left _ hh, hc⟩) hnb
  · cases hc : conflicts [] h ev.lock with
    | false => rfl
    | true => exact absurd (Or.inl ⟨h, List.mem_append_right _ hh, hc⟩) hnb
  · cases hc : conflicts (allowFor allow fr.caller fr.callee) h ev.lock with
    | false => rfl
    | true => exact absurd (Or.inr ⟨fr, hfr, h, hh, hc⟩) hnb

/-- a whitelist never excuses anything but an instance-indexed class that it names -/
theorem conflicts_whitelist_irrelevant (al : List LClass) (h a : Lk)
    (hna : instanceClass a.cls = false ∨ a.cls ∉ al) : conflicts al h a = conflicts [] h a := by
  rcases hna with hna | hna <;> simp [conflicts, hna]

theorem allowFor_nil (caller callee : Nat) : allowFor [] caller callee = [] := rfl

/-- every lock acquired in an execution of a checked function is in its table entry -/
theorem safe_may_sound {fns : List Fn} {table : List (List Lk)} {allow : List (Nat × Nat × LClass)}
    (hsafe : safe fns table allow = true) {g : Nat} {fn : Fn} (hg : fns[g]? = some fn)
    {r outer pc d c evs c'} (hex : Exec fns g r outer pc d c fn.body evs c') :
    ∀ ev ∈ evs, ∃ x ∈ table.getD g [], ev.lock = flipInst r x :=
  may_sound (safe_closed hsafe) hg hex

/-! ## The extracted program -/

/-- **No operation of the library, as extracted from the Rust source, can block for ever on a lock held by
    its own thread or by a parent waiting for it** (up to the one whitelisted call site of `Melda.Gen.allow`). -/
theorem extracted_no_self_deadlock {i : Nat} {f : Fn} (hf : Melda.Gen.fns[i]? = some f)
    {r : Inst} {evs : List Ev} {held' : List Held}
    (hex : Exec Melda.Gen.fns i r [] [] 0 [] f.body evs held') :
    ∀ ev ∈ evs, ¬ Blocks Melda.Gen.allow ev :=
  safe_sound Melda.Gen.extracted_safe hf hex

/-! ## Sanity: the checker rejects what blocks (defect D2), accepts what does not -/

namespace D2
def treeM : Lk := ⟨.tree, .self, .M⟩
/-- `A` keeps a tree guard in a variable and calls `B`, which locks the same tree -/
def fns : List Fn := [⟨"A", true, [.acq treeM (some 0), .call 1 .self]⟩, ⟨"B", false, [.acq treeM none]⟩]
def table : List (List Lk) := [[treeM], [treeM]]

example : closed fns table = true := by decide +kernel
theorem rejected : safe fns table [] = false := by decide +kernel

def blockingEv : Ev := ⟨treeM, [], [], [⟨0, 1, [treeM]⟩]⟩

theorem run : Exec fns 0 .self [] [] 0 [] [.acq treeM (some 0), .call 1 .self]
    [⟨treeM, [], [], []⟩, blockingEv] [⟨treeM, some 0, 0⟩] :=
  .acq (.call (fn := ⟨"B", false, [.acq treeM none]⟩) rfl (.acq .nil) .nil)

theorem blocks : Blocks [] blockingEv :=
  Or.inr ⟨⟨0, 1, [treeM]⟩, by simp [blockingEv], treeM, by simp, by decide⟩

/-- consequently (by `safe_sound`) no table whatsoever makes the checker accept this program -/
theorem rejected_for_every_table (table : List (List Lk)) : safe fns table [] = false := by
  cases h : safe fns table [] with
  | false => rfl
  | true => exact absurd blocks (safe_sound h (i := 0) rfl run blockingEv (by simp))
end D2

namespace Ok
def docsR : Lk := ⟨.docs, .self, .R⟩
def treeM : Lk := ⟨.tree, .self, .M⟩
def deltaW : Lk := ⟨.delta, .self, .W⟩
/-- `A`: read-lock the map, workers call `B` which locks a tree; `C`: recursion on a parent block while holding
    the child's lock (whitelisted) -/
def fns : List Fn := [
  ⟨"A", true, [.stmt [.acq docsR none, .par [.call 1 .self]], .acq docsR (some 0)]⟩,
  ⟨"B", false, [.acq treeM (some 0)]⟩,
  ⟨"C", false, [.acq deltaW (some 0), .stmt [.branch [[], [.call 2 .self]]]]⟩]
def table : List (List Lk) := [[docsR, treeM], [treeM], [deltaW]]
def allow : List (Nat × Nat × LClass) := [(2, 2, .delta)]

theorem accepted : safe fns table allow = true := by decide +kernel
/-- without the whitelist the recursion is rejected -/
example : safe fns table [] = false := by decide +kernel

theorem runA : Exec fns 0 .self [] [] 0 [] [.stmt [.acq docsR none, .par [.call 1 .self]], .acq docsR (some 0)]
    [⟨docsR, [], [], []⟩, ⟨treeM, [], [], [⟨0, 1, [docsR]⟩]⟩, ⟨docsR, [], [], []⟩] [⟨docsR, some 0, 0⟩] :=
  .stmt (evs1 := [⟨docsR, [], [], []⟩, ⟨treeM, [], [], [⟨0, 1, [docsR]⟩]⟩]) (held1 := [⟨docsR, none, 1⟩])
    (.acq (.par (evs1 := [⟨treeM, [], [], [⟨0, 1, [docsR]⟩]⟩]) (held1 := [])
      (.call (fn := ⟨"B", false, [.acq treeM (some 0)]⟩) (evs1 := [⟨treeM, [], [], [⟨0, 1, [docsR]⟩]⟩]) (evs2 := [])
        (held1 := [⟨treeM, some 0, 0⟩]) rfl (.acq .nil) .nil) .nil))
    (.acq .nil)

def innerEv : Ev := ⟨deltaW, [], [], [⟨2, 2, [deltaW]⟩]⟩

theorem runC : Exec fns 2 .self [] [] 0 [] [.acq deltaW (some 0), .stmt [.branch [[], [.call 2 .self]]]]
    [⟨deltaW, [], [], []⟩, innerEv] [⟨deltaW, some 0, 0⟩] :=
  .acq (.stmt (evs1 := [innerEv]) (evs2 := []) (held1 := [⟨deltaW, some 0, 0⟩])
    (.branch (alt := [.call 2 .self]) (evs1 := [innerEv]) (evs2 := []) (held1 := [⟨deltaW, some 0, 0⟩]) (by simp)
      (.call (fn := ⟨"C", false, [.acq deltaW (some 0), .stmt [.branch [[], [.call 2 .self]]]]⟩)
        (evs1 := [innerEv]) (evs2 := []) (held1 := [⟨deltaW, some 0, 0⟩]) rfl
        (.acq (.stmt (evs1 := []) (evs2 := []) (held1 := [⟨deltaW, some 0, 0⟩])
          (.branch (alt := []) (evs1 := []) (evs2 := []) (by simp) .nil .nil) .nil))
        .nil)
      .nil)
    .nil)

/-- the nested acquisition is excused by the whitelist of its call site, and only by it -/
example : ¬ Blocks allow innerEv := safe_sound accepted (i := 2) rfl runC innerEv (by simp)
example : Blocks [] innerEv := Or.inr ⟨⟨2, 2, [deltaW]⟩, by simp [innerEv], deltaW, by simp, by decide⟩
end Ok

end Melda.Props.C08

section axioms
open Melda.Props.C08
#print axioms may_sound
#print axioms sim
#print axioms safe_sound
#print axioms safe_sound_explicit
#print axioms exec_flipBody_iff
#print axioms extracted_no_self_deadlock
#print axioms D2.rejected_for_every_table
#print axioms D2.run
#print axioms Ok.accepted
#print axioms Ok.runC
end axioms
