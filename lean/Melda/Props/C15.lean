/-
  C15 — staged changes can be discarded, exported and replayed exactly (tree level).
  Theorems about `Melda.RevTree` (`add … true`, `unstage`, `commit`, `validate`) and the document map of
  `Melda.Protocol` (`PState.unstage`, `hasStaging`, `stagedChanges`, `commitBook`, the staging guards of
  `reload` / `refresh` / `reloadUntil`).

  Every staging operation of the library (create / update / delete / resolve / snapshot / replay) changes a
  tree only through `add rev parent true`, possibly on a new empty tree: `stageOp` below.
  That leaves and winner do not depend on the ORDER of the entries is the separate permutation theorem
  `Melda.Props.C05.leafs_perm` / `winner_perm`; it is cited, not reproved, in the replay section.
-/
import Melda.Protocol
import Melda.Props.C05
namespace Melda.Props.C15
open Melda Melda.RevTree

deriving instance DecidableEq for RevTree

/-! ## 1. `validate` is idempotent and a function of `entries` -/

theorem validate_idem (t : RevTree) : validate (validate t) = validate t := rfl
theorem validate_entries (t : RevTree) : (validate t).entries = t.entries := rfl
theorem validate_staging (t : RevTree) : (validate t).staging = t.staging := rfl
theorem validate_validated (t : RevTree) : (validate t).validated = true := rfl
theorem validate_leafs (t : RevTree) : (validate t).leafs = sortRevs (liveLeafs t.entries) := rfl
theorem validate_winner (t : RevTree) : (validate t).winner = maxRev (liveLeafs t.entries) := rfl

/-- `validate` written out: everything except `staging` is a function of `entries` -/
theorem validate_eq (t : RevTree) :
    validate t = ⟨t.entries, t.staging, sortRevs (liveLeafs t.entries), maxRev (liveLeafs t.entries), true⟩ := rfl

/-- leaves and winner after `validate` depend only on `entries` -/
theorem validate_congr {t₁ t₂ : RevTree} (h : t₁.entries = t₂.entries) :
    (validate t₁).leafs = (validate t₂).leafs ∧ (validate t₁).winner = (validate t₂).winner := by
  simp [validate_leafs, validate_winner, h]

/-! ## 2. staging additions and the tree's `staging` flag -/

/-- the committed (non-staging) entries -/
def committed (es : List RtEntry) : List RtEntry := es.filter (fun e => !e.staging)

/-- the staged entries -/
def staged (es : List RtEntry) : List RtEntry := es.filter (fun e => e.staging)

/-- the flag of a tree says exactly whether it holds a staging entry -/
def FlagOK (t : RevTree) : Prop := t.staging = true ↔ ∃ e ∈ t.entries, e.staging = true

instance (t : RevTree) : Decidable (FlagOK t) := by unfold FlagOK; infer_instance

theorem add_fst (t : RevTree) (r : Rev) (p : Option Rev) (s : Bool) :
    (t.add r p s).1 =
      if t.contains r then t
      else validate { t with entries := t.entries ++ [⟨r, p, s⟩], staging := t.staging || s, validated := false } := by
  unfold add unvalidatedAdd
  by_cases h : t.contains r <;> simp [h]

theorem add_entries (t : RevTree) (r : Rev) (p : Option Rev) (s : Bool) :
    (t.add r p s).1.entries = if t.contains r then t.entries else t.entries ++ [⟨r, p, s⟩] := by
  rw [add_fst]; split <;> rfl

theorem add_staging_flag (t : RevTree) (r : Rev) (p : Option Rev) (s : Bool) :
    (t.add r p s).1.staging = if t.contains r then t.staging else (t.staging || s) := by
  rw [add_fst]; split <;> rfl

/-- a staging addition leaves the entries alone or appends exactly one staging entry -/
theorem add_staging_entries (t : RevTree) (r : Rev) (p : Option Rev) :
    (t.add r p true).1.entries = t.entries ∨ (t.add r p true).1.entries = t.entries ++ [⟨r, p, true⟩] := by
  rw [add_entries]; split
  · exact Or.inl rfl
  · exact Or.inr rfl

/-- a staging addition never touches a committed entry -/
theorem staging_only_adds (t : RevTree) (r : Rev) (p : Option Rev) :
    (t.add r p true).1.entries.filter (fun e => !e.staging) = t.entries.filter (fun e => !e.staging) := by
  rw [add_entries]; split
  · rfl
  · simp

theorem flagOK_empty : FlagOK RevTree.empty := by simp [FlagOK, RevTree.empty]

theorem flagOK_validate {t : RevTree} (h : FlagOK t) : FlagOK (validate t) := h

theorem flagOK_add {t : RevTree} (h : FlagOK t) (r : Rev) (p : Option Rev) (s : Bool) :
    FlagOK (t.add r p s).1 := by
  unfold FlagOK at h ⊢
  rw [add_entries, add_staging_flag]
  split
  · exact h
  · cases s <;> simp [h]

theorem flagOK_commit {t : RevTree} (_h : FlagOK t) : FlagOK t.commit := by
  unfold commit
  split
  · simp [FlagOK]
  · assumption

theorem flagOK_unstage {t : RevTree} (h : FlagOK t) : FlagOK t.unstage := by
  unfold unstage
  split
  · simp [FlagOK, validate_entries, validate_staging]
  · exact flagOK_validate h

/-- no flag, no staging entries -/
theorem committed_eq_self {t : RevTree} (h : FlagOK t) (hs : t.staging = false) : committed t.entries = t.entries := by
  unfold committed
  rw [List.filter_eq_self]
  intro e he
  cases hst : e.staging with
  | false => rfl
  | true => have := h.mpr ⟨e, he, hst⟩; rw [hs] at this; cases this

/-- `unstage` written out (for trees whose flag is right): drop the staging entries, revalidate -/
theorem unstage_eq {t : RevTree} (h : FlagOK t) :
    t.unstage = ⟨committed t.entries, false, sortRevs (liveLeafs (committed t.entries)),
                 maxRev (liveLeafs (committed t.entries)), true⟩ := by
  unfold unstage
  by_cases hs : t.staging = true
  · simp [hs, validate_eq, committed]
  · have hs' : t.staging = false := by simpa using hs
    simp only [hs', Bool.false_eq_true, if_false, validate_eq, committed_eq_self h hs']

theorem unstage_entries {t : RevTree} (h : FlagOK t) : t.unstage.entries = committed t.entries := by
  rw [unstage_eq h]

theorem unstage_staging {t : RevTree} (h : FlagOK t) : t.unstage.staging = false := by
  rw [unstage_eq h]

/-- `unstage` on a tree without the flag is `validate` -/
theorem unstage_of_not_staging {t : RevTree} (hs : t.staging = false) : t.unstage = validate t := by
  unfold unstage; simp [hs]

/-! ## 3. MAIN: discarding a stage restores the tree -/

/-- any sequence of staging additions to one tree -/
def stageFold (t0 : RevTree) (ops : List (Rev × Option Rev)) : RevTree :=
  ops.foldl (fun t op => (t.add op.1 op.2 true).1) t0

theorem stageFold_flagOK {t0 : RevTree} (hf : FlagOK t0) (ops : List (Rev × Option Rev)) :
    FlagOK (stageFold t0 ops) := by
  unfold stageFold
  induction ops generalizing t0 with
  | nil => exact hf
  | cons op ops ih => exact ih (flagOK_add hf op.1 op.2 true)

theorem stageFold_committed (t0 : RevTree) (ops : List (Rev × Option Rev)) :
    committed (stageFold t0 ops).entries = committed t0.entries := by
  unfold stageFold
  induction ops generalizing t0 with
  | nil => rfl
  | cons op ops ih =>
    simp only [List.foldl_cons]
    rw [ih]; exact staging_only_adds t0 op.1 op.2

/-- the entries of the staged tree: the old ones, then staging entries only -/
theorem stageFold_entries (t0 : RevTree) (ops : List (Rev × Option Rev)) :
    ∃ extra, (stageFold t0 ops).entries = t0.entries ++ extra ∧ ∀ e ∈ extra, e.staging = true := by
  unfold stageFold
  induction ops generalizing t0 with
  | nil => exact ⟨[], by simp, by simp⟩
  | cons op ops ih =>
    simp only [List.foldl_cons]
    obtain ⟨extra, h1, h2⟩ := ih (t0 := (t0.add op.1 op.2 true).1)
    rcases add_staging_entries t0 op.1 op.2 with h | h
    · exact ⟨extra, by rw [h1, h], h2⟩
    · refine ⟨⟨op.1, op.2, true⟩ :: extra, by rw [h1, h]; simp, ?_⟩
      intro e he
      rcases List.mem_cons.mp he with rfl | he
      · rfl
      · exact h2 e he

/-- **Discarding the stage gives back the tree as it was before staging began** (as `validate` leaves it):
    for every tree `t0` without staging entries and every sequence of staging additions. -/
theorem unstage_stageFold (t0 : RevTree) (h0 : ∀ e ∈ t0.entries, e.staging = false) (hf : FlagOK t0)
    (ops : List (Rev × Option Rev)) :
    (stageFold t0 ops).unstage = validate t0 := by
  have hs : t0.staging = false := by
    cases hst : t0.staging with
    | false => rfl
    | true => obtain ⟨e, he, h⟩ := hf.mp hst; rw [h0 e he] at h; cases h
  have hc : committed t0.entries = t0.entries := committed_eq_self hf hs
  rw [unstage_eq (stageFold_flagOK hf ops), stageFold_committed, hc, validate_eq, hs]

/-- item 3 of the property, field by field -/
theorem unstage_restores (t0 : RevTree) (h0 : ∀ e ∈ t0.entries, e.staging = false) (hf : FlagOK t0)
    (ops : List (Rev × Option Rev)) :
    let t := ops.foldl (fun t op => (t.add op.1 op.2 true).1) t0
    t.unstage.entries = t0.entries ∧ t.unstage.leafs = (validate t0).leafs ∧
    t.unstage.winner = (validate t0).winner ∧ t.unstage.staging = false ∧ t.unstage.validated = true := by
  intro t
  have h : t.unstage = validate t0 := unstage_stageFold t0 h0 hf ops
  have hs : t0.staging = false := by
    cases hst : t0.staging with
    | false => rfl
    | true => obtain ⟨e, he, h⟩ := hf.mp hst; rw [h0 e he] at h; cases h
  rw [h]
  exact ⟨rfl, rfl, rfl, hs, rfl⟩

/-- a tree is validated: its cached leaves / winner / state are what `validate` computes -/
def Validated (t : RevTree) : Prop := validate t = t

instance (t : RevTree) : Decidable (Validated t) := by unfold Validated; infer_instance

theorem validated_iff (t : RevTree) :
    Validated t ↔ t.leafs = (validate t).leafs ∧ t.winner = (validate t).winner ∧ t.validated = true := by
  unfold Validated
  constructor
  · intro h; rw [h]; rw [← h]; exact ⟨rfl, rfl, rfl⟩
  · rintro ⟨h1, h2, h3⟩
    cases t
    simp only [validate_eq] at *
    simp [h1, h2, h3]

/-- **If the tree was validated, `unstage` gives back exactly the same tree** (full structural equality). -/
theorem unstage_restores_eq (t0 : RevTree) (h0 : ∀ e ∈ t0.entries, e.staging = false) (hf : FlagOK t0)
    (hv : Validated t0) (ops : List (Rev × Option Rev)) :
    (ops.foldl (fun t op => (t.add op.1 op.2 true).1) t0).unstage = t0 := by
  have := unstage_stageFold t0 h0 hf ops
  unfold stageFold at this
  rw [this]; exact hv

/-! ## 4. the document map: staging, then discarding, gives back the documents -/

/-- one staging operation on the document map: add `(r, p)` as a staging entry to the tree of `u`, or create
    the tree at its sorted position (`applyChanges.upd` of `Melda.Protocol` with `add … true`) -/
def stageOp : List (Str × RevTree) → Str → Rev → Option Rev → List (Str × RevTree)
  | [], u, r, p => [(u, (RevTree.empty.add r p true).1)]
  | (k, t) :: rest, u, r, p =>
    if k = u then (k, (t.add r p true).1) :: rest
    else if strLt u k then (u, (RevTree.empty.add r p true).1) :: (k, t) :: rest
    else (k, t) :: stageOp rest u r p

/-- any sequence of staging operations (given as change records) -/
def stageAll (docs : List (Str × RevTree)) (cs : List Change) : List (Str × RevTree) :=
  cs.foldl (fun d c => stageOp d c.uuid c.rev c.parent) docs

/-- `PState.unstage` on the document map -/
def unstageDocs (docs : List (Str × RevTree)) : List (Str × RevTree) :=
  (docs.map (fun p => (p.1, p.2.unstage))).filter (fun p => !p.2.isEmpty)

theorem pstate_unstage_docs (st : PState) : (PState.unstage st).docs = unstageDocs st.docs := rfl

/-- `stageOp` has the same shape as `applyChanges.upd`: same keys in the same places -/
theorem stageOp_keys_eq_upd (docs : List (Str × RevTree)) (c : Change) :
    (stageOp docs c.uuid c.rev c.parent).map (·.1) = (PState.applyChanges.upd c docs).map (·.1) := by
  induction docs with
  | nil => simp [stageOp, PState.applyChanges.upd]
  | cons x rest ih =>
    obtain ⟨k, t⟩ := x
    simp only [stageOp, PState.applyChanges.upd]
    split
    · simp
    · split
      · simp
      · simp [ih]

def AllFlagOK (docs : List (Str × RevTree)) : Prop := ∀ p ∈ docs, FlagOK p.2

theorem stageOp_flagOK {docs : List (Str × RevTree)} (h : AllFlagOK docs) (u : Str) (r : Rev) (p : Option Rev) :
    AllFlagOK (stageOp docs u r p) := by
  induction docs with
  | nil =>
    intro q hq
    simp only [stageOp, List.mem_singleton] at hq
    subst hq; exact flagOK_add flagOK_empty r p true
  | cons x rest ih =>
    obtain ⟨k, t⟩ := x
    have ht : FlagOK t := h (k, t) (by simp)
    have hr : AllFlagOK rest := fun q hq => h q (List.mem_cons_of_mem _ hq)
    simp only [stageOp]
    split
    · intro q hq
      rcases List.mem_cons.mp hq with rfl | hq
      · exact flagOK_add ht r p true
      · exact hr q hq
    · split
      · intro q hq
        rcases List.mem_cons.mp hq with rfl | hq
        · exact flagOK_add flagOK_empty r p true
        · exact h q hq
      · intro q hq
        rcases List.mem_cons.mp hq with rfl | hq
        · exact ht
        · exact ih hr q hq

theorem stageAll_flagOK {docs : List (Str × RevTree)} (h : AllFlagOK docs) (cs : List Change) :
    AllFlagOK (stageAll docs cs) := by
  unfold stageAll
  induction cs generalizing docs with
  | nil => exact h
  | cons c cs ih => exact ih (stageOp_flagOK h c.uuid c.rev c.parent)

/-- a staging addition does not change what `unstage` returns -/
theorem unstage_add {t : RevTree} (h : FlagOK t) (r : Rev) (p : Option Rev) :
    (t.add r p true).1.unstage = t.unstage := by
  rw [unstage_eq (flagOK_add h r p true), unstage_eq h]
  have : committed (t.add r p true).1.entries = committed t.entries := staging_only_adds t r p
  rw [this]

/-- a tree created while staging disappears on `unstage` -/
theorem unstage_new_isEmpty (r : Rev) (p : Option Rev) :
    (RevTree.empty.add r p true).1.unstage.isEmpty = true := by
  rw [unstage_add flagOK_empty, unstage_eq flagOK_empty]
  rfl

theorem unstageDocs_cons (k : Str) (t : RevTree) (rest : List (Str × RevTree)) :
    unstageDocs ((k, t) :: rest) =
      if t.unstage.isEmpty then unstageDocs rest else (k, t.unstage) :: unstageDocs rest := by
  unfold unstageDocs
  simp only [List.map_cons, List.filter_cons]
  cases t.unstage.isEmpty <;> simp

theorem unstageDocs_stageOp {docs : List (Str × RevTree)} (h : AllFlagOK docs) (u : Str) (r : Rev)
    (p : Option Rev) : unstageDocs (stageOp docs u r p) = unstageDocs docs := by
  induction docs with
  | nil =>
    simp only [stageOp]
    rw [unstageDocs_cons, unstage_new_isEmpty]; rfl
  | cons x rest ih =>
    obtain ⟨k, t⟩ := x
    have ht : FlagOK t := h (k, t) (by simp)
    have hr : AllFlagOK rest := fun q hq => h q (List.mem_cons_of_mem _ hq)
    simp only [stageOp]
    split
    · rw [unstageDocs_cons, unstageDocs_cons, unstage_add ht]
    · split
      · rw [unstageDocs_cons, unstage_new_isEmpty]; rfl
      · rw [unstageDocs_cons, unstageDocs_cons, ih hr]

theorem unstageDocs_stageAll {docs : List (Str × RevTree)} (h : AllFlagOK docs) (cs : List Change) :
    unstageDocs (stageAll docs cs) = unstageDocs docs := by
  unfold stageAll
  induction cs generalizing docs with
  | nil => rfl
  | cons c cs ih =>
    simp only [List.foldl_cons]
    rw [ih (stageOp_flagOK h c.uuid c.rev c.parent), unstageDocs_stageOp h]

/-- on a clean document map (no flag set, every tree validated and non-empty) `unstage` changes nothing -/
theorem unstageDocs_clean {docs : List (Str × RevTree)} (hs : ∀ p ∈ docs, p.2.staging = false)
    (hv : ∀ p ∈ docs, Validated p.2) (hne : ∀ p ∈ docs, p.2.isEmpty = false) : unstageDocs docs = docs := by
  induction docs with
  | nil => rfl
  | cons x rest ih =>
    obtain ⟨k, t⟩ := x
    have h1 : t.unstage = t := by
      rw [unstage_of_not_staging (hs (k, t) (by simp))]; exact hv (k, t) (by simp)
    rw [unstageDocs_cons, h1, hne (k, t) (by simp)]
    simp only [Bool.false_eq_true, if_false]
    rw [ih (fun q hq => hs q (List.mem_cons_of_mem _ hq)) (fun q hq => hv q (List.mem_cons_of_mem _ hq))
      (fun q hq => hne q (List.mem_cons_of_mem _ hq))]

/-- **Discarding the stage gives back the document map exactly** (full structural equality of the state):
    for a state with an empty stage whose trees are validated, non-empty and carry correct flags, after any
    sequence of staging operations (on existing or new documents). Trees created while staging vanish because
    they become empty; existing trees are restored by `unstage_restores_eq`. -/
theorem unstage_docs_restores (st : PState) (hns : st.hasStaging = false) (hf : ∀ p ∈ st.docs, FlagOK p.2)
    (hv : ∀ p ∈ st.docs, Validated p.2) (hne : ∀ p ∈ st.docs, p.2.isEmpty = false) (cs : List Change) :
    PState.unstage { st with docs := stageAll st.docs cs } = st := by
  have hs : ∀ p ∈ st.docs, p.2.staging = false := by
    intro p hp
    unfold PState.hasStaging at hns
    simpa using (List.any_eq_false.mp hns) p hp
  have : unstageDocs (stageAll st.docs cs) = st.docs := by
    rw [unstageDocs_stageAll hf, unstageDocs_clean hs hv hne]
  cases st
  simp only [PState.unstage] at *
  congr

/-! ## 7. export and replay -/

/-- **`stagedChanges` lists exactly the staging entries** (uuid, revision, parent) -/
theorem mem_stagedChanges (docs : List (Str × RevTree)) (c : Change) :
    c ∈ PState.stagedChanges docs ↔ ∃ p ∈ docs, p.1 = c.uuid ∧ (⟨c.rev, c.parent, true⟩ : RtEntry) ∈ p.2.entries := by
  unfold PState.stagedChanges
  simp only [List.mem_flatMap, List.mem_map, List.mem_filter]
  constructor
  · rintro ⟨p, hp, e, ⟨he, hs⟩, rfl⟩
    refine ⟨p, hp, rfl, ?_⟩
    cases e; simp_all
  · rintro ⟨p, hp, hu, he⟩
    refine ⟨p, hp, ⟨c.rev, c.parent, true⟩, ⟨he, rfl⟩, ?_⟩
    cases c; simp_all

/-- the exported list, tree by tree, in entry order -/
theorem stagedChanges_eq (docs : List (Str × RevTree)) :
    PState.stagedChanges docs =
      docs.flatMap (fun p => (staged p.2.entries).map (fun e => ⟨p.1, e.rev, e.parent⟩)) := rfl

theorem strLt_total (a b : Str) (hne : a ≠ b) (h : strLt a b = false) : strLt b a = true := by
  induction a generalizing b with
  | nil =>
    cases b with
    | nil => exact absurd rfl hne
    | cons y ys => simp [strLt] at h
  | cons x xs ih =>
    cases b with
    | nil => simp [strLt]
    | cons y ys =>
      simp only [strLt] at h ⊢
      by_cases h1 : x.val < y.val
      · simp [h1] at h
      · by_cases h2 : y.val < x.val
        · simp [h2]
        · simp only [h1, h2, if_false] at h ⊢
          have hxy : x = y := by
            apply Char.ext
            rw [UInt32.lt_iff_toNat_lt] at h1 h2
            apply UInt32.toNat_inj.mp
            omega
          subst hxy
          exact ih ys (fun e => hne (by rw [e])) h

/-- the document map is a `BTreeMap`: keys strictly increasing -/
def DocsSorted (docs : List (Str × RevTree)) : Prop := docs.Pairwise (fun p q => strLt p.1 q.1 = true)

/-- the tree of a document (the empty tree when there is none) -/
def treeOf (docs : List (Str × RevTree)) (u : Str) : RevTree :=
  match docs.find? (fun p => p.1 = u) with
  | some p => p.2
  | none => RevTree.empty

def entriesOf (docs : List (Str × RevTree)) (u : Str) : List RtEntry := (treeOf docs u).entries

theorem treeOf_nil (u : Str) : treeOf [] u = RevTree.empty := rfl

theorem treeOf_cons (k : Str) (t : RevTree) (rest : List (Str × RevTree)) (u : Str) :
    treeOf ((k, t) :: rest) u = if k = u then t else treeOf rest u := by
  unfold treeOf
  by_cases h : k = u <;> simp [List.find?_cons, h]

theorem treeOf_of_not_mem {docs : List (Str × RevTree)} {u : Str} (h : ∀ q ∈ docs, q.1 ≠ u) :
    treeOf docs u = RevTree.empty := by
  induction docs with
  | nil => rfl
  | cons x rest ih =>
    obtain ⟨k, t⟩ := x
    rw [treeOf_cons, if_neg (h (k, t) (by simp)), ih (fun q hq => h q (List.mem_cons_of_mem _ hq))]

theorem treeOf_mem_or (docs : List (Str × RevTree)) (u : Str) :
    treeOf docs u = RevTree.empty ∨ ∃ p ∈ docs, p.1 = u ∧ p.2 = treeOf docs u := by
  induction docs with
  | nil => exact Or.inl rfl
  | cons x rest ih =>
    obtain ⟨k, t⟩ := x
    rw [treeOf_cons]
    split
    · next h => exact Or.inr ⟨(k, t), by simp, h, rfl⟩
    · rcases ih with h | ⟨p, hp, h1, h2⟩
      · exact Or.inl h
      · exact Or.inr ⟨p, List.mem_cons_of_mem _ hp, h1, h2⟩

theorem sorted_head_ne {k : Str} {t : RevTree} {rest : List (Str × RevTree)} (hs : DocsSorted ((k, t) :: rest)) :
    ∀ q ∈ rest, q.1 ≠ k := by
  intro q hq e
  have := (List.pairwise_cons.mp hs).1 q hq
  simp only at this
  rw [e, C05.strLt_irrefl] at this
  cases this

theorem mem_entriesOf_iff {docs : List (Str × RevTree)} (hs : DocsSorted docs) (u : Str) (x : RtEntry) :
    x ∈ entriesOf docs u ↔ ∃ p ∈ docs, p.1 = u ∧ x ∈ p.2.entries := by
  unfold entriesOf
  induction docs with
  | nil => simp [treeOf_nil, RevTree.empty]
  | cons y rest ih =>
    obtain ⟨k, t⟩ := y
    have hne := sorted_head_ne hs
    rw [treeOf_cons]
    split
    · next h =>
      subst h
      constructor
      · intro hx; exact ⟨(k, t), by simp, rfl, hx⟩
      · rintro ⟨p, hp, h1, h2⟩
        rcases List.mem_cons.mp hp with rfl | hp
        · exact h2
        · exact absurd h1 (hne p hp)
    · next h =>
      rw [ih (List.pairwise_cons.mp hs).2]
      constructor
      · rintro ⟨p, hp, h1, h2⟩; exact ⟨p, List.mem_cons_of_mem _ hp, h1, h2⟩
      · rintro ⟨p, hp, h1, h2⟩
        rcases List.mem_cons.mp hp with rfl | hp
        · exact absurd h1 h
        · exact ⟨p, hp, h1, h2⟩

/-- on a sorted map: the exported changes of `u` are the staging entries of the tree of `u` -/
theorem mem_stagedChanges_sorted {docs : List (Str × RevTree)} (hs : DocsSorted docs) (c : Change) :
    c ∈ PState.stagedChanges docs ↔ (⟨c.rev, c.parent, true⟩ : RtEntry) ∈ entriesOf docs c.uuid := by
  rw [mem_stagedChanges, mem_entriesOf_iff hs]

theorem stageOp_keys (docs : List (Str × RevTree)) (u : Str) (r : Rev) (p : Option Rev) :
    ∀ q ∈ stageOp docs u r p, q.1 = u ∨ ∃ q' ∈ docs, q'.1 = q.1 := by
  induction docs with
  | nil => intro q hq; simp only [stageOp, List.mem_singleton] at hq; subst hq; exact Or.inl rfl
  | cons x rest ih =>
    obtain ⟨k, t⟩ := x
    simp only [stageOp]
    split
    · intro q hq
      rcases List.mem_cons.mp hq with rfl | hq
      · exact Or.inr ⟨(k, t), by simp, rfl⟩
      · exact Or.inr ⟨q, List.mem_cons_of_mem _ hq, rfl⟩
    · split
      · intro q hq
        rcases List.mem_cons.mp hq with rfl | hq
        · exact Or.inl rfl
        · exact Or.inr ⟨q, hq, rfl⟩
      · intro q hq
        rcases List.mem_cons.mp hq with rfl | hq
        · exact Or.inr ⟨(k, t), by simp, rfl⟩
        · rcases ih q hq with h | ⟨q', hq', h⟩
          · exact Or.inl h
          · exact Or.inr ⟨q', List.mem_cons_of_mem _ hq', h⟩

/-- staging keeps the map sorted -/
theorem stageOp_sorted {docs : List (Str × RevTree)} (hs : DocsSorted docs) (u : Str) (r : Rev) (p : Option Rev) :
    DocsSorted (stageOp docs u r p) := by
  induction docs with
  | nil => simp [stageOp, DocsSorted]
  | cons x rest ih =>
    obtain ⟨k, t⟩ := x
    obtain ⟨h1, h2⟩ := List.pairwise_cons.mp hs
    simp only [stageOp]
    split
    · exact List.pairwise_cons.mpr ⟨h1, h2⟩
    · next hk =>
      split
      · next hlt =>
        refine List.pairwise_cons.mpr ⟨?_, hs⟩
        intro q hq
        rcases List.mem_cons.mp hq with rfl | hq
        · exact hlt
        · exact C05.strLt_trans _ _ _ hlt (h1 q hq)
      · next hlt =>
        refine List.pairwise_cons.mpr ⟨?_, ih h2⟩
        intro q hq
        rcases stageOp_keys rest u r p q hq with h | ⟨q', hq', h⟩
        · rw [h]; exact strLt_total u k (fun e => hk e.symm) (by simpa using hlt)
        · rw [← h]; exact h1 q' hq'

theorem stageAll_sorted {docs : List (Str × RevTree)} (hs : DocsSorted docs) (cs : List Change) :
    DocsSorted (stageAll docs cs) := by
  unfold stageAll
  induction cs generalizing docs with
  | nil => exact hs
  | cons c cs ih => exact ih (stageOp_sorted hs c.uuid c.rev c.parent)

theorem unstageDocs_keys (docs : List (Str × RevTree)) : ∀ q ∈ unstageDocs docs, ∃ q' ∈ docs, q'.1 = q.1 := by
  intro q hq
  unfold unstageDocs at hq
  obtain ⟨q', hq', rfl⟩ := List.mem_map.mp (List.mem_filter.mp hq).1
  exact ⟨q', hq', rfl⟩

theorem unstageDocs_sorted {docs : List (Str × RevTree)} (hs : DocsSorted docs) : DocsSorted (unstageDocs docs) := by
  unfold unstageDocs DocsSorted
  apply List.Pairwise.sublist List.filter_sublist
  rw [List.pairwise_map]
  exact hs

/-- the tree of `u` after one staging operation on a sorted map -/
theorem treeOf_stageOp {docs : List (Str × RevTree)} (hs : DocsSorted docs) (u : Str) (r : Rev) (p : Option Rev)
    (u' : Str) :
    treeOf (stageOp docs u r p) u' = if u' = u then ((treeOf docs u).add r p true).1 else treeOf docs u' := by
  induction docs with
  | nil =>
    simp only [stageOp, treeOf_cons, treeOf_nil]
    by_cases h : u = u'
    · subst h; simp
    · have : ¬ u' = u := fun e => h e.symm
      simp [h, this]
  | cons x rest ih =>
    obtain ⟨k, t⟩ := x
    obtain ⟨h1, h2⟩ := List.pairwise_cons.mp hs
    simp only [stageOp]
    split
    · next hk =>
      subst hk
      simp only [treeOf_cons, if_true]
      by_cases h : k = u'
      · subst h; simp
      · have : ¬ u' = k := fun e => h e.symm
        simp [h, this]
    · next hk =>
      split
      · next hlt =>
        have hnone : treeOf ((k, t) :: rest) u = RevTree.empty := by
          apply treeOf_of_not_mem
          intro q hq e
          have : strLt u q.1 = true := by
            rcases List.mem_cons.mp hq with rfl | hq
            · exact hlt
            · exact C05.strLt_trans _ _ _ hlt (h1 q hq)
          rw [e, C05.strLt_irrefl] at this
          cases this
        rw [hnone, treeOf_cons (u := u') u]
        by_cases h : u = u'
        · subst h; simp
        · have : ¬ u' = u := fun e => h e.symm
          simp [h, this]
      · rw [treeOf_cons, ih h2, treeOf_cons, treeOf_cons, if_neg hk]
        by_cases h : u' = u
        · subst h
          simp [hk]
        · simp [h]

/-- the entries of `u` after `unstage` are the committed ones -/
theorem entriesOf_unstageDocs {docs : List (Str × RevTree)} (hs : DocsSorted docs) (hf : AllFlagOK docs) (u : Str) :
    entriesOf (unstageDocs docs) u = committed (entriesOf docs u) := by
  unfold entriesOf
  induction docs with
  | nil => rfl
  | cons x rest ih =>
    obtain ⟨k, t⟩ := x
    have ht : FlagOK t := hf (k, t) (by simp)
    have hr : AllFlagOK rest := fun q hq => hf q (List.mem_cons_of_mem _ hq)
    have hne := sorted_head_ne hs
    have ih' := ih (List.pairwise_cons.mp hs).2 hr
    rw [unstageDocs_cons, treeOf_cons]
    by_cases hk : k = u
    · subst hk
      simp only [if_true]
      split
      · next hemp =>
        have : treeOf (unstageDocs rest) k = RevTree.empty := by
          apply treeOf_of_not_mem
          intro q hq e
          obtain ⟨q', hq', h⟩ := unstageDocs_keys rest q hq
          exact hne q' hq' (h.trans e)
        rw [this, ← unstage_entries ht]
        simp only [RevTree.isEmpty, List.isEmpty_iff] at hemp
        rw [hemp]; rfl
      · rw [treeOf_cons, if_pos rfl, unstage_entries ht]
    · simp only [if_neg hk]
      split
      · exact ih'
      · rw [treeOf_cons, if_neg hk]; exact ih'

theorem keysNodup_unique {es : List RtEntry} (hk : C05.KeysNodup es) {e₁ e₂ : RtEntry} (h1 : e₁ ∈ es) (h2 : e₂ ∈ es)
    (h : e₁.rev = e₂.rev) : e₁ = e₂ := by
  have a := C05.find?_of_mem hk h1
  have b := C05.find?_of_mem hk h2
  rw [h] at a
  rw [a] at b
  exact Option.some.inj b

theorem entry_eq_iff (e : RtEntry) (c : Change) (u : Str) (hu : u = c.uuid) :
    (e.staging = true ∧ (⟨u, e.rev, e.parent⟩ : Change) = c) ↔ e = ⟨c.rev, c.parent, true⟩ := by
  cases e; cases c
  simp only [Change.mk.injEq, RtEntry.mk.injEq] at *
  constructor
  · rintro ⟨h1, _, h2, h3⟩; exact ⟨h2, h3, h1⟩
  · rintro ⟨h1, h2, h3⟩; exact ⟨h3, hu, h1, h2⟩

/-- replaying one exported change into a map whose trees hold only entries of the original -/
theorem mem_entriesOf_stageOp_replay {docs D : List (Str × RevTree)} (c : Change)
    (hk : C05.KeysNodup (entriesOf docs c.uuid))
    (hc : (⟨c.rev, c.parent, true⟩ : RtEntry) ∈ entriesOf docs c.uuid)
    (hD : DocsSorted D) (hsub : ∀ e ∈ entriesOf D c.uuid, e ∈ entriesOf docs c.uuid) (u : Str) (e : RtEntry) :
    e ∈ entriesOf (stageOp D c.uuid c.rev c.parent) u ↔
      e ∈ entriesOf D u ∨ (e.staging = true ∧ (⟨u, e.rev, e.parent⟩ : Change) = c) := by
  unfold entriesOf at *
  rw [treeOf_stageOp hD]
  by_cases hu : u = c.uuid
  · rw [if_pos hu, entry_eq_iff e c u hu, add_entries, hu]
    split
    · next hcon =>
      obtain ⟨e', he', hr⟩ := (C05.contains_iff _ _).mp hcon
      have : e' = ⟨c.rev, c.parent, true⟩ := keysNodup_unique hk (hsub e' he') hc hr
      subst this
      constructor
      · exact Or.inl
      · rintro (h | h)
        · exact h
        · rw [h]; exact he'
    · simp
  · rw [if_neg hu]
    constructor
    · exact Or.inl
    · rintro (h | ⟨_, h⟩)
      · exact h
      · have : u = c.uuid := by rw [← h]
        exact absurd this hu

theorem stageAll_replay {docs : List (Str × RevTree)} (hk : ∀ u, C05.KeysNodup (entriesOf docs u))
    (cs : List Change) (hcs : ∀ c ∈ cs, (⟨c.rev, c.parent, true⟩ : RtEntry) ∈ entriesOf docs c.uuid)
    (D : List (Str × RevTree)) (hD : DocsSorted D) (hsub : ∀ u, ∀ e ∈ entriesOf D u, e ∈ entriesOf docs u)
    (u : Str) (e : RtEntry) :
    e ∈ entriesOf (stageAll D cs) u ↔
      e ∈ entriesOf D u ∨ (e.staging = true ∧ (⟨u, e.rev, e.parent⟩ : Change) ∈ cs) := by
  unfold stageAll
  induction cs generalizing D with
  | nil => simp
  | cons c cs ih =>
    have hc := hcs c (by simp)
    have step := mem_entriesOf_stageOp_replay c (hk c.uuid) hc hD (hsub c.uuid)
    simp only [List.foldl_cons]
    rw [ih (fun c' h' => hcs c' (List.mem_cons_of_mem _ h')) _ (stageOp_sorted hD _ _ _), step]
    · simp only [List.mem_cons]
      constructor
      · rintro ((h | ⟨h1, h2⟩) | ⟨h1, h2⟩)
        · exact Or.inl h
        · exact Or.inr ⟨h1, Or.inl h2⟩
        · exact Or.inr ⟨h1, Or.inr h2⟩
      · rintro (h | ⟨h1, h2 | h2⟩)
        · exact Or.inl (Or.inl h)
        · exact Or.inl (Or.inr ⟨h1, h2⟩)
        · exact Or.inr ⟨h1, h2⟩
    · intro u' e' he'
      rcases (step u' e').mp he' with h | ⟨h1, h2⟩
      · exact hsub u' e' h
      · have hu : u' = c.uuid := by rw [← h2]
        have := (entry_eq_iff e' c u' hu).mp ⟨h1, h2⟩
        rw [this, hu]; exact hc

/-- **Replay restores the stage**: export the staged changes, discard the stage, add the exported changes
    back in ANY order (repetitions allowed): every document then holds the same SET of entries
    (revision, parent, staging bit) as before. The list order inside a tree may differ; leaves and winner do
    not depend on it (`Melda.Props.C05.leafs_perm`, `Melda.Props.C05.winner_perm`). -/
theorem replay_restores_entries (docs : List (Str × RevTree)) (hs : DocsSorted docs) (hf : AllFlagOK docs)
    (hk : ∀ p ∈ docs, C05.KeysNodup p.2.entries)
    (cs : List Change) (hcs : ∀ c, c ∈ cs ↔ c ∈ PState.stagedChanges docs) (u : Str) (e : RtEntry) :
    e ∈ entriesOf (stageAll (unstageDocs docs) cs) u ↔ e ∈ entriesOf docs u := by
  have hk' : ∀ u, C05.KeysNodup (entriesOf docs u) := by
    intro u
    unfold entriesOf
    rcases treeOf_mem_or docs u with h | ⟨p, hp, _, h⟩
    · rw [h]; simp [RevTree.empty, C05.KeysNodup]
    · rw [← h]; exact hk p hp
  have hcs' : ∀ c ∈ cs, (⟨c.rev, c.parent, true⟩ : RtEntry) ∈ entriesOf docs c.uuid :=
    fun c hc => (mem_stagedChanges_sorted hs c).mp ((hcs c).mp hc)
  have hsub : ∀ u, ∀ e ∈ entriesOf (unstageDocs docs) u, e ∈ entriesOf docs u := by
    intro u e he
    rw [entriesOf_unstageDocs hs hf] at he
    exact (List.mem_filter.mp he).1
  rw [stageAll_replay hk' cs hcs' _ (unstageDocs_sorted hs) hsub, entriesOf_unstageDocs hs hf, hcs,
    mem_stagedChanges_sorted hs]
  unfold committed
  simp only [List.mem_filter]
  constructor
  · rintro (⟨h, _⟩ | ⟨h1, h2⟩)
    · exact h
    · have : e = ⟨e.rev, e.parent, true⟩ := by cases e; simp_all
      rw [this]; exact h2
  · intro h
    cases hst : e.staging with
    | false => exact Or.inl ⟨h, by simp [hst]⟩
    | true =>
      refine Or.inr ⟨rfl, ?_⟩
      have : e = ⟨e.rev, e.parent, true⟩ := by cases e; simp_all
      rw [← this]; exact h

/-- in particular: the replayed state exports the same changes -/
theorem replay_same_export (docs : List (Str × RevTree)) (hs : DocsSorted docs) (hf : AllFlagOK docs)
    (hk : ∀ p ∈ docs, C05.KeysNodup p.2.entries)
    (cs : List Change) (hcs : ∀ c, c ∈ cs ↔ c ∈ PState.stagedChanges docs) (c : Change) :
    c ∈ PState.stagedChanges (stageAll (unstageDocs docs) cs) ↔ c ∈ PState.stagedChanges docs := by
  rw [mem_stagedChanges_sorted (stageAll_sorted (unstageDocs_sorted hs) cs), mem_stagedChanges_sorted hs]
  exact replay_restores_entries docs hs hf hk cs hcs c.uuid _

/-! ## 5. commit clears the stage and keeps every entry -/

theorem commit_staging (t : RevTree) : t.commit.staging = false := by
  unfold commit; split
  · rfl
  · simpa using ‹¬ t.staging = true›

theorem commit_entries {t : RevTree} (h : FlagOK t) :
    t.commit.entries = t.entries.map (fun e => { e with staging := false }) := by
  unfold commit; split
  · rfl
  · next hs =>
    have hs' : t.staging = false := by simpa using hs
    have : ∀ e ∈ t.entries, e.staging = false := by
      intro e he
      cases hst : e.staging with
      | false => rfl
      | true => have := h.mpr ⟨e, he, hst⟩; rw [hs'] at this; cases this
    symm
    conv => rhs; rw [← List.map_id t.entries]
    apply List.map_congr_left
    intro e he
    have := this e he
    cases e; simp_all

theorem commit_no_staged {t : RevTree} (h : FlagOK t) : ∀ e ∈ t.commit.entries, e.staging = false := by
  rw [commit_entries h]
  intro e he
  obtain ⟨e', _, rfl⟩ := List.mem_map.mp he
  rfl

/-- committed entries after `commit` = all entries before (revision and parent) -/
theorem commit_keeps_all {t : RevTree} (h : FlagOK t) :
    (committed t.commit.entries).map (fun e => (e.rev, e.parent)) = t.entries.map (fun e => (e.rev, e.parent)) := by
  have : committed t.commit.entries = t.commit.entries := by
    unfold committed; rw [List.filter_eq_self]; intro e he; simp [commit_no_staged h e he]
  rw [this, commit_entries h, List.map_map]; rfl

theorem commit_clears (st : PState) (b : Block) (objs : List Str) (pk : Option Str) :
    (PState.commitBook st b objs pk).hasStaging = false := by
  unfold PState.commitBook PState.hasStaging
  simp [commit_staging]

theorem commit_stagedChanges (st : PState) (hf : ∀ p ∈ st.docs, FlagOK p.2) (b : Block) (objs : List Str)
    (pk : Option Str) : PState.stagedChanges (PState.commitBook st b objs pk).docs = [] := by
  unfold PState.commitBook PState.stagedChanges
  simp only [List.flatMap_eq_nil_iff, List.mem_map, List.map_eq_nil_iff, List.filter_eq_nil_iff]
  rintro _ ⟨p, hp, rfl⟩ e he
  simp [commit_no_staged (hf p hp) e he]

/-! ## 6. guards: nothing is reloaded over a non-empty stage -/

theorem guards (st : PState) (v : View) (anchors : List BlockId) (h : st.hasStaging = true) :
    PState.reload st v = .error .stageNotEmpty ∧ PState.refresh st v = .error .stageNotEmpty ∧
    PState.reloadUntil st v anchors = .error .stageNotEmpty := by
  have h1 : PState.reload st v = .error .stageNotEmpty := by unfold PState.reload; simp [h]
  refine ⟨h1, by unfold PState.refresh; simp [h], ?_⟩
  unfold PState.reloadUntil
  split
  · exact h1
  · simp [h]

/-! ## non-vacuity -/

section Example
open C05 (r1 r2a r2b)

def r3s : Rev := Rev.upd C05.H "dd".toList r2a

/-- two committed entries -/
def exT0 : RevTree := ((RevTree.empty.add r1 none false).1.add r2a (some r1) false).1
def exOps : List (Rev × Option Rev) := [(r2b, some r1), (r3s, some r2a)]
/-- … and two staged ones -/
def exT : RevTree := stageFold exT0 exOps

instance (docs : List (Str × RevTree)) : Decidable (DocsSorted docs) := by unfold DocsSorted; infer_instance
instance (docs : List (Str × RevTree)) : Decidable (AllFlagOK docs) := by unfold AllFlagOK; infer_instance
instance (es : List RtEntry) : Decidable (C05.KeysNodup es) := by unfold C05.KeysNodup; infer_instance

example : exT.entries =
    [⟨r1, none, false⟩, ⟨r2a, some r1, false⟩, ⟨r2b, some r1, true⟩, ⟨r3s, some r2a, true⟩] := by decide
example : exT.staging = true ∧ exT.leafs = [r2b, r3s] ∧ exT.winner = some r3s := by decide
example : exT0.leafs = [r2a] ∧ exT0.winner = some r2a ∧ exT0.staging = false := by decide
/-- the hypotheses of `unstage_restores` / `unstage_restores_eq` hold of `exT0` -/
example : (∀ e ∈ exT0.entries, e.staging = false) ∧ FlagOK exT0 ∧ Validated exT0 := by decide
example : FlagOK exT := by decide
example : exT.unstage = exT0 := by decide
example : exT.commit.entries =
    [⟨r1, none, false⟩, ⟨r2a, some r1, false⟩, ⟨r2b, some r1, false⟩, ⟨r3s, some r2a, false⟩] := by decide
/-- staging the same revision twice changes nothing -/
example : stageFold exT0 (exOps ++ exOps) = exT := by decide

/-- document map: one committed document `a`; staging extends `a` and creates `b` -/
def exDocs0 : List (Str × RevTree) := [("a".toList, exT0)]
def exCs : List Change :=
  [⟨"b".toList, r1, none⟩, ⟨"a".toList, r2b, some r1⟩, ⟨"b".toList, r2a, some r1⟩, ⟨"a".toList, r3s, some r2a⟩]
def exDocs : List (Str × RevTree) := stageAll exDocs0 exCs

example : exDocs.map (·.1) = ["a".toList, "b".toList] := by decide
example : entriesOf exDocs "b".toList = [⟨r1, none, true⟩, ⟨r2a, some r1, true⟩] := by decide
/-- the hypotheses of `unstage_docs_restores` hold of `{ docs := exDocs0 }` -/
example : PState.hasStaging { docs := exDocs0 } = false ∧ (∀ p ∈ exDocs0, FlagOK p.2) ∧
    (∀ p ∈ exDocs0, Validated p.2) ∧ (∀ p ∈ exDocs0, p.2.isEmpty = false) := by decide
example : PState.hasStaging { docs := exDocs } = true := by decide
example : (PState.unstage { docs := exDocs }).docs = exDocs0 := by decide
/-- the hypotheses of `replay_restores_entries` hold of `exDocs` -/
example : DocsSorted exDocs ∧ AllFlagOK exDocs ∧ ∀ p ∈ exDocs, C05.KeysNodup p.2.entries := by decide
example : PState.stagedChanges exDocs =
    [⟨"a".toList, r2b, some r1⟩, ⟨"a".toList, r3s, some r2a⟩, ⟨"b".toList, r1, none⟩, ⟨"b".toList, r2a, some r1⟩] := by
  decide
/-- replay in the exported order restores the document map exactly -/
example : stageAll (unstageDocs exDocs) (PState.stagedChanges exDocs) = exDocs := by decide
/-- replay in another order (children before parents): the same entries in another list order … -/
example : entriesOf (stageAll (unstageDocs exDocs) (PState.stagedChanges exDocs).reverse) "b".toList =
    [⟨r2a, some r1, true⟩, ⟨r1, none, true⟩] := by decide
/-- … and the same leaves and winner -/
example : (treeOf (stageAll (unstageDocs exDocs) (PState.stagedChanges exDocs).reverse) "b".toList).leafs =
    (treeOf exDocs "b".toList).leafs ∧
    (treeOf (stageAll (unstageDocs exDocs) (PState.stagedChanges exDocs).reverse) "b".toList).winner =
    (treeOf exDocs "b".toList).winner := by decide
example : (PState.commitBook { docs := exDocs } default [] none).docs.map (fun p => (p.1, p.2.entries.length, p.2.staging)) =
    [("a".toList, 4, false), ("b".toList, 2, false)] := by decide

end Example

end Melda.Props.C15
