/-
  C17 — all storage backends implement the same write-once contract.
  `KVSpec` is the contract; every real backend × wrapper is compared with it literally by the
  `kv` correspondence channel. Here: the contract's own laws (what a replica relies on), and the
  refinement of the wrapper logic (`Flate2Adapter` / `BrotliAdapter`: key suffixing over any backend
  that satisfies the contract, any codec with a round trip).
-/
import Melda.Adapter
namespace Melda.Props.C17
open Melda

theorem get_insertSorted_self (k : Str) (v : Bytes) (l : List (Str × Bytes)) (h : ∀ p ∈ l, p.1 ≠ k) :
    (KVSpec.insertSorted k v l).find? (fun p => p.1 = k) = some (k, v) := by
  induction l with
  | nil => simp [KVSpec.insertSorted]
  | cons x xs ih =>
    obtain ⟨k', v'⟩ := x
    simp only [KVSpec.insertSorted]
    split
    · simp
    · have hk : k' ≠ k := h (k', v') (by simp)
      simp [hk]
      exact ih (fun p hp => h p (List.mem_cons_of_mem _ hp))

theorem get_insertSorted_other (k k2 : Str) (v : Bytes) (l : List (Str × Bytes)) (hne : k2 ≠ k) :
    (KVSpec.insertSorted k v l).find? (fun p => p.1 = k2) = l.find? (fun p => p.1 = k2) := by
  have hne' : ¬ k = k2 := fun e => hne e.symm
  induction l with
  | nil => simp [KVSpec.insertSorted, List.find?_cons, hne']
  | cons x xs ih =>
    obtain ⟨k', v'⟩ := x
    simp only [KVSpec.insertSorted]
    split
    · simp [List.find?_cons, hne']
    · by_cases hk : k' = k2
      · simp [hk]
      · simp [hk, ih]

theorem find_none_of_get_none (kv : KVSpec) (k : Str) (h : kv.get k = none) : ∀ p ∈ kv.items, p.1 ≠ k := by
  intro p hp e
  simp only [KVSpec.get, Option.map_eq_none_iff] at h
  have := List.find?_eq_none.mp h p hp
  simp [e] at this

/-- **A read returns exactly the bytes of the first write to that key.** -/
theorem read_write_same (kv : KVSpec) (k : Str) (v : Bytes) :
    (kv.write k v).read k = some ((kv.read k).getD v) := by
  unfold KVSpec.write KVSpec.read
  cases h : kv.get k with
  | some d => simp [h]
  | none =>
    simp only [KVSpec.get, Option.getD_none]
    rw [get_insertSorted_self k v kv.items (find_none_of_get_none kv k h)]
    rfl

/-- writes to one key never change what another key reads -/
theorem read_write_other (kv : KVSpec) (k k2 : Str) (v : Bytes) (hne : k2 ≠ k) :
    (kv.write k v).read k2 = kv.read k2 := by
  unfold KVSpec.write KVSpec.read
  cases h : kv.get k with
  | some d => rfl
  | none => simp only [KVSpec.get]; rw [get_insertSorted_other k k2 v kv.items hne]

/-- **Write-once**: once a key reads some bytes, it reads the same bytes after any further writes. -/
theorem read_stable (kv : KVSpec) (ws : List (Str × Bytes)) (k : Str) (d : Bytes) (h : kv.read k = some d) :
    (ws.foldl (fun s w => s.write w.1 w.2) kv).read k = some d := by
  induction ws generalizing kv with
  | nil => simpa
  | cons w ws ih =>
    apply ih
    by_cases hk : k = w.1
    · subst hk; rw [read_write_same, h]; rfl
    · rw [read_write_other _ _ _ _ hk]; exact h

/-- a ranged read is the corresponding slice of the whole read -/
theorem readRange_eq_slice (kv : KVSpec) (k : Str) (off len : Nat) (d : Bytes)
    (h : kv.read k = some d) (hr : off + len ≤ d.length) :
    kv.readRange k off len = some ((d.drop off).take len) := by
  unfold KVSpec.readRange; unfold KVSpec.read at h; simp [h, hr]

theorem isSuffix_iff (ext s : Str) : KVSpec.isSuffix ext s = true ↔ ∃ stem, s = stem ++ ext := by
  unfold KVSpec.isSuffix
  simp only [Bool.and_eq_true, decide_eq_true_eq]
  constructor
  · rintro ⟨hl, hd⟩
    refine ⟨s.take (s.length - ext.length), ?_⟩
    conv => lhs; rw [← List.take_append_drop (s.length - ext.length) s]
    rw [hd]
  · rintro ⟨stem, rfl⟩
    simp

/-- **Listing by suffix returns exactly the matching keys with the suffix removed.** -/
theorem mem_list_iff (kv : KVSpec) (ext stem : Str) :
    stem ∈ kv.list ext ↔ ∃ v, (stem ++ ext, v) ∈ kv.items := by
  unfold KVSpec.list
  simp only [List.mem_map, List.mem_filter]
  constructor
  · rintro ⟨⟨k, v⟩, ⟨hmem, hsuf⟩, rfl⟩
    obtain ⟨st, hst⟩ := (isSuffix_iff ext k).mp hsuf
    subst hst
    refine ⟨v, ?_⟩
    simpa using hmem
  · rintro ⟨v, hmem⟩
    refine ⟨(stem ++ ext, v), ⟨hmem, (isSuffix_iff _ _).mpr ⟨stem, rfl⟩⟩, ?_⟩
    simp

/-! ### The compression wrappers (`flate2adapter.rs`, `brotliadapter.rs`)
  `W` stores `enc data` under `key ++ sfx` in any backend; reads decode the whole stored value and
  slice afterwards; listing asks the backend for `ext ++ sfx`. -/

structure Codec where
  enc : Bytes → Bytes
  dec : Bytes → Option Bytes
  roundtrip : ∀ d, dec (enc d) = some d

def wWrite (c : Codec) (sfx : Str) (kv : KVSpec) (k : Str) (d : Bytes) : KVSpec := kv.write (k ++ sfx) (c.enc d)
def wRead (c : Codec) (sfx : Str) (kv : KVSpec) (k : Str) : Option Bytes := (kv.read (k ++ sfx)).bind c.dec

/-- abstraction: the logical content of a wrapped store -/
def wInv (c : Codec) (sfx : Str) (inner : KVSpec) (logical : KVSpec) : Prop :=
  ∀ k, wRead c sfx inner k = logical.read k

/-- **The wrapper refines the contract**: if the wrapped store represents `logical`, a wrapped write
    represents the contract's write, for every codec with a round trip. -/
theorem wrapper_write_refines (c : Codec) (sfx : Str) (inner logical : KVSpec) (k : Str) (d : Bytes)
    (h : wInv c sfx inner logical) (hdec : ∀ k e, inner.read (k ++ sfx) = some e → (c.dec e).isSome) :
    wInv c sfx (wWrite c sfx inner k d) (logical.write k d) := by
  intro k2
  unfold wWrite wRead
  by_cases hk : k2 = k
  · subst hk
    rw [read_write_same, read_write_same]
    cases hi : inner.read (k2 ++ sfx) with
    | none =>
      have hl : logical.read k2 = none := by
        have := h k2; unfold wRead at this; rw [hi] at this; simpa using this.symm
      simp [hl, c.roundtrip]
    | some e =>
      have := h k2; unfold wRead at this; rw [hi] at this
      obtain ⟨x, hx⟩ := Option.isSome_iff_exists.mp (hdec k2 e hi)
      simp [hx] at this
      simp [hx, ← this]
  · have hne : k2 ++ sfx ≠ k ++ sfx := fun e => hk (List.append_cancel_right e)
    rw [read_write_other _ _ _ _ hne, read_write_other _ _ _ _ hk]
    exact h k2

/-- non-vacuity -/
example : ((KVSpec.empty.write "ab".toList [1, 2]).write "ab".toList [3]).read "ab".toList = some [1, 2] := by decide

end Melda.Props.C17
