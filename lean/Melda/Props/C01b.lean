/-
  C01b — "Exchanging items in both directions until neither side learns anything new always reaches
  this common state" (C01, last sentence).

  1. `SameValid`: two views show the same *valid* content (listed-and-fetchable blocks with equal fetch
     results, listed packs with equal load results, the same loadable pack names); unlisted or
     unfetchable junk is ignored.  `complete_sameValid`, `synced_sameValid`, `converge_sameValid` (MAIN).
  2. `meldStore`: one meld at storage level.  `meldStore_le`, `fetch_after_meld`, `loadPack_after_meld`.
     `meld_blocked_by_junk`: the hash-gate hypothesis of `fetch_after_meld` cannot be dropped (stores are
     write-once: a corrupted file under the name of a valid block can never be replaced).
  3. `sync_round_converges` (MAIN): A ← B, refresh A, B ← A', refresh B gives `SameValid` stores and
     `Agree`ing replicas.
  4. `sync_idempotent`: afterwards a meld in either direction copies nothing.
  5. `refresh_after_meld_ok`, `sync_round_total`: the round can always be performed (nothing staged).
  6. A concrete round over byte stores (hash `Hlen`) satisfying every hypothesis, and
     `meld_blocked_by_junk`.

  Hypotheses of 3/4 beyond `Synced`/`DocsOK`: `Compat` (no hash collision between the two stores under one
  key), `GateOK` (no corrupted block file; necessary), `ViewFunctional` of the final store, `CmpOrder`.
-/
import Melda.Props.C01
import Melda.Props.C11
namespace Melda.Props.C01b
open Melda PState
open Melda.Props.Proto Melda.Props.C02 Melda.Props.C01
open Melda.Props.C05 (CmpOrder)
open Melda.Props.C15 (entriesOf)

/-! ### 1. same valid content -/

/-- two views show the same valid content: the same identifiers are listed-and-fetchable, with the same
    blocks; the same pack names are listed, listed packs load to the same result, and the same names are
    loadable at all (`Complete` asks `loadPack` for the packs a block names, listed or not). Nothing is
    said about identifiers that are listed but not fetchable, or fetchable but not listed. -/
structure SameValid (v₁ v₂ : View) : Prop where
  ids : ∀ id, (id ∈ v₁.blockIds ∧ (v₁.fetch id).isSome) ↔ (id ∈ v₂.blockIds ∧ (v₂.fetch id).isSome)
  fetch12 : ∀ id b, id ∈ v₁.blockIds → v₁.fetch id = some b → v₂.fetch id = some b
  fetch21 : ∀ id b, id ∈ v₂.blockIds → v₂.fetch id = some b → v₁.fetch id = some b
  names : ∀ k, k ∈ v₁.packNames ↔ k ∈ v₂.packNames
  loadPack : ∀ k ∈ v₁.packNames, v₁.loadPack k = v₂.loadPack k
  loadable : ∀ k, (v₁.loadPack k).isSome ↔ (v₂.loadPack k).isSome

/-- every loadable pack is listed (true of the view of every byte store: `viewOf_packsListed`) -/
def PacksListed (v : View) : Prop := ∀ k, (v.loadPack k).isSome → k ∈ v.packNames

/-- the relation exactly as worded in the task (listed packs only) gives `SameValid` for views whose
    loadable packs are listed -/
theorem SameValid.of_listed {v₁ v₂ : View} (l₁ : PacksListed v₁) (l₂ : PacksListed v₂)
    (ids : ∀ id, (id ∈ v₁.blockIds ∧ (v₁.fetch id).isSome) ↔ (id ∈ v₂.blockIds ∧ (v₂.fetch id).isSome))
    (fetch12 : ∀ id b, id ∈ v₁.blockIds → v₁.fetch id = some b → v₂.fetch id = some b)
    (fetch21 : ∀ id b, id ∈ v₂.blockIds → v₂.fetch id = some b → v₁.fetch id = some b)
    (names : ∀ k, k ∈ v₁.packNames ↔ k ∈ v₂.packNames)
    (loadPack : ∀ k ∈ v₁.packNames, v₁.loadPack k = v₂.loadPack k) : SameValid v₁ v₂ := by
  refine ⟨ids, fetch12, fetch21, names, loadPack, ?_⟩
  intro k
  constructor
  · intro h; rw [← loadPack k (l₁ k h)]; exact h
  · intro h; rw [loadPack k ((names k).mpr (l₂ k h))]; exact h

theorem SameValid.refl (v : View) : SameValid v v :=
  ⟨fun _ => Iff.rfl, fun _ _ _ h => h, fun _ _ _ h => h, fun _ => Iff.rfl, fun _ _ => rfl, fun _ => Iff.rfl⟩

theorem SameValid.symm {v₁ v₂ : View} (h : SameValid v₁ v₂) : SameValid v₂ v₁ :=
  ⟨fun id => (h.ids id).symm, h.fetch21, h.fetch12, fun k => (h.names k).symm,
   fun k hk => (h.loadPack k ((h.names k).mpr hk)).symm, fun k => (h.loadable k).symm⟩

/-- `SameContent` (C01) is the special case where also the junk coincides -/
theorem SameContent.sameValid {v₁ v₂ : View} (h : SameContent v₁ v₂) : SameValid v₁ v₂ :=
  ⟨fun id => by rw [h.ids id, h.fetch id], fun id b _ hb => by rw [← h.fetch]; exact hb,
   fun id b _ hb => by rw [h.fetch]; exact hb, h.names, fun k _ => h.loadPack k, fun k => by rw [h.loadPack k]⟩

theorem complete_sameValid_imp {v₁ v₂ : View} {o₁ o₂ : List Str} (h : SameValid v₁ v₂)
    (ho : ∀ d ∈ o₁, d ∈ o₂) {id : BlockId} (hc : Complete v₁ o₁ id) : Complete v₂ o₂ id := by
  induction hc with
  | mk id b hid hf _ hk hr ih =>
    have hid₂ : id ∈ v₂.blockIds := ((h.ids id).mp ⟨hid, by rw [hf]; rfl⟩).1
    refine Complete.mk id b hid₂ (h.fetch12 id b hid hf) ih ?_ (changesReadable_mono ho _ hr)
    simp only [List.all_eq_true] at hk ⊢
    intro k hk'
    exact (h.loadable k).mp (hk k hk')

/-- **`complete_sameValid`**: causal completeness depends on the view only through its valid content
    (and on the object index only through membership) -/
theorem complete_sameValid {v₁ v₂ : View} {o₁ o₂ : List Str} (h : SameValid v₁ v₂)
    (ho : ∀ d, d ∈ o₁ ↔ d ∈ o₂) (id : BlockId) : Complete v₁ o₁ id ↔ Complete v₂ o₂ id :=
  ⟨complete_sameValid_imp h (fun d hd => (ho d).mp hd), complete_sameValid_imp h.symm (fun d hd => (ho d).mpr hd)⟩

/-- **`synced_sameValid`**: a state synchronised with one view is synchronised with every view of the
    same valid content -/
theorem synced_sameValid {v₁ v₂ : View} {st : PState} (h : SameValid v₁ v₂) (hs : Synced v₂ st) : Synced v₁ st := by
  refine ⟨⟨?_, hs.ds.nodup, ?_⟩, hs.settled, ?_, ?_, ?_, ?_⟩
  · intro p hp
    obtain ⟨f, i⟩ := hs.ds.fetched p hp
    exact ⟨h.fetch21 _ _ i f, ((h.ids _).mpr ⟨i, by rw [f]; rfl⟩).1⟩
  · intro id b hid hb
    exact hs.ds.closed id b ((h.ids id).mp ⟨hid, by rw [hb]; rfl⟩).1 (h.fetch12 id b hid hb)
  · intro p hp
    rw [hs.applied_iff p hp]
    exact (complete_sameValid h (fun _ => Iff.rfl) _).symm
  · intro d
    rw [hs.objs d]
    constructor
    · rintro ⟨k, hk, l, hl, hd⟩
      have hk₁ := (h.names k).mpr hk
      exact ⟨k, hk₁, l, by rw [h.loadPack k hk₁]; exact hl, hd⟩
    · rintro ⟨k, hk, l, hl, hd⟩
      exact ⟨k, (h.names k).mp hk, l, by rw [← h.loadPack k hk]; exact hl, hd⟩
  · intro k; rw [hs.packs k]; exact (h.names k).symm
  · intro k hk
    exact (h.loadable k).mpr (hs.loadable k ((h.names k).mp hk))

theorem ViewFunctional.of_sameValid {v₁ v₂ : View} (h : SameValid v₁ v₂) (hv : ViewFunctional v₂) :
    ViewFunctional v₁ := by
  intro id₁ h₁ id₂ h₂ b₁ b₂ f₁ f₂
  exact hv id₁ ((h.ids id₁).mp ⟨h₁, by rw [f₁]; rfl⟩).1 id₂ ((h.ids id₂).mp ⟨h₂, by rw [f₂]; rfl⟩).1 b₁ b₂
    (h.fetch12 _ _ h₁ f₁) (h.fetch12 _ _ h₂ f₂)

/-- **`converge_sameValid`** (MAIN): two replica states, each synchronised with its own store, agree as
    soon as the two stores show the same valid content. -/
theorem converge_sameValid {P : Rev → Prop} (ho : CmpOrder P) {v₁ v₂ : View} {s₁ s₂ : PState}
    (h1 : Synced v₁ s₁) (h2 : Synced v₂ s₂) (d1 : DocsOK v₁ s₁) (d2 : DocsOK v₂ s₂) (h : SameValid v₁ v₂)
    (hP : ∀ u, ∀ e ∈ entriesOf s₁.docs u, P e.rev) : Agree s₁ s₂ :=
  converge ho h1 (synced_sameValid h h2) d1 (docsOK_view_congr d2) hP

/-! ### 2. one meld at storage level -/

/-- the keys one meld copies from the store of `src` into the store of `self` -/
def meldKeyList (self src : PState) : List Str :=
  (PState.meldKeys self src).1.map BlockId.key ++ (PState.meldKeys self src).2.map (· ++ PACK_EXT)

/-- the store of replica A (state `stA`, store `kvA`) after melding from replica B (state `stB`, store
    `kvB`): every block B has loaded and A has not, every pack B has applied and A has not, is copied,
    first write wins. (The hash plays no role in what is copied, so it is not a parameter.) -/
def meldStore (kvA : KVSpec) (stA stB : PState) (kvB : KVSpec) : KVSpec :=
  C11.meldCopy kvB kvA (meldKeyList stA stB)

/-- meld only grows the receiving store -/
theorem meldStore_le (kvA : KVSpec) (stA stB : PState) (kvB : KVSpec) : kvA.le (meldStore kvA stA stB kvB) :=
  C11.meld_le _ _ _

theorem block_key_mem {stA stB : PState} {p : Block × Status} (hp : p ∈ stB.deltas)
    (hn : findDelta stA.deltas p.1.id = none) : p.1.id.key ∈ meldKeyList stA stB := by
  unfold meldKeyList PState.meldKeys
  refine List.mem_append.mpr (Or.inl (List.mem_map.mpr ⟨p.1.id, ?_, rfl⟩))
  simp only [List.mem_filter, List.mem_map]
  exact ⟨⟨p, hp, rfl⟩, by rw [hn]; rfl⟩

theorem pack_key_mem {stA stB : PState} {k : Str} (hk : k ∈ stB.appliedPacks) (hn : k ∉ stA.appliedPacks) :
    k ++ PACK_EXT ∈ meldKeyList stA stB := by
  unfold meldKeyList PState.meldKeys
  refine List.mem_append.mpr (Or.inr (List.mem_map.mpr ⟨k, ?_, rfl⟩))
  simp only [List.mem_filter, Bool.not_eq_true', Bool.eq_false_iff, ne_eq, List.contains_iff_mem]
  exact ⟨hk, hn⟩

/-- what a key reads after a meld: what the receiver held, or else (a selected key the receiver did not
    hold) what the source holds -/
theorem meld_read_cases {src dst : KVSpec} {keys : List Str} {k : Str} {x : Bytes}
    (h : (C11.meldCopy src dst keys).read k = some x) :
    dst.read k = some x ∨ (dst.read k = none ∧ k ∈ keys ∧ src.read k = some x) := by
  cases hd : dst.read k with
  | some d =>
    rw [C11.meld_le src dst keys k d hd] at h
    exact Or.inl h
  | none =>
    right
    by_cases hk : k ∈ keys
    · cases hs : src.read k with
      | some b =>
        rw [C11.meld_reads src dst keys hk hs, hd] at h
        exact ⟨rfl, hk, h⟩
      | none =>
        have : (C11.meldCopy src dst keys).read k = dst.read k := by
          apply C11.read_applyWrites_absent
          intro w hw e
          simp only [List.mem_filterMap, Option.map_eq_some_iff] at hw
          obtain ⟨k', _, b', hb', rfl⟩ := hw
          simp only at e
          rw [e, hs] at hb'; cases hb'
        rw [this, hd] at h; cases h
    · rw [C11.meld_other src dst keys hk, hd] at h; cases h

/-! listing and reading -/

theorem read_listed {kv : KVSpec} {s ext : Str} {d : Bytes} (h : kv.read (s ++ ext) = some d) : s ∈ kv.list ext :=
  (C17.mem_list_iff kv ext s).mpr ⟨d, C10.read_mem h⟩

theorem listed_read {kv : KVSpec} {s ext : Str} (h : s ∈ kv.list ext) : ∃ d, kv.read (s ++ ext) = some d := by
  obtain ⟨v, hv⟩ := (C17.mem_list_iff kv ext s).mp h
  exact C10.mem_read hv

/-- every identifier the view lists is canonical -/
theorem canonical_of_listed {H : Bytes → Str} {kv : KVSpec} {id : BlockId} (h : id ∈ (viewOf H kv).blockIds) :
    C10.Canonical id := by
  simp only [viewOf, List.mem_filterMap] at h
  obtain ⟨s, _, hp⟩ := h
  exact C10.parse_canonical hp

/-- a canonical identifier whose key is present is listed -/
theorem listed_of_read {H : Bytes → Str} {kv : KVSpec} {id : BlockId} (hc : C10.Canonical id) {d : Bytes}
    (h : kv.read id.key = some d) : id ∈ (viewOf H kv).blockIds := by
  simp only [viewOf, List.mem_filterMap]
  exact ⟨id.render, read_listed (ext := DELTA_EXT) h, hc⟩

/-- in the view of a byte store every loadable pack is listed -/
theorem viewOf_packsListed (H : Bytes → Str) (kv : KVSpec) : PacksListed (viewOf H kv) := by
  intro k h
  simp only [viewOf, Option.isSome_map] at h
  obtain ⟨l, hl⟩ := Option.isSome_iff_exists.mp h
  obtain ⟨bytes, hr, _⟩ := C10.pack_hash_gate hl
  exact read_listed hr

/-- a listed pack of a synchronised store passes its hash gate -/
theorem listed_pack_gate {H : Bytes → Str} {kv : KVSpec} {st : PState} (hs : Synced (viewOf H kv) st) {k : Str}
    (hk : k ∈ kv.list PACK_EXT) : ∃ bytes, kv.read (k ++ PACK_EXT) = some bytes ∧ H bytes = k := by
  have := hs.loadable k hk
  simp only [viewOf, Option.isSome_map] at this
  obtain ⟨l, hl⟩ := Option.isSome_iff_exists.mp this
  exact C10.pack_hash_gate hl

/-- no two different byte strings with the same hash sit under the same key of the two stores
    (implied by collision-freedom of the hash on the stored byte strings: `compat_of_injOn`) -/
def Compat (H : Bytes → Str) (kv kv' : KVSpec) : Prop :=
  ∀ k a b, kv.read k = some a → kv'.read k = some b → H a = H b → a = b

theorem compat_of_injOn {H : Bytes → Str} {S : Bytes → Prop} (hinj : C10.InjOn H S) {kv kv' : KVSpec}
    (h : ∀ k a, kv.read k = some a → S a) (h' : ∀ k a, kv'.read k = some a → S a) : Compat H kv kv' :=
  fun k a b ha hb e => hinj a b (h k a ha) (h' k b hb) e

theorem Compat.refl (H : Bytes → Str) (kv : KVSpec) : Compat H kv kv := by
  intro k a b ha hb _; rw [ha] at hb; exact Option.some.inj hb

theorem Compat.symm {H : Bytes → Str} {kv kv' : KVSpec} (h : Compat H kv kv') : Compat H kv' kv :=
  fun k a b ha hb e => (h k b a hb ha e.symm).symm

theorem compat_meld {H : Bytes → Str} {src dst x : KVSpec} (keys : List Str) (h₁ : Compat H dst x)
    (h₂ : Compat H src x) : Compat H (C11.meldCopy src dst keys) x := by
  intro k a b ha hb e
  rcases meld_read_cases ha with h | ⟨_, _, h⟩
  · exact h₁ k a b h hb e
  · exact h₂ k a b h hb e

/-- every item stored under the key of a block identifier passes the hash gate (no corrupted block files) -/
def GateOK (H : Bytes → Str) (kv : KVSpec) : Prop := ∀ (id : BlockId) bytes, kv.read id.key = some bytes → H bytes = id.digest

theorem gate_meld {H : Bytes → Str} {src dst : KVSpec} (keys : List Str) (h₁ : GateOK H dst) (h₂ : GateOK H src) :
    GateOK H (C11.meldCopy src dst keys) := by
  intro id bytes h
  rcases meld_read_cases h with h | ⟨_, _, h⟩
  · exact h₁ id bytes h
  · exact h₂ id bytes h

/-- after a meld the key of every block the source has loaded is present in the receiver's store -/
theorem block_present_after_meld {H : Bytes → Str} {kvA kvB : KVSpec} {stA stB : PState}
    (hA : Synced (viewOf H kvA) stA) (hB : Synced (viewOf H kvB) stB) {p : Block × Status} (hp : p ∈ stB.deltas) :
    ∃ x, (meldStore kvA stA stB kvB).read p.1.id.key = some x := by
  cases hf : findDelta stA.deltas p.1.id with
  | some q =>
    obtain ⟨hq, hid⟩ := findDelta_some hf
    obtain ⟨⟨bytes, hr, _⟩, _⟩ := C10.fetch_hash_gate (hA.ds.fetched q hq).1
    rw [hid] at hr
    exact ⟨bytes, meldStore_le kvA stA stB kvB _ _ hr⟩
  | none =>
    obtain ⟨⟨bytes, hr, _⟩, _⟩ := C10.fetch_hash_gate (hB.ds.fetched p hp).1
    exact ⟨_, C11.meld_reads kvB kvA _ (block_key_mem hp hf) hr⟩

/-- after a meld the key of every pack the source has applied is present in the receiver's store -/
theorem pack_present_after_meld {H : Bytes → Str} {kvA kvB : KVSpec} {stA stB : PState}
    (hA : Synced (viewOf H kvA) stA) (hB : Synced (viewOf H kvB) stB) {k : Str} (hk : k ∈ stB.appliedPacks) :
    ∃ x, (meldStore kvA stA stB kvB).read (k ++ PACK_EXT) = some x := by
  by_cases hin : k ∈ stA.appliedPacks
  · obtain ⟨d, hd⟩ := listed_read ((hA.packs k).mp hin)
    exact ⟨d, meldStore_le kvA stA stB kvB _ _ hd⟩
  · obtain ⟨d, hd⟩ := listed_read ((hB.packs k).mp hk)
    exact ⟨_, C11.meld_reads kvB kvA _ (pack_key_mem hk hin) hd⟩

/-- **`fetch_after_meld`**: every block the source replica has loaded (applied *or* blocked) is, after
    the meld, fetchable from the receiver's store with the same result as from the source's store —
    provided that what the receiver may already hold under that key passes the hash gate (`hgate`;
    necessary: `meld_blocked_by_junk`) and that it is not a hash collision (`Compat`). -/
theorem fetch_after_meld {H : Bytes → Str} {kvA kvB : KVSpec} {stA stB : PState}
    (hA : Synced (viewOf H kvA) stA) (hB : Synced (viewOf H kvB) stB) (hc : Compat H kvA kvB)
    {p : Block × Status} (hp : p ∈ stB.deltas)
    (hgate : ∀ a, kvA.read p.1.id.key = some a → H a = p.1.id.digest) :
    fetchBlock H (meldStore kvA stA stB kvB) p.1.id = some p.1 ∧
      fetchBlock H (meldStore kvA stA stB kvB) p.1.id = fetchBlock H kvB p.1.id ∧
      p.1.id ∈ (viewOf H (meldStore kvA stA stB kvB)).blockIds := by
  obtain ⟨hf, hl⟩ := hB.ds.fetched p hp
  have hf' : fetchBlock H kvB p.1.id = some p.1 := hf
  obtain ⟨⟨b, hr, hh⟩, _⟩ := C10.fetch_hash_gate hf'
  obtain ⟨x, hx⟩ := block_present_after_meld hA hB hp
  have hxb : x = b := by
    rcases meld_read_cases hx with h | ⟨_, _, h⟩
    · exact hc _ x b h hr (by rw [hgate x h, hh])
    · rw [hr] at h; exact (Option.some.inj h).symm
  subst hxb
  have e : fetchBlock H (meldStore kvA stA stB kvB) p.1.id = fetchBlock H kvB p.1.id :=
    C10.fetch_congr (by rw [hx, hr])
  exact ⟨e.trans hf', e, listed_of_read (canonical_of_listed hl) hx⟩

/-- **`loadPack_after_meld`**: every pack the source replica has applied loads, after the meld, from the
    receiver's store with the same result as from the source's store (no gate hypothesis needed: a
    synchronised receiver holds no listed pack that fails its hash check). -/
theorem loadPack_after_meld {H : Bytes → Str} {kvA kvB : KVSpec} {stA stB : PState}
    (hA : Synced (viewOf H kvA) stA) (hB : Synced (viewOf H kvB) stB) (hc : Compat H kvA kvB)
    {k : Str} (hk : k ∈ stB.appliedPacks) :
    loadPackBytes H (meldStore kvA stA stB kvB) k = loadPackBytes H kvB k ∧
      (loadPackBytes H kvB k).isSome ∧ k ∈ (viewOf H (meldStore kvA stA stB kvB)).packNames := by
  obtain ⟨b, hr, hh⟩ := listed_pack_gate hB ((hB.packs k).mp hk)
  obtain ⟨x, hx⟩ := pack_present_after_meld hA hB hk
  have hxb : x = b := by
    rcases meld_read_cases hx with h | ⟨_, _, h⟩
    · obtain ⟨a, ha, hha⟩ := listed_pack_gate hA (read_listed h)
      rw [h] at ha; cases ha
      exact hc _ x b h hr (by rw [hha, hh])
    · rw [hr] at h; exact (Option.some.inj h).symm
  subst hxb
  refine ⟨C10.pack_congr (by rw [hx, hr]), ?_, read_listed hx⟩
  have := hB.loadable k ((hB.packs k).mp hk)
  simpa only [viewOf, Option.isSome_map] using this

/-! ### 3. one round of exchange in both directions -/

/-- a block fetchable from one store is fetchable, with the same result, from any compatible store that
    holds something under its key and has no corrupted block files -/
theorem fetch_transfer {H : Bytes → Str} {kv₁ kv₂ : KVSpec} (hc : Compat H kv₁ kv₂) (g₂ : GateOK H kv₂)
    {id : BlockId} {b : Block} (hl : id ∈ (viewOf H kv₁).blockIds) (hf : fetchBlock H kv₁ id = some b)
    {x : Bytes} (hx : kv₂.read id.key = some x) :
    id ∈ (viewOf H kv₂).blockIds ∧ fetchBlock H kv₂ id = some b := by
  obtain ⟨⟨a, hr, hh⟩, _⟩ := C10.fetch_hash_gate hf
  have hax : a = x := hc _ a x hr hx (by rw [hh, g₂ id x hx])
  subst hax
  exact ⟨listed_of_read (canonical_of_listed hl) hx, by rw [← hf]; exact C10.fetch_congr (by rw [hx, hr])⟩

/-- two synchronised byte stores that are compatible, hold no corrupted block files, hold each other's
    fetchable blocks (under *some* bytes) and list the same packs show the same valid content -/
theorem sameValid_of_stores {H : Bytes → Str} {kv₁ kv₂ : KVSpec} {s₁ s₂ : PState}
    (h₁ : Synced (viewOf H kv₁) s₁) (h₂ : Synced (viewOf H kv₂) s₂)
    (hc : Compat H kv₁ kv₂) (g₁ : GateOK H kv₁) (g₂ : GateOK H kv₂)
    (F1 : ∀ id ∈ (viewOf H kv₁).blockIds, (fetchBlock H kv₁ id).isSome → ∃ x, kv₂.read id.key = some x)
    (F2 : ∀ id ∈ (viewOf H kv₂).blockIds, (fetchBlock H kv₂ id).isSome → ∃ x, kv₁.read id.key = some x)
    (P1 : ∀ k ∈ kv₁.list PACK_EXT, k ∈ kv₂.list PACK_EXT) (P2 : ∀ k ∈ kv₂.list PACK_EXT, k ∈ kv₁.list PACK_EXT) :
    SameValid (viewOf H kv₁) (viewOf H kv₂) := by
  have half : ∀ {kv kv' : KVSpec}, Compat H kv kv' → GateOK H kv' →
      (∀ id ∈ (viewOf H kv).blockIds, (fetchBlock H kv id).isSome → ∃ x, kv'.read id.key = some x) →
      ∀ id b, id ∈ (viewOf H kv).blockIds → fetchBlock H kv id = some b →
        id ∈ (viewOf H kv').blockIds ∧ fetchBlock H kv' id = some b := by
    intro kv kv' hc' g' F id b hl hf
    obtain ⟨x, hx⟩ := F id hl (by rw [hf]; rfl)
    exact fetch_transfer hc' g' hl hf hx
  apply SameValid.of_listed (viewOf_packsListed H kv₁) (viewOf_packsListed H kv₂)
  · intro id
    constructor
    · rintro ⟨hl, hs⟩
      obtain ⟨b, hb⟩ := Option.isSome_iff_exists.mp hs
      obtain ⟨l', f'⟩ := half hc g₂ F1 id b hl hb
      exact ⟨l', by show (fetchBlock H kv₂ id).isSome = true; rw [f']; rfl⟩
    · rintro ⟨hl, hs⟩
      obtain ⟨b, hb⟩ := Option.isSome_iff_exists.mp hs
      obtain ⟨l', f'⟩ := half hc.symm g₁ F2 id b hl hb
      exact ⟨l', by show (fetchBlock H kv₁ id).isSome = true; rw [f']; rfl⟩
  · intro id b hl hb; exact (half hc g₂ F1 id b hl hb).2
  · intro id b hl hb; exact (half hc.symm g₁ F2 id b hl hb).2
  · intro k; exact ⟨P1 k, P2 k⟩
  · intro k hk
    obtain ⟨a, ha, hha⟩ := listed_pack_gate h₁ hk
    obtain ⟨b, hb, hhb⟩ := listed_pack_gate h₂ (P1 k hk)
    have hab : a = b := hc _ a b ha hb (by rw [hha, hhb])
    show (loadPackBytes H kv₁ k).map _ = (loadPackBytes H kv₂ k).map _
    rw [C10.pack_congr (H := H) (kv := kv₂) (kv' := kv₁) (name := k) (by rw [ha, hb, hab])]

/-- what one round establishes about the two stores and the two replica states -/
structure RoundResult (H : Bytes → Str) (kvA' kvB' : KVSpec) (stA' stB' : PState) : Prop where
  syncedA : Synced (viewOf H kvA') stA'
  syncedB : Synced (viewOf H kvB') stB'
  sameValid : SameValid (viewOf H kvA') (viewOf H kvB')

/-- **the storage half of `sync_round_converges`**: after A ← B, refresh A, B ← A', refresh B, both
    replicas are synchronised with their stores and the two stores show the same valid content. -/
theorem sync_round_sameValid {H : Bytes → Str} {kvA kvB kvA' kvB' : KVSpec} {stA stB stA' stB' : PState}
    (hA : Synced (viewOf H kvA) stA) (hB : Synced (viewOf H kvB) stB)
    (hc : Compat H kvA kvB) (gA : GateOK H kvA) (gB : GateOK H kvB)
    (ekA : kvA' = meldStore kvA stA stB kvB) (rA : refresh stA (viewOf H kvA') = .ok stA')
    (ekB : kvB' = meldStore kvB stB stA' kvA') (rB : refresh stB (viewOf H kvB') = .ok stB') :
    RoundResult H kvA' kvB' stA' stB' := by
  have leA : kvA.le kvA' := by rw [ekA]; exact meldStore_le _ _ _ _
  have leB : kvB.le kvB' := by rw [ekB]; exact meldStore_le _ _ _ _
  have hA' : Synced (viewOf H kvA') stA' :=
    refresh_synced (C10.viewOf_ok H kvA') hA (C10.viewOf_le leA) (C10.packNames_le leA) rA
  have hB' : Synced (viewOf H kvB') stB' :=
    refresh_synced (C10.viewOf_ok H kvB') hB (C10.viewOf_le leB) (C10.packNames_le leB) rB
  have cA'B : Compat H kvA' kvB := by rw [ekA]; exact compat_meld _ hc (Compat.refl H kvB)
  have cB'A' : Compat H kvB' kvA' := by rw [ekB]; exact compat_meld _ cA'B.symm (Compat.refl H kvA')
  have gA' : GateOK H kvA' := by rw [ekA]; exact gate_meld _ gA gB
  have gB' : GateOK H kvB' := by rw [ekB]; exact gate_meld _ gB gA'
  refine ⟨hA', hB', sameValid_of_stores hA' hB' cB'A'.symm gA' gB' ?_ ?_ ?_ ?_⟩
  · -- a block fetchable at A' is loaded at A', hence copied to (or already present at) B'
    intro id hl hs
    obtain ⟨b, hb⟩ := Option.isSome_iff_exists.mp hs
    obtain ⟨p, hp, hid⟩ := hA'.ds.closed id b hl hb
    have := block_present_after_meld hB hA' hp
    rw [hid, ← ekB] at this
    exact this
  · -- a block fetchable at B' came from A', or was at B: then B had loaded it and A' received it
    intro id hl hs
    obtain ⟨b, hb⟩ := Option.isSome_iff_exists.mp hs
    obtain ⟨⟨x, hx, _⟩, _⟩ := C10.fetch_hash_gate hb
    have hx' := hx
    rw [ekB] at hx'
    rcases meld_read_cases hx' with h | ⟨_, _, h⟩
    · have hfB : fetchBlock H kvB id = some b := by rw [← hb]; exact C10.fetch_congr (by rw [h, hx])
      obtain ⟨p, hp, hid⟩ := hB.ds.closed id b (listed_of_read (canonical_of_listed hl) h) hfB
      have := block_present_after_meld hA hB hp
      rw [hid, ← ekA] at this
      exact this
    · exact ⟨x, h⟩
  · intro k hk
    have := pack_present_after_meld hB hA' ((hA'.packs k).mpr hk)
    rw [← ekB] at this
    obtain ⟨x, hx⟩ := this
    exact read_listed hx
  · intro k hk
    obtain ⟨x, hx⟩ := listed_read hk
    have hx' := hx
    rw [ekB] at hx'
    rcases meld_read_cases hx' with h | ⟨_, _, h⟩
    · have := pack_present_after_meld hA hB ((hB.packs k).mpr (read_listed h))
      rw [← ekA] at this
      obtain ⟨y, hy⟩ := this
      exact read_listed hy
    · exact read_listed h

/-- **`sync_round_converges`** (MAIN): replicas A and B, each synchronised with its own store, nothing
    staged. One round — meld A ← B, refresh A, meld B ← A', refresh B — leaves the two stores with the
    same valid content and the two replicas in agreement (`Agree`: status of every block, anchors,
    object index, applied packs, document keys, per object the recorded revisions, the leaves and the
    winner). Hypotheses beyond `Synced`/`DocsOK`: no hash collision between the two stores under the same
    key (`Compat`), no corrupted block file in either store (`GateOK`; necessary, `meld_blocked_by_junk`),
    a revision has one parent among the blocks of the final store (`ViewFunctional`), and `Rev.cmp` is a
    total order on the revisions in play (`CmpOrder`). -/
theorem sync_round_converges {H : Bytes → Str} {P : Rev → Prop} (ho : CmpOrder P)
    {kvA kvB kvA' kvB' : KVSpec} {stA stB stA' stB' : PState}
    (hA : Synced (viewOf H kvA) stA) (dA : DocsOK (viewOf H kvA) stA)
    (hB : Synced (viewOf H kvB) stB) (dB : DocsOK (viewOf H kvB) stB)
    (hc : Compat H kvA kvB) (gA : GateOK H kvA) (gB : GateOK H kvB)
    (ekA : kvA' = meldStore kvA stA stB kvB) (rA : refresh stA (viewOf H kvA') = .ok stA')
    (ekB : kvB' = meldStore kvB stB stA' kvA') (rB : refresh stB (viewOf H kvB') = .ok stB')
    (hvf : ViewFunctional (viewOf H kvB'))
    (hP : ∀ u, ∀ e ∈ entriesOf stA'.docs u, P e.rev) :
    SameValid (viewOf H kvA') (viewOf H kvB') ∧
    Synced (viewOf H kvA') stA' ∧ DocsOK (viewOf H kvA') stA' ∧
    Synced (viewOf H kvB') stB' ∧ DocsOK (viewOf H kvB') stB' ∧
    Agree stA' stB' ∧
    (∀ u, (C15.treeOf stA'.docs u).leafs = (C15.treeOf stB'.docs u).leafs ∧
      (C15.treeOf stA'.docs u).winner = (C15.treeOf stB'.docs u).winner) := by
  obtain ⟨hA', hB', hsv⟩ := sync_round_sameValid hA hB hc gA gB ekA rA ekB rB
  have leA : kvA.le kvA' := by rw [ekA]; exact meldStore_le _ _ _ _
  have leB : kvB.le kvB' := by rw [ekB]; exact meldStore_le _ _ _ _
  have dA' := refresh_docsOK (C10.viewOf_ok H kvA') (ViewFunctional.of_sameValid hsv hvf) hA dA (C10.viewOf_le leA) rA
  have dB' := refresh_docsOK (C10.viewOf_ok H kvB') hvf hB dB (C10.viewOf_le leB) rB
  have ha := converge_sameValid ho hA' hB' dA'.1 dB'.1 hsv hP
  exact ⟨hsv, hA', dA'.1, hB', dB'.1, ha, ha.cached dA'.2 dB'.2⟩

/-! ### 4. nothing left to exchange -/

/-- two replicas synchronised with stores of the same valid content have loaded the same blocks and
    applied the same packs: a meld copies nothing -/
theorem meldKeys_nil_of_sameValid {v₁ v₂ : View} {s₁ s₂ : PState} (h₁ : Synced v₁ s₁) (h₂ : Synced v₂ s₂)
    (h : SameValid v₁ v₂) : PState.meldKeys s₁ s₂ = ([], []) := by
  unfold PState.meldKeys
  refine Prod.ext ?_ ?_
  · simp only [List.filter_eq_nil_iff, List.mem_map]
    rintro id ⟨p, hp, rfl⟩
    obtain ⟨f, i⟩ := h₂.ds.fetched p hp
    have i₁ := ((h.ids p.1.id).mpr ⟨i, by rw [f]; rfl⟩).1
    obtain ⟨q, hq, hid⟩ := h₁.ds.closed p.1.id p.1 i₁ (h.fetch21 _ _ i f)
    cases hf : findDelta s₁.deltas p.1.id with
    | some _ => simp
    | none => exact absurd hid (findDelta_none hf q hq)
  · simp only [List.filter_eq_nil_iff]
    intro k hk
    have : k ∈ s₁.appliedPacks := (h₁.packs k).mpr ((h.names k).mpr ((h₂.packs k).mp hk))
    simp [this]

/-- **`sync_idempotent`**: after one round neither side learns anything new — a further meld in either
    direction selects no key and leaves the receiving store unchanged. -/
theorem sync_idempotent {H : Bytes → Str} {kvA kvB kvA' kvB' : KVSpec} {stA stB stA' stB' : PState}
    (hA : Synced (viewOf H kvA) stA) (hB : Synced (viewOf H kvB) stB)
    (hc : Compat H kvA kvB) (gA : GateOK H kvA) (gB : GateOK H kvB)
    (ekA : kvA' = meldStore kvA stA stB kvB) (rA : refresh stA (viewOf H kvA') = .ok stA')
    (ekB : kvB' = meldStore kvB stB stA' kvA') (rB : refresh stB (viewOf H kvB') = .ok stB') :
    PState.meldKeys stA' stB' = ([], []) ∧ PState.meldKeys stB' stA' = ([], []) ∧
    meldStore kvA' stA' stB' kvB' = kvA' ∧ meldStore kvB' stB' stA' kvA' = kvB' := by
  obtain ⟨hA', hB', hsv⟩ := sync_round_sameValid hA hB hc gA gB ekA rA ekB rB
  have k1 := meldKeys_nil_of_sameValid hA' hB' hsv
  have k2 := meldKeys_nil_of_sameValid hB' hA' hsv.symm
  refine ⟨k1, k2, ?_, ?_⟩
  · unfold meldStore meldKeyList; rw [k1]; rfl
  · unfold meldStore meldKeyList; rw [k2]; rfl

/-! ### 5. the round is always possible -/

/-- **the refresh after a meld never fails** (when nothing is staged): every pack listed in the receiver's
    store after the meld was listed before (and loads, `Synced`) or was copied from the source, where it
    was listed (and loads). -/
theorem refresh_after_meld_ok {H : Bytes → Str} {kvA kvB : KVSpec} {stA stB : PState}
    (hA : Synced (viewOf H kvA) stA) (hB : Synced (viewOf H kvB) stB) (hst : stA.hasStaging = false) :
    ∃ stA', refresh stA (viewOf H (meldStore kvA stA stB kvB)) = .ok stA' := by
  unfold refresh
  simp only [hst, Bool.false_eq_true, if_false]
  cases hlp : loadPacks (viewOf H (meldStore kvA stA stB kvB)) stA.appliedPacks
      (viewOf H (meldStore kvA stA stB kvB)).packNames stA.objects stA.appliedPacks with
  | some r => exact ⟨_, rfl⟩
  | none =>
    exfalso
    obtain ⟨k, hk, _, hn⟩ := (loadPacks_none _ _ _).mp hlp
    obtain ⟨x, hx⟩ := listed_read (ext := PACK_EXT) hk
    have key : ∀ {kv : KVSpec} {st : PState}, Synced (viewOf H kv) st → kv.read (k ++ PACK_EXT) = some x →
        (loadPackBytes H (meldStore kvA stA stB kvB) k).isSome = true := by
      intro kv st hs h
      have := hs.loadable k (read_listed h)
      simp only [viewOf, Option.isSome_map] at this
      rw [C10.pack_congr (H := H) (kv := kv) (kv' := meldStore kvA stA stB kvB) (name := k) (by rw [hx, h])]
      exact this
    have hsome : (loadPackBytes H (meldStore kvA stA stB kvB) k).isSome = true := by
      rcases meld_read_cases hx with h | ⟨_, _, h⟩
      · exact key hA h
      · exact key hB h
    simp only [viewOf, Option.map_eq_none_iff] at hn
    rw [hn] at hsome
    cases hsome

/-- **the round is total**: two synchronised replicas with nothing staged can always perform the round
    A ← B, refresh A, B ← A', refresh B. -/
theorem sync_round_total {H : Bytes → Str} {kvA kvB : KVSpec} {stA stB : PState}
    (hA : Synced (viewOf H kvA) stA) (hB : Synced (viewOf H kvB) stB)
    (sA : stA.hasStaging = false) (sB : stB.hasStaging = false) :
    ∃ stA' stB', refresh stA (viewOf H (meldStore kvA stA stB kvB)) = .ok stA' ∧
      refresh stB (viewOf H (meldStore kvB stB stA' (meldStore kvA stA stB kvB))) = .ok stB' := by
  obtain ⟨stA', rA⟩ := refresh_after_meld_ok hA hB sA
  have leA : kvA.le (meldStore kvA stA stB kvB) := meldStore_le _ _ _ _
  have hA' := refresh_synced (C10.viewOf_ok H _) hA (C10.viewOf_le leA) (C10.packNames_le leA) rA
  obtain ⟨stB', rB⟩ := refresh_after_meld_ok hB hA' sB
  exact ⟨stA', stB', rA, rB⟩

/-! ### 6. non-vacuity, and the necessity of `GateOK` -/

section Example
open Melda.Props.C10 (Hlen)

/-- decidable form of `Compat` -/
def compatCheck (H : Bytes → Str) (kv kv' : KVSpec) : Bool :=
  kv.items.all fun p => kv'.items.all fun q => !(decide (p.1 = q.1) && decide (H p.2 = H q.2)) || decide (p.2 = q.2)

theorem compat_of_check {H : Bytes → Str} {kv kv' : KVSpec} (h : compatCheck H kv kv' = true) : Compat H kv kv' := by
  intro k a b ha hb e
  unfold compatCheck at h
  simp only [List.all_eq_true, Bool.or_eq_true, Bool.not_eq_true', Bool.and_eq_false_iff, decide_eq_false_iff_not,
    decide_eq_true_eq] at h
  rcases h _ (C10.read_mem ha) _ (C10.read_mem hb) with (h | h) | h
  · exact absurd rfl h
  · exact absurd e h
  · exact h

/-- decidable form of `GateOK`: the digest part of every `.delta` key is the hash of the stored bytes -/
def gateCheck (H : Bytes → Str) (kv : KVSpec) : Bool :=
  kv.items.all fun p => !(KVSpec.isSuffix DELTA_EXT p.1) ||
    decide ('-' :: H p.2 = (Rev.spanP isDigit (C10.stem DELTA_EXT p.1)).2)

theorem gate_of_check {H : Bytes → Str} {kv : KVSpec} (h : gateCheck H kv = true) : GateOK H kv := by
  intro id bytes hr
  unfold gateCheck at h
  simp only [List.all_eq_true, Bool.or_eq_true, Bool.not_eq_true', decide_eq_true_eq] at h
  rcases h _ (C10.read_mem hr) with h | h
  · simp only [BlockId.key, C10.isSuffix_append] at h; cases h
  · simp only [BlockId.key, C10.stem_append, BlockId.render, C19.spanP_digits_natStr] at h
    exact (List.cons.inj h).2

/-- decidable form of `ViewFunctional` -/
def vfCheck (v : View) : Bool :=
  v.blockIds.all fun id₁ => v.blockIds.all fun id₂ =>
    match v.fetch id₁, v.fetch id₂ with
    | some b₁, some b₂ => b₁.changes.all fun c₁ => b₂.changes.all fun c₂ =>
        decide (c₁.uuid = c₂.uuid → c₁.rev = c₂.rev → c₁.parent = c₂.parent)
    | _, _ => true

theorem vf_of_check {v : View} (h : vfCheck v = true) : ViewFunctional v := by
  intro id₁ h₁ id₂ h₂ b₁ b₂ f₁ f₂ c₁ hc₁ c₂ hc₂
  unfold vfCheck at h
  simp only [List.all_eq_true] at h
  have := h id₁ h₁ id₂ h₂
  rw [f₁, f₂] at this
  simp only [List.all_eq_true, decide_eq_true_eq] at this
  exact this c₁ hc₁ c₂ hc₂

def getSt (r : Except PErr PState) : PState := match r with | .ok s => s | .error _ => {}
def isOk (r : Except PErr PState) : Bool := match r with | .ok _ => true | .error _ => false
theorem getSt_ok {r : Except PErr PState} (h : isOk r = true) : r = .ok (getSt r) := by
  cases r with
  | ok s => rfl
  | error e => cases h

/-- the one revision of the example, and the order hypothesis on it -/
def rv : Rev := Rev.mk1 "h2".toList
def ExP (r : Rev) : Prop := r = rv
theorem exOrder : CmpOrder ExP where
  refl := C05.cmp_refl
  antisymm := C05.cmp_antisymm
  trans := C05.cmp_trans
  eq_iff := by
    intro a b ha hb
    unfold ExP at ha hb
    subst ha; subst hb
    simp [C05.cmp_refl]

/-- replica A holds the root block `1-h2` (no changes) -/
def kA : KVSpec := C10.kv0
/-- replica B holds a child of `1-h2` creating object `u` (revision `1-h2`, object in pack `h4`), and the
    pack — but not the root block, so the child is held back at B -/
def outB : DState.CommitOut := DState.commitWrites Hlen C11.stA none [("h2".toList, [])] [⟨"u".toList, rv, none⟩]
def kB : KVSpec := C11.applyWrites KVSpec.empty outB.writes
def sA : PState := getSt (reload {} (viewOf Hlen kA))
def sB : PState := getSt (reload {} (viewOf Hlen kB))
def kA' : KVSpec := meldStore kA sA sB kB
def sA' : PState := getSt (refresh sA (viewOf Hlen kA'))
def kB' : KVSpec := meldStore kB sB sA' kA'
def sB' : PState := getSt (refresh sB (viewOf Hlen kB'))

theorem sA_eq : reload {} (viewOf Hlen kA) = .ok sA := getSt_ok (by decide +kernel)
theorem sB_eq : reload {} (viewOf Hlen kB) = .ok sB := getSt_ok (by decide +kernel)
theorem sA'_eq : refresh sA (viewOf Hlen kA') = .ok sA' := getSt_ok (by decide +kernel)
theorem sB'_eq : refresh sB (viewOf Hlen kB') = .ok sB' := getSt_ok (by decide +kernel)
theorem kB'_fun : ViewFunctional (viewOf Hlen kB') := vf_of_check (by decide +kernel)

/-- what is copied: B's held-back block and its pack go to A; then A's root block goes to B -/
example : meldKeyList sA sB = ["2-h42.delta".toList, "h4.pack".toList] ∧
    meldKeyList sB sA' = ["1-h2.delta".toList] := by decide +kernel

/-- **all hypotheses of `sync_round_converges` (hence of `converge_sameValid`, `synced_sameValid`,
    `fetch_after_meld`, `loadPack_after_meld`, `sync_idempotent`, `sync_round_total`) hold of the example**,
    and the conclusion is not trivial: B's block was held back at B, is applied at both replicas after the
    round, and both replicas have the document it creates. -/
example : Synced (viewOf Hlen kA) sA ∧ DocsOK (viewOf Hlen kA) sA ∧ Synced (viewOf Hlen kB) sB ∧
    DocsOK (viewOf Hlen kB) sB ∧ Compat Hlen kA kB ∧ GateOK Hlen kA ∧ GateOK Hlen kB ∧
    sA.hasStaging = false ∧ sB.hasStaging = false ∧
    ViewFunctional (viewOf Hlen kB') ∧ (∀ u, ∀ e ∈ entriesOf sA'.docs u, ExP e.rev) ∧
    statusOf sB.deltas outB.block.id = some .blocked ∧ statusOf sA.deltas outB.block.id = none ∧
    statusOf sA'.deltas outB.block.id = some .applied ∧ statusOf sB'.deltas outB.block.id = some .applied ∧
    sA'.docs.map (·.1) = ["u".toList] ∧
    SameValid (viewOf Hlen kA') (viewOf Hlen kB') ∧ Agree sA' sB' ∧
    PState.meldKeys sA' sB' = ([], []) ∧ PState.meldKeys sB' sA' = ([], []) := by
  have leA : kA.le kA' := meldStore_le _ _ _ _
  have leB : kB.le kB' := meldStore_le _ _ _ _
  have leA' : kA'.le kB' := by
    intro k d h
    -- every key of kA' is in kB' with the same bytes (checked on the items)
    have hc : ∀ p ∈ kA'.items, kB'.read p.1 = some p.2 := by decide +kernel
    exact hc _ (C10.read_mem h)
  have fA : ViewFunctional (viewOf Hlen kA) := kB'_fun.of_le (C10.viewOf_le (leA.trans leA'))
  have fB : ViewFunctional (viewOf Hlen kB) := kB'_fun.of_le (C10.viewOf_le leB)
  have yA := reload_synced (C10.viewOf_ok Hlen kA) sA_eq
  have yB := reload_synced (C10.viewOf_ok Hlen kB) sB_eq
  have dA := (reload_docsOK (C10.viewOf_ok Hlen kA) fA sA_eq).1
  have dB := (reload_docsOK (C10.viewOf_ok Hlen kB) fB sB_eq).1
  have hc : Compat Hlen kA kB := compat_of_check (by decide +kernel)
  have gA : GateOK Hlen kA := gate_of_check (by decide +kernel)
  have gB : GateOK Hlen kB := gate_of_check (by decide +kernel)
  have hP : ∀ u, ∀ e ∈ entriesOf sA'.docs u, ExP e.rev := by
    have ha : ∀ r ∈ sA'.docs.flatMap (fun p => p.2.entries.map (·.rev)), r = rv := by decide +kernel
    intro u e he
    unfold entriesOf at he
    rcases C15.treeOf_mem_or sA'.docs u with h0 | ⟨p, hp, _, hq⟩
    · rw [h0] at he; simp [RevTree.empty] at he
    · rw [← hq] at he
      exact ha e.rev (List.mem_flatMap.mpr ⟨p, hp, List.mem_map.mpr ⟨e, he, rfl⟩⟩)
  have main := sync_round_converges exOrder yA dA yB dB hc gA gB rfl sA'_eq rfl sB'_eq kB'_fun hP
  have idem := sync_idempotent yA yB hc gA gB rfl sA'_eq rfl sB'_eq
  exact ⟨yA, dA, yB, dB, hc, gA, gB, by decide +kernel, by decide +kernel, kB'_fun, hP, by decide +kernel,
    by decide +kernel, by decide +kernel, by decide +kernel, by decide +kernel, main.1, main.2.2.2.2.2.1, idem.1, idem.2.1⟩

/-- `compat_of_injOn`, `SameValid.of_listed`, `SameContent.sameValid` are not vacuous -/
example : C10.InjOn Hlen (fun b => ∃ k, kA.read k = some b ∨ kB.read k = some b) →
    Compat Hlen kA kB := fun h => compat_of_injOn h (fun k _ ha => ⟨k, Or.inl ha⟩) (fun k _ ha => ⟨k, Or.inr ha⟩)
example : SameValid (viewOf Hlen kA) (viewOf Hlen kA) :=
  SameValid.of_listed (viewOf_packsListed _ _) (viewOf_packsListed _ _) (fun _ => Iff.rfl) (fun _ _ _ h => h)
    (fun _ _ _ h => h) (fun _ => Iff.rfl) (fun _ _ => rfl)

/-- a store holding a corrupted file under the name of the (valid) root block of `kA` -/
def kJ : KVSpec := KVSpec.empty.write "1-h2.delta".toList (utf8 "{ }".toList)
def sJ : PState := getSt (reload {} (viewOf Hlen kJ))
theorem sJ_eq : reload {} (viewOf Hlen kJ) = .ok sJ := getSt_ok (by decide +kernel)
def kJ' : KVSpec := meldStore kJ sJ sA kA
def sJ' : PState := getSt (refresh sJ (viewOf Hlen kJ'))
theorem sJ'_eq : refresh sJ (viewOf Hlen kJ') = .ok sJ' := getSt_ok (by decide +kernel)

/-- **the hash-gate hypothesis of `fetch_after_meld` / `sync_round_converges` cannot be dropped**: stores
    are write-once, so a receiver that holds a corrupted file under the name of a block can never receive
    that block. Both replicas are synchronised, the stores are compatible (the two byte strings under the
    key have different hashes), the source has loaded (and applied) block `1-h2`, meld selects its key —
    and after the meld and a refresh the receiver still cannot fetch it and does not know it; a further
    meld would select the same key again, for ever. -/
theorem meld_blocked_by_junk :
    Synced (viewOf Hlen kJ) sJ ∧ Synced (viewOf Hlen kA) sA ∧ Compat Hlen kJ kA ∧ ¬ GateOK Hlen kJ ∧
    (∃ p ∈ sA.deltas, p.1.id = ⟨1, "h2".toList⟩ ∧ p.2 = .applied) ∧
    meldKeyList sJ sA = ["1-h2.delta".toList] ∧
    fetchBlock Hlen kJ' ⟨1, "h2".toList⟩ = none ∧ fetchBlock Hlen kA ⟨1, "h2".toList⟩ ≠ none ∧
    refresh sJ (viewOf Hlen kJ') = .ok sJ' ∧ statusOf sJ'.deltas ⟨1, "h2".toList⟩ = none ∧
    statusOf sA.deltas ⟨1, "h2".toList⟩ = some .applied ∧
    meldKeyList sJ' sA = ["1-h2.delta".toList] := by
  refine ⟨reload_synced (C10.viewOf_ok _ _) sJ_eq, reload_synced (C10.viewOf_ok _ _) sA_eq,
    compat_of_check (by decide +kernel), ?_, ?_, by decide +kernel, by decide +kernel, ?_, sJ'_eq,
    by decide +kernel, by decide +kernel, by decide +kernel⟩
  · intro g
    have h1 : kJ.read (BlockId.key ⟨1, "h2".toList⟩) = some (utf8 "{ }".toList) := by decide +kernel
    have := g _ _ h1
    revert this; decide +kernel
  · have h : ∃ p ∈ sA.deltas.map (fun p => (p.1.id, p.2)), p = (⟨1, "h2".toList⟩, Status.applied) := by
      decide +kernel
    obtain ⟨q, hq, e⟩ := h
    obtain ⟨p, hp, rfl⟩ := List.mem_map.mp hq
    simp only [Prod.mk.injEq] at e
    exact ⟨p, hp, e.1, e.2⟩
  · intro h
    have : (fetchBlock Hlen kA ⟨1, "h2".toList⟩).isSome = true := by decide +kernel
    rw [h] at this; cases this

end Example

end Melda.Props.C01b
