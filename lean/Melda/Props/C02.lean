/-
  C02 — blocks take effect only when causally complete (status level).
  `reload` and `refresh` (model: `Melda.Protocol`) leave the replica in a state where a block is
  `applied` exactly when it is causally complete w.r.t. the storage view, and `blocked` otherwise;
  any sequence of incremental refreshes agrees with a full reload on which blocks are applied.
-/
import Melda.Props.Proto
namespace Melda.Props.C02
open Melda PState Melda.Props.Proto

/-! ### 1. `insertDelta`, `maxIndex`, `loadFold` -/

theorem insertDelta_perm (b : Block) (s : Status) (ds : Ds) (h : ∀ p ∈ ds, p.1.id ≠ b.id) :
    (insertDelta b s ds).Perm ((b, s) :: ds) := by
  induction ds with
  | nil => simp [insertDelta]
  | cons p t ih =>
    have hp : p.1.id ≠ b.id := h p (by simp)
    simp only [insertDelta, hp, if_false]
    split
    · exact List.Perm.refl _
    · exact ((ih (fun q hq => h q (List.mem_cons_of_mem _ hq))).cons p).trans (List.Perm.swap _ _ _)

theorem mem_insertDelta {b : Block} {s : Status} {ds : Ds} (h : ∀ p ∈ ds, p.1.id ≠ b.id) {q : Block × Status} :
    q ∈ insertDelta b s ds ↔ q = (b, s) ∨ q ∈ ds := by
  rw [(insertDelta_perm b s ds h).mem_iff, List.mem_cons]

theorem nodup_insertDelta {b : Block} {s : Status} {ds : Ds} (h : ∀ p ∈ ds, p.1.id ≠ b.id)
    (hn : (ds.map (·.1.id)).Nodup) : ((insertDelta b s ds).map (·.1.id)).Nodup := by
  rw [((insertDelta_perm b s ds h).map (·.1.id)).nodup_iff]
  simp only [List.map_cons, List.nodup_cons, List.mem_map, not_exists, not_and]
  exact ⟨fun p hp e => h p hp e, hn⟩

theorem foldl_max_ge (ds : Ds) (m : Nat) : m ≤ ds.foldl (fun m p => max m p.1.id.index) m := by
  induction ds generalizing m with
  | nil => exact Nat.le_refl _
  | cons p t ih => simp only [List.foldl_cons]; exact Nat.le_trans (Nat.le_max_left _ _) (ih _)

theorem foldl_max_bound (ds : Ds) (m : Nat) : ∀ p ∈ ds, p.1.id.index ≤ ds.foldl (fun m p => max m p.1.id.index) m := by
  induction ds generalizing m with
  | nil => intro p hp; cases hp
  | cons q t ih =>
    intro p hp
    simp only [List.foldl_cons]
    rcases List.mem_cons.mp hp with rfl | hp
    · exact Nat.le_trans (Nat.le_max_right _ _) (foldl_max_ge t _)
    · exact ih _ p hp

/-- `maxIndex` bounds every index in the map (so `maxIndex ds + 1` is enough fuel for `check_delta`) -/
theorem le_maxIndex (ds : Ds) : ∀ p ∈ ds, p.1.id.index ≤ maxIndex ds := foldl_max_bound ds 0

/-- one step of the loading loop -/
def lfStep (v : View) (acc : Ds) (id : BlockId) : Ds :=
  match findDelta acc id with
  | some _ => acc
  | none => match v.fetch id with
    | some b => insertDelta b .pending acc
    | none => acc

theorem loadFold_eq (v : View) (init : Ds) : loadFold v init = v.blockIds.foldl (lfStep v) init := rfl

/-- every entry is what the view hands out for its identifier, and its identifier is listed -/
def Fetched (v : View) (ds : Ds) : Prop := ∀ p ∈ ds, v.fetch p.1.id = some p.1 ∧ p.1.id ∈ v.blockIds

structure LfInv (v : View) (ds acc : Ds) : Prop where
  fetched : Fetched v acc
  nodup : (acc.map (·.1.id)).Nodup
  keep : ∀ q ∈ ds, q ∈ acc
  fresh : ∀ q ∈ acc, q ∈ ds ∨ q.2 = .pending

theorem lfStep_spec {v : View} (hv : ViewOK v) {acc : Ds} {id : BlockId} (hid : id ∈ v.blockIds)
    (hf : Fetched v acc) (hn : (acc.map (·.1.id)).Nodup) :
    LfInv v acc (lfStep v acc id) ∧ (∀ b, v.fetch id = some b → ∃ p ∈ lfStep v acc id, p.1.id = id) := by
  unfold lfStep
  cases hfd : findDelta acc id with
  | some p =>
    refine ⟨⟨hf, hn, fun _ h => h, fun _ h => Or.inl h⟩, fun _ _ => ⟨p, (findDelta_some hfd).1, (findDelta_some hfd).2⟩⟩
  | none =>
    cases hfe : v.fetch id with
    | none => exact ⟨⟨hf, hn, fun _ h => h, fun _ h => Or.inl h⟩, fun b hb => by cases hb⟩
    | some b =>
      have hbid : b.id = id := hv.fetch_id id b hfe
      have habs : ∀ p ∈ acc, p.1.id ≠ b.id := by rw [hbid]; exact findDelta_none hfd
      refine ⟨⟨?_, nodup_insertDelta habs hn, fun q hq => (mem_insertDelta habs).mpr (Or.inr hq), ?_⟩, ?_⟩
      · intro q hq
        rcases (mem_insertDelta habs).mp hq with rfl | hq
        · simp only [hbid]; exact ⟨hfe, hid⟩
        · exact hf q hq
      · intro q hq
        rcases (mem_insertDelta habs).mp hq with rfl | hq
        · exact Or.inr rfl
        · exact Or.inl hq
      · intro _ _
        exact ⟨(b, .pending), (mem_insertDelta habs).mpr (Or.inl rfl), hbid⟩

theorem foldl_lfStep_spec {v : View} (hv : ViewOK v) (ids : List BlockId) (hids : ∀ id ∈ ids, id ∈ v.blockIds)
    (acc : Ds) (hf : Fetched v acc) (hn : (acc.map (·.1.id)).Nodup) :
    LfInv v acc (ids.foldl (lfStep v) acc) ∧
    (∀ id ∈ ids, ∀ b, v.fetch id = some b → ∃ p ∈ ids.foldl (lfStep v) acc, p.1.id = id) := by
  induction ids generalizing acc with
  | nil => exact ⟨⟨hf, hn, fun _ h => h, fun _ h => Or.inl h⟩, by intro id hid; cases hid⟩
  | cons id ids ih =>
    simp only [List.foldl_cons]
    obtain ⟨i1, c1⟩ := lfStep_spec hv (hids id (by simp)) hf hn
    obtain ⟨i2, c2⟩ := ih (fun x hx => hids x (List.mem_cons_of_mem _ hx)) (lfStep v acc id) i1.fetched i1.nodup
    refine ⟨⟨i2.fetched, i2.nodup, fun q hq => i2.keep q (i1.keep q hq), ?_⟩, ?_⟩
    · intro q hq
      rcases i2.fresh q hq with h | h
      · exact i1.fresh q h
      · exact Or.inr h
    · intro x hx b hb
      rcases List.mem_cons.mp hx with rfl | hx
      · obtain ⟨p, hp, hpe⟩ := c1 b hb
        exact ⟨p, i2.keep p hp, hpe⟩
      · exact c2 x hx b hb

/-- **the loading loop**: starting from a map that holds only what the view hands out, the result
    holds exactly what the view hands out (`DsOK`), keeps every old entry unchanged, and every new
    entry is `pending`. -/
theorem loadFold_spec {v : View} (hv : ViewOK v) (ds : Ds) (hf : Fetched v ds) (hn : (ds.map (·.1.id)).Nodup) :
    DsOK v (loadFold v ds) ∧ (∀ q ∈ ds, q ∈ loadFold v ds) ∧ (∀ q ∈ loadFold v ds, q ∈ ds ∨ q.2 = .pending) := by
  rw [loadFold_eq]
  obtain ⟨i, c⟩ := foldl_lfStep_spec hv v.blockIds (fun _ h => h) ds hf hn
  exact ⟨⟨i.fetched, i.nodup, fun id b hid hb => c id hid b hb⟩, i.keep, i.fresh⟩

/-! ### 2. the object index -/

/-- `objs` holds exactly the objects of those packs among `packs` that load -/
def ObjsOf (v : View) (packs : List Str) (objs : List Str) : Prop :=
  ∀ d, d ∈ objs ↔ ∃ k ∈ packs, ∃ l, v.loadPack k = some l ∧ d ∈ l

theorem loadPacks_some {v : View} {skip : List Str} (names : List Str) {objs applied objs' applied' : List Str}
    (h : loadPacks v skip names objs applied = some (objs', applied')) :
    (∀ d, d ∈ objs' ↔ d ∈ objs ∨ ∃ k ∈ names, k ∉ skip ∧ ∃ l, v.loadPack k = some l ∧ d ∈ l) ∧
    (∀ k, k ∈ applied' ↔ k ∈ applied ∨ (k ∈ names ∧ k ∉ skip)) ∧
    (∀ k ∈ names, k ∉ skip → (v.loadPack k).isSome) := by
  induction names generalizing objs applied with
  | nil =>
    simp only [loadPacks, Option.some.injEq, Prod.mk.injEq] at h
    obtain ⟨rfl, rfl⟩ := h
    simp
  | cons k ks ih =>
    simp only [loadPacks] at h
    by_cases hs : skip.contains k = true
    · simp only [hs, if_true] at h
      have hk : k ∈ skip := List.contains_iff_mem.mp hs
      obtain ⟨h1, h2, h3⟩ := ih h
      refine ⟨?_, ?_, ?_⟩
      · intro d; rw [h1]
        constructor
        · rintro (h | ⟨k', hk', hns, r⟩)
          · exact Or.inl h
          · exact Or.inr ⟨k', List.mem_cons_of_mem _ hk', hns, r⟩
        · rintro (h | ⟨k', hk', hns, r⟩)
          · exact Or.inl h
          · rcases List.mem_cons.mp hk' with rfl | hk'
            · exact absurd hk hns
            · exact Or.inr ⟨k', hk', hns, r⟩
      · intro k'; rw [h2]
        constructor
        · rintro (h | ⟨hk', hns⟩)
          · exact Or.inl h
          · exact Or.inr ⟨List.mem_cons_of_mem _ hk', hns⟩
        · rintro (h | ⟨hk', hns⟩)
          · exact Or.inl h
          · rcases List.mem_cons.mp hk' with rfl | hk'
            · exact absurd hk hns
            · exact Or.inr ⟨hk', hns⟩
      · intro k' hk' hns
        rcases List.mem_cons.mp hk' with rfl | hk'
        · exact absurd hk hns
        · exact h3 k' hk' hns
    · simp only [hs, Bool.false_eq_true, if_false] at h
      have hk : k ∉ skip := fun hm => hs (List.contains_iff_mem.mpr hm)
      cases hl : v.loadPack k with
      | none => simp [hl] at h
      | some l =>
        simp only [hl] at h
        obtain ⟨h1, h2, h3⟩ := ih h
        refine ⟨?_, ?_, ?_⟩
        · intro d; rw [h1, List.mem_append]
          constructor
          · rintro ((h | h) | ⟨k', hk', hns, r⟩)
            · exact Or.inl h
            · exact Or.inr ⟨k, by simp, hk, l, hl, h⟩
            · exact Or.inr ⟨k', List.mem_cons_of_mem _ hk', hns, r⟩
          · rintro (h | ⟨k', hk', hns, l', hl', hd⟩)
            · exact Or.inl (Or.inl h)
            · rcases List.mem_cons.mp hk' with rfl | hk'
              · rw [hl] at hl'; cases hl'; exact Or.inl (Or.inr hd)
              · exact Or.inr ⟨k', hk', hns, l', hl', hd⟩
        · intro k'; rw [h2, List.mem_append, List.mem_singleton]
          constructor
          · rintro ((h | rfl) | ⟨hk', hns⟩)
            · exact Or.inl h
            · exact Or.inr ⟨by simp, hk⟩
            · exact Or.inr ⟨List.mem_cons_of_mem _ hk', hns⟩
          · rintro (h | ⟨hk', hns⟩)
            · exact Or.inl (Or.inl h)
            · rcases List.mem_cons.mp hk' with rfl | hk'
              · exact Or.inl (Or.inr rfl)
              · exact Or.inr ⟨hk', hns⟩
        · intro k' hk' hns
          rcases List.mem_cons.mp hk' with rfl | hk'
          · simp [hl]
          · exact h3 k' hk' hns

/-- the pack loop fails exactly when some listed pack that is not skipped does not load -/
theorem loadPacks_none {v : View} {skip : List Str} (names : List Str) (objs applied : List Str) :
    loadPacks v skip names objs applied = none ↔ ∃ k ∈ names, k ∉ skip ∧ v.loadPack k = none := by
  induction names generalizing objs applied with
  | nil => simp [loadPacks]
  | cons k ks ih =>
    simp only [loadPacks]
    by_cases hs : skip.contains k = true
    · simp only [hs, if_true]
      have hk : k ∈ skip := List.contains_iff_mem.mp hs
      rw [ih]
      constructor
      · rintro ⟨k', hk', r⟩; exact ⟨k', List.mem_cons_of_mem _ hk', r⟩
      · rintro ⟨k', hk', hns, r⟩
        rcases List.mem_cons.mp hk' with rfl | hk'
        · exact absurd hk hns
        · exact ⟨k', hk', hns, r⟩
    · simp only [hs, Bool.false_eq_true, if_false]
      have hk : k ∉ skip := fun hm => hs (List.contains_iff_mem.mpr hm)
      cases hl : v.loadPack k with
      | none => simp only [true_iff]; exact ⟨k, by simp, hk, hl⟩
      | some l =>
        simp only
        rw [ih]
        constructor
        · rintro ⟨k', hk', r⟩; exact ⟨k', List.mem_cons_of_mem _ hk', r⟩
        · rintro ⟨k', hk', hns, r⟩
          rcases List.mem_cons.mp hk' with rfl | hk'
          · rw [hl] at r; cases r
          · exact ⟨k', hk', hns, r⟩

/-- `loadPacks_spec` in terms of the object index: the index is extended by the non-skipped listed packs -/
theorem loadPacks_spec {v : View} {skip names packs objs applied objs' applied' : List Str}
    (ho : ObjsOf v packs objs) (h : loadPacks v skip names objs applied = some (objs', applied')) :
    ObjsOf v (packs ++ names.filter (fun k => !skip.contains k)) objs' ∧
    (∀ k, k ∈ applied' ↔ k ∈ applied ∨ (k ∈ names ∧ k ∉ skip)) ∧
    (∀ k ∈ names, k ∉ skip → (v.loadPack k).isSome) := by
  obtain ⟨h1, h2, h3⟩ := loadPacks_some names h
  refine ⟨?_, h2, h3⟩
  intro d
  rw [h1, ho d]
  simp only [List.mem_append, List.mem_filter, Bool.not_eq_true', Bool.eq_false_iff, ne_eq, List.contains_iff_mem]
  constructor
  · rintro (⟨k, hk, r⟩ | ⟨k, hk, hns, r⟩)
    · exact ⟨k, Or.inl hk, r⟩
    · exact ⟨k, Or.inr ⟨hk, hns⟩, r⟩
  · rintro ⟨k, hk | ⟨hk, hns⟩, r⟩
    · exact Or.inl ⟨k, hk, r⟩
    · exact Or.inr ⟨k, hk, hns, r⟩

/-! ### 3. the synchronised state -/

/-- the replica state reflects the storage view exactly: the map holds what the view hands out, every
    block is `applied` or `blocked`, `applied` exactly when causally complete, the object index holds the
    objects of the listed packs, and the applied packs are the listed packs (all of which load). -/
structure Synced (v : View) (st : PState) : Prop where
  ds : DsOK v st.deltas
  settled : ∀ p ∈ st.deltas, p.2 = .applied ∨ p.2 = .blocked
  applied_iff : ∀ p ∈ st.deltas, p.2 = .applied ↔ Complete v st.objects p.1.id
  objs : ObjsOf v v.packNames st.objects
  packs : ∀ k, k ∈ st.appliedPacks ↔ k ∈ v.packNames
  loadable : ∀ k ∈ v.packNames, (v.loadPack k).isSome

/-- the map after `applyReady`: `ready` becomes `applied` -/
def promote (ds : Ds) : Ds := ds.map (fun p => if p.2 = .ready then (p.1, .applied) else p)

theorem sameBlocks_map (ds : Ds) (f : Block × Status → Block × Status) (hf : ∀ p, (f p).1 = p.1) :
    SameBlocks ds (ds.map f) := by
  unfold SameBlocks
  rw [List.map_map]
  apply List.map_congr_left
  intro p _; exact hf p

theorem sameBlocks_promote (ds : Ds) : SameBlocks ds (promote ds) :=
  sameBlocks_map ds _ (fun p => by split <;> rfl)

theorem deltas_validateAll_applyReady (st : PState) : (validateAll (applyReady st)).deltas = promote st.deltas := rfl
theorem objects_validateAll_applyReady (st : PState) : (validateAll (applyReady st)).objects = st.objects := rfl
theorem packs_validateAll_applyReady (st : PState) : (validateAll (applyReady st)).appliedPacks = st.appliedPacks := rfl

/-- the common tail of `reload` and `refresh`: mark, apply -/
theorem settle_spec {v : View} (hv : ViewOK v) (objs : List Str) (ds : Ds) (hg : Good v objs ds) :
    let ds' := promote (markValid v objs (maxIndex ds + 1) ds)
    DsOK v ds' ∧ (∀ p ∈ ds', p.2 = .applied ∨ p.2 = .blocked) ∧ (∀ p ∈ ds', p.2 = .applied ↔ Complete v objs p.1.id) := by
  intro ds'
  obtain ⟨g, _, _, np⟩ := markValid_spec hv objs (maxIndex ds + 1) ds hg
    (fun p hp => Nat.lt_succ_of_le (le_maxIndex ds p hp))
  have key : ∀ p ∈ ds', (p.2 = .applied ∨ p.2 = .blocked) ∧ (p.2 = .applied → Complete v objs p.1.id) ∧
      (p.2 = .blocked → ¬ Complete v objs p.1.id) := by
    intro p hp
    obtain ⟨q, hq, rfl⟩ := List.mem_map.mp hp
    have hst := g.st q hq
    have hnp := np q hq
    obtain ⟨b, s⟩ := q
    cases s with
    | pending => exact absurd rfl hnp
    | ready => simpa using hst.1 (Or.inl rfl)
    | applied => simpa using hst.1 (Or.inr rfl)
    | blocked => simpa using hst.2 rfl
  refine ⟨g.ok.of_same (sameBlocks_promote _), fun p hp => (key p hp).1, ?_⟩
  intro p hp
  obtain ⟨h1, h2, h3⟩ := key p hp
  constructor
  · exact h2
  · intro hc
    rcases h1 with h | h
    · exact h
    · exact absurd hc (h3 h)

/-! ### 4. `reload` -/

theorem objsOf_nil (v : View) : ObjsOf v [] [] := by intro d; simp

theorem reload_eq {st st' : PState} {v : View} (h : reload st v = .ok st') :
    ∃ objs applied, loadPacks v [] v.packNames [] [] = some (objs, applied) ∧
      st' = validateAll (applyReady { deltas := markValid v objs (maxIndex (loadFold v []) + 1) (loadFold v []),
                                      docs := [], objects := objs, appliedPacks := applied }) := by
  unfold reload at h
  split at h
  · cases h
  · split at h
    · cases h
    · next objs applied hl =>
      simp only [Except.ok.injEq] at h
      exact ⟨objs, applied, hl, h.symm⟩

/-- **after `reload`, a block is applied iff it is causally complete** (and blocked otherwise) -/
theorem reload_synced {v : View} {st st' : PState} (hv : ViewOK v) (h : reload st v = .ok st') : Synced v st' := by
  obtain ⟨objs, applied, hl, rfl⟩ := reload_eq h
  obtain ⟨ho, hp, hld⟩ := loadPacks_spec (objsOf_nil v) hl
  obtain ⟨hds, _, hfresh⟩ := loadFold_spec hv [] (by intro p hp; cases hp) (by simp)
  have hg : Good v objs (loadFold v []) := by
    refine ⟨hds, ?_⟩
    intro p hp
    rcases hfresh p hp with h | h
    · cases h
    · rw [h]; exact ⟨(by intro h; rcases h with h | h <;> cases h), (by intro h; cases h)⟩
  obtain ⟨s1, s2, s3⟩ := settle_spec hv objs (loadFold v []) hg
  refine ⟨s1, s2, s3, ?_, ?_, ?_⟩
  · intro d
    have := ho d
    simp only [List.nil_append, List.contains_nil, Bool.not_false, List.mem_filter, and_true] at this
    exact this
  · intro k
    have := hp k
    simp only [List.not_mem_nil, false_or, not_false_eq_true, and_true] at this
    exact this
  · intro k hk
    exact hld k hk (by simp)

/-! ### 5. `refresh` -/

def unblock (ds : Ds) : Ds := ds.map (fun p => if p.2 = .blocked then (p.1, .pending) else p)

theorem refresh_eq {st st' : PState} {v : View} (h : refresh st v = .ok st') :
    ∃ objs applied, loadPacks v st.appliedPacks v.packNames st.objects st.appliedPacks = some (objs, applied) ∧
      st' = validateAll (applyReady { st with
        deltas := markValid v objs (maxIndex (unblock (loadFold v st.deltas)) + 1) (unblock (loadFold v st.deltas)),
        objects := objs, appliedPacks := applied }) := by
  unfold refresh at h
  split at h
  · cases h
  · split at h
    · cases h
    · next objs applied hl =>
      simp only [Except.ok.injEq] at h
      exact ⟨objs, applied, hl, h.symm⟩

/-- **after `refresh` on a grown storage, a block is applied iff it is causally complete** -/
theorem refresh_synced {v v' : View} {st st' : PState} (hv : ViewOK v') (hs : Synced v st) (hle : View.le v v')
    (hpk : ∀ k ∈ v.packNames, k ∈ v'.packNames) (h : refresh st v' = .ok st') : Synced v' st' := by
  obtain ⟨objs, applied, hl, rfl⟩ := refresh_eq h
  obtain ⟨ho, hp, hld⟩ := loadPacks_some _ hl
  -- packs: old listed packs still load, with the same content
  have hold : ∀ k ∈ v.packNames, ∀ l, v'.loadPack k = some l ↔ v.loadPack k = some l := by
    intro k hk l
    obtain ⟨l0, hl0⟩ := Option.isSome_iff_exists.mp (hs.loadable k hk)
    have := hle.packs k l0 hl0
    rw [this, hl0]
  have hobjs : ObjsOf v' v'.packNames objs := by
    intro d
    rw [ho d, hs.objs d]
    constructor
    · rintro (⟨k, hk, l, hkl, hd⟩ | ⟨k, hk, _, r⟩)
      · exact ⟨k, hpk k hk, l, hle.packs k l hkl, hd⟩
      · exact ⟨k, hk, r⟩
    · rintro ⟨k, hk, l, hkl, hd⟩
      by_cases hin : k ∈ st.appliedPacks
      · have hkv := (hs.packs k).mp hin
        exact Or.inl ⟨k, hkv, l, (hold k hkv l).mp hkl, hd⟩
      · exact Or.inr ⟨k, hk, hin, l, hkl, hd⟩
  have hgrow : ∀ d ∈ st.objects, d ∈ objs := fun d hd => (ho d).mpr (Or.inl hd)
  -- blocks
  have hf : Fetched v' st.deltas := by
    intro p hp
    obtain ⟨h1, h2⟩ := hs.ds.fetched p hp
    exact ⟨hle.fetch _ _ h1, hle.ids _ h2⟩
  obtain ⟨hds, hkeep, hfresh⟩ := loadFold_spec hv st.deltas hf hs.ds.nodup
  have hg : Good v' objs (unblock (loadFold v' st.deltas)) := by
    refine ⟨hds.of_same (sameBlocks_map _ _ (fun p => by split <;> rfl)), ?_⟩
    intro p hp
    obtain ⟨q, hq, rfl⟩ := List.mem_map.mp hp
    have hcases : q.2 = .applied ∧ Complete v' objs q.1.id ∨ q.2 = .blocked ∨ q.2 = .pending := by
      rcases hfresh q hq with h | h
      · rcases hs.settled q h with ha | hb
        · exact Or.inl ⟨ha, ((hs.applied_iff q h).mp ha).mono hle hgrow⟩
        · exact Or.inr (Or.inl hb)
      · exact Or.inr (Or.inr h)
    obtain ⟨b, s⟩ := q
    rcases hcases with ⟨ha, hc⟩ | hb | hb
    · simp only at ha; subst ha
      simp only [reduceCtorEq, if_false]
      exact ⟨fun _ => hc, (by intro h; cases h)⟩
    · simp only at hb; subst hb
      simp only [if_true]
      exact ⟨(by intro h; rcases h with h | h <;> cases h), (by intro h; cases h)⟩
    · simp only at hb; subst hb
      simp only [reduceCtorEq, if_false]
      exact ⟨(by intro h; rcases h with h | h <;> cases h), (by intro h; cases h)⟩
  obtain ⟨s1, s2, s3⟩ := settle_spec hv objs _ hg
  refine ⟨s1, s2, s3, hobjs, ?_, ?_⟩
  · intro k
    show k ∈ applied ↔ _
    rw [hp k]
    constructor
    · rintro (h | ⟨h, _⟩)
      · exact hpk k ((hs.packs k).mp h)
      · exact h
    · intro hk
      by_cases hin : k ∈ st.appliedPacks
      · exact Or.inl hin
      · exact Or.inr ⟨hk, hin⟩
  · intro k hk
    by_cases hin : k ∈ st.appliedPacks
    · have hkv := (hs.packs k).mp hin
      obtain ⟨l0, hl0⟩ := Option.isSome_iff_exists.mp (hs.loadable k hkv)
      rw [hle.packs k l0 hl0]; rfl
    · exact hld k hk hin

/-! ### 6. incremental refreshes agree with a full reload -/

theorem View.le_refl (v : View) : View.le v v := ⟨fun _ h => h, fun _ _ h => h, fun _ _ h => h⟩

theorem View.le_trans {a b c : View} (h1 : View.le a b) (h2 : View.le b c) : View.le a c :=
  ⟨fun id h => h2.ids id (h1.ids id h), fun id b h => h2.fetch id b (h1.fetch id b h),
   fun k l h => h2.packs k l (h1.packs k l h)⟩

/-- completeness depends on the object index only through membership -/
theorem complete_congr {v : View} {objs objs' : List Str} (h : ∀ d, d ∈ objs ↔ d ∈ objs') (id : BlockId) :
    Complete v objs id ↔ Complete v objs' id :=
  ⟨fun hc => hc.mono (View.le_refl v) (fun d hd => (h d).mp hd),
   fun hc => hc.mono (View.le_refl v) (fun d hd => (h d).mpr hd)⟩

theorem Synced.objects_eq {v : View} {s1 s2 : PState} (h1 : Synced v s1) (h2 : Synced v s2) :
    ∀ d, d ∈ s1.objects ↔ d ∈ s2.objects := fun d => by rw [h1.objs d, h2.objs d]

theorem Synced.packs_eq {v : View} {s1 s2 : PState} (h1 : Synced v s1) (h2 : Synced v s2) :
    ∀ k, k ∈ s1.appliedPacks ↔ k ∈ s2.appliedPacks := fun k => by rw [h1.packs k, h2.packs k]

/-- in a synchronised state the status of an identifier is determined by the view alone -/
theorem Synced.statusOf_eq {v : View} {st : PState} (hs : Synced v st) (id : BlockId) :
    (statusOf st.deltas id = none ↔ ¬ (id ∈ v.blockIds ∧ (v.fetch id).isSome)) ∧
    (statusOf st.deltas id = some .applied ↔ Complete v st.objects id) ∧
    (∀ s, statusOf st.deltas id = some s → s = .applied ∨ s = .blocked) := by
  unfold statusOf
  cases hf : findDelta st.deltas id with
  | none =>
    refine ⟨?_, ?_, ?_⟩
    · simp only [Option.map_none, true_iff]
      rintro ⟨hid, hsome⟩
      obtain ⟨b, hb⟩ := Option.isSome_iff_exists.mp hsome
      obtain ⟨p, hp, hpe⟩ := hs.ds.closed id b hid hb
      exact findDelta_none hf p hp hpe
    · simp only [Option.map_none, reduceCtorEq, false_iff]
      exact not_complete_of_absent hs.ds hf
    · intro s h; cases h
  | some p =>
    obtain ⟨hm, hid⟩ := findDelta_some hf
    refine ⟨?_, ?_, ?_⟩
    · simp only [Option.map_some, reduceCtorEq, false_iff, Classical.not_not]
      have := hs.ds.fetched p hm
      rw [hid] at this
      exact ⟨this.2, by rw [this.1]; rfl⟩
    · simp only [Option.map_some, Option.some.injEq]
      have := hs.applied_iff p hm
      rw [hid] at this; exact this
    · intro s h
      simp only [Option.map_some, Option.some.injEq] at h
      rw [← h]; exact hs.settled p hm

/-- **two synchronised states over the same storage agree on the status of every block** -/
theorem synced_status_unique {v : View} {s1 s2 : PState} (h1 : Synced v s1) (h2 : Synced v s2) :
    ∀ id, statusOf s1.deltas id = statusOf s2.deltas id := by
  intro id
  obtain ⟨n1, a1, c1⟩ := h1.statusOf_eq id
  obtain ⟨n2, a2, c2⟩ := h2.statusOf_eq id
  have hcc := complete_congr (v := v) (h1.objects_eq h2) id
  cases e1 : statusOf s1.deltas id with
  | none => exact ((n2.mpr (n1.mp e1))).symm
  | some x =>
    cases e2 : statusOf s2.deltas id with
    | none => rw [n1.mpr (n2.mp e2)] at e1; cases e1
    | some y =>
      have ha : x = .applied ↔ y = .applied := by
        constructor
        · intro h; subst h
          have := a2.mpr (hcc.mp (a1.mp e1)); rw [e2] at this; cases this; rfl
        · intro h; subst h
          have := a1.mpr (hcc.mpr (a2.mp e2)); rw [e1] at this; cases this; rfl
      rcases c1 x e1 with rfl | rfl <;> rcases c2 y e2 with rfl | rfl
      · rfl
      · exact absurd (ha.mp rfl) (by simp)
      · exact absurd (ha.mpr rfl) (by simp)
      · rfl

/-- a run of successful refreshes over a growing storage: `RefreshChain v s v' s'` when `s'` is reached
    from `s` (synchronised with `v`) by refreshing after each growth step, ending at view `v'` -/
inductive RefreshChain : View → PState → View → PState → Prop
  | nil (v : View) (s : PState) : RefreshChain v s v s
  | step {v₀ v v' : View} {s₀ s s' : PState} :
      RefreshChain v₀ s₀ v s → ViewOK v' → View.le v v' → (∀ k ∈ v.packNames, k ∈ v'.packNames) →
      refresh s v' = .ok s' → RefreshChain v₀ s₀ v' s'

theorem RefreshChain.synced {v₀ vₙ : View} {s₀ sₙ : PState} (hc : RefreshChain v₀ s₀ vₙ sₙ) (h0 : Synced v₀ s₀) :
    Synced vₙ sₙ := by
  induction hc with
  | nil => exact h0
  | step _ hv hle hpk hr ih => exact refresh_synced hv (ih h0) hle hpk hr

theorem RefreshChain.le {v₀ vₙ : View} {s₀ sₙ : PState} (hc : RefreshChain v₀ s₀ vₙ sₙ) : View.le v₀ vₙ := by
  induction hc with
  | nil => exact View.le_refl _
  | step _ _ hle _ _ ih => exact View.le_trans ih hle

/-- **any sequence of incremental refreshes equals a full reload of the same storage**, at the level of
    which blocks are applied / held back, which objects are indexed and which packs are applied:
    start with a reload of `v₀`, refresh along any growing chain of views up to `vₙ`; a fresh replica
    reloading `vₙ` has the same status for every block identifier. -/
theorem refresh_seq_eq_reload {v₀ vₙ : View} {i i' s₀ sₙ r : PState} (hv0 : ViewOK v₀) (hvn : ViewOK vₙ)
    (h0 : reload i v₀ = .ok s₀) (hc : RefreshChain v₀ s₀ vₙ sₙ) (hr : reload i' vₙ = .ok r) :
    Synced vₙ sₙ ∧ (∀ id, statusOf sₙ.deltas id = statusOf r.deltas id) ∧
    (∀ d, d ∈ sₙ.objects ↔ d ∈ r.objects) ∧ (∀ k, k ∈ sₙ.appliedPacks ↔ k ∈ r.appliedPacks) := by
  have hs := hc.synced (reload_synced hv0 h0)
  have hr' := reload_synced hvn hr
  exact ⟨hs, synced_status_unique hs hr', hs.objects_eq hr', hs.packs_eq hr'⟩

/-! ### 7. held-back blocks hold back their descendants -/

/-- every parent of an applied block is applied -/
theorem applied_ancestors {v : View} {st : PState} (hs : Synced v st) {id p : BlockId} {b : Block}
    (ha : statusOf st.deltas id = some .applied) (hf : v.fetch id = some b) (hp : p ∈ b.parents) :
    statusOf st.deltas p = some .applied := by
  have hc := ((hs.statusOf_eq id).2.1.mp ha).parents b hf p hp
  exact (hs.statusOf_eq p).2.1.mpr hc

/-- an incomplete block's children are never applied -/
theorem blocked_descendants {v : View} {st : PState} (hs : Synced v st) {id p : BlockId} {b : Block}
    (hb : statusOf st.deltas p = some .blocked) (hf : v.fetch id = some b) (hp : p ∈ b.parents) :
    statusOf st.deltas id ≠ some .applied := by
  intro ha
  have := applied_ancestors hs ha hf hp
  rw [hb] at this; cases this

/-- a block that is absent from the view (or fails the hash gate / parser) also holds back its children -/
theorem missing_parent_descendants {v : View} {st : PState} (hs : Synced v st) {id p : BlockId} {b : Block}
    (hb : statusOf st.deltas p = none) (hf : v.fetch id = some b) (hp : p ∈ b.parents) :
    statusOf st.deltas id ≠ some .applied := by
  intro ha
  have := applied_ancestors hs ha hf hp
  rw [hb] at this; cases this

/-- the ancestor relation of the view -/
inductive Ancestor (v : View) : BlockId → BlockId → Prop
  | parent {id p : BlockId} {b : Block} : v.fetch id = some b → p ∈ b.parents → Ancestor v p id
  | trans {a m d : BlockId} : Ancestor v a m → Ancestor v m d → Ancestor v a d

/-- transitive form: every ancestor of an applied block is applied -/
theorem applied_ancestors_trans {v : View} {st : PState} (hs : Synced v st) {a d : BlockId} (h : Ancestor v a d)
    (ha : statusOf st.deltas d = some .applied) : statusOf st.deltas a = some .applied := by
  induction h with
  | parent hf hp => exact applied_ancestors hs ha hf hp
  | trans _ _ ih1 ih2 => exact ih1 (ih2 ha)

/-- transitive form: no descendant of a held-back block is applied -/
theorem blocked_descendants_trans {v : View} {st : PState} (hs : Synced v st) {a d : BlockId} (h : Ancestor v a d)
    (hb : statusOf st.deltas a = some .blocked) : statusOf st.deltas d ≠ some .applied := by
  intro ha
  have := applied_ancestors_trans hs h ha
  rw [hb] at this; cases this

/-! ### 8. guards -/

theorem reload_staging {st : PState} (v : View) (h : st.hasStaging = true) : reload st v = .error .stageNotEmpty := by
  simp [reload, h]

theorem refresh_staging {st : PState} (v : View) (h : st.hasStaging = true) : refresh st v = .error .stageNotEmpty := by
  simp [refresh, h]

/-- `reload` fails with a storage error exactly when a listed pack does not load (and nothing is staged) -/
theorem reload_storage_iff {st : PState} (v : View) (h : st.hasStaging = false) :
    reload st v = .error .storage ↔ ∃ k ∈ v.packNames, v.loadPack k = none := by
  unfold reload
  simp only [h, Bool.false_eq_true, if_false]
  cases hl : loadPacks v [] v.packNames [] [] with
  | none =>
    simp only [true_iff]
    obtain ⟨k, hk, _, r⟩ := (loadPacks_none _ _ _).mp hl
    exact ⟨k, hk, r⟩
  | some r =>
    simp only [reduceCtorEq, false_iff]
    rintro ⟨k, hk, hn⟩
    have := (loadPacks_none (v := v) (skip := []) v.packNames [] []).mpr ⟨k, hk, by simp, hn⟩
    rw [hl] at this; cases this

/-- `reload` succeeds whenever nothing is staged and all listed packs load -/
theorem reload_ok {st : PState} (v : View) (h : st.hasStaging = false) (hl : ∀ k ∈ v.packNames, (v.loadPack k).isSome) :
    ∃ st', reload st v = .ok st' := by
  unfold reload
  simp only [h, Bool.false_eq_true, if_false]
  cases hlp : loadPacks v [] v.packNames [] [] with
  | none =>
    obtain ⟨k, hk, _, r⟩ := (loadPacks_none _ _ _).mp hlp
    have := hl k hk; rw [r] at this; cases this
  | some r => exact ⟨_, rfl⟩

/-! ### 9. non-vacuity -/

section Example

/-- a view from association lists -/
def mkView (blocks : List Block) (packs : List (Str × List Str)) : View where
  blockIds := blocks.map (·.id)
  fetch := fun id => blocks.find? (fun b => b.id = id)
  packNames := packs.map (·.1)
  loadPack := fun k => (packs.find? (fun p => p.1 = k)).map (·.2)

theorem mkView_ok (blocks : List Block) (packs : List (Str × List Str))
    (h : ∀ b ∈ blocks, ∀ p ∈ b.parents, p.index < b.id.index) : ViewOK (mkView blocks packs) := by
  constructor
  · intro id b hb
    have := List.find?_some hb
    simpa using this
  · intro id b hb p hp
    have h1 := List.find?_some hb
    have h2 := List.mem_of_find?_eq_some hb
    have : b.id = id := by simpa using h1
    rw [← this]; exact h b h2 p hp

def oX : Str := "xyzxyzxyz".toList
def pk : Str := "p".toList
def i1 : BlockId := ⟨1, "a".toList⟩
def i2 : BlockId := ⟨2, "b".toList⟩
def i3 : BlockId := ⟨3, "c".toList⟩
/-- root block, needs nothing -/
def b1 : Block := { id := i1, parents := [], packs := [], changes := [] }
/-- child of `b1`; names pack `p` and carries a revision whose object is in `p` -/
def b2 : Block := { id := i2, parents := [i1], packs := [pk], changes := [⟨"doc".toList, ⟨1, oX, none⟩, none⟩] }
/-- child of `b2`, needs nothing itself -/
def b3 : Block := { id := i3, parents := [i2], packs := [], changes := [] }

/-- storage where all three blocks are listed but pack `p` has not arrived -/
def vA : View := mkView [b1, b2, b3] []
/-- the same storage after pack `p` arrived -/
def vB : View := mkView [b1, b2, b3] [(pk, [oX])]

theorem vA_ok : ViewOK vA := mkView_ok _ _ (by decide)
theorem vB_ok : ViewOK vB := mkView_ok _ _ (by decide)

def statuses (r : Except PErr PState) : List (Nat × Status) :=
  match r with
  | .ok st => st.deltas.map (fun p => (p.1.id.index, p.2))
  | .error _ => []

/-- the root is applied; the block whose pack is missing and its child are held back -/
example : statuses (reload {} vA) = [(1, .applied), (2, .blocked), (3, .blocked)] := by decide

/-- once the pack is there, a full reload applies everything … -/
example : statuses (reload {} vB) = [(1, .applied), (2, .applied), (3, .applied)] := by decide

/-- … and so does an incremental refresh of the state reached on the smaller storage -/
example : statuses ((reload {} vA).bind (fun s => refresh s vB)) = [(1, .applied), (2, .applied), (3, .applied)] := by
  decide

theorem vA_le_vB : View.le vA vB := by
  refine ⟨fun _ h => h, fun _ _ h => h, ?_⟩
  intro k l h
  simp [vA, mkView] at h

/-- the hypotheses of `reload_synced`, `refresh_synced` and `refresh_seq_eq_reload` are satisfiable -/
example : ∃ s₀ s₁, reload {} vA = .ok s₀ ∧ Synced vA s₀ ∧ refresh s₀ vB = .ok s₁ ∧ RefreshChain vA s₀ vB s₁ ∧
    Synced vB s₁ ∧ statusOf s₀.deltas i2 = some .blocked ∧ statusOf s₁.deltas i2 = some .applied := by
  obtain ⟨s₀, h0⟩ := reload_ok (st := {}) vA rfl (by decide)
  have hs0 := reload_synced vA_ok h0
  have hpk : ∀ k ∈ vA.packNames, k ∈ vB.packNames := by intro k hk; cases hk
  have hrf : ∃ s₁, refresh s₀ vB = .ok s₁ := by
    have hst : s₀.hasStaging = false := by
      obtain ⟨_, _, _, rfl⟩ := reload_eq h0
      rfl
    unfold refresh
    simp only [hst, Bool.false_eq_true, if_false]
    cases hlp : loadPacks vB s₀.appliedPacks vB.packNames s₀.objects s₀.appliedPacks with
    | none =>
      obtain ⟨k, hk, _, r⟩ := (loadPacks_none _ _ _).mp hlp
      have hall : ∀ k ∈ vB.packNames, (vB.loadPack k).isSome = true := by decide
      have := hall k hk; rw [r] at this; cases this
    | some r => exact ⟨_, rfl⟩
  obtain ⟨s₁, h1⟩ := hrf
  have hc : RefreshChain vA s₀ vB s₁ := .step (.nil _ _) vB_ok vA_le_vB hpk h1
  have hs1 := hc.synced hs0
  refine ⟨s₀, s₁, h0, hs0, h1, hc, hs1, ?_, ?_⟩
  · have : ¬ Complete vA s₀.objects i2 := by
      intro hc
      have := (complete_iff (b := b2) (by decide) rfl).mp hc
      exact absurd this.2.1 (by decide)
    obtain ⟨n, a, c⟩ := hs0.statusOf_eq i2
    cases e : statusOf s₀.deltas i2 with
    | none => exact absurd (n.mp e) (by decide)
    | some x =>
      rcases c x e with rfl | rfl
      · exact absurd (a.mp e) this
      · rfl
  · apply (hs1.statusOf_eq i2).2.1.mpr
    have ho : oX ∈ s₁.objects := (hs1.objs oX).mpr ⟨pk, by decide, [oX], by decide, by decide⟩
    have c1 : Complete vB s₁.objects i1 := Complete.mk i1 b1 (by decide) rfl (by intro p hp; cases hp) (by decide) rfl
    refine Complete.mk i2 b2 (by decide) rfl ?_ (by decide) ?_
    · intro p hp
      have : p = i1 := by simpa [b2] using hp
      rw [this]; exact c1
    · simp [changesReadable, readable, b2, ho]

/-- `Fetched` / nodup hypotheses of `loadFold_spec`, the absence hypothesis of `mem_insertDelta`, and the
    `ObjsOf` hypothesis of `loadPacks_spec` are satisfiable -/
example : Fetched vA [(b1, .applied)] ∧ (([(b1, Status.applied)] : Ds).map (·.1.id)).Nodup ∧
    (∀ p ∈ ([(b1, Status.applied)] : Ds), p.1.id ≠ b2.id) ∧ ObjsOf vB [pk] [oX] := by
  refine ⟨?_, by decide, by decide, ?_⟩
  · intro p hp
    have : p = (b1, .applied) := by simpa using hp
    subst this; exact ⟨rfl, by decide⟩
  · intro d
    constructor
    · intro hd; exact ⟨pk, by simp, [oX], by decide, hd⟩
    · rintro ⟨k, hk, l, hl, hd⟩
      have : k = pk := by simpa using hk
      subst this
      have : l = [oX] := by
        have h2 : vB.loadPack pk = some [oX] := by decide
        rw [h2] at hl; cases hl; rfl
      subst this; exact hd

/-- a state with staged changes is refused -/
example : reload { docs := [("d".toList, { RevTree.empty with staging := true })] } vA = .error .stageNotEmpty :=
  reload_staging _ (by decide)

end Example

end Melda.Props.C02
