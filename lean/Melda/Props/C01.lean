/-
  C01 — replicas holding the same committed history converge; C18 — results do not depend on hash
  order, listing order, order of the change records inside a block or order of block application
  (tree level).

  * `applyChanges_entries`: `apply_delta` as a set of (revision, parent) pairs per object;
    `applyChanges_sorted`, `applyChanges_treesNodup`, `applyChanges_noStaged`, `applyChanges_noEmpty`.
  * `applyChanges_perm`, `applyBlocks_perm`, `perm_of_pairs_eq`, `tree_perm`, `applyChanges_tree_perm`:
    order independence down to the validated leaves and the winner.
  * `DocsOK`, `applyReady_docsOK`, `reload_docsOK`, `refresh_docsOK`: the trees of a replica hold exactly
    the change records of the applied blocks.
  * `converge` (MAIN), `anchors_congr`, `refresh_seq_converge`: two replicas synchronised with the same
    storage agree (`Agree`).
  * `synced_view_congr`, `reload_listing_perm`, `refresh_listing_perm`: listing order is irrelevant.
  * `not_functional_order_dependent`: the explicit hypothesis `Functional` (a revision of an object has
    one parent) cannot be dropped: `unvalidated_add` is first-write-wins on the revision.
-/
import Melda.Props.C02
import Melda.Props.C05
import Melda.Props.C15
namespace Melda.Props.C01
open Melda PState RevTree
open Melda.Props.Proto Melda.Props.C02
open Melda.Props.C05 (KeysNodup CmpOrder)
open Melda.Props.C15 (DocsSorted treeOf entriesOf treeOf_cons treeOf_nil)

/-! ### 0. vocabulary -/

/-- the (revision, parent) pairs recorded for object `u` -/
def pairsOf (docs : List (Str × RevTree)) (u : Str) : List (Rev × Option Rev) :=
  (entriesOf docs u).map (fun e => (e.rev, e.parent))

/-- a revision of an object has one parent -/
def Functional (cs : List Change) : Prop :=
  ∀ c₁ ∈ cs, ∀ c₂ ∈ cs, c₁.uuid = c₂.uuid → c₁.rev = c₂.rev → c₁.parent = c₂.parent

/-- the recorded entries of all trees, as change records -/
def changesOf (docs : List (Str × RevTree)) : List Change :=
  docs.flatMap (fun p => p.2.entries.map (fun e => ⟨p.1, e.rev, e.parent⟩))

/-- every tree records a revision at most once -/
def TreesNodup (docs : List (Str × RevTree)) : Prop := ∀ u, KeysNodup (entriesOf docs u)

/-- no entry is staged -/
def NoStaged (docs : List (Str × RevTree)) : Prop := ∀ u, ∀ e ∈ entriesOf docs u, e.staging = false

/-- no tree of the map is empty -/
def NoEmpty (docs : List (Str × RevTree)) : Prop := ∀ p ∈ docs, p.2.entries ≠ []

theorem Functional.mono {cs cs' : List Change} (h : Functional cs') (hsub : ∀ c ∈ cs, c ∈ cs') : Functional cs :=
  fun c₁ h₁ c₂ h₂ => h c₁ (hsub c₁ h₁) c₂ (hsub c₂ h₂)

theorem mem_changesOf_of_pair {docs : List (Str × RevTree)} {u : Str} {x : Rev × Option Rev}
    (h : x ∈ pairsOf docs u) : (⟨u, x.1, x.2⟩ : Change) ∈ changesOf docs := by
  unfold pairsOf entriesOf at h
  obtain ⟨e, he, rfl⟩ := List.mem_map.mp h
  rcases C15.treeOf_mem_or docs u with h0 | ⟨p, hp, h1, h2⟩
  · rw [h0] at he; simp [RevTree.empty] at he
  · unfold changesOf
    rw [List.mem_flatMap]
    refine ⟨p, hp, ?_⟩
    rw [h2, h1]
    exact List.mem_map.mpr ⟨e, he, rfl⟩

/-! ### 1. one tree: `unvalidatedAdd` folded over the change records of one object -/

/-- the effect of a list of change records on the tree of object `u` -/
def addAll (u : Str) (t : RevTree) (cs : List Change) : RevTree :=
  cs.foldl (fun t c => if c.uuid = u then (t.unvalidatedAdd c.rev c.parent false).1 else t) t

theorem addAll_nil (u : Str) (t : RevTree) : addAll u t [] = t := rfl
theorem addAll_cons (u : Str) (t : RevTree) (c : Change) (cs : List Change) :
    addAll u t (c :: cs) = addAll u (if c.uuid = u then (t.unvalidatedAdd c.rev c.parent false).1 else t) cs := rfl
theorem addAll_append (u : Str) (t : RevTree) (cs₁ cs₂ : List Change) :
    addAll u t (cs₁ ++ cs₂) = addAll u (addAll u t cs₁) cs₂ := by
  unfold addAll; rw [List.foldl_append]

theorem mem_unvalidatedAdd (t : RevTree) (r : Rev) (p : Option Rev) (s : Bool) (e : RtEntry) :
    e ∈ (t.unvalidatedAdd r p s).1.entries ↔
      e ∈ t.entries ∨ (e = ⟨r, p, s⟩ ∧ ∀ e' ∈ t.entries, e'.rev ≠ r) := by
  unfold unvalidatedAdd
  split
  · next hc =>
    obtain ⟨e', he', hr⟩ := (C05.contains_iff t r).mp hc
    constructor
    · exact Or.inl
    · rintro (h | ⟨_, h⟩)
      · exact h
      · exact absurd hr (h e' he')
  · next hc =>
    have hn : ∀ e' ∈ t.entries, e'.rev ≠ r := fun e' he' hr => hc ((C05.contains_iff t r).mpr ⟨e', he', hr⟩)
    simp only [List.mem_append, List.mem_singleton]
    constructor
    · rintro (h | h)
      · exact Or.inl h
      · exact Or.inr ⟨h, hn⟩
    · rintro (h | ⟨h, _⟩)
      · exact Or.inl h
      · exact Or.inr h

theorem unvalidatedAdd_entries_ne_nil (t : RevTree) (r : Rev) (p : Option Rev) (s : Bool) :
    (t.unvalidatedAdd r p s).1.entries ≠ [] := by
  unfold unvalidatedAdd
  split
  · next hc =>
    obtain ⟨e', he', _⟩ := (C05.contains_iff t r).mp hc
    exact List.ne_nil_of_mem he'
  · simp

theorem unvalidatedAdd_staging_false (t : RevTree) (r : Rev) (p : Option Rev) :
    (t.unvalidatedAdd r p false).1.staging = t.staging := by
  unfold unvalidatedAdd
  split <;> simp

/-- every entry after the fold is an old one or a fresh, non-staging record of one of the changes -/
theorem mem_addAll_imp (u : Str) (t : RevTree) (cs : List Change) (e : RtEntry)
    (h : e ∈ (addAll u t cs).entries) :
    e ∈ t.entries ∨ (e.staging = false ∧ ∃ c ∈ cs, c.uuid = u ∧ (c.rev, c.parent) = (e.rev, e.parent)) := by
  induction cs generalizing t with
  | nil => exact Or.inl h
  | cons c cs ih =>
    rw [addAll_cons] at h
    rcases ih _ h with h1 | ⟨hs, c', hc', r⟩
    · split at h1
      · next hu =>
        rcases (mem_unvalidatedAdd _ _ _ _ _).mp h1 with h2 | ⟨rfl, _⟩
        · exact Or.inl h2
        · exact Or.inr ⟨rfl, c, by simp, hu, rfl⟩
      · exact Or.inl h1
    · exact Or.inr ⟨hs, c', List.mem_cons_of_mem _ hc', r⟩

theorem addAll_keep (u : Str) (t : RevTree) (cs : List Change) (e : RtEntry) (h : e ∈ t.entries) :
    e ∈ (addAll u t cs).entries := by
  induction cs generalizing t with
  | nil => exact h
  | cons c cs ih =>
    rw [addAll_cons]
    apply ih
    split
    · exact (mem_unvalidatedAdd _ _ _ _ _).mpr (Or.inl h)
    · exact h

/-- every change record of `u` has its revision recorded after the fold -/
theorem addAll_rev_present (u : Str) (t : RevTree) (cs : List Change) (c : Change) (hc : c ∈ cs) (hu : c.uuid = u) :
    ∃ e ∈ (addAll u t cs).entries, e.rev = c.rev := by
  induction cs generalizing t with
  | nil => cases hc
  | cons c' cs ih =>
    rw [addAll_cons]
    rcases List.mem_cons.mp hc with rfl | hc
    · rw [if_pos hu]
      by_cases hex : ∃ e' ∈ t.entries, e'.rev = c.rev
      · obtain ⟨e', he', hr⟩ := hex
        exact ⟨e', addAll_keep _ _ _ _ ((mem_unvalidatedAdd _ _ _ _ _).mpr (Or.inl he')), hr⟩
      · refine ⟨⟨c.rev, c.parent, false⟩, addAll_keep _ _ _ _ ((mem_unvalidatedAdd _ _ _ _ _).mpr (Or.inr ⟨rfl, ?_⟩)), rfl⟩
        intro e' he' hr
        exact hex ⟨e', he', hr⟩
    · exact ih _ hc

theorem addAll_keysNodup (u : Str) (t : RevTree) (cs : List Change) (hk : KeysNodup t.entries) :
    KeysNodup (addAll u t cs).entries := by
  induction cs generalizing t with
  | nil => exact hk
  | cons c cs ih =>
    rw [addAll_cons]
    apply ih
    split
    · exact C05.unvalidatedAdd_keysNodup _ _ _ _ hk
    · exact hk

theorem addAll_staging (u : Str) (t : RevTree) (cs : List Change) : (addAll u t cs).staging = t.staging := by
  induction cs generalizing t with
  | nil => rfl
  | cons c cs ih =>
    rw [addAll_cons, ih]
    split
    · exact unvalidatedAdd_staging_false _ _ _
    · rfl

/-- **the pairs of one tree after the fold, as a set**: when no revision of `u` is given two different
    parents (among the recorded entries and the change records), the tree holds exactly the old pairs
    and the pairs of the change records of `u`. -/
theorem addAll_pairs (u : Str) (t : RevTree) (cs : List Change)
    (hf : Functional (t.entries.map (fun e => ⟨u, e.rev, e.parent⟩) ++ cs)) (x : Rev × Option Rev) :
    x ∈ (addAll u t cs).entries.map (fun e => (e.rev, e.parent)) ↔
      x ∈ t.entries.map (fun e => (e.rev, e.parent)) ∨ ∃ c ∈ cs, c.uuid = u ∧ (c.rev, c.parent) = x := by
  constructor
  · intro h
    obtain ⟨e, he, rfl⟩ := List.mem_map.mp h
    rcases mem_addAll_imp u t cs e he with h1 | ⟨_, c, hc, hu, r⟩
    · exact Or.inl (List.mem_map.mpr ⟨e, h1, rfl⟩)
    · exact Or.inr ⟨c, hc, hu, r⟩
  · rintro (h | ⟨c, hc, hu, rfl⟩)
    · obtain ⟨e, he, rfl⟩ := List.mem_map.mp h
      exact List.mem_map.mpr ⟨e, addAll_keep _ _ _ _ he, rfl⟩
    · obtain ⟨e, he, hr⟩ := addAll_rev_present u t cs c hc hu
      refine List.mem_map.mpr ⟨e, he, ?_⟩
      have hpar : e.parent = c.parent := by
        rcases mem_addAll_imp u t cs e he with h1 | ⟨_, c', hc', hu', r'⟩
        · have := hf ⟨u, e.rev, e.parent⟩ (List.mem_append.mpr (Or.inl (List.mem_map.mpr ⟨e, h1, rfl⟩)))
            c (List.mem_append.mpr (Or.inr hc)) hu.symm hr
          exact this
        · have h2 := hf c' (List.mem_append.mpr (Or.inr hc')) c (List.mem_append.mpr (Or.inr hc))
            (hu'.trans hu.symm) (by rw [(Prod.mk.inj r').1, hr])
          rw [← (Prod.mk.inj r').2, h2]
      rw [hr, hpar]


/-! ### 2. the document map: `applyChanges.upd` and `applyChanges` -/

theorem applyChanges_eq (docs : List (Str × RevTree)) (cs : List Change) :
    applyChanges docs cs = cs.foldl (fun d c => applyChanges.upd c d) docs := rfl
theorem applyChanges_nil (docs : List (Str × RevTree)) : applyChanges docs [] = docs := rfl
theorem applyChanges_cons (docs : List (Str × RevTree)) (c : Change) (cs : List Change) :
    applyChanges docs (c :: cs) = applyChanges (applyChanges.upd c docs) cs := rfl
theorem applyChanges_append (docs : List (Str × RevTree)) (cs₁ cs₂ : List Change) :
    applyChanges docs (cs₁ ++ cs₂) = applyChanges (applyChanges docs cs₁) cs₂ := by
  rw [applyChanges_eq, List.foldl_append]; rfl

theorem upd_keys (c : Change) (docs : List (Str × RevTree)) :
    ∀ q ∈ applyChanges.upd c docs, q.1 = c.uuid ∨ ∃ q' ∈ docs, q'.1 = q.1 := by
  induction docs with
  | nil => intro q hq; simp only [applyChanges.upd, List.mem_singleton] at hq; subst hq; exact Or.inl rfl
  | cons x rest ih =>
    obtain ⟨k, t⟩ := x
    simp only [applyChanges.upd]
    split
    · intro q hq
      rcases List.mem_cons.mp hq with rfl | hq
      · exact Or.inr ⟨(k, t), by simp, rfl⟩
      · exact Or.inr ⟨q, List.mem_cons_of_mem _ hq, rfl⟩
    · split
      · intro q hq
        rcases List.mem_cons.mp hq with rfl | hq
        · exact Or.inl rfl
        · exact Or.inr ⟨q, hq, rfl⟩
      · intro q hq
        rcases List.mem_cons.mp hq with rfl | hq
        · exact Or.inr ⟨(k, t), by simp, rfl⟩
        · rcases ih q hq with h | ⟨q', hq', h⟩
          · exact Or.inl h
          · exact Or.inr ⟨q', List.mem_cons_of_mem _ hq', h⟩

/-- the keys after one step, as a set -/
theorem mem_keys_upd (c : Change) (docs : List (Str × RevTree)) (k : Str) :
    k ∈ (applyChanges.upd c docs).map (·.1) ↔ k = c.uuid ∨ k ∈ docs.map (·.1) := by
  induction docs with
  | nil => simp [applyChanges.upd]
  | cons x rest ih =>
    obtain ⟨k', t⟩ := x
    simp only [applyChanges.upd]
    split
    · next h => subst h; simp
    · split
      · simp
      · simp only [List.map_cons, List.mem_cons, ih]
        constructor
        · rintro (h | h | h)
          · exact Or.inr (Or.inl h)
          · exact Or.inl h
          · exact Or.inr (Or.inr h)
        · rintro (h | h | h)
          · exact Or.inr (Or.inl h)
          · exact Or.inl h
          · exact Or.inr (Or.inr h)

/-- one step keeps the map sorted -/
theorem upd_sorted {docs : List (Str × RevTree)} (hs : DocsSorted docs) (c : Change) :
    DocsSorted (applyChanges.upd c docs) := by
  induction docs with
  | nil => simp [applyChanges.upd, DocsSorted]
  | cons x rest ih =>
    obtain ⟨k, t⟩ := x
    obtain ⟨h1, h2⟩ := List.pairwise_cons.mp hs
    simp only [applyChanges.upd]
    split
    · exact List.pairwise_cons.mpr ⟨h1, h2⟩
    · next hk =>
      split
      · next hlt =>
        refine List.pairwise_cons.mpr ⟨?_, hs⟩
        intro q hq
        rcases List.mem_cons.mp hq with rfl | hq
        · exact hlt
        · exact C05.strLt_trans _ _ _ hlt (h1 q hq)
      · next hlt =>
        refine List.pairwise_cons.mpr ⟨?_, ih h2⟩
        intro q hq
        rcases upd_keys c rest q hq with h | ⟨q', hq', h⟩
        · rw [h]; exact C15.strLt_total c.uuid k (fun e => hk e.symm) (by simpa using hlt)
        · rw [← h]; exact h1 q' hq'

/-- the tree of `u'` after one step on a sorted map -/
theorem treeOf_upd {docs : List (Str × RevTree)} (hs : DocsSorted docs) (c : Change) (u' : Str) :
    treeOf (applyChanges.upd c docs) u' =
      if c.uuid = u' then ((treeOf docs u').unvalidatedAdd c.rev c.parent false).1 else treeOf docs u' := by
  induction docs with
  | nil =>
    simp only [applyChanges.upd, treeOf_cons, treeOf_nil]
  | cons x rest ih =>
    obtain ⟨k, t⟩ := x
    obtain ⟨h1, h2⟩ := List.pairwise_cons.mp hs
    simp only [applyChanges.upd]
    split
    · next hk =>
      subst hk
      simp only [treeOf_cons]
      by_cases h : c.uuid = u'
      · simp [h]
      · simp [h]
    · next hk =>
      split
      · next hlt =>
        rw [treeOf_cons (u := u') c.uuid]
        by_cases h : c.uuid = u'
        · have hnone : treeOf ((k, t) :: rest) u' = RevTree.empty := by
            apply C15.treeOf_of_not_mem
            intro q hq e
            have : strLt c.uuid q.1 = true := by
              rcases List.mem_cons.mp hq with rfl | hq
              · exact hlt
              · exact C05.strLt_trans _ _ _ hlt (h1 q hq)
            rw [e, ← h, C05.strLt_irrefl] at this
            cases this
          rw [hnone]
        · simp [h]
      · rw [treeOf_cons, ih h2, treeOf_cons]
        by_cases h : c.uuid = u'
        · have : ¬ k = u' := fun e => hk (e.trans h.symm)
          simp [h, this]
        · simp [h]

theorem applyChanges_sorted {docs : List (Str × RevTree)} (hs : DocsSorted docs) (cs : List Change) :
    DocsSorted (applyChanges docs cs) := by
  induction cs generalizing docs with
  | nil => exact hs
  | cons c cs ih => rw [applyChanges_cons]; exact ih (upd_sorted hs c)

/-- **tree-level semantics of `apply_delta`**: the tree of `u` after applying a list of change records is
    the old tree of `u` with the records of `u` added in order -/
theorem treeOf_applyChanges {docs : List (Str × RevTree)} (hs : DocsSorted docs) (cs : List Change) (u : Str) :
    treeOf (applyChanges docs cs) u = addAll u (treeOf docs u) cs := by
  induction cs generalizing docs with
  | nil => rfl
  | cons c cs ih => rw [applyChanges_cons, ih (upd_sorted hs c), treeOf_upd hs, addAll_cons]

theorem mem_keys_applyChanges (docs : List (Str × RevTree)) (cs : List Change) (k : Str) :
    k ∈ (applyChanges docs cs).map (·.1) ↔ k ∈ docs.map (·.1) ∨ ∃ c ∈ cs, c.uuid = k := by
  induction cs generalizing docs with
  | nil => simp [applyChanges_nil]
  | cons c cs ih =>
    rw [applyChanges_cons, ih, mem_keys_upd]
    constructor
    · rintro ((h | h) | ⟨c', hc', h⟩)
      · exact Or.inr ⟨c, by simp, h.symm⟩
      · exact Or.inl h
      · exact Or.inr ⟨c', List.mem_cons_of_mem _ hc', h⟩
    · rintro (h | ⟨c', hc', h⟩)
      · exact Or.inl (Or.inr h)
      · rcases List.mem_cons.mp hc' with rfl | hc'
        · exact Or.inl (Or.inl h.symm)
        · exact Or.inr ⟨c', hc', h⟩

theorem upd_noEmpty {docs : List (Str × RevTree)} (h : NoEmpty docs) (c : Change) : NoEmpty (applyChanges.upd c docs) := by
  induction docs with
  | nil =>
    intro p hp
    simp only [applyChanges.upd, List.mem_singleton] at hp
    subst hp; exact unvalidatedAdd_entries_ne_nil _ _ _ _
  | cons x rest ih =>
    obtain ⟨k, t⟩ := x
    have hr : NoEmpty rest := fun q hq => h q (List.mem_cons_of_mem _ hq)
    simp only [applyChanges.upd]
    split
    · intro p hp
      rcases List.mem_cons.mp hp with rfl | hp
      · exact unvalidatedAdd_entries_ne_nil _ _ _ _
      · exact hr p hp
    · split
      · intro p hp
        rcases List.mem_cons.mp hp with rfl | hp
        · exact unvalidatedAdd_entries_ne_nil _ _ _ _
        · exact h p hp
      · intro p hp
        rcases List.mem_cons.mp hp with rfl | hp
        · exact h _ (by simp)
        · exact ih hr p hp

theorem applyChanges_noEmpty {docs : List (Str × RevTree)} (h : NoEmpty docs) (cs : List Change) :
    NoEmpty (applyChanges docs cs) := by
  induction cs generalizing docs with
  | nil => exact h
  | cons c cs ih => rw [applyChanges_cons]; exact ih (upd_noEmpty h c)

/-- `apply_delta` keeps every tree free of duplicate revisions -/
theorem applyChanges_treesNodup {docs : List (Str × RevTree)} (hs : DocsSorted docs) (hk : TreesNodup docs)
    (cs : List Change) : TreesNodup (applyChanges docs cs) := by
  intro u
  unfold entriesOf
  rw [treeOf_applyChanges hs]
  exact addAll_keysNodup u _ cs (hk u)

/-- `apply_delta` never stages: every entry is an old one or has `staging = false` -/
theorem applyChanges_entry_old_or_committed {docs : List (Str × RevTree)} (hs : DocsSorted docs) (cs : List Change)
    (u : Str) (e : RtEntry) (h : e ∈ entriesOf (applyChanges docs cs) u) :
    e ∈ entriesOf docs u ∨ (e.staging = false ∧ ∃ c ∈ cs, c.uuid = u ∧ c.rev = e.rev ∧ c.parent = e.parent) := by
  unfold entriesOf at h
  rw [treeOf_applyChanges hs] at h
  rcases mem_addAll_imp u _ cs e h with h1 | ⟨h2, c, hc, hu, r⟩
  · exact Or.inl h1
  · exact Or.inr ⟨h2, c, hc, hu, (Prod.mk.inj r).1, (Prod.mk.inj r).2⟩

theorem applyChanges_noStaged {docs : List (Str × RevTree)} (hs : DocsSorted docs) (hn : NoStaged docs)
    (cs : List Change) : NoStaged (applyChanges docs cs) := by
  intro u e he
  rcases applyChanges_entry_old_or_committed hs cs u e he with h | ⟨h, _⟩
  · exact hn u e h
  · exact h

/-- the per-tree staging flag is untouched -/
theorem applyChanges_staging_flag {docs : List (Str × RevTree)} (hs : DocsSorted docs) (cs : List Change) (u : Str) :
    (treeOf (applyChanges docs cs) u).staging = (treeOf docs u).staging := by
  rw [treeOf_applyChanges hs, addAll_staging]

/-- old entries are kept, in place -/
theorem applyChanges_keeps {docs : List (Str × RevTree)} (hs : DocsSorted docs) (cs : List Change) (u : Str)
    (e : RtEntry) (h : e ∈ entriesOf docs u) : e ∈ entriesOf (applyChanges docs cs) u := by
  unfold entriesOf
  rw [treeOf_applyChanges hs]
  exact addAll_keep u _ cs e h

/-- **`applyChanges` as a set** (wanted 1): on a sorted map, when no revision of an object is given two
    different parents among the recorded entries and the applied change records, the tree of every
    object `u` holds exactly the old (revision, parent) pairs and those of the change records of `u`. -/
theorem applyChanges_entries {docs : List (Str × RevTree)} (hs : DocsSorted docs) (cs : List Change)
    (hf : Functional (changesOf docs ++ cs)) (u : Str) (x : Rev × Option Rev) :
    x ∈ pairsOf (applyChanges docs cs) u ↔ x ∈ pairsOf docs u ∨ ∃ c ∈ cs, c.uuid = u ∧ (c.rev, c.parent) = x := by
  unfold pairsOf entriesOf
  rw [treeOf_applyChanges hs]
  apply addAll_pairs
  apply hf.mono
  intro c hc
  rcases List.mem_append.mp hc with h | h
  · obtain ⟨e, he, rfl⟩ := List.mem_map.mp h
    refine List.mem_append.mpr (Or.inl ?_)
    exact mem_changesOf_of_pair (u := u) (x := (e.rev, e.parent))
      (List.mem_map.mpr ⟨e, he, rfl⟩)
  · exact List.mem_append.mpr (Or.inr h)


/-! ### 3. order independence of `apply_delta` -/

theorem Functional.congr {cs cs' : List Change} (h : ∀ c, c ∈ cs ↔ c ∈ cs') : Functional cs ↔ Functional cs' :=
  ⟨fun hf => hf.mono (fun c hc => (h c).mpr hc), fun hf => hf.mono (fun c hc => (h c).mp hc)⟩

/-- two strictly increasing key lists with the same elements are equal -/
theorem sorted_keys_ext (l₁ l₂ : List Str) (h₁ : l₁.Pairwise (fun a b => strLt a b = true))
    (h₂ : l₂.Pairwise (fun a b => strLt a b = true)) (h : ∀ k, k ∈ l₁ ↔ k ∈ l₂) : l₁ = l₂ := by
  induction l₁ generalizing l₂ with
  | nil =>
    cases l₂ with
    | nil => rfl
    | cons b t => exact absurd ((h b).mpr (by simp)) (by simp)
  | cons a t₁ ih =>
    cases l₂ with
    | nil => exact absurd ((h a).mp (by simp)) (by simp)
    | cons b t₂ =>
      obtain ⟨ha, ht₁⟩ := List.pairwise_cons.mp h₁
      obtain ⟨hb, ht₂⟩ := List.pairwise_cons.mp h₂
      have hab : a = b := by
        rcases List.mem_cons.mp ((h a).mp (by simp)) with e | hin
        · exact e
        · rcases List.mem_cons.mp ((h b).mpr (by simp)) with e | hin'
          · exact e.symm
          · have h1 := hb a hin
            have h2 := ha b hin'
            rw [C05.strLt_asymm _ _ h1] at h2; cases h2
      subst hab
      congr 1
      apply ih t₂ ht₁ ht₂
      intro k
      constructor
      · intro hk
        rcases List.mem_cons.mp ((h k).mp (List.mem_cons_of_mem _ hk)) with e | hin
        · have := ha k hk; rw [e, C05.strLt_irrefl] at this; cases this
        · exact hin
      · intro hk
        rcases List.mem_cons.mp ((h k).mpr (List.mem_cons_of_mem _ hk)) with e | hin
        · have := hb k hk; rw [e, C05.strLt_irrefl] at this; cases this
        · exact hin

theorem docsSorted_keys {docs : List (Str × RevTree)} (hs : DocsSorted docs) :
    (docs.map (·.1)).Pairwise (fun a b => strLt a b = true) := by
  rw [List.pairwise_map]; exact hs

/-- the key list of a sorted map is determined by its key set -/
theorem keys_eq_of_mem {d₁ d₂ : List (Str × RevTree)} (h₁ : DocsSorted d₁) (h₂ : DocsSorted d₂)
    (h : ∀ k, k ∈ d₁.map (·.1) ↔ k ∈ d₂.map (·.1)) : d₁.map (·.1) = d₂.map (·.1) :=
  sorted_keys_ext _ _ (docsSorted_keys h₁) (docsSorted_keys h₂) h

/-- **`applyChanges_perm`** (wanted 2): the change records of a block in any order (and, with
    `applyBlocks_eq`, the blocks in any order) give the same document keys, in the same places, and per
    object the same set of (revision, parent) pairs. -/
theorem applyChanges_perm {docs : List (Str × RevTree)} (hs : DocsSorted docs) {cs₁ cs₂ : List Change}
    (hp : cs₁.Perm cs₂) (hf : Functional (changesOf docs ++ cs₁)) :
    (applyChanges docs cs₁).map (·.1) = (applyChanges docs cs₂).map (·.1) ∧
    ∀ u x, x ∈ pairsOf (applyChanges docs cs₁) u ↔ x ∈ pairsOf (applyChanges docs cs₂) u := by
  have hf₂ : Functional (changesOf docs ++ cs₂) := by
    refine (Functional.congr ?_).mp hf
    intro c; simp only [List.mem_append, hp.mem_iff]
  constructor
  · apply keys_eq_of_mem (applyChanges_sorted hs _) (applyChanges_sorted hs _)
    intro k
    rw [mem_keys_applyChanges, mem_keys_applyChanges]
    constructor
    · rintro (h | ⟨c, hc, h⟩)
      · exact Or.inl h
      · exact Or.inr ⟨c, hp.mem_iff.mp hc, h⟩
    · rintro (h | ⟨c, hc, h⟩)
      · exact Or.inl h
      · exact Or.inr ⟨c, hp.mem_iff.mpr hc, h⟩
  · intro u x
    rw [applyChanges_entries hs cs₁ hf, applyChanges_entries hs cs₂ hf₂]
    constructor
    · rintro (h | ⟨c, hc, h⟩)
      · exact Or.inl h
      · exact Or.inr ⟨c, hp.mem_iff.mp hc, h⟩
    · rintro (h | ⟨c, hc, h⟩)
      · exact Or.inl h
      · exact Or.inr ⟨c, hp.mem_iff.mpr hc, h⟩

/-- applying blocks one after the other is applying the concatenation of their change records -/
theorem applyBlocks_eq (docs : List (Str × RevTree)) (bs : List (List Change)) :
    bs.foldl applyChanges docs = applyChanges docs bs.flatten := by
  induction bs generalizing docs with
  | nil => rfl
  | cons b bs ih => rw [List.foldl_cons, ih, List.flatten_cons, applyChanges_append]

/-- blocks applied in any order: same keys, same pair sets -/
theorem applyBlocks_perm {docs : List (Str × RevTree)} (hs : DocsSorted docs) {bs₁ bs₂ : List (List Change)}
    (hp : bs₁.Perm bs₂) (hf : Functional (changesOf docs ++ bs₁.flatten)) :
    (bs₁.foldl applyChanges docs).map (·.1) = (bs₂.foldl applyChanges docs).map (·.1) ∧
    ∀ u x, x ∈ pairsOf (bs₁.foldl applyChanges docs) u ↔ x ∈ pairsOf (bs₂.foldl applyChanges docs) u := by
  rw [applyBlocks_eq, applyBlocks_eq]
  exact applyChanges_perm hs hp.flatten hf

theorem keysNodup_nodup {es : List RtEntry} (hk : KeysNodup es) : es.Nodup := by
  unfold KeysNodup List.Nodup at hk
  rw [List.pairwise_map] at hk
  exact hk.imp (fun h e => h (by rw [e]))

/-- two duplicate-free entry lists without staged entries that hold the same (revision, parent) pairs
    are permutations of each other -/
theorem perm_of_pairs_eq {es₁ es₂ : List RtEntry} (hk₁ : KeysNodup es₁) (hk₂ : KeysNodup es₂)
    (hs₁ : ∀ e ∈ es₁, e.staging = false) (hs₂ : ∀ e ∈ es₂, e.staging = false)
    (h : ∀ x, x ∈ es₁.map (fun e => (e.rev, e.parent)) ↔ x ∈ es₂.map (fun e => (e.rev, e.parent))) :
    es₁.Perm es₂ := by
  rw [List.perm_ext_iff_of_nodup (keysNodup_nodup hk₁) (keysNodup_nodup hk₂)]
  have key : ∀ {a b : List RtEntry}, (∀ e ∈ a, e.staging = false) → (∀ e ∈ b, e.staging = false) →
      (∀ x, x ∈ a.map (fun e => (e.rev, e.parent)) → x ∈ b.map (fun e => (e.rev, e.parent))) →
      ∀ e ∈ a, e ∈ b := by
    intro a b ha hb hab e he
    obtain ⟨e', he', r⟩ := List.mem_map.mp (hab _ (List.mem_map.mpr ⟨e, he, rfl⟩))
    have : e' = e := by
      obtain ⟨r1, p1, s1⟩ := e
      obtain ⟨r2, p2, s2⟩ := e'
      have h1 := ha _ he
      have h2 := hb _ he'
      simp only [Prod.mk.injEq] at r
      simp only at h1 h2
      rw [h1, h2, r.1, r.2]
    rw [← this]; exact he'
  intro e
  exact ⟨key hs₁ hs₂ (fun x => (h x).mp) e, key hs₂ hs₁ (fun x => (h x).mpr) e⟩

/-- **`tree_perm`** (wanted 2, MAIN): two document maps whose trees are duplicate-free, hold no staged
    entries and record, per object, the same set of (revision, parent) pairs have, after validation, the
    same leaves and the same winner for every object. -/
theorem tree_perm {P : Rev → Prop} (ho : CmpOrder P) {d₁ d₂ : List (Str × RevTree)}
    (hk₁ : TreesNodup d₁) (hk₂ : TreesNodup d₂) (hn₁ : NoStaged d₁) (hn₂ : NoStaged d₂)
    (h : ∀ u x, x ∈ pairsOf d₁ u ↔ x ∈ pairsOf d₂ u) (hP : ∀ u, ∀ e ∈ entriesOf d₁ u, P e.rev) (u : Str) :
    (entriesOf d₁ u).Perm (entriesOf d₂ u) ∧
    (validate (treeOf d₁ u)).leafs = (validate (treeOf d₂ u)).leafs ∧
    (validate (treeOf d₁ u)).winner = (validate (treeOf d₂ u)).winner := by
  have hp : (treeOf d₁ u).entries.Perm (treeOf d₂ u).entries :=
    perm_of_pairs_eq (hk₁ u) (hk₂ u) (hn₁ u) (hn₂ u) (h u)
  exact ⟨hp, C05.leafs_perm ho _ _ hp (hk₁ u) (hP u), C05.winner_perm ho _ _ hp (hk₁ u) (hP u)⟩

/-- `tree_perm` for `apply_delta` itself: any permutation of the change records gives the same leaves and
    the same winner for every object -/
theorem applyChanges_tree_perm {P : Rev → Prop} (ho : CmpOrder P) {docs : List (Str × RevTree)}
    (hs : DocsSorted docs) (hk : TreesNodup docs) (hn : NoStaged docs) {cs₁ cs₂ : List Change}
    (hp : cs₁.Perm cs₂) (hf : Functional (changesOf docs ++ cs₁))
    (hP : ∀ u, ∀ e ∈ entriesOf (applyChanges docs cs₁) u, P e.rev) (u : Str) :
    (validate (treeOf (applyChanges docs cs₁) u)).leafs = (validate (treeOf (applyChanges docs cs₂) u)).leafs ∧
    (validate (treeOf (applyChanges docs cs₁) u)).winner = (validate (treeOf (applyChanges docs cs₂) u)).winner :=
  (tree_perm ho (applyChanges_treesNodup hs hk _) (applyChanges_treesNodup hs hk _)
    (applyChanges_noStaged hs hn _) (applyChanges_noStaged hs hn _) (applyChanges_perm hs hp hf).2 hP u).2


/-! ### 4. the trees of a replica hold exactly the change records of the applied blocks -/

/-- the trees hold exactly the change records of the applied blocks -/
def Exact (docs : List (Str × RevTree)) (ds : Ds) : Prop :=
  ∀ u x, x ∈ pairsOf docs u ↔
    ∃ p ∈ ds, p.2 = .applied ∧ ∃ c ∈ p.1.changes, c.uuid = u ∧ (c.rev, c.parent) = x

/-- the document map of a replica state is in order: sorted unique keys, no tree records a revision
    twice, nothing is staged, no tree is empty, and the trees hold exactly the change records of the
    applied blocks. (The view is a parameter only to read `DocsOK v st` next to `Synced v st`; the
    connection between the blocks and the view is `Synced.ds`.) -/
structure DocsOK (_v : View) (st : PState) : Prop where
  sorted : DocsSorted st.docs
  nodup : TreesNodup st.docs
  noStaged : NoStaged st.docs
  noEmpty : NoEmpty st.docs
  exact : Exact st.docs st.deltas

/-- every tree of the map carries its own cached leaves and winner -/
def AllValidated (docs : List (Str × RevTree)) : Prop := ∀ u, validate (treeOf docs u) = treeOf docs u

theorem mem_keys_iff_pairs {docs : List (Str × RevTree)} (hs : DocsSorted docs) (hne : NoEmpty docs) (k : Str) :
    k ∈ docs.map (·.1) ↔ ∃ x, x ∈ pairsOf docs k := by
  constructor
  · intro hk
    obtain ⟨p, hp, rfl⟩ := List.mem_map.mp hk
    obtain ⟨e, he⟩ := List.exists_mem_of_ne_nil _ (hne p hp)
    exact ⟨(e.rev, e.parent), List.mem_map.mpr ⟨e, (C15.mem_entriesOf_iff hs p.1 e).mpr ⟨p, hp, rfl, he⟩, rfl⟩⟩
  · rintro ⟨x, hx⟩
    obtain ⟨e, he, _⟩ := List.mem_map.mp hx
    obtain ⟨p, hp, h1, _⟩ := (C15.mem_entriesOf_iff hs k e).mp he
    exact List.mem_map.mpr ⟨p, hp, h1⟩

/-- two synchronised states over the same view have the same applied blocks -/
theorem applied_transfer {v : View} {s₁ s₂ : PState} (h1 : Synced v s₁) (h2 : Synced v s₂) :
    ∀ p ∈ s₁.deltas, p.2 = .applied → ∃ q ∈ s₂.deltas, q.1 = p.1 ∧ q.2 = .applied := by
  intro p hp ha
  have hst := statusOf_of_mem h1.ds.nodup hp
  rw [synced_status_unique h1 h2, ha] at hst
  unfold statusOf at hst
  cases hf : findDelta s₂.deltas p.1.id with
  | none => rw [hf] at hst; cases hst
  | some q =>
    rw [hf] at hst
    simp only [Option.map_some, Option.some.injEq] at hst
    obtain ⟨hq, hid⟩ := findDelta_some hf
    refine ⟨q, hq, ?_, hst⟩
    have f1 := (h1.ds.fetched p hp).1
    have f2 := (h2.ds.fetched q hq).1
    rw [hid, f1] at f2
    exact (Option.some.inj f2).symm

theorem applied_blocks_iff {v : View} {s₁ s₂ : PState} (h1 : Synced v s₁) (h2 : Synced v s₂) (Q : Block → Prop) :
    (∃ p ∈ s₁.deltas, p.2 = .applied ∧ Q p.1) ↔ (∃ p ∈ s₂.deltas, p.2 = .applied ∧ Q p.1) := by
  constructor
  · rintro ⟨p, hp, ha, hq⟩
    obtain ⟨q, hq', e, ha'⟩ := applied_transfer h1 h2 p hp ha
    exact ⟨q, hq', ha', e ▸ hq⟩
  · rintro ⟨p, hp, ha, hq⟩
    obtain ⟨q, hq', e, ha'⟩ := applied_transfer h2 h1 p hp ha
    exact ⟨q, hq', ha', e ▸ hq⟩

theorem mem_anchors (st : PState) (id : BlockId) :
    id ∈ st.anchors ↔ (∃ p ∈ st.deltas, p.2 = .applied ∧ p.1.id = id) ∧
      ¬ ∃ q ∈ st.deltas, q.2 = .applied ∧ id ∈ q.1.parents := by
  unfold PState.anchors
  simp only [List.mem_filter, List.mem_map, Bool.not_eq_true', List.any_eq_false, decide_eq_true_eq,
    List.contains_iff_mem, Bool.not_eq_true]
  constructor
  · rintro ⟨⟨p, ⟨hp, ha⟩, hid⟩, hn⟩
    refine ⟨⟨p, hp, ha, hid⟩, ?_⟩
    rintro ⟨q, hq, hqa, hqp⟩
    exact hn q ⟨hq, hqa⟩ hqp
  · rintro ⟨⟨p, hp, ha, hid⟩, hn⟩
    refine ⟨⟨p, ⟨hp, ha⟩, hid⟩, ?_⟩
    intro q hq hqp
    exact hn ⟨q, hq.1, hq.2, hqp⟩

/-- **`anchors_congr`**: the anchors depend only on which blocks are applied -/
theorem anchors_congr {v : View} {s₁ s₂ : PState} (h1 : Synced v s₁) (h2 : Synced v s₂) (id : BlockId) :
    id ∈ s₁.anchors ↔ id ∈ s₂.anchors := by
  rw [mem_anchors, mem_anchors,
    applied_blocks_iff h1 h2 (fun b => b.id = id), applied_blocks_iff h1 h2 (fun b => id ∈ b.parents)]

/-- two states over the same view whose trees hold the change records of the applied blocks record the
    same pairs for every object -/
theorem converge_pairs {v : View} {s₁ s₂ : PState} (h1 : Synced v s₁) (h2 : Synced v s₂)
    (e1 : Exact s₁.docs s₁.deltas) (e2 : Exact s₂.docs s₂.deltas) (u : Str) (x : Rev × Option Rev) :
    x ∈ pairsOf s₁.docs u ↔ x ∈ pairsOf s₂.docs u := by
  rw [e1 u x, e2 u x]
  exact applied_blocks_iff h1 h2 (fun b => ∃ c ∈ b.changes, c.uuid = u ∧ (c.rev, c.parent) = x)

/-- what two converged replica states agree on -/
structure Agree (s₁ s₂ : PState) : Prop where
  /-- the status of every block identifier -/
  status : ∀ id, statusOf s₁.deltas id = statusOf s₂.deltas id
  /-- the anchors (as sets) -/
  anchors : ∀ id, id ∈ s₁.anchors ↔ id ∈ s₂.anchors
  /-- the indexed objects and the applied packs (as sets) -/
  objects : ∀ d, d ∈ s₁.objects ↔ d ∈ s₂.objects
  packs : ∀ k, k ∈ s₁.appliedPacks ↔ k ∈ s₂.appliedPacks
  /-- the list of object identifiers of the document map -/
  keys : s₁.docs.map (·.1) = s₂.docs.map (·.1)
  /-- per object, the set of recorded (revision, parent) pairs … -/
  pairs : ∀ u x, x ∈ pairsOf s₁.docs u ↔ x ∈ pairsOf s₂.docs u
  /-- … in fact the entry lists are permutations of each other -/
  perm : ∀ u, (entriesOf s₁.docs u).Perm (entriesOf s₂.docs u)
  /-- per object, the validated leaves (equal as sorted lists) and the winner -/
  leafs : ∀ u, (validate (treeOf s₁.docs u)).leafs = (validate (treeOf s₂.docs u)).leafs
  winner : ∀ u, (validate (treeOf s₁.docs u)).winner = (validate (treeOf s₂.docs u)).winner

/-- **`converge`** (wanted 4, MAIN; C01): two replica states that are synchronised with the same view of
    storage (same valid items, whatever the order, batching or route by which they arrived) and whose
    trees hold the change records of the applied blocks agree on: the status of every block, the
    anchors, the list of object identifiers, per object the set of recorded (revision, parent) pairs
    (the entry lists are permutations of each other), and per object the validated leaves and winner. -/
theorem converge {P : Rev → Prop} (ho : CmpOrder P) {v : View} {s₁ s₂ : PState}
    (h1 : Synced v s₁) (h2 : Synced v s₂) (d1 : DocsOK v s₁) (d2 : DocsOK v s₂)
    (hP : ∀ u, ∀ e ∈ entriesOf s₁.docs u, P e.rev) : Agree s₁ s₂ := by
  have hpairs := converge_pairs h1 h2 d1.exact d2.exact
  have ht := tree_perm ho d1.nodup d2.nodup d1.noStaged d2.noStaged hpairs hP
  refine ⟨synced_status_unique h1 h2, anchors_congr h1 h2, h1.objects_eq h2, h1.packs_eq h2, ?_, hpairs,
    fun u => (ht u).1, fun u => (ht u).2.1, fun u => (ht u).2.2⟩
  apply keys_eq_of_mem d1.sorted d2.sorted
  intro k
  rw [mem_keys_iff_pairs d1.sorted d1.noEmpty, mem_keys_iff_pairs d2.sorted d2.noEmpty]
  constructor
  · rintro ⟨x, hx⟩; exact ⟨x, (hpairs k x).mp hx⟩
  · rintro ⟨x, hx⟩; exact ⟨x, (hpairs k x).mpr hx⟩

/-- for states whose trees are validated (as `reload` and `refresh` leave them) the cached leaves and
    winners themselves are equal -/
theorem Agree.cached {s₁ s₂ : PState} (h : Agree s₁ s₂) (v1 : AllValidated s₁.docs) (v2 : AllValidated s₂.docs)
    (u : Str) :
    (treeOf s₁.docs u).leafs = (treeOf s₂.docs u).leafs ∧ (treeOf s₁.docs u).winner = (treeOf s₂.docs u).winner := by
  have h1 := h.leafs u
  have h2 := h.winner u
  rw [v1 u, v2 u] at h1 h2
  exact ⟨h1, h2⟩

/-! ### 5. `applyReady` and `validateAll` keep the document invariant -/

/-- the change records of the `ready` blocks, in map order -/
def readyChanges (ds : Ds) : List Change := (ds.filter (fun p => p.2 = .ready)).flatMap (·.1.changes)

/-- the change records of all blocks that are not held back -/
def liveChanges (ds : Ds) : List Change := (ds.filter (fun p => p.2 ≠ .blocked)).flatMap (·.1.changes)

theorem mem_readyChanges (ds : Ds) (c : Change) :
    c ∈ readyChanges ds ↔ ∃ p ∈ ds, p.2 = .ready ∧ c ∈ p.1.changes := by
  unfold readyChanges
  simp only [List.mem_flatMap, List.mem_filter, decide_eq_true_eq]
  constructor
  · rintro ⟨p, ⟨h1, h2⟩, h3⟩; exact ⟨p, h1, h2, h3⟩
  · rintro ⟨p, h1, h2, h3⟩; exact ⟨p, ⟨h1, h2⟩, h3⟩

theorem mem_liveChanges (ds : Ds) (c : Change) :
    c ∈ liveChanges ds ↔ ∃ p ∈ ds, p.2 ≠ .blocked ∧ c ∈ p.1.changes := by
  unfold liveChanges
  simp only [List.mem_flatMap, List.mem_filter, decide_eq_true_eq]
  constructor
  · rintro ⟨p, ⟨h1, h2⟩, h3⟩; exact ⟨p, h1, h2, h3⟩
  · rintro ⟨p, h1, h2, h3⟩; exact ⟨p, ⟨h1, h2⟩, h3⟩

theorem foldl_ready_eq (ds : Ds) (docs : List (Str × RevTree)) :
    ds.foldl (fun d p => if p.2 = .ready then applyChanges d p.1.changes else d) docs =
      applyChanges docs (readyChanges ds) := by
  induction ds generalizing docs with
  | nil => rfl
  | cons p ds ih =>
    rw [List.foldl_cons, ih]
    unfold readyChanges
    by_cases h : p.2 = .ready
    · simp only [h, if_true, List.filter_cons, decide_true, List.flatMap_cons]
      rw [applyChanges_append]
    · simp only [h, if_false, List.filter_cons, decide_false, Bool.false_eq_true]

/-- `applyReady` applies the change records of the `ready` blocks, in map order, as one list -/
theorem applyReady_docs (st : PState) : (applyReady st).docs = applyChanges st.docs (readyChanges st.deltas) :=
  foldl_ready_eq st.deltas st.docs

theorem applyReady_deltas (st : PState) : (applyReady st).deltas = promote st.deltas := rfl

theorem promote_applied_iff (ds : Ds) (Q : Block → Prop) :
    (∃ p ∈ promote ds, p.2 = .applied ∧ Q p.1) ↔ ∃ q ∈ ds, (q.2 = .applied ∨ q.2 = .ready) ∧ Q q.1 := by
  unfold promote
  constructor
  · rintro ⟨p, hp, ha, hq⟩
    obtain ⟨q, hq', rfl⟩ := List.mem_map.mp hp
    by_cases hr : q.2 = .ready
    · simp only [hr, if_true] at hq
      exact ⟨q, hq', Or.inr hr, hq⟩
    · simp only [hr, if_false] at ha hq
      exact ⟨q, hq', Or.inl ha, hq⟩
  · rintro ⟨q, hq', hs, hq⟩
    refine ⟨_, List.mem_map.mpr ⟨q, hq', rfl⟩, ?_⟩
    rcases hs with hs | hs
    · have : q.2 ≠ .ready := by rw [hs]; simp
      simp only [this, if_false]
      exact ⟨hs, hq⟩
    · simp only [hs, if_true]
      exact ⟨trivial, hq⟩

/-- the recorded entries of a map in order come from applied blocks -/
theorem changesOf_sub_live {docs : List (Str × RevTree)} {ds : Ds} (hs : DocsSorted docs) (he : Exact docs ds) :
    ∀ c ∈ changesOf docs, c ∈ liveChanges ds := by
  intro c hc
  unfold changesOf at hc
  obtain ⟨p, hp, hc⟩ := List.mem_flatMap.mp hc
  obtain ⟨e, hee, rfl⟩ := List.mem_map.mp hc
  have hx : (e.rev, e.parent) ∈ pairsOf docs p.1 :=
    List.mem_map.mpr ⟨e, (C15.mem_entriesOf_iff hs p.1 e).mpr ⟨p, hp, rfl, hee⟩, rfl⟩
  obtain ⟨q, hq, ha, c', hc', hu, hr⟩ := (he p.1 _).mp hx
  refine (mem_liveChanges ds _).mpr ⟨q, hq, by rw [ha]; simp, ?_⟩
  have : c' = ⟨p.1, e.rev, e.parent⟩ := by
    obtain ⟨u', r', p'⟩ := c'
    simp only [Prod.mk.injEq] at hr
    simp only at hu
    rw [hu, hr.1, hr.2]
  rw [← this]; exact hc'

/-- **`applyReady_docsOK`** (wanted 3): if the trees hold exactly the change records of the applied
    blocks, and no revision of an object is given two parents among the blocks that are not held back,
    then after `applyReady` (ready → applied) the trees again hold exactly the change records of the
    applied blocks, and the map stays sorted, duplicate-free, unstaged and without empty trees. -/
theorem applyReady_docsOK {v : View} {st : PState} (d : DocsOK v st) (hf : Functional (liveChanges st.deltas)) :
    DocsOK v (applyReady st) := by
  have hsub := changesOf_sub_live d.sorted d.exact
  have hf' : Functional (changesOf st.docs ++ readyChanges st.deltas) := by
    apply hf.mono
    intro c hc
    rcases List.mem_append.mp hc with h | h
    · exact hsub c h
    · obtain ⟨p, hp, hr, hc'⟩ := (mem_readyChanges _ _).mp h
      exact (mem_liveChanges _ _).mpr ⟨p, hp, by rw [hr]; simp, hc'⟩
  refine ⟨?_, ?_, ?_, ?_, ?_⟩
  · rw [applyReady_docs]; exact applyChanges_sorted d.sorted _
  · rw [applyReady_docs]; exact applyChanges_treesNodup d.sorted d.nodup _
  · rw [applyReady_docs]; exact applyChanges_noStaged d.sorted d.noStaged _
  · rw [applyReady_docs]; exact applyChanges_noEmpty d.noEmpty _
  · intro u x
    rw [applyReady_docs, applyReady_deltas, applyChanges_entries d.sorted _ hf',
      promote_applied_iff _ (fun b => ∃ c ∈ b.changes, c.uuid = u ∧ (c.rev, c.parent) = x), d.exact u x]
    constructor
    · rintro (⟨p, hp, ha, r⟩ | ⟨c, hc, r⟩)
      · exact ⟨p, hp, Or.inl ha, r⟩
      · obtain ⟨p, hp, hr, hc'⟩ := (mem_readyChanges _ _).mp hc
        exact ⟨p, hp, Or.inr hr, c, hc', r⟩
    · rintro ⟨p, hp, ha | hr, c, hc, r⟩
      · exact Or.inl ⟨p, hp, ha, c, hc, r⟩
      · exact Or.inr ⟨c, (mem_readyChanges _ _).mpr ⟨p, hp, hr, hc⟩, r⟩

/-! `validateAll` -/

theorem validate_empty : validate RevTree.empty = RevTree.empty := by decide

theorem treeOf_map_validate (docs : List (Str × RevTree)) (u : Str) :
    treeOf (docs.map (fun p => (p.1, p.2.validate))) u = validate (treeOf docs u) := by
  induction docs with
  | nil => rw [List.map_nil, treeOf_nil, validate_empty]
  | cons x rest ih =>
    obtain ⟨k, t⟩ := x
    rw [List.map_cons, treeOf_cons, treeOf_cons, ih]
    split <;> rfl

theorem validateAll_docs (st : PState) : (validateAll st).docs = st.docs.map (fun p => (p.1, p.2.validate)) := rfl

theorem entriesOf_validateAll (st : PState) (u : Str) : entriesOf (validateAll st).docs u = entriesOf st.docs u := by
  unfold entriesOf
  rw [validateAll_docs, treeOf_map_validate]; rfl

theorem pairsOf_validateAll (st : PState) (u : Str) : pairsOf (validateAll st).docs u = pairsOf st.docs u := by
  unfold pairsOf; rw [entriesOf_validateAll]

/-- `validateAll` does not change entries: the invariant is kept -/
theorem validateAll_docsOK {v : View} {st : PState} (d : DocsOK v st) : DocsOK v (validateAll st) := by
  refine ⟨?_, ?_, ?_, ?_, ?_⟩
  · rw [validateAll_docs]; unfold DocsSorted; rw [List.pairwise_map]; exact d.sorted
  · intro u; rw [entriesOf_validateAll]; exact d.nodup u
  · intro u; rw [entriesOf_validateAll]; exact d.noStaged u
  · intro p hp
    rw [validateAll_docs] at hp
    obtain ⟨q, hq, rfl⟩ := List.mem_map.mp hp
    exact d.noEmpty q hq
  · intro u x; rw [pairsOf_validateAll]; exact d.exact u x

theorem validateAll_allValidated (st : PState) : AllValidated (validateAll st).docs := by
  intro u; rw [validateAll_docs, treeOf_map_validate]; rfl


/-! ### 6. `mark_valid_deltas` neither applies nor un-applies a block -/

/-- every `applied` entry of `ds'` is an entry of `ds` -/
def ASub (ds ds' : Ds) : Prop := ∀ p ∈ ds', p.2 = .applied → p ∈ ds

theorem ASub.refl (ds : Ds) : ASub ds ds := fun _ h _ => h
theorem ASub.trans {a b c : Ds} (h1 : ASub a b) (h2 : ASub b c) : ASub a c := fun p hp ha => h1 p (h2 p hp ha) ha

theorem asub_setStatus {ds ds' : Ds} (h : ASub ds ds') (id : BlockId) {s : Status} (hs : s ≠ .applied) :
    ASub ds (setStatus ds' id s) := by
  intro p hp ha
  obtain ⟨q, hq, rfl⟩ := mem_setStatus.mp hp
  by_cases e : q.1.id = id
  · simp only [e, if_true] at ha; exact absurd ha hs
  · simp only [e, if_false] at ha ⊢; exact h q hq ha

theorem asub_checkParents {chk : Ds → BlockId → Ds × Status} (hc : ∀ ds id, ASub ds (chk ds id).1)
    (ps : List BlockId) : ∀ ds, ASub ds (checkParentsWith chk ds ps).1 := by
  induction ps with
  | nil => intro ds; exact ASub.refl _
  | cons p ps ih =>
    intro ds
    simp only [checkParentsWith]
    split
    · exact ASub.refl _
    · split
      · exact (hc ds p).trans (ih _)
      · exact hc ds p

theorem asub_checkDelta (v : View) (objs : List Str) : ∀ fuel ds id, ASub ds (checkDelta v objs fuel ds id).1 := by
  intro fuel
  induction fuel with
  | zero => intro ds id; exact ASub.refl _
  | succ n ih =>
    intro ds id
    simp only [checkDelta]
    split
    · exact ASub.refl _
    · next b st _ =>
      have hp := asub_checkParents ih b.parents ds
      split
      · exact ASub.refl _
      · split
        · exact asub_setStatus hp id (by simp)
        · split
          · exact asub_setStatus hp id (by simp)
          · split
            · exact asub_setStatus hp id (by simp)
            · exact asub_setStatus hp id (by simp)

theorem asub_mvStep (v : View) (objs : List Str) (fuel : Nat) (acc : Ds) (id : BlockId) :
    ASub acc (mvStep v objs fuel acc id) := by
  unfold mvStep
  split
  · exact asub_checkDelta v objs fuel acc id
  · exact ASub.refl _

/-- `mark_valid_deltas` never marks a block `applied` -/
theorem asub_markValid (v : View) (objs : List Str) (fuel : Nat) (ds : Ds) : ASub ds (markValid v objs fuel ds) := by
  rw [markValid_eq]
  generalize ds.map (·.1.id) = ids
  induction ids generalizing ds with
  | nil => exact ASub.refl _
  | cons id ids ih => rw [List.foldl_cons]; exact (asub_mvStep v objs fuel ds id).trans (ih _)

/-- `mark_valid_deltas` leaves applied blocks applied -/
theorem markValid_keeps_applied {v : View} (hv : ViewOK v) (objs : List Str) (fuel : Nat) (ds : Ds)
    (hg : Good v objs ds) (hi : ∀ p ∈ ds, p.1.id.index < fuel) :
    ∀ p ∈ ds, p.2 = .applied → p ∈ markValid v objs fuel ds := by
  obtain ⟨g, _, mo, _⟩ := markValid_spec hv objs fuel ds hg hi
  intro p hp ha
  have hst := mo p.1.id p.2 (statusOf_of_mem hg.ok.nodup hp) (by rw [ha]; simp)
  unfold statusOf at hst
  cases hf : findDelta (markValid v objs fuel ds) p.1.id with
  | none => rw [hf] at hst; cases hst
  | some q =>
    rw [hf] at hst
    simp only [Option.map_some, Option.some.injEq] at hst
    obtain ⟨hq, hid⟩ := findDelta_some hf
    have f1 := (hg.ok.fetched p hp).1
    have f2 := (g.ok.fetched q hq).1
    rw [hid, f1] at f2
    have : q = p := Prod.ext (Option.some.inj f2).symm hst
    rw [← this]; exact hq

theorem exact_congr {docs : List (Str × RevTree)} {ds ds' : Ds}
    (h : ∀ p, p.2 = .applied → (p ∈ ds ↔ p ∈ ds')) (he : Exact docs ds) : Exact docs ds' := by
  intro u x
  rw [he u x]
  constructor
  · rintro ⟨p, hp, ha, r⟩; exact ⟨p, (h p ha).mp hp, ha, r⟩
  · rintro ⟨p, hp, ha, r⟩; exact ⟨p, (h p ha).mpr hp, ha, r⟩

/-! ### 7. `reload` and `refresh` keep the document invariant -/

/-- among the blocks the view hands out, a revision of an object has one parent (true up to collisions
    of the 28-bit tail of the revision digest) -/
def ViewFunctional (v : View) : Prop :=
  ∀ id₁ ∈ v.blockIds, ∀ id₂ ∈ v.blockIds, ∀ b₁ b₂, v.fetch id₁ = some b₁ → v.fetch id₂ = some b₂ →
    ∀ c₁ ∈ b₁.changes, ∀ c₂ ∈ b₂.changes, c₁.uuid = c₂.uuid → c₁.rev = c₂.rev → c₁.parent = c₂.parent

theorem functional_of_fetched {v : View} {ds : Ds} (hvf : ViewFunctional v) (hf : Fetched v ds) :
    Functional (liveChanges ds) := by
  intro c₁ h₁ c₂ h₂
  obtain ⟨p₁, hp₁, _, hc₁⟩ := (mem_liveChanges _ _).mp h₁
  obtain ⟨p₂, hp₂, _, hc₂⟩ := (mem_liveChanges _ _).mp h₂
  obtain ⟨f₁, i₁⟩ := hf p₁ hp₁
  obtain ⟨f₂, i₂⟩ := hf p₂ hp₂
  exact hvf _ i₁ _ i₂ _ _ f₁ f₂ c₁ hc₁ c₂ hc₂

theorem docsOK_nil (v : View) {ds : Ds} (h : ∀ p ∈ ds, p.2 ≠ .applied) (objs packs : List Str) :
    DocsOK v { deltas := ds, docs := [], objects := objs, appliedPacks := packs } := by
  refine ⟨List.Pairwise.nil, ?_, ?_, ?_, ?_⟩
  · intro u; simp [entriesOf, treeOf_nil, RevTree.empty, KeysNodup]
  · intro u e he; simp [entriesOf, treeOf_nil, RevTree.empty] at he
  · intro p hp; cases hp
  · intro u x
    constructor
    · intro hx; simp [pairsOf, entriesOf, treeOf_nil, RevTree.empty] at hx
    · rintro ⟨p, hp, ha, _⟩; exact absurd ha (h p hp)

/-- **`reload_docsOK`**: after `reload` the trees hold exactly the change records of the applied blocks -/
theorem reload_docsOK {v : View} {st st' : PState} (hv : ViewOK v) (hvf : ViewFunctional v)
    (h : reload st v = .ok st') : DocsOK v st' ∧ AllValidated st'.docs := by
  obtain ⟨objs, applied, hl, rfl⟩ := reload_eq h
  refine ⟨?_, validateAll_allValidated _⟩
  obtain ⟨hds, _, hfresh⟩ := loadFold_spec hv [] (by intro p hp; cases hp) (by simp)
  have hg : Good v objs (loadFold v []) := by
    refine ⟨hds, ?_⟩
    intro p hp
    rcases hfresh p hp with h | h
    · cases h
    · rw [h]; exact ⟨(by intro h; rcases h with h | h <;> cases h), (by intro h; cases h)⟩
  obtain ⟨g, _, _, _⟩ := markValid_spec hv objs (maxIndex (loadFold v []) + 1) _ hg
    (fun p hp => Nat.lt_succ_of_le (le_maxIndex _ p hp))
  apply validateAll_docsOK
  apply applyReady_docsOK
  · apply docsOK_nil
    intro p hp ha
    rcases hfresh p (asub_markValid _ _ _ _ p hp ha) with h | h
    · cases h
    · rw [h] at ha; cases ha
  · exact functional_of_fetched hvf g.ok.fetched

theorem unblock_applied_iff (ds : Ds) (p : Block × Status) (ha : p.2 = .applied) : p ∈ unblock ds ↔ p ∈ ds := by
  unfold unblock
  constructor
  · intro hp
    obtain ⟨q, hq, rfl⟩ := List.mem_map.mp hp
    by_cases hb : q.2 = .blocked
    · simp only [hb, if_true] at ha; cases ha
    · simp only [hb, if_false]; exact hq
  · intro hp
    refine List.mem_map.mpr ⟨p, hp, ?_⟩
    have : p.2 ≠ .blocked := by rw [ha]; simp
    simp only [this, if_false]

/-- **`refresh_docsOK`**: `refresh` on a grown storage keeps the invariant -/
theorem refresh_docsOK {v v' : View} {st st' : PState} (hv : ViewOK v') (hvf : ViewFunctional v')
    (hs : Synced v st) (d : DocsOK v st) (hle : View.le v v') (h : refresh st v' = .ok st') :
    DocsOK v' st' ∧ AllValidated st'.docs := by
  obtain ⟨objs, applied, hl, rfl⟩ := refresh_eq h
  refine ⟨?_, validateAll_allValidated _⟩
  obtain ⟨ho, _, _⟩ := loadPacks_some _ hl
  have hgrow : ∀ d ∈ st.objects, d ∈ objs := fun d hd => (ho d).mpr (Or.inl hd)
  have hf : Fetched v' st.deltas := by
    intro p hp
    obtain ⟨h1, h2⟩ := hs.ds.fetched p hp
    exact ⟨hle.fetch _ _ h1, hle.ids _ h2⟩
  obtain ⟨hds, hkeep, hfresh⟩ := loadFold_spec hv st.deltas hf hs.ds.nodup
  have hg : Good v' objs (unblock (loadFold v' st.deltas)) := by
    refine ⟨hds.of_same (sameBlocks_map _ _ (fun p => by split <;> rfl)), ?_⟩
    intro p hp
    obtain ⟨q, hq, rfl⟩ := List.mem_map.mp hp
    have hcases : q.2 = .applied ∧ Complete v' objs q.1.id ∨ q.2 = .blocked ∨ q.2 = .pending := by
      rcases hfresh q hq with h | h
      · rcases hs.settled q h with ha | hb
        · exact Or.inl ⟨ha, ((hs.applied_iff q h).mp ha).mono hle hgrow⟩
        · exact Or.inr (Or.inl hb)
      · exact Or.inr (Or.inr h)
    obtain ⟨b, s⟩ := q
    rcases hcases with ⟨ha, hc⟩ | hb | hb
    · simp only at ha; subst ha
      simp only [reduceCtorEq, if_false]
      exact ⟨fun _ => hc, (by intro h; cases h)⟩
    · simp only at hb; subst hb
      simp only [if_true]
      exact ⟨(by intro h; rcases h with h | h <;> cases h), (by intro h; cases h)⟩
    · simp only at hb; subst hb
      simp only [reduceCtorEq, if_false]
      exact ⟨(by intro h; rcases h with h | h <;> cases h), (by intro h; cases h)⟩
  have hi : ∀ p ∈ unblock (loadFold v' st.deltas), p.1.id.index < maxIndex (unblock (loadFold v' st.deltas)) + 1 :=
    fun p hp => Nat.lt_succ_of_le (le_maxIndex _ p hp)
  obtain ⟨g, _, _, _⟩ := markValid_spec hv objs _ _ hg hi
  apply validateAll_docsOK
  apply applyReady_docsOK
  · refine ⟨d.sorted, d.nodup, d.noStaged, d.noEmpty, ?_⟩
    refine exact_congr ?_ d.exact
    intro p ha
    show p ∈ st.deltas ↔ p ∈ markValid v' objs _ (unblock (loadFold v' st.deltas))
    constructor
    · intro hp
      exact markValid_keeps_applied hv objs _ _ hg hi p ((unblock_applied_iff _ p ha).mpr (hkeep p hp)) ha
    · intro hp
      have := (unblock_applied_iff _ p ha).mp (asub_markValid _ _ _ _ p hp ha)
      rcases hfresh p this with h | h
      · exact h
      · rw [h] at ha; cases ha
  · exact functional_of_fetched hvf g.ok.fetched


/-! ### 8. C01 / C18 corollaries: any route to the same storage, any listing order -/

/-- `ViewFunctional` is inherited by smaller views -/
theorem ViewFunctional.of_le {v v' : View} (hle : View.le v v') (h : ViewFunctional v') : ViewFunctional v :=
  fun id₁ h₁ id₂ h₂ b₁ b₂ f₁ f₂ =>
    h id₁ (hle.ids _ h₁) id₂ (hle.ids _ h₂) b₁ b₂ (hle.fetch _ _ f₁) (hle.fetch _ _ f₂)

theorem refreshChain_docsOK {v₀ vₙ : View} {s₀ sₙ : PState} (hc : RefreshChain v₀ s₀ vₙ sₙ)
    (hvf : ViewFunctional vₙ) (h0 : Synced v₀ s₀) (d0 : DocsOK v₀ s₀ ∧ AllValidated s₀.docs) :
    DocsOK vₙ sₙ ∧ AllValidated sₙ.docs := by
  induction hc with
  | nil => exact d0
  | step hc' hv hle _ hr ih =>
    exact refresh_docsOK hv hvf (hc'.synced h0) (ih (hvf.of_le hle) h0 d0).1 hle hr

/-- **C01, route independence**: a replica that reloaded `v₀` and then refreshed along any growing chain
    of views up to `vₙ`, and a fresh replica that reloads `vₙ`, agree on everything listed in `Agree`,
    including the cached leaves and winner of every object. -/
theorem refresh_seq_converge {P : Rev → Prop} (ho : CmpOrder P) {v₀ vₙ : View} {i i' s₀ sₙ r : PState}
    (hv0 : ViewOK v₀) (hvn : ViewOK vₙ) (hvf : ViewFunctional vₙ)
    (h0 : reload i v₀ = .ok s₀) (hc : RefreshChain v₀ s₀ vₙ sₙ) (hr : reload i' vₙ = .ok r)
    (hP : ∀ u, ∀ e ∈ entriesOf sₙ.docs u, P e.rev) :
    Agree sₙ r ∧ ∀ u, (treeOf sₙ.docs u).leafs = (treeOf r.docs u).leafs ∧
      (treeOf sₙ.docs u).winner = (treeOf r.docs u).winner := by
  have y0 := reload_synced hv0 h0
  have d0 := reload_docsOK hv0 (hvf.of_le hc.le) h0
  have yn := hc.synced y0
  have dn := refreshChain_docsOK hc hvf y0 d0
  have yr := reload_synced hvn hr
  have dr := reload_docsOK hvn hvf hr
  have ha := converge ho yn yr dn.1 dr.1 hP
  exact ⟨ha, ha.cached dn.2 dr.2⟩

/-- two views of the same storage content: the same identifiers and pack names are listed (in any order,
    any multiplicity) and the same items are handed out -/
structure SameContent (v₁ v₂ : View) : Prop where
  ids : ∀ id, id ∈ v₁.blockIds ↔ id ∈ v₂.blockIds
  names : ∀ k, k ∈ v₁.packNames ↔ k ∈ v₂.packNames
  fetch : ∀ id, v₁.fetch id = v₂.fetch id
  loadPack : ∀ k, v₁.loadPack k = v₂.loadPack k

theorem SameContent.symm {v₁ v₂ : View} (h : SameContent v₁ v₂) : SameContent v₂ v₁ :=
  ⟨fun id => (h.ids id).symm, fun k => (h.names k).symm, fun id => (h.fetch id).symm, fun k => (h.loadPack k).symm⟩

theorem SameContent.le {v₁ v₂ : View} (h : SameContent v₁ v₂) : View.le v₁ v₂ :=
  ⟨fun id hid => (h.ids id).mp hid, fun id b hb => by rw [← h.fetch]; exact hb,
   fun k l hl => by rw [← h.loadPack]; exact hl⟩

/-- a listing in another order shows the same content -/
theorem sameContent_of_perm (v : View) {ids : List BlockId} {names : List Str} (h₁ : v.blockIds.Perm ids)
    (h₂ : v.packNames.Perm names) : SameContent v { v with blockIds := ids, packNames := names } :=
  ⟨fun _ => h₁.mem_iff, fun _ => h₂.mem_iff, fun _ => rfl, fun _ => rfl⟩

theorem SameContent.viewOK {v₁ v₂ : View} (h : SameContent v₁ v₂) (hv : ViewOK v₁) : ViewOK v₂ :=
  ⟨fun id b hb => hv.fetch_id id b (by rw [h.fetch]; exact hb),
   fun id b hb => hv.parent_lt id b (by rw [h.fetch]; exact hb)⟩

theorem SameContent.viewFunctional {v₁ v₂ : View} (h : SameContent v₁ v₂) (hv : ViewFunctional v₁) :
    ViewFunctional v₂ := hv.of_le h.symm.le

/-- **`synced_view_congr`** (wanted 5): `Synced` is insensitive to the listing order -/
theorem synced_view_congr {v₁ v₂ : View} {st : PState} (h : SameContent v₁ v₂) (hs : Synced v₁ st) : Synced v₂ st := by
  have hc : ∀ id, Complete v₁ st.objects id ↔ Complete v₂ st.objects id := fun id =>
    ⟨fun c => c.mono h.le (fun _ hd => hd), fun c => c.mono h.symm.le (fun _ hd => hd)⟩
  refine ⟨⟨?_, hs.ds.nodup, ?_⟩, hs.settled, ?_, ?_, ?_, ?_⟩
  · intro p hp
    obtain ⟨f, i⟩ := hs.ds.fetched p hp
    exact ⟨by rw [← h.fetch]; exact f, (h.ids _).mp i⟩
  · intro id b hid hb
    exact hs.ds.closed id b ((h.ids _).mpr hid) (by rw [h.fetch]; exact hb)
  · intro p hp; rw [hs.applied_iff p hp]; exact hc _
  · intro d
    rw [hs.objs d]
    constructor
    · rintro ⟨k, hk, l, hl, hd⟩; exact ⟨k, (h.names k).mp hk, l, by rw [← h.loadPack]; exact hl, hd⟩
    · rintro ⟨k, hk, l, hl, hd⟩; exact ⟨k, (h.names k).mpr hk, l, by rw [h.loadPack]; exact hl, hd⟩
  · intro k; rw [hs.packs k]; exact h.names k
  · intro k hk; rw [← h.loadPack]; exact hs.loadable k ((h.names k).mpr hk)

/-- `DocsOK` does not look at the view at all -/
theorem docsOK_view_congr {v₁ v₂ : View} {st : PState} (d : DocsOK v₁ st) : DocsOK v₂ st :=
  ⟨d.sorted, d.nodup, d.noStaged, d.noEmpty, d.exact⟩

/-- **`reload_listing_perm`** (wanted 5; C18): the result of `reload` does not depend on the order (or
    multiplicity) in which the backend lists block identifiers and pack names. -/
theorem reload_listing_perm {P : Rev → Prop} (ho : CmpOrder P) {v₁ v₂ : View} {i₁ i₂ s₁ s₂ : PState}
    (h : SameContent v₁ v₂) (hv : ViewOK v₁) (hvf : ViewFunctional v₁)
    (h₁ : reload i₁ v₁ = .ok s₁) (h₂ : reload i₂ v₂ = .ok s₂)
    (hP : ∀ u, ∀ e ∈ entriesOf s₁.docs u, P e.rev) :
    Agree s₁ s₂ ∧ ∀ u, (treeOf s₁.docs u).leafs = (treeOf s₂.docs u).leafs ∧
      (treeOf s₁.docs u).winner = (treeOf s₂.docs u).winner := by
  have y1 := synced_view_congr h (reload_synced hv h₁)
  have d1 := reload_docsOK hv hvf h₁
  have y2 := reload_synced (h.viewOK hv) h₂
  have d2 := reload_docsOK (h.viewOK hv) (h.viewFunctional hvf) h₂
  have ha := converge ho y1 y2 (docsOK_view_congr d1.1) d2.1 hP
  exact ⟨ha, ha.cached d1.2 d2.2⟩

/-- the same for `refresh` of a synchronised state: the listing order of the grown storage is irrelevant -/
theorem refresh_listing_perm {P : Rev → Prop} (ho : CmpOrder P) {v v₁ v₂ : View} {st s₁ s₂ : PState}
    (h : SameContent v₁ v₂) (hv : ViewOK v₁) (hvf : ViewFunctional v₁)
    (hs : Synced v st) (d : DocsOK v st) (hle : View.le v v₁) (hpk : ∀ k ∈ v.packNames, k ∈ v₁.packNames)
    (h₁ : refresh st v₁ = .ok s₁) (h₂ : refresh st v₂ = .ok s₂)
    (hP : ∀ u, ∀ e ∈ entriesOf s₁.docs u, P e.rev) :
    Agree s₁ s₂ ∧ ∀ u, (treeOf s₁.docs u).leafs = (treeOf s₂.docs u).leafs ∧
      (treeOf s₁.docs u).winner = (treeOf s₂.docs u).winner := by
  have hle₂ : View.le v v₂ := View.le_trans hle h.le
  have y1 := synced_view_congr h (refresh_synced hv hs hle hpk h₁)
  have d1 := refresh_docsOK hv hvf hs d hle h₁
  have y2 := refresh_synced (h.viewOK hv) hs hle₂ (fun k hk => (h.names k).mp (hpk k hk)) h₂
  have d2 := refresh_docsOK (h.viewOK hv) (h.viewFunctional hvf) hs d hle₂ h₂
  have ha := converge ho y1 y2 (docsOK_view_congr d1.1) d2.1 hP
  exact ⟨ha, ha.cached d1.2 d2.2⟩


/-! ### 9. per-tree forms of the hypotheses -/

theorem treesNodup_of_forall {docs : List (Str × RevTree)} (h : ∀ p ∈ docs, KeysNodup p.2.entries) : TreesNodup docs := by
  intro u
  unfold entriesOf
  rcases C15.treeOf_mem_or docs u with h0 | ⟨p, hp, _, h2⟩
  · rw [h0]; simp [RevTree.empty, KeysNodup]
  · rw [← h2]; exact h p hp

theorem noStaged_of_forall {docs : List (Str × RevTree)} (h : ∀ p ∈ docs, ∀ e ∈ p.2.entries, e.staging = false) :
    NoStaged docs := by
  intro u e he
  unfold entriesOf at he
  rcases C15.treeOf_mem_or docs u with h0 | ⟨p, hp, _, h2⟩
  · rw [h0] at he; simp [RevTree.empty] at he
  · rw [← h2] at he; exact h p hp e he

theorem forall_of_treesNodup {docs : List (Str × RevTree)} (hs : DocsSorted docs) (h : TreesNodup docs) :
    ∀ p ∈ docs, KeysNodup p.2.entries := by
  intro p hp
  have := h p.1
  unfold entriesOf at this
  suffices treeOf docs p.1 = p.2 by rw [← this]; assumption
  induction docs with
  | nil => cases hp
  | cons x rest ih =>
    obtain ⟨k, t⟩ := x
    rw [treeOf_cons]
    rcases List.mem_cons.mp hp with rfl | hp'
    · simp
    · have hne := C15.sorted_head_ne hs p hp'
      rw [if_neg (fun e => hne e.symm)]
      apply ih (List.pairwise_cons.mp hs).2 _ hp'
      · have := h p.1
        unfold entriesOf at this
        rw [treeOf_cons, if_neg (fun e => hne e.symm)] at this
        exact this
      · intro u
        have := h u
        unfold entriesOf at this ⊢
        rw [treeOf_cons] at this
        split at this
        · next e =>
          rw [C15.treeOf_of_not_mem]
          · simp [RevTree.empty, KeysNodup]
          · intro q hq; rw [← e]; exact C15.sorted_head_ne hs q hq
        · exact this

/-! ### 10. non-vacuity, and the necessity of `Functional` -/

section Example
open Melda.Props.C05 (r1 r2a r2b r3 ExP exOrder)
open Melda.Props.C02 (mkView mkView_ok pk oX)

instance (cs : List Change) : Decidable (Functional cs) := by unfold Functional; infer_instance
instance (docs : List (Str × RevTree)) : Decidable (NoEmpty docs) := by unfold NoEmpty; infer_instance

def doc : Str := "doc".toList
def doc2 : Str := "eoc".toList

/-- one object with its root revision recorded -/
def exDocs : List (Str × RevTree) := [(doc, (RevTree.empty.unvalidatedAdd r1 none false).1)]
/-- two concurrent updates of `doc`, a new object, and a repeated record -/
def exCs : List Change := [⟨doc, r2a, some r1⟩, ⟨doc2, r1, none⟩, ⟨doc, r2b, some r1⟩, ⟨doc, r2a, some r1⟩]
def exCs' : List Change := [⟨doc, r2b, some r1⟩, ⟨doc, r2a, some r1⟩, ⟨doc, r2a, some r1⟩, ⟨doc2, r1, none⟩]

/-- the hypotheses of `applyChanges_entries`, `applyChanges_perm`, `applyChanges_tree_perm` hold of the example -/
example : DocsSorted exDocs ∧ TreesNodup exDocs ∧ NoStaged exDocs ∧ NoEmpty exDocs ∧ exCs.Perm exCs' ∧
    Functional (changesOf exDocs ++ exCs) ∧ (∀ u, ∀ e ∈ entriesOf (applyChanges exDocs exCs) u, ExP e.rev) :=
  ⟨by decide, treesNodup_of_forall (by decide), noStaged_of_forall (by decide), by decide, by decide, by decide, by
    intro u e he
    rcases applyChanges_entry_old_or_committed (by decide) exCs u e he with h | ⟨_, c, hc, _, hr, _⟩
    · unfold entriesOf at h
      rcases C15.treeOf_mem_or exDocs u with h0 | ⟨p, hp, _, h2⟩
      · rw [h0] at h; simp [RevTree.empty] at h
      · rw [← h2] at h
        have : ∀ p ∈ exDocs, ∀ e ∈ p.2.entries, ExP e.rev := by decide
        exact this p hp e h
    · have : ∀ c ∈ exCs, ExP c.rev := by decide
      rw [← hr]; exact this c hc⟩

/-- the two orders really give different entry lists, with the same validated leaves and winner -/
example : entriesOf (applyChanges exDocs exCs) doc ≠ entriesOf (applyChanges exDocs exCs') doc ∧
    (validate (treeOf (applyChanges exDocs exCs) doc)).leafs = (validate (treeOf (applyChanges exDocs exCs') doc)).leafs ∧
    (validate (treeOf (applyChanges exDocs exCs) doc)).winner = some r2b := by decide

/-- **`Functional` is necessary**: `unvalidated_add` is first-write-wins on the revision, so two records
    that give the same revision of the same object two different parents (possible only on a collision of
    the 28-bit digest tail) make the recorded parent, the leaves and the winner depend on the order in
    which the records are applied. -/
theorem not_functional_order_dependent :
    ∃ cs₁ cs₂ : List Change, cs₁.Perm cs₂ ∧ ¬ Functional cs₁ ∧
      pairsOf (applyChanges [] cs₁) doc ≠ pairsOf (applyChanges [] cs₂) doc ∧
      (validate (treeOf (applyChanges [] cs₁) doc)).winner ≠ (validate (treeOf (applyChanges [] cs₂) doc)).winner :=
  ⟨[⟨doc, r1, none⟩, ⟨doc, r2a, some r1⟩, ⟨doc, r2a, some r2b⟩],
   [⟨doc, r1, none⟩, ⟨doc, r2a, some r2b⟩, ⟨doc, r2a, some r1⟩], by decide, by decide, by decide, by decide⟩

/-- hypotheses of `perm_of_pairs_eq` -/
example : KeysNodup C05.exEntries ∧ KeysNodup C05.exEntries' ∧ (∀ e ∈ C05.exEntries, e.staging = false) ∧
    (∀ e ∈ C05.exEntries', e.staging = false) ∧ C05.exEntries.Perm C05.exEntries' :=
  ⟨by decide, by decide, by decide, by decide,
   perm_of_pairs_eq (by decide) (by decide) (by decide) (by decide) (by
     intro x
     have h : (C05.exEntries.map (fun e => (e.rev, e.parent))).Perm (C05.exEntries'.map (fun e => (e.rev, e.parent))) := by
       decide
     exact h.mem_iff)⟩

/-! a storage with a root block and two concurrent children; the first child names a pack -/
def iA : BlockId := ⟨1, "a".toList⟩
def iB : BlockId := ⟨2, "b".toList⟩
def iC : BlockId := ⟨2, "c".toList⟩
def bA : Block := { id := iA, parents := [], packs := [], changes := [⟨doc, r1, none⟩] }
def bB : Block := { id := iB, parents := [iA], packs := [pk], changes := [⟨doc, r2a, some r1⟩] }
def bC : Block := { id := iC, parents := [iA], packs := [], changes := [⟨doc, r2b, some r1⟩, ⟨doc2, r1, none⟩] }

/-- all three blocks listed, pack `p` has not arrived: `bB` is held back -/
def wA : View := mkView [bA, bB, bC] []
/-- pack `p` arrived -/
def wB : View := mkView [bA, bB, bC] [(pk, [oX])]
/-- the same storage listed in another order, with a repeated name -/
def wB' : View := { wB with blockIds := [iC, iA, iB, iC], packNames := [pk, pk] }

theorem mkView_functional (blocks : List Block) (packs : List (Str × List Str))
    (h : Functional (blocks.flatMap (·.changes))) : ViewFunctional (mkView blocks packs) := by
  intro id₁ _ id₂ _ b₁ b₂ f₁ f₂ c₁ hc₁ c₂ hc₂
  have m₁ : b₁ ∈ blocks := List.mem_of_find?_eq_some f₁
  have m₂ : b₂ ∈ blocks := List.mem_of_find?_eq_some f₂
  exact h c₁ (List.mem_flatMap.mpr ⟨b₁, m₁, hc₁⟩) c₂ (List.mem_flatMap.mpr ⟨b₂, m₂, hc₂⟩)

theorem wA_ok : ViewOK wA := mkView_ok _ _ (by decide)
theorem wB_ok : ViewOK wB := mkView_ok _ _ (by decide)
theorem wB_fun : ViewFunctional wB := mkView_functional _ _ (by decide)
theorem wA_le_wB : View.le wA wB := by
  refine ⟨fun _ h => h, fun _ _ h => h, ?_⟩
  intro k l h
  simp [wA, mkView] at h
theorem wB_same : SameContent wB wB' :=
  ⟨fun id => by simp only [wB, wB', mkView, List.map_cons, List.map_nil, List.mem_cons, bA, bB, bC]
                constructor <;> (intro h; rcases h with h | h | h | h <;> simp_all),
   fun k => by simp [wB, wB', mkView], fun _ => rfl, fun _ => rfl⟩

def okState (r : Except PErr PState) : Option PState := match r with | .ok s => some s | .error _ => none
def docRevs (r : Except PErr PState) (u : Str) : List Rev :=
  match r with | .ok s => (entriesOf s.docs u).map (·.rev) | .error _ => []
def allRevs (r : Except PErr PState) : List Rev :=
  match r with | .ok s => s.docs.flatMap (fun p => p.2.entries.map (·.rev)) | .error _ => []

theorem exists_ok {r : Except PErr PState} (h : (okState r).isSome = true) : ∃ s, r = .ok s := by
  cases r with
  | ok s => exact ⟨s, rfl⟩
  | error e => simp [okState] at h

/-- **the hypotheses of `converge`, `refresh_seq_converge`, `reload_listing_perm` are satisfiable, and the
    conclusion is not trivial**: a full reload of the complete storage records the revisions of `doc` in the
    order `r1, r2a, r2b`; the replica that first saw the storage without the pack and then refreshed
    records `r1, r2b, r2a`; a reload over the reordered listing is a third state. All agree. -/
example : ∃ s₀ s₁ s₂ s₃, reload {} wA = .ok s₀ ∧ refresh s₀ wB = .ok s₁ ∧ reload {} wB = .ok s₂ ∧
    reload {} wB' = .ok s₃ ∧ RefreshChain wA s₀ wB s₁ ∧
    Synced wB s₁ ∧ Synced wB s₂ ∧ DocsOK wB s₁ ∧ DocsOK wB s₂ ∧ (∀ u, ∀ e ∈ entriesOf s₁.docs u, ExP e.rev) ∧
    (entriesOf s₁.docs doc).map (·.rev) = [r1, r2b, r2a] ∧ (entriesOf s₂.docs doc).map (·.rev) = [r1, r2a, r2b] ∧
    Agree s₁ s₂ ∧ Agree s₂ s₃ ∧ (treeOf s₁.docs doc).winner = (treeOf s₃.docs doc).winner := by
  obtain ⟨s₀, h0⟩ := exists_ok (r := reload {} wA) (by decide)
  obtain ⟨s₂, h2⟩ := exists_ok (r := reload {} wB) (by decide)
  obtain ⟨s₃, h3⟩ := exists_ok (r := reload {} wB') (by decide)
  have hb : ((reload {} wA).bind (fun s => refresh s wB)) = refresh s₀ wB := by rw [h0]; rfl
  obtain ⟨s₁, h1⟩ := exists_ok (r := (reload {} wA).bind (fun s => refresh s wB)) (by decide)
  have e1 : docRevs ((reload {} wA).bind (fun s => refresh s wB)) doc = [r1, r2b, r2a] := by decide
  have e2 : docRevs (reload {} wB) doc = [r1, r2a, r2b] := by decide
  have a1 : ∀ r ∈ allRevs ((reload {} wA).bind (fun s => refresh s wB)), ExP r := by decide
  have a2 : ∀ r ∈ allRevs (reload {} wB), ExP r := by decide
  rw [h1] at e1 a1
  rw [h2] at e2 a2
  rw [hb] at h1
  have hP : ∀ (s : PState), (∀ r ∈ allRevs (.ok s), ExP r) → ∀ u, ∀ e ∈ entriesOf s.docs u, ExP e.rev := by
    intro s ha u e he
    unfold entriesOf at he
    rcases C15.treeOf_mem_or s.docs u with h0 | ⟨p, hp, _, hq⟩
    · rw [h0] at he; simp [RevTree.empty] at he
    · rw [← hq] at he
      exact ha e.rev (List.mem_flatMap.mpr ⟨p, hp, List.mem_map.mpr ⟨e, he, rfl⟩⟩)
  have hc : RefreshChain wA s₀ wB s₁ := .step (.nil _ _) wB_ok wA_le_wB (by intro k hk; cases hk) h1
  have y0 := reload_synced wA_ok h0
  have d0 := reload_docsOK wA_ok (wB_fun.of_le wA_le_wB) h0
  have y1 := hc.synced y0
  have d1 := refreshChain_docsOK hc wB_fun y0 d0
  have y2 := reload_synced wB_ok h2
  have d2 := reload_docsOK wB_ok wB_fun h2
  have c12 := refresh_seq_converge exOrder wA_ok wB_ok wB_fun h0 hc h2 (hP s₁ a1)
  have c23 := reload_listing_perm exOrder wB_same wB_ok wB_fun h2 h3 (hP s₂ a2)
  exact ⟨s₀, s₁, s₂, s₃, h0, h1, h2, h3, hc, y1, y2, d1.1, d2.1, hP s₁ a1, e1, e2, c12.1, c23.1,
    (c12.2 doc).2.trans (c23.2 doc).2⟩

/-- hypotheses of `applyReady_docsOK` / `exact_congr` / `refresh_listing_perm` on a concrete state: the state
    after `reload` of the storage without the pack -/
example : ∃ s₀, reload {} wA = .ok s₀ ∧ Synced wA s₀ ∧ DocsOK wA s₀ ∧ Functional (liveChanges s₀.deltas) ∧
    View.le wA wB ∧ (∀ k ∈ wA.packNames, k ∈ wB.packNames) ∧ s₀.docs ≠ [] := by
  obtain ⟨s₀, h0⟩ := exists_ok (r := reload {} wA) (by decide)
  have y0 := reload_synced wA_ok h0
  have d0 := reload_docsOK wA_ok (wB_fun.of_le wA_le_wB) h0
  have hne : allRevs (reload {} wA) ≠ [] := by decide
  rw [h0] at hne
  refine ⟨s₀, h0, y0, d0.1, functional_of_fetched (wB_fun.of_le wA_le_wB) y0.ds.fetched, wA_le_wB,
    (by intro k hk; cases hk), ?_⟩
  intro e; rw [allRevs, e] at hne; exact hne rfl

end Example

end Melda.Props.C01
