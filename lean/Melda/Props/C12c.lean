/-
  C08 / C12 - the automatic resolution of array conflicts that `commit` performs is TOTAL: from a state
  satisfying the array invariant `ReadInv` with the preconditions `AutoPre` (exactly the hypotheses of
  `C12b.autoResolve_read_unchanged`), `autoResolve` returns `.ok` - `commit` does not abort with
  `cannot_automatically_resolve_array_descriptor_conflict` (the defect D2 was a commit that never returned
  at this very place) - and, by `C12b.autoResolve_inv` / `autoResolve_read_unchanged`, the state it returns
  satisfies the invariant again and shows the same document.  Together with the nesting guard
  (`commitRefusesInfo`, an error) and `commitWrites` (a pure function: which bytes under which names), every
  outcome of the model's `commit` is `none` (nothing staged), an error of the guard or of storage, or a
  block: `commit_never_aborts`.
  The proof of `auto_fold_total` is the induction of `C12b.auto_fold` run forwards: each step's result
  exists by `resolve_step` (total correctness of one array resolution).
-/
import Melda.Props.C12b
import Melda.Props.C16c
namespace Melda.Props.C12c
open Melda Melda.DState Melda.RevTree Melda.Props.C12b
open Melda.Props.C05 (KeysNodup WellIndexed Reaches LiveLeaf)
open Melda.Props.C19 (Canonical AlnumStr HexOut)
open Melda.Props.C12 (GoodTree Closed markStep)
open Melda.Props.C16b (TrueOrder)
open Melda.Props.C04b (StoreOK CollisionFree)

theorem auto_fold_total {H : Bytes → Str} (hH : HexOut H) {N : Str → Rev → Prop} {S : JObj → Prop} {src : Src}
    (hcf : CollisionFree H S) {st0 : DState} {ord0 : Str → Rev → List JVal}
    (hpre0 : AutoPre H N S st0 ord0) :
    ∀ (ps : List (Str × RevTree)) (st : DState) (ord : Str → Rev → List JVal),
      ps.Pairwise (fun a b => a.1 ≠ b.1) → ReadInv N src st ord → StoreOK H src S st →
      (∀ r x, readObject src st0 r = .ok x → readObject src st r = .ok x) →
      C12.All₂ (DocLink ord0 ord) st0.p.docs st.p.docs →
      (∀ q ∈ st.p.docs, ∃ q0 ∈ st0.p.docs, q0.1 = q.1 ∧ ∀ r, InTree q.2 r → InTree q0.2 r ∨ N q.1 r) →
      (∀ p ∈ ps, p ∈ st0.p.docs ∧ st.treeOf p.1 = some p.2 ∧ ord p.1 = ord0 p.1) →
      ∃ st', ps.foldl (arStep H src) (.ok st) = .ok st' := by
  intro ps
  induction ps with
  | nil =>
    intro st ord _ _ _ _ _ _ _
    exact ⟨st, rfl⟩
  | cons p ps ih =>
    intro st ord hpw inv hS hr hl hgrow hpend
    obtain ⟨u, t⟩ := p
    obtain ⟨hne, hpw'⟩ := List.pairwise_cons.mp hpw
    obtain ⟨hm0, htree, hord⟩ := hpend (u, t) (by simp)
    have htree' : st.treeOf u = some t := htree
    have hord' : ord u = ord0 u := hord
    rw [List.foldl_cons]
    by_cases hcond : isArrayDescriptor u = true ∧ t.leafs.length > 1
    · obtain ⟨hu, hconf⟩ := hcond
      have hmem : (u, t) ∈ st.p.docs := C04b.mem_of_treeOf htree'
      have g := inv.good _ hmem hu
      have g : GoodTree t := g
      obtain ⟨w, hw⟩ := g.winner_isSome (by intro e; rw [e] at hconf; simp at hconf)
      have hpre0' : (∀ l ∈ t.leafs, ∀ d, N u (Rev.upd H d l)) ∧ NoClash H t ∧
          (w.isDeleted = false → S [(ORDER_FIELD, .arr (visible (ord0 u) t w))] ∧
            (∀ patch, makeDiffPatch (ord0 u w) (visible (ord0 u) t w) = some patch →
              S [(DELTA_ORDER_FIELD, .arr patch)]) ∧
            makeDiffPatch (ord0 u w) (visible (ord0 u) t w) ≠ none) ∧
          (∀ d, ∀ q ∈ st0.p.docs, isArrayDescriptor q.1 = true → q.1 ≠ u →
            ¬ N q.1 (Rev.upd H d w) ∧ ¬ InTree q.2 (Rev.upd H d w)) := hpre0 (u, t) hm0 hu hconf w hw
      obtain ⟨hN, nc, hpre, hcross0⟩ := hpre0'
      have hcross : ∀ d, ∀ q ∈ st.p.docs, isArrayDescriptor q.1 = true → q.1 ≠ u →
          ¬ N q.1 (Rev.upd H d w) ∧ ¬ InTree q.2 (Rev.upd H d w) := by
        intro d q hq ha hqu
        obtain ⟨q0, hq0, hk, hin⟩ := hgrow q hq
        obtain ⟨c1, c2⟩ := hcross0 d q0 hq0 (by rw [hk]; exact ha) (by rw [hk]; exact hqu)
        rw [hk] at c1
        refine ⟨c1, fun hi => ?_⟩
        rcases hin _ hi with h1 | h1
        · exact c2 h1
        · exact c1 h1
      obtain ⟨st1, rv, t', o', w1, hres, ts, hS1, hdocs, hw', hdel, hvis⟩ :=
        resolve_step hH inv hS hcf hu htree' hconf hw hN nc (by rw [hord']; exact hpre) hcross
      have htodo : todoOf (u, t) = some (u, w.render) := by
        simp [todoOf, hu, hconf, hw]
      have hstep : arStep H src (.ok st) (u, t) = .ok st1 := by
        simp only [arStep, htodo, resStep, hres]
      rw [hstep]
      obtain ⟨l1, l2⟩ := docLink_step (ord0 := ord0) (ord := ord) (o' := o') hu hw hw' hdel hvis
      obtain ⟨l0, he, hNl⟩ := ts.entries
      refine ih st1 (upd1 ord u o') hpw' (readInv_step inv hu htree' ts) hS1
        (fun r x hx => ts.reads r x (hr r x hx)) ?_ ?_ ?_
      · rw [hdocs]
        exact all₂_setTree' hl inv.sorted htree' l1 l2
      · intro q hq
        rcases docs_cases (ts.sorted inv.sorted) ts.other ts.tree q hq with rfl | ⟨_, hq'⟩
        · refine ⟨(u, t), hm0, rfl, fun r hi => ?_⟩
          obtain ⟨e, he', h⟩ := hi
          rw [he] at he'
          rcases List.mem_append.mp he' with h1 | h1
          · exact Or.inl ⟨e, h1, h⟩
          · exact Or.inr (h ▸ hNl e h1)
        · exact hgrow q hq'
      · intro p' hp'
        obtain ⟨a, b, c⟩ := hpend p' (List.mem_cons_of_mem _ hp')
        have hk : p'.1 ≠ u := fun e => hne p' hp' e.symm
        exact ⟨a, by rw [ts.other _ hk]; exact b, by rw [upd1_other _ _ _ hk]; exact c⟩
    · have htodo : todoOf (u, t) = none := by
        unfold todoOf
        rw [if_neg]
        simpa using hcond
      have hstep : arStep H src (.ok st) (u, t) = .ok st := by
        simp only [arStep, htodo]
      rw [hstep]
      exact ih st ord hpw' inv hS hr hl hgrow (fun p' hp' => hpend p' (List.mem_cons_of_mem _ hp'))


/-- **the automatic resolution of `commit` is total** -/
theorem autoResolve_total {H : Bytes → Str} (hH : HexOut H) {N : Str → Rev → Prop} {S : JObj → Prop} {src : Src}
    {st : DState} {ord : Str → Rev → List JVal} (hcf : CollisionFree H S) (inv : ReadInv N src st ord)
    (hS : StoreOK H src S st) (hpre : AutoPre H N S st ord) :
    ∃ st', autoResolve H src st = .ok st' := by
  rw [autoResolve_eq]
  exact auto_fold_total hH hcf hpre st.p.docs st ord (keys_pairwise_ne inv.sorted) inv hS (fun _ _ h => h)
    (C12.forall₂_refl (DocLink.refl ord) _) (fun q hq => ⟨q, hq, rfl, fun _ h => Or.inl h⟩)
    (fun p hp => ⟨hp, C04b.treeOf_of_mem inv.sorted hp, rfl⟩)

/-- ... and its result satisfies the invariant again and shows the same document -/
theorem autoResolve_total_read {H : Bytes → Str} (hH : HexOut H) {N : Str → Rev → Prop} {S : JObj → Prop} {src : Src}
    {st : DState} {ord : Str → Rev → List JVal} (hcf : CollisionFree H S) (inv : ReadInv N src st ord)
    (hS : StoreOK H src S st) (hpre : AutoPre H N S st ord) {v : JVal} {c : Cache} (hr : read src st = .ok (v, c)) :
    ∃ st' ord' c', autoResolve H src st = .ok st' ∧ ReadInv N src st' ord' ∧ StoreOK H src S st' ∧
      read src st' = .ok (v, c') := by
  obtain ⟨st', h⟩ := autoResolve_total hH hcf inv hS hpre
  obtain ⟨ord', inv', hS', _, _⟩ := autoResolve_inv hH hcf inv hS hpre h
  obtain ⟨c', hc'⟩ := autoResolve_read_unchanged hH hcf inv hS hpre h hr
  exact ⟨st', ord', c', h, inv', hS', hc'⟩

theorem snapshot_fold_no_panic {H : Bytes → Str} (hH : HexOut H) {N : Str → Rev → Prop} {S : JObj → Prop} {src : Src}
    (hcf : CollisionFree H S) {st0 : DState} {ord0 : Str → Rev → List JVal}
    (hpre0 : ∀ p ∈ st0.p.docs, isArrayDescriptor p.1 = true → ∀ w, p.2.winner = some w →
      (∀ d, N p.1 (Rev.upd H d w)) ∧ (∀ d, ∀ e ∈ p.2.entries, e.rev ≠ Rev.upd H d w) ∧
      S [(ORDER_FIELD, .arr (visible (ord0 p.1) p.2 w))]) (m : String) :
    ∀ (ps : List (Str × RevTree)) (st : DState) (ord : Str → Rev → List JVal),
      ps.Pairwise (fun a b => a.1 ≠ b.1) → ReadInv N src st ord → StoreOK H src S st →
      (∀ r x, readObject src st0 r = .ok x → readObject src st r = .ok x) →
      C12.All₂ (DocLink ord0 ord) st0.p.docs st.p.docs →
      (∀ p ∈ ps, p ∈ st0.p.docs ∧ st.treeOf p.1 = some p.2 ∧ ord p.1 = ord0 p.1) →
      ps.foldl (snapStep H src) (.ok st) ≠ .panic m := by
  intro ps
  induction ps with
  | nil =>
    intro st ord _ _ _ _ _ _
    exact fun h => nomatch h
  | cons p ps ih =>
    intro st ord hpw inv hS hr hl hpend
    obtain ⟨u, t⟩ := p
    obtain ⟨hne, hpw'⟩ := List.pairwise_cons.mp hpw
    obtain ⟨hm0, htree, hord⟩ := hpend (u, t) (by simp)
    have htree' : st.treeOf u = some t := htree
    have hord' : ord u = ord0 u := hord
    rw [List.foldl_cons]
    by_cases hu : isArrayDescriptor u = true
    · have hpre : ∀ w, t.winner = some w → (∀ d, N u (Rev.upd H d w)) ∧
          (∀ d, ∀ e ∈ t.entries, e.rev ≠ Rev.upd H d w) ∧ S [(ORDER_FIELD, .arr (visible (ord u) t w))] := by
        rw [hord']; exact hpre0 (u, t) hm0 hu
      rcases snapStep_array hH inv hS hcf hu htree' hpre with h1 | ⟨e, h1⟩ |
        ⟨st1, t', o', w, rev, h1, ts, hS1, hdocs, hw, hdw, hw', hdr, hvis⟩
      · rw [h1]
        exact ih st ord hpw' inv hS hr hl (fun p' hp' => hpend p' (List.mem_cons_of_mem _ hp'))
      · rw [h1, fold_snapStep_err]; exact fun h => nomatch h
      · rw [h1]
        obtain ⟨l1, l2⟩ := docLink_step (ord0 := ord0) (ord := ord) (o' := o') hu hw hw' (hdr.trans hdw.symm) (fun _ => hvis)
        refine ih st1 (upd1 ord u o') hpw' (readInv_step inv hu htree' ts) hS1
          (fun r x hx => ts.reads r x (hr r x hx)) ?_ ?_
        · rw [hdocs]
          exact all₂_setTree' hl inv.sorted htree' l1 l2
        · intro p' hp'
          obtain ⟨a, b, c⟩ := hpend p' (List.mem_cons_of_mem _ hp')
          have hk : p'.1 ≠ u := fun e => hne p' hp' e.symm
          exact ⟨a, by rw [ts.other _ hk]; exact b, by rw [upd1_other _ _ _ hk]; exact c⟩
    · have hu' : isArrayDescriptor u = false := by simpa using hu
      rw [snapStep_plain H src st (p := (u, t)) hu']
      exact ih st ord hpw' inv hS hr hl (fun p' hp' => hpend p' (List.mem_cons_of_mem _ hp'))


/-- **`stage_full_snapshot` never aborts**: from a state satisfying `ReadInv` with the preconditions `SnapPre`
    (the hypotheses of `C12b.snapshot_read`) its outcome is `.ok` or an error, never `.panic` -/
theorem snapshot_no_panic {H : Bytes → Str} (hH : HexOut H) {N : Str → Rev → Prop} {S : JObj → Prop} {src : Src}
    {st : DState} {ord : Str → Rev → List JVal} (hcf : CollisionFree H S) (inv : ReadInv N src st ord)
    (hS : StoreOK H src S st) (hpre : SnapPre H N S st ord) (m : String) :
    snapshot H src st ≠ .panic m := by
  rw [snapshot_eq]
  exact snapshot_fold_no_panic hH hcf hpre m st.p.docs st ord (keys_pairwise_ne inv.sorted) inv hS (fun _ _ h => h)
    (C12.forall₂_refl (DocLink.refl ord) _)
    (fun p hp => ⟨hp, C04b.treeOf_of_mem inv.sorted hp, rfl⟩)

/-- non-vacuity: the concrete replica of `C12b.Ex` (a flattened array in conflict: two concurrent delta
    revisions on a full one) satisfies every hypothesis of `autoResolve_total` -/
example : ∃ st', autoResolve Ex.Hy C04b.src0 Ex.stX = .ok st' :=
  autoResolve_total Ex.hexOut_Hy Ex.cfX Ex.invX Ex.storeX Ex.autoPreX

example : ∀ m, snapshot Ex.Hy C04b.src0 Ex.stX ≠ .panic m :=
  snapshot_no_panic Ex.hexOut_Hy Ex.cfX Ex.invX Ex.storeX Ex.snapPreX

end Melda.Props.C12c
