/-
  C11 — storage is content-addressed, append-only and byte-identical everywhere
  (and the byte-level round trip of blocks that C09 and C13 need).

  1. `commit_writes_names`: every item a commit writes is named by the hash of its own bytes.
  2. `store_monotone`, `commit_store_le`, `meld_le`: every operation only grows the store.
  3. `meld_copies_bytes`, `meld_reads`, `meld_no_conflict`: meld copies the source's bytes verbatim and,
     absent hash collisions, never meets a conflicting write.
  4. `loadRawDelta_objOf`, `fetch_toJson`, `block_roundtrip`: `load_raw_delta (to_json b) = b` for every
     well-formed block (`BlockOK`), hence `fetchBlock` of what `commit` wrote gives back the block whole:
     identifier, parents, packs, changes and information.
     `block_roundtrip_needs_object_info`: the hypothesis that the information member is a JSON object is
     necessary in the model (`info : Option JVal`); the code takes a `Map`, so it always holds there.
-/
import Melda.Doc
import Melda.Props.C10
import Melda.Props.C04
import Melda.Props.JsonRT
import Melda.Props.Depth
namespace Melda.Props.C11
open Melda Melda.PState Melda.Props.Proto Melda.Props.JsonRT Melda.Props.Depth

/-- the JSON record of one change -/
def chgJson (c : Change) : JVal := match c.parent with
  | some p => .arr [.str c.uuid, .str p.render, .str c.rev.digest]
  | none => .arr [.str c.uuid, .str c.rev.digest]

/-- the four optional members of a block object -/
def cPart (b : Block) : JObj := if b.changes.isEmpty then [] else [(['c'], .arr (b.changes.map chgJson))]
def iPart (b : Block) : JObj := match b.info with | some i => [(['i'], i)] | none => []
def kPart (b : Block) : JObj := if b.packs.isEmpty then [] else [(['k'], .arr (b.packs.map .str))]
def pPart (b : Block) : JObj :=
  if b.parents.isEmpty then [] else [(['p'], .arr (b.parents.map (fun p => .str p.render)))]

theorem toJson_eq (b : Block) : b.toJson = .obj (cPart b ++ iPart b ++ kPart b ++ pPart b) := by
  unfold Block.toJson cPart iPart kPart pPart
  cases h1 : b.changes.isEmpty <;> cases h2 : b.info <;> cases h3 : b.parents.isEmpty <;>
    cases h4 : b.packs.isEmpty <;> simp [objOfList, objInsert, strLt] <;> (intro a _; rfl)

/-! ### The block object is canonical JSON -/

theorem canonL_strs (l : List Str) : CanonL (l.map JVal.str) := by
  induction l with
  | nil => simp [CanonL]
  | cons x xs ih => simp [CanonL, Canon, ih]

theorem canonL_map_str {α : Type} (f : α → Str) (l : List α) : CanonL (l.map (fun a => JVal.str (f a))) := by
  induction l with
  | nil => simp [CanonL]
  | cons x xs ih => simp [CanonL, Canon, ih]

theorem canon_chgJson (c : Change) : Canon (chgJson c) := by
  unfold chgJson; split <;> simp [Canon, CanonL]

theorem canonL_chgs (l : List Change) : CanonL (l.map chgJson) := by
  induction l with
  | nil => simp [CanonL]
  | cons x xs ih => simp [CanonL, canon_chgJson, ih]

theorem canon_toJson (b : Block) (hi : ∀ i, b.info = some i → Canon i) : Canon b.toJson := by
  rw [toJson_eq]
  unfold cPart iPart kPart pPart
  cases h1 : b.changes.isEmpty <;> cases h2 : b.info <;> cases h3 : b.parents.isEmpty <;>
    cases h4 : b.packs.isEmpty <;>
    first
    | simp [Canon, CanonO, SortedKeys, strLt, canonL_chgs, canonL_strs, canonL_map_str, hi _ h2]
    | simp [Canon, CanonO, SortedKeys, strLt, canonL_chgs, canonL_strs, canonL_map_str]

/-- the block object is one level deeper than its information member (and never flatter than 3): with
    information the commit guard accepts it stays far below the parser's recursion limit -/
theorem toJson_depth_le (b : Block) (n : Nat) (h2 : 2 ≤ n) (hi : ∀ i, b.info = some i → i.depth ≤ n) :
    b.toJson.depth ≤ n + 1 := by
  rw [toJson_eq]
  simp only [JVal.depth, depthO_append, Nat.add_le_add_iff_right, Nat.max_le]
  have hc : ∀ l : List Change, JVal.depthL (l.map chgJson) ≤ 1 := by
    intro l
    rw [depthL_le_iff]
    intro v hv
    obtain ⟨c, _, rfl⟩ := List.mem_map.mp hv
    unfold chgJson; split <;> simp [JVal.depth, JVal.depthL]
  refine ⟨⟨⟨?_, ?_⟩, ?_⟩, ?_⟩
  · unfold cPart; split
    · simp [JVal.depthO]
    · have := hc b.changes; simp only [JVal.depthO, JVal.depth]; omega
  · unfold iPart; split
    · next i h => have := hi i h; simp only [JVal.depthO]; omega
    · simp [JVal.depthO]
  · unfold kPart; split
    · simp [JVal.depthO]
    · simp only [JVal.depthO, JVal.depth, depthL_strs]; omega
  · unfold pPart; split
    · simp [JVal.depthO]
    · simp only [JVal.depthO, JVal.depth, depthL_map_str]; omega

theorem toJson_below_limit (b : Block) (hi : ∀ i, b.info = some i → i.depth ≤ MAX_NESTING_DEPTH) :
    b.toJson.depth < RECURSION_LIMIT := by
  have := toJson_depth_le b MAX_NESTING_DEPTH (by decide) hi
  simp only [MAX_NESTING_DEPTH, RECURSION_LIMIT] at *
  omega

/-! ### Reading the members back -/

/-- the block object in normal form (keys in `BTreeMap` order) -/
def objOf (b : Block) : JObj := cPart b ++ iPart b ++ kPart b ++ pPart b

theorem toJson_eq' (b : Block) : b.toJson = .obj (objOf b) := toJson_eq b

theorem get_i (b : Block) : objGet ['i'] (objOf b) = b.info := by
  unfold objOf cPart iPart kPart pPart
  cases h1 : b.changes.isEmpty <;> cases h2 : b.info <;> cases h3 : b.parents.isEmpty <;>
    cases h4 : b.packs.isEmpty <;> simp [objGet]

theorem get_p (b : Block) : objGet ['p'] (objOf b) =
    if b.parents.isEmpty then none else some (.arr (b.parents.map (fun p => .str p.render))) := by
  unfold objOf cPart iPart kPart pPart
  cases h1 : b.changes.isEmpty <;> cases h2 : b.info <;> cases h3 : b.parents.isEmpty <;>
    cases h4 : b.packs.isEmpty <;> simp [objGet]

theorem get_k (b : Block) : objGet ['k'] (objOf b) =
    if b.packs.isEmpty then none else some (.arr (b.packs.map .str)) := by
  unfold objOf cPart iPart kPart pPart
  cases h1 : b.changes.isEmpty <;> cases h2 : b.info <;> cases h3 : b.parents.isEmpty <;>
    cases h4 : b.packs.isEmpty <;> simp [objGet]

theorem get_c (b : Block) : objGet ['c'] (objOf b) =
    if b.changes.isEmpty then none else some (.arr (b.changes.map chgJson)) := by
  unfold objOf cPart iPart kPart pPart
  cases h1 : b.changes.isEmpty <;> cases h2 : b.info <;> cases h3 : b.parents.isEmpty <;>
    cases h4 : b.packs.isEmpty <;> simp [objGet]

theorem strArr_map_str {α : Type} (f : α → Str) (l : List α) :
    strArr? (l.map (fun a => JVal.str (f a))) = some (l.map f) := by
  induction l with
  | nil => rfl
  | cons x xs ih => simp [strArr?, ih]

theorem strArr_strs (l : List Str) : strArr? (l.map JVal.str) = some l := by
  have := strArr_map_str (fun s : Str => s) l
  simpa using this

/-! ### Sorted duplicate-free lists (`BTreeSet`) -/

structure StrictTotal {α : Type} (lt : α → α → Bool) : Prop where
  asymm : ∀ a b, lt a b = true → lt b a = false
  trans : ∀ a b c, lt a b = true → lt b c = true → lt a c = true
  trich : ∀ a b, lt a b = false → lt b a = false → a = b

theorem StrictTotal.irrefl {α : Type} {lt : α → α → Bool} (h : StrictTotal lt) (a : α) : lt a a = false := by
  cases e : lt a a with
  | false => rfl
  | true => have := h.asymm a a e; rw [e] at this; cases this

theorem strLt_total : StrictTotal strLt where
  asymm := C19.strLt_asymm
  trans := C19.strLt_trans
  trich := C19.strLt_trichotomy

theorem blockLt_total : StrictTotal BlockId.lt where
  asymm := by
    intro a b h
    simp only [BlockId.lt, Bool.or_eq_true, decide_eq_true_eq, Bool.and_eq_true] at h
    simp only [BlockId.lt, Bool.or_eq_false_iff, decide_eq_false_iff_not, Bool.and_eq_false_iff]
    rcases h with h | ⟨h1, h2⟩
    · exact ⟨by omega, Or.inl (by omega)⟩
    · exact ⟨by omega, Or.inr (C19.strLt_asymm _ _ h2)⟩
  trans := by
    intro a b c h1 h2
    simp only [BlockId.lt, Bool.or_eq_true, decide_eq_true_eq, Bool.and_eq_true] at h1 h2 ⊢
    rcases h1 with h1 | ⟨h1, h1'⟩ <;> rcases h2 with h2 | ⟨h2, h2'⟩
    · exact Or.inl (by omega)
    · exact Or.inl (by omega)
    · exact Or.inl (by omega)
    · exact Or.inr ⟨by omega, C19.strLt_trans _ _ _ h1' h2'⟩
  trich := by
    intro a b h1 h2
    simp only [BlockId.lt, Bool.or_eq_false_iff, decide_eq_false_iff_not, Bool.and_eq_false_iff] at h1 h2
    obtain ⟨h1, h1'⟩ := h1
    obtain ⟨h2, h2'⟩ := h2
    have hi : a.index = b.index := by omega
    have hd : a.digest = b.digest := by
      apply C19.strLt_trichotomy
      · rcases h1' with h | h; exact absurd hi h; exact h
      · rcases h2' with h | h; exact absurd hi.symm h; exact h
    cases a; cases b; simp_all

abbrev SortedBy {α : Type} (lt : α → α → Bool) (l : List α) : Prop := l.Pairwise (fun a b => lt a b = true)

theorem mem_insertSet_iff {α : Type} [DecidableEq α] (lt : α → α → Bool) (x y : α) (l : List α) :
    y ∈ insertSet lt x l ↔ y = x ∨ y ∈ l := by
  induction l with
  | nil => simp [insertSet]
  | cons z zs ih =>
    simp only [insertSet]
    split
    · next h => subst h; simp
    · split
      · simp
      · simp only [List.mem_cons, ih]
        constructor
        · rintro (h | h | h); exact Or.inr (Or.inl h); exact Or.inl h; exact Or.inr (Or.inr h)
        · rintro (h | h | h); exact Or.inr (Or.inl h); exact Or.inl h; exact Or.inr (Or.inr h)

theorem insertSet_sorted {α : Type} [DecidableEq α] {lt : α → α → Bool} (ht : StrictTotal lt) (x : α) (l : List α)
    (h : SortedBy lt l) : SortedBy lt (insertSet lt x l) := by
  induction l with
  | nil => simp [insertSet, SortedBy]
  | cons y t ih =>
    simp only [insertSet]
    split
    · exact h
    · next hne =>
      split
      · next hlt =>
        refine List.Pairwise.cons ?_ h
        intro z hz
        rcases List.mem_cons.mp hz with rfl | hz
        · exact hlt
        · exact ht.trans _ _ _ hlt ((List.pairwise_cons.mp h).1 z hz)
      · next hnlt =>
        obtain ⟨hy, htl⟩ := List.pairwise_cons.mp h
        refine List.Pairwise.cons ?_ (ih htl)
        intro z hz
        rcases (mem_insertSet_iff lt x z t).mp hz with rfl | hz
        · cases e : lt y z with
          | true => rfl
          | false => exact absurd (ht.trich _ _ (by simpa using hnlt) e) hne
        · exact hy z hz

theorem insertSet_append {α : Type} [DecidableEq α] {lt : α → α → Bool} (ht : StrictTotal lt) (x : α) (l : List α)
    (h : ∀ y ∈ l, lt y x = true) : insertSet lt x l = l ++ [x] := by
  induction l with
  | nil => rfl
  | cons y t ih =>
    have hy := h y (by simp)
    have hne : ¬ x = y := by intro e; subst e; rw [ht.irrefl] at hy; cases hy
    have hnlt : lt x y = false := ht.asymm _ _ hy
    simp only [insertSet, hne, hnlt, if_false, Bool.false_eq_true, List.cons_append]
    rw [ih (fun z hz => h z (List.mem_cons_of_mem _ hz))]

/-- re-inserting the elements of a sorted duplicate-free list rebuilds the list -/
theorem foldl_insertSet_sorted {α : Type} [DecidableEq α] {lt : α → α → Bool} (ht : StrictTotal lt) (l acc : List α)
    (h : SortedBy lt (acc ++ l)) : l.foldl (fun acc b => insertSet lt b acc) acc = acc ++ l := by
  induction l generalizing acc with
  | nil => simp
  | cons x xs ih =>
    simp only [List.foldl_cons]
    have hx : ∀ y ∈ acc, lt y x = true := by
      intro y hy
      exact (List.pairwise_append.mp h).2.2 y hy x (by simp)
    rw [insertSet_append ht x acc hx, ih (acc ++ [x]) (by simpa using h)]
    simp

theorem foldl_insertSet_is_sorted {α : Type} [DecidableEq α] {lt : α → α → Bool} (ht : StrictTotal lt) (l acc : List α)
    (h : SortedBy lt acc) : SortedBy lt (l.foldl (fun acc b => insertSet lt b acc) acc) := by
  induction l generalizing acc with
  | nil => exact h
  | cons x xs ih => exact ih _ (insertSet_sorted ht x acc h)

theorem mem_foldl_insertSet {α : Type} [DecidableEq α] (lt : α → α → Bool) (l acc : List α) (y : α) :
    y ∈ l.foldl (fun acc b => insertSet lt b acc) acc ↔ y ∈ l ∨ y ∈ acc := by
  induction l generalizing acc with
  | nil => simp
  | cons x xs ih =>
    simp only [List.foldl_cons, ih, mem_insertSet_iff, List.mem_cons]
    constructor
    · rintro (h | h | h); exact Or.inl (Or.inr h); exact Or.inl (Or.inl h); exact Or.inr h
    · rintro ((h | h) | h); exact Or.inr (Or.inl h); exact Or.inl h; exact Or.inr (Or.inr h)

/-- the set form of a list (what `BTreeSet::from_iter` builds) -/
def toSet {α : Type} [DecidableEq α] (lt : α → α → Bool) (l : List α) : List α :=
  l.foldl (fun acc b => insertSet lt b acc) []

theorem toSet_sorted {α : Type} [DecidableEq α] {lt : α → α → Bool} (ht : StrictTotal lt) (l : List α) :
    SortedBy lt (toSet lt l) := foldl_insertSet_is_sorted ht l [] List.Pairwise.nil

theorem mem_toSet {α : Type} [DecidableEq α] (lt : α → α → Bool) (l : List α) (y : α) : y ∈ toSet lt l ↔ y ∈ l := by
  simp [toSet, mem_foldl_insertSet]

theorem toSet_of_sorted {α : Type} [DecidableEq α] {lt : α → α → Bool} (ht : StrictTotal lt) (l : List α)
    (h : SortedBy lt l) : toSet lt l = l := by
  have := foldl_insertSet_sorted ht l [] (by simpa using h)
  simpa [toSet] using this

theorem toSet_idem {α : Type} [DecidableEq α] {lt : α → α → Bool} (ht : StrictTotal lt) (l : List α) :
    toSet lt (toSet lt l) = toSet lt l := toSet_of_sorted ht _ (toSet_sorted ht l)

/-! ### `nextIndex` depends on the set of parents only -/

theorem foldl_max_attained (ps : List BlockId) (m : Nat) :
    ps.foldl (fun m p => max m p.index) m = m ∨ ∃ p ∈ ps, p.index = ps.foldl (fun m p => max m p.index) m := by
  induction ps generalizing m with
  | nil => simp
  | cons q qs ih =>
    simp only [List.foldl_cons]
    rcases ih (max m q.index) with h | ⟨p, hp, he⟩
    · rw [h]
      by_cases hm : q.index ≤ m
      · left; omega
      · right; exact ⟨q, by simp, by omega⟩
    · right; exact ⟨p, by simp [hp], he⟩

theorem nextIndex_le_of_subset {l l' : List BlockId} (h : ∀ p ∈ l, p ∈ l') : nextIndex l ≤ nextIndex l' := by
  unfold nextIndex
  rcases foldl_max_attained l 0 with h0 | ⟨p, hp, he⟩
  · rw [h0]; omega
  · have := (C10.foldl_max_spec l' 0).2 p (h p hp)
    omega

theorem nextIndex_congr {l l' : List BlockId} (h : ∀ p, p ∈ l ↔ p ∈ l') : nextIndex l = nextIndex l' :=
  Nat.le_antisymm (nextIndex_le_of_subset (fun p hp => (h p).mp hp)) (nextIndex_le_of_subset (fun p hp => (h p).mpr hp))

theorem nextIndex_toSet (l : List BlockId) : nextIndex (toSet BlockId.lt l) = nextIndex l :=
  nextIndex_congr (mem_toSet BlockId.lt l)

/-! ### Parents, packs and changes read back -/

theorem parents_fold (l : List BlockId) (hc : ∀ p ∈ l, C10.Canonical p) (acc : List BlockId) :
    (l.map BlockId.render).foldl (fun acc s => match acc, BlockId.parse s with
        | some l, some b => some (insertSet BlockId.lt b l)
        | _, _ => none) (some acc) = some (l.foldl (fun acc b => insertSet BlockId.lt b acc) acc) := by
  induction l generalizing acc with
  | nil => rfl
  | cons x xs ih =>
    have hx : BlockId.parse x.render = some x := hc x (by simp)
    simp only [List.map_cons, List.foldl_cons, hx]
    exact ih (fun p hp => hc p (List.mem_cons_of_mem _ hp)) _

/-- a change record as every operation of the replica creates it: the revision is a function of its
    digest and its parent, and the parent's text parses back -/
def ChangeOK (H : Bytes → Str) (c : Change) : Prop :=
  match c.parent with
  | none => c.rev = Rev.mk1 c.rev.digest
  | some p => Rev.parse p.render = some p ∧ c.rev = Rev.new H (p.index + 1) c.rev.digest (some p)

theorem loadChange_chgJson {H : Bytes → Str} {c : Change} (h : ChangeOK H c) :
    loadChange H (chgJson c) = some (some c) := by
  obtain ⟨u, r, par⟩ := c
  cases par with
  | none =>
    simp only [ChangeOK] at h
    simp only [chgJson, loadChange]
    rw [← h]
  | some p =>
    simp only [ChangeOK] at h
    simp only [chgJson, loadChange, h.1]
    rw [← h.2]

theorem loadChanges_chgs {H : Bytes → Str} (l : List Change) (h : ∀ c ∈ l, ChangeOK H c) :
    loadChanges H (l.map chgJson) = some l := by
  induction l with
  | nil => rfl
  | cons x xs ih =>
    simp only [List.map_cons, loadChanges, loadChange_chgJson (h x (by simp)),
      ih (fun c hc => h c (List.mem_cons_of_mem _ hc))]

/-- a block as `commit` builds it and `load_raw_delta` hands it out: parents and packs are sorted sets,
    parents are canonical identifiers, the information is a JSON object, the change records are well formed -/
structure BlockOK (H : Bytes → Str) (b : Block) : Prop where
  info : ∀ i, b.info = some i → ∃ o, i = .obj o
  parentsSorted : SortedBy BlockId.lt b.parents
  parentsCanon : ∀ p ∈ b.parents, C10.Canonical p
  packsSorted : SortedBy strLt b.packs
  changes : ∀ c ∈ b.changes, ChangeOK H c

/-- the members `load_raw_delta` reads out of a block object (cf. `C10.parentsOf`) -/
def infoOf (o : JObj) : Option (Option JVal) :=
  match objGet ['i'] o with
  | none => some none
  | some (.obj i) => some (some (.obj i))
  | some _ => none

def packsOf (o : JObj) : Option (List Str) :=
  match objGet ['k'] o with
  | none => some []
  | some (.arr ks) => (strArr? ks).map (fun l => l.foldl (fun acc k => insertSet strLt k acc) [])
  | some _ => none

def changesOf (H : Bytes → Str) (o : JObj) : Option (List Change) :=
  match objGet ['c'] o with
  | some (.arr cs) => loadChanges H cs
  | _ => some []

/-- `load_raw_delta` is the composition of the four member readers and the index rule -/
theorem loadRawDelta_eq (H : Bytes → Str) (id : BlockId) (o : JObj) :
    loadRawDelta H id o =
      match infoOf o with
      | none => none
      | some info =>
        match C10.parentsOf o with
        | none => none
        | some parents =>
          if id.index ≠ nextIndex parents then none
          else match packsOf o with
            | none => none
            | some packs =>
              match changesOf H o with
              | none => none
              | some changes => some { id := id, parents := parents, packs := packs, changes := changes, info := info } := by
  rfl

theorem infoOf_objOf {b : Block} (h : ∀ i, b.info = some i → ∃ o, i = .obj o) : infoOf (objOf b) = some b.info := by
  unfold infoOf
  rw [get_i]
  cases hi : b.info with
  | none => rfl
  | some i => obtain ⟨o, rfl⟩ := h i hi; rfl

theorem parentsOf_objOf {b : Block} (hs : SortedBy BlockId.lt b.parents) (hc : ∀ p ∈ b.parents, C10.Canonical p) :
    C10.parentsOf (objOf b) = some b.parents := by
  unfold C10.parentsOf
  rw [get_p]
  cases hp : b.parents with
  | nil => rfl
  | cons x xs =>
    rw [← hp]
    have hne : b.parents.isEmpty = false := by rw [hp]; rfl
    simp only [hne, Bool.false_eq_true, if_false, strArr_map_str]
    refine (parents_fold b.parents hc []).trans ?_
    have := toSet_of_sorted blockLt_total b.parents hs
    unfold toSet at this
    rw [this]

theorem packsOf_objOf {b : Block} (hs : SortedBy strLt b.packs) : packsOf (objOf b) = some b.packs := by
  unfold packsOf
  rw [get_k]
  cases hp : b.packs with
  | nil => rfl
  | cons x xs =>
    rw [← hp]
    have hne : b.packs.isEmpty = false := by rw [hp]; rfl
    simp only [hne, Bool.false_eq_true, if_false, strArr_strs, Option.map_some]
    have := toSet_of_sorted strLt_total b.packs hs
    unfold toSet at this
    rw [this]

theorem changesOf_objOf {H : Bytes → Str} {b : Block} (h : ∀ c ∈ b.changes, ChangeOK H c) :
    changesOf H (objOf b) = some b.changes := by
  unfold changesOf
  rw [get_c]
  cases hp : b.changes with
  | nil => rfl
  | cons x xs =>
    rw [← hp]
    have hne : b.changes.isEmpty = false := by rw [hp]; rfl
    simp only [hne, Bool.false_eq_true, if_false]
    exact loadChanges_chgs _ h

/-- **`load_raw_delta (to_json b) = b`** for every well-formed block, under any identifier obeying the
    index rule -/
theorem loadRawDelta_objOf {H : Bytes → Str} {b : Block} (hb : BlockOK H b) (id : BlockId)
    (hid : id.index = nextIndex b.parents) :
    loadRawDelta H id (objOf b) = some { b with id := id } := by
  rw [loadRawDelta_eq, infoOf_objOf hb.info, parentsOf_objOf hb.parentsSorted hb.parentsCanon,
    packsOf_objOf hb.packsSorted, changesOf_objOf hb.changes]
  simp [hid]

/-- what the members readers return is what the loaded block carries -/
theorem loadRawDelta_members {H : Bytes → Str} {id : BlockId} {o : JObj} {b : Block}
    (h : loadRawDelta H id o = some b) :
    infoOf o = some b.info ∧ C10.parentsOf o = some b.parents ∧ packsOf o = some b.packs ∧
      changesOf H o = some b.changes := by
  rw [loadRawDelta_eq] at h
  split at h
  · cases h
  · next info hi =>
    split at h
    · cases h
    · next parents hp =>
      split at h
      · cases h
      · split at h
        · cases h
        · next packs hk =>
          split at h
          · cases h
          · next changes hc =>
            cases h
            exact ⟨hi, hp, hk, hc⟩

/-! ### `fetchBlock` of the bytes of a block -/

theorem toJson_id (b : Block) (id : BlockId) : ({ b with id := id } : Block).toJson = b.toJson := rfl

/-- **Block round trip at byte level**: if the key of `id` holds the rendering of a well-formed block
    `b` whose information member is canonical JSON, `id.digest` is the hash of those bytes and `id` obeys
    the index rule, then `fetchBlock` hands out `b` (under `id`), member for member. -/
theorem fetch_toJson {H : Bytes → Str} {kv : KVSpec} {b : Block} (hb : BlockOK H b)
    (hcan : ∀ i, b.info = some i → Canon i) (hdep : ∀ i, b.info = some i → i.depth ≤ MAX_NESTING_DEPTH)
    (id : BlockId)
    (hidx : id.index = nextIndex b.parents) (hdig : id.digest = H b.toJson.renderBytes)
    (hr : kv.read id.key = some b.toJson.renderBytes) :
    fetchBlock H kv id = some { b with id := id } := by
  unfold fetchBlock
  rw [hr]
  simp only [hdig, ne_eq, not_true_eq_false, if_false, parseJsonBytes_renderBytes _ (canon_toJson b hcan) (toJson_below_limit b hdep)]
  rw [toJson_eq']
  exact loadRawDelta_objOf hb id hidx

/-- whatever `fetchBlock` makes of the bytes of `b` (if anything), its pack list is the pack list of `b`:
    needs only that the bytes parse back (canonical information member) -/
theorem fetch_toJson_packs {H : Bytes → Str} {kv : KVSpec} {b b' : Block}
    (hcan : ∀ i, b.info = some i → Canon i) (hdep : ∀ i, b.info = some i → i.depth ≤ MAX_NESTING_DEPTH)
    (hs : SortedBy strLt b.packs) (id : BlockId)
    (hr : kv.read id.key = some b.toJson.renderBytes) (hf : fetchBlock H kv id = some b') :
    b'.packs = b.packs := by
  unfold fetchBlock at hf
  rw [hr] at hf
  simp only at hf
  split at hf
  · cases hf
  · rw [parseJsonBytes_renderBytes _ (canon_toJson b hcan) (toJson_below_limit b hdep), toJson_eq'] at hf
    have := (loadRawDelta_members hf).2.2.1
    rw [packsOf_objOf hs] at this
    exact (Option.some.inj this).symm

/-! ### Applying writes -/

/-- the store after a list of writes (in order) -/
def applyWrites (kv : KVSpec) (ws : List (Str × Bytes)) : KVSpec := ws.foldl (fun s w => s.write w.1 w.2) kv

@[simp] theorem applyWrites_nil (kv : KVSpec) : applyWrites kv [] = kv := rfl
@[simp] theorem applyWrites_cons (kv : KVSpec) (w : Str × Bytes) (ws : List (Str × Bytes)) :
    applyWrites kv (w :: ws) = applyWrites (kv.write w.1 w.2) ws := rfl
theorem applyWrites_append (kv : KVSpec) (ws ws' : List (Str × Bytes)) :
    applyWrites kv (ws ++ ws') = applyWrites (applyWrites kv ws) ws' := by
  simp [applyWrites, List.foldl_append]

/-- **2. `store_monotone`**: applying any list of writes never changes or removes an existing item -/
theorem store_monotone (kv : KVSpec) (ws : List (Str × Bytes)) : kv.le (applyWrites kv ws) := C10.writes_le kv ws

/-- keys that are not written read as before -/
theorem read_applyWrites_absent (kv : KVSpec) (ws : List (Str × Bytes)) (k : Str) (h : ∀ w ∈ ws, w.1 ≠ k) :
    (applyWrites kv ws).read k = kv.read k := by
  induction ws generalizing kv with
  | nil => rfl
  | cons w ws ih =>
    rw [applyWrites_cons, ih _ (fun x hx => h x (List.mem_cons_of_mem _ hx))]
    exact C17.read_write_other _ _ _ _ (fun e => h w (by simp) e.symm)

/-- a fresh key that is written (always with the same bytes) reads those bytes -/
theorem read_applyWrites_present (kv : KVSpec) (ws : List (Str × Bytes)) (k : Str) (b : Bytes)
    (hfresh : kv.read k = none) (hm : (k, b) ∈ ws) (hsame : ∀ w ∈ ws, w.1 = k → w.2 = b) :
    (applyWrites kv ws).read k = some b := by
  induction ws generalizing kv with
  | nil => cases hm
  | cons w ws ih =>
    rw [applyWrites_cons]
    by_cases hk : w.1 = k
    · have hb : w.2 = b := hsame w (by simp) hk
      have : (kv.write w.1 w.2).read k = some b := by
        rw [← hk, C17.read_write_same, hk, hfresh, hb]; rfl
      exact store_monotone _ ws k b this
    · have hm' : (k, b) ∈ ws := by
        rcases List.mem_cons.mp hm with h | h
        · exact absurd (by rw [← h]) hk
        · exact h
      refine ih _ ?_ hm' (fun x hx => hsame x (List.mem_cons_of_mem _ hx))
      rw [C17.read_write_other _ _ _ _ (fun e => hk e.symm)]
      exact hfresh

/-! ### The writes of `commit` -/

section Commit
variable {H : Bytes → Str} {st : DState} {info : Option JVal} {objOrder : List (Str × JObj)}
  {chgOrder : List Change} {out : DState.CommitOut}

/-- the bytes of the block a commit writes -/
def blockBytes (out : DState.CommitOut) : Bytes := out.block.toJson.renderBytes

theorem commit_packName (hout : out = DState.commitWrites H st info objOrder chgOrder) :
    out.packName = if objOrder.isEmpty then none else some (H (DState.packOf objOrder)) := by
  subst hout; rfl

/-- the block `commit` builds, member by member -/
theorem commit_block_members (hout : out = DState.commitWrites H st info objOrder chgOrder) :
    out.block.parents = toSet BlockId.lt st.p.anchors ∧ out.block.packs = out.packName.toList ∧
      out.block.changes = chgOrder ∧ out.block.info = info := by
  subst hout
  refine ⟨rfl, ?_, rfl, rfl⟩
  cases objOrder <;> rfl

/-- the identifier of the block: next index, hash of the block's own bytes -/
theorem commit_block_id (hout : out = DState.commitWrites H st info objOrder chgOrder) :
    out.block.id = ⟨nextIndex st.p.anchors, H (blockBytes out)⟩ := by
  subst hout; rfl

/-- **5. `commit_write_order`** (shape): the writes are `[pack, block]` or `[block]` -/
theorem commit_writes_eq (hout : out = DState.commitWrites H st info objOrder chgOrder) :
    out.writes = out.packName.toList.map (fun k => (k ++ PACK_EXT, DState.packOf objOrder)) ++
      [(out.block.id.key, blockBytes out)] := by
  subst hout
  cases objOrder <;> rfl

/-- **1. `commit_writes_names`**: every item a commit writes is named by the hash of its own bytes — the
    pack is `H bytes ++ ".pack"` (and that is the pack the block names), the block is
    `render ⟨nextIndex anchors, H bytes⟩ ++ ".delta"` (and that is the block's identifier); the block's
    index is above the index of every anchor, and of every parent it records. -/
theorem commit_writes_names (hout : out = DState.commitWrites H st info objOrder chgOrder) :
    (∀ w ∈ out.writes,
      (w.1 = H w.2 ++ PACK_EXT ∧ out.packName = some (H w.2) ∧ out.block.packs = [H w.2]) ∨
      (w.1 = BlockId.render ⟨nextIndex st.p.anchors, H w.2⟩ ++ DELTA_EXT ∧
        out.block.id = ⟨nextIndex st.p.anchors, H w.2⟩)) ∧
    (∀ p ∈ st.p.anchors, p.index < out.block.id.index) ∧
    (∀ p ∈ out.block.parents, p.index < out.block.id.index) ∧
    out.block.id.index = nextIndex out.block.parents := by
  have hid := commit_block_id hout
  have hm := commit_block_members hout
  have hpn := commit_packName hout
  refine ⟨?_, ?_, ?_, ?_⟩
  · intro w hw
    rw [commit_writes_eq hout, List.mem_append] at hw
    rcases hw with hw | hw
    · left
      cases hE : objOrder.isEmpty with
      | true =>
        rw [hE] at hpn
        simp only [if_true] at hpn
        rw [hpn] at hw
        simp at hw
      | false =>
        rw [hE] at hpn
        simp only [Bool.false_eq_true, if_false] at hpn
        rw [hpn] at hw
        simp only [Option.toList_some, List.map_cons, List.map_nil, List.mem_singleton] at hw
        subst hw
        exact ⟨rfl, hpn, by rw [hm.2.1, hpn]; rfl⟩
    · right
      simp only [List.mem_singleton] at hw
      subst hw
      simp only
      rw [hid]
      exact ⟨rfl, rfl⟩
  · intro p hp
    rw [hid]
    exact C10.nextIndex_gt _ p hp
  · intro p hp
    rw [hm.1, mem_toSet] at hp
    rw [hid]
    exact C10.nextIndex_gt _ p hp
  · rw [hid, hm.1, nextIndex_toSet]

/-- **2b. `commit_store_le`**: a commit only grows storage -/
theorem commit_store_le (kv : KVSpec) (out : DState.CommitOut) : kv.le (applyWrites kv out.writes) :=
  store_monotone kv out.writes

/-- the block of a commit is well formed when its inputs are: the information is a JSON object, the
    anchors are canonical identifiers (they always are: `C10.parse_canonical`), the change records are
    built the way revisions are built -/
theorem commit_blockOK (hout : out = DState.commitWrites H st info objOrder chgOrder)
    (hinfo : ∀ i, info = some i → ∃ o, i = .obj o)
    (hanc : ∀ p ∈ st.p.anchors, C10.Canonical p)
    (hchg : ∀ c ∈ chgOrder, ChangeOK H c) : BlockOK H out.block := by
  obtain ⟨h1, h2, h3, h4⟩ := commit_block_members hout
  refine ⟨?_, ?_, ?_, ?_, ?_⟩
  · rw [h4]; exact hinfo
  · rw [h1]; exact toSet_sorted blockLt_total _
  · rw [h1]; intro p hp; exact hanc p ((mem_toSet _ _ _).mp hp)
  · rw [h2]; cases out.packName <;> simp [SortedBy]
  · rw [h3]; exact hchg

/-- **4. `block_roundtrip`**: in any store whose block key holds the bytes the commit wrote,
    `fetchBlock` gives back the block of the commit — identifier, parents, packs, changes and
    information, all equal. -/
theorem block_roundtrip (hout : out = DState.commitWrites H st info objOrder chgOrder)
    (hinfo : ∀ i, info = some i → Canon i ∧ ∃ o, i = .obj o)
    (hdep : ∀ i, info = some i → i.depth ≤ MAX_NESTING_DEPTH)
    (hanc : ∀ p ∈ st.p.anchors, C10.Canonical p)
    (hchg : ∀ c ∈ chgOrder, ChangeOK H c)
    {kv : KVSpec} (hr : kv.read out.block.id.key = some (blockBytes out)) :
    fetchBlock H kv out.block.id = some out.block := by
  have hb := commit_blockOK hout (fun i hi => (hinfo i hi).2) hanc hchg
  have hn := commit_writes_names hout
  have hid := commit_block_id hout
  have := fetch_toJson (kv := kv) hb (fun i hi => (hinfo i (by rw [← (commit_block_members hout).2.2.2]; exact hi)).1)
    (fun i hi => hdep i (by rw [← (commit_block_members hout).2.2.2]; exact hi))
    out.block.id hn.2.2.2 (by rw [hid]; rfl) hr
  rw [this]

/-- the pack list alone needs only a canonical information member -/
theorem block_roundtrip_packs (hout : out = DState.commitWrites H st info objOrder chgOrder)
    (hinfo : ∀ i, info = some i → Canon i) (hdep : ∀ i, info = some i → i.depth ≤ MAX_NESTING_DEPTH)
    {kv : KVSpec} (hr : kv.read out.block.id.key = some (blockBytes out)) {b' : Block}
    (hf : fetchBlock H kv out.block.id = some b') : b'.packs = out.block.packs := by
  obtain ⟨_, h2, _, h4⟩ := commit_block_members hout
  refine fetch_toJson_packs (fun i hi => hinfo i (by rw [← h4]; exact hi)) (fun i hi => hdep i (by rw [← h4]; exact hi)) ?_ out.block.id hr hf
  rw [h2]; cases out.packName <;> simp [SortedBy]

end Commit

/-! ### 3. Meld copies bytes -/

/-- **`meld_copies_bytes`**: one copy step of `meld` (`write_object(k, other.read_object(k))`): afterwards
    the key holds what it held before, or else exactly the bytes of the source -/
theorem meld_copies_bytes (kv : KVSpec) (k : Str) (b : Bytes) :
    (kv.write k b).read k = some ((kv.read k).getD b) := C17.read_write_same kv k b

/-- the byte-level effect of `meld`: every selected key the source holds is written with the source's bytes -/
def meldCopy (src dst : KVSpec) (keys : List Str) : KVSpec :=
  applyWrites dst (keys.filterMap (fun k => (src.read k).map (fun b => (k, b))))

/-- meld only grows the receiving store -/
theorem meld_le (src dst : KVSpec) (keys : List Str) : dst.le (meldCopy src dst keys) := store_monotone _ _

/-- after a meld every selected key holds what it held before, or else exactly the bytes of the source -/
theorem meld_reads (src dst : KVSpec) (keys : List Str) {k : Str} {b : Bytes} (hk : k ∈ keys)
    (hs : src.read k = some b) : (meldCopy src dst keys).read k = some ((dst.read k).getD b) := by
  cases hd : dst.read k with
  | some d => exact meld_le src dst keys k d hd
  | none =>
    simp only [Option.getD_none]
    apply read_applyWrites_present _ _ _ _ hd
    · simp only [List.mem_filterMap, Option.map_eq_some_iff]
      exact ⟨k, hk, b, hs, rfl⟩
    · intro w hw hwk
      simp only [List.mem_filterMap, Option.map_eq_some_iff] at hw
      obtain ⟨k', _, b', hb', rfl⟩ := hw
      simp only at hwk
      subst hwk
      rw [hs] at hb'
      exact (Option.some.inj hb').symm

/-- a key that is not selected is untouched -/
theorem meld_other (src dst : KVSpec) (keys : List Str) {k : Str} (hk : k ∉ keys) :
    (meldCopy src dst keys).read k = dst.read k := by
  apply read_applyWrites_absent
  intro w hw e
  simp only [List.mem_filterMap, Option.map_eq_some_iff] at hw
  obtain ⟨k', hk', b', _, rfl⟩ := hw
  exact hk (e ▸ hk')

/-- **`meld_no_conflict`**: absent hash collisions (on the byte strings in play), if what the receiver
    already holds under a `.delta` / `.pack` key is a valid item and what the source holds under that key
    is a valid item, they are the same bytes — so "first write wins" loses nothing, and after the meld the
    receiver holds under every selected key **exactly the bytes of the source**. -/
theorem meld_no_conflict {H : Bytes → Str} {S : Bytes → Prop} (hinj : C10.InjOn H S)
    (src dst : KVSpec) (keys : List Str) {k : Str} {b : Bytes} (hk : k ∈ keys) (hs : src.read k = some b)
    (hext : KVSpec.isSuffix DELTA_EXT k = true ∨ KVSpec.isSuffix PACK_EXT k = true)
    (hvs : C10.validItem H k b = true) (sb : S b)
    (hvd : ∀ d, dst.read k = some d → C10.validItem H k d = true ∧ S d) :
    (∀ d, dst.read k = some d → d = b) ∧ (meldCopy src dst keys).read k = some b := by
  have h1 : ∀ d, dst.read k = some d → d = b := fun d hd =>
    C10.no_write_conflict hinj (hvd d hd).1 hvs (hvd d hd).2 sb hext
  refine ⟨h1, ?_⟩
  rw [meld_reads src dst keys hk hs]
  cases hd : dst.read k with
  | none => rfl
  | some d => rw [h1 d hd]; rfl

/-! ### Non-vacuity -/

section Examples
open C10 (Hlen)

/-- a replica with one applied block (so one anchor) -/
def stA : DState :=
  { p := { deltas := [({ id := ⟨1, "h2".toList⟩, parents := [], packs := [], changes := [] }, .applied)] } }

def revD : Rev := Rev.mk1 "d".toList
def chg1 : Change := ⟨"u".toList, revD, none⟩
def chg2 : Change := ⟨"u".toList, Rev.upd Hlen "e".toList revD, some revD⟩
def infoA : JVal := .obj [("author".toList, .str "x".toList)]
def outA : DState.CommitOut :=
  DState.commitWrites Hlen stA (some infoA) [("d".toList, []), ("e".toList, [("a".toList, .null)])] [chg1, chg2]
def kvA : KVSpec := applyWrites KVSpec.empty outA.writes

example : stA.p.anchors = [⟨1, "h2".toList⟩] := by decide +kernel
example : ∀ p ∈ stA.p.anchors, C10.Canonical p := by decide +kernel
example : ChangeOK Hlen chg1 := rfl
example : ChangeOK Hlen chg2 := ⟨by decide +kernel, rfl⟩
example : Canon infoA ∧ ∃ o, infoA = .obj o := ⟨by simp [infoA, Canon, CanonO, SortedKeys], _, rfl⟩
example : outA.writes.map (·.1) = ["h15.pack".toList, "2-h77.delta".toList] := by decide +kernel
example : outA.block.parents = [⟨1, "h2".toList⟩] ∧ outA.block.packs = ["h15".toList] := by decide +kernel

/-- `block_roundtrip` applies to this commit: after the writes, the block reads back whole -/
example : fetchBlock Hlen kvA outA.block.id = some outA.block := by
  refine block_roundtrip (H := Hlen) (st := stA) rfl ?_ ?_ (by decide +kernel) ?_ ?_
  · intro i hi; cases hi; exact ⟨by simp [infoA, Canon, CanonO, SortedKeys], _, rfl⟩
  · intro i hi; cases hi; decide
  · intro c hc
    simp only [List.mem_cons, List.mem_nil_iff, or_false] at hc
    rcases hc with rfl | rfl
    · rfl
    · exact ⟨by decide +kernel, rfl⟩
  · decide +kernel

/-- the same, computed: parents, packs and changes of the block read back from the bytes -/
example : (fetchBlock Hlen kvA outA.block.id).map (fun b => (b.id, b.parents, b.packs, b.changes)) =
    some (outA.block.id, outA.block.parents, outA.block.packs, outA.block.changes) := by decide +kernel

/-- **The hypothesis "the information is a JSON object" cannot be dropped**: the model lets `commit` take
    any JSON value as information (`info : Option JVal`; the code takes a `Map`), and a block written
    with a non-object information member is rejected by `load_raw_delta` — it can never be read back. -/
theorem block_roundtrip_needs_object_info :
    let out := DState.commitWrites Hlen stA (some (.num "7".toList)) [] [chg1]
    (fetchBlock Hlen (applyWrites KVSpec.empty out.writes) out.block.id).isNone = true := by decide +kernel

/-- `StrictTotal`, `SortedBy`, `toSet` on a concrete list with a duplicate and out of order -/
example : toSet BlockId.lt [⟨2, ['b']⟩, ⟨1, ['z']⟩, ⟨2, ['a']⟩, ⟨2, ['b']⟩] = [⟨1, ['z']⟩, ⟨2, ['a']⟩, ⟨2, ['b']⟩] := by
  decide +kernel

/-- `meld_no_conflict` is not vacuous: two stores, a key present in both with the same valid bytes and a
    key only the source has -/
example : (meldCopy kvA C10.kv0 ["2-h77.delta".toList, "h15.pack".toList]).read "h15.pack".toList =
    kvA.read "h15.pack".toList := by decide +kernel
example : C10.validItem Hlen "h15.pack".toList ((kvA.read "h15.pack".toList).getD []) = true := by decide +kernel

end Examples

end Melda.Props.C11
