/-
  C10 — stored items are trusted only if their content matches their name (byte level),
  C11 — content-addressed, append-only naming, and the byte-level ingredients of C09.

  Everything here is about `Melda.Replica` (`fetchBlock`, `loadPackBytes`, `viewOf`) over the
  write-once contract `KVSpec`, for an arbitrary hash `H : Bytes → Str`.
-/
import Melda.Replica
import Melda.Props.Proto
import Melda.Props.C17
import Melda.Props.C19
namespace Melda.Props.C10
open Melda Melda.PState Melda.Props.Proto

/-! ### 1. Hash gates -/

/-- what `load_raw_delta` guarantees about a block it hands out: it carries the identifier it was
    asked for, and that identifier obeys the index rule -/
theorem loadRawDelta_some {H : Bytes → Str} {id : BlockId} {o : JObj} {b : Block}
    (h : loadRawDelta H id o = some b) : b.id = id ∧ id.index = PState.nextIndex b.parents := by
  unfold loadRawDelta at h
  simp only at h
  split at h
  · cases h
  · split at h
    · cases h
    · split at h
      · cases h
      · next hidx =>
        split at h
        · cases h
        · split at h
          · cases h
          · cases h
            exact ⟨rfl, by simpa using hidx⟩

/-- **Hash gate for blocks**: a block is interpreted only if the stored bytes hash to the digest in
    its name; and it is handed out under the identifier it was asked for. -/
theorem fetch_hash_gate {H : Bytes → Str} {kv : KVSpec} {id : BlockId} {b : Block}
    (h : fetchBlock H kv id = some b) :
    (∃ bytes, kv.read id.key = some bytes ∧ H bytes = id.digest) ∧ b.id = id := by
  unfold fetchBlock at h
  split at h
  · cases h
  · next bytes hr =>
    split at h
    · cases h
    · next hh =>
      refine ⟨⟨bytes, hr, by simpa using hh⟩, ?_⟩
      split at h
      · exact (loadRawDelta_some h).1
      · cases h

/-- the index rule, at the level of `fetchBlock` -/
theorem fetch_index {H : Bytes → Str} {kv : KVSpec} {id : BlockId} {b : Block}
    (h : fetchBlock H kv id = some b) : id.index = PState.nextIndex b.parents := by
  unfold fetchBlock at h
  split at h
  · cases h
  · split at h
    · cases h
    · split at h
      · exact (loadRawDelta_some h).2
      · cases h

/-- **Hash gate for packs** -/
theorem pack_hash_gate {H : Bytes → Str} {kv : KVSpec} {name : Str} {l : List (Str × Nat × Nat)}
    (h : loadPackBytes H kv name = some l) :
    ∃ bytes, kv.read (name ++ PACK_EXT) = some bytes ∧ H bytes = name := by
  unfold loadPackBytes at h
  split at h
  · cases h
  · next bytes hr =>
    split at h
    · cases h
    · next hh => exact ⟨bytes, hr, by simpa using hh⟩

/-- **An item whose bytes do not hash to its name is never interpreted** (blocks). -/
theorem fetch_mismatch_none {H : Bytes → Str} {kv : KVSpec} {id : BlockId} {bytes : Bytes}
    (hne : H bytes ≠ id.digest) (hr : kv.read id.key = some bytes) : fetchBlock H kv id = none := by
  unfold fetchBlock
  rw [hr]
  simp [hne]

/-- **An item whose bytes do not hash to its name is never interpreted** (packs). -/
theorem pack_mismatch_none {H : Bytes → Str} {kv : KVSpec} {name : Str} {bytes : Bytes}
    (hne : H bytes ≠ name) (hr : kv.read (name ++ PACK_EXT) = some bytes) :
    loadPackBytes H kv name = none := by
  unfold loadPackBytes
  rw [hr]
  simp [hne]

/-- an absent item is never interpreted -/
theorem fetch_absent_none {H : Bytes → Str} {kv : KVSpec} {id : BlockId}
    (hr : kv.read id.key = none) : fetchBlock H kv id = none := by
  unfold fetchBlock; rw [hr]

theorem pack_absent_none {H : Bytes → Str} {kv : KVSpec} {name : Str}
    (hr : kv.read (name ++ PACK_EXT) = none) : loadPackBytes H kv name = none := by
  unfold loadPackBytes; rw [hr]

/-- `fetchBlock` only looks at the bytes stored under the key of the block -/
theorem fetch_congr {H : Bytes → Str} {kv kv' : KVSpec} {id : BlockId}
    (h : kv'.read id.key = kv.read id.key) : fetchBlock H kv' id = fetchBlock H kv id := by
  unfold fetchBlock; rw [h]

theorem pack_congr {H : Bytes → Str} {kv kv' : KVSpec} {name : Str}
    (h : kv'.read (name ++ PACK_EXT) = kv.read (name ++ PACK_EXT)) :
    loadPackBytes H kv' name = loadPackBytes H kv name := by
  unfold loadPackBytes; rw [h]

/-! ### 2. The view of any byte store is well formed -/

theorem foldl_max_spec (ps : List BlockId) (m : Nat) :
    m ≤ ps.foldl (fun m p => max m p.index) m ∧
    ∀ p ∈ ps, p.index ≤ ps.foldl (fun m p => max m p.index) m := by
  induction ps generalizing m with
  | nil => simp
  | cons q qs ih =>
    simp only [List.foldl_cons]
    obtain ⟨h1, h2⟩ := ih (max m q.index)
    refine ⟨by omega, ?_⟩
    intro p hp
    rcases List.mem_cons.mp hp with rfl | hp
    · omega
    · exact h2 p hp

/-- the index of a new block is above the index of every parent -/
theorem nextIndex_gt (ps : List BlockId) : ∀ p ∈ ps, p.index < PState.nextIndex ps := by
  intro p hp
  unfold PState.nextIndex
  have := (foldl_max_spec ps 0).2 p hp
  omega

/-- **The view of every byte store satisfies `ViewOK`** (whatever the bytes are). -/
theorem viewOf_ok (H : Bytes → Str) (kv : KVSpec) : ViewOK (viewOf H kv) where
  fetch_id := fun _ _ h => (fetch_hash_gate h).2
  parent_lt := fun id b h p hp => by
    have := fetch_index (H := H) (kv := kv) h
    rw [this]
    exact nextIndex_gt b.parents p hp

/-! ### 6. C09 ingredients -/

/-- **A block whose pack is missing (or fails its hash check) is not complete**: writing the block
    before its pack (or crashing between the two writes) leaves a block that no reader applies. -/
theorem block_without_pack_incomplete {H : Bytes → Str} {kv : KVSpec} {objs : List Str} {id : BlockId}
    {b : Block} {k : Str} (hf : (viewOf H kv).fetch id = some b) (hk : k ∈ b.packs)
    (hn : (viewOf H kv).loadPack k = none) : ¬ Complete (viewOf H kv) objs b.id := by
  have hid : b.id = id := (viewOf_ok H kv).fetch_id id b hf
  rw [hid]
  intro hc
  cases hc with
  | mk _ b' _ hf' _ hk' _ =>
    rw [hf] at hf'; cases hf'
    have := (List.all_eq_true.mp hk') k hk
    rw [hn] at this
    cases this

/-! ### 3. Growth of the byte store -/

/-- `kv'` holds at least the items of `kv`, with the same bytes -/
def _root_.Melda.KVSpec.le (kv kv' : KVSpec) : Prop := ∀ k d, kv.read k = some d → kv'.read k = some d

theorem _root_.Melda.KVSpec.le.refl (kv : KVSpec) : kv.le kv := fun _ _ h => h

theorem _root_.Melda.KVSpec.le.trans {a b c : KVSpec} (h1 : a.le b) (h2 : b.le c) : a.le c :=
  fun k d h => h2 k d (h1 k d h)

theorem le_trans {a b c : KVSpec} (h1 : a.le b) (h2 : b.le c) : a.le c := h1.trans h2

/-- **A write only adds**: every item readable before is readable after, with the same bytes. -/
theorem write_le (kv : KVSpec) (k : Str) (d : Bytes) : KVSpec.le kv (kv.write k d) := by
  intro k2 d2 h
  by_cases hk : k2 = k
  · subst hk; rw [C17.read_write_same, h]; rfl
  · rw [C17.read_write_other _ _ _ _ hk]; exact h

theorem writes_le (kv : KVSpec) (ws : List (Str × Bytes)) :
    KVSpec.le kv (ws.foldl (fun s w => s.write w.1 w.2) kv) :=
  fun k d h => C17.read_stable kv ws k d h

theorem read_mem {kv : KVSpec} {k : Str} {d : Bytes} (h : kv.read k = some d) : (k, d) ∈ kv.items := by
  unfold KVSpec.read KVSpec.get at h
  simp only [Option.map_eq_some_iff] at h
  obtain ⟨⟨k', d'⟩, hf, hd⟩ := h
  have hm := List.mem_of_find?_eq_some hf
  have hk := List.find?_some hf
  simp only [decide_eq_true_eq] at hk hd
  subst hk; subst hd; exact hm

theorem mem_read {kv : KVSpec} {k : Str} {d : Bytes} (h : (k, d) ∈ kv.items) : ∃ d', kv.read k = some d' := by
  unfold KVSpec.read KVSpec.get
  cases hf : kv.items.find? (fun p => p.1 = k) with
  | some q => exact ⟨q.2, rfl⟩
  | none =>
    have := List.find?_eq_none.mp hf (k, d) h
    simp at this

/-- a key is present iff it reads something (no invariant needed) -/
theorem present_iff_read (kv : KVSpec) (k : Str) : (∃ d, (k, d) ∈ kv.items) ↔ ∃ d, kv.read k = some d :=
  ⟨fun ⟨_, h⟩ => mem_read h, fun ⟨d, h⟩ => ⟨d, read_mem h⟩⟩

/-- listing is monotone -/
theorem list_le {kv kv' : KVSpec} (h : KVSpec.le kv kv') (ext : Str) : ∀ s ∈ kv.list ext, s ∈ kv'.list ext := by
  intro s hs
  rw [C17.mem_list_iff] at hs ⊢
  obtain ⟨v, hv⟩ := hs
  obtain ⟨d, hd⟩ := mem_read hv
  exact ⟨d, read_mem (h _ _ hd)⟩

theorem fetch_le {H : Bytes → Str} {kv kv' : KVSpec} (h : KVSpec.le kv kv') {id : BlockId} {b : Block}
    (hf : fetchBlock H kv id = some b) : fetchBlock H kv' id = some b := by
  obtain ⟨⟨bytes, hr, _⟩, _⟩ := fetch_hash_gate hf
  rw [← hf]
  apply fetch_congr
  rw [hr, h _ _ hr]

theorem pack_le {H : Bytes → Str} {kv kv' : KVSpec} (h : KVSpec.le kv kv') {n : Str} {l : List (Str × Nat × Nat)}
    (hf : loadPackBytes H kv n = some l) : loadPackBytes H kv' n = some l := by
  obtain ⟨bytes, hr, _⟩ := pack_hash_gate hf
  rw [← hf]
  apply pack_congr
  rw [hr, h _ _ hr]

/-- **MAIN: a larger byte store shows a larger view** (same blocks, same packs, more of them). -/
theorem viewOf_le {H : Bytes → Str} {kv kv' : KVSpec} (h : KVSpec.le kv kv') :
    View.le (viewOf H kv) (viewOf H kv') where
  ids := by
    intro id hid
    simp only [viewOf, List.mem_filterMap] at hid ⊢
    obtain ⟨s, hs, hp⟩ := hid
    exact ⟨s, list_le h _ s hs, hp⟩
  fetch := fun _ _ hf => fetch_le h hf
  packs := by
    intro k l hl
    simp only [viewOf, Option.map_eq_some_iff] at hl ⊢
    obtain ⟨l0, hl0, rfl⟩ := hl
    exact ⟨l0, pack_le h hl0, rfl⟩

/-- pack names stay listed too -/
theorem packNames_le {H : Bytes → Str} {kv kv' : KVSpec} (h : KVSpec.le kv kv') :
    ∀ k ∈ (viewOf H kv).packNames, k ∈ (viewOf H kv').packNames := list_le h _

/-- **Prefix monotonicity**: a block that is complete in a store is complete in every larger store
    (and with every larger object index). -/
theorem prefix_monotone {H : Bytes → Str} {kv kv' : KVSpec} (h : KVSpec.le kv kv') {objs objs' : List Str}
    (ho : ∀ d ∈ objs, d ∈ objs') {id : BlockId} (hc : Complete (viewOf H kv) objs id) :
    Complete (viewOf H kv') objs' id :=
  Complete.mono (viewOf_le h) ho hc

/-! ### 3b. Key uniqueness (`BTreeMap` keys): not needed above, but it makes `read` and `items` agree -/

/-- keys are unique -/
def WF (kv : KVSpec) : Prop := kv.items.Pairwise (fun p q => p.1 ≠ q.1)

theorem mem_insertSorted (k : Str) (v : Bytes) (l : List (Str × Bytes)) (p : Str × Bytes) :
    p ∈ KVSpec.insertSorted k v l ↔ p = (k, v) ∨ p ∈ l := by
  induction l with
  | nil => simp [KVSpec.insertSorted]
  | cons x xs ih =>
    obtain ⟨k', v'⟩ := x
    simp only [KVSpec.insertSorted]
    split
    · simp
    · simp only [List.mem_cons, ih]
      constructor
      · rintro (h | h | h)
        · exact Or.inr (Or.inl h)
        · exact Or.inl h
        · exact Or.inr (Or.inr h)
      · rintro (h | h | h)
        · exact Or.inr (Or.inl h)
        · exact Or.inl h
        · exact Or.inr (Or.inr h)

theorem pairwise_insertSorted (k : Str) (v : Bytes) (l : List (Str × Bytes))
    (hl : l.Pairwise (fun p q => p.1 ≠ q.1)) (hk : ∀ p ∈ l, p.1 ≠ k) :
    (KVSpec.insertSorted k v l).Pairwise (fun p q => p.1 ≠ q.1) := by
  induction l with
  | nil => simp [KVSpec.insertSorted]
  | cons x xs ih =>
    obtain ⟨k', v'⟩ := x
    simp only [KVSpec.insertSorted]
    rw [List.pairwise_cons] at hl
    split
    · rw [List.pairwise_cons]
      refine ⟨?_, List.pairwise_cons.mpr hl⟩
      intro q hq
      exact fun e => hk q hq e.symm
    · rw [List.pairwise_cons]
      refine ⟨?_, ih hl.2 (fun p hp => hk p (List.mem_cons_of_mem _ hp))⟩
      intro q hq
      rcases (mem_insertSorted k v xs q).mp hq with rfl | hq
      · exact hk (k', v') (by simp)
      · exact hl.1 q hq

theorem wf_empty : WF KVSpec.empty := by simp [WF, KVSpec.empty]

theorem wf_write {kv : KVSpec} (h : WF kv) (k : Str) (d : Bytes) : WF (kv.write k d) := by
  unfold KVSpec.write
  cases hg : kv.get k with
  | some _ => exact h
  | none => exact pairwise_insertSorted k d kv.items h (C17.find_none_of_get_none kv k hg)

theorem wf_writes (ws : List (Str × Bytes)) : WF (ws.foldl (fun s w => s.write w.1 w.2) KVSpec.empty) := by
  suffices ∀ kv, WF kv → WF (ws.foldl (fun s w => s.write w.1 w.2) kv) from this _ wf_empty
  induction ws with
  | nil => intro kv h; exact h
  | cons w ws ih => intro kv h; exact ih _ (wf_write h _ _)

/-- under key uniqueness, `read` returns exactly the stored pairs -/
theorem read_some_iff_mem {kv : KVSpec} (h : WF kv) (k : Str) (d : Bytes) :
    kv.read k = some d ↔ (k, d) ∈ kv.items := by
  refine ⟨read_mem, ?_⟩
  intro hm
  obtain ⟨d', hd'⟩ := mem_read hm
  have hm' := read_mem hd'
  suffices d' = d by rw [hd', this]
  unfold WF at h
  generalize kv.items = l at h hm hm'
  induction l with
  | nil => cases hm
  | cons x xs ih =>
    rw [List.pairwise_cons] at h
    rcases List.mem_cons.mp hm with e1 | h1 <;> rcases List.mem_cons.mp hm' with e2 | h2
    · rw [← e1] at e2; cases e2; rfl
    · subst e1; exact absurd rfl (h.1 (k, d') h2)
    · subst e2; exact absurd rfl (h.1 (k, d) h1)
    · exact ih h.2 h1 h2

/-! ### 4. Invisible junk (C10) -/

/-- the key without its extension (as `list_objects` strips it) -/
def stem (ext k : Str) : Str := k.take (k.length - ext.length)

/-- **A stored item is valid** when its bytes hash to what its name says: a `.delta` item must have a
    name that parses to a block identifier which renders back to this very key, and hash to its digest;
    a `.pack` item must hash to its stem; other keys are not interpreted by the replica at all. -/
def validItem (H : Bytes → Str) (k : Str) (bytes : Bytes) : Bool :=
  if KVSpec.isSuffix DELTA_EXT k then
    match BlockId.parse (stem DELTA_EXT k) with
    | some id => decide (id.key = k) && decide (H bytes = id.digest)
    | none => false
  else if KVSpec.isSuffix PACK_EXT k then decide (H bytes = stem PACK_EXT k)
  else true

theorem stem_append (ext s : Str) : stem ext (s ++ ext) = s := by simp [stem]

theorem isSuffix_append (ext s : Str) : KVSpec.isSuffix ext (s ++ ext) = true :=
  (C17.isSuffix_iff ext _).mpr ⟨s, rfl⟩

theorem not_delta_of_pack (n : Str) : KVSpec.isSuffix DELTA_EXT (n ++ PACK_EXT) = false := by
  cases h : KVSpec.isSuffix DELTA_EXT (n ++ PACK_EXT) with
  | false => rfl
  | true =>
    obtain ⟨s, hs⟩ := (C17.isSuffix_iff _ _).mp h
    have := congrArg List.reverse hs
    simp [PACK_EXT, DELTA_EXT] at this

/-- identifiers that survive a round trip through their rendered name; every identifier the replica
    ever asks for is of this kind (`parse_canonical`): identifiers come from `DeltaId::from` only -/
def Canonical (id : BlockId) : Prop := BlockId.parse id.render = some id

instance (id : BlockId) : Decidable (Canonical id) := by unfold Canonical; infer_instance

theorem spanP_fst_all (p : Char → Bool) (s : Str) : ∀ c ∈ (Rev.spanP p s).1, p c = true := by
  induction s with
  | nil => simp [Rev.spanP]
  | cons x xs ih =>
    unfold Rev.spanP
    split
    · next hx =>
      intro c hc
      simp only [List.mem_cons] at hc
      rcases hc with rfl | hc
      · exact hx
      · exact ih c hc
    · intro c hc; cases hc

theorem matchAt_render (n : Nat) (w : Str) (hw : ∀ c ∈ w, isWordChar c = true) (hne : w ≠ []) :
    BlockId.matchAt (natStr n ++ '-' :: w) = some ⟨n, w⟩ := by
  have hne1 : (natStr n).isEmpty = false := by
    have := C19.natStr_ne_nil n; cases h : natStr n; exact absurd h this; rfl
  have hne2 : w.isEmpty = false := by cases w; exact absurd rfl hne; rfl
  unfold BlockId.matchAt
  simp only [C19.spanP_digits_natStr, hne1, Bool.false_eq_true, if_false, C19.spanP_all _ w hw, hne2,
    C19.natOfDigits_natStr]

theorem matchAt_canonical {s : Str} {id : BlockId} (h : BlockId.matchAt s = some id) : Canonical id := by
  unfold BlockId.matchAt at h
  simp only at h
  split at h
  · cases h
  · split at h
    · next r' _ =>
      split at h
      · cases h
      · next hne =>
        cases h
        have hw := spanP_fst_all isWordChar r'
        generalize (Rev.spanP isWordChar r').1 = w at hw hne
        have hne' : w ≠ [] := by intro e; subst e; simp at hne
        unfold Canonical BlockId.render
        simp only
        have hm := matchAt_render (natOfDigits (Rev.spanP isDigit s).1) w hw hne'
        cases hr : natStr (natOfDigits (Rev.spanP isDigit s).1) ++ '-' :: w with
        | nil => simp at hr
        | cons c t =>
          rw [hr] at hm
          simp only [BlockId.parse, hm]
    · cases h

/-- **Every identifier produced by `DeltaId::from` is canonical.** -/
theorem parse_canonical {s : Str} {id : BlockId} (h : BlockId.parse s = some id) : Canonical id := by
  induction s with
  | nil => simp [BlockId.parse] at h
  | cons c t ih =>
    simp only [BlockId.parse] at h
    split at h
    · next b hb => cases h; exact matchAt_canonical hb
    · exact ih h

/-- a canonical identifier whose bytes pass the hash gate is a valid item -/
theorem validItem_of_gate {H : Bytes → Str} {id : BlockId} (hc : Canonical id) {bytes : Bytes}
    (hh : H bytes = id.digest) : validItem H id.key bytes = true := by
  unfold validItem
  unfold Canonical at hc
  simp only [BlockId.key, isSuffix_append, if_true, stem_append, hc]
  simp [hh]

theorem validItem_pack {H : Bytes → Str} (n : Str) (bytes : Bytes) :
    validItem H (n ++ PACK_EXT) bytes = decide (H bytes = n) := by
  unfold validItem
  simp only [not_delta_of_pack, Bool.false_eq_true, if_false, isSuffix_append, if_true, stem_append]

/-- `kv'` is `kv` plus items that are not valid (injected or corrupted files) -/
structure JunkOnly (H : Bytes → Str) (kv kv' : KVSpec) : Prop where
  le : KVSpec.le kv kv'
  junk : ∀ k bytes, kv'.read k = some bytes → kv.read k = none → validItem H k bytes = false

/-- **Invisible junk (blocks)**: adding invalid items to a store never changes what any block is
    interpreted as. The identifier must be canonical (every identifier the replica uses is:
    `parse_canonical`; the statement is false otherwise: `fetch_ignores_invalid_needs_canonical`). -/
theorem fetch_ignores_invalid {H : Bytes → Str} {kv kv' : KVSpec} (h : JunkOnly H kv kv')
    (id : BlockId) (hc : Canonical id) : fetchBlock H kv' id = fetchBlock H kv id := by
  cases hr : kv.read id.key with
  | some bytes => exact fetch_congr (by rw [hr, h.le _ _ hr])
  | none =>
    rw [fetch_absent_none hr]
    cases hr' : kv'.read id.key with
    | none => exact fetch_absent_none hr'
    | some bytes =>
      have hj := h.junk _ _ hr' hr
      apply fetch_mismatch_none _ hr'
      intro hh
      rw [validItem_of_gate hc hh] at hj
      cases hj

/-- **Invisible junk (packs)**: adding invalid items never changes what any pack is interpreted as. -/
theorem pack_ignores_invalid {H : Bytes → Str} {kv kv' : KVSpec} (h : JunkOnly H kv kv')
    (n : Str) : loadPackBytes H kv' n = loadPackBytes H kv n := by
  cases hr : kv.read (n ++ PACK_EXT) with
  | some bytes => exact pack_congr (by rw [hr, h.le _ _ hr])
  | none =>
    rw [pack_absent_none hr]
    cases hr' : kv'.read (n ++ PACK_EXT) with
    | none => exact pack_absent_none hr'
    | some bytes =>
      have hj := h.junk _ _ hr' hr
      apply pack_mismatch_none _ hr'
      intro hh
      rw [validItem_pack, hh] at hj
      simp at hj

/-- for every identifier the view lists, junk is invisible -/
theorem view_fetch_ignores_invalid {H : Bytes → Str} {kv kv' : KVSpec} (h : JunkOnly H kv kv')
    (id : BlockId) (hid : id ∈ (viewOf H kv').blockIds) :
    (viewOf H kv').fetch id = (viewOf H kv).fetch id := by
  simp only [viewOf, List.mem_filterMap] at hid
  obtain ⟨s, _, hp⟩ := hid
  exact fetch_ignores_invalid h id (parse_canonical hp)

theorem view_loadPack_ignores_invalid {H : Bytes → Str} {kv kv' : KVSpec} (h : JunkOnly H kv kv')
    (n : Str) : (viewOf H kv').loadPack n = (viewOf H kv).loadPack n := by
  simp only [viewOf, pack_ignores_invalid h n]

/-
  Remark (no theorem): junk may still be *listed*. A listed `.pack` item that fails the hash gate makes
  `PState.loadPacks` return `none`, i.e. `reload`/`refresh` report `PErr.storage`; the property allows
  this ("either reports an error or ignores the item"). A listed junk `.delta` item is fetched to `none`
  and skipped by `loadFold`.
-/

/-! ### 5. C11: content-addressed names -/

/-- **The name under which bytes pass the gate is determined by the bytes**: the digest part of the
    identifier is the hash of the stored bytes. -/
theorem commit_names {H : Bytes → Str} {kv : KVSpec} {id : BlockId} {b : Block}
    (h : fetchBlock H kv id = some b) : ∃ bytes, kv.read id.key = some bytes ∧ id.digest = H bytes := by
  obtain ⟨⟨bytes, hr, hh⟩, _⟩ := fetch_hash_gate h
  exact ⟨bytes, hr, hh.symm⟩

/-- collision-freedom of the hash on a set of byte strings -/
def InjOn (H : Bytes → Str) (S : Bytes → Prop) : Prop := ∀ a b, S a → S b → H a = H b → a = b

/-- **No write conflict**: absent hash collisions, two valid items with the same (interpreted) key
    hold the same bytes — so "first write wins" never loses information between honest writers. -/
theorem no_write_conflict {H : Bytes → Str} {S : Bytes → Prop} (hinj : InjOn H S) {k : Str} {b₁ b₂ : Bytes}
    (h1 : validItem H k b₁ = true) (h2 : validItem H k b₂ = true) (s1 : S b₁) (s2 : S b₂)
    (hk : KVSpec.isSuffix DELTA_EXT k = true ∨ KVSpec.isSuffix PACK_EXT k = true) : b₁ = b₂ := by
  apply hinj b₁ b₂ s1 s2
  unfold validItem at h1 h2
  by_cases hd : KVSpec.isSuffix DELTA_EXT k = true
  · simp only [hd, if_true] at h1 h2
    cases hp : BlockId.parse (stem DELTA_EXT k) with
    | none => rw [hp] at h1; cases h1
    | some id =>
      rw [hp] at h1 h2
      simp only [Bool.and_eq_true, decide_eq_true_eq] at h1 h2
      rw [h1.2, h2.2]
  · have hp : KVSpec.isSuffix PACK_EXT k = true := by
      rcases hk with hk | hk
      · exact absurd hk hd
      · exact hk
    simp only [hd, hp, if_true, Bool.false_eq_true, if_false, decide_eq_true_eq] at h1 h2
    rw [h1, h2]

/-! ### 5b. The whole name is a function of the bytes; parents are canonical -/

/-- the parent set `load_raw_delta` reads out of a block object (independent of the identifier) -/
def parentsOf (o : JObj) : Option (List BlockId) :=
  match objGet ['p'] o with
  | none => some []
  | some (.arr ps) =>
    match strArr? ps with
    | none => none
    | some ss => ss.foldl (fun acc s => match acc, BlockId.parse s with
        | some l, some b => some (insertSet BlockId.lt b l)
        | _, _ => none) (some [])
  | some _ => none

theorem loadRawDelta_parents {H : Bytes → Str} {id : BlockId} {o : JObj} {b : Block}
    (h : loadRawDelta H id o = some b) : parentsOf o = some b.parents := by
  unfold loadRawDelta at h
  simp only at h
  split at h
  · cases h
  · split at h
    · cases h
    · next parents hpar =>
      split at h
      · cases h
      · split at h
        · cases h
        · split at h
          · cases h
          · cases h
            exact hpar

theorem mem_insertSet {α : Type} [DecidableEq α] (lt : α → α → Bool) (x y : α) (l : List α) :
    y ∈ insertSet lt x l → y = x ∨ y ∈ l := by
  induction l with
  | nil => simp [insertSet]
  | cons z zs ih =>
    simp only [insertSet]
    split
    · exact Or.inr
    · split
      · intro h; simpa using h
      · intro h
        rcases List.mem_cons.mp h with h | h
        · exact Or.inr (by simp [h])
        · rcases ih h with h | h
          · exact Or.inl h
          · exact Or.inr (List.mem_cons_of_mem _ h)

theorem parents_fold_canonical (ss : List Str) (acc : Option (List BlockId)) (l : List BlockId)
    (hacc : ∀ l0, acc = some l0 → ∀ p ∈ l0, Canonical p)
    (h : ss.foldl (fun acc s => match acc, BlockId.parse s with
        | some l, some b => some (insertSet BlockId.lt b l)
        | _, _ => none) acc = some l) : ∀ p ∈ l, Canonical p := by
  induction ss generalizing acc with
  | nil => simp only [List.foldl_nil] at h; exact hacc l h
  | cons s ss ih =>
    simp only [List.foldl_cons] at h
    refine ih _ ?_ h
    intro l0 hl0 p hp
    split at hl0
    · next l1 b hb =>
      cases hl0
      rcases mem_insertSet _ _ _ _ hp with rfl | hp
      · exact parse_canonical hb
      · exact hacc l1 rfl p hp
    · cases hl0

theorem parentsOf_canonical {o : JObj} {ps : List BlockId} (h : parentsOf o = some ps) :
    ∀ p ∈ ps, Canonical p := by
  unfold parentsOf at h
  split at h
  · cases h; intro p hp; cases hp
  · split at h
    · cases h
    · exact parents_fold_canonical _ _ _ (by intro l0 e; cases e; intro p hp; cases hp) h
  · cases h

/-- **Every parent named by a block that passed the gate is canonical**: together with
    `parse_canonical` for listed identifiers, the replica only ever fetches canonical identifiers. -/
theorem fetch_parents_canonical {H : Bytes → Str} {kv : KVSpec} {id : BlockId} {b : Block}
    (h : fetchBlock H kv id = some b) : ∀ p ∈ b.parents, Canonical p := by
  unfold fetchBlock at h
  split at h
  · cases h
  · split at h
    · cases h
    · split at h
      · exact parentsOf_canonical (loadRawDelta_parents h)
      · cases h

/-- **C11: the full name is determined by the bytes.** If the same bytes pass the gate under two
    identifiers (in any two stores), the identifiers are equal: the digest is the hash of the bytes and
    the index is one more than the highest parent index written in the bytes. -/
theorem commit_name_unique {H : Bytes → Str} {kv kv' : KVSpec} {id id' : BlockId} {b b' : Block} {bytes : Bytes}
    (hr : kv.read id.key = some bytes) (hr' : kv'.read id'.key = some bytes)
    (h : fetchBlock H kv id = some b) (h' : fetchBlock H kv' id' = some b') : id = id' := by
  have hi := fetch_index h
  have hi' := fetch_index h'
  unfold fetchBlock at h h'
  rw [hr] at h; rw [hr'] at h'
  simp only at h h'
  split at h
  · cases h
  · next hd =>
    split at h'
    · cases h'
    · next hd' =>
      split at h
      · next o ho =>
        rw [ho] at h'
        simp only at h'
        have hp := loadRawDelta_parents h
        have hp' := loadRawDelta_parents h'
        rw [hp] at hp'
        have hpe : b.parents = b'.parents := Option.some.inj hp'
        have e1 : id.digest = id'.digest := by
          have a : H bytes = id.digest := by simpa using hd
          have b : H bytes = id'.digest := by simpa using hd'
          rw [← a, ← b]
        have e2 : id.index = id'.index := by rw [hi, hi', hpe]
        cases id; cases id'; simp only at e1 e2; rw [e1, e2]
      · cases h

/-! ### Non-vacuity -/

section Examples

/-- a toy hash: the decimal length of the input, prefixed with `h` -/
def Hlen (b : Bytes) : Str := 'h' :: natStr b.length

def kv0 : KVSpec := KVSpec.empty.write "1-h2.delta".toList (utf8 "{}".toList)

/-- the gate lets a well-named block through … -/
example : (fetchBlock Hlen kv0 ⟨1, "h2".toList⟩).map (·.id) = some ⟨1, "h2".toList⟩ := by decide +kernel
/-- … and not a block whose bytes do not hash to its name -/
example : fetchBlock Hlen (KVSpec.empty.write "1-h3.delta".toList (utf8 "{}".toList)) ⟨1, "h3".toList⟩ = none := by
  decide +kernel
/-- … nor a block violating the index rule -/
example : fetchBlock Hlen (KVSpec.empty.write "2-h2.delta".toList (utf8 "{}".toList)) ⟨2, "h2".toList⟩ = none := by
  decide +kernel

example : Canonical ⟨1, "h2".toList⟩ := by decide +kernel
example : ¬ Canonical ⟨1, "a.b".toList⟩ := by decide +kernel
example : WF kv0 := wf_write wf_empty _ _
example : KVSpec.le KVSpec.empty kv0 := write_le _ _ _
example : (viewOf Hlen kv0).blockIds = [⟨1, "h2".toList⟩] := by decide +kernel
example : validItem Hlen "1-h2.delta".toList (utf8 "{}".toList) = true := by decide +kernel
example : validItem Hlen "1-h3.delta".toList (utf8 "{}".toList) = false := by decide +kernel
example : validItem Hlen "h3.pack".toList [1, 2, 3] = true := by decide +kernel
example : validItem Hlen "h4.pack".toList [1, 2, 3] = false := by decide +kernel

theorem empty_read (k : Str) : KVSpec.empty.read k = none := rfl

/-- `JunkOnly` is satisfiable non-trivially: a corrupted pack and a misnamed block are junk -/
example : JunkOnly Hlen kv0 ((kv0.write "h9.pack".toList [1, 2, 3]).write "1-h7.delta".toList (utf8 "{}".toList)) where
  le := (write_le _ _ _).trans (write_le _ _ _)
  junk := by
    intro k bytes hr hn
    by_cases h1 : k = "1-h7.delta".toList
    · subst h1
      rw [C17.read_write_same] at hr
      have e : ((kv0.write "h9.pack".toList [1, 2, 3]).read "1-h7.delta".toList) = none := by decide +kernel
      rw [e] at hr
      cases hr
      decide +kernel
    · rw [C17.read_write_other _ _ _ _ h1] at hr
      by_cases h2 : k = "h9.pack".toList
      · subst h2
        rw [C17.read_write_same] at hr
        have e : kv0.read "h9.pack".toList = none := by decide +kernel
        rw [e] at hr
        cases hr
        decide +kernel
      · rw [C17.read_write_other _ _ _ _ h2, hn] at hr; cases hr

/-- `InjOn` is satisfiable: `Hlen` is injective on `{[], [0]}` (and not on all byte strings) -/
example : InjOn Hlen (fun b => b = [] ∨ b = [0]) := by
  intro a b ha hb h
  rcases ha with rfl | rfl <;> rcases hb with rfl | rfl <;> first | rfl | (revert h; decide)

/-- a block naming a pack that is not there -/
def kv1 : KVSpec := KVSpec.empty.write "1-h12.delta".toList (utf8 "{\"k\":[\"zz\"]}".toList)
example : ((viewOf Hlen kv1).fetch ⟨1, "h12".toList⟩).map (·.packs) = some ["zz".toList] := by decide +kernel
example : (viewOf Hlen kv1).loadPack "zz".toList = none := by decide +kernel

/-- `block_without_pack_incomplete` applies to `kv1`: the block is there and passes the gate, its pack
    is not, so it is not complete whatever the object index is -/
example (objs : List Str) : ¬ Complete (viewOf Hlen kv1) objs ⟨1, "h12".toList⟩ := by
  have hs : ((viewOf Hlen kv1).fetch ⟨1, "h12".toList⟩).map (·.packs) = some ["zz".toList] := by
    decide +kernel
  cases hf : (viewOf Hlen kv1).fetch ⟨1, "h12".toList⟩ with
  | none => rw [hf] at hs; cases hs
  | some b =>
    rw [hf] at hs
    have hp : b.packs = ["zz".toList] := by simpa using hs
    have := block_without_pack_incomplete (objs := objs) hf (k := "zz".toList) (by rw [hp]; simp)
      (by decide +kernel)
    rwa [(viewOf_ok _ _).fetch_id _ _ hf] at this

/-- `Complete` is inhabited at the byte level (so `prefix_monotone` is not vacuous) -/
example : Complete (viewOf Hlen kv0) [] ⟨1, "h2".toList⟩ := by
  have hs : ((viewOf Hlen kv0).fetch ⟨1, "h2".toList⟩).map (fun b => (b.parents, b.packs, b.changes))
      = some ([], [], []) := by decide +kernel
  cases hf : (viewOf Hlen kv0).fetch ⟨1, "h2".toList⟩ with
  | none => rw [hf] at hs; cases hs
  | some b =>
    rw [hf] at hs
    simp only [Option.map_some, Option.some.injEq, Prod.mk.injEq] at hs
    obtain ⟨h1, h2, h3⟩ := hs
    refine Complete.mk _ b (by decide +kernel) hf ?_ ?_ ?_
    · rw [h1]; intro p hp; cases hp
    · rw [h2]; rfl
    · rw [h3]; rfl

end Examples

/-! ### The canonicity hypothesis of `fetch_ignores_invalid` cannot be dropped -/

/-- With a hash whose output is not a word (here the constant `a.b`), the identifier `1-a.b` is not
    canonical (`DeltaId::from("1-a.b")` is `1-a`); the item `1-a.b.delta` is *not* valid according to
    `validItem` (its name does not round-trip) and yet `fetchBlock` asked for `⟨1, "a.b"⟩` interprets it.
    So `fetch_ignores_invalid` is false for non-canonical identifiers. The replica never asks for one
    (`parse_canonical`, `fetch_parents_canonical`), and a hex-producing hash never yields one. -/
theorem fetch_ignores_invalid_needs_canonical :
    ∃ (H : Bytes → Str) (kv kv' : KVSpec) (id : BlockId),
      JunkOnly H kv kv' ∧ fetchBlock H kv' id ≠ fetchBlock H kv id := by
  refine ⟨fun _ => "a.b".toList, KVSpec.empty, KVSpec.empty.write "1-a.b.delta".toList (utf8 "{}".toList),
    ⟨1, "a.b".toList⟩, ⟨write_le _ _ _, ?_⟩, ?_⟩
  · intro k bytes hr _
    by_cases h1 : k = "1-a.b.delta".toList
    · subst h1; rfl
    · rw [C17.read_write_other _ _ _ _ h1] at hr; cases hr
  · intro h
    have a : (fetchBlock (fun _ => "a.b".toList)
        (KVSpec.empty.write "1-a.b.delta".toList (utf8 "{}".toList)) ⟨1, "a.b".toList⟩).isSome = true := by
      decide +kernel
    rw [h] at a
    exact absurd a (by decide +kernel)

end Melda.Props.C10
