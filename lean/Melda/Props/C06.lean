/-
  C06 — concurrent edits of a flattened array merge without loss or duplication.
  Theorems about `Melda.mergeArrays` (the transcription of `utils::merge_arrays`), for all lists.
-/
import Melda.Merge
namespace Melda.Props.C06
open Melda

variable {α : Type} [DecidableEq α]

theorem idxOf?_some_lt {t : α} {l : List α} {p : Nat} (h : idxOf? t l = some p) : p < l.length := by
  induction l generalizing p with
  | nil => simp [idxOf?] at h
  | cons x xs ih =>
    simp only [idxOf?] at h
    split at h
    · cases h; simp
    · cases hx : idxOf? t xs with
      | none => simp [hx] at h
      | some q => simp [hx] at h; subst h; have := ih hx; simp; omega

theorem idxOf?_none_iff {t : α} {l : List α} : idxOf? t l = none ↔ t ∉ l := by
  induction l with
  | nil => simp [idxOf?]
  | cons x xs ih =>
    simp only [idxOf?]
    split
    · next h => subst h; simp
    · next h =>
      cases hx : idxOf? t xs with
      | none => simp [ih.mp hx]; exact fun e => h e.symm
      | some q =>
        simp
        intro _
        exact Classical.byContradiction (fun hn => by rw [ih.mpr hn] at hx; cases hx)

/-- invariant of the second loop: the insertion index never exceeds the length (no `Vec::insert` panic) -/
theorem mergeLoop_mem (m : List α) (cur pivot ins : Nat) (n : List α) (hins : ins < n.length) (x : α) :
    x ∈ mergeLoop m cur pivot ins n ↔ x ∈ m ∨ x ∈ n := by
  induction m generalizing cur pivot ins n with
  | nil => simp [mergeLoop]
  | cons t ts ih =>
    simp only [mergeLoop]
    cases hp : idxOf? t n with
    | some p =>
      simp only
      rw [ih _ _ _ _ (idxOf?_some_lt hp)]
      have : t ∈ n := by
        apply Classical.byContradiction; intro hn; rw [idxOf?_none_iff.mpr hn] at hp; cases hp
      constructor
      · rintro (h | h); exact Or.inl (List.mem_cons_of_mem _ h); exact Or.inr h
      · rintro (h | h)
        · rcases List.mem_cons.mp h with rfl | h; exact Or.inr this; exact Or.inl h
        · exact Or.inr h
    | none =>
      simp only
      split
      · rw [ih _ _ _ _ (by simp [insertAt, List.length_insertIdx]; split <;> omega)]
        simp [insertAt, List.mem_insertIdx (Nat.le_of_lt hins)]
        constructor
        · rintro (h | h | h); exact Or.inl (Or.inr h); exact Or.inl (Or.inl h); exact Or.inr h
        · rintro ((h | h) | h); exact Or.inr (Or.inl h); exact Or.inl h; exact Or.inr (Or.inr h)
      · rw [ih _ _ _ _ (by simp [insertAt, List.length_insertIdx]; split <;> omega)]
        simp [insertAt, List.mem_insertIdx (Nat.succ_le_of_lt hins)]
        constructor
        · rintro (h | h | h); exact Or.inl (Or.inr h); exact Or.inl (Or.inl h); exact Or.inr h
        · rintro ((h | h) | h); exact Or.inr (Or.inl h); exact Or.inl h; exact Or.inr (Or.inr h)

theorem findPivot_lt (n m : List α) (piv : Nat) (hn : n ≠ []) : (findPivot n m piv).1 < n.length := by
  induction m generalizing piv with
  | nil => simp [findPivot]; exact List.length_pos_iff.mpr hn
  | cons t ts ih =>
    simp only [findPivot]
    cases hp : idxOf? t n with
    | some p => exact idxOf?_some_lt hp
    | none => exact ih _

/-- **No loss, no invention**: the merge contains exactly the elements of either version. -/
theorem mem_merge (m n : List α) (x : α) : x ∈ mergeArrays m n ↔ x ∈ m ∨ x ∈ n := by
  unfold mergeArrays
  split
  · next h => simp [List.isEmpty_iff.mp h]
  · split
    · next _ h => simp [List.isEmpty_iff.mp h]
    · next hn _ =>
      have hn' : n ≠ [] := by intro e; simp [e] at hn
      exact mergeLoop_mem m 0 _ _ n (findPivot_lt n m 0 hn') x

theorem sublist_insertIdx' (l : List α) (i : Nat) (a : α) : l.Sublist (l.insertIdx i a) := by
  induction l generalizing i with
  | nil => cases i <;> simp [List.insertIdx]
  | cons x xs ih =>
    cases i with
    | zero => simp [List.insertIdx]
    | succ j => simp only [List.insertIdx_succ_cons]; exact (ih j).cons₂ x

theorem nodup_insertIdx' (l : List α) (i : Nat) (a : α) (hl : l.Nodup) (ha : a ∉ l) : (l.insertIdx i a).Nodup := by
  induction l generalizing i with
  | nil => cases i <;> simp [List.insertIdx]
  | cons x xs ih =>
    cases i with
    | zero => simp [List.insertIdx]; exact ⟨by simpa using ha, by simpa using hl⟩
    | succ j =>
      simp only [List.insertIdx_succ_cons]
      have hx : x ∉ xs := (List.nodup_cons.mp hl).1
      have hxs : xs.Nodup := (List.nodup_cons.mp hl).2
      have ha' : a ∉ xs := fun h => ha (List.mem_cons_of_mem _ h)
      have hax : a ≠ x := fun e => ha (by simp [e])
      refine List.nodup_cons.mpr ⟨?_, ih j hxs ha'⟩
      intro hmem
      by_cases hj : j ≤ xs.length
      · rcases (List.mem_insertIdx hj).mp hmem with h | h
        · exact hax h.symm
        · exact hx h
      · rw [List.insertIdx_of_length_lt (by omega)] at hmem; exact hx hmem

theorem mergeLoop_sublist (m : List α) (cur pivot ins : Nat) (n : List α) :
    n.Sublist (mergeLoop m cur pivot ins n) := by
  induction m generalizing cur pivot ins n with
  | nil => simp [mergeLoop]
  | cons t ts ih =>
    simp only [mergeLoop]
    cases hp : idxOf? t n with
    | some p => exact ih _ _ _ _
    | none =>
      simp only
      split
      · exact (sublist_insertIdx' n ins t).trans (ih _ _ _ _)
      · exact (sublist_insertIdx' n (ins + 1) t).trans (ih _ _ _ _)

/-- **The winning (target) version keeps its relative order**: `n` is a subsequence of the merge. -/
theorem sublist_merge (m n : List α) : n.Sublist (mergeArrays m n) := by
  unfold mergeArrays
  split
  · next h => simp [List.isEmpty_iff.mp h]
  · split
    · exact List.Sublist.refl _
    · exact mergeLoop_sublist m 0 _ _ n

theorem mergeLoop_nodup (m : List α) (cur pivot ins : Nat) (n : List α) (hn : n.Nodup) :
    (mergeLoop m cur pivot ins n).Nodup := by
  induction m generalizing cur pivot ins n with
  | nil => simpa [mergeLoop]
  | cons t ts ih =>
    simp only [mergeLoop]
    cases hp : idxOf? t n with
    | some p => exact ih _ _ _ _ hn
    | none =>
      have ht : t ∉ n := idxOf?_none_iff.mp hp
      simp only
      split
      · exact ih _ _ _ _ (nodup_insertIdx' n ins t hn ht)
      · exact ih _ _ _ _ (nodup_insertIdx' n (ins + 1) t hn ht)

/-- **No duplication**: merging any sequence into a duplicate-free one stays duplicate-free
    (when the target is empty the source is copied, so it must be duplicate-free itself). -/
theorem nodup_merge (m n : List α) (hm : m.Nodup) (hn : n.Nodup) : (mergeArrays m n).Nodup := by
  unfold mergeArrays
  split
  · exact hm
  · split
    · exact hn
    · exact mergeLoop_nodup m 0 _ _ n hn

theorem mergeLoop_absorb (m : List α) (cur pivot ins : Nat) (n : List α) (h : ∀ x ∈ m, x ∈ n) :
    mergeLoop m cur pivot ins n = n := by
  induction m generalizing cur pivot ins with
  | nil => simp [mergeLoop]
  | cons t ts ih =>
    simp only [mergeLoop]
    cases hp : idxOf? t n with
    | some p => exact ih _ _ _ (fun x hx => h x (List.mem_cons_of_mem _ hx))
    | none => exact absurd (h t (by simp)) (idxOf?_none_iff.mp hp)

/-- **Absorption**: a version all of whose elements are already present changes nothing
    (used for C12: snapshots and automatic resolutions do not change the visible array). -/
theorem merge_absorb (m n : List α) (hn : n ≠ []) (h : ∀ x ∈ m, x ∈ n) : mergeArrays m n = n := by
  unfold mergeArrays
  split
  · next he => exact absurd (List.isEmpty_iff.mp he) hn
  · split
    · rfl
    · exact mergeLoop_absorb m 0 _ _ n h

/-- the fold over any number of concurrent versions (`get_merged_order_at_revision`) -/
def mergedOrder (base : List α) (leaves : List (List α)) : List α :=
  leaves.foldl (fun acc l => mergeArrays l acc) base

theorem mem_mergedOrder (base : List α) (leaves : List (List α)) (x : α) :
    x ∈ mergedOrder base leaves ↔ x ∈ base ∨ ∃ l ∈ leaves, x ∈ l := by
  induction leaves generalizing base with
  | nil => simp [mergedOrder]
  | cons l ls ih =>
    simp only [mergedOrder, List.foldl_cons]
    have := ih (mergeArrays l base)
    simp only [mergedOrder] at this
    rw [this, mem_merge]
    simp only [List.mem_cons, exists_eq_or_imp]
    constructor
    · rintro ((h | h) | h); exact Or.inr (Or.inl h); exact Or.inl h; exact Or.inr (Or.inr h)
    · rintro (h | h | h); exact Or.inl (Or.inr h); exact Or.inl (Or.inl h); exact Or.inr h

theorem nodup_mergedOrder (base : List α) (leaves : List (List α)) (hb : base.Nodup)
    (hl : ∀ l ∈ leaves, l.Nodup) : (mergedOrder base leaves).Nodup := by
  induction leaves generalizing base with
  | nil => simpa [mergedOrder]
  | cons l ls ih =>
    simp only [mergedOrder, List.foldl_cons]
    exact ih _ (nodup_merge l base (hl l (by simp)) hb) (fun l' h => hl l' (List.mem_cons_of_mem _ h))

theorem sublist_mergedOrder (base : List α) (leaves : List (List α)) :
    base.Sublist (mergedOrder base leaves) := by
  induction leaves generalizing base with
  | nil => simp [mergedOrder]
  | cons l ls ih =>
    simp only [mergedOrder, List.foldl_cons]
    exact (sublist_merge l base).trans (ih _)

/-- non-vacuity: a concrete concurrent edit -/
example : mergeArrays [1, 9, 2, 3] [1, 2, 8, 3] = [1, 9, 2, 8, 3] := by decide

end Melda.Props.C06
