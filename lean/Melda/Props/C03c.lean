/-
  C03 ("for every JSON content"), the nesting clause.  The serialiser writes any depth, the parser reads
  less than 128 levels (`parseJsonLim`), and the library therefore refuses deep values at its entry points
  (`is_too_deep`, more than 100 levels).  This file shows that the guards are placed so that
    * flattening never makes anything deeper (`flatten_depth`): after `update`'s guard on the document, the
      guard inside each `update_object` call it makes cannot fire (`update_inner_guards_pass`) - which is
      why `DState.update` may call the unguarded `updateObject`, and why a refused `update` is refused as a
      whole, before anything is staged (`updateG_refused_unchanged`);
    * every object `update` stages reads back from its stored bytes (`update_objects_read_back`);
    * the block a guarded commit writes is below the limit (`C11.toJson_below_limit`, used by
      `C11.block_roundtrip`), while WITHOUT the guard a commit with information nested 127 levels or more
      writes a block no replica can load again (`unguarded_commit_block_lost` - the defect D21).
-/
import Melda.Props.C11
namespace Melda.Props.C03c
open Melda Melda.Props.JsonRT Melda.Props.Depth

/-! ### Flattening never increases the depth -/

mutual
theorem flatten_depth (H : Bytes → Str) : ∀ (v : JVal) (c : JObj) (path : List Str) (c' : JObj) (v' : JVal) (n : Nat),
    flatten H c v path = .ok (c', v') → JVal.depthO c ≤ n → v.depth ≤ n →
    JVal.depthO c' ≤ n ∧ v'.depth ≤ v.depth
  | .null, c, path, c', v', n, h, hc, _ => by simp [flatten] at h; obtain ⟨rfl, rfl⟩ := h; exact ⟨hc, Nat.le_refl _⟩
  | .bool _, c, path, c', v', n, h, hc, _ => by simp [flatten] at h; obtain ⟨rfl, rfl⟩ := h; exact ⟨hc, Nat.le_refl _⟩
  | .num _, c, path, c', v', n, h, hc, _ => by simp [flatten] at h; obtain ⟨rfl, rfl⟩ := h; exact ⟨hc, Nat.le_refl _⟩
  | .str _, c, path, c', v', n, h, hc, _ => by
    simp [flatten] at h; obtain ⟨rfl, rfl⟩ := h; exact ⟨hc, by simp [JVal.depth]⟩
  | .arr l, c, path, c', v', n, h, hc, hv => by
    simp only [flatten] at h
    split at h
    · next c1 l1 hl =>
      simp only [JVal.depth] at hv
      have := flattenList_depth H l c path c1 l1 n hl hc (by omega)
      cases h
      simp only [JVal.depth]
      exact ⟨this.1, by omega⟩
    · cases h
  | .obj o, c, path, c', v', n, h, hc, hv => by
    simp only [flatten] at h
    split at h
    · cases h
    · next uuid _ =>
      split at h
      · cases h
      · next c1 fields hf =>
        simp only [JVal.depth] at hv
        have ih := flattenFields_depth H o c uuid (path ++ [uuid]) c1 fields n hf hc hv
        have h1 := depthO_objInsert_le uuid (.obj (objOfList fields)) c1
        have h2 := depthO_objOfList_le fields
        simp only [JVal.depth] at h1
        cases h
        simp only [JVal.depth]
        refine ⟨?_, by omega⟩
        omega
theorem flattenList_depth (H : Bytes → Str) : ∀ (l : List JVal) (c : JObj) (path : List Str) (c' : JObj) (l' : List JVal) (n : Nat),
    flattenList H c l path = .ok (c', l') → JVal.depthO c ≤ n → JVal.depthL l ≤ n →
    JVal.depthO c' ≤ n ∧ JVal.depthL l' ≤ JVal.depthL l
  | [], c, path, c', l', n, h, hc, _ => by simp [flattenList] at h; obtain ⟨rfl, rfl⟩ := h; exact ⟨hc, Nat.le_refl _⟩
  | v :: t, c, path, c', l', n, h, hc, hl => by
    simp only [flattenList] at h
    simp only [JVal.depthL] at hl
    split at h
    · cases h
    · next c1 v1 hv =>
      split at h
      · cases h
      · next c2 t1 ht =>
        have i1 := flatten_depth H v c path c1 v1 n hv hc (by omega)
        have i2 := flattenList_depth H t c1 path c2 t1 n ht i1.1 (by omega)
        cases h
        simp only [JVal.depthL]
        exact ⟨i2.1, by omega⟩
theorem flattenFields_depth (H : Bytes → Str) : ∀ (o c : JObj) (uuid : Str) (fpath : List Str) (c' : JObj)
    (fields : List (Str × JVal)) (n : Nat),
    flattenFields H c o uuid fpath = .ok (c', fields) → JVal.depthO c ≤ n → JVal.depthO o + 1 ≤ n →
    JVal.depthO c' ≤ n ∧ JVal.depthO fields ≤ JVal.depthO o
  | [], c, uuid, fpath, c', fields, n, h, hc, _ => by
    simp [flattenFields] at h; obtain ⟨rfl, rfl⟩ := h; exact ⟨hc, Nat.le_refl _⟩
  | (k, v) :: t, c, uuid, fpath, c', fields, n, h, hc, ho => by
    simp only [JVal.depthO] at ho
    unfold flattenFields at h
    split at h
    · have := flattenFields_depth H t c uuid fpath c' fields n h hc (by omega)
      simp only [JVal.depthO]
      exact ⟨this.1, by omega⟩
    · split at h
      · split at h
        · cases h
        · next c1 fl hfl =>
          have i1 := flatten_depth H v c (fpath ++ [k]) c1 fl n hfl hc (by omega)
          cases fl with
          | arr l2 =>
            simp only at h
            split at h
            · cases h
            · next c3 t' ht =>
              have hd := depthO_objInsert_le ('^' :: (uuid ++ '@' :: k)) (.obj [(ORDER_FIELD, .arr l2)]) c1
              have i12 := i1.2
              simp only [JVal.depth, JVal.depthO] at hd i12
              have i2 := flattenFields_depth H t _ uuid fpath c3 t' n ht (by omega) (by omega)
              cases h
              simp only [JVal.depthO, JVal.depth]
              exact ⟨i2.1, by omega⟩
          | null | bool _ | num _ | str _ | obj _ =>
            simp only at h
            split at h
            · cases h
            · next c3 t' ht =>
              have i2 := flattenFields_depth H t c1 uuid fpath c3 t' n ht i1.1 (by omega)
              have i12 := i1.2
              cases h
              simp only [JVal.depthO]
              exact ⟨i2.1, by omega⟩
      · split at h
        · cases h
        · next c3 t' ht =>
          have i2 := flattenFields_depth H t c uuid fpath c3 t' n ht hc (by omega)
          cases h
          simp only [JVal.depthO]
          exact ⟨i2.1, by omega⟩
end

/-- **every object in the pool `update` builds is at most as deep as the submitted document** -/
theorem flatten_pool_depth (H : Bytes → Str) (doc : JObj) {pool : JObj} {root : JVal}
    (h : flatten H [] (.obj doc) [] = .ok (pool, root)) :
    ∀ p ∈ pool, p.2.depth ≤ (JVal.obj doc).depth := by
  have := (flatten_depth H (.obj doc) [] [] pool root (JVal.obj doc).depth h (by simp [JVal.depthO]) (Nat.le_refl _)).1
  exact (depthO_le_iff pool _).mp this

/-- **the guards `update` passes again for each object cannot fire**: once the document has passed
    `is_too_deep`, so does every object it is flattened into (array descriptors included) -/
theorem update_inner_guards_pass (H : Bytes → Str) (doc : JObj) (hg : isTooDeep doc = false)
    {pool : JObj} {root : JVal} (h : flatten H [] (.obj doc) [] = .ok (pool, root)) :
    ∀ u o, (u, JVal.obj o) ∈ pool → isTooDeep o = false := by
  intro u o hm
  rw [isTooDeep_false_iff] at hg ⊢
  have := flatten_pool_depth H doc h (u, .obj o) hm
  exact Nat.le_trans this hg

/-- hence, inside `update`, the guarded and the unguarded `update_object` are the same function -/
theorem updateObjectG_eq_in_update (H : Bytes → Str) (src : Src) (doc : JObj) (hg : isTooDeep doc = false)
    {pool : JObj} {root : JVal} (h : flatten H [] (.obj doc) [] = .ok (pool, root))
    (st : DState) (u : Str) (o : JObj) (hm : (u, JVal.obj o) ∈ pool) :
    DState.updateObjectG H src st u o = DState.updateObject H src st u o := by
  simp [DState.updateObjectG, update_inner_guards_pass H doc hg h u o hm]

/-- **every object `update` hands to the store reads back from its stored bytes** (canonical content assumed:
    `Canon` = sorted keys and number tokens as `serde_json` prints them) -/
theorem update_objects_read_back (H : Bytes → Str) (doc : JObj) (hg : isTooDeep doc = false)
    {pool : JObj} {root : JVal} (h : flatten H [] (.obj doc) [] = .ok (pool, root))
    (u : Str) (o : JObj) (hm : (u, JVal.obj o) ∈ pool) (hc : Canon (.obj o)) :
    parseJsonBytes (JVal.obj o).renderBytes = some (.obj o) :=
  accepted_object_reads_back hc (update_inner_guards_pass H doc hg h u o hm)

/-- a refused `update` / `create_object` / `update_object` returns an error and has no state to change
    (the result carries no state: the caller keeps the one it had) -/
theorem updateG_refused (H : Bytes → Str) (src : Src) (st : DState) (doc : JObj) (hg : isTooDeep doc = true) :
    DState.updateG H src st doc = .err "document_nested_too_deeply" := by
  simp [DState.updateG, hg]

theorem updateG_accepted (H : Bytes → Str) (src : Src) (st : DState) (doc : JObj) (hg : isTooDeep doc = false) :
    DState.updateG H src st doc = DState.update H src st doc := by
  simp [DState.updateG, hg]

theorem createObjectG_refused (H : Bytes → Str) (st : DState) (u : Str) (o : JObj) (hg : isTooDeep o = true) :
    DState.createObjectG H st u o = .err "object_nested_too_deeply" := by
  simp [DState.createObjectG, hg]

theorem updateObjectG_refused (H : Bytes → Str) (src : Src) (st : DState) (u : Str) (o : JObj) (hg : isTooDeep o = true) :
    DState.updateObjectG H src st u o = .err "object_nested_too_deeply" := by
  simp [DState.updateObjectG, hg]

/-! ### Without the commit guard: the defect D21 as a theorem -/

/-- the block object is at least one level deeper than its information member -/
theorem toJson_depth_ge (b : Block) (i : JVal) (hi : b.info = some i) : i.depth + 1 ≤ b.toJson.depth := by
  rw [C11.toJson_eq]
  simp only [JVal.depth, depthO_append, Nat.add_le_add_iff_right]
  have : JVal.depthO (C11.iPart b) = i.depth := by simp [C11.iPart, hi, JVal.depthO]
  omega

/-- **D21**: a block whose information member is nested 127 levels or more - which `commit` would write
    without complaint if it did not refuse such information - is unreadable for every replica, the
    committing one included: the commit is silently lost -/
theorem unguarded_commit_block_lost (b : Block) (i : JVal) (hi : b.info = some i)
    (hcan : ∀ j, b.info = some j → Canon j) (hd : RECURSION_LIMIT ≤ i.depth + 1) :
    parseJsonBytes b.toJson.renderBytes = none :=
  parseJsonBytes_renderBytes_deep _ (C11.canon_toJson b hcan) (Nat.le_trans hd (toJson_depth_ge b i hi))

/-- the guard is what excludes it: information the commit accepts gives a readable block -/
theorem guarded_commit_block_reads_back (b : Block)
    (hcan : ∀ j, b.info = some j → Canon j) (hdep : ∀ j, b.info = some j → j.depth ≤ MAX_NESTING_DEPTH) :
    parseJsonBytes b.toJson.renderBytes = some b.toJson :=
  parseJsonBytes_renderBytes _ (C11.canon_toJson b hcan) (C11.toJson_below_limit b hdep)

/-! ### Non-vacuity -/

/-- a document with a flattened array of two objects, a nested flattened object and a value 40 levels deep -/
def exDoc : JObj :=
  [ (['a', FLAT], .arr [.obj [(ID_FIELD, .str ['x']), (['v'], nest 40)], .obj [(ID_FIELD, .str ['y'])]]),
    (['o', FLAT], .obj [(ID_FIELD, .str ['z']), (['w'], .arr [.num ['2']])]),
    (['t'], .num ['1']) ]

example : isTooDeep exDoc = false := by
  rw [isTooDeep_false_iff]
  simp [exDoc, JVal.depth, JVal.depthO, JVal.depthL, nest_depth, MAX_NESTING_DEPTH]

/-- `flatten` succeeds on it and produces five objects (root, x, y, z and the descriptor of `a♭`) -/
example : ∃ pool root, flatten (fun _ => ['h']) [] (.obj [(['a', FLAT], .arr [.obj [(ID_FIELD, .str ['x'])]]), (['t'], .num ['1'])]) [] = .ok (pool, root)
    ∧ pool.length = 3 := ⟨_, _, rfl, rfl⟩

/-- a block with information nested 127 levels: accepted by nothing, and indeed unreadable -/
example : parseJsonBytes ({ id := ⟨1, []⟩, parents := [], packs := [], changes := [], info := some (nest 127) } : Block).toJson.renderBytes = none :=
  unguarded_commit_block_lost _ (nest 127) rfl (by intro j hj; cases hj; exact nest_canon _) (by rw [nest_depth]; decide)

end Melda.Props.C03c
