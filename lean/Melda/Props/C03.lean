/-
  C03 (pack re-indexing half) — a successful commit is durable for every JSON content.
  The pack writer stores `[` obj₁ `,` obj₂ … `]`; the re-indexer `scanPack` must find exactly the
  writer's (offset, length) table, whatever the strings (braces, quotes, backslashes, control and
  non-ASCII characters), nesting and numbers. Main results: `scan_pack`, `scan_slices`,
  `naive_scan_counterexample` (the pre-fix scanner, defect D1, does not).
-/
import Melda.Pack
namespace Melda.Props.C03
open Melda

/-! ### UTF-8 facts -/

theorem utf8EncodeChar_ascii (c : Char) (h : c.val.toNat < 0x80) :
    String.utf8EncodeChar c = [UInt8.ofNat c.val.toNat] := by
  have : c.val.toNat ≤ 0x7f := by omega
  simp only [String.utf8EncodeChar]
  rw [if_pos this]

theorem utf8EncodeChar_nonascii (c : Char) (h : 0x80 ≤ c.val.toNat) :
    ∀ b ∈ String.utf8EncodeChar c, 0x80 ≤ b.toNat := by
  intro b hb
  have h1 : ¬ c.val.toNat ≤ 0x7f := by omega
  simp only [String.utf8EncodeChar] at hb
  rw [if_neg h1] at hb
  generalize c.val.toNat = v at *
  split at hb
  · simp only [List.mem_cons, List.not_mem_nil, or_false] at hb
    rcases hb with rfl | rfl <;> simp only [UInt8.toNat_ofNat'] <;> omega
  · split at hb
    · simp only [List.mem_cons, List.not_mem_nil, or_false] at hb
      rcases hb with rfl | rfl | rfl <;> simp only [UInt8.toNat_ofNat'] <;> omega
    · simp only [List.mem_cons, List.not_mem_nil, or_false] at hb
      rcases hb with rfl | rfl | rfl | rfl <;> simp only [UInt8.toNat_ofNat'] <;> omega


/-- a byte `< 0x80` in the encoding of `c` is the code of `c` itself -/
theorem byte_of_char (c : Char) (b : UInt8) (hb : b ∈ String.utf8EncodeChar c) (hlt : b.toNat < 0x80) :
    c.val.toNat = b.toNat := by
  by_cases h : c.val.toNat < 0x80
  · rw [utf8EncodeChar_ascii c h] at hb
    simp only [List.mem_cons, List.not_mem_nil, or_false] at hb
    subst hb
    simp only [UInt8.toNat_ofNat']
    omega
  · have := utf8EncodeChar_nonascii c (by omega) b hb
    omega

theorem char_eq_of_toNat (c d : Char) (h : c.val.toNat = d.val.toNat) : c = d :=
  Char.ext (UInt32.toNat_inj.mp h)

theorem utf8_append (a b : Str) : utf8 (a ++ b) = utf8 a ++ utf8 b := by
  simp [utf8]

theorem utf8_cons (c : Char) (s : Str) : utf8 (c :: s) = String.utf8EncodeChar c ++ utf8 s := by
  simp [utf8]

theorem utf8_nil : utf8 [] = [] := rfl

/-! ### Scanner algebra -/

theorem scanFrom_append (st : ScanSt) (off : Nat) (a b : Bytes) :
    scanFrom st off (a ++ b) = scanFrom (scanFrom st off a) (off + a.length) b := by
  induction a generalizing st off with
  | nil => simp [scanFrom]
  | cons x xs ih =>
    simp only [List.cons_append, scanFrom, ih, List.length_cons]
    congr 1; omega

/-- outside a string, at depth ≥ 1: the bytes leave the scanner state untouched -/
def Bal (bs : Bytes) : Prop :=
  ∀ (st : ScanSt) (off : Nat), st.inStr = false → st.esc = false → 1 ≤ st.depth → scanFrom st off bs = st

/-- inside a string (not after a backslash): the bytes leave the scanner state untouched -/
def InS (bs : Bytes) : Prop :=
  ∀ (st : ScanSt) (off : Nat), st.inStr = true → st.esc = false → scanFrom st off bs = st

/-- outside a string, at depth ≥ 1: the bytes act as one closing brace at their last position -/
def Closes (bs : Bytes) : Prop :=
  ∀ (st : ScanSt) (off : Nat), st.inStr = false → st.esc = false → 1 ≤ st.depth →
    scanFrom st off bs = scanStep st (off + bs.length - 1) 0x7D

/-- at depth 0, clean state: the bytes are recorded as exactly one object `(off, length)` -/
def Top (bs : Bytes) : Prop :=
  ∀ (st : ScanSt) (off : Nat), st.inStr = false → st.esc = false → st.depth = 0 →
    scanFrom st off bs = { st with start := off, out := (off, bs.length) :: st.out }

theorem Bal.nil : Bal [] := fun _ _ _ _ _ => rfl
theorem InS.nil : InS [] := fun _ _ _ _ => rfl

theorem Bal.append {a b : Bytes} (ha : Bal a) (hb : Bal b) : Bal (a ++ b) := by
  intro st off h1 h2 h3
  rw [scanFrom_append, ha st off h1 h2 h3, hb st _ h1 h2 h3]

theorem InS.append {a b : Bytes} (ha : InS a) (hb : InS b) : InS (a ++ b) := by
  intro st off h1 h2
  rw [scanFrom_append, ha st off h1 h2, hb st _ h1 h2]

theorem scanStep_plain (st : ScanSt) (off : Nat) (b : UInt8) (h : st.inStr = false)
    (h1 : b ≠ 0x22) (h2 : b ≠ 0x7B) (h3 : b ≠ 0x7D) : scanStep st off b = st := by
  simp [scanStep, h, h1, h2, h3]

theorem scanStep_inS (st : ScanSt) (off : Nat) (b : UInt8) (h : st.inStr = true) (he : st.esc = false)
    (h1 : b ≠ 0x22) (h2 : b ≠ 0x5C) : scanStep st off b = st := by
  simp [scanStep, h, he, h1, h2]

theorem Bal.plain {bs : Bytes} (h : ∀ b ∈ bs, b ≠ 0x22 ∧ b ≠ 0x7B ∧ b ≠ 0x7D) : Bal bs := by
  induction bs with
  | nil => exact Bal.nil
  | cons x xs ih =>
    intro st off h1 h2 h3
    have hx := h x (by simp)
    simp only [scanFrom]
    rw [scanStep_plain st off x h1 hx.1 hx.2.1 hx.2.2]
    exact ih (fun b hb => h b (List.mem_cons_of_mem _ hb)) st _ h1 h2 h3

theorem InS.plain {bs : Bytes} (h : ∀ b ∈ bs, b ≠ 0x22 ∧ b ≠ 0x5C) : InS bs := by
  induction bs with
  | nil => exact InS.nil
  | cons x xs ih =>
    intro st off h1 h2
    have hx := h x (by simp)
    simp only [scanFrom]
    rw [scanStep_inS st off x h1 h2 hx.1 hx.2]
    exact ih (fun b hb => h b (List.mem_cons_of_mem _ hb)) st _ h1 h2

/-- a backslash and the byte after it (whatever it is) are consumed together -/
theorem InS.escaped (x : UInt8) : InS [0x5C, x] := by
  intro st off h1 h2
  obtain ⟨d, s, i, e, o⟩ := st
  simp only at h1 h2
  subst h1 h2
  simp [scanFrom, scanStep]

/-- a whole string literal, quotes included, leaves a non-string state untouched (any depth) -/
theorem scanFrom_quoted {bs : Bytes} (h : InS bs) (st : ScanSt) (off : Nat)
    (h1 : st.inStr = false) (h2 : st.esc = false) : scanFrom st off (0x22 :: (bs ++ [0x22])) = st := by
  obtain ⟨d, s, i, e, o⟩ := st
  simp only at h1 h2
  subst h1 h2
  simp only [scanFrom]
  rw [scanFrom_append]
  have : scanStep { depth := d, start := s, inStr := false, esc := false, out := o } off 0x22
      = { depth := d, start := s, inStr := true, esc := false, out := o } := by
    simp [scanStep]
  rw [this, h _ _ rfl rfl]
  simp [scanFrom, scanStep]

theorem Bal.quoted {bs : Bytes} (h : InS bs) : Bal (0x22 :: (bs ++ [0x22])) :=
  fun st off h1 h2 _ => scanFrom_quoted h st off h1 h2

theorem Closes.brace : Closes [0x7D] := by
  intro st off _ _ _
  simp [scanFrom]

theorem Closes.append {a b : Bytes} (ha : Bal a) (hb : Closes b) : Closes (a ++ b) := by
  intro st off h1 h2 h3
  rw [scanFrom_append, ha st off h1 h2 h3, hb st _ h1 h2 h3, List.length_append]
  congr 1; omega

/-- `{` followed by bytes that close one level is balanced at depth ≥ 1 … -/
theorem Bal.braced {bs : Bytes} (h : Closes bs) : Bal (0x7B :: bs) := by
  intro st off h1 h2 h3
  obtain ⟨d, s, i, e, o⟩ := st
  simp only at h1 h2 h3
  subst h1 h2
  simp only [scanFrom]
  have hd : d ≠ 0 := by omega
  have : scanStep { depth := d, start := s, inStr := false, esc := false, out := o } off 0x7B
      = { depth := d + 1, start := s, inStr := false, esc := false, out := o } := by
    simp [scanStep, hd]
  rw [this, h _ _ rfl rfl (by simp only; omega)]
  simp [scanStep, hd]

/-- … and is recorded as exactly one entry at depth 0 -/
theorem Top.braced {bs : Bytes} (h : Closes bs) : Top (0x7B :: bs) := by
  intro st off h1 h2 h3
  obtain ⟨d, s, i, e, o⟩ := st
  simp only at h1 h2 h3
  subst h1 h2 h3
  simp only [scanFrom]
  have : scanStep { depth := 0, start := s, inStr := false, esc := false, out := o } off 0x7B
      = { depth := 1, start := off, inStr := false, esc := false, out := o } := by
    simp [scanStep]
  rw [this, h _ _ rfl rfl (by simp)]
  simp [scanStep]
  omega


/-! ### Characters and strings -/

theorem byte_ne_of_char_ne (c d : Char) (hd : d.val.toNat < 0x80) (hne : c ≠ d) :
    ∀ b ∈ String.utf8EncodeChar c, b ≠ UInt8.ofNat d.val.toNat := by
  intro b hb e
  have hbn : b.toNat = d.val.toNat := by
    rw [e, UInt8.toNat_ofNat']; omega
  exact hne (char_eq_of_toNat c d (by rw [byte_of_char c b hb (by omega), hbn]))

theorem InS.char (c : Char) (h1 : c ≠ '"') (h2 : c ≠ '\\') : InS (String.utf8EncodeChar c) :=
  InS.plain fun b hb =>
    ⟨byte_ne_of_char_ne c '"' (by decide) h1 b hb, byte_ne_of_char_ne c '\\' (by decide) h2 b hb⟩

theorem Bal.char (c : Char) (h1 : c ≠ '"') (h2 : c ≠ '{') (h3 : c ≠ '}') : Bal (String.utf8EncodeChar c) :=
  Bal.plain fun b hb =>
    ⟨byte_ne_of_char_ne c '"' (by decide) h1 b hb, byte_ne_of_char_ne c '{' (by decide) h2 b hb,
     byte_ne_of_char_ne c '}' (by decide) h3 b hb⟩

theorem hexDigitLower_ne (n : Nat) (h : n < 16) : hexDigitLower n ≠ '"' ∧ hexDigitLower n ≠ '\\' := by
  revert n; decide

theorem utf8_escaped (x : Char) (t : Str) : utf8 ('\\' :: x :: t) = [0x5C] ++ String.utf8EncodeChar x ++ utf8 t := by
  rw [utf8_cons, utf8_cons]; rfl

/-- `escapeChar c` never yields an unescaped quote or a dangling backslash -/
theorem InS.escapeChar (c : Char) : InS (utf8 (escapeChar c)) := by
  have two : ∀ x : Char, x.val.toNat < 0x80 → InS (utf8 ['\\', x]) := by
    intro x hx
    rw [utf8_escaped, utf8_nil, utf8EncodeChar_ascii x hx]
    exact InS.escaped _
  unfold Melda.escapeChar
  split
  · exact two _ (by decide)
  split
  · exact two _ (by decide)
  split
  · next hlt =>
    split
    · exact two _ (by decide)
    split
    · exact two _ (by decide)
    split
    · exact two _ (by decide)
    split
    · exact two _ (by decide)
    split
    · exact two _ (by decide)
    · have hlt' : c.val.toNat < 32 := by
        have := UInt32.lt_iff_toNat_lt.mp hlt; simpa using this
      have e : utf8 ['\\', 'u', '0', '0', hexDigitLower (c.val.toNat / 16), hexDigitLower (c.val.toNat % 16)]
          = [0x5C, 0x75] ++ ([0x30, 0x30] ++ (String.utf8EncodeChar (hexDigitLower (c.val.toNat / 16)) ++
              String.utf8EncodeChar (hexDigitLower (c.val.toNat % 16)))) := by
        simp only [utf8, List.flatMap_cons, List.flatMap_nil, List.append_nil]
        rfl
      rw [e]
      have h1 := hexDigitLower_ne (c.val.toNat / 16) (by omega)
      have h2 := hexDigitLower_ne (c.val.toNat % 16) (by omega)
      exact (InS.escaped _).append ((InS.plain (by decide)).append
        ((InS.char _ h1.1 h1.2).append (InS.char _ h2.1 h2.2)))
  · next h1 h2 _ =>
    rw [utf8_cons, utf8_nil, List.append_nil]
    exact InS.char c h1 h2

theorem InS.body (s : Str) : InS (utf8 (s.flatMap Melda.escapeChar)) := by
  induction s with
  | nil => exact InS.nil
  | cons c t ih =>
    rw [List.flatMap_cons, utf8_append]
    exact (InS.escapeChar c).append ih

theorem utf8_renderStr (s : Str) :
    utf8 (renderStr s) = 0x22 :: (utf8 (s.flatMap Melda.escapeChar) ++ [0x22]) := by
  unfold renderStr
  rw [utf8_cons, utf8_append]
  rfl

/-- Theorem 1 (strings): a rendered string literal — whatever its content: braces, quotes,
backslashes, control characters, non-ASCII text — scanned from a non-string state at ANY depth leaves
the scanner state (depth, start, inStr, esc, out) exactly where it was. -/
theorem scan_renderStr (s : Str) (st : ScanSt) (off : Nat) (h1 : st.inStr = false) (h2 : st.esc = false) :
    scanFrom st off (utf8 (renderStr s)) = st := by
  rw [utf8_renderStr]
  exact scanFrom_quoted (InS.body s) st off h1 h2

/-- inside the literal (after the opening quote) the escaped body keeps the scanner in-string -/
theorem scan_strBody (s : Str) (st : ScanSt) (off : Nat) (h1 : st.inStr = true) (h2 : st.esc = false) :
    scanFrom st off (utf8 (s.flatMap Melda.escapeChar)) = st := InS.body s st off h1 h2

theorem Bal.renderStr (s : Str) : Bal (utf8 (renderStr s)) := by
  rw [utf8_renderStr]
  exact Bal.quoted (InS.body s)


/-! ### Values -/

/-- number tokens are opaque in the model: the theorem needs them to be made of number characters -/
def numChar (c : Char) : Bool := isDigit c || decide (c ∈ ['-', '+', '.', 'e', 'E'])

mutual
def NumOk : JVal → Prop
  | .num tok => tok.all numChar = true
  | .arr l => NumOkL l
  | .obj o => NumOkO o
  | _ => True
def NumOkL : List JVal → Prop
  | [] => True
  | v :: t => NumOk v ∧ NumOkL t
def NumOkO : JObj → Prop
  | [] => True
  | (_, v) :: t => NumOk v ∧ NumOkO t
end

theorem numChar_safe (c : Char) (h : numChar c = true) : c ≠ '"' ∧ c ≠ '{' ∧ c ≠ '}' := by
  refine ⟨?_, ?_, ?_⟩ <;> (intro e; subst e; revert h; decide)

theorem Bal.numTok (tok : Str) (h : tok.all numChar = true) : Bal (utf8 tok) := by
  induction tok with
  | nil => exact Bal.nil
  | cons c t ih =>
    simp only [List.all_cons, Bool.and_eq_true] at h
    rw [utf8_cons]
    have hc := numChar_safe c h.1
    exact (Bal.char c hc.1 hc.2.1 hc.2.2).append (ih h.2)

theorem Bal.ascii (s : Str) (h : ∀ b ∈ utf8 s, b ≠ 0x22 ∧ b ≠ 0x7B ∧ b ≠ 0x7D) : Bal (utf8 s) := Bal.plain h

/-- `"key":value` followed by the rest of the object closes one level -/
theorem Closes.member (k : Str) (v : Str) (rest : Str) (hv : Bal (utf8 v)) (hr : Closes (utf8 rest)) :
    Closes (utf8 (renderStr k ++ ':' :: (v ++ rest))) := by
  rw [utf8_append, utf8_cons, utf8_append]
  exact Closes.append (Bal.renderStr k) (Closes.append (Bal.plain (by decide)) (Closes.append hv hr))

mutual
/-- Theorem 1 (values): a rendered value leaves the scanner (outside a string, depth ≥ 1) unchanged:
same depth, `inStr`, `esc`, `out`, `start`. -/
theorem Bal.render : ∀ (v : JVal), NumOk v → Bal (utf8 v.render)
  | .null, _ => Bal.plain (by decide)
  | .bool true, _ => Bal.plain (by decide)
  | .bool false, _ => Bal.plain (by decide)
  | .num t, h => by
    simp only [JVal.render]
    exact Bal.numTok t (by simpa [NumOk] using h)
  | .str s, _ => by simp only [JVal.render]; exact Bal.renderStr s
  | .arr [], _ => Bal.plain (by decide)
  | .arr (v :: t), h => by
    simp only [NumOk, NumOkL] at h
    simp only [JVal.render]
    rw [utf8_cons, utf8_append]
    exact (Bal.plain (by decide)).append ((Bal.render v h.1).append (Bal.renderTail t h.2))
  | .obj [], _ => Bal.braced Closes.brace
  | .obj ((k, v) :: t), h => by
    simp only [NumOk, NumOkO] at h
    simp only [JVal.render]
    rw [utf8_cons]
    exact Bal.braced (Closes.member k _ _ (Bal.render v h.1) (Closes.renderOTail t h.2))
theorem Bal.renderTail : ∀ (l : List JVal), NumOkL l → Bal (utf8 (JVal.renderTail l))
  | [], _ => Bal.plain (by decide)
  | v :: t, h => by
    simp only [NumOkL] at h
    simp only [JVal.renderTail]
    rw [utf8_cons, utf8_append]
    exact (Bal.plain (by decide)).append ((Bal.render v h.1).append (Bal.renderTail t h.2))
theorem Closes.renderOTail : ∀ (o : JObj), NumOkO o → Closes (utf8 (JVal.renderOTail o))
  | [], _ => Closes.brace
  | (k, v) :: t, h => by
    simp only [NumOkO] at h
    simp only [JVal.renderOTail]
    rw [utf8_cons]
    exact Closes.append (Bal.plain (by decide)) (Closes.member k _ _ (Bal.render v h.1) (Closes.renderOTail t h.2))
end


/-- Theorem 1, spelled out: scanning a rendered value from a state outside any string, at depth ≥ 1,
ends in the very same state — same depth, `inStr = false`, `esc = false`, same `out` and `start`. -/
theorem scan_render (v : JVal) (hv : NumOk v) (st : ScanSt) (off : Nat)
    (h1 : st.inStr = false) (h2 : st.esc = false) (h3 : 1 ≤ st.depth) :
    scanFrom st off (utf8 v.render) = st := Bal.render v hv st off h1 h2 h3

/-! ### Top-level objects and the pack -/

theorem obj_render_closes (o : JObj) (h : NumOkO o) :
    ∃ bs, utf8 (JVal.obj o).render = 0x7B :: bs ∧ Closes bs := by
  cases o with
  | nil => exact ⟨[0x7D], rfl, Closes.brace⟩
  | cons p t =>
    obtain ⟨k, v⟩ := p
    simp only [NumOkO] at h
    refine ⟨_, ?_, Closes.member k _ _ (Bal.render v h.1) (Closes.renderOTail t h.2)⟩
    simp only [JVal.render]
    rw [utf8_cons]; rfl

/-- Theorem 2: a rendered object scanned at depth 0 from offset `off` is recorded as exactly one
entry `(off, length)`; the scanner is back at depth 0 outside any string. -/
theorem Top.obj (o : JObj) (h : NumOk (.obj o)) : Top (utf8 (JVal.obj o).render) := by
  obtain ⟨bs, e, hc⟩ := obj_render_closes o (by simpa [NumOk] using h)
  rw [e]; exact Top.braced hc

theorem scan_obj_top (o : JObj) (h : NumOk (.obj o)) (off : Nat) (out : List (Nat × Nat)) (start : Nat) :
    scanFrom { depth := 0, start := start, inStr := false, esc := false, out := out } off
        (utf8 (JVal.obj o).render)
      = { depth := 0, start := off, inStr := false, esc := false,
          out := (off, (utf8 (JVal.obj o).render).length) :: out } :=
  Top.obj o h _ off rfl rfl rfl

theorem scan_packTail (l : List Bytes) (hl : ∀ b ∈ l, Top b) (st : ScanSt) (off : Nat)
    (h1 : st.inStr = false) (h2 : st.esc = false) (h3 : st.depth = 0) :
    (scanFrom st off (packBytes.packTail l)).out = (packOffsets (off + 1) l).reverse ++ st.out := by
  induction l generalizing st off with
  | nil => simp [packBytes.packTail, scanFrom, packOffsets, scanStep_plain st off 0x5D h1]
  | cons o t ih =>
    simp only [packBytes.packTail, scanFrom, packOffsets]
    rw [scanStep_plain st off 0x2C h1 (by decide) (by decide) (by decide), scanFrom_append,
      hl o (by simp) st (off + 1) h1 h2 h3, ih (fun b hb => hl b (List.mem_cons_of_mem _ hb))]
    · simp
    · exact h1
    · exact h2
    · exact h3

/-- the re-indexer finds the writer's table for any list of items that are each `Top` -/
theorem scanPack_of_top (l : List Bytes) (hl : ∀ b ∈ l, Top b) :
    scanPack (packBytes l) = packOffsets 1 l := by
  cases l with
  | nil => simp [scanPack, packBytes, scanFrom, scanStep, packOffsets]
  | cons o t =>
    simp only [scanPack, packBytes, scanFrom, packOffsets]
    rw [scanStep_plain _ 0 0x5B rfl (by decide) (by decide) (by decide), scanFrom_append,
      hl o (by simp) _ (0 + 1) rfl rfl rfl,
      scan_packTail t (fun b hb => hl b (List.mem_cons_of_mem _ hb)) _ _ rfl rfl rfl]
    simp [Nat.add_comm]

/-- the stored form of an object -/
abbrev enc (o : JObj) : Bytes := utf8 (JVal.obj o).render

/-- Theorem 3 (MAIN): for every list of JSON objects — any strings (braces, quotes, backslashes,
control characters, non-ASCII), any nesting, any number tokens made of number characters — the
re-indexer finds exactly the writer's `(offset, length)` table. -/
theorem scan_pack (objs : List JObj) (h : ∀ o ∈ objs, NumOk (.obj o)) :
    scanPack (packBytes (objs.map (fun o => utf8 (JVal.obj o).render)))
      = packOffsets 1 (objs.map (fun o => utf8 (JVal.obj o).render)) := by
  apply scanPack_of_top
  intro b hb
  obtain ⟨o, ho, rfl⟩ := List.mem_map.mp hb
  exact Top.obj o (h o ho)

/-! ### Slices -/

theorem slice_packTail (l : List Bytes) (pre : Bytes) :
    ∀ p ∈ (packOffsets (pre.length + 1) l).zip l,
      slice (pre ++ packBytes.packTail l) p.1.1 p.1.2 = p.2 := by
  induction l generalizing pre with
  | nil => simp [packOffsets]
  | cons o t ih =>
    intro p hp
    simp only [packOffsets, List.zip_cons_cons, List.mem_cons] at hp
    rcases hp with rfl | hp
    · simp only [packBytes.packTail, slice]
      rw [show pre ++ 0x2C :: (o ++ packBytes.packTail t) = (pre ++ [0x2C]) ++ (o ++ packBytes.packTail t) by simp,
        List.drop_append_of_le_length (by simp), List.drop_of_length_le (by simp)]
      simp
    · have := ih (pre ++ 0x2C :: o) p (by simpa [Nat.add_assoc, Nat.add_comm, Nat.add_left_comm] using hp)
      simpa [packBytes.packTail] using this

/-- every entry of the writer's table cuts exactly its own object out of the pack -/
theorem slice_packBytes (l : List Bytes) :
    ∀ p ∈ (packOffsets 1 l).zip l, slice (packBytes l) p.1.1 p.1.2 = p.2 := by
  cases l with
  | nil => simp [packOffsets]
  | cons o t =>
    intro p hp
    simp only [packOffsets, List.zip_cons_cons, List.mem_cons] at hp
    rcases hp with rfl | hp
    · simp [packBytes, slice]
    · have := slice_packTail t (0x5B :: o) p (by simpa [Nat.add_assoc, Nat.add_comm, Nat.add_left_comm] using hp)
      simpa [packBytes] using this

theorem length_packOffsets (start : Nat) (l : List Bytes) : (packOffsets start l).length = l.length := by
  induction l generalizing start with
  | nil => rfl
  | cons o t ih => simp [packOffsets, ih]

/-- Theorem 4: the re-indexer finds one entry per object, and the slice it designates for the i-th
object is byte for byte what was staged (so its digest is the digest it was staged under). -/
theorem scan_slices (objs : List JObj) (h : ∀ o ∈ objs, NumOk (.obj o)) :
    let bytes := packBytes (objs.map enc)
    (scanPack bytes).length = objs.length ∧
    ∀ p ∈ (scanPack bytes).zip objs, slice bytes p.1.1 p.1.2 = enc p.2 := by
  intro bytes
  have e : scanPack bytes = packOffsets 1 (objs.map enc) := scan_pack objs h
  refine ⟨by rw [e, length_packOffsets, List.length_map], ?_⟩
  intro p hp
  rw [e] at hp
  have := slice_packBytes (objs.map enc) (p.1, enc p.2) (by
    rw [List.zip_map_right]
    exact List.mem_map.mpr ⟨p, hp, rfl⟩)
  exact this

/-- index form of `scan_slices` -/
theorem scan_slices_get (objs : List JObj) (h : ∀ o ∈ objs, NumOk (.obj o)) (i : Nat) (hi : i < objs.length) :
    ∃ off len, (scanPack (packBytes (objs.map enc)))[i]? = some (off, len) ∧
      slice (packBytes (objs.map enc)) off len = enc objs[i] := by
  obtain ⟨hlen, hs⟩ := scan_slices objs h
  have hi' : i < (scanPack (packBytes (objs.map enc))).length := by rw [hlen]; exact hi
  refine ⟨(scanPack (packBytes (objs.map enc)))[i].1, (scanPack (packBytes (objs.map enc)))[i].2, by simp [hi'], ?_⟩
  exact hs ((scanPack (packBytes (objs.map enc)))[i], objs[i]) (by
    rw [List.mem_iff_getElem]
    exact ⟨i, by rw [List.length_zip]; omega, by simp⟩)

/-! ### The pre-fix scanner (defect D1) -/

/-- Theorem 5: the pre-fix scanner, which counts braces inside string literals, does not find the
writer's table for the one-object pack `[{"t":"a}b"}]`. -/
theorem naive_scan_counterexample :
    let objs : List JObj := [[("t".toList, .str "a}b".toList)]]
    naiveScanPack (packBytes (objs.map enc)) ≠ packOffsets 1 (objs.map enc) := by
  decide

/-! ### Non-vacuity -/

/-- the hypothesis `NumOk` holds for a non-trivial object: nested containers, a string with all four
special characters and non-ASCII text, integers, negative, fractional and exponent numbers -/
def sample : JObj :=
  [("a{\"\\}".toList, .str "x}\"{\\ é€😀\n\u0001".toList),
   ("n".toList, .arr [.num "-1.5e+10".toList, .num "0".toList, .null, .bool true, .obj [("k}".toList, .obj [])]])]

example : NumOk (.obj sample) := by
  simp [sample, NumOk, NumOkO, NumOkL]
  decide

example : scanPack (packBytes ([sample, [], sample].map enc)) = packOffsets 1 ([sample, [], sample].map enc) :=
  scan_pack _ (by
    have hs : NumOk (.obj sample) := by simp [sample, NumOk, NumOkO, NumOkL]; decide
    intro o ho
    simp only [List.mem_cons, List.not_mem_nil, or_false] at ho
    rcases ho with rfl | rfl | rfl
    · exact hs
    · simp [NumOk, NumOkO]
    · exact hs)

/-- `NumOk` cannot be dropped: the model's numbers are opaque tokens, a token with a brace breaks the table -/
example : scanPack (packBytes ([[("n".toList, JVal.num "}".toList)]].map enc))
    ≠ packOffsets 1 ([[("n".toList, JVal.num "}".toList)]].map enc) := by decide

end Melda.Props.C03
