/-
  C01, the document level for replicas that have RECEIVED remote array edits (the residual of `C01d`):
  `C01c.read_converge` needs the array invariant `C12b.ReadInv` on both replicas.  For a replica that only
  ever ran `update` it follows from `C04c.InvA` (`C01d.readInv_of_invA`); `snapshot`, resolutions and the
  automatic resolution keep it (`C12b.readInv_step`).  This file establishes it at the moment blocks of another
  replica are applied - after `reload` / `refresh` / a fresh open, whose descriptor cache holds nothing of the
  new revisions.

  The tree of an array after the merge holds the entries of the replicas' trees together (`C01.reload_docsOK`:
  the change records of the applied blocks).  What a recorded revision DENOTES (`TrueOrder`: the full descriptor,
  or the parent's array patched) depends on the tree only through the parent recorded for that revision and its
  ancestors - so it carries over from the tree of the replica that recorded it to ANY tree that contains that
  tree's entries and records one parent per revision, over any store that still reads the same bodies:

  * `getParent_sub`, **`trueOrder_sub`**: denotation is stable under tree inclusion and store growth;
  * `AllTO`: every recorded revision of the tree denotes an array; **`allTO_union`**: if every entry of the merged
    tree comes from one of the origin trees, each `AllTO` over its own store, the merged tree is `AllTO` over the
    merged store;
  * **`readInv_of_allTO`**: a state whose array trees are well formed and `AllTO`, whose descriptor cache is empty
    (fresh open, reload) and whose array trees share no revision (`NoCross`: no 28-bit tail clash between
    different arrays, the assumption of `C04c.AgreeParents`) satisfies `ReadInv` - with `N := Nfree`, the frame
    that allows every revision not recorded in another array tree, i.e. every revision a later `update`, snapshot or
    resolution can create;
  * **`read_converge_merged`**: two replicas that applied the same blocks - trees with the same (revision, parent)
    pairs, same bodies - each `AllTO`/well formed/fresh, return the same document from `read`.

  `AllTO` for the origin trees is what `update` establishes for every revision it records
  (`C04b.updateObject_array_spec`: the new revision denotes the submitted array; `trueOrder_sub` keeps the old
  ones), `stage_full_snapshot` and resolutions likewise (`C12b.TreeStep.orders`).
-/
import Melda.Props.C01c
namespace Melda.Props.C01e
open Melda Melda.RevTree Melda.DState
open Melda.Props.C05 (KeysNodup WellIndexed Reaches LiveLeaf)
open Melda.Props.C12 (GoodTree Closed)
open Melda.Props.C16b (TrueOrder)
open Melda.Props.C12b (InTree CacheP CacheOK ReadInv IsDelta Cache)

/-! ### Denotation is stable under tree inclusion and store growth -/

/-- in a tree that contains the entries of `t` and records one entry per revision, a revision of `t` has the
    parent `t` records for it -/
theorem getParent_sub {t t' : RevTree} (hsub : ∀ e ∈ t.entries, e ∈ t'.entries)
    (hk : KeysNodup t.entries) (hk' : KeysNodup t'.entries) {r : Rev} (hc : InTree t r) :
    t'.getParent r = t.getParent r := by
  obtain ⟨e, he, rfl⟩ := hc
  unfold getParent
  rw [C05.find?_of_mem hk he, C05.find?_of_mem hk' (hsub e he)]

theorem readDesc_mono {src src' : Src} {st st' : DState}
    (hr : ∀ r x, readObject src st r = .ok x → readObject src' st' r = .ok x) {r : Rev} {d : List JVal ⊕ List JVal}
    (h : readDesc src st r = .ok d) : readDesc src' st' r = .ok d := by
  unfold readDesc at h ⊢
  cases ho : readObject src st r with
  | error e => rw [ho] at h; cases h
  | ok o => rw [ho] at h; rw [hr r o ho]; exact h

/-- **what a recorded revision denotes is the same in every tree that includes its tree** (one entry per
    revision) **over every store that still reads the same bodies** -/
theorem trueOrder_sub {src src' : Src} {st st' : DState} {t t' : RevTree}
    (hsub : ∀ e ∈ t.entries, e ∈ t'.entries) (hk : KeysNodup t.entries) (hk' : KeysNodup t'.entries)
    (hcl : Closed t.entries)
    (hr : ∀ r x, readObject src st r = .ok x → readObject src' st' r = .ok x)
    {r : Rev} {o : List JVal} (h : TrueOrder src st t r o) : InTree t r → TrueOrder src' st' t' r o := by
  induction h with
  | full h1 => exact fun _ => .full (readDesc_mono hr h1)
  | @delta r par _ _ _ h1 h2 _ h4 ih =>
    intro hin
    have hp : InTree t par := C12b.getParent_inTree hcl h2
    exact .delta (readDesc_mono hr h1) (by rw [getParent_sub hsub hk hk' hin]; exact h2) (ih hp) h4
  | orphan h1 h3 h4 =>
    intro hin
    exact .orphan (readDesc_mono hr h1) (by rw [getParent_sub hsub hk hk' hin]; exact h3) h4

/-- every recorded revision of the tree denotes an array -/
def AllTO (src : Src) (st : DState) (t : RevTree) : Prop := ∀ e ∈ t.entries, ∃ o, TrueOrder src st t e.rev o

/-- **merging trees keeps `AllTO`**: `t` holds entries of `t₁` and `t₂` only (and all of them), one per revision;
    the merged store reads every body either origin store read -/
theorem allTO_union {src src₁ src₂ : Src} {st st₁ st₂ : DState} {t t₁ t₂ : RevTree}
    (h₁ : AllTO src₁ st₁ t₁) (h₂ : AllTO src₂ st₂ t₂)
    (hsub₁ : ∀ e ∈ t₁.entries, e ∈ t.entries) (hsub₂ : ∀ e ∈ t₂.entries, e ∈ t.entries)
    (hcov : ∀ e ∈ t.entries, e ∈ t₁.entries ∨ e ∈ t₂.entries)
    (hk : KeysNodup t.entries) (hk₁ : KeysNodup t₁.entries) (hk₂ : KeysNodup t₂.entries)
    (hcl₁ : Closed t₁.entries) (hcl₂ : Closed t₂.entries)
    (hr₁ : ∀ r x, readObject src₁ st₁ r = .ok x → readObject src st r = .ok x)
    (hr₂ : ∀ r x, readObject src₂ st₂ r = .ok x → readObject src st r = .ok x) : AllTO src st t := by
  intro e he
  rcases hcov e he with h | h
  · obtain ⟨o, ho⟩ := h₁ e h
    exact ⟨o, trueOrder_sub hsub₁ hk₁ hk hcl₁ hr₁ ho ⟨e, h, rfl⟩⟩
  · obtain ⟨o, ho⟩ := h₂ e h
    exact ⟨o, trueOrder_sub hsub₂ hk₂ hk hcl₂ hr₂ ho ⟨e, h, rfl⟩⟩

/-- the n-ary form: every entry of `t` comes from SOME origin tree that is included in `t` -/
theorem allTO_of_origins {src : Src} {st : DState} {t : RevTree} (hk : KeysNodup t.entries)
    (horig : ∀ e ∈ t.entries, ∃ (src₀ : Src) (st₀ : DState) (t₀ : RevTree),
      e ∈ t₀.entries ∧ AllTO src₀ st₀ t₀ ∧ (∀ x ∈ t₀.entries, x ∈ t.entries) ∧ KeysNodup t₀.entries ∧
      Closed t₀.entries ∧ ∀ r x, readObject src₀ st₀ r = .ok x → readObject src st r = .ok x) : AllTO src st t := by
  intro e he
  obtain ⟨src₀, st₀, t₀, h0, hall, hsub, hk0, hcl0, hr0⟩ := horig e he
  obtain ⟨o, ho⟩ := hall e h0
  exact ⟨o, trueOrder_sub hsub hk0 hk hcl0 hr0 ho ⟨e, h0, rfl⟩⟩

/-- **one operation keeps `AllTO`**: the tree grows by the entries `l`, the store still reads what it read, and each
    new entry denotes an array in the new state (what the operation's own theorem provides:
    `C04b.updateObject_array_spec` for `update`, `C12b.snapshot_tree_spec` / `resolveAs_array_spec` for snapshots and
    resolutions; a resolution marker reads as the empty full descriptor) -/
theorem allTO_step {src : Src} {st st' : DState} {t t' : RevTree} {l : List RtEntry} (h : AllTO src st t)
    (hext : t'.entries = t.entries ++ l) (hk : KeysNodup t.entries) (hk' : KeysNodup t'.entries)
    (hcl : Closed t.entries) (hr : ∀ r x, readObject src st r = .ok x → readObject src st' r = .ok x)
    (hnew : ∀ e ∈ l, ∃ o, TrueOrder src st' t' e.rev o) : AllTO src st' t' := by
  intro e he
  rw [hext] at he
  rcases List.mem_append.mp he with h1 | h1
  · obtain ⟨o, ho⟩ := h e h1
    exact ⟨o, trueOrder_sub (fun x hx => by rw [hext]; exact List.mem_append_left _ hx) hk hk' hcl hr ho ⟨e, h1, rfl⟩⟩
  · exact hnew e h1

/-- a tree with a single full descriptor (what `create_object` of an array descriptor leaves) is `AllTO` -/
theorem allTO_singleton {src : Src} {st : DState} {t : RevTree} {r : Rev} {order : List JVal}
    (hent : ∀ e ∈ t.entries, e.rev = r) (hd : readDesc src st r = .ok (.inl order)) : AllTO src st t := by
  intro e he
  rw [hent e he]
  exact ⟨order, .full hd⟩

/-! ### From `AllTO` to the array invariant of a fresh replica -/

/-- different array trees share no revision (up to collisions of the 28-bit tail) -/
def NoCross (st : DState) : Prop :=
  ∀ p ∈ st.p.docs, ∀ q ∈ st.p.docs, isArrayDescriptor p.1 = true → isArrayDescriptor q.1 = true → p.1 ≠ q.1 →
    ∀ r, InTree p.2 r → ¬ InTree q.2 r

/-- the frame: revisions that are not recorded in another array tree (every revision that can still be created
    for `u`, given `NoCross` stays true) -/
def Nfree (st : DState) (u : Str) (r : Rev) : Prop :=
  ∀ q ∈ st.p.docs, isArrayDescriptor q.1 = true → q.1 ≠ u → ¬ InTree q.2 r

open Classical in
/-- what each leaf denotes, chosen from `AllTO` -/
noncomputable def ordOf (src : Src) (st : DState) (u : Str) (r : Rev) : List JVal :=
  match st.treeOf u with
  | some t => if h : ∃ o, TrueOrder src st t r o then Classical.choose h else []
  | none => []

theorem ordOf_spec {src : Src} {st : DState} {u : Str} {t : RevTree} (ht : st.treeOf u = some t) {r : Rev}
    (h : ∃ o, TrueOrder src st t r o) : TrueOrder src st t r (ordOf src st u r) := by
  unfold ordOf
  rw [ht]
  simp only [h, dite_true]
  exact Classical.choose_spec h

/-- **the array invariant of a replica that has just (re)built its state from storage**: sorted map, well-formed
    array trees in which every recorded revision denotes an array, an empty descriptor cache, no revision shared
    between different arrays -/
theorem readInv_of_allTO {src : Src} {st : DState} (hs : C04b.DocsSorted st.p.docs)
    (hgood : ∀ p ∈ st.p.docs, isArrayDescriptor p.1 = true → GoodTree p.2)
    (hall : ∀ p ∈ st.p.docs, isArrayDescriptor p.1 = true → AllTO src st p.2)
    (hcache : st.acache.items = []) (hx : NoCross st) :
    ReadInv (Nfree st) src st (ordOf src st) where
  sorted := hs
  good := hgood
  orders := by
    intro p hp ha l hl
    have ht : st.treeOf p.1 = some p.2 := C04b.treeOf_of_mem hs hp
    obtain ⟨e, he, rfl⟩ := (((hgood p hp ha).mem_leafs l).mp hl).1
    exact ordOf_spec ht (hall p hp ha e he)
  coherent := by
    intro p hp ha l hl _ q hq hqa
    have ht : st.treeOf p.1 = some p.2 := C04b.treeOf_of_mem hs hp
    have hin : InTree p.2 l := (((hgood p hp ha).mem_leafs l).mp hl).1
    obtain ⟨e, he, rfl⟩ := hin
    have hto := ordOf_spec ht (hall p hp ha e he)
    by_cases hpq : p.1 = q.1
    · have hqp : q = p := by
        have h1 := C04b.treeOf_of_mem hs hq
        rw [← hpq, ht] at h1
        obtain ⟨a, b⟩ := p; obtain ⟨c, d⟩ := q
        simp only at hpq h1
        rw [← hpq, ← Option.some.inj h1]
      subst hqp
      exact ⟨fun _ => hto, fun hn => absurd ⟨e, he, rfl⟩ hn⟩
    · refine ⟨fun hin' => absurd hin' (hx p hp q hq ha hqa hpq e.rev ⟨e, he, rfl⟩), fun _ hN => ?_⟩
      exact hN p hp ha hpq ⟨e, he, rfl⟩
  cache := by
    intro q _ _ kv hkv
    rw [hcache] at hkv; cases hkv

/-! ### Convergence of `read` for replicas that merged the same history -/

/-- **two replicas that applied the same blocks read the same document**: same (revision, parent) pairs in every
    tree and the same bodies (`C01.converge` gives both from "same valid content"); on each side sorted maps,
    well-formed array trees whose revisions all denote arrays (`allTO_union` / `allTO_of_origins` at the merge),
    a descriptor cache that holds nothing yet, no revision shared between arrays.  No assumption relates the
    order or batching in which the blocks arrived. -/
theorem read_converge_merged {src₁ src₂ : Src} {st₁ st₂ : DState}
    (hs₁ : C04b.DocsSorted st₁.p.docs) (hs₂ : C04b.DocsSorted st₂.p.docs)
    (hg₁ : ∀ p ∈ st₁.p.docs, isArrayDescriptor p.1 = true → GoodTree p.2)
    (hg₂ : ∀ p ∈ st₂.p.docs, isArrayDescriptor p.1 = true → GoodTree p.2)
    (ha₁ : ∀ p ∈ st₁.p.docs, isArrayDescriptor p.1 = true → AllTO src₁ st₁ p.2)
    (ha₂ : ∀ p ∈ st₂.p.docs, isArrayDescriptor p.1 = true → AllTO src₂ st₂ p.2)
    (hc₁ : st₁.acache.items = []) (hc₂ : st₂.acache.items = [])
    (hx₁ : NoCross st₁) (hx₂ : NoCross st₂)
    (hd : C01c.DocsSame st₁.p.docs st₂.p.docs) (hb : C12.SameBodies src₁ st₁ src₂ st₂)
    {v : JVal} {c : Cache} (h : read src₁ st₁ = .ok (v, c)) : ∃ c', read src₂ st₂ = .ok (v, c') :=
  C01c.read_converge (readInv_of_allTO hs₁ hg₁ ha₁ hc₁ hx₁) (readInv_of_allTO hs₂ hg₂ ha₂ hc₂ hx₂) hd hb h

/-! ### Non-vacuity: two replicas made concurrent edits of one array; the merged tree -/

section Example
open Melda.Props.C12b.Ex
open Melda.Props.C04b (src0)

/-- the tree of the replica that made the first edit (`[x,y] → [x,z,y]`), and of the one that made the second
    (`[x,y] → [x,y,qq]`); `tA` of `C12b.Ex` is their union -/
def tLeft : RevTree := ((RevTree.empty.add r1 none false).1.add r2a (some r1) true).1
def tRight : RevTree := ((RevTree.empty.add r1 none false).1.add r2b (some r1) true).1

theorem allTO_left : AllTO src0 stX tLeft := by
  have t1 : TrueOrder src0 stX tLeft r1 oa1 := .full (by rfl)
  intro e he
  have : e.rev = r1 ∨ e.rev = r2a := by
    have : tLeft.entries = [⟨r1, none, false⟩, ⟨r2a, some r1, true⟩] := by decide
    rw [this] at he; simp only [List.mem_cons, List.not_mem_nil, or_false] at he
    rcases he with rfl | rfl <;> simp
  rcases this with h | h <;> rw [h]
  · exact ⟨_, t1⟩
  · exact ⟨_, .delta (patch := pA) (par := r1) (by rfl) (by rfl) t1 (by rfl)⟩

theorem allTO_right : AllTO src0 stX tRight := by
  have t1 : TrueOrder src0 stX tRight r1 oa1 := .full (by rfl)
  intro e he
  have : e.rev = r1 ∨ e.rev = r2b := by
    have : tRight.entries = [⟨r1, none, false⟩, ⟨r2b, some r1, true⟩] := by decide
    rw [this] at he; simp only [List.mem_cons, List.not_mem_nil, or_false] at he
    rcases he with rfl | rfl <;> simp
  rcases this with h | h <;> rw [h]
  · exact ⟨_, t1⟩
  · exact ⟨_, .delta (patch := pB) (par := r1) (by rfl) (by rfl) t1 (by rfl)⟩

/-- **`allTO_union` applies**: every revision of the merged tree denotes an array -/
theorem allTO_merged : AllTO src0 stX tA :=
  allTO_union allTO_left allTO_right (by decide) (by decide) (by decide) (by decide) (by decide) (by decide)
    (C12.closed_of_closedB (by decide)) (C12.closed_of_closedB (by decide)) (fun _ _ h => h) (fun _ _ h => h)

/-- **`readInv_of_allTO` applies** to the merged replica (array in conflict: two leaves) -/
theorem readInv_merged : ReadInv (Nfree stX) src0 stX (ordOf src0 stX) := by
  refine readInv_of_allTO sortedX ?_ ?_ rfl ?_
  · intro p hp ha
    have : p = (uA, tA) := by
      simp only [stX, List.mem_cons, List.not_mem_nil, or_false] at hp
      rcases hp with rfl | rfl | rfl | rfl | rfl | rfl
      · rfl
      all_goals exact absurd ha (by decide)
    subst this; exact tA_good
  · intro p hp ha
    have : p = (uA, tA) := by
      simp only [stX, List.mem_cons, List.not_mem_nil, or_false] at hp
      rcases hp with rfl | rfl | rfl | rfl | rfl | rfl
      · rfl
      all_goals exact absurd ha (by decide)
    subst this; exact allTO_merged
  · intro p hp q hq ha hqa hne
    have hp' : p = (uA, tA) := by
      simp only [stX, List.mem_cons, List.not_mem_nil, or_false] at hp
      rcases hp with rfl | rfl | rfl | rfl | rfl | rfl
      · rfl
      all_goals exact absurd ha (by decide)
    have hq' : q = (uA, tA) := by
      simp only [stX, List.mem_cons, List.not_mem_nil, or_false] at hq
      rcases hq with rfl | rfl | rfl | rfl | rfl | rfl
      · rfl
      all_goals exact absurd hqa (by decide)
    rw [hp', hq'] at hne
    exact absurd rfl hne

end Example

end Melda.Props.C01e
