/-
  C05 — the winning revision follows one fixed deterministic rule.
  Theorems about `Melda.RevTree` (`liveLeafs`, `sortRevs`, `maxRev`, `validate`): the leaves are exactly
  the unresolved, childless, root-reachable recorded revisions; the winner is the greatest leaf under
  `Rev.cmp`; both depend only on the SET of recorded revisions, never on insertion order.
  The strict-total-order facts about `Rev.cmp` are taken as the hypothesis structure `CmpOrder`
  (they are proved separately).
-/
import Melda.RevTree
namespace Melda.Props.C05
open Melda Melda.RevTree

/-- the order facts about `Rev.cmp` on the revisions satisfying `P` -/
structure CmpOrder (P : Rev → Prop) : Prop where
  refl : ∀ a, Rev.cmp a a = .eq
  eq_iff : ∀ a b, P a → P b → (Rev.cmp a b = .eq ↔ a = b)
  antisymm : ∀ a b, Rev.cmp a b = .lt ↔ Rev.cmp b a = .gt
  trans : ∀ a b c, Rev.cmp a b = .lt → Rev.cmp b c = .lt → Rev.cmp a c = .lt

def KeysNodup (es : List RtEntry) : Prop := (es.map (·.rev)).Nodup

def WellIndexed (es : List RtEntry) : Prop :=
  ∀ e ∈ es, ∀ p, e.parent = some p → p.index + 1 = e.rev.index

/-- root-reachability as a relation -/
inductive Reaches (es : List RtEntry) : Rev → Prop
  | root (e : RtEntry) : e ∈ es → e.parent = none → e.rev.index = 1 → Reaches es e.rev
  | step (e : RtEntry) (p : Rev) : e ∈ es → e.parent = some p → Reaches es p → Reaches es e.rev

def LiveLeaf (es : List RtEntry) (r : Rev) : Prop :=
  (∃ e ∈ es, e.rev = r) ∧ ¬ r.isResolved ∧ (∀ e ∈ es, e.parent ≠ some r) ∧ Reaches es r

/-! ### `find?` and `unvalidatedAdd` -/

theorem find?_some {es : List RtEntry} {r : Rev} {e : RtEntry} (h : find? es r = some e) :
    e ∈ es ∧ e.rev = r := by
  unfold find? at h
  exact ⟨List.mem_of_find?_eq_some h, by simpa using List.find?_some h⟩

theorem find?_none {es : List RtEntry} {r : Rev} : find? es r = none ↔ ∀ e ∈ es, e.rev ≠ r := by
  unfold find?; simp

theorem find?_of_mem {es : List RtEntry} (hk : KeysNodup es) {e : RtEntry} (he : e ∈ es) :
    find? es e.rev = some e := by
  induction es with
  | nil => cases he
  | cons x xs ih =>
    unfold find?
    simp only [List.find?_cons]
    have hk' : x.rev ∉ xs.map (·.rev) ∧ (xs.map (·.rev)).Nodup := by
      simpa [KeysNodup] using hk
    by_cases hx : x.rev = e.rev
    · simp only [hx, decide_true]
      rcases List.mem_cons.mp he with h | h
      · rw [h]
      · exact absurd (List.mem_map.mpr ⟨e, h, hx.symm⟩) hk'.1
    · simp only [hx, decide_false]
      rcases List.mem_cons.mp he with h | h
      · exact absurd (by rw [h]) hx
      · exact ih hk'.2 h

theorem find?_eq_some_iff {es : List RtEntry} (hk : KeysNodup es) {r : Rev} {e : RtEntry} :
    find? es r = some e ↔ e ∈ es ∧ e.rev = r :=
  ⟨find?_some, fun ⟨h1, h2⟩ => h2 ▸ find?_of_mem hk h1⟩

theorem contains_iff (t : RevTree) (r : Rev) : t.contains r = true ↔ ∃ e ∈ t.entries, e.rev = r := by
  unfold contains
  cases h : find? t.entries r with
  | none => simp; exact fun e he => find?_none.mp h e he
  | some e => simp; exact ⟨e, find?_some h⟩

/-- `unvalidated_add` never records the same revision twice -/
theorem unvalidatedAdd_keysNodup (t : RevTree) (r : Rev) (p : Option Rev) (s : Bool)
    (hk : KeysNodup t.entries) : KeysNodup (t.unvalidatedAdd r p s).1.entries := by
  unfold unvalidatedAdd
  split
  · exact hk
  · next hc =>
    have hn : ∀ e ∈ t.entries, e.rev ≠ r := by
      intro e he heq
      exact hc ((contains_iff t r).mpr ⟨e, he, heq⟩)
    simp only [KeysNodup, List.map_append, List.map_cons, List.map_nil]
    refine List.nodup_append.mpr ⟨hk, by simp, ?_⟩
    intro a ha b hb
    simp only [List.mem_singleton] at hb
    obtain ⟨e, he, rfl⟩ := List.mem_map.mp ha
    rw [hb]; exact hn e he

theorem add_keysNodup (t : RevTree) (r : Rev) (p : Option Rev) (s : Bool)
    (hk : KeysNodup t.entries) : KeysNodup (t.add r p s).1.entries := by
  have := unvalidatedAdd_keysNodup t r p s hk
  unfold add
  split
  next t' ok heq =>
  rw [heq] at this
  split <;> simpa [validate] using this

/-! ### `reachesRoot` ⇔ `Reaches` -/

theorem reachesRoot_sound {es : List RtEntry} {fuel : Nat} {r : Rev}
    (h : reachesRoot es fuel r = true) : Reaches es r := by
  induction fuel generalizing r with
  | zero => simp [reachesRoot] at h
  | succ n ih =>
    unfold reachesRoot at h
    split at h
    · cases h
    · next e he =>
      obtain ⟨hm, hr⟩ := find?_some he
      subst hr
      split at h
      · next hp => exact Reaches.root e hm hp (by simpa using h)
      · next p hp => exact Reaches.step e p hm hp (ih h)

theorem Reaches.index_pos {es : List RtEntry} {r : Rev} (h : Reaches es r) (hw : WellIndexed es) :
    1 ≤ r.index := by
  cases h with
  | root e _ _ h1 => omega
  | step e p hm hp _ => have := hw e hm p hp; omega

theorem reachesRoot_complete_index {es : List RtEntry} {r : Rev} (h : Reaches es r)
    (hk : KeysNodup es) (hw : WellIndexed es) : ∀ fuel, r.index ≤ fuel → reachesRoot es fuel r = true := by
  induction h with
  | root e hm hp h1 =>
    intro fuel hf
    obtain ⟨n, rfl⟩ : ∃ n, fuel = n + 1 := ⟨fuel - 1, by omega⟩
    unfold reachesRoot
    rw [find?_of_mem hk hm]
    simp [hp, h1]
  | step e p hm hp _ ih =>
    intro fuel hf
    have := hw e hm p hp
    obtain ⟨n, rfl⟩ : ∃ n, fuel = n + 1 := ⟨fuel - 1, by omega⟩
    unfold reachesRoot
    rw [find?_of_mem hk hm]
    simp only [hp]
    exact ih n (by omega)

/-- every index between 1 and `r.index` is the index of a recorded revision -/
theorem Reaches.all_indices {es : List RtEntry} {r : Rev} (h : Reaches es r) (hw : WellIndexed es) :
    ∀ k, 1 ≤ k → k ≤ r.index → ∃ e ∈ es, e.rev.index = k := by
  induction h with
  | root e hm hp h1 => intro k h1 h2; exact ⟨e, hm, by omega⟩
  | step e p hm hp _ ih =>
    intro k h1 h2
    have := hw e hm p hp
    by_cases hk : k = e.rev.index
    · exact ⟨e, hm, hk.symm⟩
    · exact ih k h1 (by omega)

/-- pigeonhole: a list of naturals containing `1..n` has at least `n` elements -/
theorem length_ge_of_range (n : Nat) (l : List Nat) (h : ∀ k, 1 ≤ k → k ≤ n → k ∈ l) : n ≤ l.length := by
  induction n generalizing l with
  | zero => omega
  | succ m ih =>
    have hm : m + 1 ∈ l := h (m + 1) (by omega) (by omega)
    have := ih (l.erase (m + 1)) (fun k h1 h2 => (List.mem_erase_of_ne (by omega)).mpr (h k h1 (by omega)))
    rw [List.length_erase_of_mem hm] at this
    have : 0 < l.length := List.length_pos_of_mem hm
    omega

theorem Reaches.index_le_length {es : List RtEntry} {r : Rev} (h : Reaches es r) (hw : WellIndexed es) :
    r.index ≤ es.length := by
  have := length_ge_of_range r.index (es.map (·.rev.index)) (fun k h1 h2 => by
    obtain ⟨e, he, hk⟩ := h.all_indices hw k h1 h2
    exact List.mem_map.mpr ⟨e, he, hk⟩)
  simpa using this

/-- completeness of the fuelled walk with the fuel `validate` uses -/
theorem reachesRoot_complete {es : List RtEntry} {r : Rev} (h : Reaches es r)
    (hk : KeysNodup es) (hw : WellIndexed es) : reachesRoot es (es.length + 1) r = true :=
  reachesRoot_complete_index h hk hw _ (by have := h.index_le_length hw; omega)

theorem reachesRoot_iff {es : List RtEntry} (hk : KeysNodup es) (hw : WellIndexed es) (r : Rev) :
    reachesRoot es (es.length + 1) r = true ↔ Reaches es r :=
  ⟨reachesRoot_sound, fun h => reachesRoot_complete h hk hw⟩

/-! ### live leaves -/

theorem isParent_iff (es : List RtEntry) (r : Rev) : isParent es r = true ↔ ∃ e ∈ es, e.parent = some r := by
  unfold isParent; simp

theorem mem_liveLeafs_iff {es : List RtEntry} (hk : KeysNodup es) (hw : WellIndexed es) (r : Rev) :
    r ∈ liveLeafs es ↔ LiveLeaf es r := by
  unfold liveLeafs LiveLeaf
  simp only [List.mem_map, List.mem_filter, Bool.and_eq_true, Bool.not_eq_true']
  constructor
  · rintro ⟨e, ⟨he, ⟨h1, h2⟩, h3⟩, rfl⟩
    refine ⟨⟨e, he, rfl⟩, by simp [h1], ?_, reachesRoot_sound h3⟩
    intro e' he' hp
    have : isParent es e.rev = true := (isParent_iff es e.rev).mpr ⟨e', he', hp⟩
    rw [h2] at this; cases this
  · rintro ⟨⟨e, he, rfl⟩, h1, h2, h3⟩
    refine ⟨e, ⟨he, ⟨by simpa using h1, ?_⟩, reachesRoot_complete h3 hk hw⟩, rfl⟩
    cases hp : isParent es e.rev with
    | false => rfl
    | true => obtain ⟨e', he', hp'⟩ := (isParent_iff es e.rev).mp hp; exact absurd hp' (h2 e' he')

theorem liveLeafs_subset (es : List RtEntry) (r : Rev) (h : r ∈ liveLeafs es) : ∃ e ∈ es, e.rev = r := by
  unfold liveLeafs at h
  obtain ⟨e, he, rfl⟩ := List.mem_map.mp h
  exact ⟨e, (List.mem_filter.mp he).1, rfl⟩

theorem liveLeafs_nodup {es : List RtEntry} (hk : KeysNodup es) : (liveLeafs es).Nodup := by
  unfold liveLeafs
  exact List.Sublist.nodup (List.Sublist.map _ List.filter_sublist) hk

/-! ### `maxRev` -/

/-- the fold step of `maxRev` -/
def stepMax (best : Option Rev) (r : Rev) : Option Rev :=
  match best with
  | none => some r
  | some b => if Rev.cmp r b = .gt then some r else some b

theorem maxRev_eq_foldl (l : List Rev) : maxRev l = l.foldl stepMax none := rfl

theorem cmp_ne_gt_trans {P : Rev → Prop} (ho : CmpOrder P) {x b r : Rev} (hx : P x) (hb : P b)
    (h1 : Rev.cmp x b ≠ .gt) (h2 : Rev.cmp r b = .gt) : Rev.cmp x r ≠ .gt := by
  intro h3
  have hrx : Rev.cmp r x = .lt := (ho.antisymm r x).mpr h3
  cases hxb : Rev.cmp x b with
  | gt => exact h1 hxb
  | lt =>
    have := ho.trans r x b hrx hxb
    rw [this] at h2; cases h2
  | eq =>
    have : x = b := (ho.eq_iff x b hx hb).mp hxb
    subst this
    rw [hrx] at h2; cases h2

theorem foldl_stepMax_some {P : Rev → Prop} (ho : CmpOrder P) (l : List Rev) (b : Rev) (seen : List Rev)
    (hP : ∀ x ∈ l, P x) (hPs : ∀ x ∈ seen, P x) (hbP : P b)
    (hb : b ∈ seen) (hmax : ∀ x ∈ seen, Rev.cmp x b ≠ .gt) :
    ∃ w, l.foldl stepMax (some b) = some w ∧ (w ∈ seen ∨ w ∈ l) ∧
      (∀ x ∈ seen, Rev.cmp x w ≠ .gt) ∧ (∀ x ∈ l, Rev.cmp x w ≠ .gt) := by
  induction l generalizing b seen with
  | nil => exact ⟨b, rfl, Or.inl hb, hmax, by simp⟩
  | cons r rs ih =>
    simp only [List.foldl_cons, stepMax]
    have hrP : P r := hP r (by simp)
    have hPrs : ∀ x ∈ rs, P x := fun x hx => hP x (List.mem_cons_of_mem _ hx)
    have hPs' : ∀ x ∈ r :: seen, P x := by
      intro x hx; rcases List.mem_cons.mp hx with rfl | h; exact hrP; exact hPs x h
    split
    · next hgt =>
      obtain ⟨w, hw, hmem, hs, hl⟩ := ih r (r :: seen) hPrs hPs' hrP (by simp) (by
        intro x hx
        rcases List.mem_cons.mp hx with rfl | h
        · rw [ho.refl]; simp
        · exact cmp_ne_gt_trans ho (hPs x h) hbP (hmax x h) hgt)
      refine ⟨w, hw, ?_, fun x hx => hs x (List.mem_cons_of_mem _ hx), ?_⟩
      · rcases hmem with h | h
        · rcases List.mem_cons.mp h with rfl | h
          · exact Or.inr (by simp)
          · exact Or.inl h
        · exact Or.inr (List.mem_cons_of_mem _ h)
      · intro x hx
        rcases List.mem_cons.mp hx with rfl | h
        · exact hs _ (by simp)
        · exact hl x h
    · next hngt =>
      obtain ⟨w, hw, hmem, hs, hl⟩ := ih b (r :: seen) hPrs hPs' hbP (List.mem_cons_of_mem _ hb) (by
        intro x hx
        rcases List.mem_cons.mp hx with rfl | h
        · exact hngt
        · exact hmax x h)
      refine ⟨w, hw, ?_, fun x hx => hs x (List.mem_cons_of_mem _ hx), ?_⟩
      · rcases hmem with h | h
        · rcases List.mem_cons.mp h with rfl | h
          · exact Or.inr (by simp)
          · exact Or.inl h
        · exact Or.inr (List.mem_cons_of_mem _ h)
      · intro x hx
        rcases List.mem_cons.mp hx with rfl | h
        · exact hs _ (by simp)
        · exact hl x h

theorem maxRev_none_iff (l : List Rev) : maxRev l = none ↔ l = [] := by
  constructor
  · intro h
    cases l with
    | nil => rfl
    | cons r rs =>
      exfalso
      rw [maxRev_eq_foldl, List.foldl_cons] at h
      have : ∀ (l : List Rev) (b : Rev), l.foldl stepMax (some b) ≠ none := by
        intro l
        induction l with
        | nil => intro b h; cases h
        | cons x xs ih =>
          intro b
          simp only [List.foldl_cons, stepMax]
          split <;> exact ih _
      exact this rs r h
  · rintro rfl; rfl

/-- the result of `maxRev` is a greatest element -/
theorem maxRev_max {P : Rev → Prop} (ho : CmpOrder P) {l : List Rev} (hP : ∀ x ∈ l, P x) {w : Rev}
    (h : maxRev l = some w) : w ∈ l ∧ ∀ x ∈ l, Rev.cmp x w ≠ .gt := by
  cases l with
  | nil => cases h
  | cons r rs =>
    rw [maxRev_eq_foldl, List.foldl_cons] at h
    obtain ⟨w', hw', hmem, hs, hl⟩ := foldl_stepMax_some ho rs r [r]
      (fun x hx => hP x (List.mem_cons_of_mem _ hx)) (by simpa using hP r (by simp)) (hP r (by simp))
      (by simp) (by simp [ho.refl])
    have : stepMax none r = some r := rfl
    rw [this, hw'] at h
    cases h
    refine ⟨?_, ?_⟩
    · rcases hmem with h | h
      · simp at h; simp [h]
      · exact List.mem_cons_of_mem _ h
    · intro x hx
      rcases List.mem_cons.mp hx with rfl | h
      · exact hs _ (by simp)
      · exact hl x h

/-- **`maxRev` returns THE greatest element** (no distinctness hypothesis is needed) -/
theorem maxRev_spec {P : Rev → Prop} (ho : CmpOrder P) {l : List Rev} (hP : ∀ x ∈ l, P x) (w : Rev) :
    maxRev l = some w ↔ w ∈ l ∧ ∀ x ∈ l, Rev.cmp x w ≠ .gt := by
  constructor
  · exact maxRev_max ho hP
  · rintro ⟨hw, hmax⟩
    cases hm : maxRev l with
    | none => rw [(maxRev_none_iff l).mp hm] at hw; cases hw
    | some w' =>
      obtain ⟨hw', hmax'⟩ := maxRev_max ho hP hm
      have h1 : Rev.cmp w w' ≠ .gt := hmax' w hw
      have h2 : Rev.cmp w' w ≠ .gt := hmax w' hw'
      have h3 : Rev.cmp w w' ≠ .lt := fun h => h2 ((ho.antisymm w w').mp h)
      have : Rev.cmp w w' = .eq := by
        cases h : Rev.cmp w w' with
        | lt => exact absurd h h3
        | gt => exact absurd h h1
        | eq => rfl
      rw [(ho.eq_iff w w' (hP w hw) (hP w' hw')).mp this]

/-! ### the winner -/

theorem validate_winner (t : RevTree) : (validate t).winner = maxRev (liveLeafs t.entries) := rfl
theorem validate_leafs (t : RevTree) : (validate t).leafs = sortRevs (liveLeafs t.entries) := rfl
theorem validate_entries (t : RevTree) : (validate t).entries = t.entries := rfl

/-- **The winner is the greatest live leaf under `Rev.cmp`, and nothing else.** -/
theorem winner_spec {P : Rev → Prop} (ho : CmpOrder P) (t : RevTree)
    (hk : KeysNodup t.entries) (hw : WellIndexed t.entries) (hP : ∀ e ∈ t.entries, P e.rev) (w : Rev) :
    (validate t).winner = some w ↔
      LiveLeaf t.entries w ∧ ∀ l, LiveLeaf t.entries l → Rev.cmp l w ≠ .gt := by
  have hPl : ∀ x ∈ liveLeafs t.entries, P x := by
    intro x hx
    obtain ⟨e, he, rfl⟩ := liveLeafs_subset _ _ hx
    exact hP e he
  rw [validate_winner, maxRev_spec ho hPl, mem_liveLeafs_iff hk hw]
  constructor
  · rintro ⟨h1, h2⟩; exact ⟨h1, fun l hl => h2 l ((mem_liveLeafs_iff hk hw l).mpr hl)⟩
  · rintro ⟨h1, h2⟩; exact ⟨h1, fun l hl => h2 l ((mem_liveLeafs_iff hk hw l).mp hl)⟩

/-- there is no winner exactly when there is no live leaf -/
theorem winner_none_iff (t : RevTree) (hk : KeysNodup t.entries) (hw : WellIndexed t.entries) :
    (validate t).winner = none ↔ ∀ r, ¬ LiveLeaf t.entries r := by
  rw [validate_winner, maxRev_none_iff]
  constructor
  · intro h r hr
    have := (mem_liveLeafs_iff hk hw r).mpr hr
    rw [h] at this; cases this
  · intro h
    cases hl : liveLeafs t.entries with
    | nil => rfl
    | cons x xs => exact absurd ((mem_liveLeafs_iff hk hw x).mp (by rw [hl]; simp)) (h x)

/-! ### `sortRevs` -/

theorem mem_insertSorted_imp {r x : Rev} {l : List Rev} (h : r ∈ insertSorted x l) : r = x ∨ r ∈ l := by
  induction l with
  | nil => simpa [insertSorted] using h
  | cons y ys ih =>
    unfold insertSorted at h
    split at h
    · simpa using h
    · exact Or.inr h
    · rcases List.mem_cons.mp h with h | h
      · exact Or.inr (by simp [h])
      · rcases ih h with h | h
        · exact Or.inl h
        · exact Or.inr (List.mem_cons_of_mem _ h)

theorem mem_insertSorted {P : Rev → Prop} (ho : CmpOrder P) {r x : Rev} {l : List Rev}
    (hx : P x) (hl : ∀ y ∈ l, P y) : r ∈ insertSorted x l ↔ r = x ∨ r ∈ l := by
  refine ⟨mem_insertSorted_imp, ?_⟩
  induction l with
  | nil => intro h; simpa [insertSorted] using h
  | cons y ys ih =>
    have hy : P y := hl y (by simp)
    have hys : ∀ z ∈ ys, P z := fun z hz => hl z (List.mem_cons_of_mem _ hz)
    intro h
    unfold insertSorted
    split
    · simpa using h
    · next heq =>
      have : x = y := (ho.eq_iff x y hx hy).mp heq
      rcases h with h | h
      · rw [h, this]; simp
      · exact h
    · rcases h with h | h
      · exact List.mem_cons_of_mem _ (ih hys (Or.inl h))
      · rcases List.mem_cons.mp h with h | h
        · simp [h]
        · exact List.mem_cons_of_mem _ (ih hys (Or.inr h))

theorem foldl_insertSorted_mem {P : Rev → Prop} (ho : CmpOrder P) (l acc : List Rev)
    (hl : ∀ y ∈ l, P y) (hacc : ∀ y ∈ acc, P y) (r : Rev) :
    r ∈ l.foldl (fun acc r => insertSorted r acc) acc ↔ r ∈ acc ∨ r ∈ l := by
  induction l generalizing acc with
  | nil => simp
  | cons x xs ih =>
    have hx : P x := hl x (by simp)
    have hxs : ∀ z ∈ xs, P z := fun z hz => hl z (List.mem_cons_of_mem _ hz)
    simp only [List.foldl_cons]
    rw [ih (insertSorted x acc) hxs (by
      intro y hy
      rcases mem_insertSorted_imp hy with rfl | h
      · exact hx
      · exact hacc y h), mem_insertSorted ho hx hacc]
    simp only [List.mem_cons]
    constructor
    · rintro ((h | h) | h); exact Or.inr (Or.inl h); exact Or.inl h; exact Or.inr (Or.inr h)
    · rintro (h | h | h); exact Or.inl (Or.inr h); exact Or.inl (Or.inl h); exact Or.inr h

/-- the sorted leaf cache has exactly the given elements -/
theorem mem_sortRevs {P : Rev → Prop} (ho : CmpOrder P) {l : List Rev} (hl : ∀ y ∈ l, P y) (r : Rev) :
    r ∈ sortRevs l ↔ r ∈ l := by
  unfold sortRevs
  rw [foldl_insertSorted_mem ho l [] hl (by simp)]
  simp

def Sorted (l : List Rev) : Prop := l.Pairwise (fun a b => Rev.cmp a b = .lt)

theorem insertSorted_sorted {P : Rev → Prop} (ho : CmpOrder P) (x : Rev) (l : List Rev) (h : Sorted l) :
    Sorted (insertSorted x l) := by
  induction l with
  | nil => simp [insertSorted, Sorted]
  | cons y ys ih =>
    have hy := List.pairwise_cons.mp h
    unfold insertSorted
    split
    · next hlt =>
      refine List.pairwise_cons.mpr ⟨?_, h⟩
      intro z hz
      rcases List.mem_cons.mp hz with rfl | hz
      · exact hlt
      · exact ho.trans x y z hlt (hy.1 z hz)
    · exact h
    · next hgt =>
      refine List.pairwise_cons.mpr ⟨?_, ih hy.2⟩
      intro z hz
      rcases mem_insertSorted_imp hz with rfl | hz
      · exact (ho.antisymm y z).mpr hgt
      · exact hy.1 z hz

/-- the leaf cache is strictly increasing under `Rev.cmp` (`BTreeSet` iteration order) -/
theorem sortRevs_sorted {P : Rev → Prop} (ho : CmpOrder P) (l : List Rev) : Sorted (sortRevs l) := by
  unfold sortRevs
  have : ∀ (l acc : List Rev), Sorted acc → Sorted (l.foldl (fun acc r => insertSorted r acc) acc) := by
    intro l
    induction l with
    | nil => intro acc h; exact h
    | cons x xs ih => intro acc h; exact ih _ (insertSorted_sorted ho x acc h)
  exact this l [] (by simp [Sorted])

/-- two strictly sorted lists with the same elements are equal -/
theorem sorted_ext {P : Rev → Prop} (ho : CmpOrder P) :
    ∀ (l₁ l₂ : List Rev), Sorted l₁ → Sorted l₂ → (∀ r, r ∈ l₁ ↔ r ∈ l₂) → l₁ = l₂ := by
  have irrefl : ∀ a, Rev.cmp a a ≠ .lt := fun a h => by rw [ho.refl] at h; cases h
  have asym : ∀ a b, Rev.cmp a b = .lt → Rev.cmp b a ≠ .lt := by
    intro a b h1 h2
    have := (ho.antisymm b a).mp h2
    rw [h1] at this; cases this
  intro l₁
  induction l₁ with
  | nil =>
    intro l₂ _ _ h
    cases l₂ with
    | nil => rfl
    | cons b t => exact absurd ((h b).mpr (by simp)) (by simp)
  | cons a t₁ ih =>
    intro l₂ h1 h2 h
    cases l₂ with
    | nil => exact absurd ((h a).mp (by simp)) (by simp)
    | cons b t₂ =>
      have s1 := List.pairwise_cons.mp h1
      have s2 := List.pairwise_cons.mp h2
      have hab : a = b := by
        rcases List.mem_cons.mp ((h a).mp (by simp)) with e | ha
        · exact e
        · rcases List.mem_cons.mp ((h b).mpr (by simp)) with e | hb
          · exact e.symm
          · exact absurd (s2.1 a ha) (asym a b (s1.1 b hb))
      subst hab
      congr 1
      apply ih t₂ s1.2 s2.2
      intro r
      constructor
      · intro hr
        rcases List.mem_cons.mp ((h r).mp (List.mem_cons_of_mem _ hr)) with e | h'
        · subst e; exact absurd (s1.1 r hr) (irrefl r)
        · exact h'
      · intro hr
        rcases List.mem_cons.mp ((h r).mpr (List.mem_cons_of_mem _ hr)) with e | h'
        · subst e; exact absurd (s2.1 r hr) (irrefl r)
        · exact h'

/-- `(validate t).leafs` has exactly the live leaves -/
theorem mem_leafs_iff {P : Rev → Prop} (ho : CmpOrder P) (t : RevTree)
    (hk : KeysNodup t.entries) (hw : WellIndexed t.entries) (hP : ∀ e ∈ t.entries, P e.rev) (r : Rev) :
    r ∈ (validate t).leafs ↔ LiveLeaf t.entries r := by
  rw [validate_leafs, mem_sortRevs ho (fun y hy => by
    obtain ⟨e, he, rfl⟩ := liveLeafs_subset _ _ hy; exact hP e he), mem_liveLeafs_iff hk hw]

theorem sorted_nodup {P : Rev → Prop} (ho : CmpOrder P) {l : List Rev} (h : Sorted l) : l.Nodup := by
  refine List.Pairwise.imp ?_ h
  intro a b hab e
  subst e
  rw [ho.refl] at hab; cases hab

/-! ### order independence -/

theorem keysNodup_perm {es₁ es₂ : List RtEntry} (hp : es₁.Perm es₂) (hk : KeysNodup es₁) : KeysNodup es₂ :=
  (List.Perm.nodup_iff (hp.map _)).mp hk

theorem wellIndexed_perm {es₁ es₂ : List RtEntry} (hp : es₁.Perm es₂) (hw : WellIndexed es₁) :
    WellIndexed es₂ := fun e he => hw e (hp.mem_iff.mpr he)

theorem find?_perm {es₁ es₂ : List RtEntry} (hp : es₁.Perm es₂) (hk : KeysNodup es₁) (r : Rev) :
    find? es₁ r = find? es₂ r := by
  have hk2 := keysNodup_perm hp hk
  cases h : find? es₁ r with
  | none =>
    symm
    exact find?_none.mpr (fun e he => find?_none.mp h e (hp.mem_iff.mpr he))
  | some e =>
    symm
    obtain ⟨h1, h2⟩ := find?_some h
    exact (find?_eq_some_iff hk2).mpr ⟨hp.mem_iff.mp h1, h2⟩

theorem reachesRoot_perm {es₁ es₂ : List RtEntry} (hp : es₁.Perm es₂) (hk : KeysNodup es₁)
    (fuel : Nat) (r : Rev) : reachesRoot es₁ fuel r = reachesRoot es₂ fuel r := by
  induction fuel generalizing r with
  | zero => rfl
  | succ n ih =>
    unfold reachesRoot
    rw [find?_perm hp hk r]
    split
    · rfl
    · split
      · rfl
      · exact ih _

theorem isParent_perm {es₁ es₂ : List RtEntry} (hp : es₁.Perm es₂) (r : Rev) :
    isParent es₁ r = isParent es₂ r := by
  rw [Bool.eq_iff_iff, isParent_iff, isParent_iff]
  constructor
  · rintro ⟨e, he, h⟩; exact ⟨e, hp.mem_iff.mp he, h⟩
  · rintro ⟨e, he, h⟩; exact ⟨e, hp.mem_iff.mpr he, h⟩

/-- **Order independence of the leaves**: permuting the recorded entries permutes the candidate list -/
theorem liveLeafs_perm {es₁ es₂ : List RtEntry} (hp : es₁.Perm es₂) (hk : KeysNodup es₁) :
    (liveLeafs es₁).Perm (liveLeafs es₂) := by
  unfold liveLeafs
  have : (fun e : RtEntry => !e.rev.isResolved && !isParent es₁ e.rev && reachesRoot es₁ (es₁.length + 1) e.rev)
       = (fun e : RtEntry => !e.rev.isResolved && !isParent es₂ e.rev && reachesRoot es₂ (es₂.length + 1) e.rev) := by
    funext e
    rw [isParent_perm hp, reachesRoot_perm hp hk, hp.length_eq]
  rw [this]
  exact (hp.filter _).map _

theorem mem_liveLeafs_perm {es₁ es₂ : List RtEntry} (hp : es₁.Perm es₂) (hk : KeysNodup es₁) (r : Rev) :
    r ∈ liveLeafs es₁ ↔ r ∈ liveLeafs es₂ := (liveLeafs_perm hp hk).mem_iff

/-- `maxRev` depends only on the set of elements -/
theorem maxRev_congr {P : Rev → Prop} (ho : CmpOrder P) {l₁ l₂ : List Rev} (hP : ∀ x ∈ l₁, P x)
    (h : ∀ r, r ∈ l₁ ↔ r ∈ l₂) : maxRev l₁ = maxRev l₂ := by
  have hP2 : ∀ x ∈ l₂, P x := fun x hx => hP x ((h x).mpr hx)
  apply Option.ext
  intro w
  rw [maxRev_spec ho hP, maxRev_spec ho hP2, h w]
  constructor
  · rintro ⟨h1, h2⟩; exact ⟨h1, fun x hx => h2 x ((h x).mpr hx)⟩
  · rintro ⟨h1, h2⟩; exact ⟨h1, fun x hx => h2 x ((h x).mp hx)⟩

/-- **Order independence of the winner**: trees recording the same set of revisions
    (in any insertion order, with any cached fields) elect the same winner. -/
theorem winner_perm {P : Rev → Prop} (ho : CmpOrder P) (t₁ t₂ : RevTree)
    (hp : t₁.entries.Perm t₂.entries) (hk : KeysNodup t₁.entries) (hP : ∀ e ∈ t₁.entries, P e.rev) :
    (validate t₁).winner = (validate t₂).winner := by
  rw [validate_winner, validate_winner]
  exact maxRev_congr ho (fun x hx => by
    obtain ⟨e, he, rfl⟩ := liveLeafs_subset _ _ hx; exact hP e he) (mem_liveLeafs_perm hp hk)

/-- **Order independence of the leaf cache**: the sorted leaf lists are EQUAL. -/
theorem leafs_perm {P : Rev → Prop} (ho : CmpOrder P) (t₁ t₂ : RevTree)
    (hp : t₁.entries.Perm t₂.entries) (hk : KeysNodup t₁.entries) (hP : ∀ e ∈ t₁.entries, P e.rev) :
    (validate t₁).leafs = (validate t₂).leafs := by
  rw [validate_leafs, validate_leafs]
  apply sorted_ext ho _ _ (sortRevs_sorted ho _) (sortRevs_sorted ho _)
  intro r
  have hP1 : ∀ y ∈ liveLeafs t₁.entries, P y := fun y hy => by
    obtain ⟨e, he, rfl⟩ := liveLeafs_subset _ _ hy; exact hP e he
  have hP2 : ∀ y ∈ liveLeafs t₂.entries, P y := fun y hy => by
    obtain ⟨e, he, rfl⟩ := liveLeafs_subset _ _ hy; exact hP e (hp.mem_iff.mpr he)
  rw [mem_sortRevs ho hP1, mem_sortRevs ho hP2]
  exact mem_liveLeafs_perm hp hk r

/-! ### conflicts -/

/-- an object is in conflict when more than one live leaf remains (`leafs.len() > 1`) -/
def inConflict (t : RevTree) : Prop := 1 < t.leafs.length

/-- the conflicting revisions: the leaves other than the winner -/
def conflicting (t : RevTree) : List Rev := t.leafs.filter (fun r => some r != t.winner)

instance (t : RevTree) : Decidable (inConflict t) := by unfold inConflict; infer_instance

/-- the winner is one of the leaves of the cache -/
theorem winner_mem_leafs {P : Rev → Prop} (ho : CmpOrder P) (t : RevTree)
    (hP : ∀ e ∈ t.entries, P e.rev) {w : Rev} (h : (validate t).winner = some w) :
    w ∈ (validate t).leafs := by
  have hPl : ∀ x ∈ liveLeafs t.entries, P x := fun y hy => by
    obtain ⟨e, he, rfl⟩ := liveLeafs_subset _ _ hy; exact hP e he
  rw [validate_leafs, mem_sortRevs ho hPl]
  exact (maxRev_max ho hPl h).1

/-- **Conflict characterisation**: the conflicting revisions of a validated tree are exactly the live
    leaves that lost, each strictly smaller than the winner. -/
theorem conflict_spec {P : Rev → Prop} (ho : CmpOrder P) (t : RevTree)
    (hk : KeysNodup t.entries) (hw : WellIndexed t.entries) (hP : ∀ e ∈ t.entries, P e.rev)
    {w : Rev} (hwin : (validate t).winner = some w) (r : Rev) :
    r ∈ conflicting (validate t) ↔ LiveLeaf t.entries r ∧ r ≠ w ∧ Rev.cmp r w = .lt := by
  unfold conflicting
  rw [List.mem_filter, mem_leafs_iff ho t hk hw hP, hwin]
  obtain ⟨hwl, hmax⟩ := (winner_spec ho t hk hw hP w).mp hwin
  constructor
  · rintro ⟨h1, h2⟩
    have hne : r ≠ w := by intro e; subst e; simp at h2
    refine ⟨h1, hne, ?_⟩
    have hPr : P r := by obtain ⟨⟨e, he, rfl⟩, _⟩ := h1; exact hP e he
    have hPw : P w := by obtain ⟨⟨e, he, rfl⟩, _⟩ := hwl; exact hP e he
    cases h : Rev.cmp r w with
    | lt => rfl
    | gt => exact absurd h (hmax r h1)
    | eq => exact absurd ((ho.eq_iff r w hPr hPw).mp h) hne
  · rintro ⟨h1, h2, _⟩
    exact ⟨h1, by simpa using h2⟩

/-- in conflict iff at least two distinct live leaves; then the losers list is non-empty
    and has exactly `leafs.length - 1` elements -/
theorem conflicting_length {P : Rev → Prop} (ho : CmpOrder P) (t : RevTree)
    (hP : ∀ e ∈ t.entries, P e.rev) {w : Rev} (hwin : (validate t).winner = some w) :
    (conflicting (validate t)).length + 1 = (validate t).leafs.length := by
  have hmem := winner_mem_leafs ho t hP hwin
  have hnd : (validate t).leafs.Nodup := sorted_nodup ho (sortRevs_sorted ho _)
  unfold conflicting
  rw [hwin]
  generalize (validate t).leafs = l at hmem hnd
  induction l with
  | nil => cases hmem
  | cons x xs ih =>
    have hx := List.nodup_cons.mp hnd
    by_cases hxw : x = w
    · subst hxw
      have : xs.filter (fun r => some r != some x) = xs := by
        apply List.filter_eq_self.mpr
        intro a ha
        have : a ≠ x := fun e => hx.1 (e ▸ ha)
        simpa using this
      simp [this]
    · have hw' : w ∈ xs := by
        rcases List.mem_cons.mp hmem with e | h
        · exact absurd e.symm hxw
        · exact h
      have := ih hw' hx.2
      simp [hxw]
      omega

theorem inConflict_iff {P : Rev → Prop} (ho : CmpOrder P) (t : RevTree)
    (hP : ∀ e ∈ t.entries, P e.rev) {w : Rev} (hwin : (validate t).winner = some w) :
    inConflict (validate t) ↔ conflicting (validate t) ≠ [] := by
  have := conflicting_length ho t hP hwin
  unfold inConflict
  rw [← this]
  cases h : conflicting (validate t) with
  | nil => simp
  | cons x xs => simp

/-! ### non-vacuity -/

section Example
def H : Bytes → Str := fun _ => "0123456789abcdef".toList

def r1 : Rev := Rev.mk1 "aa".toList
def r2a : Rev := Rev.upd H "bb".toList r1
def r2b : Rev := Rev.upd H "cc".toList r1
def r3 : Rev := Rev.res H r2a

/-- root, two children, one resolution marker on the first child -/
def exEntries : List RtEntry :=
  [⟨r1, none, false⟩, ⟨r2a, some r1, false⟩, ⟨r2b, some r1, false⟩, ⟨r3, some r2a, false⟩]

def exEntries' : List RtEntry :=
  [⟨r3, some r2a, false⟩, ⟨r2b, some r1, false⟩, ⟨r1, none, false⟩, ⟨r2a, some r1, false⟩]

/-- a tree with two live leaves (conflict) -/
def exEntries2 : List RtEntry :=
  [⟨r1, none, false⟩, ⟨r2a, some r1, false⟩, ⟨r2b, some r1, false⟩]

instance : DecidablePred (fun es => KeysNodup es) := fun es => by unfold KeysNodup; infer_instance
def wellIndexedB (es : List RtEntry) : Bool :=
  es.all (fun e => match e.parent with | none => true | some p => p.index + 1 == e.rev.index)

theorem wellIndexedB_iff (es : List RtEntry) : wellIndexedB es = true ↔ WellIndexed es := by
  unfold wellIndexedB WellIndexed
  rw [List.all_eq_true]
  constructor
  · intro h e he p hp; have := h e he; rw [hp] at this; simpa using this
  · intro h e he
    cases hp : e.parent with
    | none => rfl
    | some p => simpa using h e he p hp

instance (es : List RtEntry) : Decidable (WellIndexed es) :=
  decidable_of_iff _ (wellIndexedB_iff es)

example : KeysNodup exEntries := by decide
example : WellIndexed exEntries := by decide
example : liveLeafs exEntries = [r2b] := by decide
example : (validate ⟨exEntries, false, [], none, false⟩).leafs = [r2b] := by decide
example : (validate ⟨exEntries, false, [], none, false⟩).winner = some r2b := by decide
example : (validate ⟨exEntries', false, [], none, false⟩).winner = some r2b := by decide
example : exEntries.Perm exEntries' := by decide
example : (validate ⟨exEntries2, false, [], none, false⟩).leafs = [r2a, r2b] := by decide
example : (validate ⟨exEntries2, false, [], none, false⟩).winner = some r2b := by decide
example : inConflict (validate ⟨exEntries2, false, [], none, false⟩) := by decide
example : conflicting (validate ⟨exEntries2, false, [], none, false⟩) = [r2a] := by decide
example : Reaches exEntries r3 :=
  Reaches.step ⟨r3, some r2a, false⟩ r2a (by decide) rfl
    (Reaches.step ⟨r2a, some r1, false⟩ r1 (by decide) rfl (Reaches.root ⟨r1, none, false⟩ (by decide) rfl rfl))

/-! #### the hypothesis structure `CmpOrder` is satisfiable (on the revisions of the example) -/

theorem strLt_irrefl (a : Str) : strLt a a = false := by
  induction a with
  | nil => rfl
  | cons x xs ih => simp [strLt, ih]

theorem strLt_asymm (a b : Str) (h : strLt a b = true) : strLt b a = false := by
  induction a generalizing b with
  | nil => cases b <;> simp [strLt] at h ⊢
  | cons x xs ih =>
    cases b with
    | nil => simp [strLt] at h
    | cons y ys =>
      simp only [strLt] at h ⊢
      by_cases h1 : x.val < y.val
      · have h2 : ¬ y.val < x.val := by rw [UInt32.lt_iff_toNat_lt] at *; omega
        rw [if_neg h2, if_pos h1]
      · by_cases h2 : y.val < x.val
        · simp [h1, h2] at h
        · simp only [h1, h2, if_false] at h ⊢; exact ih ys h

theorem strLt_trans (a b c : Str) (h1 : strLt a b = true) (h2 : strLt b c = true) : strLt a c = true := by
  induction a generalizing b c with
  | nil => cases b <;> cases c <;> simp [strLt] at h1 h2 ⊢
  | cons x xs ih =>
    cases b with
    | nil => simp [strLt] at h1
    | cons y ys =>
      cases c with
      | nil => simp [strLt] at h2
      | cons z zs =>
        simp only [strLt] at h1 h2 ⊢
        by_cases hxy : x.val < y.val
        · by_cases hyz : y.val < z.val
          · have : x.val < z.val := by rw [UInt32.lt_iff_toNat_lt] at *; omega
            simp [this]
          · by_cases hzy : z.val < y.val
            · simp [hyz, hzy] at h2
            · have : x.val < z.val := by rw [UInt32.lt_iff_toNat_lt] at *; omega
              simp [this]
        · by_cases hyx : y.val < x.val
          · simp [hxy, hyx] at h1
          · simp only [hxy, hyx, if_false] at h1
            by_cases hyz : y.val < z.val
            · have : x.val < z.val := by rw [UInt32.lt_iff_toNat_lt] at *; omega
              simp [this]
            · by_cases hzy : z.val < y.val
              · simp [hyz, hzy] at h2
              · simp only [hyz, hzy, if_false] at h2
                have e1 : ¬ x.val < z.val := by rw [UInt32.lt_iff_toNat_lt] at *; omega
                have e2 : ¬ z.val < x.val := by rw [UInt32.lt_iff_toNat_lt] at *; omega
                simp only [e1, e2, if_false]
                exact ih ys zs h1 h2

theorem cmpStr_lt_iff (a b : Str) : Rev.cmpStr a b = .lt ↔ strLt a b = true := by
  unfold Rev.cmpStr
  split
  · simp [*]
  · split <;> simp [*]

theorem cmpStr_gt_iff (a b : Str) : Rev.cmpStr a b = .gt ↔ strLt b a = true := by
  unfold Rev.cmpStr
  split
  · next h => simp [strLt_asymm a b h]
  · split <;> simp [*]

theorem cmp_refl (a : Rev) : Rev.cmp a a = .eq := by
  unfold Rev.cmp Rev.cmpStr
  cases a.isResolved <;> simp [strLt_irrefl]

theorem cmp_antisymm (a b : Rev) : Rev.cmp a b = .lt ↔ Rev.cmp b a = .gt := by
  unfold Rev.cmp
  cases a.isResolved <;> cases b.isResolved <;> simp only [Bool.and_true, Bool.and_false, Bool.false_eq_true, if_true, if_false, reduceCtorEq]
  · by_cases h1 : a.index < b.index
    · have : ¬ b.index < a.index := by omega
      simp [h1, this]
    · by_cases h2 : b.index < a.index
      · simp [h1, h2]
      · simp [h1, h2, cmpStr_lt_iff, cmpStr_gt_iff]
  · simp [cmpStr_lt_iff, cmpStr_gt_iff]

theorem cmp_trans (a b c : Rev) (h1 : Rev.cmp a b = .lt) (h2 : Rev.cmp b c = .lt) : Rev.cmp a c = .lt := by
  unfold Rev.cmp at *
  cases ha : a.isResolved <;> cases hb : b.isResolved <;> cases hc : c.isResolved <;>
    simp only [ha, hb, hc, Bool.and_true, Bool.and_false, Bool.false_eq_true, if_true, if_false, reduceCtorEq] at h1 h2 ⊢
  · by_cases x1 : a.index < b.index
    · by_cases x2 : b.index < c.index
      · have : a.index < c.index := by omega
        simp [this]
      · by_cases x3 : b.index > c.index
        · simp [x2, x3] at h2
        · have : a.index < c.index := by omega
          simp [this]
    · by_cases x1' : a.index > b.index
      · simp [x1, x1'] at h1
      · simp only [x1, x1', if_false] at h1
        by_cases x2 : b.index < c.index
        · have : a.index < c.index := by omega
          simp [this]
        · by_cases x3 : b.index > c.index
          · simp [x2, x3] at h2
          · simp only [x2, x3, if_false] at h2
            have e1 : ¬ a.index < c.index := by omega
            have e2 : ¬ a.index > c.index := by omega
            simp only [e1, e2, if_false]
            rw [cmpStr_lt_iff] at *
            exact strLt_trans _ _ _ h1 h2
  · rw [cmpStr_lt_iff] at *
    exact strLt_trans _ _ _ h1 h2

/-- `P` for the example: the four revisions of `exEntries` -/
def ExP (r : Rev) : Prop := r ∈ [r1, r2a, r2b, r3]
instance : DecidablePred ExP := fun r => by unfold ExP; infer_instance

theorem exOrder : CmpOrder ExP where
  refl := cmp_refl
  antisymm := cmp_antisymm
  trans := cmp_trans
  eq_iff := by
    have : ∀ a ∈ [r1, r2a, r2b, r3], ∀ b ∈ [r1, r2a, r2b, r3], (Rev.cmp a b = .eq ↔ a = b) := by decide
    exact fun a b ha hb => this a ha b hb

example : ∀ e ∈ exEntries, ExP e.rev := by decide

/-- the main theorems apply to the example tree -/
example (w : Rev) : (validate ⟨exEntries, false, [], none, false⟩).winner = some w ↔
    LiveLeaf exEntries w ∧ ∀ l, LiveLeaf exEntries l → Rev.cmp l w ≠ .gt :=
  winner_spec exOrder ⟨exEntries, false, [], none, false⟩ (by decide) (by decide) (by decide) w

example : (validate ⟨exEntries, false, [], none, false⟩).winner = (validate ⟨exEntries', true, [r1], some r1, true⟩).winner :=
  winner_perm exOrder _ _ (by decide) (by decide) (by decide)
end Example

end Melda.Props.C05
