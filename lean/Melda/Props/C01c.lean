/-
  C01c — C01 / C14 at the DOCUMENT level: replicas that agree on their trees and on the stored bodies
  show the same reconstructed JSON document (`read`), whatever their descriptor caches hold.

  1. `TreeSame t₁ t₂`: the (revision, parent) pairs are permutations of each other (staging flags are
     ignored), equal cached leaves, equal cached winner.  It is implied by `C01.Agree` (+ validated trees,
     `treeSame_of_agree`) and by `C14b.SamePast` (+ equal cached leaves / winner, `treeSame_of_samePast`).
     Under `TreeSame` and "one parent per revision" (`OneParent`, implied by `KeysNodup`, i.e. by `GoodTree`):
     `getParent_eq`, `contains_eq`, `length_eq`, `treeObs`, `trueOrder_iff`, `goodTree`.
  2. MAIN `read_sim2` / `read_converge` / `read_converge_iff` / `read_converge_val`.
     ROUTE TAKEN: the proof chain of `C12b.read_sim` (`readStep_sim`, `fold_sim`, `read_sim`) is redone for TWO
     sources and two states (`step_sim`, `fold_sim2`, `read_sim2`), in a stronger form: the simulation relation
     `Sim` covers every outcome of the collection loop (`.ok`, `.err`, and - when the bodies are literally the
     same - `.panic` with its message).  The per-document array lemma `C12b.readAt_inv` is reused unchanged, once
     on each side with that side's own source, state, `N`, `ord` and cache; the two sides are connected by
     `ord_agree` (what a leaf denotes is the same on both sides: `trueOrder_transfer` + `trueOrder_functional`).
     The two descriptor caches may be different: each is only required to be fine for its own replica
     (`ReadInv.cache`, e.g. one empty and one warm).
  3. `read_of_agree`, `read_of_converge` (C01) and `read_time_travel`, `read_time_travel_protocol` (C14).
  4. `Ex`: two concrete replicas, array document in conflict (two delta leaves), entry lists in different
     orders, bodies in the stage / in the store, cold cache / warm cache; all hypotheses hold and `read`
     returns the same non-trivial document.

  Hypotheses: `ReadInv` (C12b) on each side. Its `coherent` clause cannot be dropped (the cache is shared by all
  array documents and keyed by the revision alone: `C04c.agreeParents_needed`).
-/
import Melda.Doc
import Melda.Props.C01
import Melda.Props.C12
import Melda.Props.C12b
import Melda.Props.C14b
import Melda.Props.C16b
namespace Melda.Props.C01c
open Melda Melda.DState Melda.RevTree
open C05 (KeysNodup WellIndexed)
open C19 (Canonical)
open C12 (GoodTree Closed SameBodies All₂ TreeObs)
open C12b (Cache InTree CacheOK ReadInv AllOK visible)
open C16b (TrueOrder)

/-! ## 1. trees that hold the same history -/

/-- the recorded (revision, parent) pairs, in entry order -/
def pairs (es : List RtEntry) : List (Rev × Option Rev) := es.map (fun e => (e.rev, e.parent))

/-- **two trees of one object that hold the same history**: the (revision, parent) pairs are permutations of
    each other (the staging flags play no role), and the cached leaves and the cached winner are equal -/
structure TreeSame (t₁ t₂ : RevTree) : Prop where
  perm : (pairs t₁.entries).Perm (pairs t₂.entries)
  leafs : t₁.leafs = t₂.leafs
  winner : t₁.winner = t₂.winner

theorem TreeSame.refl (t : RevTree) : TreeSame t t := ⟨List.Perm.refl _, rfl, rfl⟩
theorem TreeSame.symm {t₁ t₂ : RevTree} (h : TreeSame t₁ t₂) : TreeSame t₂ t₁ :=
  ⟨h.perm.symm, h.leafs.symm, h.winner.symm⟩
theorem TreeSame.trans {t₁ t₂ t₃ : RevTree} (h : TreeSame t₁ t₂) (h' : TreeSame t₂ t₃) : TreeSame t₁ t₃ :=
  ⟨h.perm.trans h'.perm, h.leafs.trans h'.leafs, h.winner.trans h'.winner⟩

/-- entry lists that are permutations of each other (flags included) give `TreeSame` -/
theorem TreeSame.of_perm {t₁ t₂ : RevTree} (hp : t₁.entries.Perm t₂.entries) (hl : t₁.leafs = t₂.leafs)
    (hw : t₁.winner = t₂.winner) : TreeSame t₁ t₂ := ⟨hp.map _, hl, hw⟩

/-- a revision has one parent in the entry list -/
def OneParent (es : List RtEntry) : Prop := ∀ e ∈ es, ∀ e' ∈ es, e.rev = e'.rev → e.parent = e'.parent

theorem oneParent_of_keysNodup {es : List RtEntry} (hk : KeysNodup es) : OneParent es := by
  intro e he e' he' hr
  have h1 := C05.find?_of_mem hk he
  have h2 := C05.find?_of_mem hk he'
  rw [hr, h2] at h1
  rw [Option.some.inj h1]

theorem goodTree_oneParent {t : RevTree} (g : GoodTree t) : OneParent t.entries := oneParent_of_keysNodup g.keys

theorem mem_pairs {es : List RtEntry} {x : Rev × Option Rev} :
    x ∈ pairs es ↔ ∃ e ∈ es, e.rev = x.1 ∧ e.parent = x.2 := by
  unfold pairs
  rw [List.mem_map]
  constructor
  · rintro ⟨e, he, rfl⟩; exact ⟨e, he, rfl, rfl⟩
  · rintro ⟨e, he, h1, h2⟩; exact ⟨e, he, by rw [h1, h2]⟩

/-- membership transfers along the permutation, up to the staging flag -/
theorem TreeSame.mem {t₁ t₂ : RevTree} (h : TreeSame t₁ t₂) {e : RtEntry} (he : e ∈ t₁.entries) :
    ∃ e' ∈ t₂.entries, e'.rev = e.rev ∧ e'.parent = e.parent :=
  mem_pairs (x := (e.rev, e.parent)) |>.mp (h.perm.mem_iff.mp (mem_pairs.mpr ⟨e, he, rfl, rfl⟩))

theorem TreeSame.oneParent {t₁ t₂ : RevTree} (h : TreeSame t₁ t₂) (h1 : OneParent t₁.entries) :
    OneParent t₂.entries := by
  intro e he e' he' hr
  obtain ⟨a, ha, har, hap⟩ := h.symm.mem he
  obtain ⟨a', ha', har', hap'⟩ := h.symm.mem he'
  rw [← hap, ← hap']
  exact h1 a ha a' ha' (by rw [har, har', hr])

/-- with one parent per revision, `get_parent_revision` answers the parent of ANY entry of the revision -/
theorem getParent_of_mem {t : RevTree} (h1 : OneParent t.entries) {e : RtEntry} (he : e ∈ t.entries) :
    t.getParent e.rev = e.parent := by
  unfold getParent
  cases hf : RevTree.find? t.entries e.rev with
  | none => exact absurd rfl (C05.find?_none.mp hf e he)
  | some e' =>
    obtain ⟨hm, hr⟩ := C05.find?_some hf
    exact h1 e' hm e he hr

/-- **same parent lookup** -/
theorem TreeSame.getParent_eq {t₁ t₂ : RevTree} (h : TreeSame t₁ t₂) (h1 : OneParent t₁.entries) (r : Rev) :
    t₁.getParent r = t₂.getParent r := by
  cases hf : RevTree.find? t₁.entries r with
  | none =>
    have hn1 := C05.find?_none.mp hf
    have hf2 : RevTree.find? t₂.entries r = none := by
      rw [C05.find?_none]
      intro e he hr
      obtain ⟨a, ha, har, _⟩ := h.symm.mem he
      exact hn1 a ha (har.trans hr)
    unfold getParent
    rw [hf, hf2]
  | some e =>
    obtain ⟨hm, hr⟩ := C05.find?_some hf
    obtain ⟨e', hm', hr', hp'⟩ := h.mem hm
    have a1 := getParent_of_mem h1 hm
    have a2 := getParent_of_mem (h.oneParent h1) hm'
    rw [hr] at a1
    rw [hr', hr] at a2
    rw [a1, a2, hp']

/-- **same membership test** (no side condition) -/
theorem TreeSame.contains_eq {t₁ t₂ : RevTree} (h : TreeSame t₁ t₂) (r : Rev) : t₁.contains r = t₂.contains r := by
  have key : ∀ {a b : RevTree}, TreeSame a b → a.contains r = true → b.contains r = true := by
    intro a b hab hc
    obtain ⟨e, he, hr⟩ := (C05.contains_iff a r).mp hc
    obtain ⟨e', he', hr', _⟩ := hab.mem he
    exact (C05.contains_iff b r).mpr ⟨e', he', hr'.trans hr⟩
  cases h1 : t₁.contains r with
  | true => exact (key h h1).symm
  | false =>
    cases h2 : t₂.contains r with
    | false => rfl
    | true => rw [key h.symm h2] at h1; cases h1

theorem TreeSame.inTree_iff {t₁ t₂ : RevTree} (h : TreeSame t₁ t₂) (r : Rev) : InTree t₁ r ↔ InTree t₂ r := by
  rw [← C12b.inTree_iff, ← C12b.inTree_iff, h.contains_eq]

/-- **same number of entries** (the fuel of the chain walk) -/
theorem TreeSame.length_eq {t₁ t₂ : RevTree} (h : TreeSame t₁ t₂) : t₁.entries.length = t₂.entries.length := by
  have := h.perm.length_eq
  simpa [pairs] using this

/-- `TreeSame` gives everything the array code observes of a tree (`C12.TreeObs`) -/
theorem TreeSame.treeObs {t₁ t₂ : RevTree} (h : TreeSame t₁ t₂) (h1 : OneParent t₁.entries) : TreeObs t₁ t₂ :=
  ⟨h.leafs, h.getParent_eq h1, h.length_eq⟩

/-! ### what a stored version denotes, across two replicas -/

theorem readDesc_grow {src₁ src₂ : Src} {st₁ st₂ : DState}
    (hr : ∀ r x, readObject src₁ st₁ r = .ok x → readObject src₂ st₂ r = .ok x)
    {r : Rev} {d : List JVal ⊕ List JVal} (h : readDesc src₁ st₁ r = .ok d) : readDesc src₂ st₂ r = .ok d := by
  unfold readDesc at h ⊢
  cases ho : readObject src₁ st₁ r with
  | error e => simp [ho] at h
  | ok o => rw [hr r o ho]; simpa [ho] using h

/-- **what a stored version denotes transfers** to a replica that can read at least the same bodies and answers
    the same parents (`C12b.trueOrder_congr` with the equality of descriptors weakened to growth) -/
theorem trueOrder_transfer {src₁ src₂ : Src} {st₁ st₂ : DState} {t₁ t₂ : RevTree}
    (hr : ∀ r x, readObject src₁ st₁ r = .ok x → readObject src₂ st₂ r = .ok x)
    (hp : ∀ r, t₁.getParent r = t₂.getParent r) {r : Rev} {o : List JVal}
    (h : TrueOrder src₁ st₁ t₁ r o) : TrueOrder src₂ st₂ t₂ r o := by
  induction h with
  | full h1 => exact .full (readDesc_grow hr h1)
  | delta h1 h2 _ h4 ih => exact .delta (readDesc_grow hr h1) (by rw [← hp]; exact h2) ih h4
  | orphan h1 h2 h3 => exact .orphan (readDesc_grow hr h1) (by rw [← hp]; exact h2) h3

theorem sameBodies_grow {src₁ src₂ : Src} {st₁ st₂ : DState} (hb : SameBodies src₁ st₁ src₂ st₂) :
    ∀ r x, readObject src₁ st₁ r = .ok x → readObject src₂ st₂ r = .ok x := fun r x h => by rw [← hb r]; exact h

theorem sameBodies_symm {src₁ src₂ : Src} {st₁ st₂ : DState} (hb : SameBodies src₁ st₁ src₂ st₂) :
    SameBodies src₂ st₂ src₁ st₁ := fun r => (hb r).symm

/-- **same denotation of every stored version** on two replicas with the same bodies and the same history -/
theorem TreeSame.trueOrder_iff {src₁ src₂ : Src} {st₁ st₂ : DState} {t₁ t₂ : RevTree} (h : TreeSame t₁ t₂)
    (h1 : OneParent t₁.entries) (hb : SameBodies src₁ st₁ src₂ st₂) (r : Rev) (o : List JVal) :
    TrueOrder src₁ st₁ t₁ r o ↔ TrueOrder src₂ st₂ t₂ r o :=
  ⟨trueOrder_transfer (sameBodies_grow hb) (h.getParent_eq h1),
   trueOrder_transfer (sameBodies_grow (sameBodies_symm hb)) (fun r => (h.getParent_eq h1 r).symm)⟩

/-! ### well-formedness transfers -/

theorem pairs_map_fst (es : List RtEntry) : (pairs es).map (·.1) = es.map (·.rev) := by
  unfold pairs; rw [List.map_map]; rfl

theorem TreeSame.keysNodup {t₁ t₂ : RevTree} (h : TreeSame t₁ t₂) (hk : KeysNodup t₁.entries) :
    KeysNodup t₂.entries := by
  unfold KeysNodup at *
  rw [← pairs_map_fst] at *
  exact (h.perm.map _).nodup_iff.mp hk

theorem TreeSame.wellIndexed {t₁ t₂ : RevTree} (h : TreeSame t₁ t₂) (hw : WellIndexed t₁.entries) :
    WellIndexed t₂.entries := by
  intro e he p hp
  obtain ⟨a, ha, har, hap⟩ := h.symm.mem he
  rw [← har]
  exact hw a ha p (hap.trans hp)

theorem TreeSame.closed {t₁ t₂ : RevTree} (h : TreeSame t₁ t₂) (hc : Closed t₁.entries) : Closed t₂.entries := by
  intro e he p hp
  obtain ⟨a, ha, _, hap⟩ := h.symm.mem he
  obtain ⟨b, hb, hbr⟩ := hc a ha p (hap.trans hp)
  obtain ⟨b', hb', hbr', _⟩ := h.mem hb
  exact ⟨b', hb', hbr'.trans hbr⟩

theorem TreeSame.canon {t₁ t₂ : RevTree} (h : TreeSame t₁ t₂) (hc : ∀ e ∈ t₁.entries, Canonical e.rev) :
    ∀ e ∈ t₂.entries, Canonical e.rev := by
  intro e he
  obtain ⟨a, ha, har, _⟩ := h.symm.mem he
  rw [← har]; exact hc a ha

/-- the entry with its staging flag cleared is a function of the (revision, parent) pair -/
theorem map_clear_eq (es : List RtEntry) :
    es.map (fun e => { e with staging := false }) = (pairs es).map (fun x => (⟨x.1, x.2, false⟩ : RtEntry)) := by
  unfold pairs; rw [List.map_map]; rfl

/-- **the validated leaves and winner depend only on the set of (revision, parent) pairs** -/
theorem validate_of_pairs {t₁ t₂ : RevTree} (hp : (pairs t₁.entries).Perm (pairs t₂.entries))
    (hk : KeysNodup t₁.entries) (hc : ∀ e ∈ t₁.entries, Canonical e.rev) :
    (validate t₁).leafs = (validate t₂).leafs ∧ (validate t₁).winner = (validate t₂).winner := by
  let c₁ : RevTree := { entries := t₁.entries.map (fun e => { e with staging := false }) }
  let c₂ : RevTree := { entries := t₂.entries.map (fun e => { e with staging := false }) }
  have hperm : c₁.entries.Perm c₂.entries := by
    show (t₁.entries.map _).Perm (t₂.entries.map _)
    rw [map_clear_eq, map_clear_eq]; exact hp.map _
  have hk' : KeysNodup c₁.entries := by
    show KeysNodup (t₁.entries.map _)
    unfold KeysNodup at *
    rw [List.map_map]; exact hk
  have hc' : ∀ e ∈ c₁.entries, Canonical e.rev := by
    intro e he
    obtain ⟨a, ha, rfl⟩ := List.mem_map.mp he
    exact hc a ha
  have e1 : ∀ t : RevTree, liveLeafs (t.entries.map (fun e => { e with staging := false })) = liveLeafs t.entries :=
    fun t => C12.liveLeafs_staging_irrelevant t.entries
  have hl := C05.leafs_perm C12.canonOrder c₁ c₂ hperm hk' hc'
  have hw := C05.winner_perm C12.canonOrder c₁ c₂ hperm hk' hc'
  rw [C15.validate_leafs, C15.validate_leafs] at hl
  rw [C15.validate_winner, C15.validate_winner] at hw
  rw [C15.validate_leafs, C15.validate_leafs, C15.validate_winner, C15.validate_winner, ← e1 t₁, ← e1 t₂]
  exact ⟨hl, hw⟩

/-- **well-formedness transfers** (the flag `validated` is not part of `TreeSame`: it is asked of `t₂`) -/
theorem TreeSame.goodTree {t₁ t₂ : RevTree} (h : TreeSame t₁ t₂) (g : GoodTree t₁) (hv : t₂.validated = true) :
    GoodTree t₂ := by
  refine ⟨?_, h.keysNodup g.keys, h.wellIndexed g.widx, h.closed g.closed, h.canon g.canon⟩
  obtain ⟨hl, hw⟩ := validate_of_pairs h.perm g.keys g.canon
  have g1 := (C15.validated_iff t₁).mp g.valid
  rw [C15.validated_iff]
  exact ⟨by rw [← h.leafs, g1.1, hl], by rw [← h.winner, g1.2.1, hw], hv⟩

/-! ## 2. `read` on two replicas -/

/-- the link between the entries of the two document maps at one position: same identifier, same history -/
def DocSame (p q : Str × RevTree) : Prop := p.1 = q.1 ∧ TreeSame p.2 q.2

/-- the two document maps are linked position by position (in particular: same list of identifiers) -/
abbrev DocsSame (d₁ d₂ : List (Str × RevTree)) : Prop := All₂ DocSame d₁ d₂

theorem DocsSame.keys {d₁ d₂ : List (Str × RevTree)} (h : DocsSame d₁ d₂) : d₁.map (·.1) = d₂.map (·.1) := by
  induction h with
  | nil => rfl
  | cons hab _ ih => simp only [List.map_cons, hab.1, ih]

theorem DocsSame.symm {d₁ d₂ : List (Str × RevTree)} (h : DocsSame d₁ d₂) : DocsSame d₂ d₁ := by
  induction h with
  | nil => exact .nil
  | cons hab _ ih => exact .cons ⟨hab.1.symm, hab.2.symm⟩ ih

/-- from the `treeOf`-indexed form (the form of `C01.Agree` / `C14b.SamePast`) to the positional form -/
theorem docsSame_of_treeOf : ∀ {d₁ d₂ : List (Str × RevTree)}, C15.DocsSorted d₁ → C15.DocsSorted d₂ →
    d₁.map (·.1) = d₂.map (·.1) → (∀ u, TreeSame (C15.treeOf d₁ u) (C15.treeOf d₂ u)) → DocsSame d₁ d₂
  | [], [], _, _, _, _ => .nil
  | [], _ :: _, _, _, hk, _ => by cases hk
  | _ :: _, [], _, _, hk, _ => by cases hk
  | (k, t) :: r₁, (k', t') :: r₂, hs₁, hs₂, hk, h => by
    simp only [List.map_cons, List.cons.injEq] at hk
    obtain ⟨rfl, hk⟩ := hk
    obtain ⟨hlt₁, hs₁'⟩ := List.pairwise_cons.mp hs₁
    obtain ⟨hlt₂, hs₂'⟩ := List.pairwise_cons.mp hs₂
    have hne : ∀ {r : List (Str × RevTree)} {x : RevTree}, (∀ q ∈ r, strLt (k, x).1 q.1 = true) → ∀ q ∈ r, q.1 ≠ k := by
      intro r x hlt q hq e
      have := hlt q hq
      simp only [e, C04.strLt_irrefl] at this
      cases this
    refine .cons ⟨rfl, ?_⟩ (docsSame_of_treeOf hs₁' hs₂' hk ?_)
    · have := h k
      rw [C15.treeOf_cons, C15.treeOf_cons, if_pos rfl, if_pos rfl] at this
      exact this
    · intro u
      by_cases hu : k = u
      · subst hu
        rw [C15.treeOf_of_not_mem (hne hlt₁), C15.treeOf_of_not_mem (hne hlt₂)]
        exact TreeSame.refl _
      · have := h u
        rw [C15.treeOf_cons, C15.treeOf_cons, if_neg hu, if_neg hu] at this
        exact this

/-- the outcome of a document-level call with the descriptor cache dropped -/
def val {α : Type} : Res (α × Cache) → Res α
  | .ok (a, _) => .ok a
  | .err e => .err e
  | .panic m => .panic m

/-- `b` is the outcome `a` up to the descriptor cache: the same value, the same error; the same panic
    provided `B` holds (`B` will be: the two replicas read literally the same bodies) -/
def Upto (B : Prop) {α : Type} (a b : Res (α × Cache)) : Prop :=
  match a with
  | .ok (x, _) => ∃ c', b = .ok (x, c')
  | .err e => b = .err e
  | .panic m => B → b = .panic m

theorem Upto.val_eq {B : Prop} {α : Type} {a b : Res (α × Cache)} (h : Upto B a b) (hB : B) : val a = val b := by
  cases a with
  | ok x => obtain ⟨x, c⟩ := x; obtain ⟨c', rfl⟩ := h; rfl
  | err e => have : b = .err e := h; rw [this]
  | panic m => have : b = .panic m := h hB; rw [this]

section Sim
variable {N₁ N₂ : Str → Rev → Prop} {src₁ src₂ : Src} {st₁ st₂ : DState} {ord₁ ord₂ : Str → Rev → List JVal}

/-- **a leaf denotes the same array on both replicas** -/
theorem ord_agree (inv₁ : ReadInv N₁ src₁ st₁ ord₁) (inv₂ : ReadInv N₂ src₂ st₂ ord₂)
    (hr : ∀ r x, readObject src₁ st₁ r = .ok x → readObject src₂ st₂ r = .ok x)
    {p q : Str × RevTree} (hp : p ∈ st₁.p.docs) (hq : q ∈ st₂.p.docs) (hs : DocSame p q)
    (ha : isArrayDescriptor p.1 = true) : ∀ l ∈ p.2.leafs, ord₁ p.1 l = ord₂ q.1 l := by
  intro l hl
  have g := inv₁.good p hp ha
  have ha' : isArrayDescriptor q.1 = true := hs.1 ▸ ha
  have h1 := trueOrder_transfer hr (hs.2.getParent_eq (goodTree_oneParent g)) (inv₁.orders p hp ha l hl)
  have h2 := inv₂.orders q hq ha' l (hs.2.leafs ▸ hl)
  exact C16b.trueOrder_functional h1 h2

theorem visible_eq {o₁ o₂ : Rev → List JVal} {t₁ t₂ : RevTree} {w : Rev} (hl : t₁.leafs = t₂.leafs)
    (hw : w ∈ t₁.leafs) (ho : ∀ l ∈ t₁.leafs, o₁ l = o₂ l) : visible o₁ t₁ w = visible o₂ t₂ w := by
  unfold visible C16b.mergeLeafs
  rw [← hl, ho w hw]
  congr 1
  split
  · exact List.map_congr_left ho
  · rfl

/-- the simulation relation of the collection loop of `read`: same pool, each cache fine for its own replica;
    same error; same panic when the bodies are literally the same -/
def Sim (N₁ N₂ : Str → Rev → Prop) (src₁ src₂ : Src) (st₁ st₂ : DState) (a b : Res (JObj × Cache)) : Prop :=
  match a with
  | .ok (pool, c) => AllOK N₁ src₁ st₁ c ∧ ∃ c', b = .ok (pool, c') ∧ AllOK N₂ src₂ st₂ c'
  | .err e => b = .err e
  | .panic m => SameBodies src₁ st₁ src₂ st₂ → b = .panic m

theorem Sim.upto {a b : Res (JObj × Cache)} (h : Sim N₁ N₂ src₁ src₂ st₁ st₂ a b) :
    Upto (SameBodies src₁ st₁ src₂ st₂) a b := by
  cases a with
  | ok x => obtain ⟨pool, c⟩ := x; obtain ⟨_, c', hb, _⟩ := h; exact ⟨c', hb⟩
  | err e => exact h
  | panic m => exact h

/-- **one step of the collection loop, on two replicas** (two sources, two states, two caches) -/
theorem step_sim (inv₁ : ReadInv N₁ src₁ st₁ ord₁) (inv₂ : ReadInv N₂ src₂ st₂ ord₂)
    (hr : ∀ r x, readObject src₁ st₁ r = .ok x → readObject src₂ st₂ r = .ok x)
    {p q : Str × RevTree} (hp : p ∈ st₁.p.docs) (hq : q ∈ st₂.p.docs) (hs : DocSame p q)
    {a b : Res (JObj × Cache)} (h : Sim N₁ N₂ src₁ src₂ st₁ st₂ a b) :
    Sim N₁ N₂ src₁ src₂ st₁ st₂ (C12.readStep src₁ st₁ a p) (C12.readStep src₂ st₂ b q) := by
  cases a with
  | err e =>
    have hb : b = .err e := h
    rw [hb]; exact (rfl : (Res.err e : Res (JObj × Cache)) = .err e)
  | panic m =>
    intro hB
    have hb : b = .panic m := h hB
    rw [hb]; rfl
  | ok x =>
    obtain ⟨pool, c⟩ := x
    obtain ⟨hc, c', rfl, hc'⟩ := h
    have hk : p.1 = q.1 := hs.1
    have hw : p.2.winner = q.2.winner := hs.2.winner
    unfold C12.readStep
    simp only [← hw, ← hk]
    cases hwin : p.2.winner with
    | none => exact ⟨hc, c', rfl, hc'⟩
    | some w =>
      simp only
      by_cases hd : w.isDeleted = true
      · rw [if_pos hd, if_pos hd]; exact ⟨hc, c', rfl, hc'⟩
      · rw [if_neg hd, if_neg hd]
        by_cases ha : isArrayDescriptor p.1 = true
        · have ha' : isArrayDescriptor q.1 = true := hk ▸ ha
          obtain ⟨cx, hx, hcx⟩ := C12b.readAt_inv inv₁ hp ha hwin c hc
          obtain ⟨cy, hy, hcy⟩ := C12b.readAt_inv inv₂ hq ha' (hw ▸ hwin) c' hc'
          have hwl : w ∈ p.2.leafs := (inv₁.good p hp ha).winner_mem hwin
          have hoa := ord_agree inv₁ inv₂ hr hp hq hs ha
          rw [← hk] at hy hoa
          have hv : visible (ord₁ p.1) p.2 w = visible (ord₂ p.1) q.2 w := visible_eq hs.2.leafs hwl hoa
          rw [hx, hy, hv]
          exact ⟨hcx, cy, rfl, hcy⟩
        · have ha' : isArrayDescriptor p.1 = false := by simpa using ha
          rw [C12b.readAt_plain src₁ _ ha', C12b.readAt_plain src₂ _ ha']
          cases hro : readObject src₁ st₁ w with
          | error e =>
            have h1 : readObject src₁ { st₁ with acache := c } w = .error e := hro
            rw [h1]
            intro hB
            have h2 : readObject src₂ { st₂ with acache := c' } w = .error e := by
              show readObject src₂ st₂ w = .error e
              rw [← hB w]; exact hro
            rw [h2]
          | ok o =>
            have h1 : readObject src₁ { st₁ with acache := c } w = .ok o := hro
            have h2 : readObject src₂ { st₂ with acache := c' } w = .ok o := hr w o hro
            rw [h1, h2]
            exact ⟨hc, c', rfl, hc'⟩

theorem fold_sim2 (inv₁ : ReadInv N₁ src₁ st₁ ord₁) (inv₂ : ReadInv N₂ src₂ st₂ ord₂)
    (hr : ∀ r x, readObject src₁ st₁ r = .ok x → readObject src₂ st₂ r = .ok x)
    {l l' : List (Str × RevTree)} (hl : DocsSame l l') :
    (∀ p ∈ l, p ∈ st₁.p.docs) → (∀ q ∈ l', q ∈ st₂.p.docs) →
    ∀ a b : Res (JObj × Cache), Sim N₁ N₂ src₁ src₂ st₁ st₂ a b →
      Sim N₁ N₂ src₁ src₂ st₁ st₂ (l.foldl (C12.readStep src₁ st₁) a) (l'.foldl (C12.readStep src₂ st₂) b) := by
  induction hl with
  | nil => intro _ _ a b h; exact h
  | @cons p q l l' hpq _ ih =>
    intro hm hm' a b h
    simp only [List.foldl_cons]
    exact ih (fun x hx => hm x (List.mem_cons_of_mem _ hx)) (fun x hx => hm' x (List.mem_cons_of_mem _ hx)) _ _
      (step_sim inv₁ inv₂ hr (hm p (by simp)) (hm' q (by simp)) hpq h)

end Sim

/-- the tail of `read` depends on the collected pool only -/
theorem readFinish_upto {B : Prop} {a b : Res (JObj × Cache)} (h : Upto B a b) :
    Upto B (C12.readFinish a) (C12.readFinish b) := by
  cases a with
  | err e => have hb : b = .err e := h; rw [hb]; exact (rfl : (Res.err e : Res (JVal × Cache)) = .err e)
  | panic m => intro hB; have hb : b = .panic m := h hB; rw [hb]; rfl
  | ok x =>
    obtain ⟨pool, c⟩ := x
    obtain ⟨c', rfl⟩ := h
    unfold C12.readFinish
    simp only
    cases objGet ROOT_ID pool with
    | none => exact (rfl : (Res.err "root_object_not_found" : Res (JVal × Cache)) = _)
    | some rootObj =>
      simp only
      cases unflatten (unflattenFuel pool rootObj) pool rootObj with
      | ok a w =>
        cases w with
        | obj o => exact ⟨c', rfl⟩
        | null => intro _; rfl
        | bool b => intro _; rfl
        | num n => intro _; rfl
        | str s => intro _; rfl
        | arr a => intro _; rfl
      | panic m => intro _; rfl
      | fuel => intro _; rfl

/-- **MAIN (all outcomes).** Two replicas (sources `src₁`, `src₂`; states `st₁`, `st₂`) whose document maps are
    linked position by position by `TreeSame`, each satisfying the read invariant `ReadInv` FOR ITSELF (its own
    `N`, `ord` and descriptor cache: the caches may be different, e.g. one cold and one warm), and such that every
    body readable on the first is readable, identically, on the second.  Then `read` on the second replica
    returns what it returns on the first, up to the returned cache: the same JSON value, the same error; and
    the same panic when the bodies are literally the same. -/
theorem read_sim2 {N₁ N₂ : Str → Rev → Prop} {src₁ src₂ : Src} {st₁ st₂ : DState} {ord₁ ord₂ : Str → Rev → List JVal}
    (inv₁ : ReadInv N₁ src₁ st₁ ord₁) (inv₂ : ReadInv N₂ src₂ st₂ ord₂) (hd : DocsSame st₁.p.docs st₂.p.docs)
    (hr : ∀ r x, readObject src₁ st₁ r = .ok x → readObject src₂ st₂ r = .ok x) :
    Upto (SameBodies src₁ st₁ src₂ st₂) (read src₁ st₁) (read src₂ st₂) := by
  rw [C12.read_eq, C12.read_eq]
  have h1 : (st₂.treeOf ROOT_ID).isNone = (st₁.treeOf ROOT_ID).isNone := by
    unfold treeOf
    simp only [Option.isNone_map]
    exact (C12b.keys_isNone_congr (fun p q h => h.1) hd ROOT_ID).symm
  rw [h1]
  by_cases hroot : (st₁.treeOf ROOT_ID).isNone = true
  · rw [if_pos hroot, if_pos hroot]; exact (rfl : (Res.err "no_root" : Res (JVal × Cache)) = _)
  · rw [if_neg hroot, if_neg hroot]
    apply readFinish_upto
    apply Sim.upto (N₁ := N₁) (N₂ := N₂)
    exact fold_sim2 inv₁ inv₂ hr hd (fun _ h => h) (fun _ h => h) _ _ ⟨inv₁.cache, st₂.acache, rfl, inv₂.cache⟩

section Main
variable {N₁ N₂ : Str → Rev → Prop} {src₁ src₂ : Src} {st₁ st₂ : DState} {ord₁ ord₂ : Str → Rev → List JVal}

/-- **MAIN `read_converge`.** (a)+(b) `DocsSame`: same identifiers and, per position, `TreeSame`; (c) same bodies;
    (d) `ReadInv` on each side, with its own `N`, `ord` and descriptor cache.  A successful `read` on the first
    replica is a successful `read` of the SAME JSON VALUE on the second. -/
theorem read_converge (inv₁ : ReadInv N₁ src₁ st₁ ord₁) (inv₂ : ReadInv N₂ src₂ st₂ ord₂)
    (hd : DocsSame st₁.p.docs st₂.p.docs) (hb : SameBodies src₁ st₁ src₂ st₂) {v : JVal} {c : Cache}
    (h : read src₁ st₁ = .ok (v, c)) : ∃ c', read src₂ st₂ = .ok (v, c') := by
  have := read_sim2 inv₁ inv₂ hd (sameBodies_grow hb)
  rw [h] at this
  exact this

/-- … and conversely -/
theorem read_converge_iff (inv₁ : ReadInv N₁ src₁ st₁ ord₁) (inv₂ : ReadInv N₂ src₂ st₂ ord₂)
    (hd : DocsSame st₁.p.docs st₂.p.docs) (hb : SameBodies src₁ st₁ src₂ st₂) (v : JVal) :
    (∃ c, read src₁ st₁ = .ok (v, c)) ↔ (∃ c, read src₂ st₂ = .ok (v, c)) :=
  ⟨fun ⟨_, h⟩ => read_converge inv₁ inv₂ hd hb h, fun ⟨_, h⟩ => read_converge inv₂ inv₁ hd.symm (sameBodies_symm hb) h⟩

/-- errors transfer too (`"no_root"`, `"root_object_not_found"`) -/
theorem read_converge_err (inv₁ : ReadInv N₁ src₁ st₁ ord₁) (inv₂ : ReadInv N₂ src₂ st₂ ord₂)
    (hd : DocsSame st₁.p.docs st₂.p.docs) (hb : SameBodies src₁ st₁ src₂ st₂) (e : String) :
    read src₁ st₁ = .err e ↔ read src₂ st₂ = .err e := by
  constructor
  · intro h
    have := read_sim2 inv₁ inv₂ hd (sameBodies_grow hb)
    rw [h] at this; exact this
  · intro h
    have := read_sim2 inv₂ inv₁ hd.symm (sameBodies_grow (sameBodies_symm hb))
    rw [h] at this; exact this

/-- **`read_converge`, all outcomes at once**: with the returned caches dropped, the two `read` results are
    EQUAL as values of `Res JVal` (value, error message or panic message). -/
theorem read_converge_val (inv₁ : ReadInv N₁ src₁ st₁ ord₁) (inv₂ : ReadInv N₂ src₂ st₂ ord₂)
    (hd : DocsSame st₁.p.docs st₂.p.docs) (hb : SameBodies src₁ st₁ src₂ st₂) :
    val (read src₁ st₁) = val (read src₂ st₂) :=
  (read_sim2 inv₁ inv₂ hd (sameBodies_grow hb)).val_eq hb

end Main

/-! ## 3. plugging in the protocol theorems -/

section Protocol
open Melda.PState
open Melda.Props.Proto Melda.Props.C02 Melda.Props.C01
variable {N₁ N₂ : Str → Rev → Prop} {src₁ src₂ : Src} {st₁ st₂ : DState} {ord₁ ord₂ : Str → Rev → List JVal}

/-- `C01.Agree` (+ validated trees, as `reload` / `refresh` / `commit` leave them) gives `TreeSame` per object -/
theorem treeSame_of_agree {s₁ s₂ : PState} (h : Agree s₁ s₂) (v1 : AllValidated s₁.docs) (v2 : AllValidated s₂.docs)
    (u : Str) : TreeSame (C15.treeOf s₁.docs u) (C15.treeOf s₂.docs u) :=
  TreeSame.of_perm (h.perm u) (h.cached v1 v2 u).1 (h.cached v1 v2 u).2

theorem docsSame_of_agree {s₁ s₂ : PState} (h : Agree s₁ s₂) (hs1 : C15.DocsSorted s₁.docs)
    (hs2 : C15.DocsSorted s₂.docs) (v1 : AllValidated s₁.docs) (v2 : AllValidated s₂.docs) :
    DocsSame s₁.docs s₂.docs :=
  docsSame_of_treeOf hs1 hs2 h.keys (treeSame_of_agree h v1 v2)

/-- **`read_of_agree`** (C01, document level). Two replicas that agree in the sense of `C01.Agree` (the conclusion
    of `C01.converge`, `C01b.converge_sameValid`, `C01b.sync_round_converges`), whose trees are validated, that
    satisfy the read invariant each for itself (sorted document maps are part of it) and that read the same
    bodies, return the same `read` result up to the returned cache: the same JSON value, or the same error, or
    the same panic. -/
theorem read_of_agree (ha : Agree st₁.p st₂.p) (v1 : AllValidated st₁.p.docs) (v2 : AllValidated st₂.p.docs)
    (inv₁ : ReadInv N₁ src₁ st₁ ord₁) (inv₂ : ReadInv N₂ src₂ st₂ ord₂) (hb : SameBodies src₁ st₁ src₂ st₂) :
    val (read src₁ st₁) = val (read src₂ st₂) :=
  read_converge_val inv₁ inv₂ (docsSame_of_agree ha inv₁.sorted inv₂.sorted v1 v2) hb

/-- the same, for a successful `read` -/
theorem read_of_agree_ok (ha : Agree st₁.p st₂.p) (v1 : AllValidated st₁.p.docs) (v2 : AllValidated st₂.p.docs)
    (inv₁ : ReadInv N₁ src₁ st₁ ord₁) (inv₂ : ReadInv N₂ src₂ st₂ ord₂) (hb : SameBodies src₁ st₁ src₂ st₂)
    {v : JVal} {c : Cache} (h : read src₁ st₁ = .ok (v, c)) : ∃ c', read src₂ st₂ = .ok (v, c') :=
  read_converge inv₁ inv₂ (docsSame_of_agree ha inv₁.sorted inv₂.sorted v1 v2) hb h

/-- **`read_of_converge`**: `C01.converge` plugged in. Two replicas synchronised with the same view of storage
    show the same document. -/
theorem read_of_converge {P : Rev → Prop} (ho : C05.CmpOrder P) {vw : View}
    (h1 : Synced vw st₁.p) (h2 : Synced vw st₂.p) (d1 : DocsOK vw st₁.p) (d2 : DocsOK vw st₂.p)
    (hP : ∀ u, ∀ e ∈ C15.entriesOf st₁.p.docs u, P e.rev)
    (v1 : AllValidated st₁.p.docs) (v2 : AllValidated st₂.p.docs)
    (inv₁ : ReadInv N₁ src₁ st₁ ord₁) (inv₂ : ReadInv N₂ src₂ st₂ ord₂) (hb : SameBodies src₁ st₁ src₂ st₂) :
    val (read src₁ st₁) = val (read src₂ st₂) :=
  read_of_agree (converge ho h1 h2 d1 d2 hP) v1 v2 inv₁ inv₂ hb

/-- `C14b.SamePast` + equal cached leaves and winners (the conclusion of `C14b.time_travel_same_cached`) give
    `TreeSame` per object, from the past state to the state after time travel -/
theorem treeSame_of_samePast {s₀ s' : PState} (sp : C14b.SamePast s₀ s')
    (hc : ∀ u, (C15.treeOf s'.docs u).leafs = (C15.treeOf s₀.docs u).leafs ∧
               (C15.treeOf s'.docs u).winner = (C15.treeOf s₀.docs u).winner) (u : Str) :
    TreeSame (C15.treeOf s₀.docs u) (C15.treeOf s'.docs u) :=
  TreeSame.of_perm (sp.perm u).symm (hc u).1.symm (hc u).2.symm

/-- **`read_time_travel`** (C14, document level), all outcomes. `d₀` is the past replica (source `src₀`), `d'`
    the replica after time travel to the heads of `d₀` (source `src'`, over a storage that has only grown: every
    body readable then is readable now, `hgrow`). With `C14b.SamePast`, equal cached leaves and winners, and
    the read invariant on each side: `read` after time travel returns the value (or the error) that `read`
    returned in the past state. -/
theorem read_time_travel_upto {N₀ N' : Str → Rev → Prop} {src₀ src' : Src} {d₀ d' : DState}
    {ord₀ ord' : Str → Rev → List JVal} (sp : C14b.SamePast d₀.p d'.p)
    (hc : ∀ u, (C15.treeOf d'.p.docs u).leafs = (C15.treeOf d₀.p.docs u).leafs ∧
               (C15.treeOf d'.p.docs u).winner = (C15.treeOf d₀.p.docs u).winner)
    (inv₀ : ReadInv N₀ src₀ d₀ ord₀) (inv' : ReadInv N' src' d' ord')
    (hgrow : ∀ r x, readObject src₀ d₀ r = .ok x → readObject src' d' r = .ok x) :
    Upto (SameBodies src₀ d₀ src' d') (read src₀ d₀) (read src' d') :=
  read_sim2 inv₀ inv' (docsSame_of_treeOf inv₀.sorted inv'.sorted sp.keys.symm (treeSame_of_samePast sp hc)) hgrow

/-- **`read_time_travel`**: the document read after time travel is the document that was read then -/
theorem read_time_travel {N₀ N' : Str → Rev → Prop} {src₀ src' : Src} {d₀ d' : DState}
    {ord₀ ord' : Str → Rev → List JVal} (sp : C14b.SamePast d₀.p d'.p)
    (hc : ∀ u, (C15.treeOf d'.p.docs u).leafs = (C15.treeOf d₀.p.docs u).leafs ∧
               (C15.treeOf d'.p.docs u).winner = (C15.treeOf d₀.p.docs u).winner)
    (inv₀ : ReadInv N₀ src₀ d₀ ord₀) (inv' : ReadInv N' src' d' ord')
    (hgrow : ∀ r x, readObject src₀ d₀ r = .ok x → readObject src' d' r = .ok x)
    {v : JVal} {c : Cache} (h : read src₀ d₀ = .ok (v, c)) : ∃ c', read src' d' = .ok (v, c') := by
  have := read_time_travel_upto sp hc inv₀ inv' hgrow
  rw [h] at this
  exact this

/-- **`read_time_travel_protocol`**: `C14b.time_travel_same_pairs` / `time_travel_same_cached` plugged in.
    `d₀` was synchronised with an earlier view `v₀`; `reload_until (heads of d₀)` over any later view `vw`
    produced the protocol state of `d'`. -/
theorem read_time_travel_protocol {P : Rev → Prop} (ho : C05.CmpOrder P) {v₀ vw : View} {st : PState}
    {N₀ N' : Str → Rev → Prop} {src₀ src' : Src} {d₀ d' : DState} {ord₀ ord' : Str → Rev → List JVal}
    (hs₀ : Synced v₀ d₀.p) (dk₀ : DocsOK v₀ d₀.p) (hval₀ : AllValidated d₀.p.docs) (hne : d₀.p.anchors ≠ [])
    (hle : View.le v₀ vw) (hv : ViewOK vw) (hvf : ViewFunctional vw)
    (h : reloadUntil st vw d₀.p.anchors = .ok d'.p) (hP : ∀ u, ∀ e ∈ C15.entriesOf d₀.p.docs u, P e.rev)
    (inv₀ : ReadInv N₀ src₀ d₀ ord₀) (inv' : ReadInv N' src' d' ord')
    (hgrow : ∀ r x, readObject src₀ d₀ r = .ok x → readObject src' d' r = .ok x)
    {v : JVal} {c : Cache} (hread : read src₀ d₀ = .ok (v, c)) : ∃ c', read src' d' = .ok (v, c') :=
  read_time_travel (C14b.time_travel_same_pairs hs₀ dk₀ hne hle hv hvf h)
    (C14b.time_travel_same_cached ho hs₀ dk₀ hval₀ hne hle hv hvf h hP) inv₀ inv' hgrow hread

end Protocol

/-- from the positional form back to the `treeOf`-indexed form (any relation that holds of two empty trees) -/
theorem all₂_treeOf {R : RevTree → RevTree → Prop} (h0 : R RevTree.empty RevTree.empty)
    {d₁ d₂ : List (Str × RevTree)} (h : All₂ (fun p q => p.1 = q.1 ∧ R p.2 q.2) d₁ d₂) (u : Str) :
    R (C15.treeOf d₁ u) (C15.treeOf d₂ u) := by
  induction h with
  | nil => exact h0
  | @cons p q _ _ hpq _ ih =>
    obtain ⟨k, t⟩ := p
    obtain ⟨k', t'⟩ := q
    obtain ⟨hk, hr⟩ := hpq
    simp only at hk hr
    subst hk
    rw [C15.treeOf_cons, C15.treeOf_cons]
    by_cases hu : k = u
    · rw [if_pos hu, if_pos hu]; exact hr
    · rw [if_neg hu, if_neg hu]; exact ih

theorem DocsSame.treeOf {d₁ d₂ : List (Str × RevTree)} (h : DocsSame d₁ d₂) (u : Str) :
    TreeSame (C15.treeOf d₁ u) (C15.treeOf d₂ u) := all₂_treeOf (TreeSame.refl _) h u

theorem treeOf_all {Q : RevTree → Prop} (h0 : Q RevTree.empty) {docs : List (Str × RevTree)}
    (h : ∀ p ∈ docs, Q p.2) (u : Str) : Q (C15.treeOf docs u) := by
  rcases C15.treeOf_mem_or docs u with he | ⟨p, hp, _, ht⟩
  · rw [he]; exact h0
  · rw [← ht]; exact h p hp

/-! ## 4. non-vacuity: two concrete replicas

  First replica: `C12b.Ex.stX` (bodies in the data stage, empty source, cold cache; the array tree `tA` records
  `r1`, then `r2a`, then `r2b`, the last two staged).  Second replica `stY`: bodies in the store (`srcY`), empty
  stage, WARM cache (holds the reconstruction of `r2a`, capacity 4), the array tree `tB` records `r1`, then
  `r2b`, then `r2a`.  The array document is in conflict (leaves `r2a`, `r2b`, both delta
  descriptors).  Every hypothesis of `read_converge` holds, and both replicas show
  `{"_id":"√","items♭":[{"_id":"x",…},{"_id":"z",…},{"_id":"y",…},{"_id":"qq",…}]}`. -/

namespace Ex
open C04b (src0)
open C12b.Ex

def tB : RevTree := (((RevTree.empty.add r1 none false).1.add r2b (some r1) true).1.add r2a (some r1) true).1

/-- the bodies of the first replica's stage, served by the store -/
def srcY : Src := fun d => (stX.stage.find? (fun p => p.1 = d)).map (·.2)

def stY : DState :=
  { p := { docs := [(uA, tB), ("qq".toList, one bq), ("x".toList, one bx), ("y".toList, one by'), ("z".toList, one bz),
                    (ROOT_ID, one bR)] },
    stage := [],
    acache := { cap := 4, items := [(r2a, oa2a)] } }

/-- different entry orders, different caches, different places for the bodies -/
example : tA.entries ≠ tB.entries ∧ stX.acache.items = [] ∧ stY.acache.items = [(r2a, oa2a)] ∧
    stX.stage ≠ [] ∧ stY.stage = [] := by decide

theorem tB_good : GoodTree tB := C12.goodTree_of_dec (by decide) (by decide) (by decide) (by decide) (by decide)
theorem tB_facts : tB.leafs = [r2a, r2b] ∧ tB.winner = some r2b := by decide

theorem treeSame_AB : TreeSame tA tB := ⟨by decide, by decide, by decide⟩

/-- the array document is in conflict and both leaves are delta descriptors -/
example : tA.leafs.length = 2 ∧ (∀ l ∈ tA.leafs, ∃ p, readDesc src0 stX l = .ok (.inr p)) := by
  refine ⟨by decide, ?_⟩
  rw [tA_facts.1]
  intro l hl
  simp only [List.mem_cons, List.not_mem_nil, or_false] at hl
  rcases hl with rfl | rfl
  · exact ⟨pA, by rfl⟩
  · exact ⟨pB, by rfl⟩

theorem sameBodiesXY : SameBodies src0 stX srcY stY := by
  intro r
  unfold readObject
  simp only [src0, srcY, stY, List.find?_nil]
  cases List.find? (fun p => decide (p.1 = r.digest)) stX.stage <;> rfl

theorem docsSameXY : DocsSame stX.p.docs stY.p.docs :=
  .cons ⟨rfl, treeSame_AB⟩ (.cons ⟨rfl, TreeSame.refl _⟩ (.cons ⟨rfl, TreeSame.refl _⟩ (.cons ⟨rfl, TreeSame.refl _⟩
    (.cons ⟨rfl, TreeSame.refl _⟩ (.cons ⟨rfl, TreeSame.refl _⟩ .nil)))))

theorem toY1 : TrueOrder srcY stY tB r1 oa1 := .full (by rfl)
theorem toY2a : TrueOrder srcY stY tB r2a oa2a := .delta (patch := pA) (par := r1) (by rfl) (by rfl) toY1 (by rfl)
theorem toY2b : TrueOrder srcY stY tB r2b oa2b := .delta (patch := pB) (par := r1) (by rfl) (by rfl) toY1 (by rfl)

theorem hordB : ∀ l ∈ tB.leafs, TrueOrder srcY stY tB l (ordA l) := by
  rw [tB_facts.1]
  intro l hl
  simp only [List.mem_cons, List.not_mem_nil, or_false] at hl
  rcases hl with rfl | rfl
  · exact toY2a
  · exact toY2b

theorem arr_onlyY : ∀ p ∈ stY.p.docs, isArrayDescriptor p.1 = true → p = (uA, tB) := by
  intro p hp ha
  simp only [stY, List.mem_cons, List.not_mem_nil, or_false] at hp
  rcases hp with rfl | rfl | rfl | rfl | rfl | rfl
  · rfl
  all_goals exact absurd ha (by decide)

/-- the warm cache is fine for the second replica -/
theorem cacheB : CacheOK NX srcY stY tB stY.acache := by
  intro kv hkv
  have : kv = (r2a, oa2a) := by simpa [stY] using hkv
  subst this
  exact ⟨fun _ => toY2a, fun hn => absurd (C12b.leaf_inTree tB_good (by decide)) hn⟩

theorem invY : ReadInv NXX srcY stY ordX where
  sorted := by unfold C04b.DocsSorted; simp only [stY]; decide
  good := fun p hp ha => by rw [arr_onlyY p hp ha]; exact tB_good
  orders := fun p hp ha => by rw [arr_onlyY p hp ha]; exact hordB
  coherent := fun p hp ha l hl _ q hq hqa => by
    rw [arr_onlyY p hp ha] at hl ⊢
    rw [arr_onlyY q hq hqa]
    exact ⟨fun _ => hordB l hl, fun hn => absurd (C12b.leaf_inTree tB_good hl) hn⟩
  cache := fun q hq hqa => by rw [arr_onlyY q hq hqa]; exact cacheB

def jstr (s : String) : JVal := .str s.toList

/-- the document both replicas show -/
def shown : JVal :=
  .obj [(ID_FIELD, .str ROOT_ID),
        ("items".toList ++ [FLAT], .arr [
          .obj [(ID_FIELD, jstr "x"), ("v".toList, jstr "!1")],
          .obj [(ID_FIELD, jstr "z"), ("v".toList, jstr "!333")],
          .obj [(ID_FIELD, jstr "y"), ("v".toList, jstr "!22")],
          .obj [(ID_FIELD, jstr "qq"), ("v".toList, jstr "!4444")]])]

/-- **both replicas return the same non-trivial document** (by evaluation), and the caches they return differ -/
theorem read_both : ∃ c c', read src0 stX = .ok (shown, c) ∧ read srcY stY = .ok (shown, c') ∧ c.cap ≠ c'.cap :=
  ⟨_, _, rfl, rfl, by decide⟩

/-- all hypotheses of `read_converge` hold on the pair, and its conclusion is the evaluated fact -/
example : ∃ c', read srcY stY = .ok (shown, c') := by
  obtain ⟨c, _, h, _, _⟩ := read_both
  exact read_converge invX invY docsSameXY sameBodiesXY h

example : val (read src0 stX) = val (read srcY stY) := read_converge_val invX invY docsSameXY sameBodiesXY

/-- the tree-level lemmas on the pair -/
example : ∀ r, tA.getParent r = tB.getParent r := treeSame_AB.getParent_eq (goodTree_oneParent tA_good)
example : GoodTree tB := treeSame_AB.goodTree tA_good (by decide)

/-- the staging flags play no role in `TreeSame`: a third tree, different order AND nothing staged -/
def tB' : RevTree := (((RevTree.empty.add r1 none false).1.add r2b (some r1) false).1.add r2a (some r1) false).1
example : TreeSame tA tB' ∧ ¬ tA.entries.Perm tB'.entries := ⟨⟨by decide, by decide, by decide⟩, by decide⟩

/-! ### the hypotheses of `read_of_agree` hold on the pair -/

/-- what `C01.Agree` says of two trees -/
def AgreeT (t t' : RevTree) : Prop :=
  t.entries.Perm t'.entries ∧ (validate t).leafs = (validate t').leafs ∧ (validate t).winner = (validate t').winner

theorem agreeT_refl (t : RevTree) : AgreeT t t := ⟨List.Perm.refl _, rfl, rfl⟩

theorem agreeT_XY : All₂ (fun p q => p.1 = q.1 ∧ AgreeT p.2 q.2) stX.p.docs stY.p.docs :=
  .cons ⟨rfl, by decide, by decide, by decide⟩ (.cons ⟨rfl, agreeT_refl _⟩ (.cons ⟨rfl, agreeT_refl _⟩
    (.cons ⟨rfl, agreeT_refl _⟩ (.cons ⟨rfl, agreeT_refl _⟩ (.cons ⟨rfl, agreeT_refl _⟩ .nil)))))

theorem agreeXY : C01.Agree stX.p stY.p where
  status := fun _ => rfl
  anchors := fun _ => Iff.rfl
  objects := fun _ => Iff.rfl
  packs := fun _ => Iff.rfl
  keys := by decide
  pairs := fun u x => ((all₂_treeOf (agreeT_refl _) agreeT_XY u).1.map (fun e => (e.rev, e.parent))).mem_iff
  perm := fun u => (all₂_treeOf (agreeT_refl _) agreeT_XY u).1
  leafs := fun u => (all₂_treeOf (agreeT_refl _) agreeT_XY u).2.1
  winner := fun u => (all₂_treeOf (agreeT_refl _) agreeT_XY u).2.2

theorem validatedX : C01.AllValidated stX.p.docs :=
  treeOf_all (Q := fun t => validate t = t) rfl (by decide)
theorem validatedY : C01.AllValidated stY.p.docs :=
  treeOf_all (Q := fun t => validate t = t) rfl (by decide)

example : val (read src0 stX) = val (read srcY stY) :=
  read_of_agree agreeXY validatedX validatedY invX invY sameBodiesXY

/-! ### the hypotheses of `read_time_travel` hold: the same trees later, over a storage that GREW, warm cache -/

def extra : Str := "extra".toList

/-- the later storage: everything that was readable, and one more body -/
def srcZ : Src := fun d => match stX.stage.find? (fun p => p.1 = d) with
  | some p => some p.2
  | none => if d = extra then some [] else none

/-- the replica after time travel: same protocol state, empty stage, warm cache -/
def stZ : DState := { p := stX.p, stage := [], acache := { cap := 4, items := [(r2a, oa2a)] } }

theorem growXZ : ∀ r x, readObject src0 stX r = .ok x → readObject srcZ stZ r = .ok x := by
  intro r x h
  unfold readObject at h ⊢
  by_cases h1 : r.isEmpty = true
  · rw [if_pos h1] at h ⊢; exact h
  · rw [if_neg h1] at h ⊢
    by_cases h2 : r.isDeleted = true
    · rw [if_pos h2] at h ⊢; exact h
    · rw [if_neg h2] at h ⊢
      by_cases h3 : r.isResolved = true
      · rw [if_pos h3] at h ⊢; exact h
      · rw [if_neg h3] at h ⊢
        by_cases h4 : r.isCharcode = true
        · rw [if_pos h4] at h ⊢; exact h
        · rw [if_neg h4] at h ⊢
          simp only [src0, srcZ, stZ, List.find?_nil] at h ⊢
          cases hf : List.find? (fun p => decide (p.1 = r.digest)) stX.stage with
          | some p => rw [hf] at h; exact h
          | none => rw [hf] at h; cases h

/-- the storage really grew: a body that could not be read then can be read now -/
example : ¬ SameBodies src0 stX srcZ stZ := by
  intro h
  have := h (Rev.mk1 extra)
  have e1 : readObject src0 stX (Rev.mk1 extra) = .error "value_not_found" := by rfl
  have e2 : readObject srcZ stZ (Rev.mk1 extra) = .ok [] := by rfl
  rw [e1, e2] at this
  cases this

theorem samePast_refl (s : PState) : C14b.SamePast s s :=
  ⟨fun _ _ => Iff.rfl, fun _ => List.Perm.refl _, rfl, fun _ => Iff.rfl, fun _ => Iff.rfl, fun _ => Iff.rfl⟩

theorem toZ1 : TrueOrder srcZ stZ tA r1 oa1 := .full (by rfl)
theorem toZ2a : TrueOrder srcZ stZ tA r2a oa2a := .delta (patch := pA) (par := r1) (by rfl) (by rfl) toZ1 (by rfl)
theorem toZ2b : TrueOrder srcZ stZ tA r2b oa2b := .delta (patch := pB) (par := r1) (by rfl) (by rfl) toZ1 (by rfl)

theorem hordZ : ∀ l ∈ tA.leafs, TrueOrder srcZ stZ tA l (ordA l) := by
  rw [tA_facts.1]
  intro l hl
  simp only [List.mem_cons, List.not_mem_nil, or_false] at hl
  rcases hl with rfl | rfl
  · exact toZ2a
  · exact toZ2b

theorem invZ : ReadInv NXX srcZ stZ ordX where
  sorted := sortedX
  good := fun p hp ha => by rw [arr_only p hp ha]; exact tA_good
  orders := fun p hp ha => by rw [arr_only p hp ha]; exact hordZ
  coherent := fun p hp ha l hl _ q hq hqa => by
    rw [arr_only p hp ha] at hl ⊢
    rw [arr_only q hq hqa]
    exact ⟨fun _ => hordZ l hl, fun hn => absurd (C12b.leaf_inTree tA_good hl) hn⟩
  cache := fun q hq hqa => by
    rw [arr_only q hq hqa]
    intro kv hkv
    have : kv = (r2a, oa2a) := by simpa [stZ] using hkv
    subst this
    exact ⟨fun _ => toZ2a, fun hn => absurd (C12b.leaf_inTree tA_good (by decide)) hn⟩

example : ∃ c', read srcZ stZ = .ok (shown, c') := by
  obtain ⟨c, _, h, _, _⟩ := read_both
  exact read_time_travel (d₀ := stX) (d' := stZ) (samePast_refl _) (fun _ => ⟨rfl, rfl⟩) invX invZ growXZ h

end Ex

/-! axiom audit -/
section Audit
#print axioms TreeSame.getParent_eq
#print axioms TreeSame.contains_eq
#print axioms TreeSame.length_eq
#print axioms TreeSame.treeObs
#print axioms TreeSame.trueOrder_iff
#print axioms TreeSame.goodTree
#print axioms validate_of_pairs
#print axioms docsSame_of_treeOf
#print axioms read_sim2
#print axioms read_converge
#print axioms read_converge_iff
#print axioms read_converge_err
#print axioms read_converge_val
#print axioms read_of_agree
#print axioms read_of_agree_ok
#print axioms read_of_converge
#print axioms read_time_travel_upto
#print axioms read_time_travel
#print axioms read_time_travel_protocol
#print axioms Ex.invY
#print axioms Ex.read_both
#print axioms Ex.agreeXY
#print axioms Ex.invZ
#print axioms Ex.growXZ
#print axioms DocsSame.treeOf
end Audit

end Melda.Props.C01c
