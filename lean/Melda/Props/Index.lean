/-
  Index of the property theorems: for every property of /verif/properties.jsonl the main statements proved
  about the model, by name (`#check` fails the build if one is renamed or removed; the axioms of every theorem
  of every property module are audited by the runner on each run).  Helper lemmas live in the property files.
-/
import Melda.Props.C01 import Melda.Props.C01b import Melda.Props.C01c import Melda.Props.C01d
import Melda.Props.C01e import Melda.Props.C01f import Melda.Props.C02 import Melda.Props.C02b import Melda.Props.C03
import Melda.Props.C03b import Melda.Props.C03c import Melda.Props.C04 import Melda.Props.C04b
import Melda.Props.C04c import Melda.Props.C04d import Melda.Props.C05 import Melda.Props.C06
import Melda.Props.C06b import Melda.Props.C06c import Melda.Props.C07 import Melda.Props.C08
import Melda.Props.C08b import Melda.Props.C08c import Melda.Props.C09 import Melda.Props.C10
import Melda.Props.C11 import Melda.Props.C12 import Melda.Props.C12b import Melda.Props.C12c
import Melda.Props.C13 import Melda.Props.C14 import Melda.Props.C14b import Melda.Props.C15
import Melda.Props.C15b import Melda.Props.C15c import Melda.Props.C16 import Melda.Props.C16b
import Melda.Props.C16c import Melda.Props.C17 import Melda.Props.C17b import Melda.Props.C18b
import Melda.Props.C19 import Melda.Props.HashOut import Melda.Props.JsonRT import Melda.Props.Depth
import Melda.Gen.LockProgs import Melda.Gen.LockFixtureD2
namespace Melda.Props

section C01  -- replicas holding the same committed history converge
#check @C01.converge
#check @C01.applyBlocks_perm
#check @C01.reload_listing_perm
#check @C01b.sync_round_converges
#check @C01b.sync_idempotent
#check @C01c.read_converge
#check @C01d.read_update_then_converge
#check @C01e.trueOrder_sub
#check @C01e.allTO_union
#check @C01e.readInv_of_allTO
#check @C01e.read_converge_merged
#check @C01f.updateObject_array_allTO
end C01
section C02  -- blocks take effect only when causally complete
#check @Proto.checkDelta_spec
#check @C02.reload_synced
#check @C02.refresh_synced
#check @C02.refresh_seq_eq_reload
#check @C02.applied_ancestors
#check @C02b.markValid_depth
end C02
section C03  -- a successful commit is durable and reopens to the same state
#check @C03b.commit_reopen
#check @C03b.first_commit_reopen
#check @C03.scan_pack
#check @JsonRT.parseJson_render
#check @JsonRT.parseJsonLim_render
#check @JsonRT.parseJsonLim_render_deep
#check @Depth.isTooDeep_iff
#check @C03c.flatten_depth
#check @C03c.update_inner_guards_pass
#check @C03c.unguarded_commit_block_lost
end C03
section C04  -- reading returns exactly the document last submitted
#check @C04.unflatten_flatten
#check @C04b.update_read_plain
#check @C04c.update_read
#check @C04b.update_idem_trees
end C04
section C05  -- the winner rule
#check @C05.winner_spec
#check @C05.conflict_spec
#check @C05.leafs_perm
#check @C05.winner_perm
end C05
section C06  -- array merge
#check @C06.mem_merge
#check @C06.nodup_merge
#check @C06b.merge_keeps_both_orders
#check @C06c.readAt_conflict_spec
#check @C06c.pairwise_consistent_not_sufficient
end C06
section C07  -- resolution
#check @C07.resolveAs_plain_spec
#check @C07.resolveAs_deleted_spec
#check @C12b.resolveAs_array_spec
end C07
section C08  -- every operation returns
#check @Melda.Gen.extracted_safe
#check @Melda.GenD2.fixture_unsafe
#check @C08.safe_sound
#check @C08b.read_no_panic
#check @C08b.ops_no_panic_partial
#check @C08c.update_total
#check @C08c.update_aborts_without_winner
#check @C08c.replayStage_no_panic
#check @C12c.autoResolve_total
#check @C12c.snapshot_no_panic
#check @C16c.makeDiffPatch_total
end C08
section C09  -- crash atomicity
#check @C09.crash_prefix
#check @C09.any_subset_atomic
#check @C09.commit_complete
#check @C09.retry_after_crash
#check @C03b.meld_any_subset_no_mixture
end C09
section C10  -- the hash gate
#check @C10.fetch_hash_gate
#check @C10.pack_hash_gate
#check @C10.fetch_ignores_invalid
#check @C10.prefix_monotone
end C10
section C11  -- content addressing
#check @C11.commit_writes_names
#check @C11.store_monotone
#check @C11.block_roundtrip
#check @C11.meld_copies_bytes
end C11
section C12  -- maintenance operations never change the visible document
#check @C12.commit_read
#check @C12.refresh_idle
#check @C12b.snapshot_read
#check @C12b.autoResolve_read_unchanged
#check @C12c.autoResolve_total_read
end C12
section C13  -- the commit graph
#check @C13.applied_closed
#check @C13.acyclic
#check @C13.anchors_spec
#check @C13.commit_block'
end C13
section C14  -- time travel
#check @C14.untilLoop_spec
#check @C14.time_travel
#check @C14b.time_travel_same_state
#check @C01c.read_time_travel
end C14
section C15  -- staging
#check @C15.unstage_restores_eq
#check @C15.unstage_docs_restores
#check @C15b.export_discard_replay
#check @C15c.replay_recorded_noop
end C15
section C16  -- delta-encoded arrays
#check @C16.makeDiffPatch_roundtrip
#check @C16b.rebuild_iff
#check @C16b.rebuild_cache_independent
#check @C16c.diff_roundtrip_total
end C16
section C17  -- storage backends
#check @C17.read_write_same
#check @C17.readRange_eq_slice
#check @C17b.fs_refines
#check @C17b.all_backends_agree
end C17
section C18  -- configuration independence
#check @C01.tree_perm
#check @C18b.readObjectC_refines
#check @C18b.readObjectC_independent
#check @C15c.stageAll_perm
end C18
section C19  -- canonical revision identifiers
#check @C19.parse_render
#check @C19.render_injective
#check @C19.cmp_trans
#check @C19.cmp_trichotomy
#check @HashOut.hexOut_Hreal
end C19

end Melda.Props
