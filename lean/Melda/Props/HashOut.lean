/-
  HashOut — the real hash `Hreal` (own SHA-256 + lowercase hex) satisfies `C19.HexOut`:
  64 characters, each a digit or a letter in `a..f`.  Discharges the `HexOut H` hypothesis
  carried by the C19 theorems for `H := Hreal`.
-/
import Melda.Driver
import Melda.Props.C19
namespace Melda.Props.HashOut
open Melda

/-- a digit or a lowercase hex letter (the per-character predicate of `C19.HexOut`) -/
abbrev LowerHex (c : Char) : Prop :=
  (isDigit c || ('a'.val ≤ c.val && c.val ≤ 'f'.val)) = true

/-! ### 1. hex encoding -/

theorem hexDigit_lower {n : Nat} (h : n < 16) :
    (isDigit (hexDigit n) || ('a'.val ≤ (hexDigit n).val && (hexDigit n).val ≤ 'f'.val)) = true := by
  have : n = 0 ∨ n = 1 ∨ n = 2 ∨ n = 3 ∨ n = 4 ∨ n = 5 ∨ n = 6 ∨ n = 7 ∨ n = 8 ∨ n = 9 ∨
      n = 10 ∨ n = 11 ∨ n = 12 ∨ n = 13 ∨ n = 14 ∨ n = 15 := by omega
  rcases this with h | h | h | h | h | h | h | h | h | h | h | h | h | h | h | h <;> subst h <;> decide

theorem hexByte_length (b : UInt8) : (hexByte b).length = 2 := rfl

theorem hexByte_lower (b : UInt8) : ∀ c ∈ hexByte b, LowerHex c := by
  intro c hc
  have hb : b.toNat < 256 := UInt8.toNat_lt b
  simp only [hexByte, List.mem_cons, List.not_mem_nil, or_false] at hc
  rcases hc with rfl | rfl
  · exact hexDigit_lower (by omega)
  · exact hexDigit_lower (by omega)

theorem hexWord_length (w : UInt32) : (hexWord w).length = 8 := rfl

theorem hexWord_lower (w : UInt32) : ∀ c ∈ hexWord w, LowerHex c := by
  intro c hc
  simp only [hexWord, List.mem_append] at hc
  rcases hc with ((hc | hc) | hc) | hc <;> exact hexByte_lower _ c hc

theorem flatMap_hexWord_length (l : List UInt32) : (l.flatMap hexWord).length = 8 * l.length := by
  induction l with
  | nil => rfl
  | cons w t ih => rw [List.flatMap_cons, List.length_append, ih, hexWord_length, List.length_cons]; omega

theorem flatMap_hexWord_lower (l : List UInt32) : ∀ c ∈ l.flatMap hexWord, LowerHex c := by
  intro c hc
  rcases List.mem_flatMap.mp hc with ⟨w, _, hw⟩
  exact hexWord_lower w c hw

/-! ### 2. the digest has eight words -/

/-- The result of `compress` is an 8-element array literal, whatever the loop computed
(the hypothesis `h.size = 8` of the requested statement is not needed). -/
theorem compress_size' (h : Array UInt32) (blk : ByteArray) (off : Nat) :
    (Sha256.compress h blk off).size = 8 := by
  unfold Sha256.compress
  rfl

theorem compress_size {h : Array UInt32} (_hs : h.size = 8) (blk : ByteArray) (off : Nat) :
    (Sha256.compress h blk off).size = 8 := compress_size' h blk off

theorem H0_size : Sha256.H0.size = 8 := rfl

/-- loop invariant of `hashWords`: a fold of `compress` steps over any list of block indices
keeps the size 8 -/
theorem forIn_compress_size (p : ByteArray) (l : List Nat) (h : Array UInt32) (hs : h.size = 8) :
    (Id.run (forIn l h fun i s => pure (ForInStep.yield (Sha256.compress s p (64 * i))))).size = 8 := by
  induction l generalizing h with
  | nil => simpa using hs
  | cons i t ih =>
    rw [List.forIn_cons]
    simp only [pure_bind]
    exact ih _ (compress_size' _ _ _)

theorem hashWords_size (data : ByteArray) : (Sha256.hashWords data).size = 8 := by
  unfold Sha256.hashWords
  simp only [Std.Legacy.Range.forIn_eq_forIn_range', bind_pure]
  exact forIn_compress_size _ _ _ H0_size

/-! ### 3. main theorem -/

theorem sha256hex_toList (data : ByteArray) :
    (sha256hex data).toList = (Sha256.hashWords data).toList.flatMap hexWord := by
  unfold sha256hex
  exact String.toList_ofList

theorem sha256hex_length (data : ByteArray) : (sha256hex data).toList.length = 64 := by
  rw [sha256hex_toList, flatMap_hexWord_length, Array.length_toList, hashWords_size]

theorem sha256hex_lower (data : ByteArray) : ∀ c ∈ (sha256hex data).toList, LowerHex c := by
  rw [sha256hex_toList]; exact flatMap_hexWord_lower _

/-- MAIN: the real hash returns 64 lowercase hexadecimal characters. -/
theorem hexOut_Hreal : C19.HexOut Hreal := fun _ =>
  ⟨sha256hex_length _, sha256hex_lower _⟩

/-! ### 4. convenience restatements -/

theorem hreal_length (b : Bytes) : (Hreal b).length = 64 := (hexOut_Hreal b).1

theorem hreal_lower (b : Bytes) : ∀ c ∈ Hreal b,
    (isDigit c || ('a'.val ≤ c.val && c.val ≤ 'f'.val)) = true := (hexOut_Hreal b).2

theorem hreal_alnum (b : Bytes) : ∀ c ∈ Hreal b, C19.isAlnum c = true := fun c hc =>
  C19.lowerHex_isAlnum (hreal_lower b c hc)

theorem hreal_ne_nil (b : Bytes) : Hreal b ≠ [] := by
  intro h; have := hreal_length b; rw [h] at this; cases this

theorem hreal_alnumStr (b : Bytes) : C19.AlnumStr (Hreal b) := ⟨hreal_ne_nil b, hreal_alnum b⟩

/-! ### 5. non-vacuity / sanity: the model's SHA-256 on the empty input (FIPS 180-4 test vector),
evaluated by the kernel (about 4 s; no `native_decide`).
`#eval Hreal [0x61,0x62,0x63] = "ba7816bf8f01cfea414140de5dae2223b00361a396177a9cb410ff61f20015ad".toList`
is `true` as well. -/
example : Hreal [] = "e3b0c44298fc1c149afbf4c8996fb92427ae41e4649b934ca495991b7852b855".toList := by
  decide +kernel

example : (Hreal []).length = 64 := hreal_length []

end Melda.Props.HashOut
