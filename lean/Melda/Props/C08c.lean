/-
  C08 (part 3) - `update` at document level is TOTAL: from every state satisfying the read-safety invariant
  `InvR` (conflicts allowed everywhere) in which every object has a winner, `update` of a document whose
  flattening succeeds returns `.ok` - it neither aborts (`Res.panic`: `unable_to_delete_object`,
  `unable_to_update_object`, `digest_object`, `expecting_winning_order`, ...) nor fails - and the resulting
  state satisfies the invariant again, so `read` and the next `update` do not abort either.  This closes the
  item "NOT covered: `update` (document level)" of `C08b.ops_no_panic_partial`.

  `AllWinners` is the ingredient `InvR` lacks: an object that has revisions but no winner is exactly the
  state the known finding D24 reaches through `replay_stage` of a foreign export - and there `update` DOES
  abort (`update_aborts_without_winner`), so the hypothesis cannot be dropped.

  Hypotheses beyond the invariants, as in `C08b.update_keeps_invR`: the pool of the document (distinct keys,
  bodies in the collision-free universe `S`, tracked objects with a digest that `digest_object` accepts and a
  revision can carry, full descriptors for arrays, `ArrReady`), the external diff routine answers
  (`DiffTotal`), and no 28-bit tail clash between different arrays along the run (`AgreeRun`: the
  cross-tree agreement `AgreeParents` of every intermediate state; `C04c.agreeParents_needed`).
-/
import Melda.Props.C08b
import Melda.Props.C16c
import Melda.Props.C15b
namespace Melda.Props.C08c
open Melda Melda.RevTree Melda.DState Melda.Props.C08b
open Melda.Props.C05 (CmpOrder KeysNodup WellIndexed Reaches LiveLeaf)
open Melda.Props.C19 (Canonical AlnumStr HexOut)
open Melda.Props.C04b (TreeOK ParentClosed StoreOK DocsSorted Cache)
open Melda.Props.C04c (TO ArrTree AgreeParents CacheOK ClosedAll)

/-- every object has a winner -/
def AllWinners (st : DState) : Prop := ∀ u t, st.treeOf u = some t → ∃ w, t.winner = some w

/-! ### one deletion -/

theorem deleteObject_total {H : Bytes → Str} (hH : HexOut H) {src : Src} {S : JObj → Prop} {st : DState}
    (hinv : InvRS H src S st) (hwin : AllWinners st) (u : Str) :
    ∃ st' rv, deleteObject H st u = .ok (st', rv) ∧ AllWinners st' := by
  unfold deleteObject
  cases htu : st.treeOf u with
  | none => exact ⟨st, none, rfl, hwin⟩
  | some t =>
    obtain ⟨w, hw⟩ := hwin u t htu
    simp only [hw]
    by_cases hc : (!w.isDeleted && !w.isResolved) = true
    · simp only [hc, if_true]
      refine ⟨_, _, rfl, ?_⟩
      intro u' t' ht'
      by_cases hne : u' = u
      · subst hne
        rw [C04b.treeOf_withTree_self] at ht'; cases ht'
        exact ⟨_, (C04b.add_del_becomes_winner hH (hinv.trees _ t htu).ok hw).1⟩
      · rw [C04b.treeOf_withTree_other _ _ _ _ hne] at ht'
        exact hwin u' t' ht'
    · simp only [hc, Bool.false_eq_true, if_false]
      exact ⟨st, none, rfl, hwin⟩

/-! ### one `update_object` on a plain identifier -/

theorem updateObject_plain_total {H : Bytes → Str} (hH : HexOut H) {src : Src} {S : JObj → Prop} {st : DState}
    (hinv : InvRS H src S st) (hwin : AllWinners st) {u : Str} (hu : isArrayDescriptor u = false)
    {o : JObj} {d : Str} (hd : digestObject H o = .ok d) (hf : UsableDigest H o) :
    ∃ st' rv, updateObject H src st u o = .ok (st', rv) ∧ AllWinners st' := by
  obtain ⟨hfa, hfr⟩ := hf d hd
  unfold updateObject
  cases htu : st.treeOf u with
  | none =>
    simp only [createObject, hd, C04b.treeOf_writeObject, htu, Option.getD_none]
    have hres : ¬ (Rev.mk1 d).isResolved = true := by simp [Rev.isResolved, Rev.mk1, hfr]
    obtain ⟨_, hwin1⟩ := treeR_singleton (Rev.mk1 d) rfl hres (C19.mk1_canonical d hfa)
    generalize hT : RevTree.empty.add (Rev.mk1 d) none true = T at hwin1
    obtain ⟨t', added⟩ := T
    refine ⟨_, _, rfl, ?_⟩
    intro u' t'' ht''
    by_cases hne : u' = u
    · subst hne
      rw [C04b.treeOf_withTree_self] at ht''; cases ht''
      exact ⟨_, hwin1⟩
    · rw [C04b.treeOf_withTree_other _ _ _ _ hne, C04b.treeOf_writeObject] at ht''
      exact hwin u' t'' ht''
  | some t =>
    have htr := hinv.trees u t htu
    obtain ⟨w, hw⟩ := hwin u t htu
    simp only [hw, hu, Bool.false_eq_true, if_false, hd, Bool.false_or]
    by_cases hdw : d = w.digest
    · simp only [hdw, ne_eq, not_true_eq_false, decide_false, Bool.false_eq_true, if_false]
      exact ⟨_, _, rfl, hwin⟩
    · simp only [ne_eq, hdw, not_false_eq_true, decide_true, if_true]
      refine ⟨_, _, rfl, ?_⟩
      have hnr := C04b.upd_not_resolved H d w hfr
      obtain ⟨_, a2, _, _⟩ := treeR_add_child htr hw (r := Rev.upd H d w) rfl
        (C19.upd_canonical hH d hfa w (winner_canonical htr.ok hw)) hnr
        (C04b.child_fresh htr.ok hw rfl hnr) true
      intro u' t'' ht''
      rw [C04b.treeOf_writeObject] at ht''
      by_cases hne : u' = u
      · subst hne
        rw [C04b.treeOf_withTree_self] at ht''; cases ht''
        exact ⟨_, a2⟩
      · rw [C04b.treeOf_withTree_other _ _ _ _ hne] at ht''
        exact hwin u' t'' ht''

/-! ### one `update_object` on an array descriptor -/

/-- adding the child `Rev.upd H d w` for the digest of a descriptor object keeps `AllWinners` -/
theorem allWinners_array_child {H : Bytes → Str} (hH : HexOut H) {src : Src} {S : JObj → Prop} {st : DState}
    (hinv : InvRS H src S st) (hwin : AllWinners st) {u : Str} {t : RevTree} (htu : st.treeOf u = some t)
    {w : Rev} (hw : t.winner = some w) {obj : JObj} (hn : C04b.NoHash obj) {d : Str}
    (hd : digestObject H obj = .ok d) (c : Cache) :
    AllWinners ((({ st with acache := c } : DState).withTree u
      (t.add (Rev.upd H d w) (some w) true).1).writeObject (Rev.upd H d w) obj) := by
  have htr := hinv.trees u t htu
  have hfa := C04b.faithful_of_noHash hH hn hd
  have hnr := C04b.upd_not_resolved H d w hfa.2.2.1
  obtain ⟨_, a2, _, _⟩ := treeR_add_child htr hw (r := Rev.upd H d w) rfl
    (C19.upd_canonical hH d hfa.1 w (winner_canonical htr.ok hw)) hnr
    (C04b.child_fresh htr.ok hw rfl hnr) true
  intro u' t'' ht''
  rw [C04b.treeOf_writeObject] at ht''
  by_cases hne : u' = u
  · subst hne
    rw [C04b.treeOf_withTree_self] at ht''; cases ht''
    exact ⟨_, a2⟩
  · rw [C04b.treeOf_withTree_other _ _ _ _ hne] at ht''
    exact hwin u' t'' ht''

theorem updateObject_array_total {H : Bytes → Str} (hH : HexOut H) {src : Src} {S : JObj → Prop} {st : DState}
    (hinv : InvRS H src S st) (hwin : AllWinners st) {u : Str} (hu : isArrayDescriptor u = true)
    (newOrder : List JVal) (hdt : DiffTotal)
    (hleafs : ∀ t, st.treeOf u = some t → ∀ l ∈ t.leafs, ∃ o, TO src st t l o) :
    ∃ st' rv, updateObject H src st u [(ORDER_FIELD, .arr newOrder)] = .ok (st', rv) ∧ AllWinners st' := by
  obtain ⟨d0, hd0⟩ := digest_order H newOrder
  have hcl := hinv.closedAll
  unfold updateObject
  cases htu : st.treeOf u with
  | none =>
    simp only [createObject, hd0, C04b.treeOf_writeObject, htu, Option.getD_none]
    have hfa := C04b.faithful_of_noHash hH (C04b.noHash_order newOrder) hd0
    have hres : ¬ (Rev.mk1 d0).isResolved = true := by simp [Rev.isResolved, Rev.mk1, hfa.2.2.1]
    obtain ⟨_, hwin1⟩ := treeR_singleton (Rev.mk1 d0) rfl hres (C19.mk1_canonical d0 hfa.1)
    generalize hT : RevTree.empty.add (Rev.mk1 d0) none true = T at hwin1
    obtain ⟨t', added⟩ := T
    refine ⟨_, _, rfl, ?_⟩
    intro u' t'' ht''
    by_cases hne : u' = u
    · subst hne
      rw [C04b.treeOf_withTree_self] at ht''; cases ht''
      exact ⟨_, hwin1⟩
    · rw [C04b.treeOf_withTree_other _ _ _ _ hne, C04b.treeOf_writeObject] at ht''
      exact hwin u' t'' ht''
  | some t =>
    have htr := hinv.trees u t htu
    obtain ⟨w, hw⟩ := hwin u t htu
    have hwc := htr.leaf_contains (htr.winner_mem hw)
    obtain ⟨winOrder, hto⟩ := hleafs t htu w (htr.winner_mem hw)
    obtain ⟨c, hro⟩ := C04c.rebuild_complete_g htr.ok.idx htr.ok.closed
      (C04c.cacheOK_guard hinv.agree hcl hinv.cache ⟨hu, htu⟩) hwc hto
    simp only [hw, hu, if_true, deltaDescriptor, C04b.descOfObject_order, hro]
    cases hmp : makeDiffPatch winOrder newOrder with
    | none => have := hdt winOrder newOrder; rw [hmp] at this; cases this
    | some patch =>
      obtain ⟨d1, hd1⟩ := digest_delta H patch
      simp only
      by_cases hdel : w.isDeleted = true
      · simp only [hdel, if_true, hd0, Bool.true_or]
        exact ⟨_, _, rfl, allWinners_array_child hH hinv hwin htu hw (C04b.noHash_order newOrder) hd0 c⟩
      · simp only [hdel, Bool.false_eq_true, if_false]
        by_cases hpe : patch.isEmpty = true
        · simp only [hpe, if_true]
          refine ⟨_, _, rfl, ?_⟩
          intro u' t'' ht''
          exact hwin u' t'' ht''
        · simp only [hpe, Bool.false_eq_true, if_false, hd1, Bool.true_or, if_true]
          exact ⟨_, _, rfl, allWinners_array_child hH hinv hwin htu hw (C04b.noHash_delta patch) hd1 c⟩

/-! ### the two loops of `update` -/

/-- no tail clash between different arrays along a run of `step` from `s` over `l`: every intermediate
    state that is reached satisfies the cross-tree agreement -/
def AgreeRun {α : Type} (step : Res DState → α → Res DState) (s : DState) (l : List α) : Prop :=
  ∀ l1 l2 s1, l = l1 ++ l2 → l1.foldl step (.ok s) = .ok s1 → AgreeParents s1

theorem agreeRun_tail {α : Type} {step : Res DState → α → Res DState} {s s2 : DState} {a : α} {l : List α}
    (h : AgreeRun step s (a :: l)) (h2 : step (.ok s) a = .ok s2) : AgreeRun step s2 l := by
  intro l1 l2 s1 hl hf
  exact h (a :: l1) l2 s1 (by rw [hl]; rfl) (by rw [List.foldl_cons, h2]; exact hf)

theorem agreeRun_head {α : Type} {step : Res DState → α → Res DState} {s s2 : DState} {a : α} {l : List α}
    (h : AgreeRun step s (a :: l)) (h2 : step (.ok s) a = .ok s2) : AgreeParents s2 :=
  h [a] l s2 rfl (by simpa using h2)

/-- **the deletion loop is total** and keeps both invariants -/
theorem goneFold_total {H : Bytes → Str} (hH : HexOut H) {src : Src} {S : JObj → Prop} :
    ∀ (l : List Str) (s : DState), InvRS H src S s → AllWinners s → AgreeRun (C04b.goneStep H) s l →
      ∃ s', l.foldl (C04b.goneStep H) (.ok s) = .ok s' ∧ InvRS H src S s' ∧ AllWinners s' ∧
        (∀ u, u ∉ l → s'.treeOf u = s.treeOf u) ∧
        (∀ r x, readObject src s r = .ok x → readObject src s' r = .ok x)
  | [], s, hinv, hwin, _ => ⟨s, rfl, hinv, hwin, fun _ _ => rfl, fun _ _ h => h⟩
  | u :: rest, s, hinv, hwin, hag => by
    obtain ⟨s2, rv, hdel, hwin2⟩ := deleteObject_total hH hinv hwin u
    have hstep : C04b.goneStep H (.ok s) u = .ok s2 := by simp [C04b.goneStep, hdel]
    have hinv2 := deleteObject_keeps_invR hH hinv (fun _ => agreeRun_head hag hstep) hdel
    obtain ⟨s', hf, i1, i2, i3, i4⟩ := goneFold_total hH rest s2 hinv2 hwin2 (agreeRun_tail hag hstep)
    refine ⟨s', by rw [List.foldl_cons, hstep]; exact hf, i1, i2, ?_, ?_⟩
    · intro u' hu'
      simp only [List.mem_cons, not_or] at hu'
      rw [i3 u' hu'.2, deleteObject_other hdel u' hu'.1]
    · intro r x hx
      exact i4 r x ((C04c.deleteObject_grow src hdel).reads r x hx)

/-- what is assumed of a pool entry (compare `C08b.EntryR`): it is an object; a tracked object has a digest
    (`digest_object` accepts it: no `_id` left inside, no `#` of a wrong type) that a revision can carry;
    a descriptor is a full descriptor -/
def EntryT (H : Bytes → Str) (S : JObj → Prop) (p : Str × JVal) : Prop :=
  ∃ o, p.2 = .obj o ∧ S o ∧
    ((isArrayDescriptor p.1 = false ∧ UsableDigest H o ∧ ∃ d, digestObject H o = .ok d) ∨
     (isArrayDescriptor p.1 = true ∧ ∃ ord, o = [(ORDER_FIELD, .arr ord)]))

/-- **the create / update loop is total** and keeps both invariants -/
theorem poolFold_total {H : Bytes → Str} (hH : HexOut H) {src : Src} {S : JObj → Prop}
    (hcf : C04b.CollisionFree H S) (hdt : DiffTotal) :
    ∀ (l : List (Str × JVal)) (s : DState), (C04.keys l).Nodup → (∀ p ∈ l, EntryT H S p) →
      (∀ p ∈ l, ∀ ord, isArrayDescriptor p.1 = true → p.2 = .obj [(ORDER_FIELD, .arr ord)] →
        ArrReady S src s p.1 ord) →
      InvRS H src S s → AllWinners s → AgreeRun (C04b.poolStep H src) s l →
      ∃ s', l.foldl (C04b.poolStep H src) (.ok s) = .ok s' ∧ InvRS H src S s' ∧ AllWinners s'
  | [], s, _, _, _, hinv, hwin, _ => ⟨s, rfl, hinv, hwin⟩
  | p :: rest, s, hn, he, hrd, hinv, hwin, hag => by
    simp only [C04.keys, List.map_cons, List.nodup_cons] at hn
    obtain ⟨o, hpo, hSo, hcase⟩ := he p List.mem_cons_self
    -- the step succeeds
    have hstepex : ∃ s2 rv, updateObject H src s p.1 o = .ok (s2, rv) ∧ AllWinners s2 := by
      rcases hcase with ⟨hpa, huse, d, hd⟩ | ⟨hpa, ord, rfl⟩
      · exact updateObject_plain_total hH hinv hwin hpa hd huse
      · exact updateObject_array_total hH hinv hwin hpa ord hdt (hrd p List.mem_cons_self ord hpa hpo).2
    obtain ⟨s2, rv, hupd, hwin2⟩ := hstepex
    have hstep : C04b.poolStep H src (.ok s) p = .ok s2 := by simp [C04b.poolStep, hpo, hupd]
    have hag2 : AgreeParents s2 := agreeRun_head hag hstep
    have hgrow := C04c.updateObject_grow hupd
    have hinv2 : InvRS H src S s2 := by
      rcases hcase with ⟨hpa, huse, _⟩ | ⟨hpa, ord, rfl⟩
      · exact updateObject_keeps_invR hH hpa hinv hSo huse hupd
      · obtain ⟨r1, r2⟩ := hrd p List.mem_cons_self ord hpa hpo
        exact updateObject_array_keeps_invR hH hpa hinv hcf hSo r1 r2 hag2 hupd
    have hrd2 : ∀ q ∈ rest, ∀ ord, isArrayDescriptor q.1 = true → q.2 = .obj [(ORDER_FIELD, .arr ord)] →
        ArrReady S src s2 q.1 ord := by
      intro q hq ord hqa hqo
      have hne : q.1 ≠ p.1 := by
        intro e
        exact hn.1 (by rw [← e]; exact List.mem_map_of_mem (f := (·.1)) hq)
      exact arrReady_mono hqa hinv (updateObject_other hupd q.1 hne) hgrow.reads
        (hrd q (List.mem_cons_of_mem _ hq) ord hqa hqo)
    obtain ⟨s', hf, i1, i2⟩ := poolFold_total hH hcf hdt rest s2 hn.2
      (fun q hq => he q (List.mem_cons_of_mem _ hq)) hrd2 hinv2 hwin2 (agreeRun_tail hag hstep)
    exact ⟨s', by rw [List.foldl_cons, hstep]; exact hf, i1, i2⟩

/-! ### `update` -/

theorem objGet_isSome_of_mem {k : Str} {v : JVal} : ∀ (c : JObj), (k, v) ∈ c → (objGet k c).isSome = true
  | [], h => by cases h
  | (k', v') :: t, h => by
    simp only [objGet]
    split
    · rfl
    · next hne =>
      rcases List.mem_cons.mp h with h | h
      · exact absurd (Prod.mk.inj h).1 hne
      · exact objGet_isSome_of_mem t h

/-- **`update` is total**: from a state satisfying `InvR` in which every object has a winner, for a document
    whose flattening succeeds with a pool as described, `update` returns `.ok` (never `.panic`, never
    `.err`), and the new state satisfies `InvR` and `AllWinners` again. -/
theorem update_total {H : Bytes → Str} (hH : HexOut H) {src : Src} {S : JObj → Prop}
    (hcf : C04b.CollisionFree H S) (hdt : DiffTotal) {st : DState} {doc : JObj} {pool : JObj} {root : Str}
    (hinv : InvRS H src S st) (hwin : AllWinners st)
    (hfl : flatten H [] (.obj doc) [] = .ok (pool, .str root))
    (hnd : (C04.keys pool).Nodup) (hent : ∀ p ∈ pool, EntryT H S p)
    (hready : ∀ p ∈ pool, ∀ ord, isArrayDescriptor p.1 = true → p.2 = .obj [(ORDER_FIELD, .arr ord)] →
      ArrReady S src st p.1 ord)
    (hag1 : AgreeRun (C04b.goneStep H) st ((st.p.docs.map (·.1)).filter (fun u => !(objHas u pool))))
    (hag2 : ∀ s1, ((st.p.docs.map (·.1)).filter (fun u => !(objHas u pool))).foldl (C04b.goneStep H) (.ok st) = .ok s1 →
      AgreeRun (C04b.poolStep H src) s1 pool) :
    ∃ st', update H src st doc = .ok (st', root) ∧ InvRS H src S st' ∧ AllWinners st' := by
  rw [C04b.update_eq, hfl]
  simp only
  obtain ⟨s1, hf1, hinv1, hwin1, hsame, hreads⟩ := goneFold_total hH _ st hinv hwin hag1
  have hready1 : ∀ p ∈ pool, ∀ ord, isArrayDescriptor p.1 = true →
      p.2 = .obj [(ORDER_FIELD, .arr ord)] → ArrReady S src s1 p.1 ord := by
    intro p hp ord hpa hpo
    have hnot : p.1 ∉ (st.p.docs.map (·.1)).filter (fun u => !(objHas u pool)) := by
      intro hm
      have h1 := (List.mem_filter.mp hm).2
      have h2 : (objGet p.1 pool).isSome = true := objGet_isSome_of_mem pool hp
      simp [objHas, h2] at h1
    exact arrReady_mono hpa hinv (hsame p.1 hnot) hreads (hready p hp ord hpa hpo)
  obtain ⟨s2, hf2, hinv2, hwin2⟩ := poolFold_total hH hcf hdt pool s1 hnd hent hready1 hinv1 hwin1 (hag2 s1 hf1)
  rw [hf1, hf2]
  exact ⟨s2, rfl, hinv2, hwin2⟩

/-- in particular `update` does not abort -/
theorem update_no_panic {H : Bytes → Str} (hH : HexOut H) {src : Src} {S : JObj → Prop}
    (hcf : C04b.CollisionFree H S) (hdt : DiffTotal) {st : DState} {doc : JObj} {pool : JObj} {root : Str}
    (hinv : InvRS H src S st) (hwin : AllWinners st)
    (hfl : flatten H [] (.obj doc) [] = .ok (pool, .str root))
    (hnd : (C04.keys pool).Nodup) (hent : ∀ p ∈ pool, EntryT H S p)
    (hready : ∀ p ∈ pool, ∀ ord, isArrayDescriptor p.1 = true → p.2 = .obj [(ORDER_FIELD, .arr ord)] →
      ArrReady S src st p.1 ord)
    (hag1 : AgreeRun (C04b.goneStep H) st ((st.p.docs.map (·.1)).filter (fun u => !(objHas u pool))))
    (hag2 : ∀ s1, ((st.p.docs.map (·.1)).filter (fun u => !(objHas u pool))).foldl (C04b.goneStep H) (.ok st) = .ok s1 →
      AgreeRun (C04b.poolStep H src) s1 pool) (m : String) :
    update H src st doc ≠ .panic m := by
  obtain ⟨st', h, _⟩ := update_total hH hcf hdt hinv hwin hfl hnd hent hready hag1 hag2
  rw [h]; exact fun e => nomatch e

/-- the diff routine of the model (the port of `yavomrs`) always answers: `C16c.makeDiffPatch_total` -/
theorem diffTotal : DiffTotal := fun a b => C16c.makeDiffPatch_total a b

/-! ### Non-vacuity: all hypotheses of `update_total` hold together, from a state whose array is in conflict -/

section Example
open Melda.Props.C12 (exH exH_hex)
open Melda.Props.C04b (src0)

theorem agreeRun_of_take {α : Type} {step : Res DState → α → Res DState} {s : DState} {l : List α}
    (h : ∀ n s1, (l.take n).foldl step (.ok s) = .ok s1 → AgreeParents s1) : AgreeRun step s l := by
  intro l1 l2 s1 hl hf
  refine h l1.length s1 ?_
  rw [hl, List.take_left']
  · exact hf
  · rfl

/-- the only descriptor tree of a state (if the run got there) is `kA` -/
def singleDesc (r : Res DState) : Bool :=
  match r with
  | .ok s => s.p.docs.all (fun p => !isArrayDescriptor p.1 || p.1 == kA)
  | _ => true

theorem allWinners_exR : AllWinners exR := by
  intro u t ht
  rcases exR_trees ht with ⟨_, rfl⟩ | ⟨_, rfl⟩
  · exact ⟨a3, by decide⟩
  · exact ⟨r1, by decide⟩

/-- **`update_total` applies** to the state `C08b.exR` (flattened array in conflict: two leaves) and the
    document `C08b.docN`: `update` returns, and the new state satisfies both invariants -/
theorem update_total_applies :
    ∃ st', update exH src0 exR docN = .ok (st', ROOT_ID) ∧ InvRS exH src0 SN st' ∧ AllWinners st' := by
  have hS : ∀ p ∈ exR.stage, SN p.2 := by
    intro p hp
    simp only [exR, List.mem_cons, List.not_mem_nil, or_false] at hp
    rcases hp with rfl | rfl | rfl | rfl <;> simp [SN, objsN]
  have hfl : flatten exH [] (.obj docN) [] = .ok (C04b.poolOf docN, .str ROOT_ID) :=
    C04.flatten_root exH docN (by decide)
  have hgone : ((exR.p.docs.map (·.1)).filter (fun u => !(objHas u (C04b.poolOf docN)))) = [] := by decide
  refine update_total exH_hex cf_SN diffTotal (invRS_exR SN hS) allWinners_exR hfl ?_ ?_ ?_ ?_ ?_
  · rw [poolOf_docN]; decide
  · rw [poolOf_docN]
    intro p hp
    simp only [List.mem_cons, List.not_mem_nil, or_false] at hp
    rcases hp with rfl | rfl | rfl | rfl
    · exact ⟨_, rfl, by simp [SN, objsN], Or.inr ⟨by decide, _, rfl⟩⟩
    · exact ⟨_, rfl, by simp [SN, objsN], Or.inl ⟨by decide, usable_of_noHash exH_hex (by rfl), _, rfl⟩⟩
    · exact ⟨_, rfl, by simp [SN, objsN], Or.inl ⟨by decide, usable_of_noHash exH_hex (by rfl), _, rfl⟩⟩
    · exact ⟨_, rfl, by simp [SN, objsN], Or.inl ⟨by decide, usable_of_noHash exH_hex (by rfl), _, rfl⟩⟩
  · rw [poolOf_docN]
    intro p hp ord hpa hpo
    simp only [List.mem_cons, List.not_mem_nil, or_false] at hp
    rcases hp with rfl | rfl | rfl | rfl
    · have : ord = [sx, sz] := by
        simp only [oDescN, JVal.obj.injEq, List.cons.injEq, Prod.mk.injEq, JVal.arr.injEq, true_and, and_true] at hpo
        exact hpo.symm
      subst this
      exact arrReady_docN
    · exact absurd hpa (by decide)
    · exact absurd hpa (by decide)
    · exact absurd hpa (by decide)
  · rw [hgone]
    intro l1 l2 s1 hl hf
    have : l1 = [] := by
      cases l1 with
      | nil => rfl
      | cons a t => cases hl
    subst this
    simp only [List.foldl_nil, Res.ok.injEq] at hf; subst hf
    exact (invRS_exR SN hS).agree
  · rw [hgone]
    intro s1 hs1
    simp only [List.foldl_nil, Res.ok.injEq] at hs1; subst hs1
    apply agreeRun_of_take
    intro n s1 hf
    -- every state on the way holds the single descriptor tree `kA`
    refine C04c.agree_single s1 kA ?_
    have key : ∀ k, k ≤ 4 → ∀ s1, ((C04b.poolOf docN).take k).foldl (C04b.poolStep exH src0) (.ok exR) = .ok s1 →
        ∀ u ∈ s1.p.docs.map (·.1), isArrayDescriptor u = true → u = kA := by
      intro k hk s1 h1 u hu hua
      have hc : singleDesc (((C04b.poolOf docN).take k).foldl (C04b.poolStep exH src0) (.ok exR)) = true := by
        have : k = 0 ∨ k = 1 ∨ k = 2 ∨ k = 3 ∨ k = 4 := by omega
        rcases this with rfl | rfl | rfl | rfl | rfl <;> decide +kernel
      rw [h1] at hc
      simp only [singleDesc, List.all_eq_true, Bool.or_eq_true, Bool.not_eq_true', beq_iff_eq] at hc
      obtain ⟨p, hp, rfl⟩ := List.mem_map.mp hu
      rcases hc p hp with h | h
      · rw [h] at hua; cases hua
      · exact h
    by_cases hn : n ≤ 4
    · exact key n hn s1 hf
    · have : (C04b.poolOf docN).take n = (C04b.poolOf docN).take 4 := by
        rw [List.take_of_length_le (by rw [poolOf_docN]; simp; omega), List.take_of_length_le (by rw [poolOf_docN]; simp)]
      rw [this] at hf
      exact key 4 (by omega) s1 hf

end Example

/-! ### `AllWinners` cannot be dropped: the state of the known finding D24 -/

section D24
/-- an object whose only recorded revision names a parent the tree does not hold (what `replay_stage` of a
    foreign export leaves behind): revisions, but no live leaf, hence no winner -/
def orphanTree : RevTree :=
  (RevTree.empty.add ⟨2, "dd".toList, some "abcdefg".toList⟩ (some ⟨1, "cc".toList, none⟩) true).1

example : orphanTree.winner = none ∧ orphanTree.entries.length = 1 := by decide

def d24State : DState := { p := { docs := [("x".toList, orphanTree)] } }

/-- **`update` aborts there**: a document that no longer contains `x` makes the deletion loop call
    `delete_object(x)`, which reports `object_has_no_winner`, which `update` turns into the abort
    `unable_to_delete_object` -/
theorem update_aborts_without_winner :
    ¬ AllWinners d24State ∧
    (match update (fun _ => "h".toList) (fun _ => none) d24State [] with | .panic _ => true | _ => false) = true := by
  refine ⟨?_, by decide⟩
  intro h
  obtain ⟨w, hw⟩ := h "x".toList orphanTree (by decide)
  have : orphanTree.winner = none := by decide
  rw [this] at hw; cases hw
end D24

end Melda.Props.C08c

namespace Melda.Props.C08c
open Melda Melda.RevTree Melda.DState Melda.Props.C08b

/-! ### The remaining entry points of the object API and of staging: no abort, without any invariant -/

/-- `remove_object` never aborts (it fails with `object_has_no_winner` at worst) -/
theorem removeObject_no_panic (H : Bytes → Str) (st : DState) (u : Str) (m : String) :
    removeObject H st u ≠ .panic m := by
  unfold removeObject
  cases st.treeOf u with
  | none => exact fun h => nomatch h
  | some t =>
    simp only
    split
    · exact fun h => nomatch h
    · cases t.unstage.winner with
      | none => exact fun h => nomatch h
      | some w =>
        simp only
        split <;> exact fun h => nomatch h

/-- **`create_object` never aborts, whatever object it is given** (since the repair of D26: an `_id` field
    inside the object - the shape `read` returns - or a `#` field of a wrong type makes `digest_object` fail,
    and that failure is now returned as an error; before, `expect("cannot_create_revision")` aborted) -/
theorem createObject_no_panic (H : Bytes → Str) (st : DState) (u : Str) (o : JObj) (m : String) :
    createObject H st u o ≠ .panic m := by
  unfold createObject
  cases hd : digestObject H o with
  | error e => exact fun h => nomatch h
  | ok d =>
    simp only
    generalize (((st.writeObject (Rev.mk1 d) o).treeOf u).getD RevTree.empty).add (Rev.mk1 d) none true = T
    obtain ⟨t', added⟩ := T
    exact fun h => nomatch h

/-- the guarded entry point refuses deep objects with an error, not an abort -/
theorem createObjectG_no_panic (H : Bytes → Str) (st : DState) (u : Str) (o : JObj) (m : String) :
    createObjectG H st u o ≠ .panic m := by
  unfold createObjectG
  split
  · exact fun h => nomatch h
  · exact createObject_no_panic H st u o m

/-- **`update_object` on a plain identifier never aborts, whatever object it is given** (D26: the object with
    its `_id`, as `read` hands it out, is refused with `identifier_in_object`) -/
theorem updateObject_plain_never_aborts (H : Bytes → Str) (src : Src) (st : DState) {u : Str}
    (hu : isArrayDescriptor u = false) (o : JObj) (m : String) : updateObject H src st u o ≠ .panic m := by
  cases hd : digestObject H o with
  | ok d => exact updateObject_plain_no_panic hu hd m
  | error e =>
    unfold updateObject
    cases htu : st.treeOf u with
    | none => simp only [createObject, hd]; exact fun h => nomatch h
    | some t =>
      simp only
      cases hw : t.winner with
      | none => exact fun h => nomatch h
      | some w =>
        simp only [hu, Bool.false_eq_true, if_false, hd]
        exact fun h => nomatch h

/-- the object as `read` returns it (with its `_id`) is refused with an error by both entry points -/
example : ∀ m, createObject (fun _ => "h".toList) {} "x".toList [(ID_FIELD, .str "x".toList), (['v'], .num ['1'])] ≠ .panic m :=
  createObject_no_panic _ _ _ _
example : (match createObject (fun _ => "h".toList) {} "x".toList [(ID_FIELD, .str "x".toList), (['v'], .num ['1'])] with
    | .err _ => true | _ => false) = true := by decide

theorem updateG_no_panic_of {H : Bytes → Str} {src : Src} {st : DState} {doc : JObj}
    (h : ∀ m, update H src st doc ≠ .panic m) (m : String) : updateG H src st doc ≠ .panic m := by
  unfold updateG
  split
  · exact fun h => nomatch h
  · exact h m

/-- one record of `replay_stage` never aborts -/
theorem recStep_no_panic (H : Bytes → Str) (acc : Res DState) (rc : JVal) (hacc : ∀ m, acc ≠ .panic m) (m : String) :
    Melda.Props.C15b.recStep H acc rc ≠ .panic m := by
  unfold Melda.Props.C15b.recStep
  cases acc with
  | panic m' => exact absurd rfl (hacc m')
  | err e => exact fun h => nomatch h
  | ok d =>
    simp only
    split
    · exact fun h => nomatch h
    · split <;> exact fun h => nomatch h
    · exact fun h => nomatch h
    · exact fun h => nomatch h
    · exact fun h => nomatch h

theorem recFold_no_panic (H : Bytes → Str) : ∀ (recs : List JVal) (acc : Res DState), (∀ m, acc ≠ .panic m) →
    ∀ m, recs.foldl (Melda.Props.C15b.recStep H) acc ≠ .panic m
  | [], acc, h, m => h m
  | rc :: rest, acc, h, m => by
    rw [List.foldl_cons]
    exact recFold_no_panic H rest _ (fun m' => recStep_no_panic H acc rc h m') m

/-- **`replay_stage` never aborts, whatever it is given** (a foreign export, junk, records in any order): it
    answers `.ok` or an error.  (What it may LEAVE BEHIND - an object without winner, the known finding D24 -
    is another matter: `update_aborts_without_winner`.) -/
theorem replayStage_no_panic (H : Bytes → Str) (st : DState) (s : JVal) (m : String) :
    replayStage H st s ≠ .panic m := by
  cases s with
  | obj so =>
    rw [Melda.Props.C15b.replayStage_obj]
    cases ho : objGet ['o'] so with
    | none =>
      simp only
      cases hcc : objGet ['c'] so with
      | none => exact fun h => nomatch h
      | some v =>
        cases v with
        | arr recs => exact recFold_no_panic H recs (.ok _) (fun _ h => by cases h) m
        | null => exact fun h => nomatch h
        | bool _ => exact fun h => nomatch h
        | num _ => exact fun h => nomatch h
        | str _ => exact fun h => nomatch h
        | obj _ => exact fun h => nomatch h
    | some v =>
      cases v with
      | obj bodies =>
        simp only
        cases hcc : objGet ['c'] so with
        | none => exact fun h => nomatch h
        | some v =>
          cases v with
          | arr recs => exact recFold_no_panic H recs (.ok _) (fun _ h => by cases h) m
          | null => exact fun h => nomatch h
          | bool _ => exact fun h => nomatch h
          | num _ => exact fun h => nomatch h
          | str _ => exact fun h => nomatch h
          | obj _ => exact fun h => nomatch h
      | null => exact fun h => nomatch h
      | bool _ => exact fun h => nomatch h
      | num _ => exact fun h => nomatch h
      | str _ => exact fun h => nomatch h
      | arr _ => exact fun h => nomatch h
  | null => exact fun h => nomatch h
  | bool _ => exact fun h => nomatch h
  | num _ => exact fun h => nomatch h
  | str _ => exact fun h => nomatch h
  | arr _ => exact fun h => nomatch h

end Melda.Props.C08c
