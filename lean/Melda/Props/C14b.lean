/-
  C14b — time travel shows exactly the chosen past state (tree level).

  C14 (`Props/C14.lean`, `C03b.reloadUntil_spec`) is about the statuses: `reload_until A` applies exactly
  the ancestor closure `Anc ds A` of the anchors. Here the document map:

  * `untilLoop_docsOK_inv`, `untilLoop_docs`: the queue loop of `reload_until` (which applies children
    BEFORE parents) leaves a document map that is sorted, duplicate-free, unstaged, without empty trees,
    and whose trees hold exactly the change records of the blocks of `Anc ds A`;
  * `reloadUntil_docsOK` (MAIN): the state after a successful `reload_until A` satisfies `C01.DocsOK`,
    every tree is validated, and the trees hold exactly the change records of the `applied` blocks, read
    through the view;
  * `time_travel_blocks`, `time_travel_same_pairs`, `time_travel_same_state` (MAIN): a replica state `s₀`
    that was synchronised with an earlier view `v₀` and had heads `A`; `reload_until A` over ANY later view
    `v` re-creates, for every object, the same set of (revision, parent) pairs, entry lists that are
    permutations of each other, the same validated leaves and winner, the same document keys, the same
    applied blocks and the same heads;
  * `history_monotone`, `history_parent_retrievable`, `reloadUntil_sub_reload`: what the loaded history
    recorded stays recorded, with the same parent, however much history has accumulated since.
-/
import Melda.Props.C03b
namespace Melda.Props.C14b
open Melda PState RevTree
open Melda.Props.Proto Melda.Props.C02 Melda.Props.C01
open Melda.Props.C13 (Settled AllApplied eq_of_mem_of_id_eq mem_of_complete)
open Melda.Props.C14 (Anc Start Inv Post Heads heads_anchors inv_init untilLoop_spec)
open Melda.Props.C03b (untilDs reloadUntil_eq untilDs_good reloadUntil_spec reloadUntil_applied_iff)
open Melda.Props.C15 (DocsSorted treeOf entriesOf)
open Melda.Props.C05 (KeysNodup CmpOrder)

/-! ### 0. small facts -/

/-- among the blocks of the ancestor closure of `A`, a revision of an object has one parent -/
def AncFunctional (ds : Ds) (A : List BlockId) : Prop :=
  ∀ p₁ ∈ ds, ∀ p₂ ∈ ds, Anc ds A p₁.1.id → Anc ds A p₂.1.id →
    ∀ c₁ ∈ p₁.1.changes, ∀ c₂ ∈ p₂.1.changes, c₁.uuid = c₂.uuid → c₁.rev = c₂.rev → c₁.parent = c₂.parent

/-- `ViewFunctional v` suffices -/
theorem ancFunctional_of_view {v : View} {ds : Ds} (hvf : ViewFunctional v) (hf : Fetched v ds)
    (A : List BlockId) : AncFunctional ds A :=
  fun p₁ h₁ p₂ h₂ _ _ => hvf _ (hf p₁ h₁).2 _ (hf p₂ h₂).2 _ _ (hf p₁ h₁).1 (hf p₂ h₂).1

/-- the recorded entries of a map in order come from applied blocks -/
theorem changesOf_sub_applied {docs : List (Str × RevTree)} {ds : Ds} (hs : DocsSorted docs) (he : Exact docs ds) :
    ∀ c ∈ changesOf docs, ∃ q ∈ ds, q.2 = .applied ∧ c ∈ q.1.changes := by
  intro c hc
  unfold changesOf at hc
  obtain ⟨p, hp, hc⟩ := List.mem_flatMap.mp hc
  obtain ⟨e, hee, rfl⟩ := List.mem_map.mp hc
  have hx : (e.rev, e.parent) ∈ pairsOf docs p.1 :=
    List.mem_map.mpr ⟨e, (C15.mem_entriesOf_iff hs p.1 e).mpr ⟨p, hp, rfl, hee⟩, rfl⟩
  obtain ⟨q, hq, ha, c', hc', hu, hr⟩ := (he p.1 _).mp hx
  refine ⟨q, hq, ha, ?_⟩
  have : c' = ⟨p.1, e.rev, e.parent⟩ := by
    obtain ⟨u', r', p'⟩ := c'
    simp only [Prod.mk.injEq] at hr
    simp only at hu
    rw [hu, hr.1, hr.2]
  rw [← this]; exact hc'

/-- marking the `ready` block `b` as `applied` adds exactly `b` to the applied blocks -/
theorem setStatus_applied_iff {cur : Ds} (hn : (cur.map (·.1.id)).Nodup) {id : BlockId} {b : Block}
    (hf : findDelta cur id = some (b, .ready)) (Q : Block → Prop) :
    (∃ p ∈ setStatus cur id .applied, p.2 = .applied ∧ Q p.1) ↔ ((∃ p ∈ cur, p.2 = .applied ∧ Q p.1) ∨ Q b) := by
  obtain ⟨hbm, hbid⟩ := findDelta_some hf
  simp only at hbid
  constructor
  · rintro ⟨p, hp, ha, hq⟩
    obtain ⟨p1, hp1, rfl⟩ := mem_setStatus.mp hp
    by_cases e : p1.1.id = id
    · have : p1 = (b, .ready) := eq_of_mem_of_id_eq hn hp1 hbm (by rw [e, hbid])
      subst this
      rw [if_pos e] at hq
      exact Or.inr hq
    · rw [if_neg e] at ha hq
      exact Or.inl ⟨p1, hp1, ha, hq⟩
  · rintro (⟨p, hp, ha, hq⟩ | hq)
    · have e : ¬ p.1.id = id := by
        intro e
        have : p = (b, .ready) := eq_of_mem_of_id_eq hn hp hbm (by rw [e, hbid])
        rw [this] at ha; cases ha
      exact ⟨p, mem_setStatus.mpr ⟨p, hp, by rw [if_neg e]⟩, ha, hq⟩
    · exact ⟨(b, .applied), mem_setStatus.mpr ⟨(b, .ready), hbm, by rw [if_pos hbid]⟩, rfl, hq⟩

/-- `statusOf … = some .applied`, as membership -/
theorem statusOf_applied_iff {ds : Ds} (hn : (ds.map (·.1.id)).Nodup) (id : BlockId) :
    statusOf ds id = some .applied ↔ ∃ p ∈ ds, p.2 = .applied ∧ p.1.id = id := by
  constructor
  · intro h
    unfold statusOf at h
    cases hf : findDelta ds id with
    | none => rw [hf] at h; cases h
    | some p =>
      rw [hf] at h
      simp only [Option.map_some, Option.some.injEq] at h
      obtain ⟨hm, hid⟩ := findDelta_some hf
      exact ⟨p, hm, h, hid⟩
  · rintro ⟨p, hp, ha, hid⟩
    have := statusOf_of_mem hn hp
    rw [hid, ha] at this
    exact this

/-- a document map without documents over a delta map without applied blocks is in order -/
theorem docsOK_of_nil (v : View) {st : PState} (hd : st.docs = []) (h : ∀ p ∈ st.deltas, p.2 ≠ .applied) :
    DocsOK v st := by
  refine ⟨?_, ?_, ?_, ?_, ?_⟩
  · rw [hd]; exact List.Pairwise.nil
  · intro u; rw [hd]; simp [entriesOf, C15.treeOf_nil, RevTree.empty, KeysNodup]
  · intro u e he; rw [hd] at he; simp [entriesOf, C15.treeOf_nil, RevTree.empty] at he
  · intro p hp; rw [hd] at hp; cases hp
  · intro u x
    constructor
    · intro hx; rw [hd] at hx; simp [pairsOf, entriesOf, C15.treeOf_nil, RevTree.empty] at hx
    · rintro ⟨p, hp, ha, _⟩; exact absurd ha (h p hp)

/-! ### 1. the queue loop keeps the document invariant -/

/-- one `apply_delta` step of the loop keeps `DocsOK` -/
theorem docsOK_step {v : View} {st : PState} {id : BlockId} {b : Block} (d : DocsOK v st)
    (hn : (st.deltas.map (·.1.id)).Nodup) (hf : findDelta st.deltas id = some (b, .ready))
    (hfun : Functional (changesOf st.docs ++ b.changes)) :
    DocsOK v { st with docs := applyChanges st.docs b.changes, deltas := setStatus st.deltas id .applied } := by
  refine ⟨applyChanges_sorted d.sorted _, applyChanges_treesNodup d.sorted d.nodup _,
    applyChanges_noStaged d.sorted d.noStaged _, applyChanges_noEmpty d.noEmpty _, ?_⟩
  intro u x
  show x ∈ pairsOf (applyChanges st.docs b.changes) u ↔
    ∃ p ∈ setStatus st.deltas id .applied, p.2 = .applied ∧ ∃ c ∈ p.1.changes, c.uuid = u ∧ (c.rev, c.parent) = x
  rw [applyChanges_entries d.sorted _ hfun,
    setStatus_applied_iff hn hf (fun b => ∃ c ∈ b.changes, c.uuid = u ∧ (c.rev, c.parent) = x), d.exact u x]

section
variable {v : View} {objs : List Str} {ds : Ds} {A : List BlockId}

/-- the change records already in the trees together with those of the block being popped come from
    blocks of the closure, so `AncFunctional` covers them -/
theorem functional_step (hs : Start v objs ds A) (haf : AncFunctional ds A) {st : PState} {x : BlockId}
    {q : List BlockId} {b : Block} (hi : Inv ds A st.deltas (x :: q)) (d : DocsOK v st)
    (hf : findDelta st.deltas x = some (b, .ready)) : Functional (changesOf st.docs ++ b.changes) := by
  have key : ∀ c ∈ changesOf st.docs ++ b.changes, ∃ p0 ∈ ds, Anc ds A p0.1.id ∧ c ∈ p0.1.changes := by
    intro c hc
    rcases List.mem_append.mp hc with h | h
    · obtain ⟨q', hq', ha, hcq⟩ := changesOf_sub_applied d.sorted d.exact c h
      have hanc : Anc ds A q'.1.id := by
        rcases hi.sub q' hq' with h1 | h1
        · exact h1.2
        · exact absurd ha (hs.not_applied h1)
      have : q'.1 ∈ ds.map (·.1) := by rw [← hi.same]; exact List.mem_map_of_mem hq'
      obtain ⟨p0, hp0, he⟩ := List.mem_map.mp this
      exact ⟨p0, hp0, by rw [he]; exact hanc, by rw [he]; exact hcq⟩
    · obtain ⟨hbm, hbid⟩ := findDelta_some hf
      simp only at hbid
      have hbds : (b, Status.ready) ∈ ds := by
        rcases hi.sub _ hbm with h1 | h1
        · cases h1.1
        · exact h1
      exact ⟨(b, .ready), hbds, by show Anc ds A b.id; rw [hbid]; exact hi.queue x (by simp), h⟩
  intro c₁ h₁ c₂ h₂
  obtain ⟨p₁, hp₁, a₁, hc₁⟩ := key c₁ h₁
  obtain ⟨p₂, hp₂, a₂, hc₂⟩ := key c₂ h₂
  exact haf p₁ hp₁ p₂ hp₂ a₁ a₂ c₁ hc₁ c₂ hc₂

/-- **the loop invariant at tree level**: from any state inside the loop (`C14.Inv`) whose trees hold
    exactly the change records of the blocks applied so far, the loop ends (with any fuel, any queue) in
    such a state. The loop applies children before parents; `applyChanges_entries` is set-based, so the
    order does not matter. -/
theorem untilLoop_docsOK_inv (hs : Start v objs ds A) (haf : AncFunctional ds A) (fuel : Nat)
    (q : List BlockId) (st : PState) (hi : Inv ds A st.deltas q) (d : DocsOK v st) :
    DocsOK v (untilLoop fuel q st) := by
  induction fuel generalizing q st with
  | zero => simpa [untilLoop] using d
  | succ fuel ih =>
    cases q with
    | nil => simpa [untilLoop] using d
    | cons x q =>
      simp only [untilLoop]
      split
      · next b hf =>
        exact ih _ _ (hi.step_ready hs hf) (docsOK_step d (hi.nodup hs) hf (functional_step hs haf hi d hf))
      · next hno =>
        exact ih _ _ (hi.step_skip hs (fun b h => hno b h)) d

/-- the applied blocks after the loop are the blocks of the closure -/
theorem post_applied_iff {cur : Ds} (hp : Post ds A cur) (Q : Block → Prop) :
    (∃ p ∈ cur, p.2 = .applied ∧ Q p.1) ↔ ∃ p ∈ ds, Anc ds A p.1.id ∧ Q p.1 := by
  constructor
  · rintro ⟨p, hpm, ha, hq⟩
    have : p.1 ∈ ds.map (·.1) := by rw [← hp.same]; exact List.mem_map_of_mem hpm
    obtain ⟨p0, hp0, he⟩ := List.mem_map.mp this
    exact ⟨p0, hp0, by rw [he]; exact (hp.applied_iff p hpm).mp ha, by rw [he]; exact hq⟩
  · rintro ⟨p, hpm, hanc, hq⟩
    have : p.1 ∈ cur.map (·.1) := by rw [hp.same]; exact List.mem_map_of_mem hpm
    obtain ⟨p', hp', he⟩ := List.mem_map.mp this
    exact ⟨p', hp', (hp.applied_iff p' hp').mpr (by rw [he]; exact hanc), by rw [he]; exact hq⟩

/-- **`untilLoop_docs`** (wanted 1). From the state `reloadUntil` hands to its queue loop (`C14.Start`, no
    documents), with the fuel `reloadUntil` supplies or more: the document map after the loop is sorted,
    no tree records a revision twice, nothing is staged, no tree is empty, and for every object `u` the tree
    holds exactly the (revision, parent) pairs of the change records of the blocks of the ancestor
    closure `Anc ds A` — although the loop applies a block before its parents. -/
theorem untilLoop_docs (hs : Start v objs ds A) (haf : AncFunctional ds A) (st : PState) (hst : st.deltas = ds)
    (hdocs : st.docs = []) (fuel : Nat) (hfuel : sumParents ds + A.length + 1 ≤ fuel) :
    DocsSorted (untilLoop fuel A st).docs ∧ TreesNodup (untilLoop fuel A st).docs ∧
    NoStaged (untilLoop fuel A st).docs ∧ NoEmpty (untilLoop fuel A st).docs ∧
    ∀ u x, x ∈ pairsOf (untilLoop fuel A st).docs u ↔
      ∃ p ∈ ds, Anc ds A p.1.id ∧ ∃ c ∈ p.1.changes, c.uuid = u ∧ (c.rev, c.parent) = x := by
  have d0 : DocsOK v st := docsOK_of_nil v hdocs (fun p hp => hs.not_applied (hst ▸ hp))
  have hi0 : Inv ds A st.deltas A := by rw [hst]; exact inv_init hs
  have d := untilLoop_docsOK_inv hs haf fuel A st hi0 d0
  have hp := untilLoop_spec hs st hst fuel hfuel
  refine ⟨d.sorted, d.nodup, d.noStaged, d.noEmpty, ?_⟩
  intro u x
  rw [d.exact u x]
  exact post_applied_iff hp (fun b => ∃ c ∈ b.changes, c.uuid = u ∧ (c.rev, c.parent) = x)

end

/-! ### 2. `reload_until` -/

theorem validateAll_deltas (st : PState) : (validateAll st).deltas = st.deltas := rfl

/-- the state after `reload_until` satisfies the document invariant of `C01`, with validated trees, over a
    delta map that holds what the view hands out -/
theorem reloadUntil_DocsOK {v : View} {st st' : PState} {A : List BlockId} (hv : ViewOK v) (hvf : ViewFunctional v)
    (h : reloadUntil st v A = .ok st') (hA : A ≠ []) :
    DocsOK v st' ∧ AllValidated st'.docs ∧ DsOK v st'.deltas := by
  obtain ⟨_, _, _, _, _, _, hstart', hpost, _⟩ := reloadUntil_spec hv h hA
  have hds : DsOK v st'.deltas := hstart'.ok.of_same hpost.same
  obtain ⟨objs, applied, _, _, h2, rfl⟩ := reloadUntil_eq hA h
  obtain ⟨hg, hrb⟩ := untilDs_good hv objs
  have hstart : Start v objs (untilDs v objs) A :=
    Start.of_good hg hrb (C14.anchors_ready_of_checks _ A h2)
  refine ⟨?_, validateAll_allValidated _, hds⟩
  apply validateAll_docsOK
  apply untilLoop_docsOK_inv hstart (ancFunctional_of_view hvf hg.ok.fetched A) _ A _ (inv_init hstart)
  exact docsOK_of_nil v rfl (fun p hp => hstart.not_applied hp)

/-- **`reloadUntil_docsOK`** (wanted 2, MAIN). After a successful `reload_until A` (non-empty `A`) over a
    view in which a revision of an object has one parent: the document map is sorted, no tree records a
    revision twice, nothing is staged, no tree is empty, every tree carries its validated leaves and
    winner, and for every object `u` the tree holds exactly the (revision, parent) pairs of the change
    records of the blocks whose status is `applied` — which by `C03b.reloadUntil_applied_iff` are exactly
    the ancestors-or-self of the chosen heads. -/
theorem reloadUntil_docsOK {v : View} {st st' : PState} {A : List BlockId} (hv : ViewOK v) (hvf : ViewFunctional v)
    (h : reloadUntil st v A = .ok st') (hA : A ≠ []) :
    DocsSorted st'.docs ∧ TreesNodup st'.docs ∧ NoStaged st'.docs ∧ NoEmpty st'.docs ∧ AllValidated st'.docs ∧
    ∀ u x, x ∈ pairsOf st'.docs u ↔
      ∃ id, statusOf st'.deltas id = some .applied ∧ ∃ b, v.fetch id = some b ∧
        ∃ c ∈ b.changes, c.uuid = u ∧ (c.rev, c.parent) = x := by
  obtain ⟨d, hval, hds⟩ := reloadUntil_DocsOK hv hvf h hA
  refine ⟨d.sorted, d.nodup, d.noStaged, d.noEmpty, hval, ?_⟩
  intro u x
  rw [d.exact u x]
  constructor
  · rintro ⟨p, hp, ha, r⟩
    refine ⟨p.1.id, ?_, p.1, (hds.fetched p hp).1, r⟩
    rw [statusOf_of_mem hds.nodup hp, ha]
  · rintro ⟨id, hs, b, hb, r⟩
    obtain ⟨p, hp, ha, hid⟩ := (statusOf_applied_iff hds.nodup id).mp hs
    have hf := (hds.fetched p hp).1
    rw [hid, hb] at hf
    exact ⟨p, hp, ha, (Option.some.inj hf) ▸ r⟩

/-- the same in terms of the ancestor closure of the chosen heads -/
theorem reloadUntil_docs_anc {v : View} {st st' : PState} {A : List BlockId} (hv : ViewOK v) (hvf : ViewFunctional v)
    (h : reloadUntil st v A = .ok st') (hA : A ≠ []) (u : Str) (x : Rev × Option Rev) :
    x ∈ pairsOf st'.docs u ↔
      ∃ id, Anc (untilDs v st'.objects) A id ∧ ∃ b, v.fetch id = some b ∧
        ∃ c ∈ b.changes, c.uuid = u ∧ (c.rev, c.parent) = x := by
  rw [(reloadUntil_docsOK hv hvf h hA).2.2.2.2.2 u x]
  constructor
  · rintro ⟨id, hs, r⟩; exact ⟨id, (reloadUntil_applied_iff hv h hA id).mp hs, r⟩
  · rintro ⟨id, hs, r⟩; exact ⟨id, (reloadUntil_applied_iff hv h hA id).mpr hs, r⟩

/-! ### 3. time travel re-creates the past state -/

/-- a smaller view of a well-formed view is well formed -/
theorem viewOK_of_le {v₀ v : View} (hle : View.le v₀ v) (hv : ViewOK v) : ViewOK v₀ :=
  ⟨fun id b h => hv.fetch_id id b (hle.fetch id b h), fun id b h => hv.parent_lt id b (hle.fetch id b h)⟩

/-- a synchronised state is settled and has applied everything that is complete -/
theorem synced_settled {v : View} {st : PState} (hs : Synced v st) :
    Settled v st.objects st.deltas ∧ AllApplied v st.objects st.deltas := by
  refine ⟨⟨⟨hs.ds, ?_⟩, hs.settled⟩, fun p hp hc => (hs.applied_iff p hp).mpr hc⟩
  intro p hp
  constructor
  · rintro (h | h)
    · rcases hs.settled p hp with h' | h' <;> rw [h] at h' <;> cases h'
    · exact (hs.applied_iff p hp).mp h
  · intro hb hc
    have := (hs.applied_iff p hp).mpr hc
    rw [hb] at this; cases this

/-- every block of a state synchronised with an earlier view is a block of the map `reload_until` builds
    over a later view -/
theorem old_blocks_present {v₀ v : View} {s₀ : PState} {ds : Ds} (hle : View.le v₀ v) (hs₀ : Synced v₀ s₀)
    (hok : DsOK v ds) : ∀ p ∈ s₀.deltas, ∃ p' ∈ ds, p'.1 = p.1 := by
  intro p hp
  obtain ⟨f, i⟩ := hs₀.ds.fetched p hp
  have f' := hle.fetch _ _ f
  obtain ⟨p', hp', hid⟩ := hok.closed _ _ (hle.ids _ i) f'
  refine ⟨p', hp', ?_⟩
  have := (hok.fetched p' hp').1
  rw [hid, f'] at this
  exact (Option.some.inj this).symm

/-- **`time_travel_blocks`**: `s₀` was synchronised with the earlier view `v₀` and `A` is its set of heads;
    `reload_until A` over a later view `v` has exactly the applied blocks `s₀` had (any property `Q` of an
    applied block transfers). -/
theorem time_travel_blocks {v₀ v : View} {s₀ st st' : PState} {A : List BlockId} (hle : View.le v₀ v)
    (hv : ViewOK v) (hs₀ : Synced v₀ s₀) (hheads : Heads s₀.deltas A) (hA : A ≠ [])
    (h : reloadUntil st v A = .ok st') (Q : Block → Prop) :
    (∃ p ∈ st'.deltas, p.2 = .applied ∧ Q p.1) ↔ (∃ p ∈ s₀.deltas, p.2 = .applied ∧ Q p.1) := by
  obtain ⟨objs, applied, _, _, h2, rfl⟩ := reloadUntil_eq hA h
  obtain ⟨hg, hrb⟩ := untilDs_good hv objs
  have hstart : Start v objs (untilDs v objs) A :=
    Start.of_good hg hrb (C14.anchors_ready_of_checks _ A h2)
  have hsub := old_blocks_present hle hs₀ hg.ok
  obtain ⟨hset, hall⟩ := synced_settled hs₀
  have htt := C14.time_travel (viewOK_of_le hle hv) hset hall hheads hsub hstart
    { deltas := untilDs v objs, docs := [], objects := objs, appliedPacks := applied } rfl _ (Nat.le_refl _)
  have hpost := untilLoop_spec hstart
    { deltas := untilDs v objs, docs := [], objects := objs, appliedPacks := applied } rfl _ (Nat.le_refl _)
  rw [validateAll_deltas]
  constructor
  · rintro ⟨p', hp', ha, hq⟩
    obtain ⟨p, hp, he, ha0⟩ := (htt p' hp').mp ha
    exact ⟨p, hp, ha0, by rw [he]; exact hq⟩
  · rintro ⟨p, hp, ha, hq⟩
    obtain ⟨p1, hp1, he1⟩ := hsub p hp
    have : p1.1 ∈ (untilLoop (sumParents (untilDs v objs) + A.length + 1) A
        { deltas := untilDs v objs, docs := [], objects := objs, appliedPacks := applied }).deltas.map (·.1) := by
      rw [hpost.same]; exact List.mem_map_of_mem hp1
    obtain ⟨p', hp', he'⟩ := List.mem_map.mp this
    have e : p.1 = p'.1 := by rw [he', he1]
    exact ⟨p', hp', (htt p' hp').mpr ⟨p, hp, e, ha⟩, by rw [← e]; exact hq⟩

/-- what time travel re-creates, without reference to the order on revisions -/
structure SamePast (s₀ st' : PState) : Prop where
  /-- per object, the same set of recorded (revision, parent) pairs -/
  pairs : ∀ u x, x ∈ pairsOf st'.docs u ↔ x ∈ pairsOf s₀.docs u
  /-- the entry lists are permutations of each other -/
  perm : ∀ u, (entriesOf st'.docs u).Perm (entriesOf s₀.docs u)
  /-- the same list of object identifiers -/
  keys : st'.docs.map (·.1) = s₀.docs.map (·.1)
  /-- the same applied blocks -/
  applied : ∀ id, statusOf st'.deltas id = some .applied ↔ statusOf s₀.deltas id = some .applied
  /-- applied blocks are the same blocks -/
  blocks : ∀ (Q : Block → Prop), (∃ p ∈ st'.deltas, p.2 = .applied ∧ Q p.1) ↔ (∃ p ∈ s₀.deltas, p.2 = .applied ∧ Q p.1)
  /-- the same heads -/
  anchors : ∀ id, id ∈ st'.anchors ↔ id ∈ s₀.anchors

/-- **`time_travel_same_pairs`**: the part of `time_travel_same_state` that does not need the order on
    revisions. -/
theorem time_travel_same_pairs {v₀ v : View} {s₀ st st' : PState} (hs₀ : Synced v₀ s₀) (d₀ : DocsOK v₀ s₀)
    (hne : s₀.anchors ≠ []) (hle : View.le v₀ v) (hv : ViewOK v) (hvf : ViewFunctional v)
    (h : reloadUntil st v s₀.anchors = .ok st') : SamePast s₀ st' := by
  obtain ⟨d, _, hds⟩ := reloadUntil_DocsOK hv hvf h hne
  have hb := time_travel_blocks hle hv hs₀ (heads_anchors s₀) hne h
  have hpairs : ∀ u x, x ∈ pairsOf st'.docs u ↔ x ∈ pairsOf s₀.docs u := by
    intro u x
    rw [d.exact u x, d₀.exact u x]
    exact hb (fun b => ∃ c ∈ b.changes, c.uuid = u ∧ (c.rev, c.parent) = x)
  refine ⟨hpairs, ?_, ?_, ?_, hb, ?_⟩
  · intro u
    exact perm_of_pairs_eq (d.nodup u) (d₀.nodup u) (d.noStaged u) (d₀.noStaged u) (hpairs u)
  · apply keys_eq_of_mem d.sorted d₀.sorted
    intro k
    rw [mem_keys_iff_pairs d.sorted d.noEmpty, mem_keys_iff_pairs d₀.sorted d₀.noEmpty]
    constructor
    · rintro ⟨x, hx⟩; exact ⟨x, (hpairs k x).mp hx⟩
    · rintro ⟨x, hx⟩; exact ⟨x, (hpairs k x).mpr hx⟩
  · intro id
    rw [statusOf_applied_iff hds.nodup, statusOf_applied_iff hs₀.ds.nodup]
    exact hb (fun b => b.id = id)
  · intro id
    rw [mem_anchors, mem_anchors, hb (fun b => b.id = id), hb (fun b => id ∈ b.parents)]

/-- **`time_travel_same_state`** (wanted 3, MAIN; C14). `s₀` is a replica state that was in sync with an
    EARLIER view `v₀` of storage (as `reload`/`refresh`/`commit` leave it: `Synced`, `DocsOK`), with heads
    `A = s₀.anchors ≠ []`. `v` is ANY later view (`View.le v₀ v`: storage only grew). If
    `reload_until A` over `v` succeeds with state `st'`, then for every object `u`:
    the recorded (revision, parent) pairs are the same, the entry lists are permutations of each other, the
    cached leaves and winner of `st'` are the validated leaves and winner of the tree of `s₀` (equal as
    sorted lists), the document keys are equal, the applied blocks coincide and the heads of `st'` are `A`.
    I.e. time travel shows exactly what the replica showed when those blocks were its heads, however
    much history has accumulated since. (`ViewOK v₀` follows from `ViewOK v`.) -/
theorem time_travel_same_state {P : Rev → Prop} (ho : CmpOrder P) {v₀ v : View} {s₀ st st' : PState}
    (hs₀ : Synced v₀ s₀) (d₀ : DocsOK v₀ s₀) (hne : s₀.anchors ≠ []) (hle : View.le v₀ v) (hv : ViewOK v)
    (hvf : ViewFunctional v) (h : reloadUntil st v s₀.anchors = .ok st')
    (hP : ∀ u, ∀ e ∈ entriesOf s₀.docs u, P e.rev) :
    SamePast s₀ st' ∧
    ∀ u, (treeOf st'.docs u).leafs = (validate (treeOf s₀.docs u)).leafs ∧
         (treeOf st'.docs u).winner = (validate (treeOf s₀.docs u)).winner := by
  have hsp := time_travel_same_pairs hs₀ d₀ hne hle hv hvf h
  refine ⟨hsp, ?_⟩
  obtain ⟨d, hval, _⟩ := reloadUntil_DocsOK hv hvf h hne
  intro u
  have ht := tree_perm ho d₀.nodup d.nodup d₀.noStaged d.noStaged (fun u x => (hsp.pairs u x).symm) hP u
  rw [← hval u]
  exact ⟨ht.2.1.symm, ht.2.2.symm⟩

/-- when the trees of `s₀` carry their validated leaves and winner (as `reload`/`refresh`/`commit` leave
    them) the cached leaves and winners themselves are equal -/
theorem time_travel_same_cached {P : Rev → Prop} (ho : CmpOrder P) {v₀ v : View} {s₀ st st' : PState}
    (hs₀ : Synced v₀ s₀) (d₀ : DocsOK v₀ s₀) (hval₀ : AllValidated s₀.docs) (hne : s₀.anchors ≠ [])
    (hle : View.le v₀ v) (hv : ViewOK v) (hvf : ViewFunctional v) (h : reloadUntil st v s₀.anchors = .ok st')
    (hP : ∀ u, ∀ e ∈ entriesOf s₀.docs u, P e.rev) (u : Str) :
    (treeOf st'.docs u).leafs = (treeOf s₀.docs u).leafs ∧ (treeOf st'.docs u).winner = (treeOf s₀.docs u).winner := by
  have := (time_travel_same_state ho hs₀ d₀ hne hle hv hvf h hP).2 u
  rw [hval₀ u] at this
  exact this

/-! ### 4. the loaded history stays retrievable -/

/-- **`history_monotone`** (wanted 4; C14, second sentence). `s₀` in sync with an earlier view `v₀`, `s` in
    sync with a later view `v` (blocks and packs of `v₀` still there: `View.le`, `hpk`). Every block
    fetchable in `v₀` is fetched identically in `v`, so every (revision, parent) pair that `s₀` recorded
    for an object is recorded, as the same pair, by `s`. -/
theorem history_monotone {v₀ v : View} {s₀ s : PState} (hle : View.le v₀ v)
    (hpk : ∀ k ∈ v₀.packNames, k ∈ v.packNames) (h₀ : Synced v₀ s₀) (d₀ : DocsOK v₀ s₀)
    (h₁ : Synced v s) (d₁ : DocsOK v s) (u : Str) (x : Rev × Option Rev) :
    x ∈ pairsOf s₀.docs u → x ∈ pairsOf s.docs u := by
  rw [d₀.exact u x, d₁.exact u x]
  rintro ⟨p, hp, ha, r⟩
  have hobj : ∀ d ∈ s₀.objects, d ∈ s.objects := by
    intro d hd
    obtain ⟨k, hk, l, hl, hdl⟩ := (h₀.objs d).mp hd
    exact (h₁.objs d).mpr ⟨k, hpk k hk, l, hle.packs k l hl, hdl⟩
  have hc : Complete v s.objects p.1.id := ((h₀.applied_iff p hp).mp ha).mono hle hobj
  obtain ⟨p', hp', hid⟩ := mem_of_complete h₁.ds hc
  have f := hle.fetch _ _ (h₀.ds.fetched p hp).1
  have f' := (h₁.ds.fetched p' hp').1
  rw [hid, f] at f'
  have e : p'.1 = p.1 := (Option.some.inj f').symm
  exact ⟨p', hp', (h₁.applied_iff p' hp').mpr (hid ▸ hc), by rw [e]; exact r⟩

/-- in a duplicate-free tree the parent of a recorded revision is the recorded parent -/
theorem getParent_of_pair {t : RevTree} (hk : KeysNodup t.entries) {r : Rev} {p : Option Rev}
    (h : (r, p) ∈ t.entries.map (fun e => (e.rev, e.parent))) : t.getParent r = p := by
  obtain ⟨e, he, hx⟩ := List.mem_map.mp h
  simp only [Prod.mk.injEq] at hx
  unfold RevTree.getParent
  rw [← hx.1, C05.find?_of_mem hk he]
  exact hx.2

/-- **`history_parent_retrievable`**: a revision `r` of object `u` that the loaded history `s₀` recorded
    with parent `p` is, in any later synchronised state, still in the tree of `u`, and
    `get_parent_revision` still answers `p`. -/
theorem history_parent_retrievable {v₀ v : View} {s₀ s : PState} (hle : View.le v₀ v)
    (hpk : ∀ k ∈ v₀.packNames, k ∈ v.packNames) (h₀ : Synced v₀ s₀) (d₀ : DocsOK v₀ s₀)
    (h₁ : Synced v s) (d₁ : DocsOK v s) (u : Str) (r : Rev) (p : Option Rev)
    (h : (r, p) ∈ pairsOf s₀.docs u) :
    (treeOf s.docs u).contains r = true ∧ (treeOf s.docs u).getParent r = p := by
  have hx := history_monotone hle hpk h₀ d₀ h₁ d₁ u (r, p) h
  refine ⟨?_, getParent_of_pair (d₁.nodup u) hx⟩
  obtain ⟨e, he, hx'⟩ := List.mem_map.mp hx
  simp only [Prod.mk.injEq] at hx'
  exact (C05.contains_iff _ r).mpr ⟨e, he, hx'.1⟩

/-- **`reloadUntil_sub_reload`**: whatever heads are chosen, the state `reload_until` shows is part of what
    a full `reload` of the same storage shows: every recorded (revision, parent) pair is recorded, as the
    same pair, by the full state. -/
theorem reloadUntil_sub_reload {v : View} {st st' i r : PState} {A : List BlockId} (hv : ViewOK v)
    (hvf : ViewFunctional v) (h : reloadUntil st v A = .ok st') (hA : A ≠ []) (hr : reload i v = .ok r)
    (u : Str) (x : Rev × Option Rev) : x ∈ pairsOf st'.docs u → x ∈ pairsOf r.docs u := by
  obtain ⟨d, _, hds⟩ := reloadUntil_DocsOK hv hvf h hA
  obtain ⟨objs, applied, _, ho, _, hobjs, hstart, _, _⟩ := reloadUntil_spec hv h hA
  have hsr := reload_synced hv hr
  have dr := (reload_docsOK hv hvf hr).1
  rw [d.exact u x, dr.exact u x]
  rintro ⟨p, hp, ha, q⟩
  have hanc : Anc (untilDs v objs) A p.1.id := by
    rw [← ho]
    exact (reloadUntil_applied_iff hv h hA p.1.id).mp (by rw [statusOf_of_mem hds.nodup hp, ha])
  have hc : Complete v r.objects p.1.id :=
    (complete_congr (fun d => by rw [hobjs d, hsr.objs d]) p.1.id).mp (hstart.anc_complete hanc)
  obtain ⟨p', hp', hid⟩ := mem_of_complete hsr.ds hc
  have f := (hds.fetched p hp).1
  have f' := (hsr.ds.fetched p' hp').1
  rw [hid, f] at f'
  have e : p'.1 = p.1 := (Option.some.inj f').symm
  exact ⟨p', hp', (hsr.applied_iff p' hp').mpr (hid ▸ hc), by rw [e]; exact q⟩

/-! ### 5. non-vacuity -/

section Examples
open Melda.Props.C01 (doc doc2 iA iB iC bA bB bC wB wB_ok wB_fun okState exists_ok docRevs allRevs)
open Melda.Props.C05 (r1 r2a r2b ExP exOrder)

/-- the storage of `C01.wB` at an earlier time: the root block and its child `bC`; block `bB` and the pack
    it names have not arrived yet -/
def w0 : View := mkView [bA, bC] []

theorem w0_le_wB : View.le w0 wB := by
  refine ⟨?_, ?_, ?_⟩
  · intro id h
    obtain ⟨b, hb, rfl⟩ := List.mem_map.mp h
    rcases List.mem_cons.mp hb with rfl | hb
    · decide
    · have : b = bC := by simpa using hb
      subst this; decide
  · intro id b h
    have h' : [bA, bC].find? (fun b => b.id = id) = some b := h
    have h1 : b.id = id := by simpa using List.find?_some h'
    have h2 : b ∈ [bA, bC] := List.mem_of_find?_eq_some h'
    subst h1
    rcases List.mem_cons.mp h2 with rfl | h2
    · rfl
    · have : b = bC := by simpa using h2
      subst this; rfl
  · intro k l h
    simp [w0, mkView] at h

def anchorsOf (r : Except PErr PState) : List BlockId := match r with | .ok s => s.anchors | .error _ => []
def statusesOf (r : Except PErr PState) : List (BlockId × Status) :=
  match r with | .ok s => s.deltas.map (fun p => (p.1.id, p.2)) | .error _ => []
def winnerOf (r : Except PErr PState) (u : Str) : Option Rev :=
  match r with | .ok s => (treeOf s.docs u).winner | .error _ => none

/-- `reload_until` to the head `iC` over the later storage applies `bC` BEFORE its parent `bA` (the tree of
    `doc` records `r2b` first, then `r1`), leaves the concurrent block `bB` alone, and the winner is `r2b` -/
example : docRevs (reloadUntil {} wB [iC]) doc = [r2b, r1] ∧
    statusesOf (reloadUntil {} wB [iC]) = [(iA, .applied), (iB, .ready), (iC, .applied)] ∧
    winnerOf (reloadUntil {} wB [iC]) doc = some r2b ∧
    docRevs (reload {} w0) doc = [r1, r2b] := by decide

/-- **the hypotheses of `untilLoop_docs`, `reloadUntil_docsOK`, `time_travel_same_state`,
    `history_monotone`, `reloadUntil_sub_reload` are satisfiable and the conclusions are not trivial**:
    the replica opened on the early storage `w0` has heads `[iC]` and records `r1, r2b` for `doc`; time
    travel to `[iC]` over the later storage `wB` records `r2b, r1` (another order), does not apply `bB`
    (so it differs from a full reload, which records `r2a` as well), and shows the same state. -/
example : ∃ s₀ st' r, reload {} w0 = .ok s₀ ∧ s₀.anchors = [iC] ∧ reloadUntil {} wB s₀.anchors = .ok st' ∧
    reload {} wB = .ok r ∧
    Synced w0 s₀ ∧ DocsOK w0 s₀ ∧ AllValidated s₀.docs ∧ View.le w0 wB ∧ ViewOK wB ∧ ViewFunctional wB ∧
    (∀ u, ∀ e ∈ entriesOf s₀.docs u, ExP e.rev) ∧
    AncFunctional (untilDs wB st'.objects) [iC] ∧ Start wB st'.objects (untilDs wB st'.objects) [iC] ∧
    (entriesOf s₀.docs doc).map (·.rev) = [r1, r2b] ∧ (entriesOf st'.docs doc).map (·.rev) = [r2b, r1] ∧
    (entriesOf r.docs doc).map (·.rev) = [r1, r2a, r2b] ∧
    SamePast s₀ st' ∧ (treeOf st'.docs doc).winner = (treeOf s₀.docs doc).winner ∧
    (treeOf st'.docs doc).winner = some r2b ∧
    (∀ x, x ∈ pairsOf st'.docs doc → x ∈ pairsOf r.docs doc) := by
  obtain ⟨s₀, h0⟩ := exists_ok (r := reload {} w0) (by decide)
  have ha : anchorsOf (reload {} w0) = [iC] := by decide
  rw [h0] at ha
  have ha' : s₀.anchors = [iC] := ha
  obtain ⟨st', h1⟩ := exists_ok (r := reloadUntil {} wB [iC]) (by decide)
  obtain ⟨r, h2⟩ := exists_ok (r := reload {} wB) (by decide)
  have e0 : docRevs (reload {} w0) doc = [r1, r2b] := by decide
  have e1 : docRevs (reloadUntil {} wB [iC]) doc = [r2b, r1] := by decide
  have e2 : docRevs (reload {} wB) doc = [r1, r2a, r2b] := by decide
  have a0 : ∀ r ∈ allRevs (reload {} w0), ExP r := by decide
  have w1 : winnerOf (reloadUntil {} wB [iC]) doc = some r2b := by decide
  rw [h0] at e0 a0
  rw [h1] at e1 w1
  rw [h2] at e2
  have hP : ∀ u, ∀ e ∈ entriesOf s₀.docs u, ExP e.rev := by
    intro u e he
    unfold entriesOf at he
    rcases C15.treeOf_mem_or s₀.docs u with hz | ⟨p, hp, _, hq⟩
    · rw [hz] at he; simp [RevTree.empty] at he
    · rw [← hq] at he
      exact a0 e.rev (List.mem_flatMap.mpr ⟨p, hp, List.mem_map.mpr ⟨e, he, rfl⟩⟩)
  have hv0 : ViewOK w0 := viewOK_of_le w0_le_wB wB_ok
  have y0 := reload_synced hv0 h0
  have d0 := reload_docsOK hv0 (wB_fun.of_le w0_le_wB) h0
  have hne : s₀.anchors ≠ [] := by rw [ha']; simp
  have h1' : reloadUntil {} wB s₀.anchors = .ok st' := by rw [ha']; exact h1
  have hst := time_travel_same_state exOrder y0 d0.1 hne w0_le_wB wB_ok wB_fun h1' hP
  have hc := time_travel_same_cached exOrder y0 d0.1 d0.2 hne w0_le_wB wB_ok wB_fun h1' hP doc
  obtain ⟨objs, applied, _, ho, _, _, hstart, _, _⟩ := reloadUntil_spec wB_ok h1 (by simp)
  refine ⟨s₀, st', r, h0, ha', h1', h2, y0, d0.1, d0.2, w0_le_wB, wB_ok, wB_fun, hP, ?_, ?_, e0, e1, e2,
    hst.1, hc.2, w1, fun x => reloadUntil_sub_reload wB_ok wB_fun h1 (by simp) h2 doc x⟩
  · rw [ho]; exact ancFunctional_of_view wB_fun hstart.ok.fetched _
  · rw [ho]; exact hstart

/-- `history_monotone` on the same storage: what the replica opened on `w0` recorded is recorded by the
    replica opened on `wB` -/
example : ∃ s₀ r, reload {} w0 = .ok s₀ ∧ reload {} wB = .ok r ∧
    (∀ k ∈ w0.packNames, k ∈ wB.packNames) ∧ (r1, none) ∈ pairsOf s₀.docs doc ∧
    (∀ u x, x ∈ pairsOf s₀.docs u → x ∈ pairsOf r.docs u) ∧
    (treeOf r.docs doc).getParent r2b = some r1 := by
  obtain ⟨s₀, h0⟩ := exists_ok (r := reload {} w0) (by decide)
  obtain ⟨r, h2⟩ := exists_ok (r := reload {} wB) (by decide)
  have hpk : ∀ k ∈ w0.packNames, k ∈ wB.packNames := by intro k hk; cases hk
  have hv0 : ViewOK w0 := viewOK_of_le w0_le_wB wB_ok
  have y0 := reload_synced hv0 h0
  have d0 := (reload_docsOK hv0 (wB_fun.of_le w0_le_wB) h0).1
  have y2 := reload_synced wB_ok h2
  have d2 := (reload_docsOK wB_ok wB_fun h2).1
  have m1 : ∀ s, reload {} w0 = .ok s → (r1, none) ∈ pairsOf s.docs doc ∧ (r2b, some r1) ∈ pairsOf s.docs doc := by
    have : (match reload {} w0 with
      | .ok s => decide ((r1, none) ∈ pairsOf s.docs doc ∧ (r2b, some r1) ∈ pairsOf s.docs doc)
      | .error _ => false) = true := by decide
    intro s hs; rw [hs] at this; simpa using this
  refine ⟨s₀, r, h0, h2, hpk, (m1 s₀ h0).1, history_monotone w0_le_wB hpk y0 d0 y2 d2, ?_⟩
  exact (history_parent_retrievable w0_le_wB hpk y0 d0 y2 d2 doc r2b (some r1) (m1 s₀ h0).2).2

end Examples

end Melda.Props.C14b
