/-
  C17b — every storage backend model REFINES the write-once contract `KVSpec` on the contract's
  domain (whole reads `(0,0)`, non-empty in-range slices, listing as a set).

  * `Refines o init R KeyOK` : the generic notion (simulation relation `R`, key domain `KeyOK`);
  * `mem_refines`, `fs_refines`, `sql_refines`, `wrap_refines` : the four backend models;
  * `run_refines`, `all_backends_agree` : the same write history gives the same observable state over
    every refining backend.
-/
import Melda.Backends
import Melda.Props.C17
import Melda.Props.C10
namespace Melda.Props.C17b
open Melda Melda.Props.C17 Melda.Props.C10

deriving instance DecidableEq for BRes

/-! ### 1. The generic notion -/

/-- `o` (started in `init`) refines the contract `KVSpec` through the simulation relation `R`, for
    keys satisfying `KeyOK`. -/
structure Refines {β : Type} (o : BackendOps β) (init : β) (R : β → KVSpec → Prop)
    (KeyOK : Str → Prop) : Prop where
  init : R init KVSpec.empty
  write : ∀ {b : β} {s : KVSpec} (k : Str) (d : Bytes), R b s → KeyOK k →
    R (o.write b k d) (s.write k d)
  read_whole : ∀ {b : β} {s : KVSpec} (k : Str), R b s → KeyOK k →
    o.read b k 0 0 = (match s.read k with | some d => BRes.ok d | none => BRes.err)
  read_range : ∀ {b : β} {s : KVSpec} (k : Str) (off len : Nat) (d : Bytes), R b s → KeyOK k →
    0 < len → s.read k = some d → off + len ≤ d.length →
    o.read b k off len = BRes.ok ((d.drop off).take len)
  list : ∀ {b : β} {s : KVSpec} (ext : Str), R b s → (∀ p ∈ s.items, KeyOK p.1) →
    ∀ stem, stem ∈ o.list b ext ↔ stem ∈ s.list ext

/-! ### generic helpers -/

/-- filtering names by suffix and trimming: membership -/
theorem mem_stems_iff (ns : List Str) (ext stem : Str) :
    stem ∈ ((ns.filter (fun n => KVSpec.isSuffix ext n)).map
      (fun n => n.take (n.length - ext.length))) ↔ stem ++ ext ∈ ns := by
  simp only [List.mem_map, List.mem_filter]
  constructor
  · rintro ⟨n, ⟨hn, hsuf⟩, rfl⟩
    obtain ⟨st, hst⟩ := (isSuffix_iff ext n).mp hsuf
    subst hst
    simpa using hn
  · intro h
    exact ⟨stem ++ ext, ⟨h, (isSuffix_iff _ _).mpr ⟨stem, rfl⟩⟩, by simp⟩

theorem key_mem_iff (s : KVSpec) (k : Str) : (∃ v, (k, v) ∈ s.items) ↔ (s.read k).isSome := by
  rw [present_iff_read, Option.isSome_iff_exists]

theorem mem_speclist_iff (s : KVSpec) (ext stem : Str) :
    stem ∈ s.list ext ↔ (s.read (stem ++ ext)).isSome := by
  rw [mem_list_iff, key_mem_iff]

theorem mem_write_items {s : KVSpec} {k : Str} {d : Bytes} {p : Str × Bytes}
    (h : p ∈ (s.write k d).items) : p ∈ s.items ∨ p = (k, d) := by
  unfold KVSpec.write at h
  split at h
  · exact Or.inl h
  · rcases (mem_insertSorted k d s.items p).mp h with e | e
    · exact Or.inr e
    · exact Or.inl e

theorem read_write_isSome (s : KVSpec) (k k2 : Str) (d : Bytes) :
    ((s.write k d).read k2).isSome ↔ (k2 = k ∨ (s.read k2).isSome) := by
  by_cases hk : k2 = k
  · subst hk; simp [read_write_same]
  · rw [read_write_other _ _ _ _ hk]; simp [hk]

theorem write_of_read_some {s : KVSpec} {k : Str} {d e : Bytes} (h : s.read k = some e) :
    s.write k d = s := by
  unfold KVSpec.read at h
  unfold KVSpec.write; rw [h]

/-! ### 2. MemoryAdapter -/

def Rmem (b : MemBackend) (s : KVSpec) : Prop := b.m = s

theorem mem_refines : Refines memOps {} Rmem (fun _ => True) where
  init := rfl
  write := by
    intro b s k d h _
    unfold Rmem at h; subst h; rfl
  read_whole := by
    intro b s k h _
    unfold Rmem at h; subst h
    show MemBackend.read b k 0 0 = _
    unfold MemBackend.read KVSpec.read
    cases b.m.get k <;> simp
  read_range := by
    intro b s k off len d h _ hlen hr hin
    unfold Rmem at h; subst h
    show MemBackend.read b k off len = _
    unfold MemBackend.read
    unfold KVSpec.read at hr
    rw [hr]
    have h1 : ¬ (off = 0 ∧ len = 0) := by omega
    have h2 : ¬ (off + len > d.length) := by omega
    simp only [h1, h2, if_false]
  list := by
    intro b s ext h _ stem
    unfold Rmem at h; subst h
    exact Iff.rfl

/-! ### 3. FilesystemAdapter -/

def KeyOKfs (k : Str) : Prop := 2 ≤ k.length ∧ '/' ∉ k

/-- `fsPath` is injective (on all keys, in fact) -/
theorem fsPath_inj {k k2 : Str} (h : fsPath k = fsPath k2) : k = k2 := by
  unfold fsPath at h
  have hl := congrArg List.length h
  simp only [List.length_append, List.length_take, List.length_cons] at hl
  have hlen : ('/' :: k).length = ('/' :: k2).length := by
    simp only [List.length_cons]; omega
  have := (List.append_inj' h hlen).2
  simpa using this

theorem dropWhile_slash (l r : Str) (h : ∀ c ∈ l, c ≠ '/') :
    (l ++ '/' :: r).dropWhile (· ≠ '/') = '/' :: r := by
  induction l with
  | nil => simp
  | cons x xs ih =>
    have hx : x ≠ '/' := h x (by simp)
    simp only [List.cons_append, List.dropWhile_cons, hx, ne_eq, not_false_eq_true, decide_true,
      if_true]
    exact ih (fun c hc => h c (List.mem_cons_of_mem _ hc))

/-- the file name of the path of a key is the key (as soon as its first two characters are not `/`) -/
theorem baseName_fsPath {k : Str} (h : '/' ∉ k) : FsBackend.baseName (fsPath k) = k := by
  unfold FsBackend.baseName fsPath
  rw [dropWhile_slash]
  · simp
  · intro c hc e
    subst e
    exact h (List.mem_of_mem_take hc)

/-- simulation relation of the directory layout: the files are exactly the paths of OK keys, with the
    contract's contents -/
def Rfs (b : FsBackend) (s : KVSpec) : Prop :=
  (∀ k, KeyOKfs k → b.files.get (fsPath k) = s.get k) ∧
  (∀ p ∈ b.files.items, ∃ k, KeyOKfs k ∧ p.1 = fsPath k)

theorem fs_mem_list_iff (b : FsBackend) (ext stem : Str) :
    stem ∈ b.list ext ↔ ∃ p ∈ b.files.items, FsBackend.baseName p.1 = stem ++ ext := by
  unfold FsBackend.list
  rw [mem_stems_iff]
  simp only [List.mem_map]

theorem fs_refines : Refines fsOps {} Rfs KeyOKfs where
  init := by
    refine ⟨fun k _ => rfl, ?_⟩
    intro p hp
    cases hp
  write := by
    intro b s k d ⟨h1, h2⟩ hk
    show Rfs (FsBackend.write b k d) _
    unfold FsBackend.write
    refine ⟨?_, ?_⟩
    · intro k2 hk2
      show (b.files.write (fsPath k) d).read (fsPath k2) = (s.write k d).read k2
      by_cases e : k2 = k
      · subst e
        rw [read_write_same, read_write_same]
        show some ((b.files.get (fsPath k2)).getD d) = some ((s.get k2).getD d)
        rw [h1 k2 hk2]
      · have e' : fsPath k2 ≠ fsPath k := fun x => e (fsPath_inj x)
        rw [read_write_other _ _ _ _ e', read_write_other _ _ _ _ e]
        exact h1 k2 hk2
    · intro p hp
      rcases mem_write_items hp with hp | rfl
      · exact h2 p hp
      · exact ⟨k, hk, rfl⟩
  read_whole := by
    intro b s k ⟨h1, _⟩ hk
    show FsBackend.read b k 0 0 = _
    unfold FsBackend.read KVSpec.read
    rw [h1 k hk]
    cases s.get k <;> simp
  read_range := by
    intro b s k off len d ⟨h1, _⟩ hk hlen hr hin
    show FsBackend.read b k off len = _
    unfold FsBackend.read
    unfold KVSpec.read at hr
    rw [h1 k hk, hr]
    have e1 : ¬ len = 0 := by omega
    have e2 : ¬ d.length < off + len := by omega
    simp only [e1, e2, if_false]
  list := by
    intro b s ext ⟨h1, h2⟩ hkeys stem
    show stem ∈ FsBackend.list b ext ↔ _
    rw [fs_mem_list_iff, mem_list_iff]
    constructor
    · rintro ⟨⟨p, v⟩, hp, hb⟩
      obtain ⟨k, hk, hpk⟩ := h2 _ hp
      simp only at hpk hb
      subst hpk
      rw [baseName_fsPath hk.2] at hb
      subst hb
      obtain ⟨d', hd'⟩ := mem_read hp
      have : s.read (stem ++ ext) = some d' := by
        rw [← hd']; exact (h1 _ hk).symm
      exact ⟨d', read_mem this⟩
    · rintro ⟨v, hv⟩
      have hk : KeyOKfs (stem ++ ext) := hkeys _ hv
      obtain ⟨d', hd'⟩ := mem_read hv
      have : b.files.read (fsPath (stem ++ ext)) = some d' := by
        rw [← hd']; exact h1 _ hk
      exact ⟨(fsPath (stem ++ ext), d'), read_mem this, baseName_fsPath hk.2⟩

/-! ### 4. SqliteAdapter -/

/-- simulation relation of the table: every row decodes, and decodes to the contract's content -/
def Rsql (c : TextCodec) (b : SqlBackend) (s : KVSpec) : Prop :=
  ∀ k, (b.find k).bind c.dec = s.get k ∧ ((b.find k).isSome → (s.get k).isSome)

theorem sql_find_isSome_iff (b : SqlBackend) (k : Str) :
    (b.find k).isSome ↔ k ∈ b.rows.map (·.1) := by
  unfold SqlBackend.find
  simp only [Option.isSome_map, List.find?_isSome, List.mem_map, decide_eq_true_eq]

theorem sql_find_append (b : SqlBackend) (k k2 : Str) (t : Str) :
    SqlBackend.find { rows := b.rows ++ [(k, t)] } k2 =
      (b.find k2).or (if k = k2 then some t else none) := by
  unfold SqlBackend.find
  simp only [List.find?_append]
  cases h : b.rows.find? (fun r => decide (r.1 = k2)) with
  | some x => simp
  | none =>
    by_cases e : k = k2
    · simp [e]
    · simp [e]

theorem sql_refines (c : TextCodec) (hc : ∀ d, c.dec (c.enc d) = some d) :
    Refines (sqlOps c) {} (Rsql c) (fun _ => True) where
  init := by
    intro k
    exact ⟨rfl, fun h => by cases h⟩
  write := by
    intro b s k d h _
    show Rsql c (SqlBackend.write c b k d) _
    unfold SqlBackend.write
    cases hf : b.find k with
    | some t =>
      have hs : (s.get k).isSome := (h k).2 (by rw [hf]; rfl)
      obtain ⟨e, he⟩ := Option.isSome_iff_exists.mp hs
      rw [write_of_read_some (d := d) he]
      exact h
    | none =>
      have hs : s.read k = none := by
        have := (h k).1; rw [hf] at this; exact this.symm
      intro k2
      show (SqlBackend.find { rows := b.rows ++ [(k, c.enc d)] } k2).bind c.dec = (s.write k d).read k2 ∧
        ((SqlBackend.find { rows := b.rows ++ [(k, c.enc d)] } k2).isSome → ((s.write k d).read k2).isSome)
      rw [sql_find_append]
      by_cases e : k2 = k
      · subst e
        rw [hf, read_write_same, hs]
        simp [hc]
      · have e' : ¬ k = k2 := fun x => e x.symm
        rw [read_write_other _ _ _ _ e]
        simp only [e', if_false, Option.or_none]
        exact h k2
  read_whole := by
    intro b s k h _
    show SqlBackend.read c b k 0 0 = _
    unfold SqlBackend.read KVSpec.read
    have h1 := (h k).1
    have h2 := (h k).2
    cases hf : b.find k with
    | none => rw [hf] at h1; simp only [Option.bind_none] at h1; rw [← h1]
    | some t =>
      rw [hf] at h1 h2
      simp only [Option.bind_some] at h1
      rw [← h1] at h2 ⊢
      cases hd : c.dec t with
      | none => rw [hd] at h2; simp at h2
      | some d => simp [hd]
  read_range := by
    intro b s k off len d h _ hlen hr hin
    show SqlBackend.read c b k off len = _
    unfold SqlBackend.read
    unfold KVSpec.read at hr
    have := (h k).1
    rw [hr] at this
    cases hf : b.find k with
    | none => rw [hf] at this; simp at this
    | some t =>
      rw [hf] at this
      simp only [Option.bind_some] at this
      simp only [this]
      have h1 : ¬ (off = 0 ∧ len = 0) := by omega
      have h2 : ¬ (off + len > d.length) := by omega
      simp only [h1, h2, if_false]
  list := by
    intro b s ext h _ stem
    show stem ∈ SqlBackend.list b ext ↔ _
    unfold SqlBackend.list
    rw [mem_stems_iff, ← sql_find_isSome_iff, mem_speclist_iff]
    constructor
    · exact (h _).2
    · intro hs
      have := (h (stem ++ ext)).1
      unfold KVSpec.read at hs
      cases hf : b.find (stem ++ ext) with
      | some _ => rfl
      | none => rw [hf] at this; simp at this; rw [← this] at hs; cases hs

/-! ### 5. Compression wrappers -/

/-- simulation relation of a wrapper over a refining backend: the backend represents an inner
    contract store `inner` all of whose keys are `k ++ sfx` for a logical key `k`, and decoding
    `inner` at `k ++ sfx` gives the logical content -/
def Rwrap {β : Type} (c : ByteCodec) (sfx : Str) (R : β → KVSpec → Prop) (b : β) (s : KVSpec) : Prop :=
  ∃ inner : KVSpec, R b inner ∧
    (∀ k, (inner.read (k ++ sfx)).bind c.dec = s.read k) ∧
    (∀ p ∈ inner.items, ∃ k, p.1 = k ++ sfx ∧ (s.read k).isSome)

theorem wrap_refines {β : Type} {o : BackendOps β} {init : β} {R : β → KVSpec → Prop}
    {KeyOK : Str → Prop} (c : ByteCodec) (sfx : Str) (hc : ∀ d, c.dec (c.enc d) = some d)
    (h : Refines o init R KeyOK) :
    Refines (wrapOps c sfx o) init (Rwrap c sfx R) (fun k => KeyOK (k ++ sfx)) where
  init := by
    refine ⟨KVSpec.empty, h.init, fun k => rfl, ?_⟩
    intro p hp
    cases hp
  write := by
    rintro b s k d ⟨inner, hR, h1, h2⟩ hk
    show Rwrap c sfx R (o.write b (k ++ sfx) (c.enc d)) (s.write k d)
    refine ⟨inner.write (k ++ sfx) (c.enc d), h.write _ _ hR hk, ?_, ?_⟩
    · intro k2
      by_cases e : k2 = k
      · subst e
        rw [read_write_same, read_write_same]
        cases hi : inner.read (k2 ++ sfx) with
        | none =>
          have hl : s.read k2 = none := by
            have := h1 k2; rw [hi] at this; exact this.symm
          simp [hl, hc]
        | some raw =>
          obtain ⟨k3, hk3, hs3⟩ := h2 _ (read_mem hi)
          have e3 : k3 = k2 := (List.append_cancel_right hk3).symm
          subst e3
          obtain ⟨x, hx⟩ := Option.isSome_iff_exists.mp hs3
          have := h1 k3
          rw [hi, hx] at this
          simp only [Option.bind_some] at this
          simp [hx, this]
      · have e' : k2 ++ sfx ≠ k ++ sfx := fun x => e (List.append_cancel_right x)
        rw [read_write_other _ _ _ _ e', read_write_other _ _ _ _ e]
        exact h1 k2
    · intro p hp
      rcases mem_write_items hp with hp | rfl
      · obtain ⟨k3, hk3, hs3⟩ := h2 p hp
        exact ⟨k3, hk3, (read_write_isSome _ _ _ _).mpr (Or.inr hs3)⟩
      · exact ⟨k, rfl, (read_write_isSome _ _ _ _).mpr (Or.inl rfl)⟩
  read_whole := by
    rintro b s k ⟨inner, hR, h1, _⟩ hk
    show (match o.read b (k ++ sfx) 0 0 with
      | .ok raw => (match c.dec raw with
        | none => BRes.err
        | some d => if 0 = 0 ∧ 0 = 0 then BRes.ok d
          else if 0 + 0 > d.length then BRes.panic else BRes.ok ((d.drop 0).take 0))
      | .err => BRes.err
      | .panic => BRes.panic) = _
    rw [h.read_whole _ hR hk, ← h1 k]
    cases inner.read (k ++ sfx) with
    | none => rfl
    | some raw =>
      simp only [Option.bind_some]
      cases c.dec raw <;> simp
  read_range := by
    rintro b s k off len d ⟨inner, hR, h1, _⟩ hk hlen hr hin
    show (match o.read b (k ++ sfx) 0 0 with
      | .ok raw => (match c.dec raw with
        | none => BRes.err
        | some d => if off = 0 ∧ len = 0 then BRes.ok d
          else if off + len > d.length then BRes.panic else BRes.ok ((d.drop off).take len))
      | .err => BRes.err
      | .panic => BRes.panic) = _
    rw [h.read_whole _ hR hk]
    have := h1 k
    rw [hr] at this
    cases hi : inner.read (k ++ sfx) with
    | none => rw [hi] at this; simp at this
    | some raw =>
      rw [hi] at this
      simp only [Option.bind_some] at this
      simp only [this]
      have e1 : ¬ (off = 0 ∧ len = 0) := by omega
      have e2 : ¬ (off + len > d.length) := by omega
      simp only [e1, e2, if_false]
  list := by
    rintro b s ext ⟨inner, hR, h1, h2⟩ hkeys stem
    show stem ∈ o.list b (ext ++ sfx) ↔ _
    have hin : ∀ p ∈ inner.items, KeyOK p.1 := by
      intro p hp
      obtain ⟨k, hk, hs⟩ := h2 p hp
      obtain ⟨v, hv⟩ := (key_mem_iff s k).mpr hs
      rw [hk]
      exact hkeys _ hv
    rw [h.list _ hR hin, mem_speclist_iff, mem_speclist_iff, ← List.append_assoc]
    constructor
    · intro hs
      obtain ⟨v, hv⟩ := (key_mem_iff _ _).mpr hs
      obtain ⟨k, hk, hks⟩ := h2 _ hv
      have : stem ++ ext = k := List.append_cancel_right hk
      rw [this]; exact hks
    · intro hs
      rw [← h1 (stem ++ ext)] at hs
      cases hi : inner.read (stem ++ ext ++ sfx) with
      | none => rw [hi] at hs; cases hs
      | some _ => rfl

/-! ### 6. Same history, same state, whatever the backend -/

/-- drive a backend by a sequence of writes -/
def run {β : Type} (o : BackendOps β) (init : β) (ws : List (Str × Bytes)) : β :=
  ws.foldl (fun b w => o.write b w.1 w.2) init

/-- drive the contract by the same writes -/
def runSpec (ws : List (Str × Bytes)) : KVSpec :=
  ws.foldl (fun s w => s.write w.1 w.2) KVSpec.empty

theorem fold_refines {β : Type} {o : BackendOps β} {init : β} {R : β → KVSpec → Prop}
    {KeyOK : Str → Prop} (h : Refines o init R KeyOK) (ws : List (Str × Bytes))
    (hk : ∀ w ∈ ws, KeyOK w.1) (b : β) (s : KVSpec) (hR : R b s) :
    R (ws.foldl (fun b w => o.write b w.1 w.2) b) (ws.foldl (fun s w => s.write w.1 w.2) s) := by
  induction ws generalizing b s with
  | nil => exact hR
  | cons w ws ih =>
    simp only [List.foldl_cons]
    exact ih (fun w' hw' => hk w' (List.mem_cons_of_mem _ hw')) _ _
      (h.write _ _ hR (hk w (by simp)))

/-- **after any sequence of writes with OK keys, the backend state represents the contract state** -/
theorem run_refines {β : Type} {o : BackendOps β} {init : β} {R : β → KVSpec → Prop}
    {KeyOK : Str → Prop} (h : Refines o init R KeyOK) (ws : List (Str × Bytes))
    (hk : ∀ w ∈ ws, KeyOK w.1) : R (run o init ws) (runSpec ws) :=
  fold_refines h ws hk _ _ h.init

theorem fold_keys (ws : List (Str × Bytes)) (s : KVSpec) (p : Str × Bytes)
    (hp : p ∈ (ws.foldl (fun s w => s.write w.1 w.2) s).items) : p ∈ s.items ∨ p ∈ ws := by
  induction ws generalizing s with
  | nil => exact Or.inl hp
  | cons w ws ih =>
    simp only [List.foldl_cons] at hp
    rcases ih _ hp with h | h
    · rcases mem_write_items h with h | h
      · exact Or.inl h
      · exact Or.inr (by rw [h]; simp)
    · exact Or.inr (List.mem_cons_of_mem _ h)

/-- every stored pair of the contract state is one of the writes -/
theorem runSpec_items (ws : List (Str × Bytes)) (p : Str × Bytes) (hp : p ∈ (runSpec ws).items) :
    p ∈ ws := by
  rcases fold_keys ws KVSpec.empty p hp with h | h
  · cases h
  · exact h

/-- **the observable answers of a refining backend after a write history are the contract's** -/
theorem run_observations {β : Type} {o : BackendOps β} {init : β} {R : β → KVSpec → Prop}
    {KeyOK : Str → Prop} (h : Refines o init R KeyOK) (ws : List (Str × Bytes))
    (hk : ∀ w ∈ ws, KeyOK w.1) :
    (∀ k, KeyOK k → o.read (run o init ws) k 0 0 =
        (match (runSpec ws).read k with | some d => BRes.ok d | none => BRes.err)) ∧
    (∀ k off len d, KeyOK k → 0 < len → (runSpec ws).read k = some d → off + len ≤ d.length →
        o.read (run o init ws) k off len = BRes.ok ((d.drop off).take len)) ∧
    (∀ ext stem, stem ∈ o.list (run o init ws) ext ↔ stem ∈ (runSpec ws).list ext) := by
  have hR := run_refines h ws hk
  refine ⟨fun k hk' => h.read_whole k hR hk', ?_, ?_⟩
  · intro k off len d hk' hlen hr hin
    exact h.read_range k off len d hR hk' hlen hr hin
  · intro ext stem
    exact h.list ext hR (fun p hp => hk p (runSpec_items ws p hp)) stem

/-- **All backends agree**: two refining backends (possibly of different types, with different key
    domains) started from their initial states and driven by the same sequence of writes whose keys are
    OK for both give the same whole reads, the same in-range slices (in range w.r.t. the contract's
    content, which is the first write to that key) and the same listings (as sets) — all equal to the
    contract's answers. -/
theorem all_backends_agree {β₁ β₂ : Type}
    {o₁ : BackendOps β₁} {i₁ : β₁} {R₁ : β₁ → KVSpec → Prop} {K₁ : Str → Prop}
    {o₂ : BackendOps β₂} {i₂ : β₂} {R₂ : β₂ → KVSpec → Prop} {K₂ : Str → Prop}
    (h₁ : Refines o₁ i₁ R₁ K₁) (h₂ : Refines o₂ i₂ R₂ K₂) (ws : List (Str × Bytes))
    (hk : ∀ w ∈ ws, K₁ w.1 ∧ K₂ w.1) :
    (∀ k, K₁ k → K₂ k → o₁.read (run o₁ i₁ ws) k 0 0 = o₂.read (run o₂ i₂ ws) k 0 0) ∧
    (∀ k off len d, K₁ k → K₂ k → 0 < len → (runSpec ws).read k = some d → off + len ≤ d.length →
        o₁.read (run o₁ i₁ ws) k off len = BRes.ok ((d.drop off).take len) ∧
        o₂.read (run o₂ i₂ ws) k off len = BRes.ok ((d.drop off).take len)) ∧
    (∀ ext stem, stem ∈ o₁.list (run o₁ i₁ ws) ext ↔ stem ∈ o₂.list (run o₂ i₂ ws) ext) := by
  obtain ⟨a1, a2, a3⟩ := run_observations h₁ ws (fun w hw => (hk w hw).1)
  obtain ⟨b1, b2, b3⟩ := run_observations h₂ ws (fun w hw => (hk w hw).2)
  refine ⟨fun k k1 k2 => by rw [a1 k k1, b1 k k2], ?_, ?_⟩
  · intro k off len d k1 k2 hlen hr hin
    exact ⟨a2 k off len d k1 hlen hr hin, b2 k off len d k2 hlen hr hin⟩
  · intro ext stem
    rw [a3, b3]

/-- the contract content read after a history is the first write to that key -/
theorem runSpec_read_first (ws₁ ws₂ : List (Str × Bytes)) (k : Str) (d : Bytes)
    (hfresh : ∀ w ∈ ws₁, w.1 ≠ k) : (runSpec (ws₁ ++ (k, d) :: ws₂)).read k = some d := by
  unfold runSpec
  rw [List.foldl_append, List.foldl_cons]
  apply read_stable
  rw [read_write_same]
  suffices hnone : ∀ s : KVSpec, s.read k = none →
      (ws₁.foldl (fun s w => s.write w.1 w.2) s).read k = none by
    rw [hnone KVSpec.empty rfl]; rfl
  induction ws₁ with
  | nil => intro s hs; exact hs
  | cons w ws ih =>
    intro s hs
    simp only [List.foldl_cons]
    apply ih (fun w' hw' => hfresh w' (List.mem_cons_of_mem _ hw'))
    have : k ≠ w.1 := fun e => hfresh w (by simp) e.symm
    rw [read_write_other _ _ _ _ this]; exact hs

/-- the concrete stack used by the correspondence channel: every backend, wrapped or not, over the
    same history with keys valid for the directory layout -/
theorem mem_fs_agree (ws : List (Str × Bytes)) (hk : ∀ w ∈ ws, KeyOKfs w.1) :
    (∀ k, KeyOKfs k → memOps.read (run memOps {} ws) k 0 0 = fsOps.read (run fsOps {} ws) k 0 0) ∧
    (∀ ext stem, stem ∈ memOps.list (run memOps {} ws) ext ↔ stem ∈ fsOps.list (run fsOps {} ws) ext) := by
  obtain ⟨a, _, c⟩ := all_backends_agree mem_refines fs_refines ws (fun w hw => ⟨trivial, hk w hw⟩)
  exact ⟨fun k hk' => a k trivial hk', c⟩

/-! ### 7. Non-vacuity -/

def idCodec : ByteCodec := ⟨id, some⟩
/-- a text codec with a round trip (stands for base64): one character per byte -/
def idText : TextCodec :=
  ⟨fun d => d.map (fun b => Char.ofNat b.toNat), fun s => some (s.map (fun c => c.toNat.toUInt8))⟩

theorem idText_byte : ∀ n, n < 256 → (Char.ofNat n).toNat.toUInt8 = n.toUInt8 := by decide +kernel

theorem idText_roundtrip (d : Bytes) : idText.dec (idText.enc d) = some d := by
  show some ((d.map (fun b => Char.ofNat b.toNat)).map (fun c => c.toNat.toUInt8)) = some d
  congr 1
  rw [List.map_map]
  conv => rhs; rw [← List.map_id d]
  apply List.map_congr_left
  intro b _
  show (Char.ofNat b.toNat).toNat.toUInt8 = b
  rw [idText_byte _ b.toNat_lt]; simp

example : Refines (sqlOps idText) {} (Rsql idText) (fun _ => True) := sql_refines idText idText_roundtrip

def sql1 : SqlBackend := (sqlOps idText).write {} "ab12.delta".toList [1, 2, 3, 4]
example : (sqlOps idText).list sql1 ".delta".toList = ["ab12".toList] := by decide +kernel
example : (sqlOps idText).read sql1 "ab12.delta".toList 1 2 = .ok [2, 3] := by decide +kernel
example : (sqlOps idText).read ((sqlOps idText).write sql1 "ab12.delta".toList [9]) "ab12.delta".toList 0 0
    = .ok [1, 2, 3, 4] := by decide +kernel

example : KeyOKfs "ab12.delta".toList := by unfold KeyOKfs; decide

def fs1 : FsBackend := fsOps.write {} "ab12.delta".toList [1, 2, 3, 4]

example : fs1.files.items = [("ab/ab12.delta".toList, [1, 2, 3, 4])] := by decide
example : fsOps.list fs1 ".delta".toList = ["ab12".toList] := by decide
example : fsOps.read fs1 "ab12.delta".toList 1 2 = .ok [2, 3] := by decide
example : fsOps.read fs1 "ab12.delta".toList 0 0 = .ok [1, 2, 3, 4] := by decide
example : fsOps.read fs1 "ab13.delta".toList 0 0 = .err := by decide
/-- first write wins -/
example : fsOps.read (fsOps.write fs1 "ab12.delta".toList [9]) "ab12.delta".toList 0 0 = .ok [1, 2, 3, 4] := by
  decide

def w1 : MemBackend := (wrapOps idCodec ".gz".toList memOps).write {} "ab12.delta".toList [1, 2, 3, 4]

example : w1.m.items = [("ab12.delta.gz".toList, [1, 2, 3, 4])] := by decide
example : (wrapOps idCodec ".gz".toList memOps).list w1 ".delta".toList = ["ab12".toList] := by decide
example : (wrapOps idCodec ".gz".toList memOps).read w1 "ab12.delta".toList 1 2 = .ok [2, 3] := by decide
example : (wrapOps idCodec ".gz".toList memOps).read w1 "ab12.delta".toList 0 0 = .ok [1, 2, 3, 4] := by
  decide
/-- the wrapper over the directory layout -/
example : (wrapOps idCodec ".gz".toList fsOps).list
    ((wrapOps idCodec ".gz".toList fsOps).write {} "ab12.delta".toList [1, 2]) ".delta".toList
    = ["ab12".toList] := by decide

/-- the hypotheses of the instances are satisfiable -/
example : Refines (wrapOps idCodec ".gz".toList fsOps) {} (Rwrap idCodec ".gz".toList Rfs)
    (fun k => KeyOKfs (k ++ ".gz".toList)) :=
  wrap_refines idCodec _ (fun _ => rfl) fs_refines

example : ∀ d, idCodec.dec (idCodec.enc d) = some d := fun _ => rfl

/-- `Rfs`, `Rwrap` hold of the concrete runs -/
example : Rfs fs1 (KVSpec.empty.write "ab12.delta".toList [1, 2, 3, 4]) :=
  fs_refines.write _ _ fs_refines.init (by unfold KeyOKfs; decide)

/-- out-of-domain behaviours DIFFER between backends (this is why the contract's domain is what it
    is): an out-of-range slice is an error for memory and files, an abort for SQLite and wrappers;
    `len = 0` with `off > 0` is the whole file for the directory layout and an empty slice for memory. -/
example : memOps.read (memOps.write {} "ab".toList [1, 2]) "ab".toList 1 5 = .err := by decide
example : (wrapOps idCodec ".gz".toList memOps).read
    ((wrapOps idCodec ".gz".toList memOps).write {} "ab".toList [1, 2]) "ab".toList 1 5 = .panic := by decide
example : fsOps.read (fsOps.write {} "ab".toList [1, 2]) "ab".toList 1 0 = .ok [1, 2] := by decide
example : memOps.read (memOps.write {} "ab".toList [1, 2]) "ab".toList 1 0 = .ok [] := by decide

/-- outside `KeyOKfs` the directory-layout model does NOT refine the contract: a key with `/` among its
    first two characters is listed under another name (the contract lists `a/b`) -/
example : fsOps.list (fsOps.write {} "a/b.x".toList [1]) ".x".toList = ["/a/b".toList] := by decide
example : memOps.list (memOps.write {} "a/b.x".toList [1]) ".x".toList = ["a/b".toList] := by decide

end Melda.Props.C17b
