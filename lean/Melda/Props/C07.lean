/-
  C07 — resolving a conflict adopts the chosen revision (document level, plain objects).

  6. `resolveAs_errors`: unknown document / chosen revision not a leaf / no conflict → error, no state.
  7. `resolveAs_plain_spec`, `resolveAs_deleted_spec`: after a successful `resolve_as` the tree has exactly
     one leaf, which is the winner and carries the body of the chosen revision (or is a deletion);
     every other former leaf has a child now (a resolution marker, or the new revision).
  8. `resolve_winner_read_unchanged`: resolving in favour of the current winner does not change `read`.
-/
import Melda.Props.C12
namespace Melda.Props.C07
open Melda Melda.DState Melda.RevTree
open C05 (KeysNodup WellIndexed Reaches LiveLeaf)
open C19 (Canonical AlnumStr HexOut)
open C12 (GoodTree markStep)

/-! ## plumbing: the document map, the stage, the body lookup -/

theorem find?_setTree (docs : List (Str × RevTree)) (u : Str) (t : RevTree) :
    (setTree docs u t).find? (fun p => p.1 = u) = some (u, t) := by
  induction docs with
  | nil => simp [setTree]
  | cons x rest ih =>
    obtain ⟨k, y⟩ := x
    unfold setTree
    split
    · simp
    · next hk =>
      split
      · simp
      · rw [List.find?_cons]
        simp only [hk, decide_false]
        exact ih

theorem treeOf_withTree (st : DState) (u : Str) (t : RevTree) : (st.withTree u t).treeOf u = some t := by
  unfold treeOf withTree
  simp only [find?_setTree, Option.map_some]

theorem writeObject_p (st : DState) (r : Rev) (o : JObj) : (st.writeObject r o).p = st.p := by
  unfold writeObject; split; rfl; split <;> rfl

theorem writeObject_acache (st : DState) (r : Rev) (o : JObj) : (st.writeObject r o).acache = st.acache := by
  unfold writeObject; split; rfl; split <;> rfl

theorem writeObject_stage (st : DState) (r : Rev) (o : JObj) :
    ∃ extra, (st.writeObject r o).stage = st.stage ++ extra := by
  unfold writeObject
  split
  · exact ⟨[], by simp⟩
  · split
    · exact ⟨[], by simp⟩
    · exact ⟨[(r.digest, o)], rfl⟩

theorem treeOf_writeObject (st : DState) (r : Rev) (o : JObj) (u : Str) :
    (st.writeObject r o).treeOf u = st.treeOf u := by
  unfold treeOf; rw [writeObject_p]

/-- the body lookup looks at the digest of the revision only -/
theorem readObject_digest (src : Src) (st : DState) {a b : Rev} (h : a.digest = b.digest) :
    readObject src st a = readObject src st b := by
  unfold readObject Rev.isEmpty Rev.isDeleted Rev.isResolved Rev.isCharcode
  rw [h]

/-- a successful body lookup survives any growth of the stage -/
theorem readObject_stage_append (src : Src) (st st' : DState) (extra : List (Str × JObj))
    (hs : st'.stage = st.stage ++ extra) {x : Rev} {b : JObj} (h : readObject src st x = .ok b) :
    readObject src st' x = .ok b := by
  unfold readObject at h ⊢
  split
  · simpa [*] using h
  · next h1 =>
    rw [if_neg h1] at h
    split
    · next h2 => rw [if_pos h2] at h; exact h
    · next h2 =>
      rw [if_neg h2] at h
      split
      · next h3 => rw [if_pos h3] at h; exact h
      · next h3 =>
        rw [if_neg h3] at h
        split
        · next h4 => rw [if_pos h4] at h; exact h
        · next h4 =>
          rw [if_neg h4] at h
          cases hsrc : src x.digest with
          | some o' => rw [hsrc] at h; exact h
          | none =>
            rw [hsrc] at h
            simp only at h ⊢
            rw [hs, List.find?_append]
            cases hf : st.stage.find? (fun p => p.1 = x.digest) with
            | some p => rw [hf] at h; simpa using h
            | none => rw [hf] at h; cases h

theorem readObject_writeObject (src : Src) (st : DState) (r : Rev) (o : JObj) {x : Rev} {b : JObj}
    (h : readObject src st x = .ok b) : readObject src (st.writeObject r o) x = .ok b := by
  obtain ⟨extra, he⟩ := writeObject_stage st r o
  exact readObject_stage_append src st _ extra he h

theorem readObject_withTree (src : Src) (st : DState) (u : Str) (t : RevTree) (x : Rev) :
    readObject src (st.withTree u t) x = readObject src st x := rfl

/-! ## 6. the error exits -/

theorem resolveAs_unparsable (H : Bytes → Str) (src : Src) (st : DState) (u winner : Str)
    (hp : Rev.parse winner = none) : resolveAs H src st u winner = .panic "invalid_revision_string" := by
  unfold resolveAs; rw [hp]

theorem resolveAs_unknown (H : Bytes → Str) (src : Src) (st : DState) (u winner : Str) {chosen : Rev}
    (hp : Rev.parse winner = some chosen) (ht : st.treeOf u = none) :
    resolveAs H src st u winner = .err "unknown_document" := by
  unfold resolveAs; simp only [hp, ht]

theorem resolveAs_not_leaf (H : Bytes → Str) (src : Src) (st : DState) (u winner : Str) {chosen : Rev}
    {t : RevTree} (hp : Rev.parse winner = some chosen) (ht : st.treeOf u = some t) (hl : chosen ∉ t.leafs) :
    resolveAs H src st u winner = .err "invalid_winner_revision" := by
  have : t.leafs.contains chosen = false := by
    cases hc : t.leafs.contains chosen with
    | false => rfl
    | true => exact absurd (List.contains_iff_mem.mp hc) hl
  unfold resolveAs; simp only [hp, ht, this, Bool.not_false, if_true]

theorem resolveAs_not_in_conflict (H : Bytes → Str) (src : Src) (st : DState) (u winner : Str) {chosen : Rev}
    {t : RevTree} (hp : Rev.parse winner = some chosen) (ht : st.treeOf u = some t) (hl : chosen ∈ t.leafs)
    (hn : t.leafs.length ≤ 1) : resolveAs H src st u winner = .err "not_in_conflict" := by
  have : t.leafs.contains chosen = true := List.contains_iff_mem.mpr hl
  unfold resolveAs; simp only [hp, ht, this, Bool.not_true, Bool.false_eq_true, if_false, hn, if_true]

/-- **the error exits of `resolve_as`** (the revision text parses to `chosen`; for the text of a canonical
    revision `parse` returns that revision: `C19.parse_render`): an unknown document, a chosen revision
    that is not a leaf and a document with at most one leaf are errors; an error carries no state, so the
    replica is unchanged. -/
theorem resolveAs_errors (H : Bytes → Str) (src : Src) (st : DState) (u winner : Str) {chosen : Rev}
    (hp : Rev.parse winner = some chosen) :
    (st.treeOf u = none → resolveAs H src st u winner = .err "unknown_document") ∧
    (∀ t, st.treeOf u = some t → chosen ∉ t.leafs → resolveAs H src st u winner = .err "invalid_winner_revision") ∧
    (∀ t, st.treeOf u = some t → chosen ∈ t.leafs → t.leafs.length ≤ 1 →
      resolveAs H src st u winner = .err "not_in_conflict") :=
  ⟨resolveAs_unknown H src st u winner hp, fun _ ht hl => resolveAs_not_leaf H src st u winner hp ht hl,
   fun _ ht hl hn => resolveAs_not_in_conflict H src st u winner hp ht hl hn⟩

/-- the same for the rendered text of a canonical revision -/
theorem resolveAs_errors_render (H : Bytes → Str) (src : Src) (st : DState) (u : Str) (r : Rev) (hc : Canonical r) :
    (st.treeOf u = none → resolveAs H src st u r.render = .err "unknown_document") ∧
    (∀ t, st.treeOf u = some t → r ∉ t.leafs → resolveAs H src st u r.render = .err "invalid_winner_revision") ∧
    (∀ t, st.treeOf u = some t → r ∈ t.leafs → t.leafs.length ≤ 1 →
      resolveAs H src st u r.render = .err "not_in_conflict") :=
  resolveAs_errors H src st u r.render (C19.parse_render r hc)

/-! ## 7. the successful path, plain objects -/

/-- what is left of `resolve_as` once the chosen body is read -/
def finishResolve (H : Bytes → Str) (u : Str) (step : Res (DState × Option Str)) : Res (DState × Str) :=
  match step with
  | .panic m => .panic m
  | .err e => .err e
  | .ok (st1, _) =>
    match st1.treeOf u with
    | none => .err "unknown_document"
    | some t1 =>
      match t1.winner with
      | none => .panic "revision_tree_invalid_state"
      | some w1 => .ok (st1.withTree u (t1.leafs.foldl (markStep H w1) t1), w1.render)

theorem resolveAs_plain_unfold (H : Bytes → Str) (src : Src) (st : DState) (u winner : Str) {r : Rev}
    {t : RevTree} {o : JObj} (hp : Rev.parse winner = some r) (ht : st.treeOf u = some t) (hl : r ∈ t.leafs)
    (hconf : 2 ≤ t.leafs.length) (hu : isArrayDescriptor u = false) (hbody : readObject src st r = .ok o) :
    resolveAs H src st u winner =
      finishResolve H u (if r.isDeleted then deleteObject H st u else updateObject H src st u o) := by
  have h1 : t.leafs.contains r = true := List.contains_iff_mem.mpr hl
  have h2 : ¬ t.leafs.length ≤ 1 := by omega
  unfold resolveAs readAt
  simp only [hp, ht, h1, Bool.not_true, Bool.false_eq_true, if_false, h2, hu, hbody]
  rfl

theorem updateObject_plain (H : Bytes → Str) (src : Src) (st : DState) (u : Str) {t : RevTree} {w : Rev}
    {o : JObj} {d : Str} (ht : st.treeOf u = some t) (hw : t.winner = some w)
    (hu : isArrayDescriptor u = false) (hd : digestObject H o = .ok d) :
    updateObject H src st u o =
      if d ≠ w.digest then
        .ok ((st.withTree u (t.add (Rev.upd H d w) (some w) true).1).writeObject (Rev.upd H d w) o,
             some (Rev.upd H d w).render)
      else .ok (st, some w.render) := by
  unfold updateObject
  simp only [ht, hw, hu, Bool.false_eq_true, if_false, hd, Bool.false_or, decide_eq_true_eq]

theorem deleteObject_eq (H : Bytes → Str) (st : DState) (u : Str) {t : RevTree} {w : Rev}
    (ht : st.treeOf u = some t) (hw : t.winner = some w) :
    deleteObject H st u =
      if (!w.isDeleted && !w.isResolved) = true then
        .ok (st.withTree u (t.add (Rev.del H w) (some w) true).1, some (Rev.del H w).render)
      else .ok (st, none) := by
  unfold deleteObject
  simp only [ht, hw]

/-- **No clash of the seven-character tails** among the revisions `resolve_as` creates: the child of the
    winner carrying digest `d` and the resolution markers of the leaves are not yet in the tree, and two
    leaves do not share a marker.  (A revision is identified by index, digest and the first seven hex
    characters of the hash of its parent's text; `RevisionTree::add` silently ignores a revision that is
    already present, so without this the marker of a leaf could be swallowed.  All three clauses hold
    unless two different revision texts have the same 28-bit hash prefix.) -/
structure NoTailClash (H : Bytes → Str) (t : RevTree) (d : Str) : Prop where
  upd_fresh : ∀ w, t.winner = some w → ∀ e ∈ t.entries, e.rev ≠ Rev.upd H d w
  res_fresh : ∀ l ∈ t.leafs, ∀ e ∈ t.entries, e.rev ≠ Rev.res H l
  res_inj : ∀ l ∈ t.leafs, ∀ l' ∈ t.leafs, Rev.res H l = Rev.res H l' → l = l'

theorem GoodTree.leaf_canon {t : RevTree} (g : GoodTree t) {l : Rev} (hl : l ∈ t.leafs) : Canonical l := by
  obtain ⟨e, he, h⟩ := ((g.mem_leafs l).mp hl).1
  rw [← h]; exact g.canon e he

theorem GoodTree.leaf_index_le {t : RevTree} (g : GoodTree t) {w l : Rev} (hw : t.winner = some w) (hl : l ∈ t.leafs) :
    l.index ≤ w.index := by
  obtain ⟨hwl, hmax⟩ := (g.winner_iff w).mp hw
  have hll := (g.mem_leafs l).mp hl
  exact C12.index_le_of_not_gt hll.2.1 hwl.2.1 (hmax l hll)

/-- tree level, the kept revision is the current winner: only markers are added -/
theorem resolve_tree_keep {H : Bytes → Str} (hH : HexOut H) {t : RevTree} (g : GoodTree t) {w : Rev}
    (hw : t.winner = some w) {d : Str} (nc : NoTailClash H t d) :
    GoodTree (t.leafs.foldl (markStep H w) t) ∧
    (t.leafs.foldl (markStep H w) t).leafs = [w] ∧
    (t.leafs.foldl (markStep H w) t).winner = some w ∧
    (t.leafs.foldl (markStep H w) t).entries =
      t.entries ++ (t.leafs.filter (fun l => l ≠ w)).map (fun l => ⟨Rev.res H l, some l, true⟩) :=
  C12.markFold_leafs hH g w (g.winner_mem hw) (fun l hl _ => nc.res_fresh l hl) nc.res_inj

/-- tree level, a child of the winner with digest `d` is added first: it becomes the winner, then every
    other leaf gets its marker -/
theorem resolve_tree_child {H : Bytes → Str} (hH : HexOut H) {t : RevTree} (g : GoodTree t) {w : Rev}
    (hw : t.winner = some w) {d : Str} (hd : AlnumStr d) (hdr : d ≠ Rev.RESOLVED) (nc : NoTailClash H t d) :
    (t.add (Rev.upd H d w) (some w) true).1.winner = some (Rev.upd H d w) ∧
    GoodTree ((t.add (Rev.upd H d w) (some w) true).1.leafs.foldl (markStep H (Rev.upd H d w))
      (t.add (Rev.upd H d w) (some w) true).1) ∧
    ((t.add (Rev.upd H d w) (some w) true).1.leafs.foldl (markStep H (Rev.upd H d w))
      (t.add (Rev.upd H d w) (some w) true).1).leafs = [Rev.upd H d w] ∧
    ((t.add (Rev.upd H d w) (some w) true).1.leafs.foldl (markStep H (Rev.upd H d w))
      (t.add (Rev.upd H d w) (some w) true).1).winner = some (Rev.upd H d w) ∧
    (∀ e, e ∈ ((t.add (Rev.upd H d w) (some w) true).1.leafs.foldl (markStep H (Rev.upd H d w))
      (t.add (Rev.upd H d w) (some w) true).1).entries ↔
        e ∈ t.entries ∨ e = ⟨Rev.upd H d w, some w, true⟩ ∨
        ∃ l ∈ t.leafs, l ≠ w ∧ e = ⟨Rev.res H l, some l, true⟩) := by
  have hwc : Canonical w := GoodTree.leaf_canon g (g.winner_mem hw)
  have hmc : Canonical (Rev.upd H d w) := C19.upd_canonical hH d hd w hwc
  have hmr : ¬ (Rev.upd H d w).isResolved = true := by
    simp only [Rev.isResolved, Rev.upd]; exact fun h => hdr (of_decide_eq_true h)
  obtain ⟨g1, hw1, hl1, he1⟩ := C12.add_child_becomes_winner g true hw (nc.upd_fresh w hw) rfl hmc hmr
  have hold : ∀ l ∈ (t.add (Rev.upd H d w) (some w) true).1.leafs, l ≠ Rev.upd H d w → l ∈ t.leafs ∧ l ≠ w := by
    intro l hl hne
    rcases (hl1 l).mp hl with h | h
    · exact absurd h hne
    · exact h
  have hfresh1 : ∀ l ∈ (t.add (Rev.upd H d w) (some w) true).1.leafs, l ≠ Rev.upd H d w →
      ∀ e ∈ (t.add (Rev.upd H d w) (some w) true).1.entries, e.rev ≠ Rev.res H l := by
    intro l hl hne e he
    rw [he1] at he
    rcases List.mem_append.mp he with he | he
    · exact nc.res_fresh l (hold l hl hne).1 e he
    · rw [List.mem_singleton.mp he]
      intro heq
      apply hmr
      show (Rev.upd H d w).isResolved = true
      have heq' : Rev.upd H d w = Rev.res H l := heq
      rw [heq']; exact C12.res_isResolved H l
  have hidx : ∀ l ∈ t.leafs, Rev.res H (Rev.upd H d w) ≠ Rev.res H l := by
    intro l hl heq
    have h1 : (Rev.res H (Rev.upd H d w)).index = (Rev.res H l).index := by rw [heq]
    have h2 := GoodTree.leaf_index_le g hw hl
    simp only [C12.res_index] at h1
    have : (Rev.upd H d w).index = w.index + 1 := rfl
    omega
  have hinj1 : ∀ l ∈ (t.add (Rev.upd H d w) (some w) true).1.leafs,
      ∀ l' ∈ (t.add (Rev.upd H d w) (some w) true).1.leafs, Rev.res H l = Rev.res H l' → l = l' := by
    intro l hl l' hl' heq
    by_cases h1 : l = Rev.upd H d w
    · by_cases h2 : l' = Rev.upd H d w
      · rw [h1, h2]
      · subst h1; exact absurd heq (hidx l' (hold l' hl' h2).1)
    · by_cases h2 : l' = Rev.upd H d w
      · subst h2; exact absurd heq.symm (hidx l (hold l hl h1).1)
      · exact nc.res_inj l (hold l hl h1).1 l' (hold l' hl' h2).1 heq
  obtain ⟨g2, l2, w2, e2⟩ := C12.markFold_leafs hH g1 (Rev.upd H d w) ((hl1 _).mpr (Or.inl rfl)) hfresh1 hinj1
  refine ⟨hw1, g2, l2, w2, ?_⟩
  intro e
  rw [e2, he1]
  simp only [List.mem_append, List.mem_singleton, List.mem_map, List.mem_filter, decide_eq_true_eq, or_assoc]
  constructor
  · rintro (h | h | ⟨l, ⟨hl, hne⟩, rfl⟩)
    · exact Or.inl h
    · exact Or.inr (Or.inl h)
    · exact Or.inr (Or.inr ⟨l, (hold l hl hne).1, (hold l hl hne).2, rfl⟩)
  · rintro (h | h | ⟨l, hl, hne, rfl⟩)
    · exact Or.inl h
    · exact Or.inr (Or.inl h)
    · refine Or.inr (Or.inr ⟨l, ⟨(hl1 l).mpr (Or.inr ⟨hl, hne⟩), ?_⟩, rfl⟩)
      intro heq
      have h2 := GoodTree.leaf_index_le g hw hl
      rw [heq] at h2
      have : (Rev.upd H d w).index = w.index + 1 := rfl
      omega

/-! ### state level -/

/-- the kept revision is the current winner (same digest): nothing is staged, only markers are added -/
theorem resolveAs_keep_eq (H : Bytes → Str) (src : Src) (st : DState) (u : Str) {r w : Rev} {t : RevTree} {o : JObj}
    (hrc : Canonical r) (ht : st.treeOf u = some t) (hl : r ∈ t.leafs) (hconf : 2 ≤ t.leafs.length)
    (hu : isArrayDescriptor u = false) (hbody : readObject src st r = .ok o) (hnd : r.isDeleted = false)
    (hw : t.winner = some w) (hCA : digestObject H o = .ok r.digest) (hdw : r.digest = w.digest) :
    resolveAs H src st u r.render = .ok (st.withTree u (t.leafs.foldl (markStep H w) t), w.render) := by
  rw [resolveAs_plain_unfold H src st u r.render (C19.parse_render r hrc) ht hl hconf hu hbody]
  simp only [hnd, Bool.false_eq_true, if_false]
  rw [updateObject_plain H src st u ht hw hu hCA, if_neg (fun h => h hdw)]
  simp only [finishResolve, ht, hw]

/-- the kept revision differs from the current winner: a child of the winner with the chosen body is
    staged first -/
theorem resolveAs_child_eq (H : Bytes → Str) (src : Src) (st : DState) (u : Str) {r w : Rev} {t : RevTree} {o : JObj}
    (hrc : Canonical r) (ht : st.treeOf u = some t) (hl : r ∈ t.leafs) (hconf : 2 ≤ t.leafs.length)
    (hu : isArrayDescriptor u = false) (hbody : readObject src st r = .ok o) (hnd : r.isDeleted = false)
    (hw : t.winner = some w) (hCA : digestObject H o = .ok r.digest) (hdw : r.digest ≠ w.digest)
    (hw1 : (t.add (Rev.upd H r.digest w) (some w) true).1.winner = some (Rev.upd H r.digest w)) :
    resolveAs H src st u r.render =
      .ok (((st.withTree u (t.add (Rev.upd H r.digest w) (some w) true).1).writeObject (Rev.upd H r.digest w) o).withTree u
            ((t.add (Rev.upd H r.digest w) (some w) true).1.leafs.foldl (markStep H (Rev.upd H r.digest w))
              (t.add (Rev.upd H r.digest w) (some w) true).1),
           (Rev.upd H r.digest w).render) := by
  rw [resolveAs_plain_unfold H src st u r.render (C19.parse_render r hrc) ht hl hconf hu hbody]
  simp only [hnd, Bool.false_eq_true, if_false]
  rw [updateObject_plain H src st u ht hw hu hCA, if_pos hdw]
  simp only [finishResolve, treeOf_writeObject, treeOf_withTree, hw1]

/-- **Resolving a conflict adopts the chosen revision** (plain object, chosen revision not a deletion).
    `t` is the tree of `u`, well-formed, with at least two leaves; `r` is one of them; its body `o` is
    readable and content-addressed (`digest_object o = r.digest`).  Then `resolve_as(u, r)` succeeds and in
    the resulting state the tree of `u` is well-formed, has **exactly one leaf `w1`, which is the winner** and
    is what the call returns; `w1` **carries the chosen body**; it is `r` itself when `r` was already the
    winner, the old winner when that has the same digest, and otherwise the new child
    `upd d w` of the old winner; every other former leaf has a child now: its resolution marker
    (which is never a leaf) or, for the old winner, the new revision; old entries are kept. -/
theorem resolveAs_plain_spec {H : Bytes → Str} (hH : HexOut H) (src : Src) (st : DState) (u : Str) {t : RevTree}
    {r : Rev} {o : JObj} (hu : isArrayDescriptor u = false) (ht : st.treeOf u = some t) (g : GoodTree t)
    (hl : r ∈ t.leafs) (hconf : 2 ≤ t.leafs.length) (hnd : r.isDeleted = false)
    (hbody : readObject src st r = .ok o) (hCA : digestObject H o = .ok r.digest)
    (nc : NoTailClash H t r.digest) :
    ∃ st' t' w1, resolveAs H src st u r.render = .ok (st', w1.render) ∧
      st'.treeOf u = some t' ∧ GoodTree t' ∧ t'.leafs = [w1] ∧ t'.winner = some w1 ∧
      w1.digest = r.digest ∧ readObject src st' w1 = .ok o ∧
      (t.winner = some r → w1 = r) ∧
      (∀ w, t.winner = some w → (r.digest = w.digest ∧ w1 = w) ∨
        (r.digest ≠ w.digest ∧ w1 = Rev.upd H r.digest w ∧ (⟨w1, some w, true⟩ : RtEntry) ∈ t'.entries)) ∧
      (∀ l ∈ t.leafs, l ≠ w1 → t.winner ≠ some l → (⟨Rev.res H l, some l, true⟩ : RtEntry) ∈ t'.entries) ∧
      (∀ l ∈ t.leafs, l ≠ w1 → ∃ e ∈ t'.entries, e.parent = some l) ∧
      (∀ l, Rev.res H l ∉ t'.leafs) ∧
      (∀ e ∈ t.entries, e ∈ t'.entries) ∧
      (∀ x b, readObject src st x = .ok b → readObject src st' x = .ok b) := by
  have hne : t.leafs ≠ [] := by intro h; rw [h] at hconf; simp at hconf
  obtain ⟨w, hw⟩ := g.winner_isSome hne
  have hrc : Canonical r := GoodTree.leaf_canon g hl
  have hrl := (g.mem_leafs r).mp hl
  by_cases hdw : r.digest = w.digest
  · -- the winner already has the chosen content
    obtain ⟨g2, l2, w2, e2⟩ := resolve_tree_keep hH g hw nc
    refine ⟨_, _, w, resolveAs_keep_eq H src st u hrc ht hl hconf hu hbody hnd hw hCA hdw,
      treeOf_withTree _ _ _, g2, l2, w2, hdw.symm, ?_, ?_, ?_, ?_, ?_, ?_, ?_, ?_⟩
    · show readObject src st w = .ok o
      rw [readObject_digest src st hdw.symm]; exact hbody
    · intro h; rw [hw] at h; exact Option.some.inj h
    · intro w' hw'; rw [hw] at hw'; cases hw'; exact Or.inl ⟨hdw, rfl⟩
    · intro l hl' hne' _
      rw [e2]
      exact List.mem_append_right _ (List.mem_map.mpr ⟨l, List.mem_filter.mpr ⟨hl', by simpa using hne'⟩, rfl⟩)
    · intro l hl' hne'
      refine ⟨⟨Rev.res H l, some l, true⟩, ?_, rfl⟩
      rw [e2]
      exact List.mem_append_right _ (List.mem_map.mpr ⟨l, List.mem_filter.mpr ⟨hl', by simpa using hne'⟩, rfl⟩)
    · intro l hmem
      have := ((g2.mem_leafs _).mp hmem).2.1
      exact this (C12.res_isResolved H l)
    · intro e he; rw [e2]; exact List.mem_append_left _ he
    · intro x b hx; exact hx
  · -- a child of the winner with the chosen content is staged
    have hd : AlnumStr r.digest := hrc.1
    have hdr : r.digest ≠ Rev.RESOLVED := by
      have := hrl.2.1
      simpa [Rev.isResolved] using this
    obtain ⟨hw1, g2, l2, w2, e2⟩ := resolve_tree_child hH g hw hd hdr nc
    refine ⟨_, _, Rev.upd H r.digest w,
      resolveAs_child_eq H src st u hrc ht hl hconf hu hbody hnd hw hCA hdw hw1,
      treeOf_withTree _ _ _, g2, l2, w2, rfl, ?_, ?_, ?_, ?_, ?_, ?_, ?_, ?_⟩
    · show readObject src ((st.withTree u _).writeObject (Rev.upd H r.digest w) o) (Rev.upd H r.digest w) = .ok o
      apply readObject_writeObject
      show readObject src st (Rev.upd H r.digest w) = .ok o
      rw [readObject_digest src st (show (Rev.upd H r.digest w).digest = r.digest from rfl)]; exact hbody
    · intro h; rw [hw] at h; cases h; exact absurd rfl hdw
    · intro w' hw'; rw [hw] at hw'; cases hw'
      exact Or.inr ⟨hdw, rfl, (e2 _).mpr (Or.inr (Or.inl rfl))⟩
    · intro l hl' _ hnw
      refine (e2 _).mpr (Or.inr (Or.inr ⟨l, hl', ?_, rfl⟩))
      intro h; exact hnw (by rw [hw, h])
    · intro l hl' _
      by_cases hlw : l = w
      · exact ⟨⟨Rev.upd H r.digest w, some w, true⟩, (e2 _).mpr (Or.inr (Or.inl rfl)), by rw [hlw]⟩
      · exact ⟨⟨Rev.res H l, some l, true⟩, (e2 _).mpr (Or.inr (Or.inr ⟨l, hl', hlw, rfl⟩)), rfl⟩
    · intro l hmem
      have := ((g2.mem_leafs _).mp hmem).2.1
      exact this (C12.res_isResolved H l)
    · intro e he; exact (e2 e).mpr (Or.inl he)
    · intro x b hx
      show readObject src ((st.withTree u _).writeObject (Rev.upd H r.digest w) o) x = .ok b
      exact readObject_writeObject src _ _ _ hx

/-! ### the chosen revision is a deletion -/

theorem readObject_deleted (src : Src) (st : DState) {r : Rev} (h : r.isDeleted = true) :
    readObject src st r = .ok (markerObj "_deleted") := by
  have hd : r.digest = Rev.DELETED := by simpa [Rev.isDeleted] using h
  have he : r.isEmpty = false := by simp [Rev.isEmpty, hd, Rev.DELETED, Rev.EMPTY]
  unfold readObject
  simp [he, h]

/-- a document whose winner is a deletion contributes nothing to `read` -/
theorem readStep_deleted (src : Src) (st : DState) (acc : Res (JObj × Lru Rev (List JVal))) (p : Str × RevTree)
    {w : Rev} (hw : p.2.winner = some w) (hd : w.isDeleted = true) : C12.readStep src st acc p = acc := by
  unfold C12.readStep
  cases acc with
  | ok a => obtain ⟨pool, c⟩ := a; simp only [hw, hd, if_true]
  | err e => rfl
  | panic m => rfl

/-- **Resolving in favour of a deleted leaf**: the call succeeds, the tree has exactly one leaf, the winner,
    and it is a deletion (the old winner when that is a deletion already, otherwise a new deletion on top of
    the old winner), so `read` skips the object (`readStep_deleted`); nothing is staged. -/
theorem resolveAs_deleted_spec {H : Bytes → Str} (hH : HexOut H) (src : Src) (st : DState) (u : Str) {t : RevTree}
    {r : Rev} (hu : isArrayDescriptor u = false) (ht : st.treeOf u = some t) (g : GoodTree t)
    (hl : r ∈ t.leafs) (hconf : 2 ≤ t.leafs.length) (hdel : r.isDeleted = true)
    (nc : NoTailClash H t r.digest) :
    ∃ st' t' w1, resolveAs H src st u r.render = .ok (st', w1.render) ∧
      st'.treeOf u = some t' ∧ GoodTree t' ∧ t'.leafs = [w1] ∧ t'.winner = some w1 ∧
      w1.isDeleted = true ∧ (t.winner = some r → w1 = r) ∧
      (∀ w, t.winner = some w → (w.isDeleted = true ∧ w1 = w) ∨ (w.isDeleted = false ∧ w1 = Rev.del H w)) ∧
      (∀ l ∈ t.leafs, l ≠ w1 → ∃ e ∈ t'.entries, e.parent = some l) ∧
      (∀ e ∈ t.entries, e ∈ t'.entries) ∧ st'.stage = st.stage ∧ st'.acache = st.acache := by
  have hne : t.leafs ≠ [] := by intro h; rw [h] at hconf; simp at hconf
  obtain ⟨w, hw⟩ := g.winner_isSome hne
  have hrc : Canonical r := GoodTree.leaf_canon g hl
  have hdig : r.digest = Rev.DELETED := by simpa [Rev.isDeleted] using hdel
  have hwl := (g.mem_leafs w).mp (g.winner_mem hw)
  have hwr : w.isResolved = false := by simpa using hwl.2.1
  have hunf := resolveAs_plain_unfold H src st u r.render (C19.parse_render r hrc) ht hl hconf hu
    (readObject_deleted src st hdel)
  simp only [hdel, if_true] at hunf
  rw [deleteObject_eq H st u ht hw] at hunf
  by_cases hwd : w.isDeleted = true
  · obtain ⟨g2, l2, w2, e2⟩ := resolve_tree_keep hH g hw nc
    have : resolveAs H src st u r.render = .ok (st.withTree u (t.leafs.foldl (markStep H w) t), w.render) := by
      rw [hunf]; simp only [hwd, hwr, Bool.not_true, Bool.false_and, Bool.false_eq_true, if_false, finishResolve, ht, hw]
    refine ⟨_, _, w, this, treeOf_withTree _ _ _, g2, l2, w2, hwd, ?_, ?_, ?_, ?_, rfl, rfl⟩
    · intro h; rw [hw] at h; exact Option.some.inj h
    · intro w' hw'; rw [hw] at hw'; cases hw'; exact Or.inl ⟨hwd, rfl⟩
    · intro l hl' hne'
      refine ⟨⟨Rev.res H l, some l, true⟩, ?_, rfl⟩
      rw [e2]
      exact List.mem_append_right _ (List.mem_map.mpr ⟨l, List.mem_filter.mpr ⟨hl', by simpa using hne'⟩, rfl⟩)
    · intro e he; rw [e2]; exact List.mem_append_left _ he
  · have hwd' : w.isDeleted = false := by simpa using hwd
    have hdel_eq : Rev.del H w = Rev.upd H r.digest w := by rw [hdig]; rfl
    have hdr : r.digest ≠ Rev.RESOLVED := by rw [hdig]; decide
    obtain ⟨hw1, g2, l2, w2, e2⟩ := resolve_tree_child hH g hw hrc.1 hdr nc
    rw [← hdel_eq] at hw1 g2 l2 w2 e2
    have : resolveAs H src st u r.render =
        .ok ((st.withTree u (t.add (Rev.del H w) (some w) true).1).withTree u
              ((t.add (Rev.del H w) (some w) true).1.leafs.foldl (markStep H (Rev.del H w))
                (t.add (Rev.del H w) (some w) true).1), (Rev.del H w).render) := by
      rw [hunf]
      simp only [hwd', hwr, Bool.not_false, Bool.and_self, if_true, finishResolve, treeOf_withTree, hw1]
    refine ⟨_, _, Rev.del H w, this, treeOf_withTree _ _ _, g2, l2, w2, rfl, ?_, ?_, ?_, ?_, rfl, rfl⟩
    · intro h; rw [hw] at h; cases h; rw [hdel] at hwd'; cases hwd'
    · intro w' hw'; rw [hw] at hw'; cases hw'; exact Or.inr ⟨hwd', rfl⟩
    · intro l hl' _
      by_cases hlw : l = w
      · exact ⟨⟨Rev.del H w, some w, true⟩, (e2 _).mpr (Or.inr (Or.inl rfl)), by rw [hlw]⟩
      · exact ⟨⟨Rev.res H l, some l, true⟩, (e2 _).mpr (Or.inr (Or.inr ⟨l, hl', hlw, rfl⟩)), rfl⟩
    · intro e he; exact (e2 e).mpr (Or.inl he)

/-! ## 8. resolving in favour of the current winner does not change the visible document -/

theorem all₂_setTree {docs : List (Str × RevTree)} (hs : C15.DocsSorted docs) {u : Str} {t t2 : RevTree}
    (hf : (docs.find? (fun p => p.1 = u)).map (·.2) = some t) (hobs : C12.DocObs (u, t) (u, t2)) :
    C12.All₂ C12.DocObs docs (setTree docs u t2) := by
  induction docs with
  | nil => simp at hf
  | cons x rest ih =>
    obtain ⟨k, y⟩ := x
    obtain ⟨h1, h2⟩ := List.pairwise_cons.mp hs
    unfold setTree
    by_cases hk : k = u
    · rw [if_pos hk]
      rw [List.find?_cons] at hf
      simp only [hk, decide_true, Option.map_some, Option.some.injEq] at hf
      rw [hk, hf]
      exact .cons hobs (C12.forall₂_refl C12.DocObs.refl _)
    · rw [if_neg hk]
      rw [List.find?_cons] at hf
      simp only [hk, decide_false] at hf
      have hlt : strLt u k = false := by
        cases hfind : rest.find? (fun p => p.1 = u) with
        | none => rw [hfind] at hf; cases hf
        | some p =>
          have hp := List.mem_of_find?_eq_some hfind
          have hpu : p.1 = u := by simpa using List.find?_some hfind
          have := h1 p hp
          simp only [hpu] at this
          exact C05.strLt_asymm k u this
      rw [if_neg (by rw [hlt]; simp)]
      exact .cons (C12.DocObs.refl _) (ih h2 hf)

/-- **Resolving a plain-object conflict in favour of the current winner leaves the visible document
    alone**: the winner stays (its digest is the digest of the body that is written back, so `update_object`
    adds nothing), only resolution markers are added below the other leaves, nothing is staged, and `read`
    returns exactly what it returned before. -/
theorem resolve_winner_read_unchanged {H : Bytes → Str} (hH : HexOut H) (src : Src) (st : DState) (u : Str)
    {t : RevTree} {r : Rev} {o : JObj} (hu : isArrayDescriptor u = false) (hs : C15.DocsSorted st.p.docs)
    (ht : st.treeOf u = some t) (g : GoodTree t) (hw : t.winner = some r) (hconf : 2 ≤ t.leafs.length)
    (hnd : r.isDeleted = false) (hbody : readObject src st r = .ok o) (hCA : digestObject H o = .ok r.digest)
    (nc : NoTailClash H t r.digest) :
    ∃ st' t', resolveAs H src st u r.render = .ok (st', r.render) ∧ read src st' = read src st ∧
      st'.treeOf u = some t' ∧ t'.leafs = [r] ∧ t'.winner = some r ∧
      st'.stage = st.stage ∧ st'.acache = st.acache := by
  have hl : r ∈ t.leafs := g.winner_mem hw
  have hrc : Canonical r := GoodTree.leaf_canon g hl
  obtain ⟨_, l2, w2, _⟩ := resolve_tree_keep hH g hw nc
  refine ⟨_, _, resolveAs_keep_eq H src st u hrc ht hl hconf hu hbody hnd hw hCA rfl, ?_,
    treeOf_withTree _ _ _, l2, w2, rfl, rfl⟩
  symm
  refine C12.read_congr (src := src) (src' := src) (st := st) (st' := st.withTree u _) ?_ rfl (fun _ => rfl)
  show C12.All₂ C12.DocObs st.p.docs (setTree st.p.docs u _)
  apply all₂_setTree hs ht
  exact ⟨rfl, by rw [hw, w2], fun h => by rw [hu] at h; cases h⟩

/-! ## non-vacuity -/

open C12 (exH exH_hex x1 x2a x2b x2d exT exTd exT_good exTd_good)

example : exT.leafs = [x2a, x2b] ∧ exT.winner = some x2b := by decide
example : exTd.leafs = [x2a, x2d] ∧ exTd.winner = some x2d := by decide

theorem noTailClash_of_dec {H : Bytes → Str} {t : RevTree} {d : Str} {w : Rev} (hw : t.winner = some w)
    (h1 : ∀ e ∈ t.entries, e.rev ≠ Rev.upd H d w) (h2 : ∀ l ∈ t.leafs, ∀ e ∈ t.entries, e.rev ≠ Rev.res H l)
    (h3 : ∀ l ∈ t.leafs, ∀ l' ∈ t.leafs, Rev.res H l = Rev.res H l' → l = l') : NoTailClash H t d :=
  ⟨fun w' hw' => by rw [hw] at hw'; cases hw'; exact h1, h2, h3⟩

def exU : Str := "doc".toList
def exSt : DState := { p := { docs := [(exU, exT)] } }
def exStd : DState := { p := { docs := [(exU, exTd)] } }
def exSrc : Src := fun _ => none

/-- all hypotheses of `resolveAs_plain_spec` hold: choosing the losing version `x2a` -/
example : isArrayDescriptor exU = false ∧ exSt.treeOf exU = some exT ∧ GoodTree exT ∧ x2a ∈ exT.leafs ∧
    2 ≤ exT.leafs.length ∧ x2a.isDeleted = false ∧
    readObject exSrc exSt x2a = .ok [(HASH_FIELD, .str "bb".toList)] ∧
    digestObject exH [(HASH_FIELD, .str "bb".toList)] = .ok x2a.digest ∧ NoTailClash exH exT x2a.digest :=
  ⟨by decide, rfl, exT_good, by decide, by decide, by decide, rfl, rfl,
   noTailClash_of_dec (w := x2b) (by decide) (by decide) (by decide) (by decide)⟩

/-- all hypotheses of `resolve_winner_read_unchanged` hold: choosing the winning version `x2b` -/
example : C15.DocsSorted exSt.p.docs ∧ exT.winner = some x2b ∧ x2b.isDeleted = false ∧
    readObject exSrc exSt x2b = .ok [(HASH_FIELD, .str "ccc".toList)] ∧
    digestObject exH [(HASH_FIELD, .str "ccc".toList)] = .ok x2b.digest ∧ NoTailClash exH exT x2b.digest :=
  ⟨by simp [C15.DocsSorted, exSt], by decide, by decide, rfl, rfl,
   noTailClash_of_dec (w := x2b) (by decide) (by decide) (by decide) (by decide)⟩

/-- all hypotheses of `resolveAs_deleted_spec` hold: the deletion `x2d` is a leaf of `exTd` -/
example : exStd.treeOf exU = some exTd ∧ GoodTree exTd ∧ x2d ∈ exTd.leafs ∧ 2 ≤ exTd.leafs.length ∧
    x2d.isDeleted = true ∧ NoTailClash exH exTd x2d.digest :=
  ⟨rfl, exTd_good, by decide, by decide, by decide,
   noTailClash_of_dec (w := x2d) (by decide) (by decide) (by decide) (by decide)⟩

/-- what the model computes on the example: the losing version `x2a` is adopted as a new child of the
    old winner `x2b`, which is the only leaf afterwards -/
def leafsAfter (r : Res (DState × Str)) : Option (List Rev × Str) :=
  match r with
  | .ok (s, w) => (s.treeOf exU).map (fun t => (t.leafs, w))
  | _ => none

example : leafsAfter (resolveAs exH exSrc exSt exU x2a.render) =
    some ([Rev.upd exH "bb".toList x2b], (Rev.upd exH "bb".toList x2b).render) := by decide
example : leafsAfter (resolveAs exH exSrc exSt exU x2b.render) = some ([x2b], x2b.render) := by decide
example : leafsAfter (resolveAs exH exSrc exStd exU x2d.render) = some ([x2d], x2d.render) := by decide
example : leafsAfter (resolveAs exH exSrc exStd exU x2a.render) =
    some ([Rev.upd exH "bb".toList x2d], (Rev.upd exH "bb".toList x2d).render) := by decide

/-- the error exits are reachable -/
example : resolveAs exH exSrc exSt "nodoc".toList x2a.render = .err "unknown_document" :=
  (resolveAs_errors_render exH exSrc exSt _ x2a (by decide)).1 rfl
example : resolveAs exH exSrc exSt exU x1.render = .err "invalid_winner_revision" :=
  (resolveAs_errors_render exH exSrc exSt _ x1 (by decide)).2.1 exT rfl (by decide)

end Melda.Props.C07
