/-
  C13 — the commit graph is well formed (status level).
  * `applied_closed` : after `reload`/`refresh` the applied blocks are closed under parents;
  * `Ancestor`, `ancestor_index_lt`, `acyclic` : the parent relation strictly decreases the index, no cycles;
  * `anchors_spec` : `get_anchors` returns exactly the applied blocks no applied block names as parent;
  * `commit_block`, `nextIndex_gt` : after a commit over the current heads, the new block is the one head
    and its index exceeds every parent's.
-/
import Melda.Props.Proto
namespace Melda.Props.C13
open Melda PState Melda.Props.Proto

/-- the state after `reload` / `refresh`: statuses tell the truth and none is `pending`/`ready` -/
def Settled (v : View) (objs : List Str) (ds : Ds) : Prop :=
  Good v objs ds ∧ ∀ p ∈ ds, p.2 = .applied ∨ p.2 = .blocked

/-- every causally complete block has been applied (what `applyReady` after `markValid` achieves) -/
def AllApplied (v : View) (objs : List Str) (ds : Ds) : Prop :=
  ∀ p ∈ ds, Complete v objs p.1.id → p.2 = .applied

/-- `AppliedComplete` is already part of `Good` -/
theorem Settled.appliedComplete {v : View} {objs : List Str} {ds : Ds} (h : Settled v objs ds) :
    ∀ p ∈ ds, p.2 = .applied → Complete v objs p.1.id :=
  fun p hp ha => (h.1.st p hp).1 (Or.inr ha)

/-! ### generic facts about the delta map -/

theorem eq_of_mem_of_id_eq {ds : Ds} (hn : (ds.map (·.1.id)).Nodup) {p q : Block × Status}
    (hp : p ∈ ds) (hq : q ∈ ds) (h : p.1.id = q.1.id) : p = q := by
  have h1 := findDelta_of_mem hn hp
  have h2 := findDelta_of_mem hn hq
  rw [h, h2] at h1
  exact (Option.some.inj h1).symm

/-- a complete block is in the map -/
theorem mem_of_complete {v : View} {objs : List Str} {ds : Ds} (hok : DsOK v ds) {id : BlockId}
    (hc : Complete v objs id) : ∃ p ∈ ds, p.1.id = id := by
  cases hc with
  | mk _ b hid hf _ _ _ => exact hok.closed id b hid hf

/-- parents of a complete block of the map are complete -/
theorem complete_parent {v : View} {objs : List Str} {ds : Ds} (hok : DsOK v ds) {p : Block × Status}
    (hp : p ∈ ds) (hc : Complete v objs p.1.id) : ∀ x ∈ p.1.parents, Complete v objs x :=
  Complete.parents hc p.1 (hok.fetched p hp).1

/-! ### 1. the applied set is ancestor-closed -/

/-- **C13.1** In the state after `reload`/`refresh` every parent of an applied block is in the map and applied. -/
theorem applied_closed {v : View} {objs : List Str} {ds : Ds} (hs : Settled v objs ds)
    (hall : AllApplied v objs ds) :
    ∀ p ∈ ds, p.2 = .applied → ∀ x ∈ p.1.parents, ∃ q ∈ ds, q.1.id = x ∧ q.2 = .applied := by
  intro p hp ha x hx
  have hc := complete_parent hs.1.ok hp (hs.appliedComplete p hp ha) x hx
  obtain ⟨q, hq, hqid⟩ := mem_of_complete hs.1.ok hc
  exact ⟨q, hq, hqid, hall q hq (hqid ▸ hc)⟩

/-! ### 2. acyclicity -/

/-- `Ancestor ds a b`: `a` is a proper ancestor of `b`, following the `parents` of the entries of `ds` -/
inductive Ancestor (ds : Ds) : BlockId → BlockId → Prop
  | parent (p : Block × Status) (a : BlockId) : p ∈ ds → a ∈ p.1.parents → Ancestor ds a p.1.id
  | trans (a b c : BlockId) : Ancestor ds a b → Ancestor ds b c → Ancestor ds a c

/-- the parent relation among entries strictly decreases the index -/
theorem parent_index_lt {v : View} {ds : Ds} (hv : ViewOK v) (hok : DsOK v ds) :
    ∀ p ∈ ds, ∀ a ∈ p.1.parents, a.index < p.1.id.index :=
  fun p hp a ha => hv.parent_lt p.1.id p.1 (hok.fetched p hp).1 a ha

/-- **C13.2a** ancestors have strictly smaller indices -/
theorem ancestor_index_lt {v : View} {ds : Ds} (hv : ViewOK v) (hok : DsOK v ds) {a b : BlockId}
    (h : Ancestor ds a b) : a.index < b.index := by
  induction h with
  | parent p a hp ha => exact parent_index_lt hv hok p hp a ha
  | trans a b c _ _ ih1 ih2 => exact Nat.lt_trans ih1 ih2

/-- **C13.2b** no block is its own ancestor -/
theorem acyclic {v : View} {ds : Ds} (hv : ViewOK v) (hok : DsOK v ds) (a : BlockId) : ¬ Ancestor ds a a :=
  fun h => Nat.lt_irrefl _ (ancestor_index_lt hv hok h)

/-! ### 3. `get_anchors` -/

/-- **C13.3** heads = applied blocks that no applied block names as parent -/
theorem anchors_spec (st : PState) (id : BlockId) :
    id ∈ st.anchors ↔ (∃ p ∈ st.deltas, p.1.id = id ∧ p.2 = .applied) ∧
      ¬ ∃ q ∈ st.deltas, q.2 = .applied ∧ id ∈ q.1.parents := by
  unfold PState.anchors
  simp only [List.mem_filter, List.mem_map, Bool.not_eq_true', List.any_eq_false, decide_eq_true_eq,
    List.contains_iff_mem]
  constructor
  · rintro ⟨⟨p, ⟨hp, ha⟩, rfl⟩, hno⟩
    refine ⟨⟨p, hp, rfl, ha⟩, ?_⟩
    rintro ⟨q, hq, hqa, hmem⟩
    exact hno q ⟨hq, hqa⟩ hmem
  · rintro ⟨⟨p, hp, rfl, ha⟩, hno⟩
    refine ⟨⟨p, ⟨hp, ha⟩, rfl⟩, ?_⟩
    intro q hq hmem
    exact hno ⟨q, hq.1, hq.2, hmem⟩

/-! ### 4. commit -/

theorem foldl_max_le (ps : List BlockId) (m : Nat) : m ≤ ps.foldl (fun m p => max m p.index) m := by
  induction ps generalizing m with
  | nil => exact Nat.le_refl _
  | cons p ps ih => exact Nat.le_trans (Nat.le_max_left _ _) (ih _)

theorem le_foldl_max (ps : List BlockId) (m : Nat) : ∀ p ∈ ps, p.index ≤ ps.foldl (fun m p => max m p.index) m := by
  induction ps generalizing m with
  | nil => intro p hp; cases hp
  | cons q ps ih =>
    intro p hp
    rcases List.mem_cons.mp hp with rfl | hp
    · exact Nat.le_trans (Nat.le_max_right _ _) (foldl_max_le ps _)
    · exact ih _ p hp

/-- **C13.4a** the index of a new block exceeds every parent's -/
theorem nextIndex_gt (ps : List BlockId) : ∀ p ∈ ps, p.index < nextIndex ps :=
  fun p hp => Nat.lt_succ_of_le (le_foldl_max ps 0 p hp)

/-- insertion of an absent identifier adds exactly that entry -/
theorem mem_insertDelta {b : Block} {s : Status} {ds : Ds} (habs : ∀ p ∈ ds, p.1.id ≠ b.id) {q : Block × Status} :
    q ∈ insertDelta b s ds ↔ q = (b, s) ∨ q ∈ ds := by
  induction ds with
  | nil => simp [insertDelta]
  | cons p t ih =>
    have hne : ¬ p.1.id = b.id := habs p (by simp)
    have ih' := ih (fun x hx => habs x (List.mem_cons_of_mem _ hx))
    simp only [insertDelta, hne, if_false]
    split
    · simp
    · simp only [List.mem_cons, ih']
      constructor
      · rintro (h | h | h)
        · exact Or.inr (Or.inl h)
        · exact Or.inl h
        · exact Or.inr (Or.inr h)
      · rintro (h | h | h)
        · exact Or.inr (Or.inl h)
        · exact Or.inl h
        · exact Or.inr (Or.inr h)

/-- **C13.4b** After a commit whose parents are the current heads, the new block is the one and only head.
    Added hypothesis (NOT in the original wording, and necessary: see `commit_block_needs_closed`):
    `hcl` — no applied block of the old state names the new identifier as a parent; this follows from
    `applied_closed` (parents of applied blocks are in the map) and `habs`, see `commit_block'`.
    The hypotheses "all entries applied-or-blocked" and "ids nodup" of the wording are not needed. -/
theorem commit_block (st : PState) (b : Block) (objs : List Str) (pk : Option Str)
    (hpar : ∀ x, x ∈ b.parents ↔ x ∈ st.anchors)
    (habs : ∀ p ∈ st.deltas, p.1.id ≠ b.id)
    (hcl : ∀ q ∈ st.deltas, q.2 = .applied → b.id ∉ q.1.parents) :
    ∀ x, x ∈ (commitBook st b objs pk).anchors ↔ x = b.id := by
  intro x
  have hself : b.id ∉ b.parents := by
    intro h
    obtain ⟨⟨p, hp, hid, _⟩, _⟩ := (anchors_spec st b.id).mp ((hpar _).mp h)
    exact habs p hp hid
  rw [anchors_spec]
  simp only [commitBook]
  constructor
  · rintro ⟨⟨p, hp, hid, ha⟩, hno⟩
    rcases (mem_insertDelta habs).mp hp with rfl | hp
    · exact hid.symm
    · exfalso
      -- `x` is an applied block of the old state; it is not a head there, since `b` names no such `x`
      have hx : x ∉ st.anchors := by
        intro h
        exact hno ⟨(b, .applied), (mem_insertDelta habs).mpr (Or.inl rfl), rfl, (hpar x).mpr h⟩
      apply hx
      rw [anchors_spec]
      refine ⟨⟨p, hp, hid, ha⟩, ?_⟩
      rintro ⟨q, hq, hqa, hmem⟩
      exact hno ⟨q, (mem_insertDelta habs).mpr (Or.inr hq), hqa, hmem⟩
  · rintro rfl
    refine ⟨⟨(b, .applied), (mem_insertDelta habs).mpr (Or.inl rfl), rfl, rfl⟩, ?_⟩
    rintro ⟨q, hq, hqa, hmem⟩
    rcases (mem_insertDelta habs).mp hq with rfl | hq
    · exact hself hmem
    · exact hcl q hq hqa hmem

/-- `commit_block` from a settled, fully applied state (the state a commit starts from) -/
theorem commit_block' {v : View} (st : PState) (b : Block) (objs : List Str) (pk : Option Str)
    (hs : Settled v st.objects st.deltas) (hall : AllApplied v st.objects st.deltas)
    (hpar : ∀ x, x ∈ b.parents ↔ x ∈ st.anchors)
    (hidx : b.id.index = nextIndex b.parents)
    (habs : ∀ p ∈ st.deltas, p.1.id ≠ b.id) :
    (∀ x, x ∈ (commitBook st b objs pk).anchors ↔ x = b.id) ∧ ∀ p ∈ b.parents, p.index < b.id.index := by
  refine ⟨commit_block st b objs pk hpar habs ?_, fun p hp => hidx ▸ nextIndex_gt b.parents p hp⟩
  intro q hq hqa hmem
  obtain ⟨r, hr, hrid, _⟩ := applied_closed hs hall q hq hqa b.id hmem
  exact habs r hr hrid

/-! ### non-vacuity and the counterexample -/

section Examples

def idR : BlockId := ⟨1, ['r']⟩
def idA : BlockId := ⟨2, ['a']⟩
def idB : BlockId := ⟨2, ['b']⟩
def idC : BlockId := ⟨3, ['c']⟩
def blkR : Block := { id := idR, parents := [], packs := [], changes := [] }
def blkA : Block := { id := idA, parents := [idR], packs := [], changes := [] }
def blkB : Block := { id := idB, parents := [idR], packs := [], changes := [] }
def blkC : Block := { id := idC, parents := [idA, idB], packs := [], changes := [] }
/-- root and two children, all applied -/
def ds3 : Ds := [(blkR, .applied), (blkA, .applied), (blkB, .applied)]
def st3 : PState := { deltas := ds3 }
def view3 : View :=
  { blockIds := [idR, idA, idB]
    fetch := fun id => if id = idR then some blkR else if id = idA then some blkA else if id = idB then some blkB else none
    packNames := []
    loadPack := fun _ => none }

example : st3.anchors = [idA, idB] := by decide
example : (commitBook st3 blkC [] none).anchors = [idC] := by decide
example : blkC.id.index = nextIndex blkC.parents := by decide
theorem anchors3 : st3.anchors = [idA, idB] := by decide
example : ∀ x, x ∈ blkC.parents ↔ x ∈ st3.anchors := by intro x; rw [anchors3]; exact Iff.rfl
example : ∀ p ∈ st3.deltas, p.1.id ≠ blkC.id := by decide
example : ∀ q ∈ st3.deltas, q.2 = .applied → blkC.id ∉ q.1.parents := by decide
example : Ancestor ds3 idR idA := Ancestor.parent (blkA, .applied) idR (by simp [ds3]) (by decide)

theorem view3_ok : ViewOK view3 := by
  constructor
  · intro id b h
    simp only [view3] at h
    split at h
    · cases h; simp_all [blkR]
    · split at h
      · cases h; simp_all [blkA]
      · split at h
        · cases h; simp_all [blkB]
        · cases h
  · intro id b h
    simp only [view3] at h
    split at h
    · cases h; simp [blkR]
    · split at h
      · cases h; subst_vars; decide
      · split at h
        · cases h; subst_vars; decide
        · cases h

theorem ds3_ok : DsOK view3 ds3 := by
  refine ⟨?_, by decide, ?_⟩
  · intro p hp
    have : p = (blkR, .applied) ∨ p = (blkA, .applied) ∨ p = (blkB, .applied) := by simpa [ds3] using hp
    rcases this with rfl | rfl | rfl <;> exact ⟨rfl, by decide⟩
  intro id b hid _
  have : id = idR ∨ id = idA ∨ id = idB := by simpa [view3] using hid
  rcases this with rfl | rfl | rfl
  · exact ⟨(blkR, .applied), by simp [ds3], rfl⟩
  · exact ⟨(blkA, .applied), by simp [ds3], rfl⟩
  · exact ⟨(blkB, .applied), by simp [ds3], rfl⟩

theorem completeR : Complete view3 [] idR :=
  Complete.mk idR blkR (by decide) rfl (by intro p hp; cases hp) (by decide) (by decide)
theorem completeA : Complete view3 [] idA :=
  Complete.mk idA blkA (by decide) rfl
    (by intro p hp; have : p = idR := by simpa [blkA] using hp
        subst this; exact completeR) (by decide) (by decide)
theorem completeB : Complete view3 [] idB :=
  Complete.mk idB blkB (by decide) rfl
    (by intro p hp; have : p = idR := by simpa [blkB] using hp
        subst this; exact completeR) (by decide) (by decide)

/-- the hypotheses of `applied_closed` / `commit_block'` are satisfiable -/
theorem settled3 : Settled view3 [] ds3 ∧ AllApplied view3 [] ds3 := by
  have hall : ∀ p ∈ ds3, p.2 = .applied := by
    intro p hp
    have : p = (blkR, .applied) ∨ p = (blkA, .applied) ∨ p = (blkB, .applied) := by simpa [ds3] using hp
    rcases this with rfl | rfl | rfl <;> rfl
  refine ⟨⟨⟨ds3_ok, ?_⟩, fun p hp => Or.inl (hall p hp)⟩, fun p hp _ => hall p hp⟩
  intro p hp
  have : p = (blkR, .applied) ∨ p = (blkA, .applied) ∨ p = (blkB, .applied) := by simpa [ds3] using hp
  rcases this with rfl | rfl | rfl
  · exact ⟨fun _ => completeR, by intro h; cases h⟩
  · exact ⟨fun _ => completeA, by intro h; cases h⟩
  · exact ⟨fun _ => completeB, by intro h; cases h⟩

/-- Without `hcl` the statement of `commit_block` as worded in the task is FALSE: an applied block
    with a dangling parent that happens to be the new identifier leaves no head at all. -/
def blkQ : Block := { id := ⟨1, ['q']⟩, parents := [idA], packs := [], changes := [] }
def blkN : Block := { id := idA, parents := [⟨1, ['q']⟩], packs := [], changes := [] }
def stQ : PState := { deltas := [(blkQ, .applied)] }

theorem commit_block_needs_closed :
    (∀ x, x ∈ blkN.parents ↔ x ∈ stQ.anchors) ∧ blkN.id.index = nextIndex blkN.parents ∧
    (∀ p ∈ stQ.deltas, p.1.id ≠ blkN.id) ∧ (∀ p ∈ stQ.deltas, p.2 = .applied ∨ p.2 = .blocked) ∧
    (stQ.deltas.map (·.1.id)).Nodup ∧
    (commitBook stQ blkN [] none).anchors = [] := by
  refine ⟨?_, by decide, ?_, ?_, by decide, by decide⟩
  · have : stQ.anchors = [⟨1, ['q']⟩] := by decide
    intro x; rw [this]; exact Iff.rfl
  · intro p hp
    have : p = (blkQ, .applied) := by simpa [stQ] using hp
    subst this; decide
  · intro p hp
    have : p = (blkQ, .applied) := by simpa [stQ] using hp
    subst this; exact Or.inl rfl

end Examples

end Melda.Props.C13
