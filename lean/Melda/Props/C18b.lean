/-
  C18, the object-body cache: "the outcome of every operation is independent of ... the configured cache
  capacities".  For the array cache this is `C16b.rebuild_cache_independent`; here the LRU cache of object
  bodies in `DataStorage` (`MELDA_DATA_CACHE_CAP`), which `Doc.readObject` leaves out.

  * `CacheOK H S oc`: every cached body hashes to the digest it is cached under (and lies in the universe
    `S` on which the digest is collision free).  Kept by `get` (`cacheOK_get`), by `put` of a body under its
    own digest whatever is evicted (`cacheOK_put`), hence by `write_object` (`writeObjectC_cacheOK`); it
    does not mention storage or stage, so `unstage`, `reload`, `refresh`, `commit` keep it trivially.
  * `readObjectC_refines`: whenever the read without cache succeeds, the read with ANY cache satisfying
    `CacheOK` - any capacity, any content, any recency order - returns the same body.
  * `readObjectC_independent`: two caches, same answer.
  * `readObjectC_miss`: on a miss the cache is untouched and the answer is the uncached one.
  * `cache_can_mask_missing_body`: the converse fails, and this is the mechanism of the defect D14 - a
    body that is neither stored nor staged can still be served from the cache; the library's dependency
    check therefore must not (and since the repair does not) consult it.
  * `hash_field_breaks_transparency`: without content addressing (two objects claiming one digest through
    the reserved `#` key) the cache is observable - the reason for `CollisionFree` / `StoreOK`.
-/
import Melda.ObjCache
import Melda.Props.C04b
namespace Melda.Props.C18b
open Melda Melda.DState Melda.Props.C04b

/-- every cached body hashes to its key -/
def CacheOK (H : Bytes → Str) (S : JObj → Prop) (oc : OCache) : Prop :=
  ∀ p ∈ oc.items, digestObject H p.2 = .ok p.1 ∧ S p.2

theorem cacheOK_empty (H : Bytes → Str) (S : JObj → Prop) (cap : Nat) : CacheOK H S (Lru.empty cap) := by
  intro p hp; simp [Lru.empty] at hp

theorem cacheOK_get {H : Bytes → Str} {S : JObj → Prop} {oc : OCache} (h : CacheOK H S oc) (d : Str) :
    CacheOK H S (oc.get d).2 := by
  unfold Lru.get
  split
  · exact h
  · next p hf =>
    intro q hq
    simp only [List.mem_cons, List.mem_filter] at hq
    rcases hq with rfl | ⟨hq, _⟩
    · exact h _ (List.mem_of_find?_eq_some hf)
    · exact h q hq

theorem cacheOK_put {H : Bytes → Str} {S : JObj → Prop} {oc : OCache} (h : CacheOK H S oc) {d : Str} {o : JObj}
    (hd : digestObject H o = .ok d) (hS : S o) : CacheOK H S (oc.put d o) := by
  intro q hq
  simp only [Lru.put] at hq
  have hq := List.mem_of_mem_take hq
  simp only [List.mem_cons, List.mem_filter] at hq
  rcases hq with rfl | ⟨hq, _⟩
  · exact ⟨hd, hS⟩
  · exact h q hq

theorem get_some_mem {oc : OCache} {d : Str} {o : JObj} {oc' : OCache} (h : oc.get d = (some o, oc')) :
    (d, o) ∈ oc.items := by
  unfold Lru.get at h
  split at h
  · cases h
  · next p hf =>
    have hk : p.1 = d := by simpa using List.find?_some hf
    have hm := List.mem_of_find?_eq_some hf
    simp only [Prod.mk.injEq, Option.some.injEq] at h
    obtain ⟨rfl, _⟩ := h
    rw [← hk]; exact hm

/-- **`write_object` keeps the cache sound**, whatever it evicts -/
theorem writeObjectC_cacheOK {H : Bytes → Str} {S : JObj → Prop} {st : DState} {oc : OCache}
    (h : CacheOK H S oc) (r : Rev) (o : JObj) (hd : digestObject H o = .ok r.digest) (hS : S o) :
    CacheOK H S (st.writeObjectC oc r o).2 := by
  unfold writeObjectC
  split
  · exact h
  · exact cacheOK_put h hd hS

/-- the state part of `write_object` is the function without cache -/
theorem writeObjectC_state (st : DState) (oc : OCache) (r : Rev) (o : JObj) :
    (st.writeObjectC oc r o).1 = st.writeObject r o := by
  unfold writeObjectC
  split
  · next h => simp [writeObject, h]
  · rfl

/-- **MAIN**: with content-addressed bodies the cache is transparent - whenever the read without cache
    succeeds, the read through any sound cache (any capacity, content, recency) returns the same body -/
theorem readObjectC_refines {H : Bytes → Str} {src : Src} {S : JObj → Prop} {st : DState} {oc : OCache}
    (hS : StoreOK H src S st) (hcf : CollisionFree H S) (hc : CacheOK H S oc) {r : Rev} {o : JObj}
    (h : readObject src st r = .ok o) : (readObjectC src st oc r).1 = .ok o := by
  cases hsp : r.isSpecial with
  | true =>
    simp only [Rev.isSpecial, Bool.or_eq_true] at hsp
    unfold readObject at h
    unfold readObjectC
    by_cases h1 : r.isEmpty = true
    · simp only [h1, if_true] at h ⊢; exact h
    · simp only [h1, Bool.false_eq_true, if_false] at h ⊢
      by_cases h2 : r.isDeleted = true
      · simp only [h2, if_true] at h ⊢; exact h
      · simp only [h2, Bool.false_eq_true, if_false] at h ⊢
        by_cases h3 : r.isResolved = true
        · simp only [h3, if_true] at h ⊢; exact h
        · simp only [h3, Bool.false_eq_true, if_false] at h ⊢
          by_cases h4 : r.isCharcode = true
          · simp only [h4, if_true] at h ⊢; exact h
          · exfalso
            rcases hsp with ((h | h) | h) | h
            · exact h1 h
            · exact h2 h
            · exact h3 h
            · exact h4 h
  | false =>
    have hsp' := hsp
    simp only [Rev.isSpecial, Bool.or_eq_false_iff] at hsp'
    obtain ⟨⟨⟨h1, h2⟩, h3⟩, h4⟩ := hsp'
    unfold readObjectC
    simp only [h1, h2, h3, h4, Bool.false_eq_true, if_false]
    cases hg : oc.get r.digest with
    | mk x oc' =>
      cases x with
      | none => exact h
      | some o' =>
        simp only
        have hm := get_some_mem hg
        obtain ⟨hd', hS'⟩ := hc _ hm
        obtain ⟨hd, hSo⟩ := readObject_digest hS hsp h
        rw [hcf o' o r.digest hS' hSo hd' hd]

/-- **cache independence**: two replicas (or one replica under two values of `MELDA_DATA_CACHE_CAP`)
    whose caches are sound return the same body wherever the uncached read succeeds -/
theorem readObjectC_independent {H : Bytes → Str} {src : Src} {S : JObj → Prop} {st : DState} {oc₁ oc₂ : OCache}
    (hS : StoreOK H src S st) (hcf : CollisionFree H S) (h₁ : CacheOK H S oc₁) (h₂ : CacheOK H S oc₂)
    {r : Rev} {o : JObj} (h : readObject src st r = .ok o) :
    (readObjectC src st oc₁ r).1 = (readObjectC src st oc₂ r).1 := by
  rw [readObjectC_refines hS hcf h₁ h, readObjectC_refines hS hcf h₂ h]

/-- the cache after a read is still sound -/
theorem readObjectC_cacheOK {H : Bytes → Str} {src : Src} {S : JObj → Prop} {st : DState} {oc : OCache}
    (hc : CacheOK H S oc) (r : Rev) : CacheOK H S (readObjectC src st oc r).2 := by
  unfold readObjectC
  repeat (split; exact hc)
  split
  · next o oc' hg => have := cacheOK_get hc r.digest; rw [hg] at this; exact this
  · exact hc

/-- a miss leaves the cache alone (a read never FILLS the cache) and answers like the uncached read -/
theorem readObjectC_miss {src : Src} {st : DState} {oc : OCache} {r : Rev} (hsp : r.isSpecial = false)
    (hm : oc.contains r.digest = false) : readObjectC src st oc r = (readObject src st r, oc) := by
  simp only [Rev.isSpecial, Bool.or_eq_false_iff] at hsp
  obtain ⟨⟨⟨h1, h2⟩, h3⟩, h4⟩ := hsp
  unfold readObjectC
  simp only [h1, h2, h3, h4, Bool.false_eq_true, if_false]
  have : oc.items.find? (fun p => p.1 = r.digest) = none := by
    rw [List.find?_eq_none]
    intro p hp
    simp only [Lru.contains, List.any_eq_false] at hm
    exact hm p hp
  simp [Lru.get, this]

/-! ### What the cache CAN change, and why the dependency check must ignore it (D14) -/

section Examples
def exH : Bytes → Str := fun b => List.replicate 64 (hexDigitLower (b.length % 16))
def exObj : JObj := [(['v'], .num ['1'])]
def exDig : Str := match digestObject exH exObj with | .ok d => d | .error _ => []
def exRev : Rev := Rev.mk1 exDig
def noSrc : Src := fun _ => none

/-- a body that was staged and discarded (`update`, then `unstage`): gone from the stage, still cached -/
def exCache : OCache := ((({} : DState).writeObjectC (Lru.empty 16) exRev exObj).2)

theorem exCache_items : exCache.items = [(exDig, exObj)] := by decide

/-- **the converse of `readObjectC_refines` fails**: the uncached read fails (the body is neither stored nor
    staged) while the cached read succeeds.  A dependency check that asked `read_object` would accept a
    foreign block on the strength of this cache entry - the defect D14; `is_readable_and_valid_revision`
    now looks at the committed index only (`Protocol.changesReadable`). -/
theorem cache_can_mask_missing_body :
    (readObject noSrc {} exRev).toOption = none ∧
    (readObjectC noSrc {} exCache exRev).1.toOption = some exObj ∧
    CacheOK exH (fun _ => True) exCache := by
  refine ⟨by decide, by decide, ?_⟩
  intro p hp
  rw [exCache_items] at hp
  simp only [List.mem_singleton] at hp
  subst hp
  exact ⟨by rfl, trivial⟩

/-- two different objects claiming one digest through the reserved `#` key -/
def kDig : Str := "kkkkkkkkkkkk".toList
def hashA : JObj := [(HASH_FIELD, .str kDig), (['v'], .num ['1'])]
def hashB : JObj := [(HASH_FIELD, .str kDig), (['v'], .num ['2'])]

/-- **without content addressing the cache is observable**: the stage keeps the first body written under
    the digest, the cache the last - a read through the cache returns the second object, a read without
    it (or after a reopen) the first.  `CollisionFree` excludes exactly this (the `#` key is reserved:
    C04's domain `NoHash`, finding D7). -/
theorem hash_field_breaks_transparency :
    let r : Rev := Rev.mk1 kDig
    let s1 := ({} : DState).writeObjectC (Lru.empty 16) r hashA
    let s2 := s1.1.writeObjectC s1.2 r hashB
    (digestObject exH hashA).toOption = some kDig ∧ (digestObject exH hashB).toOption = some kDig ∧
    (readObject noSrc s2.1 r).toOption = some hashA ∧ (readObjectC noSrc s2.1 s2.2 r).1.toOption = some hashB := by
  decide

/-- non-vacuity of `readObjectC_refines`: a staged body, a cache of capacity 1, the sound cache above:
    all reads agree -/
example :
    let st := ({} : DState).writeObject exRev exObj
    (readObject noSrc st exRev).toOption = some exObj ∧
    (readObjectC noSrc st (Lru.empty 1) exRev).1.toOption = some exObj ∧
    (readObjectC noSrc st exCache exRev).1.toOption = some exObj := by decide
end Examples

end Melda.Props.C18b
