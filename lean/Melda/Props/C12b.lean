/-
  C12b — snapshots (C12) and conflict resolution (C07) for FLATTENED ARRAYS, tree level and document level.

  A. `rebuild_spec`, `mergedOrderAt_spec`, `readAt_spec`: `rebuild_array_order` / `get_merged_order_at_revision` /
     `read_object_at_revision` computed (not only "sound if they answer") with a descriptor cache that is SHARED
     by all array documents and keyed by the revision alone: `CacheOK` asks of a cache entry only what concerns
     the tree at hand (C16b's `Sound (TrueOrder …)` for the whole cache is not preserved once two array documents
     with delta descriptors are read one after the other).  `Grows`: which entries an operation may add.
  B. `trueOrder_mono`, `cacheOK_mono`: what a stored version denotes survives later additions.
  1. `snapshot_tree_spec` (one array tree), `snapshot_inv`, `snapshot_read` (document level).
  2. `updateObject_array_fwd`, `resolveAs_array_spec`, `resolveAs_array_deleted` (one array tree).
  3. `autoResolve_inv`, `autoResolve_read_unchanged` (document level).
  Document level machinery: the state invariant `ReadInv`, `readInv_step` (kept by any `TreeStep`),
  `read_sim` (`read` shows the same document in two states linked document by document: `DocLink`).

  Hypotheses beyond the task text (all satisfied together by the replica of section `Ex`):
  * content addressing as in C04b: `StoreOK H src S st`, `CollisionFree H S`, and the descriptors that are
    written belong to `S`;
  * no clash of the seven-character tails: the child of the winner / the resolution markers are not yet recorded
    (`hfresh`, `NoClash`); `N` names the revisions a tree may still receive, no foreign cache entry has such a
    name (`CacheP`), and (`AutoPre`, last clause) the new child of a winner is foreign to the other array trees;
  * `makeDiffPatch (ord w) M ≠ none` (C16 has round-trip, not totality, of `makeDiffPatch`);
  * the document-level theorems are stated for a `read` that succeeded: the equality of the two `read` results
    as values of `Res` is FALSE for the model (`Ex.snapshot_read_eq_false`).
-/
import Melda.Doc
import Melda.Props.C04b
import Melda.Props.C06
import Melda.Props.C07
import Melda.Props.C12
import Melda.Props.C16b
namespace Melda.Props.C12b
open Melda Melda.DState Melda.RevTree
open C05 (KeysNodup WellIndexed Reaches LiveLeaf)
open C19 (Canonical AlnumStr HexOut)
open C12 (GoodTree Closed markStep)
open C16 (Sound sound_get sound_put sound_peek)
open C16b (TrueOrder)

abbrev Cache := Lru Rev (List JVal)

/-! ## A. reconstruction of stored versions with a cache shared between documents -/

/-- the revision is recorded in the tree -/
def InTree (t : RevTree) (r : Rev) : Prop := ∃ e ∈ t.entries, e.rev = r

theorem inTree_iff (t : RevTree) (r : Rev) : t.contains r = true ↔ InTree t r := C05.contains_iff t r

/-- what is required of one cache entry `(r, o)` from the point of view of the tree `t`: if `r` is a
    revision of `t` then `o` is the array it denotes; if it is not (the cache is shared by all documents and
    keyed by the revision alone) then `r` is not one of the revisions `N` that may be added to `t` later -/
def CacheP (N : Rev → Prop) (src : Src) (st : DState) (t : RevTree) : Rev → List JVal → Prop :=
  fun r o => (InTree t r → TrueOrder src st t r o) ∧ (¬ InTree t r → ¬ N r)

abbrev CacheOK (N : Rev → Prop) (src : Src) (st : DState) (t : RevTree) (c : Cache) : Prop :=
  Sound (CacheP N src st t) c

/-- a cache that is sound in the sense of C16b and holds only revisions of the tree is fine -/
theorem cacheOK_of_sound {N : Rev → Prop} {src : Src} {st : DState} {t : RevTree} {c : Cache}
    (h : Sound (TrueOrder src st t) c) (hin : ∀ kv ∈ c.items, InTree t kv.1) : CacheOK N src st t c :=
  fun kv hkv => ⟨fun _ => h kv hkv, fun hn => absurd (hin kv hkv) hn⟩

theorem cacheOK_empty (N : Rev → Prop) (src : Src) (st : DState) (t : RevTree) (cap : Nat) :
    CacheOK N src st t (Lru.empty cap) := C16.sound_empty _ _

/-- the part of the cache that concerns the tree -/
def filterC (t : RevTree) (c : Cache) : Cache := { c with items := c.items.filter (fun p => t.contains p.1) }

variable {N : Rev → Prop} {src : Src} {st : DState} {t : RevTree}

theorem sound_filter {c : Cache} (h : CacheOK N src st t c) : Sound (TrueOrder src st t) (filterC t c) := by
  intro kv hkv
  obtain ⟨h1, h2⟩ := List.mem_filter.mp hkv
  exact (h kv h1).1 ((inTree_iff t kv.1).mp h2)

theorem find_filter_list (l : List (Rev × List JVal)) {k : Rev} (hk : t.contains k = true) :
    (l.filter (fun p => t.contains p.1)).find? (fun p => p.1 = k) = l.find? (fun p => p.1 = k) := by
  induction l with
  | nil => rfl
  | cons x xs ih =>
    rw [List.filter_cons]
    by_cases hx : x.1 = k
    · have hc : t.contains x.1 = true := by rw [hx]; exact hk
      rw [if_pos hc, List.find?_cons, List.find?_cons]
      simp [hx]
    · by_cases hc : t.contains x.1 = true
      · rw [if_pos hc, List.find?_cons, List.find?_cons]
        simp [hx, ih]
      · rw [if_neg hc, List.find?_cons]
        simp [hx, ih]

theorem find_filter (c : Cache) {k : Rev} (hk : t.contains k = true) :
    (c.items.filter (fun p => t.contains p.1)).find? (fun p => p.1 = k) = c.items.find? (fun p => p.1 = k) :=
  find_filter_list c.items hk

theorem peek_filter (c : Cache) {k : Rev} (hk : t.contains k = true) : (filterC t c).peek k = c.peek k := by
  unfold Lru.peek filterC
  simp only [find_filter c hk]

theorem get_filter_fst (c : Cache) {k : Rev} (hk : t.contains k = true) :
    ((filterC t c).get k).1 = (c.get k).1 := by
  unfold Lru.get filterC
  simp only [find_filter c hk]
  cases c.items.find? (fun p => p.1 = k) <;> rfl

theorem getParent_inTree (hcl : Closed t.entries) {r par : Rev} (h : t.getParent r = some par) : InTree t par := by
  obtain ⟨e, he, _, hp⟩ := C16b.getParent_some h
  exact hcl e he par hp

theorem collectChain_filter (hcl : Closed t.entries) (c : Cache) :
    ∀ (fuel : Nat) (cur : Rev) (acc : List (List JVal)),
      collectChain src st t (filterC t c) fuel cur acc = collectChain src st t c fuel cur acc := by
  intro fuel
  induction fuel with
  | zero => intro cur acc; rfl
  | succ n ih =>
    intro cur acc
    simp only [collectChain]
    cases hp : t.getParent cur with
    | none => rfl
    | some par =>
      simp only
      rw [peek_filter c ((inTree_iff t par).mpr (getParent_inTree hcl hp))]
      cases c.peek par with
      | some o => rfl
      | none =>
        simp only
        cases readDesc src st par with
        | panic m => rfl
        | err e => rfl
        | ok d =>
          cases d with
          | inl o => rfl
          | inr p => exact ih par (p :: acc)

/-- the stored descriptor of the revision is a delta -/
def IsDelta (src : Src) (st : DState) (r : Rev) : Prop := ∃ p, readDesc src st r = .ok (.inr p)

/-- **reconstruction with a shared cache**: a revision of the tree that denotes `o` is reconstructed to `o`;
    the cache stays fine; the only entry that may be added is `(base, o)`, and only when `base` is a delta -/
theorem rebuild_spec (hw : WellIndexed t.entries) (hcl : Closed t.entries) {c : Cache} {base : Rev}
    {o : List JVal} (hc : CacheOK N src st t c) (hb : InTree t base) (hto : TrueOrder src st t base o) :
    ∃ c', rebuildOrder src st t c base = .ok (o, c') ∧ CacheOK N src st t c' ∧
      ∀ P : Rev → List JVal → Prop, Sound P c → (IsDelta src st base → P base o) → Sound P c' := by
  have hP : CacheP N src st t base o := ⟨fun _ => hto, fun h => absurd hb h⟩
  suffices h : ∃ c', rebuildOrder src st t c base = .ok (o, c') ∧
      ∀ P : Rev → List JVal → Prop, Sound P c → (IsDelta src st base → P base o) → Sound P c' by
    obtain ⟨c', h1, h2⟩ := h
    exact ⟨c', h1, h2 _ hc (fun _ => hP), h2⟩
  obtain ⟨c0', h0⟩ := C16b.rebuild_complete hw (sound_filter hc) hto
  have hb' : t.contains base = true := (inTree_iff t base).mpr hb
  have hg := get_filter_fst (t := t) c hb'
  unfold rebuildOrder at h0 ⊢
  rcases hget : c.get base with ⟨_ | order, cache'⟩
  · rcases hget0 : (filterC t c).get base with ⟨v0, cache0⟩
    rw [hget0, hget] at hg
    simp only at hg
    subst hg
    rw [hget0] at h0
    simp only at h0 ⊢
    cases hd : readDesc src st base with
    | panic m => rw [hd] at h0; cases h0
    | err e => rw [hd] at h0; cases h0
    | ok d =>
      rw [hd] at h0
      cases d with
      | inl order =>
        simp only at h0 ⊢
        obtain ⟨rfl, _⟩ := Prod.mk.inj (C16b.Res.ok_inj h0)
        exact ⟨c, rfl, fun _ h _ => h⟩
      | inr patch =>
        simp only at h0 ⊢
        rw [collectChain_filter hcl c] at h0
        cases hcc : collectChain src st t c (t.entries.length + 1) base [patch] with
        | panic m => rw [hcc] at h0; cases h0
        | err e => rw [hcc] at h0; cases h0
        | ok x =>
          obtain ⟨start, patches⟩ := x
          rw [hcc] at h0
          simp only at h0 ⊢
          cases hap : applyPatches start patches with
          | panic m => rw [hap] at h0; cases h0
          | err e => rw [hap] at h0; cases h0
          | ok order =>
            rw [hap] at h0
            simp only at h0 ⊢
            obtain ⟨rfl, _⟩ := Prod.mk.inj (C16b.Res.ok_inj h0)
            exact ⟨_, rfl, fun P h hp => sound_put h (hp ⟨patch, hd⟩)⟩
  · rcases hget0 : (filterC t c).get base with ⟨v0, cache0⟩
    rw [hget0, hget] at hg
    simp only at hg
    subst hg
    rw [hget0] at h0
    simp only at h0 ⊢
    obtain ⟨rfl, _⟩ := Prod.mk.inj (C16b.Res.ok_inj h0)
    refine ⟨cache', rfl, fun P h _ => ?_⟩
    have := (sound_get (k := base) h).1
    rw [hget] at this
    exact this

/-- the orders of the listed revisions, through an assignment `ord` -/
theorem mstep_fold_spec (hw : WellIndexed t.entries) (hcl : Closed t.entries) (ord : Rev → List JVal) :
    ∀ (ls : List Rev) (order : List JVal) (c : Cache), CacheOK N src st t c →
      (∀ l ∈ ls, InTree t l ∧ TrueOrder src st t l (ord l)) →
      ∃ c', ls.foldl (C16b.mstep src st t) (.ok (order, c)) = .ok (C06.mergedOrder order (ls.map ord), c') ∧
        CacheOK N src st t c' ∧
        ∀ P : Rev → List JVal → Prop, Sound P c → (∀ l ∈ ls, IsDelta src st l → P l (ord l)) → Sound P c' := by
  intro ls
  induction ls with
  | nil => intro order c hc _; exact ⟨c, rfl, hc, fun _ h _ => h⟩
  | cons l ls ih =>
    intro order c hc hl
    obtain ⟨c1, h1, hc1, hp1⟩ := rebuild_spec hw hcl hc (hl l (by simp)).1 (hl l (by simp)).2
    obtain ⟨c2, h2, hc2, hp2⟩ := ih (mergeArrays (ord l) order) c1 hc1 (fun l' h' => hl l' (List.mem_cons_of_mem _ h'))
    refine ⟨c2, ?_, hc2, fun P h hp => hp2 P (hp1 P h (hp l (by simp))) (fun l' h' => hp l' (List.mem_cons_of_mem _ h'))⟩
    simp only [List.foldl_cons, List.map_cons]
    have : C16b.mstep src st t (.ok (order, c)) l = .ok (mergeArrays (ord l) order, c1) := by
      simp only [C16b.mstep, h1]
    rw [this, h2]
    rfl

/-- **the visible array, computed with a shared cache**: the C06 merge of the order of `base` with the orders
    of the merged leaves -/
theorem mergedOrderAt_spec (hw : WellIndexed t.entries) (hcl : Closed t.entries) (ord : Rev → List JVal)
    {c : Cache} {base : Rev} (hc : CacheOK N src st t c) (hb : InTree t base)
    (hto : TrueOrder src st t base (ord base))
    (hl : ∀ l ∈ C16b.mergeLeafs t, InTree t l ∧ TrueOrder src st t l (ord l)) :
    ∃ c', mergedOrderAt src st t c base =
        .ok (C06.mergedOrder (ord base) ((C16b.mergeLeafs t).map ord), c') ∧ CacheOK N src st t c' ∧
      ∀ P : Rev → List JVal → Prop, Sound P c → (IsDelta src st base → P base (ord base)) →
        (∀ l ∈ C16b.mergeLeafs t, IsDelta src st l → P l (ord l)) → Sound P c' := by
  rw [C16b.mergedOrderAt_eq]
  obtain ⟨c1, h1, hc1, hp1⟩ := rebuild_spec hw hcl hc hb hto
  rw [h1]
  obtain ⟨c2, h2, hc2, hp2⟩ := mstep_fold_spec hw hcl ord (C16b.mergeLeafs t) (ord base) c1 hc1 hl
  exact ⟨c2, h2, hc2, fun P h hpb hpl => hp2 P (hp1 P h hpb) hpl⟩

/-- what `read` shows for an array document: the merge at `base` -/
def visible (ord : Rev → List JVal) (t : RevTree) (base : Rev) : List JVal :=
  C06.mergedOrder (ord base) ((C16b.mergeLeafs t).map ord)

theorem readAt_spec (hw : WellIndexed t.entries) (hcl : Closed t.entries) (ord : Rev → List JVal)
    {u : Str} (hu : isArrayDescriptor u = true) {base : Rev} (hc : CacheOK N src st t st.acache)
    (hb : InTree t base) (hto : TrueOrder src st t base (ord base))
    (hl : ∀ l ∈ C16b.mergeLeafs t, InTree t l ∧ TrueOrder src st t l (ord l)) :
    ∃ c', readAt src st u t base = .ok ([(ORDER_FIELD, .arr (visible ord t base))], c') ∧
      CacheOK N src st t c' ∧
      ∀ P : Rev → List JVal → Prop, Sound P st.acache → (IsDelta src st base → P base (ord base)) →
        (∀ l ∈ C16b.mergeLeafs t, IsDelta src st l → P l (ord l)) → Sound P c' := by
  obtain ⟨c', h, hc', hp⟩ := mergedOrderAt_spec hw hcl ord hc hb hto hl
  refine ⟨c', ?_, hc', hp⟩
  unfold readAt
  rw [if_pos hu, h]
  rfl

/-- how an operation on the tree `t` may change the shared cache: only entries `(l, ord l)` for leaves `l` of
    `t` whose descriptor is a delta are added (entries may be dropped or reordered) -/
def Grows (src : Src) (st : DState) (t : RevTree) (ord : Rev → List JVal) (c c' : Cache) : Prop :=
  ∀ P : Rev → List JVal → Prop, Sound P c → (∀ l ∈ t.leafs, IsDelta src st l → P l (ord l)) → Sound P c'

/-! ## B. what a stored version denotes, across steps -/

theorem trueOrder_congr {src' : Src} {st' : DState} {t' : RevTree}
    (hd : ∀ r, readDesc src st r = readDesc src' st' r) (hp : ∀ r, t.getParent r = t'.getParent r)
    {r : Rev} {o : List JVal} (h : TrueOrder src st t r o) : TrueOrder src' st' t' r o := by
  induction h with
  | full h1 => exact .full (by rw [← hd]; exact h1)
  | delta h1 h2 _ h4 ih => exact .delta (by rw [← hd]; exact h1) (by rw [← hp]; exact h2) ih h4
  | orphan h1 h2 h3 => exact .orphan (by rw [← hd]; exact h1) (by rw [← hp]; exact h2) h3

theorem trueOrder_acache (c : Cache) {r : Rev} {o : List JVal} :
    TrueOrder src { st with acache := c } t r o ↔ TrueOrder src st t r o :=
  ⟨trueOrder_congr (st := { st with acache := c }) (src' := src) (st' := st) (t' := t) (fun _ => rfl) (fun _ => rfl),
   trueOrder_congr (st := st) (src' := src) (st' := { st with acache := c }) (t' := t) (fun _ => rfl) (fun _ => rfl)⟩

theorem cacheOK_acache (c c' : Cache) :
    CacheOK N src { st with acache := c } t c' ↔ CacheOK N src st t c' := by
  constructor
  · intro h kv hkv; exact ⟨fun hi => (trueOrder_acache c).mp ((h kv hkv).1 hi), (h kv hkv).2⟩
  · intro h kv hkv; exact ⟨fun hi => (trueOrder_acache c).mpr ((h kv hkv).1 hi), (h kv hkv).2⟩

theorem getParent_append {t' : RevTree} {l : List RtEntry} (ht : t'.entries = t.entries ++ l) {r : Rev}
    (hr : InTree t r) : t'.getParent r = t.getParent r := by
  unfold getParent
  cases hf : find? t.entries r with
  | none =>
    obtain ⟨e, he, h⟩ := hr
    exact absurd h (C05.find?_none.mp hf e he)
  | some e => rw [ht, C04b.find_append_some hf]

theorem inTree_append {t' : RevTree} {l : List RtEntry} (ht : t'.entries = t.entries ++ l) {r : Rev}
    (hr : InTree t r) : InTree t' r := by
  obtain ⟨e, he, h⟩ := hr
  exact ⟨e, by rw [ht]; exact List.mem_append_left _ he, h⟩

/-- what a revision of the tree denotes is not changed by later additions to the stage and to the tree -/
theorem trueOrder_mono {st' : DState} {t' : RevTree} {l : List RtEntry}
    (hr : ∀ r x, readObject src st r = .ok x → readObject src st' r = .ok x) (hcl : Closed t.entries)
    (ht : t'.entries = t.entries ++ l) {r : Rev} {o : List JVal} (hin : InTree t r)
    (h : TrueOrder src st t r o) : TrueOrder src st' t' r o := by
  induction h with
  | full h1 => exact .full (C04b.readDesc_mono hr h1)
  | delta h1 h2 _ h4 ih =>
    exact .delta (C04b.readDesc_mono hr h1) (by rw [getParent_append ht hin]; exact h2)
      (ih (getParent_inTree hcl h2)) h4
  | orphan h1 h2 h3 =>
    exact .orphan (C04b.readDesc_mono hr h1) (by rw [getParent_append ht hin]; exact h2) h3

/-- one cache entry stays fine when revisions of `N` are appended to the tree -/
theorem cacheP_mono {st' : DState} {t' : RevTree} {l : List RtEntry}
    (hr : ∀ r x, readObject src st r = .ok x → readObject src st' r = .ok x) (hcl : Closed t.entries)
    (ht : t'.entries = t.entries ++ l) (hN : ∀ e ∈ l, N e.rev) {r : Rev} {o : List JVal}
    (h : CacheP N src st t r o) : CacheP N src st' t' r o := by
  obtain ⟨h1, h2⟩ := h
  have key : InTree t' r → InTree t r := by
    rintro ⟨e, he, h⟩
    rw [ht] at he
    rcases List.mem_append.mp he with he | he
    · exact ⟨e, he, h⟩
    · apply Classical.byContradiction
      intro hn
      exact h2 hn (h ▸ hN e he)
  exact ⟨fun hi => trueOrder_mono hr hcl ht (key hi) (h1 (key hi)), fun hn => h2 (fun hi => hn (inTree_append ht hi))⟩

/-- the cache stays fine when revisions of `N` are appended to the tree -/
theorem cacheOK_mono {st' : DState} {t' : RevTree} {l : List RtEntry} {c : Cache}
    (hr : ∀ r x, readObject src st r = .ok x → readObject src st' r = .ok x) (hcl : Closed t.entries)
    (ht : t'.entries = t.entries ++ l) (hN : ∀ e ∈ l, N e.rev) (hc : CacheOK N src st t c) :
    CacheOK N src st' t' c :=
  fun kv hkv => cacheP_mono hr hcl ht hN (hc kv hkv)

theorem readable_of_trueOrder {r : Rev} {o : List JVal} (h : TrueOrder src st t r o) :
    ∃ d, readDesc src st r = .ok d := by
  rcases C16b.trueOrder_readDesc h with h | ⟨p, h⟩
  · exact ⟨_, h⟩
  · exact ⟨_, h⟩

theorem isDelta_back {st' : DState} (hr : ∀ r x, readObject src st r = .ok x → readObject src st' r = .ok x)
    {l : Rev} (hd : ∃ d, readDesc src st l = .ok d) (h : IsDelta src st' l) : IsDelta src st l := by
  obtain ⟨d, hd⟩ := hd
  have h1 := C04b.readDesc_mono hr hd
  obtain ⟨p, hp⟩ := h
  rw [h1] at hp
  have := C16b.Res.ok_inj hp
  subst this
  exact ⟨p, hd⟩

/-! ## C. staging a child of the winner together with its body -/

open C04b (StoreOK CollisionFree NoHash Frame)

theorem digest_order (H : Bytes → Str) (l : List JVal) :
    digestObject H [(ORDER_FIELD, .arr l)] = .ok (H (utf8 (JVal.obj [(ORDER_FIELD, .arr l)]).render)) := rfl

theorem digest_delta (H : Bytes → Str) (l : List JVal) :
    digestObject H [(DELTA_ORDER_FIELD, .arr l)] =
      .ok (H (utf8 (JVal.obj [(DELTA_ORDER_FIELD, .arr l)]).render)) := rfl

/-- the step `add (upd d w) (some w)`, `withTree`, `writeObject` (shared by `update_object` and
    `stage_full_snapshot`) on a well-formed tree -/
theorem child_step {H : Bytes → Str} (hH : HexOut H) {S : JObj → Prop} {u : Str} {w : Rev} {obj : JObj} {d : Str}
    (hS : StoreOK H src S st) (hcf : CollisionFree H S) (g : GoodTree t) (hw : t.winner = some w)
    (hSo : S obj) (hn : NoHash obj) (hd : digestObject H obj = .ok d)
    (hfresh : ∀ e ∈ t.entries, e.rev ≠ Rev.upd H d w) :
    ((st.withTree u (t.add (Rev.upd H d w) (some w) true).1).writeObject (Rev.upd H d w) obj).treeOf u =
        some (t.add (Rev.upd H d w) (some w) true).1 ∧
    GoodTree (t.add (Rev.upd H d w) (some w) true).1 ∧
    (t.add (Rev.upd H d w) (some w) true).1.winner = some (Rev.upd H d w) ∧
    (∀ x, x ∈ (t.add (Rev.upd H d w) (some w) true).1.leafs ↔ x = Rev.upd H d w ∨ (x ∈ t.leafs ∧ x ≠ w)) ∧
    (t.add (Rev.upd H d w) (some w) true).1.entries = t.entries ++ [⟨Rev.upd H d w, some w, true⟩] ∧
    readObject src ((st.withTree u (t.add (Rev.upd H d w) (some w) true).1).writeObject (Rev.upd H d w) obj)
        (Rev.upd H d w) = .ok obj ∧
    Frame H src S st ((st.withTree u (t.add (Rev.upd H d w) (some w) true).1).writeObject (Rev.upd H d w) obj) u := by
  have hf := C04b.faithful_of_noHash hH hn hd
  have hwc : Canonical w := C07.GoodTree.leaf_canon g (g.winner_mem hw)
  have hmc : Canonical (Rev.upd H d w) := C19.upd_canonical hH d hf.1 w hwc
  have hmr := C04b.upd_not_resolved H d w hf.2.2.1
  obtain ⟨g1, hw1, hl1, he1⟩ := C12.add_child_becomes_winner g true hw hfresh rfl hmc hmr
  refine ⟨by rw [C04b.treeOf_writeObject, C04b.treeOf_withTree_self], g1, hw1, hl1, he1, ?_,
    C04b.frame_write hS u _ _ obj hd hSo⟩
  exact C04b.readObject_after_write (C04b.storeOK_withTree hS u _) hcf (Rev.upd H d w) obj hd hSo hf

/-! ## 1. the snapshot step on one array document -/

/-- the body of the loop of `stage_full_snapshot` -/
def snapStep (H : Bytes → Str) (src : Src) (acc : Res DState) (p : Str × RevTree) : Res DState :=
  match acc with
  | .ok st =>
    let u := p.1
    if !isArrayDescriptor u then .ok st
    else match st.treeOf u with
      | none => .ok st
      | some t =>
        match t.winner with
        | none => .err "no_winner"
        | some w =>
          if w.isDeleted then .ok st
          else
            match snapshot.firstDiff src st t.leafs with
            | .panic m => .panic m
            | .err e => .err e
            | .ok false => .ok st
            | .ok true =>
              match readAt src st u t w with
              | .panic m => .panic m
              | .err e => .err e
              | .ok (obj, c) =>
                match digestObject H obj with
                | .error _ => .panic "digest_object"
                | .ok d =>
                  let rev := Rev.upd H d w
                  let (t', _) := t.add rev (some w) true
                  .ok (({ st with acache := c }.withTree u t').writeObject rev obj)
  | e => e

theorem snapshot_eq (H : Bytes → Str) (src : Src) (st : DState) :
    snapshot H src st = st.p.docs.foldl (snapStep H src) (.ok st) := rfl

/-- the scan for a delta descriptor among the leaves: when every leaf has a readable descriptor the answer
    is whether one of them is a delta -/
theorem firstDiff_true (ls : List Rev) (hall : ∀ l ∈ ls, ∃ d, readDesc src st l = .ok d)
    (hex : ∃ l ∈ ls, ∃ p, readDesc src st l = .ok (.inr p)) : snapshot.firstDiff src st ls = .ok true := by
  induction ls with
  | nil => obtain ⟨l, hl, _⟩ := hex; cases hl
  | cons l ls ih =>
    obtain ⟨d, hd⟩ := hall l (by simp)
    unfold snapshot.firstDiff
    rw [hd]
    cases d with
    | inr p => rfl
    | inl o =>
      simp only
      apply ih (fun l' h' => hall l' (List.mem_cons_of_mem _ h'))
      obtain ⟨l', hl', p, hp⟩ := hex
      rcases List.mem_cons.mp hl' with rfl | h
      · rw [hd] at hp; cases hp
      · exact ⟨l', h, p, hp⟩

theorem firstDiff_false (ls : List Rev) (hall : ∀ l ∈ ls, ∃ o, readDesc src st l = .ok (.inl o)) :
    snapshot.firstDiff src st ls = .ok false := by
  induction ls with
  | nil => rfl
  | cons l ls ih =>
    obtain ⟨o, hd⟩ := hall l (by simp)
    unfold snapshot.firstDiff
    rw [hd]
    exact ih (fun l' h' => hall l' (List.mem_cons_of_mem _ h'))

theorem length_gt_one {α : Type} {l : List α} {a b : α} (ha : a ∈ l) (hb : b ∈ l) (hne : a ≠ b) :
    l.length > 1 := by
  cases l with
  | nil => cases ha
  | cons x xs =>
    cases xs with
    | nil =>
      have h1 : a = x := by simpa using ha
      have h2 : b = x := by simpa using hb
      exact absurd (h1.trans h2.symm) hne
    | cons y ys => simp

theorem mergeLeafs_sub {t : RevTree} {l : Rev} (h : l ∈ C16b.mergeLeafs t) : l ∈ t.leafs := by
  unfold C16b.mergeLeafs at h
  split at h
  · exact h
  · cases h

theorem mergeLeafs_of_conflict {t : RevTree} (h : t.leafs.length > 1) : C16b.mergeLeafs t = t.leafs := by
  unfold C16b.mergeLeafs; rw [if_pos h]

/-- order level: after the old winner `w` is replaced among the leaves by a revision `rev` that carries the
    visible array, the visible array (now computed at `rev`) is the same -/
theorem visible_after (ord : Rev → List JVal) {t t' : RevTree} {w rev : Rev} (hwl : w ∈ t.leafs)
    (hl1 : ∀ x, x ∈ t'.leafs ↔ x = rev ∨ (x ∈ t.leafs ∧ x ≠ w)) :
    visible (fun x => if x = rev then visible ord t w else ord x) t' rev = visible ord t w := by
  show C06.mergedOrder (if rev = rev then visible ord t w else ord rev) _ = _
  rw [if_pos rfl]
  apply C12.mergedOrder_absorb
  intro o ho x hx
  obtain ⟨l, hl, rfl⟩ := List.mem_map.mp ho
  by_cases hlr : l = rev
  · rw [if_pos hlr] at hx; exact hx
  · rw [if_neg hlr] at hx
    rcases (hl1 l).mp (mergeLeafs_sub hl) with h | ⟨h1, h2⟩
    · exact absurd h hlr
    · have hm : l ∈ C16b.mergeLeafs t := by
        rw [mergeLeafs_of_conflict (length_gt_one hwl h1 (Ne.symm h2))]; exact h1
      exact C12.visible_contains_all ord (C16b.mergeLeafs t) w l hm x hx

/-- **1. The snapshot step on one array document does not change the visible array.**
    `t` is the tree of the array identifier `u`: well-formed, winner `w` not a deletion; `ord` gives what every
    leaf denotes; some leaf is a delta descriptor; the shared descriptor cache is fine for `t`; no recorded
    revision looks like a child of `w` (tail clash); the body that is written is in the collision-free
    universe `S`.  Then the step of `stage_full_snapshot` for `u` succeeds; it reads the visible array
    `V = visible ord t w`, stages the revision `rev = upd d w` with the FULL descriptor `{"A": V}`, which
    becomes the winner and replaces `w` among the leaves; every old leaf denotes what it denoted; the visible
    array computed at the new winner over the new leaves is `V`, and `read_object_at_revision` returns at the
    new winner exactly the object it returned at the old one.  Frame: other trees, earlier successful reads,
    `StoreOK`, sortedness are kept; the cache stays fine. -/
theorem snapshot_tree_spec {H : Bytes → Str} (hH : HexOut H) {S : JObj → Prop} {u : Str} {w : Rev}
    (ord : Rev → List JVal) (p2 : RevTree)
    (hu : isArrayDescriptor u = true) (ht : st.treeOf u = some t) (g : GoodTree t) (hw : t.winner = some w)
    (hnd : w.isDeleted = false) (hord : ∀ l ∈ t.leafs, TrueOrder src st t l (ord l))
    (hdelta : ∃ l ∈ t.leafs, ∃ p, readDesc src st l = .ok (.inr p))
    (hc : CacheOK N src st t st.acache) (hN : ∀ d, N (Rev.upd H d w))
    (hfresh : ∀ d, ∀ e ∈ t.entries, e.rev ≠ Rev.upd H d w)
    (hS : StoreOK H src S st) (hcf : CollisionFree H S) (hSo : S [(ORDER_FIELD, .arr (visible ord t w))]) :
    ∃ (d : Str) (c c' : Cache) (rev : Rev) (t' : RevTree) (st' : DState),
      rev = Rev.upd H d w ∧ t' = (t.add rev (some w) true).1 ∧
      readAt src st u t w = .ok ([(ORDER_FIELD, .arr (visible ord t w))], c) ∧
      digestObject H [(ORDER_FIELD, .arr (visible ord t w))] = .ok d ∧
      snapStep H src (.ok st) (u, p2) = .ok st' ∧
      st' = ({ st with acache := c }.withTree u t').writeObject rev [(ORDER_FIELD, .arr (visible ord t w))] ∧
      st'.treeOf u = some t' ∧ GoodTree t' ∧ t'.winner = some rev ∧
      (∀ x, x ∈ t'.leafs ↔ x = rev ∨ (x ∈ t.leafs ∧ x ≠ w)) ∧
      t'.entries = t.entries ++ [⟨rev, some w, true⟩] ∧
      readDesc src st' rev = .ok (.inl (visible ord t w)) ∧
      TrueOrder src st' t' rev (visible ord t w) ∧
      (∀ l ∈ t.leafs, TrueOrder src st' t' l (ord l)) ∧
      visible (fun x => if x = rev then visible ord t w else ord x) t' rev = visible ord t w ∧
      readAt src st' u t' rev = .ok ([(ORDER_FIELD, .arr (visible ord t w))], c') ∧
      st'.acache = c ∧ CacheOK N src st' t' c ∧ CacheOK N src st' t' c' ∧
      (∀ u', u' ≠ u → st'.treeOf u' = st.treeOf u') ∧
      (∀ r x, readObject src st r = .ok x → readObject src st' r = .ok x) ∧
      StoreOK H src S st' ∧ (C04b.DocsSorted st.p.docs → C04b.DocsSorted st'.p.docs) ∧
      Grows src st t ord st.acache c := by
  have hwl : w ∈ t.leafs := g.winner_mem hw
  have hin : ∀ l ∈ t.leafs, InTree t l := fun l hl => ((g.mem_leafs l).mp hl).1
  obtain ⟨c, hra, hcc, hgr⟩ := readAt_spec g.widx g.closed ord hu hc (hin w hwl) (hord w hwl)
    (fun l hl => ⟨hin l (mergeLeafs_sub hl), hord l (mergeLeafs_sub hl)⟩)
  have hS0 : StoreOK H src S { st with acache := c } := C04b.storeOK_acache hS c
  obtain ⟨d, hd⟩ : ∃ d, digestObject H [(ORDER_FIELD, .arr (visible ord t w))] = .ok d := ⟨_, digest_order H _⟩
  obtain ⟨a1, g1, hw1, hl1, he1, hrd, fr⟩ := child_step (st := { st with acache := c }) (u := u) hH hS0 hcf g hw hSo
    (C04b.noHash_order _) hd (hfresh d)
  have hreads : ∀ r x, readObject src st r = .ok x → readObject src _ r = .ok x := fun r x h => fr.reads r x h
  have hdesc := C04b.readDesc_of_read hrd (C04b.descOfObject_order _)
  have hold : ∀ l ∈ t.leafs, TrueOrder src _ _ l (ord l) := fun l hl =>
    trueOrder_mono hreads g.closed he1 (hin l hl) (hord l hl)
  have hcc' := cacheOK_mono (N := N) hreads g.closed he1
    (fun e he => by rw [List.mem_singleton.mp he]; exact hN _) hcc
  have hac := fr.acache
  have hrevin : InTree (t.add (Rev.upd H d w) (some w) true).1 (Rev.upd H d w) :=
    ⟨_, by rw [he1]; exact List.mem_append_right _ (List.mem_singleton.mpr rfl), rfl⟩
  obtain ⟨c', hra', hcc'', _⟩ := readAt_spec (N := N) g1.widx g1.closed
    (fun x => if x = Rev.upd H d w then visible ord t w else ord x) hu
    (by rw [hac]; exact hcc') hrevin (by rw [if_pos rfl]; exact .full hdesc)
    (fun l hl => by
      have hl' := mergeLeafs_sub hl
      refine ⟨((g1.mem_leafs l).mp hl').1, ?_⟩
      by_cases hlr : l = Rev.upd H d w
      · rw [if_pos hlr, hlr]; exact .full hdesc
      · rw [if_neg hlr]
        rcases (hl1 l).mp hl' with h | ⟨h, _⟩
        · exact absurd h hlr
        · exact hold l h)
  rw [visible_after ord hwl hl1] at hra'
  refine ⟨d, c, c', _, _, _, rfl, rfl, hra, hd, ?_, rfl, a1, g1, hw1, hl1, he1, hdesc, .full hdesc, hold,
    visible_after ord hwl hl1, hra', hac, hcc', hcc'', fr.other, hreads, fr.store, fr.sorted,
    fun P h hp => hgr P h (hp w hwl) (fun l hl => hp l (mergeLeafs_sub hl))⟩
  have hfd := firstDiff_true (src := src) (st := st) t.leafs
    (fun l hl => by
      rcases C16b.trueOrder_readDesc (hord l hl) with h | ⟨p, h⟩
      · exact ⟨_, h⟩
      · exact ⟨_, h⟩) hdelta
  simp only [snapStep, hu, ht, hw, hnd, hfd, hra, hd]
  rfl

/-! ## 2. `update_object` and `resolve_as` on an array document -/

theorem deltaDescriptor_eq {w : Rev} {M wo patch : List JVal} {c2 : Cache} (hw : t.winner = some w)
    (hrb : rebuildOrder src st t st.acache w = .ok (wo, c2)) (hmp : makeDiffPatch wo M = some patch) :
    deltaDescriptor src st t [(ORDER_FIELD, .arr M)] =
      if w.isDeleted then .ok (some [(ORDER_FIELD, .arr M)], c2)
      else if patch.isEmpty then .ok (none, c2)
      else .ok (some [(DELTA_ORDER_FIELD, .arr patch)], c2) := by
  unfold deltaDescriptor
  simp only [C04b.descOfObject_order, hw, hrb, hmp]

theorem updateObject_array_eq {H : Bytes → Str} {u : Str} {w : Rev} {M wo patch : List JVal} {c2 : Cache}
    {dA dD : Str} (hu : isArrayDescriptor u = true) (ht : st.treeOf u = some t) (hw : t.winner = some w)
    (hrb : rebuildOrder src st t st.acache w = .ok (wo, c2)) (hmp : makeDiffPatch wo M = some patch)
    (hdA : digestObject H [(ORDER_FIELD, .arr M)] = .ok dA)
    (hdD : digestObject H [(DELTA_ORDER_FIELD, .arr patch)] = .ok dD) :
    updateObject H src st u [(ORDER_FIELD, .arr M)] =
      if w.isDeleted then
        .ok ((({ st with acache := c2 } : DState).withTree u (t.add (Rev.upd H dA w) (some w) true).1).writeObject
              (Rev.upd H dA w) [(ORDER_FIELD, .arr M)], some (Rev.upd H dA w).render)
      else if patch.isEmpty then .ok ({ st with acache := c2 }, some w.render)
      else
        .ok ((({ st with acache := c2 } : DState).withTree u (t.add (Rev.upd H dD w) (some w) true).1).writeObject
              (Rev.upd H dD w) [(DELTA_ORDER_FIELD, .arr patch)], some (Rev.upd H dD w).render) := by
  unfold updateObject
  simp only [ht, hw, hu, if_true, deltaDescriptor_eq hw hrb hmp]
  by_cases h1 : w.isDeleted = true
  · simp only [h1, if_true, hdA, Bool.true_or]
  · have h1' : w.isDeleted = false := by simpa using h1
    simp only [h1', Bool.false_eq_true, if_false]
    by_cases h2 : patch.isEmpty = true
    · simp only [h2, if_true]
    · have h2' : patch.isEmpty = false := by simpa using h2
      simp only [h2', Bool.false_eq_true, if_false, hdD, Bool.true_or, if_true]

theorem setTree_setTree (docs : List (Str × RevTree)) (u : Str) (t1 t2 : RevTree) :
    setTree (setTree docs u t1) u t2 = setTree docs u t2 := by
  induction docs with
  | nil => simp [setTree]
  | cons x rest ih =>
    obtain ⟨k, y⟩ := x
    by_cases hk : k = u
    · simp [setTree, hk]
    · by_cases hlt : strLt u k = true
      · simp [setTree, hk, hlt]
      · simp [setTree, hk, hlt, ih]

theorem not_contains_of_fresh {r : Rev} (h : ∀ e ∈ t.entries, e.rev ≠ r) : t.contains r = false := by
  cases hc : t.contains r with
  | false => rfl
  | true =>
    obtain ⟨e, he, h'⟩ := (C05.contains_iff t r).mp hc
    exact absurd h' (h e he)

/-- **`update_object` on an array document, forward**: with the winner `w` denoting `wo`, submitting the
    full descriptor `{"A": M}` succeeds; afterwards the winner `w1` of the tree denotes `M`; `w1` is `w` itself
    when nothing changed (`wo = M`) and otherwise a new child of `w` (a delta descriptor, or a full one after a
    deletion); the tree only grows; the shared cache stays fine; frame. -/
theorem updateObject_array_fwd {H : Bytes → Str} (hH : HexOut H) {S : JObj → Prop} {u : Str} {w : Rev}
    {M wo : List JVal} (hu : isArrayDescriptor u = true) (ht : st.treeOf u = some t) (g : GoodTree t)
    (hw : t.winner = some w) (hwo : TrueOrder src st t w wo) (hc : CacheOK N src st t st.acache)
    (hNw : ∀ d, N (Rev.upd H d w)) (hfresh : ∀ d, ∀ e ∈ t.entries, e.rev ≠ Rev.upd H d w)
    (hS : StoreOK H src S st) (hcf : CollisionFree H S) (hSo : S [(ORDER_FIELD, .arr M)])
    (hSd : ∀ patch, makeDiffPatch wo M = some patch → S [(DELTA_ORDER_FIELD, .arr patch)])
    (hmk : makeDiffPatch wo M ≠ none) :
    ∃ (st1 : DState) (rv : Option Str) (t1 : RevTree) (w1 : Rev) (l : List RtEntry),
      updateObject H src st u [(ORDER_FIELD, .arr M)] = .ok (st1, rv) ∧
      st1.treeOf u = some t1 ∧ GoodTree t1 ∧ t1.winner = some w1 ∧ t1.entries = t.entries ++ l ∧
      ((w1 = w ∧ t1 = t ∧ wo = M ∧ l = []) ∨
        (∃ d, AlnumStr d ∧ d ≠ Rev.RESOLVED ∧ w1 = Rev.upd H d w ∧
          t1 = (t.add (Rev.upd H d w) (some w) true).1 ∧ l = [⟨w1, some w, true⟩])) ∧
      (∀ x ∈ t1.leafs, x = w1 ∨ x ∈ t.leafs) ∧ w1.isDeleted = false ∧
      TrueOrder src st1 t1 w1 M ∧ CacheOK N src st1 t1 st1.acache ∧
      (∀ u', u' ≠ u → st1.treeOf u' = st.treeOf u') ∧
      (∀ r x, readObject src st r = .ok x → readObject src st1 r = .ok x) ∧
      StoreOK H src S st1 ∧ (C04b.DocsSorted st.p.docs → C04b.DocsSorted st1.p.docs) ∧
      (∀ P : Rev → List JVal → Prop, Sound P st.acache → (IsDelta src st w → P w wo) → Sound P st1.acache) ∧
      (∀ t2, setTree st1.p.docs u t2 = setTree st.p.docs u t2) := by
  have hwin : InTree t w := ((g.mem_leafs w).mp (g.winner_mem hw)).1
  obtain ⟨c2, hrb, hc2, hgr2⟩ := rebuild_spec g.widx g.closed hc hwin hwo
  cases hmp : makeDiffPatch wo M with
  | none => exact absurd hmp hmk
  | some patch =>
    have hrt := C16.makeDiffPatch_roundtrip wo M patch hmp
    obtain ⟨dA, hdA⟩ : ∃ d, digestObject H [(ORDER_FIELD, .arr M)] = .ok d := ⟨_, digest_order H M⟩
    obtain ⟨dD, hdD⟩ : ∃ d, digestObject H [(DELTA_ORDER_FIELD, .arr patch)] = .ok d := ⟨_, digest_delta H patch⟩
    rw [updateObject_array_eq hu ht hw hrb hmp hdA hdD]
    have hS2 : StoreOK H src S { st with acache := c2 } := C04b.storeOK_acache hS c2
    by_cases h1 : w.isDeleted = true
    · rw [if_pos h1]
      obtain ⟨a1, g1, hw1, hl1, he1, hrd, fr⟩ := child_step (st := { st with acache := c2 }) (u := u) hH hS2 hcf g hw hSo
        (C04b.noHash_order _) hdA (hfresh dA)
      have hf := C04b.faithful_of_noHash hH (C04b.noHash_order M) hdA
      have hreads : ∀ r x, readObject src st r = .ok x → readObject src _ r = .ok x := fun r x h => fr.reads r x h
      refine ⟨_, _, _, _, _, rfl, a1, g1, hw1, he1, Or.inr ⟨dA, hf.1, hf.2.2.1, rfl, rfl, rfl⟩,
        fun x hx => ((hl1 x).mp hx).imp id (fun h => h.1), decide_eq_false hf.2.1,
        .full (C04b.readDesc_of_read hrd (C04b.descOfObject_order _)), ?_, fr.other, hreads, fr.store, fr.sorted,
        fun P h hp => by rw [fr.acache]; exact hgr2 P h hp,
        fun t2 => by rw [C04b.writeObject_p]; exact setTree_setTree _ _ _ _⟩
      rw [fr.acache]
      exact cacheOK_mono (N := N) hreads g.closed he1
        (fun e he => by rw [List.mem_singleton.mp he]; exact hNw _) hc2
    · rw [if_neg h1]
      by_cases h2 : patch.isEmpty = true
      · rw [if_pos h2]
        have hp : patch = [] := by simpa using h2
        subst hp
        have hEq : wo = M := by
          simp only [applyDiffPatch, PatchRes.ok.injEq] at hrt; exact hrt
        subst hEq
        exact ⟨_, _, t, w, [], rfl, ht, g, hw, by simp, Or.inl ⟨rfl, rfl, rfl, rfl⟩, fun x hx => Or.inr hx,
          by simpa using h1,
          (trueOrder_acache c2).mpr hwo, (cacheOK_acache c2 c2).mpr hc2, fun _ _ => rfl, fun _ _ h => h, hS2, id,
          hgr2, fun _ => rfl⟩
      · rw [if_neg h2]
        obtain ⟨a1, g1, hw1, hl1, he1, hrd, fr⟩ := child_step (st := { st with acache := c2 }) (u := u) hH hS2 hcf g hw
          (hSd patch hmp) (C04b.noHash_delta _) hdD (hfresh dD)
        have hf := C04b.faithful_of_noHash hH (C04b.noHash_delta patch) hdD
        have hreads : ∀ r x, readObject src st r = .ok x → readObject src _ r = .ok x := fun r x h => fr.reads r x h
        refine ⟨_, _, _, _, _, rfl, a1, g1, hw1, he1, Or.inr ⟨dD, hf.1, hf.2.2.1, rfl, rfl, rfl⟩,
          fun x hx => ((hl1 x).mp hx).imp id (fun h => h.1), decide_eq_false hf.2.1, ?_, ?_,
          fr.other, hreads, fr.store, fr.sorted, fun P h hp => by rw [fr.acache]; exact hgr2 P h hp,
          fun t2 => by rw [C04b.writeObject_p]; exact setTree_setTree _ _ _ _⟩
        · refine .delta (C04b.readDesc_of_read hrd (C04b.descOfObject_delta _)) ?_
            (trueOrder_mono hreads g.closed he1 hwin hwo) hrt
          unfold getParent
          exact C04b.getParent_new (not_contains_of_fresh (hfresh dD)) he1
        · rw [fr.acache]
          exact cacheOK_mono (N := N) hreads g.closed he1
            (fun e he => by rw [List.mem_singleton.mp he]; exact hNw _) hc2

/-- the marker loop only appends resolution markers of listed revisions other than the kept one -/
theorem markFold_append (H : Bytes → Str) (w1 : Rev) : ∀ (ls : List Rev) (t : RevTree),
    ∃ l, (ls.foldl (markStep H w1) t).entries = t.entries ++ l ∧
      ∀ e ∈ l, ∃ x ∈ ls, x ≠ w1 ∧ e.rev = Rev.res H x := by
  intro ls
  induction ls with
  | nil => intro t; exact ⟨[], by simp, fun e he => by cases he⟩
  | cons x xs ih =>
    intro t
    simp only [List.foldl_cons]
    obtain ⟨l2, h2, h3⟩ := ih (markStep H w1 t x)
    have hstep : ∃ l1, (markStep H w1 t x).entries = t.entries ++ l1 ∧
        ∀ e ∈ l1, x ≠ w1 ∧ e.rev = Rev.res H x := by
      unfold markStep
      by_cases hx : x = w1
      · exact ⟨[], by simp [hx], fun e he => by cases he⟩
      · rw [if_pos hx, C15.add_entries]
        split
        · exact ⟨[], by simp, fun e he => by cases he⟩
        · exact ⟨[_], rfl, fun e he => by rw [List.mem_singleton.mp he]; exact ⟨hx, rfl⟩⟩
    obtain ⟨l1, h1, h4⟩ := hstep
    refine ⟨l1 ++ l2, by rw [h2, h1, List.append_assoc], ?_⟩
    intro e he
    rcases List.mem_append.mp he with he | he
    · exact ⟨x, by simp, h4 e he⟩
    · obtain ⟨y, hy, h⟩ := h3 e he
      exact ⟨y, List.mem_cons_of_mem _ hy, h⟩

/-- no clash of the seven-character tails among the revisions `resolve_as` may create in `t`
    (`C07.NoTailClash` for every digest: the digest of the delta descriptor is not known beforehand) -/
structure NoClash (H : Bytes → Str) (t : RevTree) : Prop where
  upd_fresh : ∀ w, t.winner = some w → ∀ d, ∀ e ∈ t.entries, e.rev ≠ Rev.upd H d w
  res_fresh : ∀ l ∈ t.leafs, ∀ e ∈ t.entries, e.rev ≠ Rev.res H l
  res_inj : ∀ l ∈ t.leafs, ∀ l' ∈ t.leafs, Rev.res H l = Rev.res H l' → l = l'

theorem NoClash.tail {H : Bytes → Str} {t : RevTree} (nc : NoClash H t) (d : Str) : C07.NoTailClash H t d :=
  ⟨fun w hw => nc.upd_fresh w hw d, nc.res_fresh, nc.res_inj⟩

theorem resolveAs_array_unfold (H : Bytes → Str) (src : Src) (st : DState) (u winner : Str) {r : Rev}
    {t : RevTree} {merged : JObj} {c : Cache} (hp : Rev.parse winner = some r) (ht : st.treeOf u = some t)
    (hl : r ∈ t.leafs) (hconf : 2 ≤ t.leafs.length) (hra : readAt src st u t r = .ok (merged, c))
    (hnd : r.isDeleted = false) :
    resolveAs H src st u winner =
      C07.finishResolve H u (updateObject H src { st with acache := c } u merged) := by
  have h1 : t.leafs.contains r = true := List.contains_iff_mem.mpr hl
  have h2 : ¬ t.leafs.length ≤ 1 := by omega
  unfold resolveAs
  simp only [hp, ht, h1, Bool.not_true, Bool.false_eq_true, if_false, h2, hra, hnd]
  rfl

theorem visible_single (M : List JVal) {t : RevTree} {w : Rev} (h : t.leafs = [w]) :
    visible (fun _ => M) t w = M := by
  unfold visible C16b.mergeLeafs
  rw [h]
  rfl

/-- **2. Resolving an array conflict adopts the merge computed at the chosen revision.**
    `t` is the tree of the array identifier `u`, well-formed, in conflict (at least two leaves), winner `w`;
    `r` is a leaf that is not a deletion; `ord` gives what every leaf denotes.  Then `resolve_as(u, r)` succeeds.
    It reads `M = visible ord t r = mergedOrder (ord r) (leaves' orders)` (the base is the CHOSEN revision) and
    hands `{"A": M}` to `update_object`, which records a child of the current winner `w` (a delta against
    `ord w`; a full descriptor if `w` is a deletion) or nothing at all when `M = ord w`; then every other leaf is
    sealed with a resolution marker.  Afterwards the tree has **exactly one leaf `w1`**, the winner, which
    **denotes `M`**, and `read_object_at_revision` shows `{"A": M}`.  `M` contains every element of every former
    concurrent version and keeps the relative order of the chosen version.  Take `r = w`: the object shown
    before (`readAt … t w`) and after (`readAt … t2 w1`) is the same: the visible array is unchanged. -/
theorem resolveAs_array_spec {H : Bytes → Str} (hH : HexOut H) {S : JObj → Prop} {u : Str} {r w : Rev}
    (ord : Rev → List JVal)
    (hu : isArrayDescriptor u = true) (ht : st.treeOf u = some t) (g : GoodTree t)
    (hl : r ∈ t.leafs) (hconf : 2 ≤ t.leafs.length) (hnd : r.isDeleted = false) (hw : t.winner = some w)
    (hord : ∀ l ∈ t.leafs, TrueOrder src st t l (ord l))
    (hc : CacheOK N src st t st.acache) (hN : ∀ l ∈ t.leafs, ∀ d, N (Rev.upd H d l))
    (nc : NoClash H t)
    (hS : StoreOK H src S st) (hcf : CollisionFree H S) (hSo : S [(ORDER_FIELD, .arr (visible ord t r))])
    (hSd : ∀ patch, makeDiffPatch (ord w) (visible ord t r) = some patch → S [(DELTA_ORDER_FIELD, .arr patch)])
    (hmk : makeDiffPatch (ord w) (visible ord t r) ≠ none) :
    ∃ (st' : DState) (t2 : RevTree) (w1 : Rev) (c c' : Cache),
      resolveAs H src st u r.render = .ok (st', w1.render) ∧
      readAt src st u t r = .ok ([(ORDER_FIELD, .arr (visible ord t r))], c) ∧
      st'.treeOf u = some t2 ∧ GoodTree t2 ∧ t2.leafs = [w1] ∧ t2.winner = some w1 ∧
      TrueOrder src st' t2 w1 (visible ord t r) ∧
      readAt src st' u t2 w1 = .ok ([(ORDER_FIELD, .arr (visible ord t r))], c') ∧
      ((w1 = w ∧ ord w = visible ord t r) ∨ ∃ d, w1 = Rev.upd H d w ∧ (⟨w1, some w, true⟩ : RtEntry) ∈ t2.entries) ∧
      visible ord t r = C06.mergedOrder (ord r) (t.leafs.map ord) ∧
      (∀ l ∈ t.leafs, ∀ x ∈ ord l, x ∈ visible ord t r) ∧ (ord r).Sublist (visible ord t r) ∧
      (∃ l, t2.entries = t.entries ++ l ∧ ∀ e ∈ l, ∃ x ∈ t.leafs, ∃ d, e.rev = Rev.upd H d x) ∧
      w1.isDeleted = false ∧
      CacheOK N src st' t2 st'.acache ∧ CacheOK N src st' t2 c' ∧
      (∀ u', u' ≠ u → st'.treeOf u' = st.treeOf u') ∧
      (∀ r x, readObject src st r = .ok x → readObject src st' r = .ok x) ∧
      StoreOK H src S st' ∧ (C04b.DocsSorted st.p.docs → C04b.DocsSorted st'.p.docs) ∧
      Grows src st t ord st.acache st'.acache ∧ st'.p.docs = setTree st.p.docs u t2 := by
  have hconf' : t.leafs.length > 1 := by omega
  have hwl : w ∈ t.leafs := g.winner_mem hw
  have hin : ∀ l ∈ t.leafs, InTree t l := fun l hl => ((g.mem_leafs l).mp hl).1
  have hrc : Canonical r := C07.GoodTree.leaf_canon g hl
  have hvis : visible ord t r = C06.mergedOrder (ord r) (t.leafs.map ord) := by
    unfold visible; rw [mergeLeafs_of_conflict hconf']
  -- the read at the chosen revision
  obtain ⟨c, hra, hcc, hgr⟩ := readAt_spec g.widx g.closed ord hu hc (hin r hl) (hord r hl)
    (fun l hl => ⟨hin l (mergeLeafs_sub hl), hord l (mergeLeafs_sub hl)⟩)
  rw [resolveAs_array_unfold H src st u r.render (C19.parse_render r hrc) ht hl hconf hra hnd]
  -- `update_object` in the state with the new cache
  obtain ⟨st1, rv, t1, w1, l1, hupd, ht1, g1, hw1, he1, hcase, hleafs1, hdel1, hto1, hc1, hoth1, hreads1, hS1, hsort1, hgr1, hdocs1⟩ :=
    updateObject_array_fwd (N := N) (st := { st with acache := c }) (M := visible ord t r) hH hu ht g hw
      ((trueOrder_acache c).mpr (hord w hwl)) ((cacheOK_acache c c).mpr hcc) (hN w hwl) (nc.upd_fresh w hw)
      (C04b.storeOK_acache hS c) hcf hSo hSd hmk
  rw [hupd]
  simp only [C07.finishResolve, ht1, hw1]
  -- the tree after the marker loop
  have htree : GoodTree (t1.leafs.foldl (markStep H w1) t1) ∧ (t1.leafs.foldl (markStep H w1) t1).leafs = [w1] ∧
      (t1.leafs.foldl (markStep H w1) t1).winner = some w1 := by
    rcases hcase with ⟨rfl, rfl, _, _⟩ | ⟨d, hd, hdr, rfl, rfl, _⟩
    · obtain ⟨a, b, c, _⟩ := C07.resolve_tree_keep hH g hw (nc.tail [])
      exact ⟨a, b, c⟩
    · obtain ⟨_, a, b, c, _⟩ := C07.resolve_tree_child hH g hw hd hdr (nc.tail d)
      exact ⟨a, b, c⟩
  obtain ⟨g2, hl2, hw2⟩ := htree
  obtain ⟨l2, he2, hmark⟩ := markFold_append H w1 t1.leafs t1
  have hw1in : InTree t1 w1 := ((g1.mem_leafs w1).mp (g1.winner_mem hw1)).1
  have hreads2 : ∀ r x, readObject src st r = .ok x →
      readObject src (st1.withTree u (t1.leafs.foldl (markStep H w1) t1)) r = .ok x :=
    fun r x h => hreads1 r x h
  have hto2 : TrueOrder src (st1.withTree u (t1.leafs.foldl (markStep H w1) t1)) (t1.leafs.foldl (markStep H w1) t1) w1
      (visible ord t r) :=
    trueOrder_mono (st := st1) (st' := st1.withTree u (t1.leafs.foldl (markStep H w1) t1)) (fun _ _ h => h)
      g1.closed he2 hw1in hto1
  have hc2 : CacheOK N src (st1.withTree u (t1.leafs.foldl (markStep H w1) t1)) (t1.leafs.foldl (markStep H w1) t1)
      st1.acache := by
    refine cacheOK_mono (st := st1) (st' := st1.withTree u (t1.leafs.foldl (markStep H w1) t1)) (fun _ _ h => h)
      g1.closed he2 ?_ hc1
    intro e he
    obtain ⟨x, hx, hne, hrev⟩ := hmark e he
    rw [hrev]
    rcases hleafs1 x hx with h | h
    · exact absurd h hne
    · exact hN x h _
  obtain ⟨c', hra', hcc', _⟩ := readAt_spec (N := N) (st := st1.withTree u (t1.leafs.foldl (markStep H w1) t1))
    g2.widx g2.closed (fun _ => visible ord t r) hu hc2 (inTree_append he2 hw1in) hto2
    (fun l hl => by
      have := mergeLeafs_sub hl
      unfold C16b.mergeLeafs at hl
      rw [hl2] at hl
      simp at hl)
  rw [visible_single _ hl2] at hra'
  refine ⟨_, _, w1, c, c', rfl, hra, C07.treeOf_withTree _ _ _, g2, hl2, hw2, hto2, hra', ?_, hvis, ?_, ?_, ?_, hdel1, hc2, hcc', ?_,
    hreads2, C04b.storeOK_withTree hS1 u _, ?_, ?_, hdocs1 _⟩
  · rcases hcase with ⟨h1, _, h3, _⟩ | ⟨d, _, _, h1, _, h5⟩
    · exact Or.inl ⟨h1, h3⟩
    · refine Or.inr ⟨d, h1, ?_⟩
      rw [he2, he1, h5]
      simp
  · intro l hl x hx
    rw [hvis]
    exact C12.visible_contains_all ord t.leafs r l hl x hx
  · rw [hvis]; exact C06.sublist_mergedOrder _ _
  · refine ⟨l1 ++ l2, by rw [he2, he1, List.append_assoc], ?_⟩
    intro e he
    rcases List.mem_append.mp he with he | he
    · rcases hcase with ⟨_, _, _, h4⟩ | ⟨d, _, _, h1, _, h5⟩
      · rw [h4] at he; cases he
      · rw [h5] at he
        rw [List.mem_singleton.mp he]
        exact ⟨w, hwl, d, h1⟩
    · obtain ⟨x, hx, hne, hrev⟩ := hmark e he
      rcases hleafs1 x hx with h | h
      · exact absurd h hne
      · exact ⟨x, h, Rev.RESOLVED, hrev⟩
  · intro u' hne
    rw [C04b.treeOf_withTree_other _ _ _ _ hne]
    exact hoth1 u' hne
  · intro hs
    exact C04b.setTree_sorted (hsort1 hs) u _
  · intro P h hp
    exact hgr1 P (hgr P h (hp r hl) (fun l hl => hp l (mergeLeafs_sub hl))) (hp w hwl)

/-! ## 3. document level: the invariant under which arrays are read -/

/-- change the assignment of orders at one identifier -/
def upd1 (ord : Str → Rev → List JVal) (u : Str) (o : Rev → List JVal) : Str → Rev → List JVal :=
  fun u' => if u' = u then o else ord u'

/-- **the state invariant for documents with flattened arrays**: the document map is sorted; every
    array tree is well-formed; `ord u` says what every leaf of the tree of `u` denotes; the descriptor cache,
    which is SHARED by all array documents and keyed by the revision alone, is fine for every array tree, and
    stays so when a delta leaf of one tree is cached (`coherent`: if the same revision occurs in another array
    tree it denotes the same array there, and it is not among the revisions `N` that tree may still receive) -/
structure ReadInv (N : Str → Rev → Prop) (src : Src) (st : DState) (ord : Str → Rev → List JVal) : Prop where
  sorted : C04b.DocsSorted st.p.docs
  good : ∀ p ∈ st.p.docs, isArrayDescriptor p.1 = true → GoodTree p.2
  orders : ∀ p ∈ st.p.docs, isArrayDescriptor p.1 = true → ∀ l ∈ p.2.leafs, TrueOrder src st p.2 l (ord p.1 l)
  coherent : ∀ p ∈ st.p.docs, isArrayDescriptor p.1 = true → ∀ l ∈ p.2.leafs, IsDelta src st l →
    ∀ q ∈ st.p.docs, isArrayDescriptor q.1 = true → CacheP (N q.1) src st q.2 l (ord p.1 l)
  cache : ∀ q ∈ st.p.docs, isArrayDescriptor q.1 = true → CacheOK (N q.1) src st q.2 st.acache

/-- what an operation on the array tree of `u` (a snapshot, a resolution) guarantees -/
structure TreeStep (N : Str → Rev → Prop) (src : Src) (st st' : DState) (u : Str) (t t' : RevTree)
    (o o' : Rev → List JVal) : Prop where
  tree : st'.treeOf u = some t'
  good : GoodTree t'
  entries : ∃ l, t'.entries = t.entries ++ l ∧ ∀ e ∈ l, N u e.rev
  orders : ∀ l ∈ t'.leafs, TrueOrder src st' t' l (o' l)
  leafs : ∀ l ∈ t'.leafs, (l ∈ t.leafs ∧ o' l = o l) ∨
    (IsDelta src st' l → ∀ q ∈ st.p.docs, isArrayDescriptor q.1 = true → q.1 ≠ u →
      CacheP (N q.1) src st' q.2 l (o' l))
  cacheOK : CacheOK (N u) src st' t' st'.acache
  grows : Grows src st t o st.acache st'.acache
  other : ∀ u', u' ≠ u → st'.treeOf u' = st.treeOf u'
  reads : ∀ r x, readObject src st r = .ok x → readObject src st' r = .ok x
  sorted : C04b.DocsSorted st.p.docs → C04b.DocsSorted st'.p.docs

theorem docs_cases {st st' : DState} {u : Str} {t' : RevTree} (hs' : C04b.DocsSorted st'.p.docs)
    (hoth : ∀ u', u' ≠ u → st'.treeOf u' = st.treeOf u') (htree : st'.treeOf u = some t') :
    ∀ q ∈ st'.p.docs, q = (u, t') ∨ (q.1 ≠ u ∧ q ∈ st.p.docs) := by
  intro q hq
  obtain ⟨k, x⟩ := q
  have h := C04b.treeOf_of_mem hs' hq
  by_cases hk : k = u
  · subst hk
    rw [htree] at h
    left; rw [Option.some.inj h]
  · right
    rw [hoth k hk] at h
    exact ⟨hk, C04b.mem_of_treeOf h⟩

theorem leaf_inTree {t : RevTree} (g : GoodTree t) {l : Rev} (hl : l ∈ t.leafs) : InTree t l :=
  ((g.mem_leafs l).mp hl).1

/-- **the invariant is kept by an operation on one array tree** -/
theorem readInv_step {N : Str → Rev → Prop} {src : Src} {st st' : DState} {ord : Str → Rev → List JVal}
    {u : Str} {t t' : RevTree} {o' : Rev → List JVal}
    (inv : ReadInv N src st ord) (hu : isArrayDescriptor u = true) (ht : st.treeOf u = some t)
    (ts : TreeStep N src st st' u t t' (ord u) o') : ReadInv N src st' (upd1 ord u o') := by
  obtain ⟨l0, he, hNl⟩ := ts.entries
  have hmem : (u, t) ∈ st.p.docs := C04b.mem_of_treeOf ht
  have g := inv.good _ hmem hu
  have hs' := ts.sorted inv.sorted
  have hcases := docs_cases hs' ts.other ts.tree
  have hupd_self : upd1 ord u o' u = o' := by simp [upd1]
  have hupd_other : ∀ k, k ≠ u → upd1 ord u o' k = ord k := by intro k hk; simp [upd1, hk]
  have hP : ∀ q' ∈ st'.p.docs, isArrayDescriptor q'.1 = true → ∀ r o,
      (∀ q ∈ st.p.docs, isArrayDescriptor q.1 = true → CacheP (N q.1) src st q.2 r o) →
      CacheP (N q'.1) src st' q'.2 r o := by
    intro q' hq' ha r o hall
    rcases hcases q' hq' with rfl | ⟨hne, hq⟩
    · exact cacheP_mono ts.reads g.closed he hNl (hall _ hmem hu)
    · exact cacheP_mono ts.reads (inv.good _ hq ha).closed (l := []) (by simp) (by simp) (hall _ hq ha)
  refine ⟨hs', ?_, ?_, ?_, ?_⟩
  · intro q hq ha
    rcases hcases q hq with rfl | ⟨_, hq'⟩
    · exact ts.good
    · exact inv.good _ hq' ha
  · intro q hq ha l hl
    rcases hcases q hq with rfl | ⟨hne, hq'⟩
    · rw [hupd_self]; exact ts.orders l hl
    · rw [hupd_other _ hne]
      exact trueOrder_mono ts.reads (inv.good _ hq' ha).closed (l := []) (by simp)
        (leaf_inTree (inv.good _ hq' ha) hl) (inv.orders _ hq' ha l hl)
  · intro p hp hap l hl hdl q' hq' haq'
    rcases hcases p hp with rfl | ⟨hne, hp'⟩
    · rw [hupd_self]
      rcases ts.leafs l hl with ⟨hlt, hoo⟩ | hnew
      · rw [hoo]
        have hd0 : IsDelta src st l :=
          isDelta_back ts.reads (readable_of_trueOrder (inv.orders _ hmem hu l hlt)) hdl
        exact hP q' hq' haq' l _ (inv.coherent _ hmem hu l hlt hd0)
      · rcases hcases q' hq' with rfl | ⟨hne', hq⟩
        · exact ⟨fun _ => ts.orders l hl, fun hn => absurd (leaf_inTree ts.good hl) hn⟩
        · exact hnew hdl q' hq haq' hne'
    · rw [hupd_other _ hne]
      have hd0 : IsDelta src st l :=
        isDelta_back ts.reads (readable_of_trueOrder (inv.orders _ hp' hap l hl)) hdl
      exact hP q' hq' haq' l _ (inv.coherent _ hp' hap l hl hd0)
  · intro q' hq' haq'
    rcases hcases q' hq' with rfl | ⟨hne, hq⟩
    · exact ts.cacheOK
    · have h1 : CacheOK (N q'.1) src st q'.2 st'.acache :=
        ts.grows _ (inv.cache _ hq haq') (fun l hl hd => inv.coherent _ hmem hu l hl hd _ hq haq')
      exact cacheOK_mono ts.reads (inv.good _ hq haq').closed (l := []) (by simp) (by simp) h1

/-! ### `read` under the invariant -/

/-- the cache is fine for every array tree of the state -/
def AllOK (N : Str → Rev → Prop) (src : Src) (st : DState) (c : Cache) : Prop :=
  ∀ q ∈ st.p.docs, isArrayDescriptor q.1 = true → CacheOK (N q.1) src st q.2 c

/-- what `read` gets for an array document -/
theorem readAt_inv {N : Str → Rev → Prop} {src : Src} {st : DState} {ord : Str → Rev → List JVal}
    (inv : ReadInv N src st ord) {p : Str × RevTree} (hp : p ∈ st.p.docs) (ha : isArrayDescriptor p.1 = true)
    {w : Rev} (hw : p.2.winner = some w) (c : Cache) (hc : AllOK N src st c) :
    ∃ c1, readAt src { st with acache := c } p.1 p.2 w =
        .ok ([(ORDER_FIELD, .arr (visible (ord p.1) p.2 w))], c1) ∧ AllOK N src st c1 := by
  have g := inv.good p hp ha
  have hwl : w ∈ p.2.leafs := g.winner_mem hw
  obtain ⟨c1, h1, _, h3⟩ := readAt_spec (N := N p.1) (st := { st with acache := c }) g.widx g.closed (ord p.1) ha
    ((cacheOK_acache c c).mpr (hc p hp ha)) (leaf_inTree g hwl) ((trueOrder_acache c).mpr (inv.orders p hp ha w hwl))
    (fun l hl => ⟨leaf_inTree g (mergeLeafs_sub hl), (trueOrder_acache c).mpr (inv.orders p hp ha l (mergeLeafs_sub hl))⟩)
  refine ⟨c1, h1, ?_⟩
  intro q hq haq
  exact h3 (CacheP (N q.1) src st q.2) (hc q hq haq)
    (fun hd => inv.coherent p hp ha w hwl hd q hq haq)
    (fun l hl hd => inv.coherent p hp ha l (mergeLeafs_sub hl) hd q hq haq)

theorem readAt_plain (src : Src) (s : DState) {u : Str} (hu : isArrayDescriptor u = false) (t : RevTree) (r : Rev) :
    readAt src s u t r = match readObject src s r with
      | .ok o => .ok (o, s.acache)
      | .error _ => .panic "cannot_read_object" := by
  unfold readAt
  simp only [hu, Bool.false_eq_true, if_false]
  cases readObject src s r <;> rfl

/-- the link between a document before and after a maintenance operation: same identifier; for a plain
    object the same winner; for an array the winners are both deletions or both not, and then the visible
    arrays agree -/
def DocLink (ord ord' : Str → Rev → List JVal) (p q : Str × RevTree) : Prop :=
  p.1 = q.1 ∧
  (isArrayDescriptor p.1 = false → q.2.winner = p.2.winner) ∧
  (isArrayDescriptor p.1 = true →
    (p.2.winner = none → q.2.winner = none) ∧
    ∀ w, p.2.winner = some w → ∃ w', q.2.winner = some w' ∧ w'.isDeleted = w.isDeleted ∧
      (w.isDeleted = false → visible (ord' p.1) q.2 w' = visible (ord p.1) p.2 w))

theorem DocLink.refl (ord : Str → Rev → List JVal) (p : Str × RevTree) : DocLink ord ord p p :=
  ⟨rfl, fun _ => rfl, fun _ => ⟨fun h => h, fun w hw => ⟨w, hw, rfl, fun _ => rfl⟩⟩⟩

theorem readStep_sim {N N' : Str → Rev → Prop} {src : Src} {st st' : DState} {ord ord' : Str → Rev → List JVal}
    (inv : ReadInv N src st ord) (inv' : ReadInv N' src st' ord')
    (hreads : ∀ r x, readObject src st r = .ok x → readObject src st' r = .ok x)
    {p q : Str × RevTree} (hp : p ∈ st.p.docs) (hq : q ∈ st'.p.docs) (hl : DocLink ord ord' p q)
    {pool pool1 : JObj} {c c1 c' : Cache} (hc : AllOK N src st c) (hc' : AllOK N' src st' c')
    (h : C12.readStep src st (.ok (pool, c)) p = .ok (pool1, c1)) :
    ∃ c1', C12.readStep src st' (.ok (pool, c')) q = .ok (pool1, c1') ∧ AllOK N src st c1 ∧
      AllOK N' src st' c1' := by
  obtain ⟨hk, hplain, harr⟩ := hl
  unfold C12.readStep at h ⊢
  simp only at h ⊢
  by_cases ha : isArrayDescriptor p.1 = true
  · obtain ⟨hnone, hsome⟩ := harr ha
    cases hw : p.2.winner with
    | none =>
      rw [hw] at h; simp only at h
      rw [hnone hw]
      obtain ⟨rfl, rfl⟩ := Prod.mk.inj (C16b.Res.ok_inj h)
      exact ⟨c', rfl, hc, hc'⟩
    | some w =>
      obtain ⟨w', hw', hdel, hvis⟩ := hsome w hw
      rw [hw] at h; simp only at h
      rw [hw']; simp only
      by_cases hd : w.isDeleted = true
      · rw [if_pos hd] at h
        rw [if_pos (hdel.trans hd)]
        obtain ⟨rfl, rfl⟩ := Prod.mk.inj (C16b.Res.ok_inj h)
        exact ⟨c', rfl, hc, hc'⟩
      · have hd' : w.isDeleted = false := by simpa using hd
        rw [if_neg hd] at h
        rw [if_neg (by rw [hdel]; exact hd)]
        obtain ⟨cx, hra, hcx⟩ := readAt_inv inv hp ha hw c hc
        rw [hra] at h; simp only at h
        obtain ⟨rfl, rfl⟩ := Prod.mk.inj (C16b.Res.ok_inj h)
        obtain ⟨cy, hra', hcy⟩ := readAt_inv inv' hq (hk ▸ ha) hw' c' hc'
        rw [hra', ← hk, hvis hd']
        exact ⟨cy, rfl, hcx, hcy⟩
  · have ha' : isArrayDescriptor p.1 = false := by simpa using ha
    rw [hplain ha']
    cases hw : p.2.winner with
    | none =>
      rw [hw] at h; simp only at h ⊢
      obtain ⟨rfl, rfl⟩ := Prod.mk.inj (C16b.Res.ok_inj h)
      exact ⟨c', rfl, hc, hc'⟩
    | some w =>
      rw [hw] at h; simp only at h ⊢
      by_cases hd : w.isDeleted = true
      · rw [if_pos hd] at h ⊢
        obtain ⟨rfl, rfl⟩ := Prod.mk.inj (C16b.Res.ok_inj h)
        exact ⟨c', rfl, hc, hc'⟩
      · rw [if_neg hd] at h ⊢
        rw [readAt_plain src _ ha'] at h
        rw [readAt_plain src _ (hk ▸ ha')]
        cases hro : readObject src st w with
        | error e =>
          have : readObject src { st with acache := c } w = .error e := hro
          rw [this] at h; cases h
        | ok o =>
          have h1 : readObject src { st with acache := c } w = .ok o := hro
          have h2 : readObject src { st' with acache := c' } w = .ok o := hreads w o hro
          rw [h1] at h; rw [h2]
          simp only at h ⊢
          obtain ⟨rfl, rfl⟩ := Prod.mk.inj (C16b.Res.ok_inj h)
          exact ⟨c', by rw [← hk], hc, hc'⟩

theorem fold_readStep_err (src : Src) (st : DState) (e : String) (l : List (Str × RevTree)) :
    l.foldl (C12.readStep src st) (.err e) = .err e := by
  induction l with
  | nil => rfl
  | cons a l ih => exact ih

theorem fold_readStep_panic (src : Src) (st : DState) (e : String) (l : List (Str × RevTree)) :
    l.foldl (C12.readStep src st) (.panic e) = .panic e := by
  induction l with
  | nil => rfl
  | cons a l ih => exact ih

theorem fold_sim {N N' : Str → Rev → Prop} {src : Src} {st st' : DState} {ord ord' : Str → Rev → List JVal}
    (inv : ReadInv N src st ord) (inv' : ReadInv N' src st' ord')
    (hreads : ∀ r x, readObject src st r = .ok x → readObject src st' r = .ok x)
    {l l' : List (Str × RevTree)} (hl : C12.All₂ (DocLink ord ord') l l') :
    (∀ p ∈ l, p ∈ st.p.docs) → (∀ q ∈ l', q ∈ st'.p.docs) →
    ∀ (pool : JObj) (c c' : Cache), AllOK N src st c → AllOK N' src st' c' →
    ∀ (pool1 : JObj) (c1 : Cache), l.foldl (C12.readStep src st) (.ok (pool, c)) = .ok (pool1, c1) →
      ∃ c1', l'.foldl (C12.readStep src st') (.ok (pool, c')) = .ok (pool1, c1') := by
  induction hl with
  | nil =>
    intro _ _ pool c c' _ _ pool1 c1 h
    obtain ⟨rfl, rfl⟩ := Prod.mk.inj (C16b.Res.ok_inj h)
    exact ⟨c', rfl⟩
  | @cons a b l l' hab _ ih =>
    intro hm hm' pool c c' hc hc' pool1 c1 h
    simp only [List.foldl_cons] at h ⊢
    cases hs : C12.readStep src st (.ok (pool, c)) a with
    | ok x =>
      obtain ⟨pool2, c2⟩ := x
      obtain ⟨c2', hs', hc2, hc2'⟩ := readStep_sim inv inv' hreads (hm a (by simp)) (hm' b (by simp)) hab hc hc' hs
      rw [hs] at h
      rw [hs']
      exact ih (fun p hp => hm p (List.mem_cons_of_mem _ hp)) (fun q hq => hm' q (List.mem_cons_of_mem _ hq))
        pool2 c2 c2' hc2 hc2' pool1 c1 h
    | err e => rw [hs, fold_readStep_err] at h; cases h
    | panic e => rw [hs, fold_readStep_panic] at h; cases h

theorem readFinish_cache {pool : JObj} {c c0 : Cache} {v : JVal}
    (h : C12.readFinish (.ok (pool, c)) = .ok (v, c0)) (c' : Cache) :
    C12.readFinish (.ok (pool, c')) = .ok (v, c') := by
  unfold C12.readFinish at h ⊢
  simp only at h ⊢
  cases hg : objGet ROOT_ID pool with
  | none => rw [hg] at h; cases h
  | some rootObj =>
    rw [hg] at h
    simp only at h ⊢
    cases hu : unflatten (unflattenFuel pool rootObj) pool rootObj with
    | ok a w =>
      rw [hu] at h
      simp only at h ⊢
      cases w with
      | obj o =>
        simp only at h ⊢
        obtain ⟨rfl, _⟩ := Prod.mk.inj (C16b.Res.ok_inj h)
        rfl
      | null => cases h
      | bool b => cases h
      | num n => cases h
      | str s => cases h
      | arr a => cases h
    | panic m => rw [hu] at h; cases h
    | fuel => rw [hu] at h; cases h

theorem keys_isNone_congr {R : Str × RevTree → Str × RevTree → Prop} (hR : ∀ p q, R p q → p.1 = q.1)
    {docs docs' : List (Str × RevTree)} (hd : C12.All₂ R docs docs') (u : Str) :
    (docs.find? (fun p => p.1 = u)).isNone = (docs'.find? (fun p => p.1 = u)).isNone := by
  induction hd with
  | nil => rfl
  | @cons p q _ _ hpq _ ih =>
    simp only [List.find?_cons, ← hR p q hpq]
    by_cases hk : p.1 = u <;> simp [hk, ih]

/-- **`read` shows the same document in two states linked document by document** -/
theorem read_sim {N N' : Str → Rev → Prop} {src : Src} {st st' : DState} {ord ord' : Str → Rev → List JVal}
    (inv : ReadInv N src st ord) (inv' : ReadInv N' src st' ord')
    (hreads : ∀ r x, readObject src st r = .ok x → readObject src st' r = .ok x)
    (hl : C12.All₂ (DocLink ord ord') st.p.docs st'.p.docs) {v : JVal} {c : Cache}
    (h : read src st = .ok (v, c)) : ∃ c', read src st' = .ok (v, c') := by
  rw [C12.read_eq] at h ⊢
  have h1 : (st'.treeOf ROOT_ID).isNone = (st.treeOf ROOT_ID).isNone := by
    unfold treeOf
    simp only [Option.isNone_map]
    exact (keys_isNone_congr (fun p q h => h.1) hl ROOT_ID).symm
  rw [h1]
  by_cases hr : (st.treeOf ROOT_ID).isNone = true
  · rw [if_pos hr] at h; cases h
  · rw [if_neg hr] at h ⊢
    cases hf : st.p.docs.foldl (C12.readStep src st) (.ok ([], st.acache)) with
    | ok x =>
      obtain ⟨pool, cf⟩ := x
      rw [hf] at h
      obtain ⟨cf', hf'⟩ := fold_sim inv inv' hreads hl (fun _ h => h) (fun _ h => h) [] st.acache st'.acache
        inv.cache inv'.cache pool cf hf
      rw [hf']
      exact ⟨cf', by rw [readFinish_cache h cf']⟩
    | err e => rw [hf] at h; cases h
    | panic e => rw [hf] at h; cases h

/-! ### replacing one tree in a linked document map -/

theorem all₂_imp {α : Type} {R R' : α → α → Prop} {l l' : List α} (h : C12.All₂ R l l')
    (himp : ∀ a b, b ∈ l' → R a b → R' a b) : C12.All₂ R' l l' := by
  induction h with
  | nil => exact .nil
  | @cons a b l l' hab _ ih =>
    exact .cons (himp a b (by simp) hab) (ih (fun a' b' hb' => himp a' b' (List.mem_cons_of_mem _ hb')))

theorem all₂_setTree' {R R' : Str × RevTree → Str × RevTree → Prop} {A B : List (Str × RevTree)}
    (hAB : C12.All₂ R A B) (hs : C04b.DocsSorted B) {u : Str} {t t' : RevTree}
    (hf : (B.find? (fun p => p.1 = u)).map (·.2) = some t)
    (h1 : ∀ a, R a (u, t) → R' a (u, t')) (h2 : ∀ a b, R a b → b.1 ≠ u → R' a b) :
    C12.All₂ R' A (setTree B u t') := by
  induction hAB with
  | nil => simp at hf
  | @cons a b A B hab hrest ih =>
    obtain ⟨k, y⟩ := b
    obtain ⟨hlt, hs'⟩ := List.pairwise_cons.mp hs
    unfold setTree
    by_cases hk : k = u
    · rw [if_pos hk]
      rw [List.find?_cons] at hf
      simp only [hk, decide_true, Option.map_some, Option.some.injEq] at hf
      subst hk; subst hf
      refine .cons (h1 a hab) (all₂_imp hrest (fun a' b' hb' hr => h2 a' b' hr ?_))
      intro e
      have := hlt b' hb'
      simp only at this
      rw [e, C04.strLt_irrefl] at this; cases this
    · rw [if_neg hk]
      rw [List.find?_cons] at hf
      simp only [hk, decide_false] at hf
      have hltu : strLt u k = false := by
        cases hfind : B.find? (fun p => p.1 = u) with
        | none => rw [hfind] at hf; cases hf
        | some p =>
          have hp := List.mem_of_find?_eq_some hfind
          have hpu : p.1 = u := by simpa using List.find?_some hfind
          have := hlt p hp
          simp only [hpu] at this
          exact C05.strLt_asymm k u this
      rw [if_neg (by rw [hltu]; simp)]
      exact .cons (h2 a (k, y) hab hk) (ih hs' hf)

/-! ## 1 (document level). `stage_full_snapshot` does not change what `read` shows -/

/-- the snapshot step for one array document, under the state invariant: nothing happens, or an error
    (no winner), or the tree step of `snapshot_tree_spec` -/
theorem snapStep_array {H : Bytes → Str} (hH : HexOut H) {N : Str → Rev → Prop} {S : JObj → Prop} {src : Src}
    {st : DState} {ord : Str → Rev → List JVal} (inv : ReadInv N src st ord) (hS : StoreOK H src S st)
    (hcf : CollisionFree H S) {u : Str} {t : RevTree} (hu : isArrayDescriptor u = true)
    (ht : st.treeOf u = some t)
    (hpre : ∀ w, t.winner = some w → (∀ d, N u (Rev.upd H d w)) ∧
      (∀ d, ∀ e ∈ t.entries, e.rev ≠ Rev.upd H d w) ∧ S [(ORDER_FIELD, .arr (visible (ord u) t w))]) :
    snapStep H src (.ok st) (u, t) = .ok st ∨ (∃ e, snapStep H src (.ok st) (u, t) = .err e) ∨
    ∃ (st1 : DState) (t' : RevTree) (o' : Rev → List JVal) (w rev : Rev),
      snapStep H src (.ok st) (u, t) = .ok st1 ∧ TreeStep N src st st1 u t t' (ord u) o' ∧ StoreOK H src S st1 ∧
      st1.p.docs = setTree st.p.docs u t' ∧
      t.winner = some w ∧ w.isDeleted = false ∧ t'.winner = some rev ∧ rev.isDeleted = false ∧
      visible o' t' rev = visible (ord u) t w := by
  have hmem : (u, t) ∈ st.p.docs := C04b.mem_of_treeOf ht
  have g := inv.good _ hmem hu
  have hord := inv.orders _ hmem hu
  cases hw : t.winner with
  | none =>
    right; left
    exact ⟨_, by simp only [snapStep, hu, ht, hw]; rfl⟩
  | some w =>
    by_cases hd : w.isDeleted = true
    · left
      simp only [snapStep, hu, ht, hw, hd]; rfl
    · have hd' : w.isDeleted = false := by simpa using hd
      by_cases hdelta : ∃ l ∈ t.leafs, IsDelta src st l
      · right; right
        obtain ⟨hN, hfresh, hSo⟩ := hpre w hw
        obtain ⟨d, c, c', rev, t', st1, hrev, ht', hra, hdig, hstep, hst1, a1, g1, hw1, hl1, he1, hdesc, _, hold, hvis, _,
          hac, hcc, _, hoth, hreads, hS1, hsort, hgr⟩ :=
          snapshot_tree_spec (N := N u) hH (ord u) t hu ht g hw hd' hord hdelta (inv.cache _ hmem hu) hN hfresh hS hcf hSo
        have hf := C04b.faithful_of_noHash hH (C04b.noHash_order _) hdig
        have hrevfresh : ¬ InTree t rev := by
          rintro ⟨e, he, h⟩
          exact hfresh d e he (h.trans hrev)
        have hne : ∀ l ∈ t.leafs, l ≠ rev := fun l hl e => hrevfresh (e ▸ leaf_inTree g hl)
        refine ⟨st1, t', fun x => if x = rev then visible (ord u) t w else ord u x, w, rev, hstep, ?_, hS1, ?_, rfl, hd', hw1,
          ?_, hvis⟩
        · refine ⟨a1, g1, ⟨_, he1, fun e he => by rw [List.mem_singleton.mp he, hrev]; exact hN d⟩, ?_, ?_, ?_, ?_, hoth,
            hreads, hsort⟩
          · intro l hl
            rcases (hl1 l).mp hl with rfl | ⟨h, _⟩
            · rw [if_pos rfl]; exact .full hdesc
            · rw [if_neg (hne l h)]; exact hold l h
          · intro l hl
            rcases (hl1 l).mp hl with rfl | ⟨h, _⟩
            · right
              rintro ⟨p, hp⟩
              rw [hdesc] at hp; cases C16b.Res.ok_inj hp
            · left; exact ⟨h, if_neg (hne l h)⟩
          · rw [hac]; exact hcc
          · rw [hac]; exact hgr
        · rw [hst1, C04b.writeObject_p]; rfl
        · rw [hrev]
          simp only [Rev.isDeleted, Rev.upd]
          exact decide_eq_false hf.2.1
      · left
        have hfd : snapshot.firstDiff src st t.leafs = .ok false := by
          apply firstDiff_false
          intro l hl
          rcases C16b.trueOrder_readDesc (hord l hl) with h | ⟨p, h⟩
          · exact ⟨_, h⟩
          · exact absurd ⟨l, hl, p, h⟩ hdelta
        simp only [snapStep, hu, ht, hw, hd', hfd]; rfl

theorem fold_snapStep_err (H : Bytes → Str) (src : Src) (e : String) (l : List (Str × RevTree)) :
    l.foldl (snapStep H src) (.err e) = .err e := by
  induction l with
  | nil => rfl
  | cons a l ih => exact ih

theorem snapStep_plain (H : Bytes → Str) (src : Src) (st : DState) {p : Str × RevTree}
    (hu : isArrayDescriptor p.1 = false) : snapStep H src (.ok st) p = .ok st := by
  simp only [snapStep, hu]; rfl

theorem upd1_self (ord : Str → Rev → List JVal) (u : Str) (o : Rev → List JVal) : upd1 ord u o u = o := by
  simp [upd1]

theorem upd1_other (ord : Str → Rev → List JVal) (u : Str) (o : Rev → List JVal) {k : Str} (hk : k ≠ u) :
    upd1 ord u o k = ord k := by
  simp [upd1, hk]

/-- the link of the document whose tree was operated on, and of the others -/
theorem docLink_step {ord0 ord : Str → Rev → List JVal} {u : Str} {t t' : RevTree} {o' : Rev → List JVal}
    {w rev : Rev} (hu : isArrayDescriptor u = true) (hw : t.winner = some w) (hw' : t'.winner = some rev)
    (hdel : rev.isDeleted = w.isDeleted)
    (hvis : w.isDeleted = false → visible o' t' rev = visible (ord u) t w) :
    (∀ a, DocLink ord0 ord a (u, t) → DocLink ord0 (upd1 ord u o') a (u, t')) ∧
    (∀ a b, DocLink ord0 ord a b → b.1 ≠ u → DocLink ord0 (upd1 ord u o') a b) := by
  unfold DocLink
  constructor
  · rintro a ⟨hk, _, har⟩
    have hk' : a.1 = u := hk
    refine ⟨hk, ?_, ?_⟩
    · intro hna; rw [hk', hu] at hna; cases hna
    · intro haa
      obtain ⟨hn, hs⟩ := har haa
      refine ⟨fun h0 => ?_, fun w0 hw0 => ?_⟩
      · have h1 : t.winner = none := hn h0
        rw [hw] at h1; cases h1
      · obtain ⟨w1, hw1, hd1, hv1⟩ := hs w0 hw0
        have e1 : w1 = w := by
          have h2 : t.winner = some w1 := hw1
          rw [hw] at h2; exact (Option.some.inj h2).symm
        subst e1
        refine ⟨rev, hw', hdel.trans hd1, fun hd0 => ?_⟩
        rw [hk', upd1_self]
        show visible o' t' rev = _
        rw [hvis (hd1.trans hd0)]
        have h3 := hv1 hd0
        rw [hk'] at h3
        exact h3
  · rintro a b ⟨hk, hpl, har⟩ hne
    have hne' : a.1 ≠ u := fun e => hne (hk ▸ e)
    refine ⟨hk, hpl, fun haa => ?_⟩
    rw [upd1_other _ _ _ hne']
    exact har haa

/-- the loop of `stage_full_snapshot` over the pending documents `ps` -/
theorem snapshot_fold {H : Bytes → Str} (hH : HexOut H) {N : Str → Rev → Prop} {S : JObj → Prop} {src : Src}
    (hcf : CollisionFree H S) {st0 : DState} {ord0 : Str → Rev → List JVal}
    (hpre0 : ∀ p ∈ st0.p.docs, isArrayDescriptor p.1 = true → ∀ w, p.2.winner = some w →
      (∀ d, N p.1 (Rev.upd H d w)) ∧ (∀ d, ∀ e ∈ p.2.entries, e.rev ≠ Rev.upd H d w) ∧
      S [(ORDER_FIELD, .arr (visible (ord0 p.1) p.2 w))])
    {st' : DState} :
    ∀ (ps : List (Str × RevTree)) (st : DState) (ord : Str → Rev → List JVal),
      ps.Pairwise (fun a b => a.1 ≠ b.1) → ReadInv N src st ord → StoreOK H src S st →
      (∀ r x, readObject src st0 r = .ok x → readObject src st r = .ok x) →
      C12.All₂ (DocLink ord0 ord) st0.p.docs st.p.docs →
      (∀ p ∈ ps, p ∈ st0.p.docs ∧ st.treeOf p.1 = some p.2 ∧ ord p.1 = ord0 p.1) →
      ps.foldl (snapStep H src) (.ok st) = .ok st' →
      ∃ ord', ReadInv N src st' ord' ∧ StoreOK H src S st' ∧
        (∀ r x, readObject src st0 r = .ok x → readObject src st' r = .ok x) ∧
        C12.All₂ (DocLink ord0 ord') st0.p.docs st'.p.docs := by
  intro ps
  induction ps with
  | nil =>
    intro st ord _ inv hS hr hl _ h
    have : st = st' := by simpa using h
    subst this
    exact ⟨ord, inv, hS, hr, hl⟩
  | cons p ps ih =>
    intro st ord hpw inv hS hr hl hpend h
    obtain ⟨u, t⟩ := p
    obtain ⟨hne, hpw'⟩ := List.pairwise_cons.mp hpw
    obtain ⟨hm0, htree, hord⟩ := hpend (u, t) (by simp)
    have htree' : st.treeOf u = some t := htree
    have hord' : ord u = ord0 u := hord
    rw [List.foldl_cons] at h
    by_cases hu : isArrayDescriptor u = true
    · have hpre : ∀ w, t.winner = some w → (∀ d, N u (Rev.upd H d w)) ∧
          (∀ d, ∀ e ∈ t.entries, e.rev ≠ Rev.upd H d w) ∧ S [(ORDER_FIELD, .arr (visible (ord u) t w))] := by
        rw [hord']; exact hpre0 (u, t) hm0 hu
      rcases snapStep_array hH inv hS hcf hu htree' hpre with h1 | ⟨e, h1⟩ |
        ⟨st1, t', o', w, rev, h1, ts, hS1, hdocs, hw, hdw, hw', hdr, hvis⟩
      · rw [h1] at h
        exact ih st ord hpw' inv hS hr hl (fun p' hp' => hpend p' (List.mem_cons_of_mem _ hp')) h
      · rw [h1, fold_snapStep_err] at h; cases h
      · rw [h1] at h
        obtain ⟨l1, l2⟩ := docLink_step (ord0 := ord0) (ord := ord) (o' := o') hu hw hw' (hdr.trans hdw.symm) (fun _ => hvis)
        refine ih st1 (upd1 ord u o') hpw' (readInv_step inv hu htree' ts) hS1
          (fun r x hx => ts.reads r x (hr r x hx)) ?_ ?_ h
        · rw [hdocs]
          exact all₂_setTree' hl inv.sorted htree' l1 l2
        · intro p' hp'
          obtain ⟨a, b, c⟩ := hpend p' (List.mem_cons_of_mem _ hp')
          have hk : p'.1 ≠ u := fun e => hne p' hp' e.symm
          exact ⟨a, by rw [ts.other _ hk]; exact b, by rw [upd1_other _ _ _ hk]; exact c⟩
    · have hu' : isArrayDescriptor u = false := by simpa using hu
      rw [snapStep_plain H src st (p := (u, t)) hu'] at h
      exact ih st ord hpw' inv hS hr hl (fun p' hp' => hpend p' (List.mem_cons_of_mem _ hp')) h

theorem keys_pairwise_ne {docs : List (Str × RevTree)} (hs : C04b.DocsSorted docs) :
    docs.Pairwise (fun a b => a.1 ≠ b.1) := by
  refine List.Pairwise.imp ?_ hs
  intro a b hab e
  rw [e, C04.strLt_irrefl] at hab; cases hab

/-- the preconditions of the snapshot of every array document: the revisions that would be created are
    allowed by `N` (so that no cached foreign revision has their name), are not yet recorded (no clash of
    the seven-character tails), and the full descriptor that would be written is in the collision-free
    universe `S` -/
def SnapPre (H : Bytes → Str) (N : Str → Rev → Prop) (S : JObj → Prop) (st : DState)
    (ord : Str → Rev → List JVal) : Prop :=
  ∀ p ∈ st.p.docs, isArrayDescriptor p.1 = true → ∀ w, p.2.winner = some w →
    (∀ d, N p.1 (Rev.upd H d w)) ∧ (∀ d, ∀ e ∈ p.2.entries, e.rev ≠ Rev.upd H d w) ∧
    S [(ORDER_FIELD, .arr (visible (ord p.1) p.2 w))]

/-- **`stage_full_snapshot` keeps the invariant and links every document to itself** -/
theorem snapshot_inv {H : Bytes → Str} (hH : HexOut H) {N : Str → Rev → Prop} {S : JObj → Prop} {src : Src}
    {st st' : DState} {ord : Str → Rev → List JVal} (hcf : CollisionFree H S) (inv : ReadInv N src st ord)
    (hS : StoreOK H src S st) (hpre : SnapPre H N S st ord) (h : snapshot H src st = .ok st') :
    ∃ ord', ReadInv N src st' ord' ∧ StoreOK H src S st' ∧
      (∀ r x, readObject src st r = .ok x → readObject src st' r = .ok x) ∧
      C12.All₂ (DocLink ord ord') st.p.docs st'.p.docs := by
  rw [snapshot_eq] at h
  exact snapshot_fold hH hcf hpre st.p.docs st ord (keys_pairwise_ne inv.sorted) inv hS (fun _ _ h => h)
    (C12.forall₂_refl (DocLink.refl ord) _)
    (fun p hp => ⟨hp, C04b.treeOf_of_mem inv.sorted hp, rfl⟩) h

/-- **1 (document level). A full snapshot does not change the visible document.**
    From a state satisfying the array invariant `ReadInv` (with `StoreOK`, collision freedom on `S`, and the
    preconditions `SnapPre`): if `stage_full_snapshot` succeeds and `read` returned `v` before, `read` returns
    `v` afterwards (the descriptor cache that `read` hands back may differ). -/
theorem snapshot_read {H : Bytes → Str} (hH : HexOut H) {N : Str → Rev → Prop} {S : JObj → Prop} {src : Src}
    {st st' : DState} {ord : Str → Rev → List JVal} (hcf : CollisionFree H S) (inv : ReadInv N src st ord)
    (hS : StoreOK H src S st) (hpre : SnapPre H N S st ord) (h : snapshot H src st = .ok st')
    {v : JVal} {c : Cache} (hr : read src st = .ok (v, c)) : ∃ c', read src st' = .ok (v, c') := by
  obtain ⟨ord', inv', _, hreads, hl⟩ := snapshot_inv hH hcf inv hS hpre h
  exact read_sim inv inv' hreads hl hr

/-! ## 3 (document level). the automatic resolution of `commit` does not change what `read` shows -/

theorem resolveAs_array_unfold_del (H : Bytes → Str) (src : Src) (st : DState) (u winner : Str) {r : Rev}
    {t : RevTree} {merged : JObj} {c : Cache} (hp : Rev.parse winner = some r) (ht : st.treeOf u = some t)
    (hl : r ∈ t.leafs) (hconf : 2 ≤ t.leafs.length) (hra : readAt src st u t r = .ok (merged, c))
    (hnd : r.isDeleted = true) :
    resolveAs H src st u winner = C07.finishResolve H u (deleteObject H { st with acache := c } u) := by
  have h1 : t.leafs.contains r = true := List.contains_iff_mem.mpr hl
  have h2 : ¬ t.leafs.length ≤ 1 := by omega
  unfold resolveAs
  simp only [hp, ht, h1, Bool.not_true, Bool.false_eq_true, if_false, h2, hra, hnd, if_true]
  rfl

/-- resolving an array conflict in favour of a winner that is a deletion: only markers are added -/
theorem resolveAs_array_deleted {H : Bytes → Str} (hH : HexOut H) {u : Str} {w : Rev}
    (ord : Rev → List JVal) (hu : isArrayDescriptor u = true) (ht : st.treeOf u = some t) (g : GoodTree t)
    (hconf : 2 ≤ t.leafs.length) (hw : t.winner = some w) (hdel : w.isDeleted = true)
    (hord : ∀ l ∈ t.leafs, TrueOrder src st t l (ord l))
    (hc : CacheOK N src st t st.acache) (hN : ∀ l ∈ t.leafs, ∀ d, N (Rev.upd H d l)) (nc : NoClash H t) :
    ∃ (c : Cache) (l : List RtEntry),
      resolveAs H src st u w.render =
        .ok (({ st with acache := c } : DState).withTree u (t.leafs.foldl (markStep H w) t), w.render) ∧
      GoodTree (t.leafs.foldl (markStep H w) t) ∧ (t.leafs.foldl (markStep H w) t).leafs = [w] ∧
      (t.leafs.foldl (markStep H w) t).winner = some w ∧
      (t.leafs.foldl (markStep H w) t).entries = t.entries ++ l ∧
      (∀ e ∈ l, ∃ x ∈ t.leafs, ∃ d, e.rev = Rev.upd H d x) ∧
      TrueOrder src (({ st with acache := c } : DState).withTree u (t.leafs.foldl (markStep H w) t))
        (t.leafs.foldl (markStep H w) t) w (ord w) ∧
      CacheOK N src (({ st with acache := c } : DState).withTree u (t.leafs.foldl (markStep H w) t))
        (t.leafs.foldl (markStep H w) t) c ∧
      Grows src st t ord st.acache c := by
  have hwl : w ∈ t.leafs := g.winner_mem hw
  have hin : ∀ l ∈ t.leafs, InTree t l := fun l hl => leaf_inTree g hl
  have hwc : Canonical w := C07.GoodTree.leaf_canon g hwl
  obtain ⟨c, hra, hcc, hgr⟩ := readAt_spec g.widx g.closed ord hu hc (hin w hwl) (hord w hwl)
    (fun l hl => ⟨hin l (mergeLeafs_sub hl), hord l (mergeLeafs_sub hl)⟩)
  obtain ⟨g2, l2, w2, _⟩ := C07.resolve_tree_keep hH g hw (nc.tail [])
  obtain ⟨l, he, hmark⟩ := markFold_append H w t.leafs t
  have hwr : w.isResolved = false := by
    have := ((g.mem_leafs w).mp hwl).2.1
    simpa using this
  refine ⟨c, l, ?_, g2, l2, w2, he, ?_, ?_, ?_, fun P h hp => hgr P h (hp w hwl) (fun l hl => hp l (mergeLeafs_sub hl))⟩
  · rw [resolveAs_array_unfold_del H src st u w.render (C19.parse_render w hwc) ht hwl hconf hra hdel]
    have ht0 : ({ st with acache := c } : DState).treeOf u = some t := ht
    rw [C07.deleteObject_eq H ({ st with acache := c } : DState) u ht0 hw]
    simp only [hdel, hwr, Bool.not_true, Bool.false_and, Bool.false_eq_true, if_false, C07.finishResolve]
    simp only [ht0, hw]
  · intro e he'
    obtain ⟨x, hx, _, hrev⟩ := hmark e he'
    exact ⟨x, hx, Rev.RESOLVED, hrev⟩
  · exact trueOrder_mono (st := st)
      (st' := ({ st with acache := c } : DState).withTree u (t.leafs.foldl (markStep H w) t))
      (fun _ _ h => h) g.closed he (hin w hwl) (hord w hwl)
  · refine cacheOK_mono (st := st)
      (st' := ({ st with acache := c } : DState).withTree u (t.leafs.foldl (markStep H w) t))
      (fun _ _ h => h) g.closed he ?_ hcc
    intro e he'
    obtain ⟨x, hx, _, hrev⟩ := hmark e he'
    rw [hrev]; exact hN x hx _

/-- the automatic resolution of one conflicted array document, under the state invariant -/
theorem resolve_step {H : Bytes → Str} (hH : HexOut H) {N : Str → Rev → Prop} {S : JObj → Prop} {src : Src}
    {st : DState} {ord : Str → Rev → List JVal} (inv : ReadInv N src st ord) (hS : StoreOK H src S st)
    (hcf : CollisionFree H S) {u : Str} {t : RevTree} {w : Rev} (hu : isArrayDescriptor u = true)
    (ht : st.treeOf u = some t) (hconf : t.leafs.length > 1) (hw : t.winner = some w)
    (hN : ∀ l ∈ t.leafs, ∀ d, N u (Rev.upd H d l)) (nc : NoClash H t)
    (hpre : w.isDeleted = false → S [(ORDER_FIELD, .arr (visible (ord u) t w))] ∧
      (∀ patch, makeDiffPatch (ord u w) (visible (ord u) t w) = some patch → S [(DELTA_ORDER_FIELD, .arr patch)]) ∧
      makeDiffPatch (ord u w) (visible (ord u) t w) ≠ none)
    (hcross : ∀ d, ∀ q ∈ st.p.docs, isArrayDescriptor q.1 = true → q.1 ≠ u →
      ¬ N q.1 (Rev.upd H d w) ∧ ¬ InTree q.2 (Rev.upd H d w)) :
    ∃ (st1 : DState) (rv : Str) (t' : RevTree) (o' : Rev → List JVal) (w1 : Rev),
      resolveAs H src st u w.render = .ok (st1, rv) ∧ TreeStep N src st st1 u t t' (ord u) o' ∧
      StoreOK H src S st1 ∧ st1.p.docs = setTree st.p.docs u t' ∧ t'.winner = some w1 ∧
      w1.isDeleted = w.isDeleted ∧ (w.isDeleted = false → visible o' t' w1 = visible (ord u) t w) := by
  have hmem : (u, t) ∈ st.p.docs := C04b.mem_of_treeOf ht
  have g := inv.good _ hmem hu
  have hord := inv.orders _ hmem hu
  have hwl : w ∈ t.leafs := g.winner_mem hw
  by_cases hd : w.isDeleted = true
  · obtain ⟨c, l, hres, g2, l2, w2, he, hmark, hto, hcc, hgr⟩ :=
      resolveAs_array_deleted (N := N u) hH (ord u) hu ht g (by omega) hw hd hord (inv.cache _ hmem hu) hN nc
    refine ⟨_, _, _, ord u, w, hres, ?_, C04b.storeOK_withTree (C04b.storeOK_acache hS c) u _, rfl, w2, rfl,
      fun h => by rw [hd] at h; cases h⟩
    refine ⟨C07.treeOf_withTree _ _ _, g2, ⟨l, he, fun e he' => ?_⟩, ?_, ?_, hcc, hgr, ?_, fun _ _ h => h, ?_⟩
    · obtain ⟨x, hx, d, h⟩ := hmark e he'
      rw [h]; exact hN x hx d
    · intro l' hl'; rw [l2] at hl'
      rw [List.mem_singleton.mp hl']; exact hto
    · intro l' hl'; rw [l2] at hl'
      rw [List.mem_singleton.mp hl']; exact Or.inl ⟨hwl, rfl⟩
    · intro u' hne
      rw [C04b.treeOf_withTree_other _ _ _ _ hne]; rfl
    · intro hs; exact C04b.setTree_sorted hs u _
  · have hd' : w.isDeleted = false := by simpa using hd
    obtain ⟨hSo, hSd, hmk⟩ := hpre hd'
    obtain ⟨st', t2, w1, c, c', hres, _, htr, g2, hl2, hw2, hto, _, hcase, _, _, _, ⟨l, he, hl⟩, hdel1, hcc, _, hoth,
      hreads, hS', hsort, hgr, hdocs⟩ :=
      resolveAs_array_spec (N := N u) hH (ord u) hu ht g hwl (by omega) hd' hw hord (inv.cache _ hmem hu) hN nc hS hcf
        hSo hSd hmk
    refine ⟨st', _, t2, fun _ => visible (ord u) t w, w1, hres, ?_, hS', hdocs, hw2, hdel1.trans hd'.symm,
      fun _ => visible_single _ hl2⟩
    refine ⟨htr, g2, ⟨l, he, fun e he' => ?_⟩, ?_, ?_, hcc, hgr, hoth, hreads, hsort⟩
    · obtain ⟨x, hx, d, h⟩ := hl e he'
      rw [h]; exact hN x hx d
    · intro l' hl'; rw [hl2] at hl'
      rw [List.mem_singleton.mp hl']; exact hto
    · intro l' hl'; rw [hl2] at hl'
      rw [List.mem_singleton.mp hl']
      rcases hcase with ⟨h1, h2⟩ | ⟨d, h1, _⟩
      · left; rw [h1]; exact ⟨hwl, h2.symm⟩
      · right
        intro _ q hq ha hne
        rw [h1]
        exact ⟨fun hin => absurd hin (hcross d q hq ha hne).2, fun _ => (hcross d q hq ha hne).1⟩

/-- one step of the loop of the automatic resolution -/
def resStep (H : Bytes → Str) (src : Src) (acc : Res DState) (uw : Str × Str) : Res DState :=
  match acc with
  | .ok s => (match resolveAs H src s uw.1 uw.2 with
    | .ok (s', _) => .ok s'
    | .err _ => .panic "cannot_automatically_resolve_array_descriptor_conflict"
    | .panic m => .panic m)
  | e => e

/-- the work item of a document: conflicted array documents with a winner -/
def todoOf (p : Str × RevTree) : Option (Str × Str) :=
  if isArrayDescriptor p.1 && p.2.leafs.length > 1 then p.2.winner.map (fun w => (p.1, w.render)) else none

/-- the loop of the automatic resolution, run over all documents -/
def arStep (H : Bytes → Str) (src : Src) (acc : Res DState) (p : Str × RevTree) : Res DState :=
  match todoOf p with
  | none => acc
  | some uw => resStep H src acc uw

theorem foldl_filterMap_eq {α β γ : Type} (f : α → Option β) (g : γ → β → γ) (l : List α) (a : γ) :
    (l.filterMap f).foldl g a = l.foldl (fun a x => match f x with | none => a | some y => g a y) a := by
  induction l generalizing a with
  | nil => rfl
  | cons x xs ih =>
    simp only [List.filterMap_cons, List.foldl_cons]
    cases hf : f x with
    | none => simp only [hf]; exact ih a
    | some y => simp only [hf, List.foldl_cons]; exact ih (g a y)

theorem autoResolve_eq (H : Bytes → Str) (src : Src) (st : DState) :
    autoResolve H src st = st.p.docs.foldl (arStep H src) (.ok st) := by
  have h : autoResolve H src st = (st.p.docs.filterMap todoOf).foldl (resStep H src) (.ok st) := rfl
  rw [h, foldl_filterMap_eq]
  congr 1
  funext a x
  unfold arStep
  cases todoOf x <;> rfl

theorem fold_arStep_panic (H : Bytes → Str) (src : Src) (e : String) (l : List (Str × RevTree)) :
    l.foldl (arStep H src) (.panic e) = .panic e := by
  induction l with
  | nil => rfl
  | cons a l ih =>
    simp only [List.foldl_cons]
    have : arStep H src (.panic e) a = .panic e := by
      unfold arStep; cases todoOf a <;> rfl
    rw [this]; exact ih

/-- the preconditions of the automatic resolution of every conflicted array document `p` with winner `w`:
    the revisions that may be created (children of leaves) are allowed by `N`; no clash of tails inside the
    tree (`NoClash`); when `w` is not a deletion, the descriptors that would be written are in the
    collision-free universe `S` and the diff of the winner's order against the visible array exists; the new
    child of `w` is neither recorded in, nor allowed for, any other array tree -/
def AutoPre (H : Bytes → Str) (N : Str → Rev → Prop) (S : JObj → Prop) (st : DState)
    (ord : Str → Rev → List JVal) : Prop :=
  ∀ p ∈ st.p.docs, isArrayDescriptor p.1 = true → p.2.leafs.length > 1 → ∀ w, p.2.winner = some w →
    (∀ l ∈ p.2.leafs, ∀ d, N p.1 (Rev.upd H d l)) ∧ NoClash H p.2 ∧
    (w.isDeleted = false → S [(ORDER_FIELD, .arr (visible (ord p.1) p.2 w))] ∧
      (∀ patch, makeDiffPatch (ord p.1 w) (visible (ord p.1) p.2 w) = some patch →
        S [(DELTA_ORDER_FIELD, .arr patch)]) ∧
      makeDiffPatch (ord p.1 w) (visible (ord p.1) p.2 w) ≠ none) ∧
    (∀ d, ∀ q ∈ st.p.docs, isArrayDescriptor q.1 = true → q.1 ≠ p.1 →
      ¬ N q.1 (Rev.upd H d w) ∧ ¬ InTree q.2 (Rev.upd H d w))

theorem auto_fold {H : Bytes → Str} (hH : HexOut H) {N : Str → Rev → Prop} {S : JObj → Prop} {src : Src}
    (hcf : CollisionFree H S) {st0 : DState} {ord0 : Str → Rev → List JVal}
    (hpre0 : AutoPre H N S st0 ord0) {st' : DState} :
    ∀ (ps : List (Str × RevTree)) (st : DState) (ord : Str → Rev → List JVal),
      ps.Pairwise (fun a b => a.1 ≠ b.1) → ReadInv N src st ord → StoreOK H src S st →
      (∀ r x, readObject src st0 r = .ok x → readObject src st r = .ok x) →
      C12.All₂ (DocLink ord0 ord) st0.p.docs st.p.docs →
      (∀ q ∈ st.p.docs, ∃ q0 ∈ st0.p.docs, q0.1 = q.1 ∧ ∀ r, InTree q.2 r → InTree q0.2 r ∨ N q.1 r) →
      (∀ p ∈ ps, p ∈ st0.p.docs ∧ st.treeOf p.1 = some p.2 ∧ ord p.1 = ord0 p.1) →
      ps.foldl (arStep H src) (.ok st) = .ok st' →
      ∃ ord', ReadInv N src st' ord' ∧ StoreOK H src S st' ∧
        (∀ r x, readObject src st0 r = .ok x → readObject src st' r = .ok x) ∧
        C12.All₂ (DocLink ord0 ord') st0.p.docs st'.p.docs := by
  intro ps
  induction ps with
  | nil =>
    intro st ord _ inv hS hr hl _ _ h
    have : st = st' := by simpa using h
    subst this
    exact ⟨ord, inv, hS, hr, hl⟩
  | cons p ps ih =>
    intro st ord hpw inv hS hr hl hgrow hpend h
    obtain ⟨u, t⟩ := p
    obtain ⟨hne, hpw'⟩ := List.pairwise_cons.mp hpw
    obtain ⟨hm0, htree, hord⟩ := hpend (u, t) (by simp)
    have htree' : st.treeOf u = some t := htree
    have hord' : ord u = ord0 u := hord
    rw [List.foldl_cons] at h
    by_cases hcond : isArrayDescriptor u = true ∧ t.leafs.length > 1
    · obtain ⟨hu, hconf⟩ := hcond
      have hmem : (u, t) ∈ st.p.docs := C04b.mem_of_treeOf htree'
      have g := inv.good _ hmem hu
      have g : GoodTree t := g
      obtain ⟨w, hw⟩ := g.winner_isSome (by intro e; rw [e] at hconf; simp at hconf)
      have hpre0' : (∀ l ∈ t.leafs, ∀ d, N u (Rev.upd H d l)) ∧ NoClash H t ∧
          (w.isDeleted = false → S [(ORDER_FIELD, .arr (visible (ord0 u) t w))] ∧
            (∀ patch, makeDiffPatch (ord0 u w) (visible (ord0 u) t w) = some patch →
              S [(DELTA_ORDER_FIELD, .arr patch)]) ∧
            makeDiffPatch (ord0 u w) (visible (ord0 u) t w) ≠ none) ∧
          (∀ d, ∀ q ∈ st0.p.docs, isArrayDescriptor q.1 = true → q.1 ≠ u →
            ¬ N q.1 (Rev.upd H d w) ∧ ¬ InTree q.2 (Rev.upd H d w)) := hpre0 (u, t) hm0 hu hconf w hw
      obtain ⟨hN, nc, hpre, hcross0⟩ := hpre0'
      have hcross : ∀ d, ∀ q ∈ st.p.docs, isArrayDescriptor q.1 = true → q.1 ≠ u →
          ¬ N q.1 (Rev.upd H d w) ∧ ¬ InTree q.2 (Rev.upd H d w) := by
        intro d q hq ha hqu
        obtain ⟨q0, hq0, hk, hin⟩ := hgrow q hq
        obtain ⟨c1, c2⟩ := hcross0 d q0 hq0 (by rw [hk]; exact ha) (by rw [hk]; exact hqu)
        rw [hk] at c1
        refine ⟨c1, fun hi => ?_⟩
        rcases hin _ hi with h1 | h1
        · exact c2 h1
        · exact c1 h1
      obtain ⟨st1, rv, t', o', w1, hres, ts, hS1, hdocs, hw', hdel, hvis⟩ :=
        resolve_step hH inv hS hcf hu htree' hconf hw hN nc (by rw [hord']; exact hpre) hcross
      have htodo : todoOf (u, t) = some (u, w.render) := by
        simp [todoOf, hu, hconf, hw]
      have hstep : arStep H src (.ok st) (u, t) = .ok st1 := by
        simp only [arStep, htodo, resStep, hres]
      rw [hstep] at h
      obtain ⟨l1, l2⟩ := docLink_step (ord0 := ord0) (ord := ord) (o' := o') hu hw hw' hdel hvis
      obtain ⟨l0, he, hNl⟩ := ts.entries
      refine ih st1 (upd1 ord u o') hpw' (readInv_step inv hu htree' ts) hS1
        (fun r x hx => ts.reads r x (hr r x hx)) ?_ ?_ ?_ h
      · rw [hdocs]
        exact all₂_setTree' hl inv.sorted htree' l1 l2
      · intro q hq
        rcases docs_cases (ts.sorted inv.sorted) ts.other ts.tree q hq with rfl | ⟨_, hq'⟩
        · refine ⟨(u, t), hm0, rfl, fun r hi => ?_⟩
          obtain ⟨e, he', h⟩ := hi
          rw [he] at he'
          rcases List.mem_append.mp he' with h1 | h1
          · exact Or.inl ⟨e, h1, h⟩
          · exact Or.inr (h ▸ hNl e h1)
        · exact hgrow q hq'
      · intro p' hp'
        obtain ⟨a, b, c⟩ := hpend p' (List.mem_cons_of_mem _ hp')
        have hk : p'.1 ≠ u := fun e => hne p' hp' e.symm
        exact ⟨a, by rw [ts.other _ hk]; exact b, by rw [upd1_other _ _ _ hk]; exact c⟩
    · have htodo : todoOf (u, t) = none := by
        unfold todoOf
        rw [if_neg]
        simpa using hcond
      have hstep : arStep H src (.ok st) (u, t) = .ok st := by
        simp only [arStep, htodo]
      rw [hstep] at h
      exact ih st ord hpw' inv hS hr hl hgrow (fun p' hp' => hpend p' (List.mem_cons_of_mem _ hp')) h

/-- **the automatic resolution keeps the invariant and links every document to itself** -/
theorem autoResolve_inv {H : Bytes → Str} (hH : HexOut H) {N : Str → Rev → Prop} {S : JObj → Prop} {src : Src}
    {st st' : DState} {ord : Str → Rev → List JVal} (hcf : CollisionFree H S) (inv : ReadInv N src st ord)
    (hS : StoreOK H src S st) (hpre : AutoPre H N S st ord) (h : autoResolve H src st = .ok st') :
    ∃ ord', ReadInv N src st' ord' ∧ StoreOK H src S st' ∧
      (∀ r x, readObject src st r = .ok x → readObject src st' r = .ok x) ∧
      C12.All₂ (DocLink ord ord') st.p.docs st'.p.docs := by
  rw [autoResolve_eq] at h
  exact auto_fold hH hcf hpre st.p.docs st ord (keys_pairwise_ne inv.sorted) inv hS (fun _ _ h => h)
    (C12.forall₂_refl (DocLink.refl ord) _) (fun q hq => ⟨q, hq, rfl, fun _ h => Or.inl h⟩)
    (fun p hp => ⟨hp, C04b.treeOf_of_mem inv.sorted hp, rfl⟩) h

/-- **3. The automatic resolution that `commit` performs does not change the visible document.**
    From a state satisfying the array invariant `ReadInv` (with `StoreOK`, collision freedom on `S`, and the
    preconditions `AutoPre`): if the automatic resolution succeeds and `read` returned `v` before, `read`
    returns `v` afterwards (the descriptor cache that `read` hands back may differ). -/
theorem autoResolve_read_unchanged {H : Bytes → Str} (hH : HexOut H) {N : Str → Rev → Prop} {S : JObj → Prop}
    {src : Src} {st st' : DState} {ord : Str → Rev → List JVal} (hcf : CollisionFree H S)
    (inv : ReadInv N src st ord) (hS : StoreOK H src S st) (hpre : AutoPre H N S st ord)
    (h : autoResolve H src st = .ok st') {v : JVal} {c : Cache} (hr : read src st = .ok (v, c)) :
    ∃ c', read src st' = .ok (v, c') := by
  obtain ⟨ord', inv', _, hreads, hl⟩ := autoResolve_inv hH hcf inv hS hpre h
  exact read_sim inv inv' hreads hl hr

/-! ## non-vacuity: a concrete replica with a flattened array in conflict

  `√` holds `{"items♭": "^√@items♭"}`; the array document has a full first revision `[x, y]` and two concurrent
  delta revisions (`[x, z, y]` and `[x, y, qq]`); the element objects `x`, `y`, `z`, `qq` are plain documents.
  All hypotheses of the per-tree and of the document-level theorems hold; `stage_full_snapshot`, the automatic
  resolution and `read` are evaluated on it. -/

namespace Ex
open C04b (src0)

/-- a hex hash for the examples: the first character is a checksum of the bytes (so that the seven-character
    tails of different revisions differ), the last two encode the length (so that digests differ) -/
def Hy : Bytes → Str := fun b =>
  hexDigitLower ((b.foldl (fun a x => a + x.toNat) 0) % 16) :: List.replicate 61 'a' ++
    [hexDigitLower (b.length / 16 % 16), hexDigitLower (b.length % 16)]

theorem hexOut_Hy : C19.HexOut Hy := by
  intro b
  refine ⟨by simp [Hy], ?_⟩
  intro c hc
  simp only [Hy, List.mem_append, List.mem_cons, List.not_mem_nil, or_false] at hc
  rcases hc with (rfl | hc) | rfl | rfl
  · exact C04b.hexDigitLower_ok _ (Nat.mod_lt _ (by decide))
  · rw [List.eq_of_mem_replicate hc]; decide
  · exact C04b.hexDigitLower_ok _ (Nat.mod_lt _ (by decide))
  · exact C04b.hexDigitLower_ok _ (Nat.mod_lt _ (by decide))

def digestOf (o : JObj) : Str := match digestObject Hy o with | .ok d => d | .error _ => []

def jx : JVal := .str "x".toList
def jy : JVal := .str "y".toList
def jz : JVal := .str "z".toList
def jq : JVal := .str "qq".toList

def uA : Str := '^' :: (ROOT_ID ++ '@' :: "items".toList ++ [FLAT])
def oa1 : List JVal := [jx, jy]
def oa2a : List JVal := [jx, jz, jy]
def oa2b : List JVal := [jx, jy, jq]
def VA : List JVal := [jx, jz, jy, jq]
def patchOf (a b : List JVal) : List JVal := match makeDiffPatch a b with | some p => p | none => []
def pA : List JVal := patchOf oa1 oa2a
def pB : List JVal := patchOf oa1 oa2b
def pV : List JVal := patchOf oa2b VA
def b1 : JObj := [(ORDER_FIELD, .arr oa1)]
def b2a : JObj := [(DELTA_ORDER_FIELD, .arr pA)]
def b2b : JObj := [(DELTA_ORDER_FIELD, .arr pB)]
def bV : JObj := [(ORDER_FIELD, .arr VA)]
def bD : JObj := [(DELTA_ORDER_FIELD, .arr pV)]
def r1 : Rev := Rev.mk1 (digestOf b1)
def r2a : Rev := Rev.upd Hy (digestOf b2a) r1
def r2b : Rev := Rev.upd Hy (digestOf b2b) r1
def tA : RevTree := (((RevTree.empty.add r1 none false).1.add r2a (some r1) true).1.add r2b (some r1) true).1
def bR : JObj := [("items".toList ++ [FLAT], .str uA)]
def bx : JObj := [("v".toList, .str "!1".toList)]
def by' : JObj := [("v".toList, .str "!22".toList)]
def bz : JObj := [("v".toList, .str "!333".toList)]
def bq : JObj := [("v".toList, .str "!4444".toList)]
def one (b : JObj) : RevTree := (RevTree.empty.add (Rev.mk1 (digestOf b)) none false).1
def stX : DState :=
  { p := { docs := [(uA, tA), ("qq".toList, one bq), ("x".toList, one bx), ("y".toList, one by'), ("z".toList, one bz),
                    (ROOT_ID, one bR)] },
    stage := [b1, b2a, b2b, bR, bx, by', bz, bq].map (fun b => (digestOf b, b)) }
def ordA : Rev → List JVal := fun r => if r = r2a then oa2a else if r = r2b then oa2b else oa1
def LS : List JObj := [b1, b2a, b2b, bR, bx, by', bz, bq, bV, bD]
def SX : JObj → Prop := fun o => o ∈ LS

theorem tA_good : C12.GoodTree tA := C12.goodTree_of_dec (by decide) (by decide) (by decide) (by decide) (by decide)
theorem tA_facts : tA.leafs = [r2a, r2b] ∧ tA.winner = some r2b ∧ r2b.isDeleted = false := by decide
theorem visA : visible ordA tA r2b = VA := by decide
theorem cfX : CollisionFree Hy SX := by
  have hinj : ∀ a ∈ LS, ∀ b ∈ LS, digestOf a = digestOf b → a = b := by decide
  have key : ∀ o d, digestObject Hy o = .ok d → digestOf o = d := by
    intro o d h; simp [digestOf, h]
  intro o₁ o₂ d h1 h2 hd1 hd2
  exact hinj o₁ h1 o₂ h2 ((key _ _ hd1).trans (key _ _ hd2).symm)
theorem to1 : TrueOrder src0 stX tA r1 oa1 := .full (by rfl)
theorem to2a : TrueOrder src0 stX tA r2a oa2a := .delta (patch := pA) (par := r1) (by rfl) (by rfl) to1 (by rfl)
theorem to2b : TrueOrder src0 stX tA r2b oa2b := .delta (patch := pB) (par := r1) (by rfl) (by rfl) to1 (by rfl)
theorem storeX : StoreOK Hy src0 SX stX where
  src_ok := fun d o h => by cases h
  stage_ok := by
    intro p hp
    simp only [stX, List.map_cons, List.map_nil, List.mem_cons, List.not_mem_nil, or_false] at hp
    rcases hp with rfl | rfl | rfl | rfl | rfl | rfl | rfl | rfl <;> exact ⟨rfl, by show _ ∈ LS; decide⟩
  objs_ok := fun d hd => by cases hd
def NX : Rev → Prop := fun r => 3 ≤ r.index

theorem hordA : ∀ l ∈ tA.leafs, TrueOrder src0 stX tA l (ordA l) := by
  rw [tA_facts.1]
  intro l hl
  simp only [List.mem_cons, List.not_mem_nil, or_false] at hl
  rcases hl with rfl | rfl
  · exact to2a
  · exact to2b

theorem entries_idx : ∀ e ∈ tA.entries, e.rev.index ≤ 2 := by decide

theorem freshA (w : Rev) (hw : w.index = 2) (d : Str) : ∀ e ∈ tA.entries, e.rev ≠ Rev.upd Hy d w := by
  intro e he h
  have h1 := entries_idx e he
  rw [h] at h1
  simp only [Rev.upd, hw] at h1
  omega

theorem leaf_idx : ∀ l ∈ tA.leafs, l.index = 2 := by decide

theorem ncA : NoClash Hy tA :=
  ⟨fun w hw d => freshA w (leaf_idx w (tA_good.winner_mem hw)) d,
   fun l hl => freshA l (leaf_idx l hl) Rev.RESOLVED, by decide⟩

theorem hNA : ∀ l ∈ tA.leafs, ∀ d, NX (Rev.upd Hy d l) := by
  intro l hl d
  have := leaf_idx l hl
  show 3 ≤ l.index + 1
  omega

theorem cacheA : CacheOK NX src0 stX tA stX.acache := fun kv hkv => by cases hkv

theorem deltaA : ∃ l ∈ tA.leafs, ∃ p, readDesc src0 stX l = .ok (.inr p) :=
  ⟨r2a, by decide, pA, by rfl⟩

theorem treeA : stX.treeOf uA = some tA := by rfl

/-- all hypotheses of `snapshot_tree_spec` hold on the example -/
example : True := by
  have := snapshot_tree_spec (N := NX) (src := src0) (st := stX) (S := SX) hexOut_Hy ordA tA
    (by decide) treeA tA_good tA_facts.2.1 tA_facts.2.2 hordA deltaA cacheA (hNA r2b (by decide))
    (fun d => freshA r2b (by decide) d) storeX cfX (by rw [visA]; show _ ∈ LS; decide)
  trivial

theorem mkA : makeDiffPatch (ordA r2b) (visible ordA tA r2b) = some pV := by rw [visA]; rfl

/-- all hypotheses of `resolveAs_array_spec` hold on the example, choosing the winner … -/
example : True := by
  have := resolveAs_array_spec (N := NX) (src := src0) (st := stX) (S := SX) hexOut_Hy ordA
    (by decide) treeA tA_good (r := r2b) (by decide) (by decide) tA_facts.2.2 tA_facts.2.1 hordA cacheA hNA ncA storeX cfX
    (by rw [visA]; show _ ∈ LS; decide)
    (fun patch h => by rw [mkA] at h; cases h; show _ ∈ LS; decide)
    (by rw [mkA]; exact fun h => by cases h)
  trivial

def ordX : Str → Rev → List JVal := fun _ => ordA
def NXX : Str → Rev → Prop := fun _ => NX

theorem arr_only : ∀ p ∈ stX.p.docs, isArrayDescriptor p.1 = true → p = (uA, tA) := by
  intro p hp ha
  simp only [stX, List.mem_cons, List.not_mem_nil, or_false] at hp
  rcases hp with rfl | rfl | rfl | rfl | rfl | rfl
  · rfl
  all_goals exact absurd ha (by decide)

theorem sortedX : C04b.DocsSorted stX.p.docs := by
  unfold C04b.DocsSorted
  simp only [stX]
  decide

theorem invX : ReadInv NXX src0 stX ordX where
  sorted := sortedX
  good := fun p hp ha => by rw [arr_only p hp ha]; exact tA_good
  orders := fun p hp ha => by rw [arr_only p hp ha]; exact hordA
  coherent := fun p hp ha l hl _ q hq hqa => by
    rw [arr_only p hp ha] at hl ⊢
    rw [arr_only q hq hqa]
    exact ⟨fun _ => hordA l hl, fun hn => absurd (leaf_inTree tA_good hl) hn⟩
  cache := fun q hq hqa => by rw [arr_only q hq hqa]; exact cacheA

theorem winA {w : Rev} (hw : tA.winner = some w) : w = r2b := by
  rw [tA_facts.2.1] at hw; exact (Option.some.inj hw).symm

theorem snapPreX : SnapPre Hy NXX SX stX ordX := by
  intro p hp ha w hw
  rw [arr_only p hp ha] at hw ⊢
  have := winA hw; subst this
  exact ⟨hNA r2b (by decide), fun d => freshA r2b (by decide) d, by
    show SX [(ORDER_FIELD, .arr (visible ordA tA r2b))]
    rw [visA]; show _ ∈ LS; decide⟩

theorem autoPreX : AutoPre Hy NXX SX stX ordX := by
  intro p hp ha _ w hw
  rw [arr_only p hp ha] at hw ⊢
  have := winA hw; subst this
  refine ⟨hNA, ncA, fun _ => ⟨?_, ?_, ?_⟩, ?_⟩
  · show SX [(ORDER_FIELD, .arr (visible ordA tA r2b))]
    rw [visA]; show _ ∈ LS; decide
  · intro patch h
    have h' : makeDiffPatch (ordA r2b) (visible ordA tA r2b) = some patch := h
    rw [mkA] at h'; cases h'; show _ ∈ LS; decide
  · show makeDiffPatch (ordA r2b) (visible ordA tA r2b) ≠ none
    rw [mkA]; exact fun h => by cases h
  · intro d q hq hqa hne
    exact absurd (by rw [arr_only q hq hqa]) hne

/-- the example state: the snapshot succeeds, `read` succeeds, and all hypotheses of `snapshot_read` hold -/
example : ∃ stX' v c c', snapshot Hy src0 stX = .ok stX' ∧ read src0 stX = .ok (v, c) ∧ read src0 stX' = .ok (v, c') := by
  obtain ⟨stX', h⟩ : ∃ stX', snapshot Hy src0 stX = .ok stX' := ⟨_, rfl⟩
  obtain ⟨v, c, hr⟩ : ∃ v c, read src0 stX = .ok (v, c) := ⟨_, _, rfl⟩
  obtain ⟨c', hr'⟩ := snapshot_read hexOut_Hy cfX invX storeX snapPreX h hr
  exact ⟨stX', v, c, c', h, hr, hr'⟩

example : ∃ stX' v c c', autoResolve Hy src0 stX = .ok stX' ∧ read src0 stX = .ok (v, c) ∧ read src0 stX' = .ok (v, c') := by
  obtain ⟨stX', h⟩ : ∃ stX', autoResolve Hy src0 stX = .ok stX' := ⟨_, rfl⟩
  obtain ⟨v, c, hr⟩ : ∃ v c, read src0 stX = .ok (v, c) := ⟨_, _, rfl⟩
  obtain ⟨c', hr'⟩ := autoResolve_read_unchanged hexOut_Hy cfX invX storeX autoPreX h hr
  exact ⟨stX', v, c, c', h, hr, hr'⟩

theorem visA' : visible ordA tA r2a = VA := by decide

example : True := by
  have := resolveAs_array_spec (N := NX) (src := src0) (st := stX) (S := SX) hexOut_Hy ordA
    (by decide) treeA tA_good (r := r2a) (by decide) (by decide) (by decide) tA_facts.2.1 hordA cacheA hNA ncA storeX cfX
    (by rw [visA']; show _ ∈ LS; decide)
    (fun patch h => by rw [visA', ← visA, mkA] at h; cases h; show _ ∈ LS; decide)
    (by rw [visA', ← visA, mkA]; exact fun h => by cases h)
  trivial

/-! a conflicted array tree whose winner is a deletion -/
def r2d : Rev := Rev.del Hy r1
def tD : RevTree := (((RevTree.empty.add r1 none false).1.add r2a (some r1) true).1.add r2d (some r1) true).1
def stD : DState := { p := { docs := [(uA, tD)] }, stage := stX.stage }
def ordD : Rev → List JVal := fun r => if r = r2a then oa2a else if r = r2d then [] else oa1

theorem tD_good : C12.GoodTree tD := C12.goodTree_of_dec (by decide) (by decide) (by decide) (by decide) (by decide)
theorem tD_facts : tD.leafs = [r2a, r2d] ∧ tD.winner = some r2d ∧ r2d.isDeleted = true := by decide
theorem toD1 : TrueOrder src0 stD tD r1 oa1 := .full (by rfl)

/-- all hypotheses of `resolveAs_array_deleted` hold on `tD` -/
example : True := by
  have := resolveAs_array_deleted (N := NX) (src := src0) (st := stD) hexOut_Hy ordD (u := uA) (by decide) (by rfl) tD_good
    (by decide) tD_facts.2.1 tD_facts.2.2
    (by
      rw [tD_facts.1]
      intro l hl
      simp only [List.mem_cons, List.not_mem_nil, or_false] at hl
      rcases hl with rfl | rfl
      · exact .delta (patch := pA) (par := r1) (by rfl) (by rfl) toD1 (by rfl)
      · exact .full (by rfl))
    (fun kv hkv => by cases hkv)
    (by
      have hi : ∀ l ∈ tD.leafs, l.index = 2 := by decide
      intro l hl d
      have := hi l hl
      show 3 ≤ l.index + 1
      omega)
    (by
      have hidx : ∀ e ∈ tD.entries, e.rev.index ≤ 2 := by decide
      have hi : ∀ l ∈ tD.leafs, l.index = 2 := by decide
      have fr : ∀ (w : Rev), w.index = 2 → ∀ d, ∀ e ∈ tD.entries, e.rev ≠ Rev.upd Hy d w := by
        intro w hw d e he h
        have h1 := hidx e he
        rw [h] at h1
        simp only [Rev.upd, hw] at h1
        omega
      exact ⟨fun w hw d => fr w (hi w (tD_good.winner_mem hw)) d, fun l hl => fr l (hi l hl) Rev.RESOLVED, by decide⟩)
  trivial

/-! FINDING: why `snapshot_read` speaks of a successful `read` only.  The statement
    "`read src st'` equals `read src st` up to the returned cache" (as values of `Res`, failures included) is FALSE
    for the model: if a plain document's winner carries the digest of the full descriptor the snapshot is about to
    write while that body is missing from the store, `read` panics before the snapshot and succeeds after it. -/

def stBad : DState :=
  { p := { docs := [(uA, tA), ("qq".toList, one bq), ("w".toList, one bV), ("x".toList, one bx), ("y".toList, one by'),
                    ("z".toList, one bz), (ROOT_ID, one bR)] },
    stage := stX.stage }

theorem snapshot_read_eq_false :
    ∃ (s s' : DState) (v : JVal) (c : Cache), snapshot Hy src0 s = .ok s' ∧
      read src0 s = .panic "cannot_read_object" ∧ read src0 s' = .ok (v, c) :=
  ⟨stBad, _, _, _, rfl, rfl, rfl⟩

end Ex

end Melda.Props.C12b

/-! axiom audit -/
section Audit
open Melda.Props.C12b
#print axioms rebuild_spec
#print axioms readAt_spec
#print axioms snapshot_tree_spec
#print axioms updateObject_array_fwd
#print axioms resolveAs_array_spec
#print axioms resolveAs_array_deleted
#print axioms readInv_step
#print axioms read_sim
#print axioms snapshot_inv
#print axioms snapshot_read
#print axioms autoResolve_inv
#print axioms autoResolve_read_unchanged
#print axioms Ex.invX
#print axioms Ex.snapPreX
#print axioms Ex.autoPreX
#print axioms Ex.snapshot_read_eq_false
end Audit
