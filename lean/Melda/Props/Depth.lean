/-
  Nesting depth: the guard `is_too_deep` (model: `isTooDeep`, `nestedDeeperThan`) decides exactly
  "nested more than 100 levels", and whatever passes it is far below the parser's recursion limit
  (`parseJsonLim`, 128).  Shared by C11 (block round trip), C03c (what the guards let through reads back).
-/
import Melda.Doc
import Melda.Props.JsonRT
namespace Melda.Props.Depth
open Melda Melda.Props.JsonRT

/-! ### `depth` of lists and objects -/

theorem depthL_le_iff (l : List JVal) (n : Nat) : JVal.depthL l ≤ n ↔ ∀ v ∈ l, v.depth ≤ n := by
  induction l with
  | nil => simp [JVal.depthL]
  | cons x xs ih => simp [JVal.depthL, Nat.max_le, ih]

theorem depthO_le_iff (o : JObj) (n : Nat) : JVal.depthO o ≤ n ↔ ∀ p ∈ o, p.2.depth ≤ n := by
  induction o with
  | nil => simp [JVal.depthO]
  | cons x xs ih =>
    obtain ⟨k, v⟩ := x
    simp only [JVal.depthO, Nat.max_le, ih, List.mem_cons, forall_eq_or_imp]

theorem depth_le_of_mem {l : List JVal} {v : JVal} (h : v ∈ l) : v.depth ≤ JVal.depthL l :=
  (depthL_le_iff l _).mp (Nat.le_refl _) v h

theorem depth_le_of_memO {o : JObj} {p : Str × JVal} (h : p ∈ o) : p.2.depth ≤ JVal.depthO o :=
  (depthO_le_iff o _).mp (Nat.le_refl _) p h

theorem depthL_append (a b : List JVal) : JVal.depthL (a ++ b) = max (JVal.depthL a) (JVal.depthL b) := by
  induction a with
  | nil => simp [JVal.depthL]
  | cons x xs ih => simp [JVal.depthL, ih, Nat.max_assoc]

theorem depthO_append (a b : JObj) : JVal.depthO (a ++ b) = max (JVal.depthO a) (JVal.depthO b) := by
  induction a with
  | nil => simp [JVal.depthO]
  | cons x xs ih => obtain ⟨k, v⟩ := x; simp [JVal.depthO, ih, Nat.max_assoc]

theorem depthL_map_str {α : Type} (f : α → Str) (l : List α) : JVal.depthL (l.map (fun a => JVal.str (f a))) = 0 := by
  induction l with
  | nil => rfl
  | cons x xs ih => simp [JVal.depthL, JVal.depth, ih]

theorem depthL_strs (l : List Str) : JVal.depthL (l.map JVal.str) = 0 := depthL_map_str id l

/-- `Map::insert` never makes an object deeper than the deeper of the object and the inserted value -/
theorem depthO_objInsert_le (k : Str) (v : JVal) (o : JObj) :
    JVal.depthO (objInsert k v o) ≤ max v.depth (JVal.depthO o) := by
  induction o with
  | nil => simp [objInsert, JVal.depthO]
  | cons x xs ih =>
    obtain ⟨k', v'⟩ := x
    simp only [objInsert]
    split
    · simp only [JVal.depthO]; omega
    · split
      · simp only [JVal.depthO]; omega
      · simp only [JVal.depthO]; omega

theorem depthO_objOfList_le (l : List (Str × JVal)) : JVal.depthO (objOfList l) ≤ JVal.depthO l := by
  have key : ∀ (l : List (Str × JVal)) (acc : JObj),
      JVal.depthO (l.foldl (fun acc p => objInsert p.1 p.2 acc) acc) ≤ max (JVal.depthO acc) (JVal.depthO l) := by
    intro l
    induction l with
    | nil => intro acc; simp [JVal.depthO]
    | cons x xs ih =>
      intro acc
      obtain ⟨k, v⟩ := x
      simp only [List.foldl_cons, JVal.depthO]
      have h1 := ih (objInsert k v acc)
      have h2 := depthO_objInsert_le k v acc
      omega
  have := key l []
  simpa [objOfList, JVal.depthO] using this

theorem depthO_filter_le (o : JObj) (p : Str × JVal → Bool) : JVal.depthO (o.filter p) ≤ JVal.depthO o := by
  rw [depthO_le_iff]
  intro q hq
  exact depth_le_of_memO (List.mem_filter.mp hq).1

theorem depth_objGet_le {k : Str} {o : JObj} {v : JVal} (h : objGet k o = some v) : v.depth ≤ JVal.depthO o := by
  induction o with
  | nil => simp [objGet] at h
  | cons x xs ih =>
    obtain ⟨k', v'⟩ := x
    simp only [objGet] at h
    split at h
    · cases h; simp only [JVal.depthO]; omega
    · have := ih h; simp only [JVal.depthO]; omega

/-! ### The guard decides the depth -/

mutual
/-- `nested_deeper_than(v, n)` is exactly `n < depth v` -/
theorem nestedDeeperThan_iff : ∀ (v : JVal) (n : Nat), nestedDeeperThan v n = true ↔ n < v.depth
  | .null, n => by simp [nestedDeeperThan, JVal.depth]
  | .bool _, n => by simp [nestedDeeperThan, JVal.depth]
  | .num _, n => by simp [nestedDeeperThan, JVal.depth]
  | .str _, n => by simp [nestedDeeperThan, JVal.depth]
  | .arr l, n => by
    simp only [nestedDeeperThan, JVal.depth, Bool.or_eq_true, beq_iff_eq, nestedDeeperThanL_iff l (n - 1)]
    omega
  | .obj o, n => by
    simp only [nestedDeeperThan, JVal.depth, Bool.or_eq_true, beq_iff_eq, nestedDeeperThanO_iff o (n - 1)]
    omega
theorem nestedDeeperThanL_iff : ∀ (l : List JVal) (n : Nat), nestedDeeperThanL l n = true ↔ n < JVal.depthL l
  | [], n => by simp [nestedDeeperThanL, JVal.depthL]
  | v :: t, n => by
    simp only [nestedDeeperThanL, JVal.depthL, Bool.or_eq_true, nestedDeeperThan_iff v n, nestedDeeperThanL_iff t n]
    omega
theorem nestedDeeperThanO_iff : ∀ (o : JObj) (n : Nat), nestedDeeperThanO o n = true ↔ n < JVal.depthO o
  | [], n => by simp [nestedDeeperThanO, JVal.depthO]
  | (_, v) :: t, n => by
    simp only [nestedDeeperThanO, JVal.depthO, Bool.or_eq_true, nestedDeeperThan_iff v n, nestedDeeperThanO_iff t n]
    omega
end

/-- **`is_too_deep` refuses exactly the objects nested more than `MAX_NESTING_DEPTH` = 100 levels** -/
theorem isTooDeep_iff (o : JObj) : isTooDeep o = true ↔ MAX_NESTING_DEPTH < (JVal.obj o).depth := by
  unfold isTooDeep
  rw [nestedDeeperThanO_iff]
  simp only [MAX_NESTING_DEPTH, JVal.depth]
  omega

theorem isTooDeep_false_iff (o : JObj) : isTooDeep o = false ↔ (JVal.obj o).depth ≤ MAX_NESTING_DEPTH := by
  rw [← Bool.not_eq_true, isTooDeep_iff]; omega

/-- what passes the guard is below the parser's limit, with 27 levels to spare (a stored object is parsed
    alone, commit information inside its block object, a staged body inside two objects of an export) -/
theorem accepted_below_limit {o : JObj} (h : isTooDeep o = false) : (JVal.obj o).depth + 27 < RECURSION_LIMIT := by
  have := (isTooDeep_false_iff o).mp h
  simp only [MAX_NESTING_DEPTH, RECURSION_LIMIT] at *
  omega

/-- **an object the guard accepts is read back from its stored bytes** -/
theorem accepted_object_reads_back {o : JObj} (hc : Canon (.obj o)) (h : isTooDeep o = false) :
    parseJsonBytes (JVal.obj o).renderBytes = some (.obj o) :=
  parseJsonBytes_renderBytes _ hc (by have := accepted_below_limit h; omega)

/-- ... and without the guard an object nested 128 levels or more would be written and never read again -/
theorem unguarded_object_lost {o : JObj} (hc : Canon (.obj o)) (h : RECURSION_LIMIT ≤ (JVal.obj o).depth) :
    parseJsonBytes (JVal.obj o).renderBytes = none :=
  parseJsonBytes_renderBytes_deep _ hc h

/-- the commit guard: information that is an object and not refused is at most 100 levels deep -/
theorem info_depth_of_not_refused {info : Option JVal} (hr : DState.commitRefusesInfo info = false)
    (hobj : ∀ i, info = some i → ∃ o, i = .obj o) : ∀ i, info = some i → i.depth ≤ MAX_NESTING_DEPTH := by
  intro i hi
  obtain ⟨o, rfl⟩ := hobj i hi
  subst hi
  simp only [DState.commitRefusesInfo] at hr
  exact (isTooDeep_false_iff o).mp hr

/-! ### Non-vacuity: concrete values on both sides of both limits -/

/-- `n` arrays around a `1` -/
def nest : Nat → JVal
  | 0 => .num ['1']
  | n + 1 => .arr [nest n]

theorem nest_depth (n : Nat) : (nest n).depth = n := by
  induction n with
  | zero => rfl
  | succ n ih => simp [nest, JVal.depth, JVal.depthL, ih]

theorem nest_canon (n : Nat) : Canon (nest n) := by
  induction n with
  | zero =>
    simp only [nest, Canon]
    intro rest h
    rcases numStop_cases h with rfl | ⟨c, t, rfl, rfl | rfl | rfl⟩ <;>
      simp [parseNum, takeDigits, isDigit]
  | succ n ih => simp [nest, Canon, CanonL, ih]

/-- `{"n": [[…1…]]}` with 99 brackets is accepted, with 100 refused -/
example : isTooDeep [(['n'], nest 99)] = false := by
  rw [isTooDeep_false_iff]; simp [JVal.depth, JVal.depthO, nest_depth, MAX_NESTING_DEPTH]
example : isTooDeep [(['n'], nest 100)] = true := by
  rw [isTooDeep_iff]; simp [JVal.depth, JVal.depthO, nest_depth, MAX_NESTING_DEPTH]
/-- 127 levels are read back, 128 are not -/
example : parseJsonLim (nest 127).render = some (nest 127) :=
  parseJsonLim_render _ (nest_canon _) (by rw [nest_depth]; decide)
example : parseJsonLim (nest 128).render = none :=
  parseJsonLim_render_deep _ (nest_canon _) (by rw [nest_depth]; decide)

end Melda.Props.Depth
