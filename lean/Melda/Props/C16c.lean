/-
  C16c — the edit-script encoder never fails (totality of `make_diff_patch`; properties C16, C08).
  1. `total_of_middle`: `myers_unfilled` returns `none` only through (i) the middle-snake search
     failing on a PROPER area (positive width and height, trimmed) or (ii) fuel exhaustion; under
     `MiddleInArea` + `MiddleTotal` + `Progress` the model's fuel `|a|+|b|+2` suffices.
     `MiddleInArea` alone is not enough (`midLoop_exhausts`). `progress_of_corner`: `Progress`
     follows from the corner form `CornerProgress`.
  2. `middleSnake_core` / `middleSnake_some`: the ported `myers_middle_move` returns a snake on every
     proper area (never `panic!("This can't be")`), by an invariant on the V arrays.
  3. `middleSnake_progress`: the returned snake makes the recursion's measure decrease.
  4. `makeDiffPatch_total`, `diff_roundtrip_total`. No hypothesis left.
-/
import Melda.Props.C16
namespace Melda.Props.C16c
open Melda Melda.Props.C16

section Reduction
variable {α : Type} [DecidableEq α]

/-- the measure the recursion fuel is compared with -/
def Area.size (r : Area) : Nat := r.n + r.m

/-- an area on which `myers_moves` calls the middle-snake search: inside the edit graph, positive
    width and height, and trimmed (first pair differs, last pair differs). -/
def Proper (a b : List α) (r : Area) : Prop :=
  AreaOk a b r ∧ 0 < r.n ∧ 0 < r.m ∧ a[r.tl.x]? ≠ b[r.tl.y]? ∧ a[r.br.x - 1]? ≠ b[r.br.y - 1]?

/-- what `Area::trim` guarantees -/
def TrimmedOrFlat (a b : List α) (r : Area) : Prop :=
  r.n = 0 ∨ r.m = 0 ∨ (a[r.tl.x]? ≠ b[r.tl.y]? ∧ a[r.br.x - 1]? ≠ b[r.br.y - 1]?)

/-- (i) the search answers on every proper area -/
def MiddleTotal (a b : List α) (middle : List α → List α → Area → Option (Pt × Pt)) : Prop :=
  ∀ r, Proper a b r → (middle a b r).isSome

/-- (ii) the three sub-areas the recursion descends into (after trimming, as in the code) are
    strictly smaller than the area -/
def Progress (a b : List α) (middle : List α → List α → Area → Option (Pt × Pt)) : Prop :=
  ∀ r top bottom, Proper a b r → middle a b r = some (top, bottom) →
    Area.size (trim a b r.tl top) < Area.size r ∧
    Area.size (trim a b top bottom) < Area.size r ∧
    Area.size (trim a b bottom r.br) < Area.size r

theorem trimFront_stop (a b : List α) : ∀ (fuel : Nat) (tl br : Pt), br.x - tl.x < fuel →
    ¬ ((trimFront a b fuel tl br).x < br.x ∧ (trimFront a b fuel tl br).y < br.y ∧
       a[(trimFront a b fuel tl br).x]? = b[(trimFront a b fuel tl br).y]? ∧
       a[(trimFront a b fuel tl br).x]?.isSome) := by
  intro fuel
  induction fuel with
  | zero => intro tl br h; omega
  | succ f ih =>
    intro tl br h
    unfold trimFront
    split
    · next hc =>
      exact ih ⟨tl.x + 1, tl.y + 1⟩ br (by simp only; omega)
    · next hc => exact hc

theorem trimBack_stop (a b : List α) : ∀ (fuel : Nat) (tl br : Pt), br.x - tl.x < fuel →
    ¬ ((trimBack a b fuel tl br).x > tl.x ∧ (trimBack a b fuel tl br).y > tl.y ∧
       a[(trimBack a b fuel tl br).x - 1]? = b[(trimBack a b fuel tl br).y - 1]? ∧
       a[(trimBack a b fuel tl br).x - 1]?.isSome) := by
  intro fuel
  induction fuel with
  | zero => intro tl br h; omega
  | succ f ih =>
    intro tl br h
    unfold trimBack
    split
    · next hc =>
      exact ih tl ⟨br.x - 1, br.y - 1⟩ (by simp only; omega)
    · next hc => exact hc

/-- the result of `Area::trim` is flat or has differing first and last pairs -/
theorem trim_trimmed (a b : List α) (tl br : Pt) (h1 : tl.x ≤ br.x) (h2 : tl.y ≤ br.y)
    (h3 : br.x ≤ a.length) : TrimmedOrFlat a b (trim a b tl br) := by
  obtain ⟨f1, f2, f3, f4, _⟩ := trimFront_spec a b (br.x - tl.x + 1) tl br h1 h2
  have hf := trimFront_stop a b (br.x - tl.x + 1) tl br (by omega)
  obtain ⟨k1, k2, k3, k4, _⟩ := trimBack_spec a b
    (br.x - (trimFront a b (br.x - tl.x + 1) tl br).x + 1) (trimFront a b (br.x - tl.x + 1) tl br) br f3 f4
  have hb := trimBack_stop a b
    (br.x - (trimFront a b (br.x - tl.x + 1) tl br).x + 1) (trimFront a b (br.x - tl.x + 1) tl br) br (by omega)
  unfold TrimmedOrFlat trim Area.n Area.m
  simp only
  generalize trimFront a b (br.x - tl.x + 1) tl br = tl' at *
  generalize trimBack a b (br.x - tl'.x + 1) tl' br = br' at *
  by_cases hn : br'.x - tl'.x = 0
  · exact Or.inl hn
  by_cases hm : br'.y - tl'.y = 0
  · exact Or.inr (Or.inl hm)
  refine Or.inr (Or.inr ⟨?_, ?_⟩)
  · intro e
    apply hf
    refine ⟨by omega, by omega, e, ?_⟩
    have : tl'.x < a.length := by omega
    simp [this]
  · intro e
    apply hb
    refine ⟨by omega, by omega, e, ?_⟩
    have : br'.x - 1 < a.length := by omega
    simp [this]

theorem trim_size_le (a b : List α) (tl br : Pt) (h1 : tl.x ≤ br.x) (h2 : tl.y ≤ br.y)
    (h3 : br.x ≤ a.length) (h4 : br.y ≤ b.length) :
    Area.size (trim a b tl br) ≤ (br.x - tl.x) + (br.y - tl.y) := by
  obtain ⟨⟨o1, o2, _, _⟩, _, _, t1, t2, t3, t4⟩ := trim_spec a b tl br h1 h2 h3 h4
  unfold Area.size Area.n Area.m
  omega

/-- the recursion: with `size r < fuel`, `myersMoves` answers. -/
theorem myersMoves_some (a b : List α) (middle : List α → List α → Area → Option (Pt × Pt))
    (hmid : MiddleInArea a b middle) (htot : MiddleTotal a b middle) (hprog : Progress a b middle) :
    ∀ (fuel : Nat) (r : Area) (acc : List Move), AreaOk a b r → TrimmedOrFlat a b r →
      Area.size r < fuel → (myersMoves a b middle fuel r acc).isSome := by
  intro fuel
  induction fuel with
  | zero => intro r acc _ _ h; omega
  | succ f ih =>
    intro r acc hr ht hs
    unfold myersMoves
    split
    · rfl
    · next h0 =>
      split
      · split
        · split <;> rfl
        · rfl
      · next hn =>
        split
        · split
          · split <;> rfl
          · rfl
        · next hm =>
          have hp : Proper a b r := by
            rcases ht with h | h | h
            · exact absurd h hn
            · exact absurd h hm
            · exact ⟨hr, by omega, by omega, h.1, h.2⟩
          obtain ⟨r1, r2, r3, r4⟩ := hr
          cases hmd : middle a b r with
          | none => have := htot r hp; simp [hmd] at this
          | some tb =>
            obtain ⟨top, bottom⟩ := tb
            simp only
            obtain ⟨m1, m2, m3, m4, m5, m6⟩ := hmid r top bottom ⟨r1, r2, r3, r4⟩ hmd
            obtain ⟨p1, p2, p3⟩ := hprog r top bottom hp hmd
            obtain ⟨o1, _⟩ := trim_spec a b r.tl top m1 m2 (by omega) (by omega)
            obtain ⟨o2, _⟩ := trim_spec a b top bottom m3 m4 (by omega) (by omega)
            obtain ⟨o3, _⟩ := trim_spec a b bottom r.br m5 m6 r3 r4
            have t1 := trim_trimmed a b r.tl top m1 m2 (by omega)
            have t2 := trim_trimmed a b top bottom m3 m4 (by omega)
            have t3 := trim_trimmed a b bottom r.br m5 m6 r3
            have i1 := ih _ acc o1 t1 (by omega)
            cases h1 : myersMoves a b middle f (trim a b r.tl top) acc with
            | none => simp [h1] at i1
            | some acc1 =>
              simp only
              have i2 := ih _ acc1 o2 t2 (by omega)
              cases h2 : myersMoves a b middle f (trim a b top bottom) acc1 with
              | none => simp [h2] at i2
              | some acc2 =>
                simp only
                exact ih _ acc2 o3 t3 (by omega)

/-- **1. `total_of_middle`.** `myers_unfilled` returns `none` only through (i) the middle-snake
    search failing on a proper area or (ii) fuel exhaustion; if the search answers inside the area
    (`MiddleInArea`), always answers on proper areas (`MiddleTotal`) and makes progress
    (`Progress`), the fuel `|a| + |b| + 2` supplied by the model is sufficient. -/
theorem total_of_middle (a b : List α) (middle : List α → List α → Area → Option (Pt × Pt))
    (hmid : MiddleInArea a b middle) (htot : MiddleTotal a b middle) (hprog : Progress a b middle) :
    (myersUnfilled a b middle).isSome := by
  unfold myersUnfilled
  rw [Option.isSome_map]
  obtain ⟨o, _⟩ := trim_spec a b ⟨0, 0⟩ ⟨a.length, b.length⟩ (Nat.zero_le _) (Nat.zero_le _)
    (Nat.le_refl _) (Nat.le_refl _)
  have t := trim_trimmed a b ⟨0, 0⟩ ⟨a.length, b.length⟩ (Nat.zero_le _) (Nat.zero_le _) (Nat.le_refl _)
  have s := trim_size_le a b ⟨0, 0⟩ ⟨a.length, b.length⟩ (Nat.zero_le _) (Nat.zero_le _)
    (Nat.le_refl _) (Nat.le_refl _)
  exact myersMoves_some a b middle hmid htot hprog _ _ [] o t (by simp only at s; omega)

end Reduction

/-! ### `MiddleInArea` alone does not give totality: a search that answers a corner loops -/

/-- answers the bottom-right corner: inside the area, but the first sub-area is the area itself -/
def midLoop {α : Type} : List α → List α → Area → Option (Pt × Pt) :=
  fun _ _ r => some (r.br, r.br)

theorem midLoop_inArea {α : Type} (a b : List α) : MiddleInArea a b midLoop := by
  intro r top bottom hr h
  simp only [midLoop, Option.some.injEq, Prod.mk.injEq] at h
  obtain ⟨rfl, rfl⟩ := h
  unfold AreaOk at hr; unfold InArea; omega

/-- (in Rust: unbounded recursion; in the model: fuel exhausted) -/
theorem midLoop_exhausts : myersUnfilled [1] [2] midLoop = none := by decide

/-! ## 2/3. The algorithmic core, in corner form

  `CornerProgress`: the snake returned is not "degenerate at a corner": `top ≠ br`, `bottom ≠ tl`
  and not (`top = tl` and `bottom = br`). Together with `MiddleInArea` this implies `Progress`
  (`progress_of_corner`), because `trim` never enlarges an area. -/

section Corner
variable {α : Type} [DecidableEq α]

def CornerProgress (a b : List α) (middle : List α → List α → Area → Option (Pt × Pt)) : Prop :=
  ∀ r top bottom, Proper a b r → middle a b r = some (top, bottom) →
    top ≠ r.br ∧ bottom ≠ r.tl ∧ ¬ (top = r.tl ∧ bottom = r.br)

theorem pt_eq (p q : Pt) (hx : p.x = q.x) (hy : p.y = q.y) : p = q := by
  cases p; cases q; simp_all

theorem pt_ne_cases (p q : Pt) (h : p ≠ q) : p.x ≠ q.x ∨ p.y ≠ q.y := by
  by_cases hx : p.x = q.x
  · by_cases hy : p.y = q.y
    · exact absurd (pt_eq _ _ hx hy) h
    · exact Or.inr hy
  · exact Or.inl hx

theorem ar1 (tx ty px py bx by' s : Nat) (h1 : tx ≤ px) (h2 : ty ≤ py) (h3 : px ≤ bx) (h4 : py ≤ by')
    (hs : s ≤ (px - tx) + (py - ty)) (hd : px ≠ bx ∨ py ≠ by') : s < (bx - tx) + (by' - ty) := by
  omega

theorem ar3 (tx ty px py bx by' s : Nat) (h1 : tx ≤ px) (h2 : ty ≤ py) (h3 : px ≤ bx) (h4 : py ≤ by')
    (hs : s ≤ (bx - px) + (by' - py)) (hd : px ≠ tx ∨ py ≠ ty) : s < (bx - tx) + (by' - ty) := by
  omega

theorem ar2 (tx ty px py qx qy bx by' s : Nat) (h1 : tx ≤ px) (h2 : ty ≤ py) (h3 : px ≤ qx) (h4 : py ≤ qy)
    (h5 : qx ≤ bx) (h6 : qy ≤ by')
    (hs : s ≤ (qx - px) + (qy - py)) (hd : px ≠ tx ∨ py ≠ ty ∨ qx ≠ bx ∨ qy ≠ by') :
    s < (bx - tx) + (by' - ty) := by
  omega

theorem progress_of_corner (a b : List α) (middle : List α → List α → Area → Option (Pt × Pt))
    (hmid : MiddleInArea a b middle) (hc : CornerProgress a b middle) : Progress a b middle := by
  intro r top bottom hp hm
  obtain ⟨c1, c2, c3⟩ := hc r top bottom hp hm
  obtain ⟨⟨r1, r2, r3, r4⟩, hn, hmm, _, _⟩ := hp
  obtain ⟨m1, m2, m3, m4, m5, m6⟩ := hmid r top bottom ⟨r1, r2, r3, r4⟩ hm
  have s1 := trim_size_le a b r.tl top m1 m2 (by omega) (by omega)
  have s2 := trim_size_le a b top bottom m3 m4 (by omega) (by omega)
  have s3 := trim_size_le a b bottom r.br m5 m6 r3 r4
  have d1 := pt_ne_cases _ _ c1
  have d2 := pt_ne_cases _ _ c2
  have d3 : top.x ≠ r.tl.x ∨ top.y ≠ r.tl.y ∨ bottom.x ≠ r.br.x ∨ bottom.y ≠ r.br.y := by
    by_cases h12 : top = r.tl
    · have h34 : bottom ≠ r.br := fun e => c3 ⟨h12, e⟩
      rcases pt_ne_cases _ _ h34 with h | h
      · exact Or.inr (Or.inr (Or.inl h))
      · exact Or.inr (Or.inr (Or.inr h))
    · rcases pt_ne_cases _ _ h12 with h | h
      · exact Or.inl h
      · exact Or.inr (Or.inl h)
  unfold Area.n at hn
  unfold Area.m at hmm
  refine ⟨?_, ?_, ?_⟩
  · exact ar1 _ _ _ _ _ _ _ m1 m2 (by omega) (by omega) s1 d1
  · exact ar2 _ _ _ _ _ _ _ _ _ m1 m2 m3 m4 m5 m6 s2 d3
  · exact ar3 _ _ _ _ _ _ _ (by omega) (by omega) m5 m6 s3 d2

/-- the algorithmic core (proved below, `snakeCore`): on every proper area the ported
    `myers_middle_move` answers, and not degenerately. -/
def SnakeCore (a b : List α) : Prop :=
  ∀ r, Proper a b r → ∃ top bottom, middleSnake a b r = some (top, bottom) ∧
    top ≠ r.br ∧ bottom ≠ r.tl ∧ ¬ (top = r.tl ∧ bottom = r.br)

theorem middleTotal_of_core (a b : List α) (h : SnakeCore a b) : MiddleTotal a b middleSnake := by
  intro r hp
  obtain ⟨t, bo, e, _⟩ := h r hp
  simp [e]

theorem cornerProgress_of_core (a b : List α) (h : SnakeCore a b) : CornerProgress a b middleSnake := by
  intro r top bottom hp hm
  obtain ⟨t, bo, e, c⟩ := h r hp
  rw [e] at hm
  simp only [Option.some.injEq, Prod.mk.injEq] at hm
  obtain ⟨rfl, rfl⟩ := hm
  exact c

theorem progress_of_core (a b : List α) (h : SnakeCore a b) : Progress a b middleSnake :=
  progress_of_corner a b middleSnake (middleSnake_inArea a b) (cornerProgress_of_core a b h)

theorem myersUnfilled_total_of_core (a b : List α) (h : SnakeCore a b) :
    (myersUnfilled a b middleSnake).isSome :=
  total_of_middle a b middleSnake (middleSnake_inArea a b) (middleTotal_of_core a b h)
    (progress_of_core a b h)

end Corner

/-! ## 2/3 (proof). The ported `myers_middle_move` on a proper area

  Local coordinates: `x ∈ [0,n]`, `y ∈ [0,m]`, `n = r.n ≥ 1`, `m = r.m ≥ 1`, `mx = n + m`; the V arrays
  are indexed by `k + mx`. Sweep `d` visits the diagonals `InK n m d k`
  (`kmin(d) ≤ k ≤ kmax(d)`, `k ≡ d mod 2`). What makes the argument delicate:
    * stored points CAN lie below the box (`y > m`): e.g. `a = [1,2,3]`, `b = [4,1]`, sweep 2,
      diagonal −2 stores `x = 1`, i.e. the point `(1,3)` with `m = 2`. They never lie right of it.
    * the overlap test `x ≥ n - vb[..]` reads entries of the other array that may be stale or never
      written (0); `contains` failing just continues the loop.
  The proof does NOT need Myers' optimality argument. Invariant of a completed sweep `d` (`PtOK`,
  `SInv`): `x + y ≥ d`; `x ≤ n-1`; on diagonal `k = d`, `y ≤ m`; points with `y ≥ m` have `x ≤ n-2`
  (because `(n-1,m)` would have passed the overlap test against diagonal 1 of the other direction,
  whose entry is ≥ 1 from sweep 1 on); points with `y > m` were reached by a DOWN move and the next
  diagonal is at least one column further (`Lip`). Consequences: every time a sweep reaches `x = n`
  the test passes and `contains` holds (so `AtDest` never fires), the start point of a returned
  snake is neither `(0,0)` nor `(n,m)`, and at `d = n`, `k = n` a snake is returned at the latest. -/

section Core
variable {α : Type} [DecidableEq α]

theorem vset_size (v : Array Int) (i x : Int) : (vset v i x).size = v.size := by
  unfold vset; split <;> simp

theorem vget_vset (v : Array Int) (i j x : Int) (hi : 0 ≤ i) (hs : i.toNat < v.size) :
    vget (vset v i x) j = if j = i then x else vget v j := by
  unfold vget vset
  have h1 : ¬ i < 0 := by omega
  simp only [h1, if_false]
  by_cases hj : j < 0
  · have : j ≠ i := by omega
    simp [hj, this]
  · simp only [hj, if_false]
    by_cases e : j = i
    · subst e
      simp [Array.getD_eq_getD_getElem?, Array.getElem?_setIfInBounds, hs]
    · have : ¬ i.toNat = j.toNat := by omega
      simp [Array.getD_eq_getD_getElem?, Array.getElem?_setIfInBounds, this, e]

theorem follow_spec (eqAt : Int → Int → Bool) (n m : Int) : ∀ (fuel : Nat) (x y : Int),
    x ≤ (follow eqAt n m fuel x y).1 ∧
    (follow eqAt n m fuel x y).1 - x = (follow eqAt n m fuel x y).2 - y ∧
    (x ≤ n → (follow eqAt n m fuel x y).1 ≤ n) ∧
    (y ≤ m → (follow eqAt n m fuel x y).2 ≤ m) ∧
    (¬ (x < n ∧ y < m) → follow eqAt n m fuel x y = (x, y)) := by
  intro fuel
  induction fuel with
  | zero => intro x y; simp [follow]
  | succ f ih =>
    intro x y
    unfold follow
    split
    · next hc =>
      obtain ⟨i1, i2, i3, i4, _⟩ := ih (x + 1) (y + 1)
      refine ⟨by omega, by omega, fun _ => i3 (by omega), fun _ => i4 (by omega), fun h => absurd ⟨hc.1, hc.2.1⟩ h⟩
    · simp

theorem follow_false (eqAt : Int → Int → Bool) (n m : Int) (fuel : Nat) (x y : Int)
    (h : eqAt x y = false) : follow eqAt n m fuel x y = (x, y) := by
  cases fuel with
  | zero => rfl
  | succ f => unfold follow; simp [h]

def x0Of (d max : Int) (v : Array Int) (k : Int) : Int :=
  if k = -d ∨ (k ≠ d ∧ vget v (k - 1 + max) < vget v (k + 1 + max)) then vget v (k + 1 + max)
  else vget v (k - 1 + max) + 1

def eqAtOf (a b : List α) (r : Area) (fwd : Bool) : Int → Int → Bool := fun x y =>
  if fwd then
    (a[(r.tl.x + x.toNat)]? == b[(r.tl.y + y.toNat)]?) && a[(r.tl.x + x.toNat)]?.isSome
  else
    (a[(r.br.x - 1 - x.toNat)]? == b[(r.br.y - 1 - y.toNat)]?) && a[(r.br.x - 1 - x.toNat)]?.isSome

def endOf (a b : List α) (r : Area) (fwd : Bool) (d max : Int) (v : Array Int) (k : Int) : Int × Int :=
  follow (eqAtOf a b r fwd) r.n r.m (r.n + r.m + 1) (x0Of d max v k) (x0Of d max v k - k)

def inBox (r : Area) (px py : Int) : Prop :=
  px ≥ r.tl.x ∧ px ≤ r.br.x ∧ py ≥ r.tl.y ∧ py ≤ r.br.y

instance (r : Area) (px py : Int) : Decidable (inBox r px py) := by unfold inBox; infer_instance

/-- the four coordinates the code tests with `contains`, and returns -/
def retPts (r : Area) (fwd : Bool) (k x0 x y : Int) : (Int × Int) × (Int × Int) :=
  if fwd then ((r.tl.x + x0, r.tl.y + (x0 - k)), (r.tl.x + x, r.tl.y + y))
  else ((r.tl.x + r.n - x, r.tl.y + r.m - y), (r.tl.x + r.n - x0, r.tl.y + r.m - (x0 - k)))

theorem match_ite {C : Prop} [Decidable C] (s : Pt × Pt) (f : Pt → Pt → KRes) (g : KRes) :
    (match (if C then some s else none) with
      | some (t, bo) => f t bo
      | none => g) = if C then f s.1 s.2 else g := by
  by_cases h : C <;> simp [h]

theorem sweep_eq (a b : List α) (r : Area) (fwd : Bool) (d max : Int) (other : Array Int)
    (fuel : Nat) (k kmax : Int) (v : Array Int) (hk : k ≤ kmax) :
    sweep a b r fwd d max other (fuel + 1) k kmax v =
      let x0 := x0Of d max v k
      let p := endOf a b r fwd d max v k
      let q := retPts r fwd k x0 p.1 p.2
      if d > 0 ∧ p.1 ≥ r.n - vget other (-k + r.n - r.m + max) ∧
          inBox r q.1.1 q.1.2 ∧ inBox r q.2.1 q.2.2 then
        .ret ⟨q.1.1.toNat, q.1.2.toNat⟩ ⟨q.2.1.toNat, q.2.2.toNat⟩
      else if p.1 ≥ r.n ∧ p.2 ≥ r.m then .atDest (vset v (k + max) p.1)
      else sweep a b r fwd d max other fuel (k + 2) kmax (vset v (k + max) p.1) := by
  have hk' : ¬ k > kmax := by omega
  rw [sweep]
  simp only [hk', if_false]
  unfold endOf
  generalize hx0 : x0Of d max v k = x0
  unfold x0Of at hx0
  simp only [hx0]
  unfold eqAtOf retPts inBox
  cases fwd <;> simp only [Bool.false_eq_true, if_false, if_true]
  all_goals
    generalize follow _ _ _ _ _ _ = p
    obtain ⟨x, y⟩ := p
    simp only
    by_cases c1 : d > 0
    · by_cases c2 : x ≥ ↑r.n - vget other (-k + ↑r.n - ↑r.m + max)
      · simp only [c1, c2, true_and, and_self, if_true]
        exact match_ite _ _ _
      · simp only [c2, and_false, false_and, if_false]
    · simp only [c1, false_and, if_false]

def kminOf (m d : Int) : Int := -d + (if d - m > 0 then d - m else 0) * 2
def kmaxOf (n d : Int) : Int := d - (if d - n > 0 then d - n else 0) * 2

/-- the diagonals visited by sweep `d` -/
def InK (n m d k : Int) : Prop := kminOf m d ≤ k ∧ k ≤ kmaxOf n d ∧ (k - d) % 2 = 0

/-- facts about the furthest point `x` stored for diagonal `k` by a completed sweep `d`
    (`y = x - k`; the point may lie BELOW the box, `y > m`, but never right of it) -/
def PtOK (n m d k x : Int) (full : Prop) : Prop :=
  2 * x - k ≥ d ∧ x ≤ n - 1 ∧ (k = d → x - k ≤ m) ∧ (d ≤ 1 → x - k ≤ m) ∧ (d = 0 → x = 0) ∧
  (full → x - k ≥ m → x ≤ n - 2)

theorem inK_bounds {n m d k : Int} (h : InK n m d k) : -d ≤ k ∧ k ≤ d ∧ (k - d) % 2 = 0 := by
  unfold InK kminOf kmaxOf at h; omega

theorem inK_left {n m d k : Int} (h : InK n m d k) (h1 : k ≠ -d) : InK n m (d - 1) (k - 1) := by
  unfold InK kminOf kmaxOf at *; omega

theorem inK_right {n m d k : Int} (h : InK n m d k) (h1 : k ≠ d) : InK n m (d - 1) (k + 1) := by
  unfold InK kminOf kmaxOf at *; omega

theorem x0_cases (d k xa xb x0 : Int)
    (hx0 : x0 = if k = -d ∨ (k ≠ d ∧ xa < xb) then xb else xa + 1) :
    (k = -d → x0 = xb) ∧ (k ≠ -d → k = d → x0 = xa + 1) ∧
    (k ≠ -d → k ≠ d → xa < xb → x0 = xb) ∧ (k ≠ -d → k ≠ d → ¬ xa < xb → x0 = xa + 1) := by
  subst hx0
  refine ⟨fun h => by simp [h], fun h1 h2 => ?_, fun h1 h2 h3 => by simp [h2, h3], fun h1 h2 h3 => by simp [h1, h3]⟩
  rw [if_neg]
  intro h; rcases h with h | h
  · exact h1 h
  · exact h.1 h2

theorem step_ret (n m d k xa xb x0 : Int)
    (hd : 1 ≤ d) (hk : InK n m d k)
    (hx0 : x0 = if k = -d ∨ (k ≠ d ∧ xa < xb) then xb else xa + 1)
    (ha : InK n m (d - 1) (k - 1) → PtOK n m (d - 1) (k - 1) xa True)
    (hb : InK n m (d - 1) (k + 1) → PtOK n m (d - 1) (k + 1) xb True) :
    ¬ (x0 = 0 ∧ x0 - k = 0) ∧ ¬ (x0 = n ∧ x0 - k = m) := by
  obtain ⟨c1, c2, c3, c4⟩ := x0_cases d k xa xb x0 hx0
  obtain ⟨b1, b2, b3⟩ := inK_bounds hk
  unfold PtOK at ha hb
  by_cases h1 : k = -d
  · obtain ⟨p1, p2, -, -, -, p6⟩ := hb (inK_right hk (by omega))
    have := c1 h1
    clear ha hb hx0 c1 c2 c3 c4 hk
    omega
  · obtain ⟨q1, q2, -, -, -, q6⟩ := ha (inK_left hk h1)
    have q6 := q6 trivial
    by_cases h2 : k = d
    · have := c2 h1 h2
      clear ha hb hx0 c1 c2 c3 c4 hk
      omega
    · obtain ⟨p1, p2, -, -, -, p6⟩ := hb (inK_right hk h2)
      by_cases h3 : xa < xb
      · have := c3 h1 h2 h3
        clear ha hb hx0 c1 c2 c3 c4 hk
        omega
      · have := c4 h1 h2 h3
        clear ha hb hx0 c1 c2 c3 c4 hk
        omega

/-- what the stored points of sweep `d-1` say about the start point `(x0, x0 - k)` of diagonal `k` -/
def StartOK (n m d k xa xb x0 : Int) : Prop :=
  2 * x0 - k ≥ d ∧ x0 ≤ n ∧ (x0 = n → x0 - k < m) ∧ (k = d → x0 - k ≤ m) ∧ (d ≤ 1 → x0 - k ≤ m) ∧
  (x0 - k > m → x0 ≤ n - 2) ∧ (x0 - k > m → x0 = xb) ∧ (k ≠ -d → x0 ≥ xa + 1)

theorem start_ok (n m d k xa xb x0 : Int)
    (hm : 1 ≤ m) (hd : 1 ≤ d) (hk : InK n m d k)
    (hx0 : x0 = if k = -d ∨ (k ≠ d ∧ xa < xb) then xb else xa + 1)
    (ha : InK n m (d - 1) (k - 1) → PtOK n m (d - 1) (k - 1) xa True)
    (hb : InK n m (d - 1) (k + 1) → PtOK n m (d - 1) (k + 1) xb True)
    (hlip : InK n m (d - 1) (k - 1) → InK n m (d - 1) (k + 1) → xa - (k - 1) > m → xb ≥ xa + 1) :
    StartOK n m d k xa xb x0 := by
  obtain ⟨c1, c2, c3, c4⟩ := x0_cases d k xa xb x0 hx0
  obtain ⟨b1, b2, b3⟩ := inK_bounds hk
  unfold PtOK at ha hb
  unfold StartOK
  by_cases h1 : k = -d
  · obtain ⟨p1, p2, p3, p4, p5, p6⟩ := hb (inK_right hk (by omega))
    have p6 := p6 trivial
    have e := c1 h1
    clear ha hb hx0 c1 c2 c3 c4 hk hlip
    refine ⟨by omega, by omega, by omega, by omega, ?_, by omega, by omega, by omega⟩
    intro hd1; have := p5 (by omega); omega
  · obtain ⟨q1, q2, q3, q4, q5, q6⟩ := ha (inK_left hk h1)
    have q6 := q6 trivial
    by_cases h2 : k = d
    · have e := c2 h1 h2
      clear ha hb hx0 c1 c2 c3 c4 hk hlip
      have q3 := q3 (by omega)
      refine ⟨by omega, by omega, by omega, by omega, by omega, by omega, by omega, by omega⟩
    · obtain ⟨p1, p2, p3, p4, p5, p6⟩ := hb (inK_right hk h2)
      have p6 := p6 trivial
      have hl := hlip (inK_left hk h1) (inK_right hk h2)
      have : d ≠ 1 := by omega
      by_cases h3 : xa < xb
      · have e := c3 h1 h2 h3
        clear ha hb hx0 c1 c2 c3 c4 hk hlip p3 p4 p5 q3 q4 q5
        refine ⟨by omega, by omega, by omega, by omega, by omega, by omega, by omega, by omega⟩
      · have e := c4 h1 h2 h3
        clear ha hb hx0 c1 c2 c3 c4 hk hlip p3 p4 p5 q3 q4 q5
        refine ⟨by omega, by omega, by omega, by omega, by omega, by omega, by omega, by omega⟩

theorem step_cont (n m d k xa xb x0 x y u1 one : Int) (full : Prop)
    (hn : 1 ≤ n) (hm : 1 ≤ m) (hd : 1 ≤ d) (hk : InK n m d k)
    (hs : StartOK n m d k xa xb x0)
    (f1 : x0 ≤ x) (hy : y = x - k) (f3 : x0 ≤ n → x ≤ n) (f4 : x0 - k ≤ m → y ≤ m)
    (f5 : ¬ (x0 < n ∧ x0 - k < m) → x = x0)
    (hu : 0 ≤ u1) (hone : full → 1 ≤ one) (hrk : k = n - 1 - m → u1 = one)
    (hno : ¬ (x ≥ n - u1 ∧ (0 ≤ x0 ∧ x0 ≤ n ∧ 0 ≤ x0 - k ∧ x0 - k ≤ m ∧ 0 ≤ x ∧ x ≤ n ∧ 0 ≤ y ∧ y ≤ m))) :
    PtOK n m d k x full ∧ (k ≠ -d → x ≥ xa + 1) ∧ (x - k > m → xb = x) ∧
    (x - k ≤ m → x < n - u1) ∧ ¬ (x ≥ n ∧ y ≥ m) ∧ 0 ≤ x := by
  obtain ⟨b1, b2, b3⟩ := inK_bounds hk
  obtain ⟨s1, s2, s3, s4, s5, s6, s7, s8⟩ := hs
  unfold PtOK
  subst hy
  clear hk
  by_cases hA : x0 < n ∧ x0 - k < m
  · have g3 := f3 (by omega)
    have g4 := f4 (by omega)
    clear f3 f4 f5 s3 s4 s5 s6 s7
    have hU : x ≤ n - 1 := by
      apply Classical.byContradiction; intro hc; apply hno
      refine ⟨by omega, by omega, by omega, by omega, by omega, by omega, by omega, by omega, by omega⟩
    have hNC : x < n - u1 := by
      apply Classical.byContradiction; intro hc; apply hno
      refine ⟨by omega, by omega, by omega, by omega, by omega, by omega, by omega, by omega, by omega⟩
    refine ⟨⟨by omega, hU, by omega, by omega, by omega, fun hf hym => ?_⟩, by omega, by omega, fun _ => hNC, by omega, by omega⟩
    have h1 := hone hf
    apply Classical.byContradiction; intro hc
    have := hrk (by omega)
    omega
  · have e := f5 hA
    subst e
    clear f3 f4 f5 f1
    have hU : x ≤ n - 1 := by
      apply Classical.byContradiction; intro hc
      have := s3 (by omega)
      apply hno
      refine ⟨by omega, by omega, by omega, by omega, by omega, by omega, by omega, by omega, by omega⟩
    have hNC : x - k ≤ m → x < n - u1 := by
      intro hle
      apply Classical.byContradiction; intro hc; apply hno
      refine ⟨by omega, by omega, by omega, by omega, by omega, by omega, by omega, by omega, by omega⟩
    refine ⟨⟨by omega, hU, s4, s5, by omega, fun hf hym => ?_⟩, s8, fun h => (s7 h).symm, hNC, by omega, by omega⟩
    have h1 := hone hf
    by_cases hgt : x - k > m
    · exact s6 hgt
    · apply Classical.byContradiction; intro hc
      have := hrk (by omega)
      have := hNC (by omega)
      omega

def NN (v : Array Int) : Prop := ∀ i, 0 ≤ vget v i

/-- invariant of a completed sweep `d` on its V array -/
def SInv (n m mx d : Int) (v : Array Int) (full : Prop) : Prop :=
  ∀ k, InK n m d k →
    PtOK n m d k (vget v (k + mx)) full ∧
    (InK n m d (k + 2) → vget v (k + mx) - k > m → vget v (k + 2 + mx) ≥ vget v (k + mx) + 1)

/-- per-diagonal facts while sweep `d` is in progress -/
def QOK (n m mx d k : Int) (v other : Array Int) (full : Prop) : Prop :=
  PtOK n m d k (vget v (k + mx)) full ∧
  (k ≠ -d → vget v (k + mx) ≥ vget v (k - 1 + mx) + 1) ∧
  (vget v (k + mx) - k > m → vget v (k + 1 + mx) = vget v (k + mx)) ∧
  (vget v (k + mx) - k ≤ m → vget v (k + mx) < n - vget other (-k + n - m + mx))

def CornerOK (r : Area) (t bo : Pt) : Prop := t ≠ r.br ∧ bo ≠ r.tl ∧ ¬ (t = r.tl ∧ bo = r.br)

theorem corner_of_ret (r : Area) (fwd : Bool) (k x0 x y : Int)
    (hr1 : r.tl.x ≤ r.br.x) (hr2 : r.tl.y ≤ r.br.y)
    (hbox : inBox r (retPts r fwd k x0 x y).1.1 (retPts r fwd k x0 x y).1.2 ∧
            inBox r (retPts r fwd k x0 x y).2.1 (retPts r fwd k x0 x y).2.2)
    (f1 : x0 ≤ x) (hy : y = x - k)
    (h0 : ¬ (x0 = 0 ∧ x0 - k = 0)) (hN : ¬ (x0 = (r.n : Int) ∧ x0 - k = (r.m : Int))) :
    CornerOK r ⟨(retPts r fwd k x0 x y).1.1.toNat, (retPts r fwd k x0 x y).1.2.toNat⟩
      ⟨(retPts r fwd k x0 x y).2.1.toNat, (retPts r fwd k x0 x y).2.2.toNat⟩ := by
  unfold CornerOK
  have e1 : ∀ p : Pt, p = r.br ↔ (p.x = r.br.x ∧ p.y = r.br.y) := by
    intro p; constructor
    · intro h; subst h; exact ⟨rfl, rfl⟩
    · intro h; exact pt_eq _ _ h.1 h.2
  have e2 : ∀ p : Pt, p = r.tl ↔ (p.x = r.tl.x ∧ p.y = r.tl.y) := by
    intro p; constructor
    · intro h; subst h; exact ⟨rfl, rfl⟩
    · intro h; exact pt_eq _ _ h.1 h.2
  rw [Ne, Ne, e1, e2, e2, e1]
  unfold retPts inBox Area.n Area.m at *
  cases fwd <;> simp only [Bool.false_eq_true, if_false, if_true] at hbox ⊢ <;> omega


theorem box_of (r : Area) (fwd : Bool) (k x0 x y : Int)
    (hr1 : r.tl.x ≤ r.br.x) (hr2 : r.tl.y ≤ r.br.y)
    (h : 0 ≤ x0 ∧ x0 ≤ r.n ∧ 0 ≤ x0 - k ∧ x0 - k ≤ r.m ∧ 0 ≤ x ∧ x ≤ r.n ∧ 0 ≤ y ∧ y ≤ r.m) :
    inBox r (retPts r fwd k x0 x y).1.1 (retPts r fwd k x0 x y).1.2 ∧
    inBox r (retPts r fwd k x0 x y).2.1 (retPts r fwd k x0 x y).2.2 := by
  unfold retPts inBox Area.n Area.m at *
  cases fwd <;> simp only [Bool.false_eq_true, if_false, if_true] <;> omega

def SweepPost (r : Area) (n m mx d : Int) (other : Array Int) (full : Prop) (k : Int)
    (v : Array Int) : KRes → Prop
  | .ret t bo => CornerOK r t bo
  | .atDest _ => False
  | .cont v' => v'.size = v.size ∧ NN v' ∧ (∀ j, InK n m d j → QOK n m mx d j v' other full) ∧
      (∀ i, (∀ j, InK n m d j → k ≤ j → i ≠ j + mx) → vget v' i = vget v i)

theorem sweep_stop (a b : List α) (r : Area) (fwd : Bool) (d max : Int) (other : Array Int)
    (fuel : Nat) (k kmax : Int) (v : Array Int) (hk : k > kmax) :
    sweep a b r fwd d max other fuel k kmax v = .cont v := by
  cases fuel with
  | zero => rfl
  | succ f => rw [sweep]; simp [hk]

theorem sweep_inv (a b : List α) (r : Area) (fwd : Bool) (d mx : Int) (other : Array Int) (full : Prop)
    (hr1 : r.tl.x ≤ r.br.x) (hr2 : r.tl.y ≤ r.br.y)
    (hn : 1 ≤ (r.n : Int)) (hm : 1 ≤ (r.m : Int)) (hmx : mx = (r.n : Int) + r.m)
    (hd : 1 ≤ d) (hdn : d ≤ r.n)
    (hoNN : NN other) (hone : full → 1 ≤ vget other (1 + mx)) :
    ∀ (fuel : Nat) (k : Int) (v : Array Int), (k - d) % 2 = 0 → kminOf r.m d ≤ k →
      2 * (fuel : Int) ≥ kmaxOf r.n d - k + 2 → v.size = 2 * (r.n + r.m) + 1 → NN v →
      SInv r.n r.m mx (d - 1) v True →
      (∀ j, InK r.n r.m d j → j < k → QOK r.n r.m mx d j v other full) →
      SweepPost r r.n r.m mx d other full k v
        (sweep a b r fwd d mx other fuel k (kmaxOf r.n d) v) := by
  intro fuel
  induction fuel with
  | zero =>
    intro k v hpar hkmin hfuel hsz hnn hprev hq
    show SweepPost _ _ _ _ _ _ _ _ _ (.cont v)
    refine ⟨rfl, hnn, fun j hj => hq j hj ?_, fun i _ => rfl⟩
    have := hj.2.1
    omega
  | succ f ih =>
    intro k v hpar hkmin hfuel hsz hnn hprev hq
    by_cases hkk : k ≤ kmaxOf r.n d
    · have hk : InK r.n r.m d k := ⟨hkmin, hkk, hpar⟩
      obtain ⟨b1, b2, _⟩ := inK_bounds hk
      rw [sweep_eq a b r fwd d mx other f k _ v hkk]
      dsimp only
      unfold endOf
      generalize hx0 : x0Of d mx v k = x0
      have hfs := follow_spec (eqAtOf a b r fwd) r.n r.m (r.n + r.m + 1) x0 (x0 - k)
      generalize follow (eqAtOf a b r fwd) r.n r.m (r.n + r.m + 1) x0 (x0 - k) = p at hfs ⊢
      obtain ⟨x, y⟩ := p
      simp only at hfs ⊢
      obtain ⟨f1, f2, f3, f4, f5⟩ := hfs
      have hy : y = x - k := by omega
      have hx0' : x0 = if k = -d ∨ (k ≠ d ∧ vget v (k - 1 + mx) < vget v (k + 1 + mx))
          then vget v (k + 1 + mx) else vget v (k - 1 + mx) + 1 := by rw [← hx0]; rfl
      have ha : InK r.n r.m (d - 1) (k - 1) → PtOK r.n r.m (d - 1) (k - 1) (vget v (k - 1 + mx)) True :=
        fun h => (hprev _ h).1
      have hb : InK r.n r.m (d - 1) (k + 1) → PtOK r.n r.m (d - 1) (k + 1) (vget v (k + 1 + mx)) True :=
        fun h => (hprev _ h).1
      have hlip : InK r.n r.m (d - 1) (k - 1) → InK r.n r.m (d - 1) (k + 1) →
          vget v (k - 1 + mx) - (k - 1) > r.m → vget v (k + 1 + mx) ≥ vget v (k - 1 + mx) + 1 := by
        intro h1 h2 h3
        have e : k - 1 + 2 = k + 1 := by omega
        have := (hprev _ h1).2 (by rw [e]; exact h2) h3
        rw [e] at this
        exact this
      have hs := start_ok r.n r.m d k _ _ x0 hm hd hk hx0' ha hb hlip
      split
      · -- a snake is returned
        next hc =>
        obtain ⟨_, _, hbox⟩ := hc
        obtain ⟨h0, hN⟩ := step_ret r.n r.m d k _ _ x0 hd hk hx0' ha hb
        exact corner_of_ret r fwd k x0 x y hr1 hr2 hbox f1 hy h0 hN
      · next hc =>
        have hidx0 : 0 ≤ k + mx := by omega
        have hidx1 : (k + mx).toNat < v.size := by rw [hsz]; omega
        have hrk : k = (r.n : Int) - 1 - r.m → vget other (-k + r.n - r.m + mx) = vget other (1 + mx) := by
          intro e; congr 1; omega
        have hno : ¬ (x ≥ (r.n : Int) - vget other (-k + r.n - r.m + mx) ∧
            (0 ≤ x0 ∧ x0 ≤ r.n ∧ 0 ≤ x0 - k ∧ x0 - k ≤ r.m ∧ 0 ≤ x ∧ x ≤ r.n ∧ 0 ≤ y ∧ y ≤ r.m)) := by
          intro hh
          apply hc
          refine ⟨by omega, hh.1, ?_⟩
          exact box_of r fwd k x0 x y hr1 hr2 hh.2
        obtain ⟨c1, c2, c3, c4, c5, c6⟩ := step_cont r.n r.m d k _ _ x0 x y _ _ full hn hm hd hk hs
          f1 hy f3 f4 (fun h => by have := f5 h; simp only [Prod.mk.injEq] at this; exact this.1)
          (hoNN _) hone hrk hno
        rw [if_neg c5]
        -- the recursive call
        have hget : ∀ j, vget (vset v (k + mx) x) j = if j = k + mx then x else vget v j :=
          fun j => vget_vset v (k + mx) j x hidx0 hidx1
        have hnn' : NN (vset v (k + mx) x) := by
          intro i; rw [hget]; split
          · exact c6
          · exact hnn i
        have hprev' : SInv r.n r.m mx (d - 1) (vset v (k + mx) x) True := by
          intro j hj
          obtain ⟨_, _, hjp⟩ := hj
          have e1 : j + mx ≠ k + mx := by omega
          have e2 : j + 2 + mx ≠ k + mx := by omega
          rw [hget, hget, if_neg e1, if_neg e2]
          exact hprev j ⟨by assumption, by assumption, hjp⟩
        have hq' : ∀ j, InK r.n r.m d j → j < k + 2 →
            QOK r.n r.m mx d j (vset v (k + mx) x) other full := by
          intro j hj hlt
          obtain ⟨_, _, hjp⟩ := inK_bounds hj
          unfold QOK
          by_cases ejk : j = k
          · subst ejk
            have e1 : j - 1 + mx ≠ j + mx := by omega
            have e2 : j + 1 + mx ≠ j + mx := by omega
            rw [hget, hget, hget, if_pos rfl, if_neg e1, if_neg e2]
            exact ⟨c1, c2, fun h => c3 h, c4⟩
          · have hlt' : j < k := by omega
            have e0 : j + mx ≠ k + mx := by omega
            have e1 : j - 1 + mx ≠ k + mx := by omega
            have e2 : j + 1 + mx ≠ k + mx := by omega
            rw [hget, hget, hget, if_neg e0, if_neg e1, if_neg e2]
            exact hq j hj hlt'
        have hrec := ih (k + 2) (vset v (k + mx) x) (by omega) (by omega) (by omega)
          (by rw [vset_size]; exact hsz) hnn' hprev' hq'
        generalize sweep a b r fwd d mx other f (k + 2) (kmaxOf r.n d) (vset v (k + mx) x) = res at hrec ⊢
        cases res with
        | ret t bo => exact hrec
        | atDest _ => exact hrec
        | cont v' =>
          obtain ⟨r1, r2, r3, r4⟩ := hrec
          refine ⟨by rw [r1, vset_size], r2, r3, fun i hi => ?_⟩
          rw [r4 i (fun j hj hkj => hi j hj (by omega)), hget, if_neg (hi k hk (by omega))]
    · rw [sweep_stop _ _ _ _ _ _ _ _ _ _ _ (by omega)]
      refine ⟨rfl, hnn, fun j hj => hq j hj ?_, fun i _ => rfl⟩
      have := hj.2.1
      omega

theorem sinv_of_q (n m mx d : Int) (v other : Array Int) (full : Prop)
    (h : ∀ j, InK n m d j → QOK n m mx d j v other full) : SInv n m mx d v full := by
  intro k hk
  obtain ⟨q1, _, q3, _⟩ := h k hk
  refine ⟨q1, fun hk2 hy => ?_⟩
  obtain ⟨_, p2, _, _⟩ := h (k + 2) hk2
  have := inK_bounds hk
  have p2 := p2 (by omega)
  have q3 := q3 hy
  have e : k + 2 - 1 + mx = k + 1 + mx := by omega
  rw [e, q3] at p2
  exact p2

theorem sinv_mono (n m mx d : Int) (v : Array Int) (full full' : Prop) (hf : full' → full)
    (h : SInv n m mx d v full) : SInv n m mx d v full' := by
  intro k hk
  obtain ⟨⟨p1, p2, p3, p4, p5, p6⟩, l⟩ := h k hk
  exact ⟨⟨p1, p2, p3, p4, p5, fun f => p6 (hf f)⟩, l⟩

def Zero (v : Array Int) : Prop := ∀ i, vget v i = 0

theorem k0 (n m : Int) (hn : 0 ≤ n) (hm : 0 ≤ m) : kminOf m 0 = 0 ∧ kmaxOf n 0 = 0 := by
  unfold kminOf kmaxOf; omega

theorem inK0 (n m k : Int) (hn : 0 ≤ n) (hm : 0 ≤ m) : InK n m 0 k ↔ k = 0 := by
  unfold InK kminOf kmaxOf; omega

theorem sinv_zero (n m mx : Int) (hn : 1 ≤ n) (hm : 1 ≤ m) (v : Array Int) (hz : Zero v) :
    SInv n m mx 0 v True := by
  intro k hk
  have e := (inK0 n m k (by omega) (by omega)).mp hk
  subst e
  rw [hz]
  refine ⟨?_, fun h2 => ?_⟩
  · unfold PtOK; omega
  · have := (inK0 n m (0 + 2) (by omega) (by omega)).mp h2
    omega

/-- sweep 0 on a proper (trimmed) area does not move: the arrays stay all-zero -/
theorem sweep_zero (a b : List α) (r : Area) (fwd : Bool) (mx : Int) (other : Array Int)
    (hp : Proper a b r) (hmx : mx = (r.n : Int) + r.m) (f : Nat) (v : Array Int)
    (hsz : v.size = 2 * (r.n + r.m) + 1) (hz : Zero v) :
    ∃ v', sweep a b r fwd 0 mx other (f + 1) (kminOf r.m 0) (kmaxOf r.n 0) v = .cont v' ∧
      Zero v' ∧ v'.size = v.size := by
  obtain ⟨⟨r1, r2, r3, r4⟩, hn, hm, t1, t2⟩ := hp
  obtain ⟨e1, e2⟩ := k0 (r.n : Int) (r.m : Int) (by omega) (by omega)
  rw [e1, e2, sweep_eq _ _ _ _ _ _ _ _ _ _ _ (Int.le_refl 0)]
  dsimp only
  have hx0 : x0Of 0 mx v 0 = 0 := by unfold x0Of; simp [hz _]
  have hq : eqAtOf a b r fwd 0 0 = false := by
    unfold eqAtOf
    cases fwd
    · have : (a[r.br.x - 1]? == b[r.br.y - 1]?) = false := by simpa using t2
      simp [this]
    · have : (a[r.tl.x]? == b[r.tl.y]?) = false := by simpa using t1
      simp [this]
  have hend : endOf a b r fwd 0 mx v 0 = (0, 0) := by
    unfold endOf; rw [hx0]; exact follow_false _ _ _ _ _ _ hq
  rw [hend]
  have c1 : ¬ ((0 : Int) > 0 ∧ (0, 0).1 ≥ (r.n : Int) - vget other (-0 + r.n - r.m + mx) ∧
      inBox r (retPts r fwd 0 (x0Of 0 mx v 0) (0, 0).1 (0, 0).2).1.1 (retPts r fwd 0 (x0Of 0 mx v 0) (0, 0).1 (0, 0).2).1.2 ∧
      inBox r (retPts r fwd 0 (x0Of 0 mx v 0) (0, 0).1 (0, 0).2).2.1 (retPts r fwd 0 (x0Of 0 mx v 0) (0, 0).1 (0, 0).2).2.2) := by
    intro h; exact absurd h.1 (by omega)
  rw [if_neg c1]
  have c2 : ¬ (((0 : Int), (0 : Int)).1 ≥ (r.n : Int) ∧ ((0 : Int), (0 : Int)).2 ≥ (r.m : Int)) := by
    simp only; omega
  rw [if_neg c2, sweep_stop _ _ _ _ _ _ _ _ _ _ _ (by omega)]
  refine ⟨_, rfl, ?_, vset_size _ _ _⟩
  intro i
  have hi1 : (0 + mx).toNat < v.size := by rw [hsz]; unfold Area.n Area.m at *; omega
  rw [vget_vset v (0 + mx) i _ (by omega) hi1]
  split
  · rfl
  · exact hz i

theorem inK_one (n m : Int) (hn : 1 ≤ n) (hm : 1 ≤ m) : InK n m 1 1 := by
  unfold InK kminOf kmaxOf; omega

theorem inK_top (n m : Int) (hn : 1 ≤ n) (hm : 1 ≤ m) : InK n m n n := by
  unfold InK kminOf kmaxOf; omega

theorem one_after (n m mx d : Int) (hn : 1 ≤ n) (hm : 1 ≤ m) (hd : 1 ≤ d)
    (v v' other : Array Int) (full : Prop)
    (h1 : 2 ≤ d → 1 ≤ vget v (1 + mx))
    (hq : ∀ j, InK n m d j → QOK n m mx d j v' other full)
    (hfr : ∀ i, (∀ j, InK n m d j → kminOf m d ≤ j → i ≠ j + mx) → vget v' i = vget v i) :
    1 ≤ vget v' (1 + mx) := by
  by_cases h : InK n m d 1
  · obtain ⟨⟨p1, _⟩, _⟩ := hq 1 h
    omega
  · have hd2 : 2 ≤ d := by
      apply Classical.byContradiction; intro hc
      have : d = 1 := by omega
      subst this
      exact h (inK_one n m hn hm)
    have hne : ∀ j, InK n m d j → kminOf m d ≤ j → 1 + mx ≠ j + mx := by
      intro j hj _ e
      have e1 : j = 1 := by omega
      rw [e1] at hj
      exact h hj
    rw [hfr (1 + mx) hne]
    exact h1 hd2

theorem upgrade1 (n m mx : Int) (hn : 1 ≤ n) (hm : 1 ≤ m) (vf vb : Array Int)
    (hf : SInv n m mx 1 vf ((2 : Int) ≤ 1))
    (hq : QOK n m mx 1 1 vb vf True) : SInv n m mx 1 vf True := by
  intro k hk
  obtain ⟨⟨p1, p2, p3, p4, p5, p6⟩, l⟩ := hf k hk
  refine ⟨⟨p1, p2, p3, p4, p5, fun _ hy => ?_⟩, l⟩
  obtain ⟨⟨q1, q2, q3, _⟩, _, _, q4⟩ := hq
  have p4 := p4 (by omega)
  have q3 := q3 rfl
  have q4 := q4 q3
  apply Classical.byContradiction; intro hc
  have ek : k = n - 1 - m := by omega
  have : -1 + n - m + mx = k + mx := by omega
  rw [this] at q4
  omega

def LoopInv (r : Area) (mx d : Int) (vf vb : Array Int) : Prop :=
  vf.size = 2 * (r.n + r.m) + 1 ∧ vb.size = 2 * (r.n + r.m) + 1 ∧ NN vf ∧ NN vb ∧
  SInv r.n r.m mx (d - 1) vf True ∧ SInv r.n r.m mx (d - 1) vb True ∧
  (2 ≤ d → 1 ≤ vget vf (1 + mx) ∧ 1 ≤ vget vb (1 + mx))

theorem snakeLoop_some (a b : List α) (r : Area) (mx : Int)
    (hr1 : r.tl.x ≤ r.br.x) (hr2 : r.tl.y ≤ r.br.y)
    (hn : 1 ≤ (r.n : Int)) (hm : 1 ≤ (r.m : Int)) (hmx : mx = (r.n : Int) + r.m) :
    ∀ (fuel : Nat) (d : Int) (vf vb : Array Int), 1 ≤ d → d ≤ r.n → (fuel : Int) > r.n - d →
      LoopInv r mx d vf vb →
      ∃ t bo, snakeLoop a b r mx fuel d vf vb = some (t, bo) ∧ CornerOK r t bo := by
  intro fuel
  induction fuel with
  | zero => intro d vf vb h1 h2 h3; omega
  | succ f ih =>
    intro d vf vb hd hdn hfuel hinv
    obtain ⟨sf, sb, nf, nb, pf, pb, hone⟩ := hinv
    rw [snakeLoop]
    have hdm : ¬ d > mx := by omega
    simp only [hdm, if_false]
    have hfu : 2 * (((r.n + r.m + 2 : Nat)) : Int) ≥ kmaxOf r.n d - kminOf r.m d + 2 := by
      unfold kminOf kmaxOf; omega
    have hpar : (kminOf (r.m : Int) d - d) % 2 = 0 := by unfold kminOf; omega
    have H1 := sweep_inv a b r true d mx vb (2 ≤ d) hr1 hr2 hn hm hmx hd hdn nb
      (fun h => (hone h).2) (r.n + r.m + 2) (kminOf r.m d) vf hpar (Int.le_refl _) hfu sf nf pf
      (fun j hj hlt => absurd hj.1 (by omega))
    unfold kminOf kmaxOf at H1
    generalize hs1 : sweep a b r true d mx vb (r.n + r.m + 2) _ _ vf = s1 at H1 ⊢
    cases s1 with
    | ret t bo => exact ⟨t, bo, rfl, H1⟩
    | atDest v => exact absurd H1 id
    | cont vf' =>
      obtain ⟨sf', nf', qf', frf⟩ := H1
      simp only
      have hsinvF : SInv r.n r.m mx d vf' (2 ≤ d) := sinv_of_q _ _ _ _ _ _ _ qf'
      have honeF : 1 ≤ vget vf' (1 + mx) :=
        one_after r.n r.m mx d hn hm hd vf vf' vb _ (fun h => (hone h).1) qf' (by
          intro i hi; exact frf i (fun j hj hkj => hi j hj hj.1))
      -- the forward sweep cannot complete at d = n
      have hdn' : d < r.n := by
        apply Classical.byContradiction; intro hc
        have e : d = r.n := by omega
        obtain ⟨⟨p1, p2, _⟩, _⟩ := qf' r.n (by rw [e]; exact inK_top _ _ hn hm)
        omega
      have H2 := sweep_inv a b r false d mx vf' True hr1 hr2 hn hm hmx hd hdn nf'
        (fun _ => honeF) (r.n + r.m + 2) (kminOf r.m d) vb hpar (Int.le_refl _) hfu sb nb pb
        (fun j hj hlt => absurd hj.1 (by omega))
      unfold kminOf kmaxOf at H2
      generalize hs2 : sweep a b r false d mx vf' (r.n + r.m + 2) _ _ vb = s2 at H2 ⊢
      cases s2 with
      | ret t bo => exact ⟨t, bo, rfl, H2⟩
      | atDest v => exact absurd H2 id
      | cont vb' =>
        obtain ⟨sb', nb', qb', frb⟩ := H2
        simp only
        have hsinvB : SInv r.n r.m mx d vb' True := sinv_of_q _ _ _ _ _ _ _ qb'
        have honeB : 1 ≤ vget vb' (1 + mx) :=
          one_after r.n r.m mx d hn hm hd vb vb' vf' _ (fun h => (hone h).2) qb' (by
            intro i hi; exact frb i (fun j hj hkj => hi j hj hj.1))
        have hsinvF' : SInv r.n r.m mx d vf' True := by
          by_cases h2 : 2 ≤ d
          · exact sinv_mono _ _ _ _ _ _ _ (fun _ => h2) hsinvF
          · have e : d = 1 := by omega
            subst e
            exact upgrade1 r.n r.m mx hn hm vf' vb' hsinvF (qb' 1 (inK_one _ _ hn hm))
        have e1 : d + 1 - 1 = d := by omega
        exact ih (d + 1) vf' vb' (by omega) (by omega) (by omega)
          ⟨by rw [sf', sf], by rw [sb', sb], nf', nb', by rw [e1]; exact hsinvF',
           by rw [e1]; exact hsinvB, fun _ => ⟨honeF, honeB⟩⟩

theorem zero_replicate (N : Nat) : Zero (Array.replicate N (0 : Int)) := by
  intro i
  unfold vget
  split
  · rfl
  · rw [Array.getD_eq_getD_getElem?, Array.getElem?_replicate]
    split <;> rfl

theorem nn_of_zero (v : Array Int) (h : Zero v) : NN v := by
  intro i; rw [h i]; exact Int.le_refl 0

/-- **2 + 3.** on every proper area the ported `myers_middle_move` returns a snake, and the snake is
    not degenerate at a corner. -/
theorem middleSnake_core (a b : List α) (r : Area) (hp : Proper a b r) :
    ∃ t bo, middleSnake a b r = some (t, bo) ∧ CornerOK r t bo := by
  have hp' := hp
  obtain ⟨⟨r1, r2, r3, r4⟩, hn, hm, t1, t2⟩ := hp
  have hnI : 1 ≤ (r.n : Int) := by omega
  have hmI : 1 ≤ (r.m : Int) := by omega
  unfold middleSnake
  dsimp only
  have e : r.n + r.m + 2 = (r.n + r.m + 1) + 1 := rfl
  rw [e, snakeLoop]
  have hdm : ¬ (0 : Int) > (r.n : Int) + r.m := by omega
  simp only [hdm, if_false]
  have hz := zero_replicate (2 * (r.n + r.m) + 1)
  have hsz : (Array.replicate (2 * (r.n + r.m) + 1) (0 : Int)).size = 2 * (r.n + r.m) + 1 := by simp
  generalize Array.replicate (2 * (r.n + r.m) + 1) (0 : Int) = v0 at hz hsz ⊢
  obtain ⟨vf', hs1, hzf, hsf⟩ := sweep_zero a b r true ((r.n : Int) + r.m) v0 hp' rfl (r.n + r.m + 1) v0 hsz hz
  unfold kminOf kmaxOf at hs1
  rw [hs1]
  simp only
  obtain ⟨vb', hs2, hzb, hsb⟩ := sweep_zero a b r false ((r.n : Int) + r.m) vf' hp' rfl (r.n + r.m + 1) v0 hsz hz
  unfold kminOf kmaxOf at hs2
  rw [hs2]
  simp only [Bool.or_self, Bool.false_eq_true, if_false]
  have e0 : (0 : Int) + 1 - 1 = 0 := by omega
  exact snakeLoop_some a b r _ r1 r2 hnI hmI rfl (r.n + r.m + 1) (0 + 1) vf' vb' (by omega) (by omega)
    (by omega)
    ⟨by rw [hsf, hsz], by rw [hsb, hsz], nn_of_zero _ hzf, nn_of_zero _ hzb,
     by rw [e0]; exact sinv_zero _ _ _ hnI hmI _ hzf, by rw [e0]; exact sinv_zero _ _ _ hnI hmI _ hzb,
     fun h => by omega⟩

theorem snakeCore (a b : List α) : SnakeCore a b := by
  intro r hp
  obtain ⟨t, bo, h, c⟩ := middleSnake_core a b r hp
  exact ⟨t, bo, h, c⟩

end Core

/-! ## 4. Main theorems -/

section Main
variable {α : Type} [DecidableEq α]

/-- **2. `middleSnake_some`**: the middle-snake search never reaches `panic!("This can't be")` on an
    area `myers_moves` can hand it (positive width and height, trimmed). -/
theorem middleSnake_some (a b : List α) : MiddleTotal a b middleSnake :=
  middleTotal_of_core a b (snakeCore a b)

/-- the snake returned is not degenerate: `top ≠ br`, `bottom ≠ tl`, not (`top = tl ∧ bottom = br`) -/
theorem middleSnake_corner (a b : List α) : CornerProgress a b middleSnake :=
  cornerProgress_of_core a b (snakeCore a b)

/-- **3. `middleSnake_progress`**: the three sub-areas of the recursion are strictly smaller. -/
theorem middleSnake_progress (a b : List α) : Progress a b middleSnake :=
  progress_of_core a b (snakeCore a b)

/-- `myers_unfilled` with the real middle snake always answers (the model's fuel suffices and the
    middle-snake search never panics), for every element type. -/
theorem myersUnfilled_total (a b : List α) : (myersUnfilled a b middleSnake).isSome :=
  total_of_middle a b middleSnake (middleSnake_inArea a b) (middleSnake_some a b)
    (middleSnake_progress a b)

end Main

/-- **4. MAIN.** `make_diff_patch` never panics. -/
theorem makeDiffPatch_total (a b : List JVal) : (makeDiffPatch a b).isSome := by
  unfold makeDiffPatch
  rw [Option.isSome_map]
  exact myersUnfilled_total a b

/-- corollary: a patch always exists and applying it to the old array gives exactly the new one. -/
theorem diff_roundtrip_total (a b : List JVal) :
    ∃ p, makeDiffPatch a b = some p ∧ applyDiffPatch a p = .ok b := by
  obtain ⟨p, hp⟩ := Option.isSome_iff_exists.mp (makeDiffPatch_total a b)
  exact ⟨p, hp, makeDiffPatch_roundtrip a b p hp⟩

/-! ### Non-vacuity -/

/-- a proper area (the hypothesis of `MiddleTotal` / `Progress` / `middleSnake_core`) -/
example : Proper [1, 2, 3] [1, 3, 4] ⟨⟨1, 1⟩, ⟨3, 3⟩⟩ := by
  unfold Proper AreaOk Area.n Area.m; decide

example : middleSnake [1, 2, 3] [4, 1] ⟨⟨0, 0⟩, ⟨3, 2⟩⟩ = some (⟨2, 2⟩, ⟨2, 2⟩) := by decide

/-- the hypotheses of `total_of_middle` are satisfiable by a search that is not the real one
    ("delete everything, then insert everything", `C16.midCorner`) -/
example (a b : List Nat) : (myersUnfilled a b midCorner).isSome := by
  refine total_of_middle a b midCorner (midCorner_inArea a b) (fun r _ => rfl) ?_
  refine progress_of_corner a b midCorner (midCorner_inArea a b) ?_
  intro r top bottom hp h
  simp only [midCorner, Option.some.injEq, Prod.mk.injEq] at h
  obtain ⟨rfl, rfl⟩ := h
  obtain ⟨_, hn, hm, _⟩ := hp
  unfold Area.n at hn; unfold Area.m at hm
  refine ⟨fun e => ?_, fun e => ?_, fun e => ?_⟩
  · have := congrArg Pt.y e; simp only at this; omega
  · have := congrArg Pt.x e; simp only at this; omega
  · have := congrArg Pt.x e.1; simp only at this; omega

end Melda.Props.C16c

/-! axiom audit -/
section Audit
open Melda.Props.C16c
#print axioms total_of_middle
#print axioms midLoop_exhausts
#print axioms progress_of_corner
#print axioms middleSnake_core
#print axioms middleSnake_some
#print axioms middleSnake_progress
#print axioms myersUnfilled_total
#print axioms makeDiffPatch_total
#print axioms diff_roundtrip_total
end Audit
