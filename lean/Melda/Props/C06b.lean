/-
  C06 (remaining parts).
  Part 1: when two concurrent versions do not disagree about the relative order of their common
          elements, the order of EACH version is preserved by `mergeArrays` (`merge_keeps_m_order`;
          the target side is `C06.sublist_merge`).
  Part 2: `unflatten` uses every pool entry at most once: the pool only shrinks, a resolved
          reference removes its entry, a second reference to the same identifier yields nothing.
-/
import Melda.Props.C06
import Melda.Flatten
namespace Melda.Props.C06b
open Melda Melda.Props.C06

/-! ## Part 1 — `mergeArrays` keeps the order of the merged-in version -/
section Merge
variable {α : Type} [DecidableEq α]

/-- the two versions list their common elements in the same relative order -/
def Consistent (m n : List α) : Prop := m.filter (· ∈ n) = n.filter (· ∈ m)

theorem idxOf?_append_self {t : α} (a b : List α) (h : t ∉ a) : idxOf? t (a ++ t :: b) = some a.length := by
  induction a with
  | nil => simp [idxOf?]
  | cons x xs ih =>
    have hx : x ≠ t := fun e => h (by simp [e])
    have hxs : t ∉ xs := fun e => h (List.mem_cons_of_mem _ e)
    simp [idxOf?, hx, ih hxs]

theorem idxOf?_split {t : α} {n : List α} {p : Nat} (h : idxOf? t n = some p) :
    ∃ a b, n = a ++ t :: b ∧ a.length = p ∧ t ∉ a := by
  induction n generalizing p with
  | nil => simp [idxOf?] at h
  | cons x xs ih =>
    simp only [idxOf?] at h
    split at h
    · next e => cases h; subst e; exact ⟨[], xs, rfl, rfl, by simp⟩
    · next hne =>
      cases hx : idxOf? t xs with
      | none => simp [hx] at h
      | some q =>
        simp [hx] at h
        obtain ⟨a, b, e, hl, hna⟩ := ih hx
        refine ⟨x :: a, b, by simp [e], by simp [hl, h], ?_⟩
        simp; exact ⟨fun e => hne e.symm, hna⟩

theorem insertAt_append (pre post : List α) (t : α) : insertAt (pre ++ post) pre.length t = pre ++ t :: post := by
  unfold insertAt
  induction pre with
  | nil => simp
  | cons x xs ih => simp [List.insertIdx_succ_cons, ih]

/-- the first common element of `m` is the first element of `n` that belongs to `m` -/
theorem consistent_head_disjoint {t : α} {ts a b : List α} (h : Consistent (t :: ts) (a ++ t :: b)) (hta : t ∉ a) :
    ∀ x ∈ a, x ∉ t :: ts := by
  unfold Consistent at h
  simp only [List.filter_append, List.filter_cons, List.mem_append, List.mem_cons, true_or, or_true,
    decide_true, if_true] at h
  cases hf : a.filter (fun x => decide (x = t ∨ x ∈ ts)) with
  | nil =>
    intro x hx hmem
    have := List.filter_eq_nil_iff.mp hf x hx
    simp at this hmem
    rcases hmem with e | e
    · exact this.1 e
    · exact this.2 e
  | cons y ys =>
    rw [hf] at h
    simp at h
    have : y ∈ a.filter (fun x => decide (x = t ∨ x ∈ ts)) := by rw [hf]; simp
    have := (List.mem_filter.mp this).1
    exact absurd (h.1 ▸ this) hta


theorem consistent_tail_of_not_mem {t : α} {ts n : List α} (h : Consistent (t :: ts) n) (ht : t ∉ n) :
    Consistent ts n := by
  unfold Consistent at h ⊢
  simp only [List.filter_cons, ht, decide_false, Bool.false_eq_true, if_false] at h
  rw [h]
  apply List.filter_congr
  intro x hx
  have : x ≠ t := fun e => ht (e ▸ hx)
  simp [this]

theorem consistent_drop_prefix {ts pre post : List α} (h : Consistent ts (pre ++ post))
    (hd : ∀ x ∈ pre, x ∉ ts) : Consistent ts post := by
  unfold Consistent at h ⊢
  have h1 : pre.filter (fun x => decide (x ∈ ts)) = [] := by
    apply List.filter_eq_nil_iff.mpr; intro x hx; simpa using hd x hx
  rw [List.filter_append, h1, List.nil_append] at h
  rw [← h]
  apply List.filter_congr
  intro x hx
  have : x ∉ pre := fun e => hd x e hx
  simp [this]

theorem consistent_tail_of_mem {t : α} {ts a b : List α} (h : Consistent (t :: ts) (a ++ t :: b))
    (hta : t ∉ a) (htb : t ∉ b) (hts : t ∉ ts) : (∀ x ∈ ts, x ∉ a) ∧ Consistent ts b := by
  have hd := consistent_head_disjoint h hta
  have hd' : ∀ x ∈ ts, x ∉ a := fun x hx hxa => hd x hxa (List.mem_cons_of_mem _ hx)
  refine ⟨hd', ?_⟩
  have h1 : Consistent (t :: ts) (t :: b) := by
    have := consistent_drop_prefix h hd
    exact this
  unfold Consistent at h1 ⊢
  simp only [List.filter_cons, List.mem_cons, true_or, decide_true, if_true, List.cons.injEq, true_and] at h1
  have e1 : ts.filter (fun x => decide (x = t ∨ x ∈ b)) = ts.filter (fun x => decide (x ∈ b)) := by
    apply List.filter_congr; intro x hx
    have : x ≠ t := fun e => hts (e ▸ hx)
    simp [this]
  have e2 : b.filter (fun x => decide (x = t ∨ x ∈ ts)) = b.filter (fun x => decide (x ∈ ts)) := by
    apply List.filter_congr; intro x hx
    have : x ≠ t := fun e => htb (e ▸ hx)
    simp [this]
  rw [← e1, ← e2]; exact h1


/-- second phase of the loop, declarative form: `ins` points at the last placed element `last`;
    everything up to and including it is untouched and the rest of `m` is threaded through `post` -/
theorem mergeLoop_phase2 (ts : List α) : ∀ (cur pivot : Nat) (pre : List α) (last : α) (post : List α),
    pivot ≤ cur → (∀ x ∈ ts, x ∉ pre ∧ x ≠ last) → ts.Nodup → post.Nodup → Consistent ts post →
    ∃ r, mergeLoop ts cur pivot pre.length (pre ++ last :: post) = pre ++ last :: r ∧ ts.Sublist r := by
  induction ts with
  | nil => intro cur pivot pre last post _ _ _ _ _; exact ⟨post, by simp [mergeLoop], List.nil_sublist _⟩
  | cons t ts ih =>
    intro cur pivot pre last post hpc hdis hnd hpost hcons
    have htts : t ∉ ts := (List.nodup_cons.mp hnd).1
    have hts : ts.Nodup := (List.nodup_cons.mp hnd).2
    have htpre : t ∉ pre := (hdis t (by simp)).1
    have htlast : t ≠ last := (hdis t (by simp)).2
    by_cases ht : t ∈ post
    · obtain ⟨a, b, e⟩ := List.append_of_mem ht
      subst e
      have hta : t ∉ a := by
        intro h; have := List.nodup_append.mp hpost; exact this.2.2 t h t (by simp) rfl
      have htb : t ∉ b := by
        have := (List.nodup_append.mp hpost).2.1; exact (List.nodup_cons.mp this).1
      have hb : b.Nodup := by
        have := (List.nodup_append.mp hpost).2.1; exact (List.nodup_cons.mp this).2
      obtain ⟨hda, hcb⟩ := consistent_tail_of_mem hcons hta htb htts
      have hidx : idxOf? t (pre ++ last :: (a ++ t :: b)) = some (pre ++ last :: a).length := by
        have : pre ++ last :: (a ++ t :: b) = (pre ++ last :: a) ++ t :: b := by simp
        rw [this]; apply idxOf?_append_self
        simp; exact ⟨htpre, htlast, hta⟩
      obtain ⟨r, hr, hsub⟩ := ih (cur + 1) pivot (pre ++ last :: a) t b (by omega)
        (by
          intro x hx
          have := hdis x (List.mem_cons_of_mem _ hx)
          refine ⟨?_, fun e => htts (e ▸ hx)⟩
          simp; exact ⟨this.1, this.2, hda x hx⟩) hts hb hcb
      refine ⟨a ++ t :: r, ?_, ?_⟩
      · simp only [mergeLoop, hidx]
        have : pre ++ last :: (a ++ t :: b) = (pre ++ last :: a) ++ t :: b := by simp
        rw [this, hr]; simp
      · exact (List.Sublist.cons_cons t hsub).trans (List.sublist_append_right a _)
    · have htn : t ∉ pre ++ last :: post := by simp; exact ⟨htpre, htlast, ht⟩
      have hidx := idxOf?_none_iff.mpr htn
      have hc := consistent_tail_of_not_mem hcons ht
      obtain ⟨r, hr, hsub⟩ := ih (cur + 1) pivot (pre ++ [last]) t post (by omega)
        (by
          intro x hx
          have := hdis x (List.mem_cons_of_mem _ hx)
          refine ⟨?_, fun e => htts (e ▸ hx)⟩
          simp; exact ⟨this.1, this.2⟩) hts hpost hc
      refine ⟨t :: r, ?_, List.Sublist.cons_cons t hsub⟩
      have hlt : ¬ cur < pivot := by omega
      simp only [mergeLoop, hidx, hlt, if_false]
      have e1 : pre ++ last :: post = (pre ++ [last]) ++ post := by simp
      have e2 : pre.length + 1 = (pre ++ [last]).length := by simp
      rw [e1, e2, insertAt_append, hr]; simp


theorem findPivot_snd_ge (n m : List α) (piv : Nat) : piv ≤ (findPivot n m piv).2 := by
  induction m generalizing piv with
  | nil => simp [findPivot]
  | cons t ts ih =>
    simp only [findPivot]
    cases idxOf? t n with
    | some p => simp
    | none => have := ih (piv + 1); simp only; omega

/-- under consistency the insertion point returned by the first loop splits `n` into a prefix that
    shares nothing with `m` and the rest -/
theorem findPivot_split (n m : List α) (piv : Nat) (h : Consistent m n) :
    ∃ pre post, n = pre ++ post ∧ pre.length = (findPivot n m piv).1 ∧ ∀ x ∈ pre, x ∉ m := by
  induction m generalizing piv with
  | nil => exact ⟨[], n, rfl, by simp [findPivot], by simp⟩
  | cons t ts ih =>
    simp only [findPivot]
    cases hp : idxOf? t n with
    | some p =>
      obtain ⟨a, b, e, hl, hta⟩ := idxOf?_split hp
      subst e
      exact ⟨a, t :: b, rfl, hl, consistent_head_disjoint h hta⟩
    | none =>
      have ht : t ∉ n := idxOf?_none_iff.mp hp
      obtain ⟨pre, post, e, hl, hd⟩ := ih (piv + 1) (consistent_tail_of_not_mem h ht)
      refine ⟨pre, post, e, hl, ?_⟩
      intro x hx hm
      rcases List.mem_cons.mp hm with e' | hm
      · subst e'; exact ht (e ▸ List.mem_append_left _ hx)
      · exact hd x hx hm

/-- **Order of the merged-in version is preserved** when the versions do not disagree about the
    relative order of their common elements. -/
theorem merge_keeps_m_order (m n : List α) (hm : m.Nodup) (hn : n.Nodup) (hc : Consistent m n) :
    m.Sublist (mergeArrays m n) := by
  unfold mergeArrays
  split
  · exact List.Sublist.refl _
  · split
    · next h => rw [List.isEmpty_iff.mp h]; exact List.nil_sublist _
    · cases m with
      | nil => exact List.nil_sublist _
      | cons t ts =>
        have htts : t ∉ ts := (List.nodup_cons.mp hm).1
        have hts : ts.Nodup := (List.nodup_cons.mp hm).2
        cases hp : idxOf? t n with
        | some p =>
          obtain ⟨a, b, e, hl, hta⟩ := idxOf?_split hp
          subst e
          have htb : t ∉ b := by
            have := (List.nodup_append.mp hn).2.1; exact (List.nodup_cons.mp this).1
          have hb : b.Nodup := by
            have := (List.nodup_append.mp hn).2.1; exact (List.nodup_cons.mp this).2
          obtain ⟨hda, hcb⟩ := consistent_tail_of_mem hc hta htb htts
          obtain ⟨r, hr, hsub⟩ := mergeLoop_phase2 ts 1 0 a t b (by omega)
            (fun x hx => ⟨hda x hx, fun e => htts (e ▸ hx)⟩) hts hb hcb
          simp only [findPivot, hp, mergeLoop]
          rw [← hl, hr]
          exact (List.Sublist.cons_cons t hsub).trans (List.sublist_append_right a _)
        | none =>
          have ht : t ∉ n := idxOf?_none_iff.mp hp
          have hc' := consistent_tail_of_not_mem hc ht
          obtain ⟨pre, post, e, hl, hd⟩ := findPivot_split n ts 1 hc'
          have hge := findPivot_snd_ge n ts 1
          subst e
          have hpost : post.Nodup := (List.nodup_append.mp hn).2.1
          obtain ⟨r, hr, hsub⟩ := mergeLoop_phase2 ts 1 0 pre t post (by omega)
            (fun x hx => ⟨fun hxp => hd x hxp hx, fun e => htts (e ▸ hx)⟩) hts hpost
            (consistent_drop_prefix hc' hd)
          simp only [findPivot, hp]
          rcases hfp : findPivot (pre ++ post) ts (0 + 1) with ⟨ins, pivot⟩
          rw [hfp] at hl hge
          simp only at hl hge ⊢
          have hlt : 0 < pivot := by omega
          simp only [mergeLoop, hp, hlt, if_true]
          rw [← hl, insertAt_append, hr]
          exact (List.Sublist.cons_cons t hsub).trans (List.sublist_append_right pre _)


/-- both versions keep their order -/
theorem merge_keeps_both_orders (m n : List α) (hm : m.Nodup) (hn : n.Nodup) (hc : Consistent m n) :
    m.Sublist (mergeArrays m n) ∧ n.Sublist (mergeArrays m n) :=
  ⟨merge_keeps_m_order m n hm hn hc, sublist_merge m n⟩

end Merge

instance (m n : List Nat) : Decidable (Consistent m n) := by unfold Consistent; infer_instance

/-- non-vacuity: hypotheses satisfiable on a non-trivial concurrent edit (insertions on both sides,
    elements before the first common one, a common element in the middle) -/
example : [7, 1, 9, 2, 3].Nodup ∧ [1, 2, 8, 3, 5].Nodup ∧ Consistent [7, 1, 9, 2, 3] [1, 2, 8, 3, 5] ∧
    mergeArrays [7, 1, 9, 2, 3] [1, 2, 8, 3, 5] = [7, 1, 9, 2, 8, 3, 5] := by decide
/-- the consistency hypothesis is needed: when the versions disagree, the target order wins -/
example : [1, 2].Nodup ∧ [2, 1].Nodup ∧ ¬ Consistent [1, 2] [2, 1] ∧
    ¬ [1, 2].Sublist (mergeArrays [1, 2] [2, 1]) := by decide

/-! ## Part 2 — `unflatten` consumes each pool entry at most once -/

theorem objRemove_sublist (k : Str) (c : JObj) : (objRemove k c).Sublist c := by
  unfold objRemove; exact List.filter_sublist

theorem objGet_ne_none_iff (k : Str) (c : JObj) : objGet k c ≠ none ↔ ∃ p ∈ c, p.1 = k := by
  induction c with
  | nil => simp [objGet]
  | cons x xs ih =>
    obtain ⟨k', v⟩ := x
    simp only [objGet]
    split
    · next h => subst h; simp
    · next h => rw [ih]; simp; intro e; exact absurd e.symm h

theorem objGet_objRemove_self (k : Str) (c : JObj) : objGet k (objRemove k c) = none := by
  apply Classical.byContradiction
  intro h
  obtain ⟨p, hp, e⟩ := (objGet_ne_none_iff _ _).mp h
  simp [objRemove] at hp
  exact hp.2 e

theorem objGet_none_of_sublist {k : Str} {c c' : JObj} (hs : c'.Sublist c) (h : objGet k c = none) :
    objGet k c' = none := by
  apply Classical.byContradiction
  intro hn
  obtain ⟨p, hp, e⟩ := (objGet_ne_none_iff _ _).mp hn
  exact (objGet_ne_none_iff k c).mpr ⟨p, hs.subset hp, e⟩ h

/-- the pool after any of the four mutually recursive functions is a sub-list of the pool before -/
theorem unfl_sublist (fuel : Nat) :
    (∀ c v c' out, unflatten fuel c v = .ok c' out → c'.Sublist c) ∧
    (∀ c l c' out, unflattenOrder fuel c l = .ok c' out → c'.Sublist c) ∧
    (∀ c l c' out, unflattenList fuel c l = .ok c' out → c'.Sublist c) ∧
    (∀ c l c' out, unflattenFields fuel c l = .ok c' out → c'.Sublist c) := by
  induction fuel with
  | zero => simp [unflatten, unflattenOrder, unflattenList, unflattenFields]
  | succ f ih =>
    obtain ⟨ih1, ih2, ih3, ih4⟩ := ih
    refine ⟨?_, ?_, ?_, ?_⟩
    · intro c v c' out h
      cases v <;> simp only [unflatten] at h
      all_goals repeat' split at h
      all_goals try (cases h; done)
      all_goals try (cases h; exact List.Sublist.refl _)
      all_goals try cases h
      all_goals first
        | exact (ih2 _ _ _ _ (by assumption)).trans (objRemove_sublist _ _)
        | exact (ih1 _ _ _ _ (by assumption)).trans (objRemove_sublist _ _)
        | exact ih3 _ _ _ _ (by assumption)
        | exact ih4 _ _ _ _ (by assumption)
    · intro c l c' out h
      cases l <;> simp only [unflattenOrder] at h
      all_goals repeat' split at h
      all_goals try (cases h; done)
      all_goals try (cases h; exact List.Sublist.refl _)
      all_goals try cases h
      all_goals first
        | exact (ih2 _ _ _ _ (by assumption)).trans ((ih1 _ _ _ _ (by assumption)).trans (objRemove_sublist _ _))
        | exact ih2 _ _ _ _ (by assumption)
    · intro c l c' out h
      cases l <;> simp only [unflattenList] at h
      all_goals repeat' split at h
      all_goals try (cases h; done)
      all_goals try (cases h; exact List.Sublist.refl _)
      all_goals try cases h
      all_goals exact (ih3 _ _ _ _ (by assumption)).trans (ih1 _ _ _ _ (by assumption))
    · intro c l c' out h
      cases l <;> simp only [unflattenFields] at h
      all_goals repeat' split at h
      all_goals try (cases h; done)
      all_goals try (cases h; exact List.Sublist.refl _)
      all_goals try cases h
      all_goals first
        | exact (ih4 _ _ _ _ (by assumption)).trans (ih1 _ _ _ _ (by assumption))
        | exact ih4 _ _ _ _ (by assumption)


/-- **Pool monotonicity**: `unflatten` never adds a pool entry; the pool only shrinks. -/
theorem pool_monotone {fuel : Nat} {c c' : JObj} {v out : JVal} (h : unflatten fuel c v = .ok c' out) :
    (∀ k, objGet k c' ≠ none → objGet k c ≠ none) ∧ c'.length ≤ c.length := by
  have hs := (unfl_sublist fuel).1 c v c' out h
  refine ⟨fun k hk hn => hk (objGet_none_of_sublist hs hn), hs.length_le⟩

/-- **Removal on use**: after resolving the reference `s` (any non-escaped string) the pool has no
    entry `s` any more (in particular when `objGet s c = some o` that entry was consumed). -/
theorem unflatten_ref_removed {fuel : Nat} {c c' : JObj} {s : Str} {out : JVal}
    (h : unflatten fuel c (.str s) = .ok c' out) (hs : s.head? ≠ some '!') : objGet s c' = none := by
  cases fuel with
  | zero => simp [unflatten] at h
  | succ f =>
    simp only [unflatten] at h
    repeat' split at h
    all_goals try (cases h; done)
    all_goals try (cases h; assumption)
    · simp at hs
    · cases h
      exact objGet_none_of_sublist ((unfl_sublist f).2.1 _ _ _ _ (by assumption)) (objGet_objRemove_self _ _)
    · exact objGet_none_of_sublist ((unfl_sublist f).1 _ _ _ _ h) (objGet_objRemove_self _ _)

theorem objRemove_length_lt {k : Str} {c : JObj} {o : JVal} (h : objGet k c = some o) :
    (objRemove k c).length < c.length := by
  have hne : objGet k c ≠ none := by rw [h]; simp
  obtain ⟨p, hp, e⟩ := (objGet_ne_none_iff _ _).mp hne
  unfold objRemove
  exact List.length_filter_lt_length_iff_exists.mpr ⟨p, hp, by simp [e]⟩

/-- every element `.str u` of a descriptor order is absent from the pool afterwards, and every
    emitted item consumed at least one pool entry -/
theorem unflattenOrder_spec (fuel : Nat) : ∀ (c : JObj) (order : List JVal) (c' : JObj) (items : List JVal),
    unflattenOrder fuel c order = .ok c' items →
    (∀ u, JVal.str u ∈ order → objGet u c' = none) ∧ items.length + c'.length ≤ c.length := by
  induction fuel with
  | zero => simp [unflattenOrder]
  | succ f ih =>
    intro c order c' items h
    cases order <;> simp only [unflattenOrder] at h
    all_goals repeat' split at h
    all_goals try (cases h; done)
    all_goals try cases h
    · simp
    · next tl _ uuid _ o ho _ c1 item h1 _ items' h2 =>
      obtain ⟨ihA, ihB⟩ := ih _ _ _ _ h2
      have hs1 := (unfl_sublist f).1 _ _ _ _ h1
      have hs2 := (unfl_sublist f).2.1 _ _ _ _ h2
      refine ⟨?_, ?_⟩
      · intro u hu
        rcases List.mem_cons.mp hu with e | hu
        · cases e
          exact objGet_none_of_sublist (hs2.trans hs1) (objGet_objRemove_self _ _)
        · exact ihA u hu
      · have := objRemove_length_lt ho
        have := hs1.length_le
        simp only [List.length_cons]; omega
    · next tl _ uuid _ hnone =>
      obtain ⟨ihA, ihB⟩ := ih _ _ _ _ h
      refine ⟨?_, ihB⟩
      intro u hu
      rcases List.mem_cons.mp hu with e | hu
      · cases e
        exact objGet_none_of_sublist ((unfl_sublist f).2.1 _ _ _ _ h) hnone
      · exact ihA u hu
    · next hd tl _ hne =>
      obtain ⟨ihA, ihB⟩ := ih _ _ _ _ h
      refine ⟨?_, ihB⟩
      intro u hu
      rcases List.mem_cons.mp hu with e | hu
      · exact absurd e.symm (fun e' => hne u e')
      · exact ihA u hu

/-- **Second reference to the same identifier yields nothing.** -/
theorem unflattenOrder_dup {fuel : Nat} {c c' : JObj} {u : Str} {t items : List JVal}
    (h : unflattenOrder (fuel + 2) c (.str u :: .str u :: t) = .ok c' items) :
    (objGet u c = none ∧ unflattenOrder fuel c t = .ok c' items) ∨
    (∃ o c1 item items', objGet u c = some o ∧ unflatten (fuel + 1) (objRemove u c) o = .ok c1 item ∧
       unflattenOrder fuel c1 t = .ok c' items' ∧ items = item :: items') := by
  simp only [unflattenOrder] at h
  split at h
  · next o ho =>
    split at h
    · next c1 item h1 =>
      have hnone : objGet u c1 = none :=
        objGet_none_of_sublist ((unfl_sublist _).1 _ _ _ _ h1) (objGet_objRemove_self _ _)
      simp only [hnone] at h
      split at h
      · next c2 items' h2 =>
        cases h
        exact Or.inr ⟨o, c1, item, items', ho, h1, h2, rfl⟩
      · cases h
      · cases h
    · cases h
    · cases h
  · next hnone =>
    exact Or.inl ⟨hnone, h⟩


/-- more fuel never changes a successful result -/
theorem unfl_fuel_mono (fuel : Nat) :
    (∀ c v c' out, unflatten fuel c v = .ok c' out → unflatten (fuel + 1) c v = .ok c' out) ∧
    (∀ c l c' out, unflattenOrder fuel c l = .ok c' out → unflattenOrder (fuel + 1) c l = .ok c' out) ∧
    (∀ c l c' out, unflattenList fuel c l = .ok c' out → unflattenList (fuel + 1) c l = .ok c' out) ∧
    (∀ c l c' out, unflattenFields fuel c l = .ok c' out → unflattenFields (fuel + 1) c l = .ok c' out) := by
  induction fuel with
  | zero => simp [unflatten, unflattenOrder, unflattenList, unflattenFields]
  | succ f ih =>
    obtain ⟨ih1, ih2, ih3, ih4⟩ := ih
    refine ⟨?_, ?_, ?_, ?_⟩
    · intro c v c' out h
      cases v <;> simp only [unflatten] at h
      all_goals repeat' split at h
      all_goals try (cases h; done)
      all_goals try (have e1 := ih1 _ _ _ _ (by assumption))
      all_goals try (have e2 := ih2 _ _ _ _ (by assumption))
      all_goals try (have e3 := ih3 _ _ _ _ (by assumption))
      all_goals try (have e4 := ih4 _ _ _ _ (by assumption))
      all_goals rw [unflatten]
      all_goals try simp [*]
      all_goals (intro t ht; exact (by assumption : ∀ t, _ = '!' :: t → False) t ht)
    · intro c l c' out h
      cases l <;> simp only [unflattenOrder] at h
      all_goals repeat' split at h
      all_goals try (cases h; done)
      all_goals try (have e1 := ih1 _ _ _ _ (by assumption))
      all_goals try (have e2 := ih2 _ _ _ _ (by assumption))
      all_goals rw [unflattenOrder]
      all_goals try simp [*]
      all_goals (intro t ht; exact (by assumption : ∀ t, _ = JVal.str t → False) t ht)
    · intro c l c' out h
      cases l <;> simp only [unflattenList] at h
      all_goals repeat' split at h
      all_goals try (cases h; done)
      all_goals try (have e1 := ih1 _ _ _ _ (by assumption))
      all_goals try (have e3 := ih3 _ _ _ _ (by assumption))
      all_goals rw [unflattenList]
      all_goals simp [*]
    · intro c l c' out h
      cases l <;> simp only [unflattenFields] at h
      all_goals repeat' split at h
      all_goals try (cases h; done)
      all_goals try (have e1 := ih1 _ _ _ _ (by assumption))
      all_goals try (have e4 := ih4 _ _ _ _ (by assumption))
      all_goals rw [unflattenFields]
      all_goals simp [*]


/-- an order entry whose identifier is absent from the pool contributes nothing -/
theorem unflattenOrder_skip_absent (fuel : Nat) : ∀ (c : JObj) (pre t : List JVal) (u : Str) (c' : JObj) (items : List JVal),
    objGet u c = none → unflattenOrder fuel c (pre ++ .str u :: t) = .ok c' items →
    unflattenOrder fuel c (pre ++ t) = .ok c' items := by
  induction fuel with
  | zero => simp [unflattenOrder]
  | succ f ih =>
    intro c pre t u c' items hu h
    cases pre with
    | nil =>
      simp only [List.nil_append, unflattenOrder, hu] at h
      simpa using (unfl_fuel_mono f).2.1 _ _ _ _ h
    | cons x pre =>
      simp only [List.cons_append] at h ⊢
      simp only [unflattenOrder] at h
      repeat' split at h
      all_goals try (cases h; done)
      · next uuid _ o ho _ c1 item h1 _ c2 items' h2 =>
        cases h
        have hu1 : objGet u c1 = none :=
          objGet_none_of_sublist (((unfl_sublist f).1 _ _ _ _ h1).trans (objRemove_sublist _ _)) hu
        have e := ih _ _ _ _ _ _ hu1 h2
        simp [unflattenOrder, ho, h1, e]
      · next uuid _ hnone =>
        have e := ih _ _ _ _ _ _ hu h
        simp [unflattenOrder, hnone, e]
      · next hne =>
        have e := ih _ _ _ _ _ _ hu h
        rw [unflattenOrder]
        · exact e
        · intro uuid e'; exact hne uuid e'

/-- **An identifier referenced twice in one order is emitted at most once**: dropping any later
    occurrence of an identifier that already occurs earlier in the order changes nothing. -/
theorem unflattenOrder_dup_general (fuel : Nat) : ∀ (c : JObj) (pre t : List JVal) (u : Str) (c' : JObj) (items : List JVal),
    JVal.str u ∈ pre → unflattenOrder fuel c (pre ++ .str u :: t) = .ok c' items →
    unflattenOrder fuel c (pre ++ t) = .ok c' items := by
  induction fuel with
  | zero => simp [unflattenOrder]
  | succ f ih =>
    intro c pre t u c' items hmem h
    cases pre with
    | nil => cases hmem
    | cons x pre =>
      simp only [List.cons_append] at h ⊢
      simp only [unflattenOrder] at h
      repeat' split at h
      all_goals try (cases h; done)
      · next uuid _ o ho _ c1 item h1 _ c2 items' h2 =>
        cases h
        have e : unflattenOrder f c1 (pre ++ t) = .ok c' items' := by
          rcases List.mem_cons.mp hmem with e | hm
          · cases e
            exact unflattenOrder_skip_absent f _ _ _ _ _ _
              (objGet_none_of_sublist ((unfl_sublist f).1 _ _ _ _ h1) (objGet_objRemove_self _ _)) h2
          · exact ih _ _ _ _ _ _ hm h2
        simp [unflattenOrder, ho, h1, e]
      · next uuid _ hnone =>
        have e : unflattenOrder f c (pre ++ t) = .ok c' items := by
          rcases List.mem_cons.mp hmem with e | hm
          · cases e
            exact unflattenOrder_skip_absent f _ _ _ _ _ _ hnone h
          · exact ih _ _ _ _ _ _ hm h
        simp [unflattenOrder, hnone, e]
      · next hne =>
        have hm : JVal.str u ∈ pre := by
          rcases List.mem_cons.mp hmem with e | hm
          · exact absurd e.symm (hne u)
          · exact hm
        have e := ih _ _ _ _ _ _ hm h
        rw [unflattenOrder]
        · exact e
        · intro uuid e'; exact hne uuid e'


/-- non-vacuity: pool with one object `x`; the order references it twice; it is emitted once and
    the pool ends empty -/
example :
    unflattenOrder 4 [(['x'], .obj [(['k'], .num ['1'])])] [.str ['x'], .str ['x']]
      = .ok [] [.obj [(['k'], .num ['1'])]] := by rfl
example :
    unflatten 6 [(['^', 'd'], .obj [(ORDER_FIELD, .arr [.str ['x'], .str ['x']])]), (['x'], .obj [(['k'], .num ['1'])])]
        (.str ['^', 'd'])
      = .ok [] (.arr [.obj [(['k'], .num ['1'])]]) := by rfl

end Melda.Props.C06b
