/-
  C12 — maintenance operations never change the visible document (document level).

  1. `read_congr` / `read_docs_congr`: what `read` depends on.
  2. `commit_tree_obs`, `liveLeafs_staging_irrelevant`, `commit_read`: a commit changes staging flags and
     where the bodies live, never winners, leaves or parents.
  3. `meld_noop`: `meld` is a pure function of the two replicas (remark).
  4. `fold_absorb`, `remerge_idem`, `snapshot_order_unchanged`: the list-level core of "a full snapshot
     does not change the visible array".
  5. `refresh_idle`: a refresh over a storage the replica is synchronised with changes no tree.
  Tree lemmas shared with C07 (`add_child_*`, `LiveLeaf` after an append) are at the end.
-/
import Melda.Doc
import Melda.Props.C02
import Melda.Props.C05
import Melda.Props.C06
import Melda.Props.C15
import Melda.Props.C19
namespace Melda.Props.C12
open Melda Melda.DState Melda.RevTree

/-! ## 1. what `read` depends on -/

/-- the two (lookup, state) pairs hand out the same body for every revision -/
def SameBodies (src : Src) (st : DState) (src' : Src) (st' : DState) : Prop :=
  ∀ r, readObject src st r = readObject src' st' r

theorem readObject_stage {src : Src} {st st' : DState} (h : st.stage = st'.stage) (r : Rev) :
    readObject src st r = readObject src st' r := by
  unfold readObject; rw [h]

theorem readObject_acache (src : Src) (st : DState) (c : Lru Rev (List JVal)) (r : Rev) :
    readObject src { st with acache := c } r = readObject src st r := rfl

theorem SameBodies.acache {src src' : Src} {st st' : DState} (h : SameBodies src st src' st')
    (c c' : Lru Rev (List JVal)) : SameBodies src { st with acache := c } src' { st' with acache := c' } :=
  fun r => h r

theorem readDesc_congr {src src' : Src} {st st' : DState} (h : SameBodies src st src' st') (r : Rev) :
    readDesc src st r = readDesc src' st' r := by
  unfold readDesc; rw [h r]

/-- what the array code observes of a tree -/
structure TreeObs (t t' : RevTree) : Prop where
  leafs : t.leafs = t'.leafs
  parent : ∀ r, t.getParent r = t'.getParent r
  len : t.entries.length = t'.entries.length

theorem TreeObs.refl (t : RevTree) : TreeObs t t := ⟨rfl, fun _ => rfl, rfl⟩

theorem collectChain_congr {src src' : Src} {st st' : DState} (h : SameBodies src st src' st')
    {t t' : RevTree} (hp : ∀ r, t.getParent r = t'.getParent r) (cache : Lru Rev (List JVal))
    (fuel : Nat) (cur : Rev) (acc : List (List JVal)) :
    collectChain src st t cache fuel cur acc = collectChain src' st' t' cache fuel cur acc := by
  induction fuel generalizing cur acc with
  | zero => rfl
  | succ n ih => simp only [collectChain, hp cur, readDesc_congr h, ih]

theorem rebuildOrder_congr {src src' : Src} {st st' : DState} (h : SameBodies src st src' st')
    {t t' : RevTree} (ho : TreeObs t t') (cache : Lru Rev (List JVal)) (base : Rev) :
    rebuildOrder src st t cache base = rebuildOrder src' st' t' cache base := by
  simp only [rebuildOrder, readDesc_congr h, collectChain_congr h ho.parent, ho.len]

theorem mergedOrderAt_congr {src src' : Src} {st st' : DState} (h : SameBodies src st src' st')
    {t t' : RevTree} (ho : TreeObs t t') (cache : Lru Rev (List JVal)) (base : Rev) :
    mergedOrderAt src st t cache base = mergedOrderAt src' st' t' cache base := by
  simp only [mergedOrderAt, rebuildOrder_congr h ho, ho.leafs]

/-- `read_object_at_revision` looks at the tree only for array descriptors -/
theorem readAt_congr {src src' : Src} {st st' : DState} (h : SameBodies src st src' st')
    (hc : st.acache = st'.acache) (u : Str) {t t' : RevTree} (ho : isArrayDescriptor u = true → TreeObs t t')
    (r : Rev) : readAt src st u t r = readAt src' st' u t' r := by
  unfold readAt
  by_cases hu : isArrayDescriptor u = true
  · simp only [hu, if_true, mergedOrderAt_congr h (ho hu), hc]
  · have hu' : isArrayDescriptor u = false := by simpa using hu
    simp only [hu', Bool.false_eq_true, if_false, h r, hc]

/-- pointwise relation of two lists of the same length -/
inductive All₂ {α : Type} (R : α → α → Prop) : List α → List α → Prop
  | nil : All₂ R [] []
  | cons {a b : α} {l l' : List α} : R a b → All₂ R l l' → All₂ R (a :: l) (b :: l')

/-- what `read` observes of one entry of the document map -/
def DocObs (p q : Str × RevTree) : Prop :=
  p.1 = q.1 ∧ p.2.winner = q.2.winner ∧ (isArrayDescriptor p.1 = true → TreeObs p.2 q.2)

theorem DocObs.refl (p : Str × RevTree) : DocObs p p := ⟨rfl, rfl, fun _ => TreeObs.refl _⟩

/-- one step of the collection loop of `read` -/
def readStep (src : Src) (st : DState) (acc : Res (JObj × Lru Rev (List JVal))) (p : Str × RevTree) :
    Res (JObj × Lru Rev (List JVal)) :=
  match acc with
  | .ok (pool, c) =>
    (match p.2.winner with
     | none => .ok (pool, c)
     | some w =>
       if w.isDeleted then .ok (pool, c)
       else match readAt src { st with acache := c } p.1 p.2 w with
         | .ok (o, c') => .ok (objInsert p.1 (.obj (objInsert ID_FIELD (.str p.1) o)) pool, c')
         | .err e => .panic e
         | .panic m => .panic m)
  | e => e

/-- the tail of `read` once the pool is collected -/
def readFinish (collected : Res (JObj × Lru Rev (List JVal))) : Res (JVal × Lru Rev (List JVal)) :=
  match collected with
  | .err e => .err e
  | .panic m => .panic m
  | .ok (pool, c) =>
    match objGet ROOT_ID pool with
    | none => .err "root_object_not_found"
    | some rootObj =>
      match unflatten (unflattenFuel pool rootObj) pool rootObj with
      | .ok _ v => (match v with
        | .obj _ => .ok (v, c)
        | _ => .panic "not_an_object")
      | .panic m => .panic m
      | .fuel => .panic "fuel"

theorem read_eq (src : Src) (st : DState) :
    read src st = if (st.treeOf ROOT_ID).isNone then .err "no_root"
      else readFinish (st.p.docs.foldl (readStep src st) (.ok ([], st.acache))) := rfl

theorem readStep_congr {src src' : Src} {st st' : DState} (h : SameBodies src st src' st')
    (acc : Res (JObj × Lru Rev (List JVal))) {p q : Str × RevTree} (ho : DocObs p q) :
    readStep src st acc p = readStep src' st' acc q := by
  obtain ⟨h1, h2, h3⟩ := ho
  unfold readStep
  cases acc with
  | ok a =>
    obtain ⟨pool, c⟩ := a
    simp only [← h2, ← h1]
    cases hw : p.2.winner with
    | none => rfl
    | some w =>
      simp only
      rw [readAt_congr (h.acache c c) rfl p.1 h3 w]
  | err e => rfl
  | panic m => rfl

theorem foldl_readStep_congr {src src' : Src} {st st' : DState} (h : SameBodies src st src' st')
    {docs docs' : List (Str × RevTree)} (hd : All₂ DocObs docs docs')
    (acc : Res (JObj × Lru Rev (List JVal))) :
    docs.foldl (readStep src st) acc = docs'.foldl (readStep src' st') acc := by
  induction hd generalizing acc with
  | nil => rfl
  | cons hpq _ ih => simp only [List.foldl_cons]; rw [readStep_congr h acc hpq]; exact ih _

theorem find?_key_isNone_congr {docs docs' : List (Str × RevTree)} (hd : All₂ DocObs docs docs') (u : Str) :
    (docs.find? (fun p => p.1 = u)).isNone = (docs'.find? (fun p => p.1 = u)).isNone := by
  induction hd with
  | nil => rfl
  | @cons p q _ _ hpq _ ih =>
    simp only [List.find?_cons, ← hpq.1]
    by_cases hk : p.1 = u <;> simp [hk, ih]

/-- **`read` depends on the state only through**: the keys of the document map, each tree's winner,
    for array descriptors the leaves, the parent links and the number of entries (the fuel of the chain
    walk), the body of every revision, and the descriptor cache. -/
theorem read_congr {src src' : Src} {st st' : DState} (hd : All₂ DocObs st.p.docs st'.p.docs)
    (hc : st.acache = st'.acache) (hb : SameBodies src st src' st') : read src st = read src' st' := by
  rw [read_eq, read_eq]
  have h1 : (st.treeOf ROOT_ID).isNone = (st'.treeOf ROOT_ID).isNone := by
    unfold treeOf
    simp only [Option.isNone_map]
    exact find?_key_isNone_congr hd ROOT_ID
  rw [h1, foldl_readStep_congr hb hd, hc]

theorem forall₂_refl {α : Type} {R : α → α → Prop} (hr : ∀ a, R a a) (l : List α) : All₂ R l l := by
  induction l with
  | nil => exact .nil
  | cons a l ih => exact .cons (hr a) ih

/-- `read` looks at the document map, the data stage and the descriptor cache, nothing else
    (not at the delta map, the object index or the applied packs) -/
theorem read_docs_congr {src : Src} {st st' : DState} (hd : st.p.docs = st'.p.docs) (hs : st.stage = st'.stage)
    (hc : st.acache = st'.acache) : read src st = read src st' := by
  apply read_congr _ hc (fun r => readObject_stage hs r)
  rw [hd]; exact forall₂_refl DocObs.refl _

/-! ## 2. commit: only staging flags and the place of the bodies change -/

/-- clearing the staging flag of an entry (what `RevisionTree::commit` does to each entry) -/
def clearE (e : RtEntry) : RtEntry := { e with staging := false }

theorem clearE_rev (e : RtEntry) : (clearE e).rev = e.rev := rfl
theorem clearE_parent (e : RtEntry) : (clearE e).parent = e.parent := rfl

theorem find?_map_clear (es : List RtEntry) (r : Rev) :
    RevTree.find? (es.map clearE) r = (RevTree.find? es r).map clearE := by
  unfold RevTree.find?
  rw [List.find?_map]
  rfl

theorem isParent_map_clear (es : List RtEntry) (r : Rev) : isParent (es.map clearE) r = isParent es r := by
  unfold isParent
  rw [List.any_map]
  rfl

theorem reachesRoot_map_clear (es : List RtEntry) (fuel : Nat) (r : Rev) :
    reachesRoot (es.map clearE) fuel r = reachesRoot es fuel r := by
  induction fuel generalizing r with
  | zero => rfl
  | succ n ih =>
    unfold reachesRoot
    rw [find?_map_clear]
    cases RevTree.find? es r with
    | none => rfl
    | some e =>
      simp only [Option.map_some, clearE_parent]
      cases e.parent with
      | none => rfl
      | some p => exact ih p

/-- **the live leaves do not depend on the staging flags** -/
theorem liveLeafs_staging_irrelevant (es : List RtEntry) :
    liveLeafs (es.map (fun e => { e with staging := false })) = liveLeafs es := by
  show liveLeafs (es.map clearE) = liveLeafs es
  unfold liveLeafs
  rw [List.filter_map, List.map_map]
  have h1 : (fun e : RtEntry => e.rev) ∘ clearE = fun e : RtEntry => e.rev := rfl
  have h2 : ((fun e : RtEntry => !e.rev.isResolved && !isParent (es.map clearE) e.rev &&
        reachesRoot (es.map clearE) ((es.map clearE).length + 1) e.rev) ∘ clearE) =
      (fun e : RtEntry => !e.rev.isResolved && !isParent es e.rev && reachesRoot es (es.length + 1) e.rev) := by
    funext e
    simp only [Function.comp, clearE_rev, isParent_map_clear, reachesRoot_map_clear, List.length_map]
  rw [h1, h2]

theorem getParent_map_clear (t t' : RevTree) (h : t'.entries = t.entries.map clearE) (r : Rev) :
    t'.getParent r = t.getParent r := by
  unfold getParent
  rw [h, find?_map_clear]
  cases RevTree.find? t.entries r <;> rfl

/-- **`commit` followed by the re-validation `commit` performs changes nothing observable of a tree**:
    same revisions and parent links (only the staging flags are cleared), same leaves, same winner,
    same parent lookup. -/
theorem commit_tree_obs {t : RevTree} (hf : C15.FlagOK t) (hv : C15.Validated t) :
    (validate t.commit).entries = t.entries.map (fun e => { e with staging := false }) ∧
    (validate t.commit).leafs = t.leafs ∧ (validate t.commit).winner = t.winner ∧
    (∀ r, (validate t.commit).getParent r = t.getParent r) ∧
    (validate t.commit).entries.length = t.entries.length := by
  have he : (validate t.commit).entries = t.entries.map clearE := C15.commit_entries hf
  have hl : liveLeafs t.commit.entries = liveLeafs t.entries := by
    rw [C15.commit_entries hf]; exact liveLeafs_staging_irrelevant _
  refine ⟨he, ?_, ?_, getParent_map_clear t _ he, by rw [he, List.length_map]⟩
  · rw [C15.validate_leafs, hl, ← C15.validate_leafs, hv]
  · rw [C15.validate_winner, hl, ← C15.validate_winner, hv]

theorem commit_docObs {p : Str × RevTree} (hf : C15.FlagOK p.2) (hv : C15.Validated p.2) :
    DocObs p (p.1, validate p.2.commit) := by
  obtain ⟨_, h2, h3, h4, h5⟩ := commit_tree_obs hf hv
  exact ⟨rfl, h3.symm, fun _ => ⟨h2.symm, fun r => (h4 r).symm, h5.symm⟩⟩

theorem all₂_map {α : Type} {R : α → α → Prop} (f : α → α) (l : List α) (h : ∀ a ∈ l, R a (f a)) :
    All₂ R l (l.map f) := by
  induction l with
  | nil => exact .nil
  | cons a l ih => exact .cons (h a (by simp)) (ih (fun b hb => h b (List.mem_cons_of_mem _ hb)))

theorem commitDone_docs (st : DState) (out : CommitOut) (newObjs : List Str) :
    (commitDone st out newObjs).p.docs = st.p.docs.map (fun p => (p.1, validate p.2.commit)) := by
  unfold commitDone PState.validateAll
  simp only [List.map_map]
  rfl

theorem commitDone_acache (st : DState) (out : CommitOut) (newObjs : List Str) :
    (commitDone st out newObjs).acache = st.acache := rfl

/-- the bodies survive the commit: every revision reads the same through the new store's lookup `src'`
    and the emptied stage as it did through the old lookup and the stage (the byte level provides this:
    the staged objects are exactly the objects of the pack that was written) -/
def BodiesPreserved (src src' : Src) (st : DState) (out : CommitOut) (newObjs : List Str) : Prop :=
  ∀ r, readObject src' (commitDone st out newObjs) r = readObject src st r

/-- **Committing does not change the visible document**: the trees keep their winners, leaves and parent
    links, so `read` returns the same value (and the same cache) provided the bodies are still there. -/
theorem commit_read (src src' : Src) (st : DState) (out : CommitOut) (newObjs : List Str)
    (hf : ∀ p ∈ st.p.docs, C15.FlagOK p.2) (hv : ∀ p ∈ st.p.docs, C15.Validated p.2)
    (hb : BodiesPreserved src src' st out newObjs) :
    read src' (commitDone st out newObjs) = read src st := by
  symm
  apply read_congr _ (commitDone_acache st out newObjs).symm (fun r => (hb r).symm)
  rw [commitDone_docs]
  exact all₂_map _ _ (fun p hp => commit_docObs (hf p hp) (hv p hp))

/-- the trees after a commit, one by one -/
theorem commit_trees (st : DState) (out : CommitOut) (newObjs : List Str)
    (hf : ∀ p ∈ st.p.docs, C15.FlagOK p.2) (hv : ∀ p ∈ st.p.docs, C15.Validated p.2) :
    (commitDone st out newObjs).p.docs.map (·.1) = st.p.docs.map (·.1) ∧
    ∀ q ∈ (commitDone st out newObjs).p.docs, ∃ p ∈ st.p.docs, q.1 = p.1 ∧ q.2.leafs = p.2.leafs ∧
      q.2.winner = p.2.winner ∧ (∀ r, q.2.getParent r = p.2.getParent r) ∧
      q.2.entries = p.2.entries.map (fun e => { e with staging := false }) := by
  rw [commitDone_docs]
  refine ⟨by simp [List.map_map, Function.comp_def], ?_⟩
  intro q hq
  obtain ⟨p, hp, rfl⟩ := List.mem_map.mp hq
  obtain ⟨h1, h2, h3, h4, _⟩ := commit_tree_obs (hf p hp) (hv p hp)
  exact ⟨p, hp, rfl, h2, h3, h4, h1⟩

/-! ## 3. `meld` -/

/-- `meld` copies stored items from one store into another; at this level it is the pure function
    `PState.meldKeys` of the two replicas and returns no new replica state: the driver keeps the document
    state (`rep.d`) of both replicas untouched, so `read` before and after a `meld` is literally the same
    term.  (What the copied items do to the receiver is the business of the next `refresh`: C13/C14.) -/
theorem meld_noop (self other : PState) :
    PState.meldKeys self other =
      ((other.deltas.map (·.1.id)).filter (fun id => (PState.findDelta self.deltas id).isNone),
       other.appliedPacks.filter (fun k => !self.appliedPacks.contains k)) := rfl

/-- nothing is copied between replicas that hold the same items -/
theorem meld_self (st : PState) : PState.meldKeys st st = ([], []) := by
  unfold PState.meldKeys
  simp only [Prod.mk.injEq, List.filter_eq_nil_iff, List.mem_map]
  refine ⟨?_, ?_⟩
  · rintro id ⟨p, hp, rfl⟩
    unfold PState.findDelta
    simp only [Option.isNone_iff_eq_none, List.find?_eq_none]
    intro h; exact h p hp (by simp)
  · intro k hk; simpa using hk

/-! ## 4. full snapshots: the list-level core -/

section Orders
variable {α : Type} [DecidableEq α]

/-- `merge_absorb` without the non-emptiness side condition (an empty target absorbs an empty version) -/
theorem merge_absorb' (m n : List α) (h : ∀ x ∈ m, x ∈ n) : mergeArrays m n = n := by
  by_cases hn : n = []
  · subst hn
    cases m with
    | nil => rfl
    | cons a _ => exact absurd (h a (by simp)) (by simp)
  · exact C06.merge_absorb m n hn h

/-- merging any number of versions all of whose elements are already present is the identity
    (no side condition on `base`: stronger than the form with `base ≠ []`) -/
theorem fold_absorb (base : List α) (ls : List (List α)) (h : ∀ l ∈ ls, ∀ x ∈ l, x ∈ base) :
    ls.foldl (fun acc l => mergeArrays l acc) base = base := by
  induction ls with
  | nil => rfl
  | cons l ls ih =>
    simp only [List.foldl_cons]
    rw [merge_absorb' l base (h l (by simp))]
    exact ih (fun l' hl' => h l' (List.mem_cons_of_mem _ hl'))

theorem mergedOrder_absorb (base : List α) (ls : List (List α)) (h : ∀ l ∈ ls, ∀ x ∈ l, x ∈ base) :
    C06.mergedOrder base ls = base := fold_absorb base ls h

/-- **merging again is idempotent**: once `base' = mergedOrder base ls` is formed, merging into it any
    versions made only of elements of `base` and of the `ls` gives `base'` back -/
theorem remerge_idem (base : List α) (ls ls' : List (List α))
    (h : ∀ l ∈ ls', ∀ x ∈ l, x ∈ base ∨ ∃ l₀ ∈ ls, x ∈ l₀) :
    C06.mergedOrder (C06.mergedOrder base ls) ls' = C06.mergedOrder base ls :=
  mergedOrder_absorb _ _ (fun l hl x hx => (C06.mem_mergedOrder base ls x).mpr (h l hl x hx))

/-- in particular merging the same versions a second time changes nothing -/
theorem remerge_same (base : List α) (ls : List (List α)) :
    C06.mergedOrder (C06.mergedOrder base ls) ls = C06.mergedOrder base ls :=
  remerge_idem base ls ls (fun l hl _ hx => Or.inr ⟨l, hl, hx⟩)

/-- **A full snapshot does not change the visible array** (level of orders).
    `ord` gives the true order of every revision before the snapshot, `L` are the leaves, `w` the winner;
    the visible array is `V = mergedOrder (ord w) (L.map ord)`.  The snapshot adds a revision `n` (child of
    `w`) whose descriptor is the full order `V`.  Afterwards the leaves `L'` are `n` and old leaves
    (`w` is gone, but the statement does not even need that), with unchanged orders; the visible array,
    computed at the new winner `n`, is `V` again. -/
theorem snapshot_order_unchanged {ρ : Type} (ord ord' : ρ → List α) (L L' : List ρ) (w n : ρ)
    (hn : ord' n = C06.mergedOrder (ord w) (L.map ord))
    (hold : ∀ l ∈ L', l = n ∨ (l ∈ L ∧ ord' l = ord l)) :
    C06.mergedOrder (ord' n) (L'.map ord') = C06.mergedOrder (ord w) (L.map ord) := by
  rw [hn]
  apply mergedOrder_absorb
  intro o ho x hx
  obtain ⟨l, hl, rfl⟩ := List.mem_map.mp ho
  rcases hold l hl with rfl | ⟨hlL, he⟩
  · rw [hn] at hx; exact hx
  · rw [he] at hx
    exact (C06.mem_mergedOrder _ _ x).mpr (Or.inr ⟨ord l, List.mem_map_of_mem hlL, hx⟩)

/-- **The automatic resolution of an array conflict does not change the visible array** (level of orders):
    the resolution writes a child `n` of the winner carrying the merged order and marks all other leaves
    resolved, so `n` is the only leaf left and the visible array is the merge of `ord' n` with itself. -/
theorem autoresolve_order_unchanged {ρ : Type} (ord ord' : ρ → List α) (L : List ρ) (w n : ρ)
    (hn : ord' n = C06.mergedOrder (ord w) (L.map ord)) :
    C06.mergedOrder (ord' n) ([n].map ord') = C06.mergedOrder (ord w) (L.map ord) := by
  rw [← hn]
  exact mergedOrder_absorb _ _ (fun l hl x hx => by simp at hl; subst hl; exact hx)

/-- the merge at the winner already contains the winner's own order, whatever the order of the leaves -/
theorem visible_contains_all {ρ : Type} (ord : ρ → List α) (L : List ρ) (w l : ρ) (hl : l ∈ L) :
    ∀ x ∈ ord l, x ∈ C06.mergedOrder (ord w) (L.map ord) :=
  fun x hx => (C06.mem_mergedOrder _ _ x).mpr (Or.inr ⟨ord l, List.mem_map_of_mem hl, hx⟩)

end Orders

/-- non-vacuity: two concurrent versions, a snapshot on top of the winner, same visible array -/
example :
    let ord : Nat → List Nat := fun r => if r = 1 then [1, 9, 2, 3] else if r = 2 then [1, 2, 8, 3] else []
    let V := C06.mergedOrder (ord 2) ([1, 2].map ord)
    let ord' : Nat → List Nat := fun r => if r = 3 then V else ord r
    V = [1, 9, 2, 8, 3] ∧ C06.mergedOrder (ord' 3) ([1, 3].map ord') = V := by decide

/-! ## 5. a refresh that finds nothing new -/

open PState Melda.Props.Proto in
theorem loadPacks_all_skipped (v : View) (skip names objs applied : List Str) (h : ∀ k ∈ names, k ∈ skip) :
    loadPacks v skip names objs applied = some (objs, applied) := by
  induction names with
  | nil => rfl
  | cons k ks ih =>
    have hk : skip.contains k = true := List.contains_iff_mem.mpr (h k (by simp))
    simp only [loadPacks, hk, if_true]
    exact ih (fun k' hk' => h k' (List.mem_cons_of_mem _ hk'))

open PState Melda.Props.Proto in
theorem loadFold_closed {v : View} {ds : Proto.Ds} (hd : DsOK v ds) : loadFold v ds = ds := by
  rw [C02.loadFold_eq]
  have : ∀ ids : List BlockId, (∀ id ∈ ids, id ∈ v.blockIds) → ids.foldl (C02.lfStep v) ds = ds := by
    intro ids
    induction ids with
    | nil => intro _; rfl
    | cons id ids ih =>
      intro hids
      simp only [List.foldl_cons]
      have : C02.lfStep v ds id = ds := by
        unfold C02.lfStep
        cases hf : findDelta ds id with
        | some p => rfl
        | none =>
          cases hfe : v.fetch id with
          | none => rfl
          | some b =>
            obtain ⟨p, hp, hpid⟩ := hd.closed id b (hids id (by simp)) hfe
            exact absurd hpid (findDelta_none hf p hp)
      rw [this]
      exact ih (fun id' h' => hids id' (List.mem_cons_of_mem _ h'))
  exact this _ (fun _ h => h)

theorem foldl_no_ready (ds : Proto.Ds) (docs : List (Str × RevTree)) (h : ∀ p ∈ ds, p.2 ≠ .ready) :
    ds.foldl (fun d p => if p.2 = .ready then PState.applyChanges d p.1.changes else d) docs = docs := by
  induction ds with
  | nil => rfl
  | cons p t ih =>
    simp only [List.foldl_cons, if_neg (h p (by simp))]
    exact ih (fun q hq => h q (List.mem_cons_of_mem _ hq))

open PState Melda.Props.Proto in
/-- **A refresh over a storage the replica is already synchronised with changes no tree**: no pack is
    loaded, no block is added, the blocks that were held back are checked again and stay held back, no block
    becomes `ready`, so `apply_delta` is never called; the trees are only re-validated.  The object index
    and the applied packs are unchanged, and every block keeps its status. -/
theorem refresh_idle {v : View} {st st' : PState} (hv : ViewOK v) (hs : C02.Synced v st)
    (h : refresh st v = .ok st') :
    st'.docs = (validateAll st).docs ∧ st'.objects = st.objects ∧ st'.appliedPacks = st.appliedPacks ∧
    (∀ id, statusOf st'.deltas id = statusOf st.deltas id) := by
  have hsync' : C02.Synced v st' :=
    C02.refresh_synced hv hs (C02.View.le_refl v) (fun _ hk => hk) h
  obtain ⟨objs, applied, hl, rfl⟩ := C02.refresh_eq h
  have hl' := loadPacks_all_skipped v st.appliedPacks v.packNames st.objects st.appliedPacks
    (fun k hk => (hs.packs k).mpr hk)
  rw [hl'] at hl
  obtain ⟨rfl, rfl⟩ : st.objects = objs ∧ st.appliedPacks = applied := by
    simpa using hl
  refine ⟨?_, rfl, rfl, fun id => C02.synced_status_unique hsync' hs id⟩
  rw [loadFold_closed hs.ds]
  -- the map that is checked: held-back blocks are pending again
  have hsame : SameBlocks st.deltas (C02.unblock st.deltas) := C02.sameBlocks_map _ _ (fun p => by split <;> rfl)
  have hg : Good v st.objects (C02.unblock st.deltas) := by
    refine ⟨hs.ds.of_same hsame, ?_⟩
    intro p hp
    obtain ⟨q, hq, rfl⟩ := List.mem_map.mp hp
    rcases hs.settled q hq with ha | hb
    · have hc : Complete v st.objects q.1.id := (hs.applied_iff q hq).mp ha
      have e : (if q.2 = Status.blocked then (q.1, Status.pending) else q) = q := by simp [ha]
      rw [e]
      exact ⟨fun _ => hc, fun hb => by rw [ha] at hb; cases hb⟩
    · have e : (if q.2 = Status.blocked then (q.1, Status.pending) else q) = (q.1, Status.pending) := by simp [hb]
      rw [e]
      refine ⟨fun h => ?_, fun h => ?_⟩
      · rcases h with h | h <;> cases h
      · cases h
  obtain ⟨g, sm, mo, _⟩ := markValid_spec hv st.objects (maxIndex (C02.unblock st.deltas) + 1)
    (C02.unblock st.deltas) hg (fun p hp => Nat.lt_succ_of_le (C02.le_maxIndex _ p hp))
  have hnr : ∀ p ∈ markValid v st.objects (maxIndex (C02.unblock st.deltas) + 1) (C02.unblock st.deltas),
      p.2 ≠ .ready := by
    intro p hp hr
    have hc : Complete v st.objects p.1.id := (g.st p hp).1 (Or.inl hr)
    have hsame2 := SameBlocks.trans hsame sm
    have hmem : p.1 ∈ st.deltas.map (·.1) := by
      rw [← hsame2]; exact List.mem_map_of_mem (f := fun x : Block × Status => x.1) hp
    obtain ⟨q, hq, hq1⟩ := List.mem_map.mp hmem
    have hqa : q.2 = .applied := (hs.applied_iff q hq).mpr (by rw [hq1]; exact hc)
    -- `q` is applied, hence applied in the unblocked map, hence (monotonicity) applied after marking
    have hq' : q ∈ C02.unblock st.deltas := by
      unfold C02.unblock
      refine List.mem_map.mpr ⟨q, hq, ?_⟩
      simp [hqa]
    have h1 : statusOf (C02.unblock st.deltas) q.1.id = some .applied := by
      rw [statusOf_of_mem hg.ok.nodup hq', hqa]
    have h2 := mo q.1.id .applied h1 (by intro e; cases e)
    rw [hq1, statusOf_of_mem g.ok.nodup hp, hr] at h2
    cases h2
  show ((applyReady _).docs.map fun p => (p.1, p.2.validate)) = st.docs.map fun p => (p.1, p.2.validate)
  unfold applyReady
  simp only
  rw [foldl_no_ready _ _ hnr]

/-- with validated trees the document map is literally unchanged … -/
theorem refresh_idle_docs {v : View} {st st' : PState} (hv : Proto.ViewOK v) (hs : C02.Synced v st)
    (hval : ∀ p ∈ st.docs, C15.Validated p.2) (h : PState.refresh st v = .ok st') : st'.docs = st.docs := by
  rw [(refresh_idle hv hs h).1]
  show st.docs.map (fun p => (p.1, p.2.validate)) = st.docs
  conv => rhs; rw [← List.map_id st.docs]
  apply List.map_congr_left
  intro p hp
  have : validate p.2 = p.2 := hval p hp
  simp [this]

/-- … and so is the visible document -/
theorem refresh_idle_read {v : View} {d : DState} {p' : PState} (src : Src) (hv : Proto.ViewOK v)
    (hs : C02.Synced v d.p) (hval : ∀ p ∈ d.p.docs, C15.Validated p.2) (h : PState.refresh d.p v = .ok p') :
    read src { d with p := p' } = read src d :=
  read_docs_congr (refresh_idle_docs hv hs hval h) rfl rfl

/-! ## 6. adding a child to a tree (shared with C07: resolutions, snapshots, updates) -/

open C05 (KeysNodup WellIndexed Reaches LiveLeaf)
open C19 (Canonical)

/-- `Rev.cmp` is a strict total order on canonical revisions -/
theorem canonOrder : C05.CmpOrder Canonical where
  refl := C19.cmp_refl
  eq_iff := fun a b ha hb => C19.cmp_eq_iff a b ha hb
  antisymm := C19.cmp_antisymm
  trans := C19.cmp_trans

/-- every parent link points to a revision of the tree -/
def Closed (es : List RtEntry) : Prop := ∀ e ∈ es, ∀ p, e.parent = some p → ∃ e' ∈ es, e'.rev = p

/-- the well-formedness of a tree the document-level theorems need -/
structure GoodTree (t : RevTree) : Prop where
  valid : C15.Validated t
  keys : KeysNodup t.entries
  widx : WellIndexed t.entries
  closed : Closed t.entries
  canon : ∀ e ∈ t.entries, Canonical e.rev

theorem reaches_mem {es : List RtEntry} {r : Rev} (h : Reaches es r) : ∃ e ∈ es, e.rev = r := by
  cases h with
  | root e he _ _ => exact ⟨e, he, rfl⟩
  | step e p he _ _ => exact ⟨e, he, rfl⟩

theorem reaches_mono {es es' : List RtEntry} (hsub : ∀ e ∈ es, e ∈ es') {r : Rev} (h : Reaches es r) :
    Reaches es' r := by
  induction h with
  | root e he hp hi => exact .root e (hsub e he) hp hi
  | step e p he hp _ ih => exact .step e p (hsub e he) hp ih

section Append
variable {es : List RtEntry} {m l : Rev} {s : Bool}

theorem reaches_append (hm : ∀ e ∈ es, e.rev ≠ m) (hnp : ∀ e ∈ es, e.parent ≠ some m)
    (hl : ∃ e ∈ es, e.rev = l) (x : Rev) :
    Reaches (es ++ [⟨m, some l, s⟩]) x ↔ Reaches es x ∨ (x = m ∧ Reaches es l) := by
  constructor
  · intro h
    induction h with
    | root e he hp hi =>
      rcases List.mem_append.mp he with he | he
      · exact Or.inl (.root e he hp hi)
      · rw [List.mem_singleton.mp he] at hp; cases hp
    | step e p he hp _ ih =>
      rcases List.mem_append.mp he with he1 | he1
      · rcases ih with ih | ⟨hpm, _⟩
        · exact Or.inl (.step e p he1 hp ih)
        · rw [hpm] at hp; exact absurd hp (hnp e he1)
      · have he' := List.mem_singleton.mp he1
        subst he'
        simp only [Option.some.injEq] at hp
        subst hp
        rcases ih with ih | ⟨rfl, _⟩
        · exact Or.inr ⟨rfl, ih⟩
        · obtain ⟨e, he, h⟩ := hl; exact absurd h (hm e he)
  · rintro (h | ⟨rfl, h⟩)
    · exact reaches_mono (fun e he => List.mem_append_left _ he) h
    · exact .step ⟨x, some l, s⟩ l (by simp) rfl (reaches_mono (fun e he => List.mem_append_left _ he) h)

/-- **the live leaves after appending a child `m` of `l`**: `m` itself (unless it is a resolution
    marker) and the old ones except `l` -/
theorem liveLeaf_append (hm : ∀ e ∈ es, e.rev ≠ m) (hnp : ∀ e ∈ es, e.parent ≠ some m)
    (hl : ∃ e ∈ es, e.rev = l) (x : Rev) :
    LiveLeaf (es ++ [⟨m, some l, s⟩]) x ↔
      (x = m ∧ ¬ m.isResolved ∧ Reaches es l) ∨ (LiveLeaf es x ∧ x ≠ l) := by
  have hlm : l ≠ m := by rintro rfl; obtain ⟨e, he, h⟩ := hl; exact hm e he h
  unfold LiveLeaf
  rw [reaches_append hm hnp hl]
  constructor
  · rintro ⟨⟨e, he, rfl⟩, h2, h3, h4⟩
    rcases List.mem_append.mp he with he | he
    · right
      have hne : e.rev ≠ m := hm e he
      refine ⟨⟨⟨e, he, rfl⟩, h2, fun e' he' => h3 e' (List.mem_append_left _ he'), ?_⟩, ?_⟩
      · rcases h4 with h4 | ⟨h4, _⟩
        · exact h4
        · exact absurd h4 hne
      · intro e1
        exact h3 ⟨m, some l, s⟩ (by simp) (by rw [e1])
    · left
      have he' := List.mem_singleton.mp he
      subst he'
      refine ⟨rfl, h2, ?_⟩
      rcases h4 with h4 | ⟨_, h4⟩
      · obtain ⟨e, he, h⟩ := reaches_mem h4; exact absurd h (hm e he)
      · exact h4
  · rintro (⟨rfl, h2, h3⟩ | ⟨⟨⟨e, he, rfl⟩, h2, h3, h4⟩, hne⟩)
    · refine ⟨⟨⟨x, some l, s⟩, by simp, rfl⟩, h2, ?_, Or.inr ⟨rfl, h3⟩⟩
      intro e he
      rcases List.mem_append.mp he with he | he
      · exact hnp e he
      · rw [List.mem_singleton.mp he]; simp only [ne_eq, Option.some.injEq]; exact hlm
    · refine ⟨⟨e, List.mem_append_left _ he, rfl⟩, h2, ?_, Or.inl h4⟩
      intro e' he'
      rcases List.mem_append.mp he' with he' | he'
      · exact h3 e' he'
      · rw [List.mem_singleton.mp he']; simp only [ne_eq, Option.some.injEq]; exact fun e1 => hne e1.symm

theorem keysNodup_append (hk : KeysNodup es) (hm : ∀ e ∈ es, e.rev ≠ m) (p : Option Rev) :
    KeysNodup (es ++ [⟨m, p, s⟩]) := by
  unfold KeysNodup at *
  rw [List.map_append, List.nodup_append]
  refine ⟨hk, by simp, ?_⟩
  intro a ha b hb
  obtain ⟨e, he, rfl⟩ := List.mem_map.mp ha
  simp only [List.map_cons, List.map_nil, List.mem_singleton] at hb
  subst hb
  exact hm e he

theorem wellIndexed_append (hw : WellIndexed es) (hi : l.index + 1 = m.index) :
    WellIndexed (es ++ [⟨m, some l, s⟩]) := by
  intro e he p hp
  rcases List.mem_append.mp he with he | he
  · exact hw e he p hp
  · rw [List.mem_singleton.mp he] at hp ⊢
    simp only [Option.some.injEq] at hp
    subst hp; exact hi

theorem closed_append (hc : Closed es) (hl : ∃ e ∈ es, e.rev = l) : Closed (es ++ [⟨m, some l, s⟩]) := by
  intro e he p hp
  rcases List.mem_append.mp he with he | he
  · obtain ⟨e', he', h⟩ := hc e he p hp
    exact ⟨e', List.mem_append_left _ he', h⟩
  · rw [List.mem_singleton.mp he] at hp
    simp only [Option.some.injEq] at hp
    subst hp
    obtain ⟨e', he', h⟩ := hl
    exact ⟨e', List.mem_append_left _ he', h⟩

end Append

/-- in a closed tree a revision that is not there is nobody's parent -/
theorem not_parent_of_fresh {es : List RtEntry} (hc : Closed es) {m : Rev} (hm : ∀ e ∈ es, e.rev ≠ m) :
    ∀ e ∈ es, e.parent ≠ some m := by
  intro e he hp
  obtain ⟨e', he', h⟩ := hc e he m hp
  exact hm e' he' h

theorem GoodTree.mem_leafs {t : RevTree} (g : GoodTree t) (x : Rev) : x ∈ t.leafs ↔ LiveLeaf t.entries x := by
  have := C05.mem_leafs_iff canonOrder t g.keys g.widx g.canon x
  rw [g.valid] at this; exact this

theorem GoodTree.winner_iff {t : RevTree} (g : GoodTree t) (w : Rev) :
    t.winner = some w ↔ LiveLeaf t.entries w ∧ ∀ x, LiveLeaf t.entries x → Rev.cmp x w ≠ .gt := by
  have := C05.winner_spec canonOrder t g.keys g.widx g.canon w
  rw [g.valid] at this; exact this

theorem GoodTree.leafs_nodup {t : RevTree} (g : GoodTree t) : t.leafs.Nodup := by
  have : (validate t).leafs.Nodup := C05.sorted_nodup canonOrder (C05.sortRevs_sorted canonOrder _)
  rw [g.valid] at this; exact this

theorem GoodTree.winner_mem {t : RevTree} (g : GoodTree t) {w : Rev} (h : t.winner = some w) : w ∈ t.leafs :=
  (g.mem_leafs w).mpr ((g.winner_iff w).mp h).1

theorem GoodTree.winner_isSome {t : RevTree} (g : GoodTree t) (h : t.leafs ≠ []) : ∃ w, t.winner = some w := by
  cases hw : t.winner with
  | some w => exact ⟨w, rfl⟩
  | none =>
    exfalso
    have h1 : (validate t).winner = none := by rw [g.valid]; exact hw
    have h2 := (C05.winner_none_iff t g.keys g.widx).mp h1
    cases hl : t.leafs with
    | nil => exact h hl
    | cons x _ => exact h2 x ((g.mem_leafs x).mp (by rw [hl]; simp))

/-- `add` of a revision that is not in the tree -/
theorem add_fresh (t : RevTree) (r : Rev) (p : Option Rev) (s : Bool) (h : ∀ e ∈ t.entries, e.rev ≠ r) :
    (t.add r p s).1 =
      validate { t with entries := t.entries ++ [⟨r, p, s⟩], staging := t.staging || s, validated := false } := by
  rw [C15.add_fst, if_neg]
  intro hc
  obtain ⟨e, he, h'⟩ := (C05.contains_iff t r).mp hc
  exact h e he h'

theorem add_fresh_entries (t : RevTree) (r : Rev) (p : Option Rev) (s : Bool) (h : ∀ e ∈ t.entries, e.rev ≠ r) :
    (t.add r p s).1.entries = t.entries ++ [⟨r, p, s⟩] := by
  rw [add_fresh t r p s h]; rfl

theorem validated_add (t : RevTree) (hv : C15.Validated t) (r : Rev) (p : Option Rev) (s : Bool) :
    C15.Validated (t.add r p s).1 := by
  rw [C15.add_fst]
  split
  · exact hv
  · exact C15.validate_idem _

/-- **adding a fresh child of a revision of the tree keeps the tree well-formed** and changes the live
    leaves as `liveLeaf_append` says -/
theorem add_child_good {t : RevTree} (g : GoodTree t) {m l : Rev} (s : Bool)
    (hm : ∀ e ∈ t.entries, e.rev ≠ m) (hl : ∃ e ∈ t.entries, e.rev = l) (hi : l.index + 1 = m.index)
    (hc : Canonical m) :
    GoodTree (t.add m (some l) s).1 ∧
    (t.add m (some l) s).1.entries = t.entries ++ [⟨m, some l, s⟩] ∧
    ∀ x, LiveLeaf (t.add m (some l) s).1.entries x ↔
      (x = m ∧ ¬ m.isResolved ∧ Reaches t.entries l) ∨ (LiveLeaf t.entries x ∧ x ≠ l) := by
  have he := add_fresh_entries t m (some l) s hm
  refine ⟨⟨validated_add t g.valid _ _ _, ?_, ?_, ?_, ?_⟩, he, ?_⟩
  · rw [he]; exact keysNodup_append g.keys hm _
  · rw [he]; exact wellIndexed_append g.widx hi
  · rw [he]; exact closed_append g.closed hl
  · rw [he]; intro e hmem
    rcases List.mem_append.mp hmem with h | h
    · exact g.canon e h
    · rw [List.mem_singleton.mp h]; exact hc
  · intro x; rw [he]; exact liveLeaf_append hm (not_parent_of_fresh g.closed hm) hl x

theorem index_le_of_not_gt {a b : Rev} (ha : ¬ a.isResolved = true) (hb : ¬ b.isResolved = true)
    (h : Rev.cmp a b ≠ .gt) : a.index ≤ b.index := by
  apply Nat.le_of_not_lt
  intro hlt
  exact h ((C19.cmp_gt_iff a b).mpr (C19.cmp_index b a hb ha hlt))

/-- **a fresh child of the current winner becomes the winner**; the leaves are the old ones with the old
    winner replaced by the child (Stage-A lemma: an update / deletion / snapshot on top of the winner) -/
theorem add_child_becomes_winner {t : RevTree} (g : GoodTree t) {w m : Rev} (s : Bool) (hw : t.winner = some w)
    (hm : ∀ e ∈ t.entries, e.rev ≠ m) (hi : w.index + 1 = m.index) (hc : Canonical m)
    (hr : ¬ m.isResolved = true) :
    GoodTree (t.add m (some w) s).1 ∧ (t.add m (some w) s).1.winner = some m ∧
    (∀ x, x ∈ (t.add m (some w) s).1.leafs ↔ x = m ∨ (x ∈ t.leafs ∧ x ≠ w)) ∧
    (t.add m (some w) s).1.entries = t.entries ++ [⟨m, some w, s⟩] := by
  obtain ⟨hwl, hwmax⟩ := (g.winner_iff w).mp hw
  obtain ⟨g', he, hll⟩ := add_child_good g s hm hwl.1 hi hc
  have hll' : ∀ x, LiveLeaf (t.add m (some w) s).1.entries x ↔ x = m ∨ (LiveLeaf t.entries x ∧ x ≠ w) := by
    intro x; rw [hll x]
    constructor
    · rintro (⟨h, _⟩ | h); exact Or.inl h; exact Or.inr h
    · rintro (h | h); exact Or.inl ⟨h, hr, hwl.2.2.2⟩; exact Or.inr h
  refine ⟨g', ?_, ?_, he⟩
  · rw [g'.winner_iff m]
    refine ⟨(hll' m).mpr (Or.inl rfl), ?_⟩
    intro x hx
    rcases (hll' x).mp hx with rfl | ⟨hx, _⟩
    · rw [C19.cmp_refl]; intro h; cases h
    · have h1 : x.index ≤ w.index := index_le_of_not_gt hx.2.1 hwl.2.1 (hwmax x hx)
      rw [C19.cmp_index x m hx.2.1 hr (by omega)]
      intro h; cases h
  · intro x
    rw [g'.mem_leafs, hll' x, g.mem_leafs]

/-! ### the resolution markers -/

/-- one step of the marker loop of `resolve_as` -/
def markStep (H : Bytes → Str) (w1 : Rev) (t : RevTree) (r : Rev) : RevTree :=
  if r ≠ w1 then (t.add (Rev.res H r) (some r) true).1 else t

theorem res_isResolved (H : Bytes → Str) (r : Rev) : (Rev.res H r).isResolved = true := by
  simp [Rev.res, Rev.upd, Rev.isResolved]

theorem res_index (H : Bytes → Str) (r : Rev) : (Rev.res H r).index = r.index + 1 := rfl

/-- **the marker loop**: every listed revision other than `w1` gets a resolution-marker child; the
    markers are never live leaves and turn their parents into non-leaves; nothing else changes -/
theorem markFold_spec {H : Bytes → Str} (hH : C19.HexOut H) (w1 : Rev) (ls : List Rev) (hnd : ls.Nodup)
    {t : RevTree} (g : GoodTree t)
    (hin : ∀ l ∈ ls, ∃ e ∈ t.entries, e.rev = l)
    (hfresh : ∀ l ∈ ls, l ≠ w1 → ∀ e ∈ t.entries, e.rev ≠ Rev.res H l)
    (hinj : ∀ l ∈ ls, ∀ l' ∈ ls, Rev.res H l = Rev.res H l' → l = l') :
    GoodTree (ls.foldl (markStep H w1) t) ∧
    (ls.foldl (markStep H w1) t).entries =
      t.entries ++ (ls.filter (fun l => l ≠ w1)).map (fun l => ⟨Rev.res H l, some l, true⟩) ∧
    ∀ x, LiveLeaf (ls.foldl (markStep H w1) t).entries x ↔ LiveLeaf t.entries x ∧ (x ∈ ls → x = w1) := by
  induction ls generalizing t with
  | nil => exact ⟨g, by simp, fun x => by simp⟩
  | cons l ls ih =>
    obtain ⟨hl_notin, hnd'⟩ := List.nodup_cons.mp hnd
    simp only [List.foldl_cons]
    by_cases hlw : l = w1
    · have hstep : markStep H w1 t l = t := by unfold markStep; simp [hlw]
      rw [hstep]
      obtain ⟨g2, e2, l2⟩ := ih hnd' g (fun l' h' => hin l' (List.mem_cons_of_mem _ h'))
        (fun l' h' => hfresh l' (List.mem_cons_of_mem _ h'))
        (fun a ha b hb => hinj a (List.mem_cons_of_mem _ ha) b (List.mem_cons_of_mem _ hb))
      refine ⟨g2, ?_, ?_⟩
      · rw [e2, List.filter_cons]; simp [hlw]
      · intro x; rw [l2 x]
        simp only [List.mem_cons]
        constructor
        · rintro ⟨h1, h2⟩; exact ⟨h1, fun h => h.elim (fun e => e.trans hlw) h2⟩
        · rintro ⟨h1, h2⟩; exact ⟨h1, fun h => h2 (Or.inr h)⟩
    · have hstep : markStep H w1 t l = (t.add (Rev.res H l) (some l) true).1 := by
        unfold markStep; simp [hlw]
      rw [hstep]
      have hlin := hin l (by simp)
      have hlc : Canonical l := by obtain ⟨e, he, h⟩ := hlin; rw [← h]; exact g.canon e he
      have hmf := hfresh l (by simp) hlw
      obtain ⟨g1, e1, l1⟩ := add_child_good g true hmf hlin (res_index H l).symm (C19.res_canonical hH l hlc)
      obtain ⟨g2, e2, l2⟩ := ih hnd' g1
        (fun l' h' => by
          obtain ⟨e, he, h⟩ := hin l' (List.mem_cons_of_mem _ h')
          exact ⟨e, by rw [e1]; exact List.mem_append_left _ he, h⟩)
        (fun l' h' hne e he => by
          rw [e1] at he
          rcases List.mem_append.mp he with he | he
          · exact hfresh l' (List.mem_cons_of_mem _ h') hne e he
          · rw [List.mem_singleton.mp he]
            intro heq
            have := hinj l (by simp) l' (List.mem_cons_of_mem _ h') heq
            exact hl_notin (this ▸ h'))
        (fun a ha b hb => hinj a (List.mem_cons_of_mem _ ha) b (List.mem_cons_of_mem _ hb))
      refine ⟨g2, ?_, ?_⟩
      · rw [e2, e1, List.filter_cons]; simp [hlw]
      · intro x; rw [l2 x, l1 x]
        simp only [List.mem_cons, res_isResolved, not_true_eq_false, false_and, and_false, false_or]
        constructor
        · rintro ⟨⟨h1, h3⟩, h2⟩; exact ⟨h1, fun h => h.elim (fun e => absurd e h3) h2⟩
        · rintro ⟨h1, h2⟩
          refine ⟨⟨h1, ?_⟩, fun h => h2 (Or.inr h)⟩
          intro e; exact hlw (e ▸ h2 (Or.inl e))

theorem eq_singleton_of_nodup {α : Type} {l : List α} {a : α} (hn : l.Nodup) (h : ∀ x, x ∈ l ↔ x = a) : l = [a] := by
  cases l with
  | nil => exact absurd ((h a).mpr rfl) (by simp)
  | cons x xs =>
    have hx : x = a := (h x).mp (by simp)
    subst hx
    cases xs with
    | nil => rfl
    | cons y ys =>
      have hy : y = x := (h y).mp (by simp)
      subst hy
      simp at hn

/-- **after the marker loop over all leaves the kept revision is the only leaf and the winner** -/
theorem markFold_leafs {H : Bytes → Str} (hH : C19.HexOut H) {t : RevTree} (g : GoodTree t) (w1 : Rev)
    (hw1 : w1 ∈ t.leafs)
    (hfresh : ∀ l ∈ t.leafs, l ≠ w1 → ∀ e ∈ t.entries, e.rev ≠ Rev.res H l)
    (hinj : ∀ l ∈ t.leafs, ∀ l' ∈ t.leafs, Rev.res H l = Rev.res H l' → l = l') :
    GoodTree (t.leafs.foldl (markStep H w1) t) ∧
    (t.leafs.foldl (markStep H w1) t).leafs = [w1] ∧
    (t.leafs.foldl (markStep H w1) t).winner = some w1 ∧
    (t.leafs.foldl (markStep H w1) t).entries =
      t.entries ++ (t.leafs.filter (fun l => l ≠ w1)).map (fun l => ⟨Rev.res H l, some l, true⟩) := by
  obtain ⟨g2, e2, l2⟩ := markFold_spec hH w1 t.leafs g.leafs_nodup g
    (fun l hl => ((g.mem_leafs l).mp hl).1) hfresh hinj
  have hlive : ∀ x, LiveLeaf (t.leafs.foldl (markStep H w1) t).entries x ↔ x = w1 := by
    intro x; rw [l2 x]
    constructor
    · rintro ⟨h1, h2⟩; exact h2 ((g.mem_leafs x).mpr h1)
    · rintro rfl; exact ⟨(g.mem_leafs x).mp hw1, fun _ => rfl⟩
  refine ⟨g2, ?_, ?_, e2⟩
  · exact eq_singleton_of_nodup g2.leafs_nodup (fun x => by rw [g2.mem_leafs, hlive])
  · rw [g2.winner_iff]
    refine ⟨(hlive w1).mpr rfl, ?_⟩
    intro x hx
    rw [(hlive x).mp hx, C19.cmp_refl]; intro h; cases h

/-! ## more about 2 and 5: the hypotheses are satisfiable -/

/-- `BodiesPreserved` holds whenever the new store's lookup finds what the old lookup or the stage found
    (the pack written by the commit holds exactly the staged objects) -/
theorem bodiesPreserved_intro (src src' : Src) (st : DState) (out : CommitOut) (newObjs : List Str)
    (h : ∀ k, src' k = match src k with
      | some o => some o
      | none => (st.stage.find? (fun p => p.1 = k)).map (·.2)) :
    BodiesPreserved src src' st out newObjs := by
  intro r
  unfold readObject
  have hs : (commitDone st out newObjs).stage = [] := rfl
  rw [hs, h r.digest]
  cases src r.digest with
  | some o => rfl
  | none =>
    simp only [List.find?_nil]
    cases st.stage.find? (fun p => p.1 = r.digest) <;> rfl

/-- `commit_read` applies to every state with well-flagged, validated trees: take for `src'` the old lookup
    extended by the stage -/
theorem commit_read_inst (src : Src) (st : DState) (out : CommitOut) (newObjs : List Str)
    (hf : ∀ p ∈ st.p.docs, C15.FlagOK p.2) (hv : ∀ p ∈ st.p.docs, C15.Validated p.2) :
    read (fun k => match src k with
        | some o => some o
        | none => (st.stage.find? (fun p => p.1 = k)).map (·.2)) (commitDone st out newObjs) = read src st :=
  commit_read src _ st out newObjs hf hv (bodiesPreserved_intro src _ st out newObjs (fun _ => rfl))

/-- a state with staged revisions whose trees are well-flagged and validated (from C15) -/
example : (∀ p ∈ C15.exDocs, C15.FlagOK p.2) ∧ (∀ p ∈ C15.exDocs, C15.Validated p.2) ∧
    PState.hasStaging { docs := C15.exDocs } = true := by decide

open PState in
/-- a synchronised replica without staged revisions can always refresh -/
theorem refresh_idle_ok {v : View} {st : PState} (hs : C02.Synced v st) (hn : st.hasStaging = false) :
    ∃ st', refresh st v = .ok st' := by
  unfold refresh
  simp only [hn, Bool.false_eq_true, if_false]
  rw [loadPacks_all_skipped v st.appliedPacks v.packNames st.objects st.appliedPacks
    (fun k hk => (hs.packs k).mpr hk)]
  exact ⟨_, rfl⟩

/-- the hypotheses of `refresh_idle` hold after a reload of the storage `vA` of C02 (one applied block, two
    held back): refreshing over the same storage succeeds -/
example : ∃ s₀ s₁, PState.reload {} C02.vA = .ok s₀ ∧ C02.Synced C02.vA s₀ ∧ PState.refresh s₀ C02.vA = .ok s₁ := by
  obtain ⟨s₀, h0⟩ := C02.reload_ok (st := {}) C02.vA rfl (by decide)
  have hs := C02.reload_synced C02.vA_ok h0
  have hn : s₀.hasStaging = false := by
    have : (match PState.reload {} C02.vA with | .ok s => s.hasStaging | .error _ => true) = false := by decide
    rw [h0] at this; exact this
  obtain ⟨s₁, h1⟩ := refresh_idle_ok hs hn
  exact ⟨s₀, s₁, h0, hs, h1⟩

/-! ## non-vacuity of section 6 -/

/-- a toy hash with 64 lower-case hex characters that depends on the length of its input -/
def exH : Bytes → Str := fun b => List.replicate 64 (hexDigitLower (b.length % 16))

theorem exH_hex : C19.HexOut exH := by
  intro b
  refine ⟨by simp [exH], ?_⟩
  intro c hc
  rw [List.eq_of_mem_replicate hc]
  have : ∀ k : Fin 16, (isDigit (hexDigitLower k.val) || ('a'.val ≤ (hexDigitLower k.val).val &&
      (hexDigitLower k.val).val ≤ 'f'.val)) = true := by decide
  exact this ⟨b.length % 16, Nat.mod_lt _ (by decide)⟩

def x1 : Rev := Rev.mk1 "aa".toList
def x2a : Rev := Rev.upd exH "bb".toList x1
def x2b : Rev := Rev.upd exH "ccc".toList x1
def x2d : Rev := Rev.del exH x1

/-- root with two concurrent children: a conflict between two plain versions -/
def exT : RevTree := (((RevTree.empty.add x1 none false).1.add x2a (some x1) false).1.add x2b (some x1) false).1
/-- root with an update and a concurrent deletion -/
def exTd : RevTree := (((RevTree.empty.add x1 none false).1.add x2a (some x1) false).1.add x2d (some x1) false).1

def closedB (es : List RtEntry) : Bool :=
  es.all (fun e => match e.parent with | none => true | some p => es.any (fun e' => e'.rev = p))

theorem closed_of_closedB {es : List RtEntry} (h : closedB es = true) : Closed es := by
  intro e he p hp
  have := List.all_eq_true.mp h e he
  rw [hp] at this
  obtain ⟨e', he', h'⟩ := List.any_eq_true.mp this
  exact ⟨e', he', by simpa using h'⟩

theorem goodTree_of_dec {t : RevTree} (h1 : C15.Validated t) (h2 : KeysNodup t.entries) (h3 : WellIndexed t.entries)
    (h4 : closedB t.entries = true) (h5 : ∀ e ∈ t.entries, Canonical e.rev) : GoodTree t :=
  ⟨h1, h2, h3, closed_of_closedB h4, h5⟩

theorem exT_good : GoodTree exT := goodTree_of_dec (by decide) (by decide) (by decide) (by decide) (by decide)
theorem exTd_good : GoodTree exTd := goodTree_of_dec (by decide) (by decide) (by decide) (by decide) (by decide)


example : exT.leafs = [x2a, x2b] ∧ exT.winner = some x2b := by decide

/-- the hypotheses of `add_child_becomes_winner` hold for an update on top of the winner of `exT` -/
example : GoodTree exT ∧ exT.winner = some x2b ∧ (∀ e ∈ exT.entries, e.rev ≠ Rev.upd exH "dd".toList x2b) ∧
    Canonical (Rev.upd exH "dd".toList x2b) ∧ ¬ (Rev.upd exH "dd".toList x2b).isResolved = true :=
  ⟨exT_good, by decide, by decide, by decide, by decide⟩

/-- the hypotheses of `markFold_leafs` hold for `exT`, keeping the winner -/
example : x2b ∈ exT.leafs ∧ (∀ l ∈ exT.leafs, l ≠ x2b → ∀ e ∈ exT.entries, e.rev ≠ Rev.res exH l) ∧
    (∀ l ∈ exT.leafs, ∀ l' ∈ exT.leafs, Rev.res exH l = Rev.res exH l' → l = l') := by decide

example : (exT.leafs.foldl (markStep exH x2b) exT).leafs = [x2b] := by decide

/-! ## 4 (continued). the snapshot step on a tree -/

/-
  FULL STATEMENT (proved since, at the level of `DState.snapshot`, as `C12b.snapshot_read`; that it never aborts:
  `C12c.snapshot_no_panic`; this partial version is kept because `C12b` builds on its tree-level content):

    theorem snapshot_read (H src st st') (well-formedness of st) :
        snapshot H src st = .ok st' → read src st' = read src st   (up to the descriptor cache)

  What is proved instead (`snapshot_read_partial`): for one array-descriptor tree, the step
  `t.add (Rev.upd H d w) (some w) true` that `stage_full_snapshot` performs makes the new revision the winner
  and replaces the old winner by it among the leaves (tree level, from the definitions of `add`/`validate`);
  and if `ord` assigns to every old leaf its true order and the new revision carries the merged order at the
  old winner (this is what `readAt … w` returned and what is written as the `ORDER_FIELD` of the new object),
  then the merged order at the new winner over the new leaves is the merged order at the old winner over the
  old leaves (order level, from `merge_absorb`).
  MISSING: the link between `rebuildOrder` (chain walk over delta descriptors, patches, LRU cache) and the
  abstract `ord`, i.e. that `rebuildOrder src st' t' c l` returns `ord l` for the old leaves (same parents,
  same bodies, sound cache) and `V` for the new one (it reads a full descriptor), and the iteration of the
  step over all documents of `snapshot`.
-/
theorem snapshot_read_partial {H : Bytes → Str} {t : RevTree} (g : GoodTree t) {w : Rev} {d : Str}
    (hw : t.winner = some w) (hm : ∀ e ∈ t.entries, e.rev ≠ Rev.upd H d w)
    (hc : Canonical (Rev.upd H d w)) (hr : ¬ (Rev.upd H d w).isResolved = true)
    (ord ord' : Rev → List JVal)
    (hn : ord' (Rev.upd H d w) = C06.mergedOrder (ord w) (t.leafs.map ord))
    (hold : ∀ l ∈ t.leafs, ord' l = ord l) :
    (t.add (Rev.upd H d w) (some w) true).1.winner = some (Rev.upd H d w) ∧
    (Rev.upd H d w).index = w.index + 1 ∧
    (∀ x, x ∈ (t.add (Rev.upd H d w) (some w) true).1.leafs ↔ x = Rev.upd H d w ∨ (x ∈ t.leafs ∧ x ≠ w)) ∧
    C06.mergedOrder (ord' (Rev.upd H d w)) ((t.add (Rev.upd H d w) (some w) true).1.leafs.map ord') =
      C06.mergedOrder (ord w) (t.leafs.map ord) := by
  obtain ⟨_, hw1, hl1, _⟩ := add_child_becomes_winner g true hw hm rfl hc hr
  refine ⟨hw1, rfl, hl1, ?_⟩
  apply snapshot_order_unchanged ord ord' t.leafs _ w (Rev.upd H d w) hn
  intro l hl
  rcases (hl1 l).mp hl with h | ⟨h, _⟩
  · exact Or.inl h
  · exact Or.inr ⟨h, hold l h⟩

end Melda.Props.C12
