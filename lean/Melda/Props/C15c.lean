/-
  C15 - an export that is replayed AFTER its changes were committed (or on a replica that has already
  received them) changes nothing: every record names a revision the tree already holds (first write wins:
  `unvalidated_add` returns early), every body is already stored (`write_raw_value` skips it).  In
  particular no committed revision turns into a staged one, so a later `unstage` cannot drop it.
  (The seeded change C15-d - `insert(..).is_some()` instead of `contains_key` + `insert` - breaks exactly
  this; the harness operation `stage_commit_replay` is the same statement evaluated on the library.)

  * `setTree_same`, `withTree_same`: writing back the tree that is there is the identity (sorted map);
  * `recStep_recorded`: a record whose revision is recorded leaves the state as it is;
  * `bodyFold_committed`: bodies whose digests are committed leave the data stage as it is;
  * **`replay_recorded_noop`**: `replay_stage` of ANY stage object whose records all name recorded
    revisions and whose bodies are all committed returns the state unchanged - whatever the order of the
    records, whatever else the object holds.
-/
import Melda.Props.C15b
namespace Melda.Props.C15c
open Melda Melda.RevTree Melda.DState Melda.Props.C15b

theorem setTree_same : ∀ (docs : List (Str × RevTree)) (u : Str) (t : RevTree), C15.DocsSorted docs →
    docs.find? (fun p => p.1 = u) = some (u, t) → setTree docs u t = docs
  | [], u, t, _, h => by simp at h
  | (k, x) :: rest, u, t, hs, h => by
    simp only [setTree]
    by_cases hk : k = u
    · subst hk
      simp only [List.find?_cons, decide_true, Option.some.injEq, Prod.mk.injEq, true_and] at h
      simp [h]
    · have h' : rest.find? (fun p => p.1 = u) = some (u, t) := by
        simpa [List.find?_cons, hk] using h
      have hs' := List.pairwise_cons.mp hs
      have hmem := List.mem_of_find?_eq_some h'
      have hlt : strLt k u = true := hs'.1 (u, t) hmem
      have hnlt : strLt u k = false := C04.strLt_asymm k u hlt
      simp only [hk, if_false, hnlt, Bool.false_eq_true, setTree_same rest u t hs'.2 h']

theorem withTree_same (st : DState) (u : Str) (t : RevTree) (hs : C15.DocsSorted st.p.docs)
    (ht : st.treeOf u = some t) : st.withTree u t = st := by
  unfold DState.treeOf at ht
  cases hf : st.p.docs.find? (fun p => p.1 = u) with
  | none => rw [hf] at ht; cases ht
  | some p =>
    rw [hf] at ht
    simp only [Option.map_some, Option.some.injEq] at ht
    have hk : p.1 = u := by simpa using List.find?_some hf
    have hp : p = (u, t) := by
      obtain ⟨a, b⟩ := p
      simp only at hk ht
      rw [hk, ht]
    rw [hp] at hf
    unfold DState.withTree
    rw [setTree_same _ _ _ hs hf]

/-- adding a revision the tree holds already returns the tree (first write wins) -/
theorem add_recorded (t : RevTree) (r : Rev) (p : Option Rev) (s : Bool) (h : t.contains r = true) :
    (t.add r p s).1 = t := by
  rw [C15.add_fst, h]; rfl

/-- the revision a record names is recorded in the tree of its object -/
def Recorded (H : Bytes → Str) (st : DState) (rec : JVal) : Prop :=
  match rec with
  | .arr [.str u, .str dg] => ∃ t, st.treeOf u = some t ∧ t.contains (Rev.mk1 dg) = true
  | .arr [.str u, .str prev, .str dg] =>
    ∃ p t, Rev.parse prev = some p ∧ st.treeOf u = some t ∧ t.contains (Rev.new H (p.index + 1) dg (some p)) = true
  | _ => False

theorem recStep_recorded (H : Bytes → Str) (st : DState) (hs : C15.DocsSorted st.p.docs) (rec : JVal)
    (h : Recorded H st rec) : recStep H (.ok st) rec = .ok st := by
  unfold Recorded at h
  split at h
  · next u dg =>
    obtain ⟨t, ht, hc⟩ := h
    simp only [recStep, ht, Option.getD_some, add_recorded t _ none true hc, withTree_same st u t hs ht]
  · next u prev dg =>
    obtain ⟨p, t, hp, ht, hc⟩ := h
    simp only [recStep, hp, ht, Option.getD_some, add_recorded t _ (some p) true hc, withTree_same st u t hs ht]
  · exact h.elim

theorem recFold_recorded (H : Bytes → Str) (st : DState) (hs : C15.DocsSorted st.p.docs) :
    ∀ (recs : List JVal), (∀ rec ∈ recs, Recorded H st rec) → recs.foldl (recStep H) (.ok st) = .ok st
  | [], _ => rfl
  | rc :: rest, h => by
    rw [List.foldl_cons, recStep_recorded H st hs rc (h rc List.mem_cons_self)]
    exact recFold_recorded H st hs rest (fun r hr => h r (List.mem_cons_of_mem _ hr))

theorem bodyFold_committed (objects : List Str) (stage : List (Str × JObj)) :
    ∀ (bodies : List (Str × JVal)), (∀ b ∈ bodies, b.1 ∈ objects) → bodies.foldl (bodyStep objects) stage = stage
  | [], _ => rfl
  | b :: rest, h => by
    have hb : objects.contains b.1 = true := by simpa using h b List.mem_cons_self
    rw [List.foldl_cons]
    simp only [bodyStep, hb, if_true]
    exact bodyFold_committed objects stage rest (fun x hx => h x (List.mem_cons_of_mem _ hx))

/-- **`replay_stage` of a stage whose records are all recorded and whose bodies are all committed is the
    identity** - for every order of the records -/
theorem replay_recorded_noop (H : Bytes → Str) (st : DState) (hs : C15.DocsSorted st.p.docs) (so : JObj)
    (hb : ∀ bodies, objGet ['o'] so = some (.obj bodies) → ∀ b ∈ bodies, b.1 ∈ st.p.objects)
    (hbo : ∀ v, objGet ['o'] so = some v → ∃ bodies, v = .obj bodies)
    (hc : ∀ recs, objGet ['c'] so = some (.arr recs) → ∀ rec ∈ recs, Recorded H st rec) :
    replayStage H st (.obj so) = .ok st := by
  rw [replayStage_obj]
  cases ho : objGet ['o'] so with
  | none =>
    simp only
    cases hcc : objGet ['c'] so with
    | none => rfl
    | some v =>
      cases v with
      | arr recs => exact recFold_recorded H st hs recs (hc recs hcc)
      | null => rfl
      | bool _ => rfl
      | num _ => rfl
      | str _ => rfl
      | obj _ => rfl
  | some v =>
    obtain ⟨bodies, rfl⟩ := hbo v ho
    simp only [bodyFold_committed st.p.objects st.stage bodies (hb bodies ho)]
    cases hcc : objGet ['c'] so with
    | none => rfl
    | some v =>
      cases v with
      | arr recs => exact recFold_recorded H st hs recs (hc recs hcc)
      | null => rfl
      | bool _ => rfl
      | num _ => rfl
      | str _ => rfl
      | obj _ => rfl

/-- permuting the records does not matter: the hypothesis is about the set of records -/
theorem replay_recorded_noop_perm (H : Bytes → Str) (st : DState) (hs : C15.DocsSorted st.p.docs)
    (bodies : JObj) (recs recs' : List JVal) (hp : recs'.Perm recs)
    (hb : ∀ b ∈ bodies, b.1 ∈ st.p.objects) (hc : ∀ rec ∈ recs, Recorded H st rec) :
    replayStage H st (.obj [(['c'], .arr recs'), (['o'], .obj bodies)]) = .ok st := by
  refine replay_recorded_noop H st hs _ ?_ ?_ ?_
  · intro bs hbs b hbm
    simp [objGet] at hbs; subst hbs; exact hb b hbm
  · intro v hv; simp [objGet] at hv; exact ⟨bodies, hv.symm⟩
  · intro rs hrs rec hrec
    simp [objGet] at hrs; subst hrs
    exact hc rec (hp.subset hrec)

/-! ### The order of the records of an export does not matter (they are listed in hash-map order) -/

/-- **replaying the staged changes in any order records the same revisions**: for every permutation `cs'` of the
    exported change records `cs` (the staged revisions of `docs`, replayed onto the unstaged map `D`), every tree
    ends with the same entries - hence (`C05.leafs_perm`, `C05.winner_perm`) the same leaves and winner.  The seeded
    change C18-d (an update record skipped when its object is not known YET) breaks exactly this; the harness replays
    every export a second time with its records reversed. -/
theorem stageAll_perm {docs : List (Str × RevTree)} (hk : ∀ u, C05.KeysNodup (C15.entriesOf docs u))
    {cs cs' : List Change} (hp : cs'.Perm cs)
    (hcs : ∀ c ∈ cs, (⟨c.rev, c.parent, true⟩ : RtEntry) ∈ C15.entriesOf docs c.uuid)
    (D : List (Str × RevTree)) (hD : C15.DocsSorted D) (hsub : ∀ u, ∀ e ∈ C15.entriesOf D u, e ∈ C15.entriesOf docs u)
    (u : Str) (e : RtEntry) :
    e ∈ C15.entriesOf (C15.stageAll D cs') u ↔ e ∈ C15.entriesOf (C15.stageAll D cs) u := by
  rw [C15.stageAll_replay hk cs' (fun c hc => hcs c (hp.subset hc)) D hD hsub,
    C15.stageAll_replay hk cs hcs D hD hsub, hp.mem_iff]

/-! ### Non-vacuity: a committed object, its export replayed -/

section Example
def exT : RevTree := ((RevTree.empty.add (Rev.mk1 "aa".toList) none false).1.add
  (Rev.new (fun _ => "0123456789".toList) 2 "bb".toList (some (Rev.mk1 "aa".toList))) (some (Rev.mk1 "aa".toList)) false).1
def exSt : DState := { p := { docs := [("u".toList, exT)], objects := ["aa".toList, "bb".toList] } }
def exStage : JObj :=
  [ (['c'], .arr [.arr [.str "u".toList, .str "1-aa".toList, .str "bb".toList], .arr [.str "u".toList, .str "aa".toList]]),
    (['o'], .obj [("aa".toList, .obj [(['v'], .num ['1'])]), ("bb".toList, .obj [(['v'], .num ['2'])])]) ]

/-- the update record comes BEFORE the creation record here -/
example : replayStage (fun _ => "0123456789".toList) exSt (.obj exStage) = .ok exSt := by
  refine replay_recorded_noop _ exSt (by decide) exStage ?_ ?_ ?_
  · intro bodies h b hb
    simp [exStage, objGet] at h; subst h
    simp only [List.mem_cons, List.not_mem_nil, or_false] at hb
    rcases hb with rfl | rfl <;> decide
  · intro v h; simp [exStage, objGet] at h; exact ⟨_, h.symm⟩
  · intro recs h rec hr
    simp [exStage, objGet] at h; subst h
    simp only [List.mem_cons, List.not_mem_nil, or_false] at hr
    rcases hr with rfl | rfl
    · exact ⟨Rev.mk1 "aa".toList, exT, by decide, by decide, by decide⟩
    · exact ⟨exT, by decide, by decide⟩
end Example

end Melda.Props.C15c
