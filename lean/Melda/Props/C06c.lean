/-
  C06c — composition of the C06 results up to what `readAt` / `read` return for an array document in conflict.

  1. Fold level (`C06.mergedOrder`, any number of versions)
     (a) `mergedOrder_keeps_base_order`.
     (b) The statement first asked for,
           "all versions pairwise `Consistent` and duplicate-free → every leaf is a sub-list of the result",
         is FALSE for three versions: `pairwise_consistent_not_sufficient` (base `[1,2]`, leaves `[1,3]`, `[2,3]`,
         all sub-lists of `[1,2,3]`; result `[1,3,2]`) and `pairwise_consistent_not_sufficient'`.
         What is true:
         * `mergedOrder_keeps_leaf_order_iff` (exact): the leaf at a position of the fold keeps its order in the
           final result IFF it is `Consistent` with the merge accumulated before it (`_acc`: the "if" part with
           fewer hypotheses; `_first_leaf`, `_last_leaf`, `_two`: special positions / two versions);
         * `mergedOrder_keeps_leaf_order` (hypotheses on the inputs only): every leaf consistent with the base and
           elements common to two leaves belong to the base → EVERY leaf keeps its order;
         * `consistent_iff_common_superseq`, `merge_keeps_m_order_iff`: `Consistent` = "has a common
           duplicate-free super-sequence" = "`mergeArrays` keeps the merged-in order".
     (c) `mergedOrder_perm_leaves` (membership), `mergedOrder_perm_leaves_perm` (results are permutations);
         the order itself does depend on the fold order: `mergedOrder_order_depends_on_fold`.
  2. Document level: `ConflictSpec`, `visible_conflict_spec` (pure), `readAt_conflict_spec` (hypotheses of
     `C12b.readAt_spec` + conflict), `read_array_conflict_spec` (the call made by `read`, under `C12b.ReadInv`).
  3. Through `unflatten`: `unflattenOrder_filter_absent` (general), `unflatten_visible_skips_deleted`,
     `unflatten_visible_drops_deleted`, `unflatten_visible_consumes`, `unflatten_second_array_skips_shared`,
     `unflatten_visible_dup`, `unflattenOrder_head_present`, `unflatten_array_doc` (bridge: the pool entry built by
     `C12.readStep` makes `unflatten` run `unflattenOrder` on the array `readAt` returned).
  4. Examples.
-/
import Melda.Props.C06
import Melda.Props.C06b
import Melda.Props.C12b
namespace Melda.Props.C06c
open Melda Melda.Props.C06 Melda.Props.C06b

/-! ## 1. fold level -/
section Fold
variable {α : Type} [DecidableEq α]

theorem consistent_symm {m n : List α} (h : Consistent m n) : Consistent n m := Eq.symm h

/-- in a duplicate-free list, selecting the members of a sub-list gives back that sub-list -/
theorem filter_mem_of_sublist {a r : List α} (hs : a.Sublist r) (hr : r.Nodup) : r.filter (· ∈ a) = a := by
  induction hs with
  | slnil => rfl
  | @cons a r x hs ih =>
    have hx : x ∉ r := (List.nodup_cons.mp hr).1
    have : x ∉ a := fun h => hx (hs.subset h)
    simp [this, ih (List.nodup_cons.mp hr).2]
  | @cons_cons a r x hs ih =>
    have hx : x ∉ r := (List.nodup_cons.mp hr).1
    simp only [List.filter_cons, List.mem_cons, true_or, decide_true, if_true, List.cons.injEq, true_and]
    have e : r.filter (fun y => decide (y = x ∨ y ∈ a)) = r.filter (· ∈ a) := by
      apply List.filter_congr
      intro y hy
      have : y ≠ x := fun e => hx (e ▸ hy)
      simp [this]
    rw [e]; exact ih (List.nodup_cons.mp hr).2

/-- two sub-lists of one duplicate-free list never disagree about the order of their common elements -/
theorem consistent_of_sublists {a b r : List α} (hr : r.Nodup) (ha : a.Sublist r) (hb : b.Sublist r) :
    Consistent a b := by
  unfold Consistent
  have e1 : a.filter (· ∈ b) = r.filter (fun x => decide (x ∈ a) && decide (x ∈ b)) := by
    conv => lhs; rw [← filter_mem_of_sublist ha hr]
    rw [List.filter_filter]
    apply List.filter_congr; intro x _; simp [Bool.and_comm]
  have e2 : b.filter (· ∈ a) = r.filter (fun x => decide (x ∈ a) && decide (x ∈ b)) := by
    conv => lhs; rw [← filter_mem_of_sublist hb hr]
    rw [List.filter_filter]
  rw [e1, e2]

/-- **characterisation of `Consistent`**: two duplicate-free versions agree on their common elements iff they
    have a common duplicate-free super-sequence (and `mergeArrays` computes one) -/
theorem consistent_iff_common_superseq {m n : List α} (hm : m.Nodup) (hn : n.Nodup) :
    Consistent m n ↔ ∃ r : List α, r.Nodup ∧ m.Sublist r ∧ n.Sublist r :=
  ⟨fun h => ⟨mergeArrays m n, nodup_merge m n hm hn, merge_keeps_m_order m n hm hn h, sublist_merge m n⟩,
   fun ⟨_, hr, h1, h2⟩ => consistent_of_sublists hr h1 h2⟩

/-- for duplicate-free versions, the merged-in version keeps its order EXACTLY when it is consistent with the
    target -/
theorem merge_keeps_m_order_iff (m n : List α) (hm : m.Nodup) (hn : n.Nodup) :
    m.Sublist (mergeArrays m n) ↔ Consistent m n :=
  ⟨fun h => consistent_of_sublists (nodup_merge m n hm hn) h (sublist_merge m n),
   merge_keeps_m_order m n hm hn⟩

theorem mergedOrder_append (base : List α) (l1 l2 : List (List α)) :
    mergedOrder base (l1 ++ l2) = mergedOrder (mergedOrder base l1) l2 := by
  simp [mergedOrder, List.foldl_append]

theorem mergedOrder_cons (base l : List α) (ls : List (List α)) :
    mergedOrder base (l :: ls) = mergedOrder (mergeArrays l base) ls := rfl

/-- 1(a) **the base (winner's) version keeps its relative order**, any number of versions -/
theorem mergedOrder_keeps_base_order (base : List α) (leaves : List (List α)) :
    base.Sublist (mergedOrder base leaves) := sublist_mergedOrder base leaves

/-- 1(b), exact n-version statement: the leaf at any position of the fold keeps its relative order in the final
    result IF AND ONLY IF it is consistent with the merge accumulated before it. -/
theorem mergedOrder_keeps_leaf_order_iff (base : List α) (pre post : List (List α)) (l : List α)
    (hb : base.Nodup) (hpre : ∀ x ∈ pre, x.Nodup) (hl : l.Nodup) (hpost : ∀ x ∈ post, x.Nodup) :
    l.Sublist (mergedOrder base (pre ++ l :: post)) ↔ Consistent l (mergedOrder base pre) := by
  have hacc : (mergedOrder base pre).Nodup := nodup_mergedOrder base pre hb hpre
  rw [mergedOrder_append, mergedOrder_cons]
  constructor
  · intro h
    refine consistent_of_sublists
      (nodup_mergedOrder _ post (nodup_merge _ _ hl hacc) hpost) h ?_
    exact (sublist_merge l _).trans (sublist_mergedOrder _ post)
  · intro h
    exact (merge_keeps_m_order l _ hl hacc h).trans (sublist_mergedOrder _ post)

/-- 1(b), sufficient direction in the form asked for ("every leaf is consistent with the accumulated merge
    before it") -/
theorem mergedOrder_keeps_leaf_order_acc (base : List α) (pre post : List (List α)) (l : List α)
    (hb : base.Nodup) (hpre : ∀ x ∈ pre, x.Nodup) (hl : l.Nodup)
    (hc : Consistent l (mergedOrder base pre)) :
    l.Sublist (mergedOrder base (pre ++ l :: post)) := by
  have hacc : (mergedOrder base pre).Nodup := nodup_mergedOrder base pre hb hpre
  rw [mergedOrder_append, mergedOrder_cons]
  exact (merge_keeps_m_order l _ hl hacc hc).trans (sublist_mergedOrder _ post)

/-- 1(b) for two versions (base and one leaf) -/
theorem mergedOrder_keeps_leaf_order_two (base l : List α) (hb : base.Nodup) (hl : l.Nodup)
    (hc : Consistent l base) :
    l.Sublist (mergedOrder base [l]) ∧ base.Sublist (mergedOrder base [l]) :=
  merge_keeps_both_orders l base hl hb hc

/-- 1(b), the FIRST leaf merged needs only consistency with the base -/
theorem mergedOrder_keeps_first_leaf_order (base l : List α) (ls : List (List α)) (hb : base.Nodup) (hl : l.Nodup)
    (hc : Consistent l base) : l.Sublist (mergedOrder base (l :: ls)) :=
  mergedOrder_keeps_leaf_order_acc base [] ls l hb (by simp) hl hc

/-- 1(b), the LAST leaf merged keeps its order iff it agrees with everything merged before -/
theorem mergedOrder_keeps_last_leaf_order (base l : List α) (pre : List (List α)) (hb : base.Nodup)
    (hpre : ∀ x ∈ pre, x.Nodup) (hl : l.Nodup) :
    l.Sublist (mergedOrder base (pre ++ [l])) ↔ Consistent l (mergedOrder base pre) :=
  mergedOrder_keeps_leaf_order_iff base pre [] l hb hpre hl (by simp)

/-- if every element a version shares with the accumulated merge is in the base, consistency with the
    accumulated merge is consistency with the base -/
theorem consistent_acc_of_private {l base acc : List α} (hacc : acc.Nodup) (hsub : base.Sublist acc)
    (hpriv : ∀ x, x ∈ l → x ∈ acc → x ∈ base) (hc : Consistent l base) : Consistent l acc := by
  unfold Consistent at hc ⊢
  have e1 : l.filter (· ∈ acc) = l.filter (· ∈ base) := by
    apply List.filter_congr; intro x hx
    by_cases h : x ∈ acc
    · simp [h, hpriv x hx h]
    · have : x ∉ base := fun hb => h (hsub.subset hb)
      simp [h, this]
  have e2 : acc.filter (· ∈ l) = base.filter (· ∈ l) := by
    conv => rhs; rw [← filter_mem_of_sublist hsub hacc]
    rw [List.filter_filter]
    apply List.filter_congr; intro x hx
    by_cases h : x ∈ l
    · simp [h, hpriv x h hx]
    · simp [h]
  rw [e1, e2, hc]

/-- 1(b), n versions, hypotheses on the INPUTS only: every version is duplicate-free, every leaf is consistent
    with the base, and an element that two different leaves (positions of the fold) have in common belongs to the
    base (the replicas inserted their own fresh elements; removals are unrestricted).  Then EVERY leaf keeps
    its relative order. A leaf equal to the base (the winner is one of the leaves) is allowed. -/
theorem mergedOrder_keeps_leaf_order (base : List α) (leaves : List (List α)) (hb : base.Nodup)
    (hl : ∀ l ∈ leaves, l.Nodup) (hc : ∀ l ∈ leaves, Consistent l base)
    (hpriv : leaves.Pairwise (fun l l' => ∀ x, x ∈ l → x ∈ l' → x ∈ base)) :
    ∀ l ∈ leaves, l.Sublist (mergedOrder base leaves) := by
  intro l hmem
  obtain ⟨pre, post, e⟩ := List.append_of_mem hmem
  subst e
  have hpre : ∀ x ∈ pre, x.Nodup := fun x hx => hl x (by simp [hx])
  apply mergedOrder_keeps_leaf_order_acc base pre post l hb hpre (hl l hmem)
  apply consistent_acc_of_private (nodup_mergedOrder base pre hb hpre) (sublist_mergedOrder base pre) _ (hc l hmem)
  intro x hx hacc
  rcases (mem_mergedOrder base pre x).mp hacc with h | ⟨l', hl', hxl'⟩
  · exact h
  · have := (List.pairwise_append.mp hpriv).2.2 l' hl' l (by simp)
    exact this x hxl' hx

/-- 1(c) **membership does not depend on the order in which the leaves are folded** -/
theorem mergedOrder_perm_leaves (base : List α) {leaves leaves' : List (List α)} (hp : leaves.Perm leaves') (x : α) :
    x ∈ mergedOrder base leaves ↔ x ∈ mergedOrder base leaves' := by
  rw [mem_mergedOrder, mem_mergedOrder]
  constructor
  · rintro (h | ⟨l, hl, hx⟩); exact Or.inl h; exact Or.inr ⟨l, hp.mem_iff.mp hl, hx⟩
  · rintro (h | ⟨l, hl, hx⟩); exact Or.inl h; exact Or.inr ⟨l, hp.mem_iff.mpr hl, hx⟩

/-- 1(c) for duplicate-free versions: the two results are permutations of each other -/
theorem mergedOrder_perm_leaves_perm (base : List α) {leaves leaves' : List (List α)} (hp : leaves.Perm leaves')
    (hb : base.Nodup) (hl : ∀ l ∈ leaves, l.Nodup) :
    (mergedOrder base leaves).Perm (mergedOrder base leaves') :=
  (List.perm_ext_iff_of_nodup (nodup_mergedOrder base leaves hb hl)
    (nodup_mergedOrder base leaves' hb (fun l h => hl l (hp.mem_iff.mpr h)))).mpr
    (fun x => mergedOrder_perm_leaves base hp x)

/-- absorption without the non-emptiness side condition -/
theorem merge_absorb' (m n : List α) (h : ∀ x ∈ m, x ∈ n) : mergeArrays m n = n := by
  by_cases hn : n = []
  · subst hn
    have : m = [] := List.eq_nil_iff_forall_not_mem.mpr (fun x hx => by simpa using h x hx)
    subst this; rfl
  · exact merge_absorb m n hn h

theorem merge_self (m : List α) : mergeArrays m m = m := merge_absorb' m m (fun _ h => h)

end Fold

/-! ### 1(b) is FALSE for three versions under pairwise consistency alone -/

instance {α : Type} [DecidableEq α] (m n : List α) : Decidable (Consistent m n) := by unfold Consistent; infer_instance

/-- **Counterexample (1(b) as first stated is false for n ≥ 3).**  Three duplicate-free versions, pairwise
    `Consistent`, all three even sub-lists of the single list `[1, 2, 3]`; the order of the last leaf is NOT kept:
    the first merge puts the fresh `3` right after the common `1`, i.e. before `2`. -/
theorem pairwise_consistent_not_sufficient :
    ∃ (base l₁ l₂ : List Nat), base.Nodup ∧ l₁.Nodup ∧ l₂.Nodup ∧
      Consistent l₁ base ∧ Consistent l₂ base ∧ Consistent l₁ l₂ ∧
      base.Sublist [1, 2, 3] ∧ l₁.Sublist [1, 2, 3] ∧ l₂.Sublist [1, 2, 3] ∧
      mergedOrder base [l₁, l₂] = [1, 3, 2] ∧ ¬ l₂.Sublist (mergedOrder base [l₁, l₂]) :=
  ⟨[1, 2], [1, 3], [2, 3], by decide⟩

/-- the same with versions that have nothing in common with the base: `[3]`, `[2]`, `[3, 2]` -/
theorem pairwise_consistent_not_sufficient' :
    ∃ (base l₁ l₂ : List Nat), base.Nodup ∧ l₁.Nodup ∧ l₂.Nodup ∧
      Consistent l₁ base ∧ Consistent l₂ base ∧ Consistent l₁ l₂ ∧
      ¬ l₂.Sublist (mergedOrder base [l₁, l₂]) :=
  ⟨[3], [2], [3, 2], by decide⟩

/-- the ORDER of the result does depend on the order of the fold (only membership does not, 1(c)) -/
theorem mergedOrder_order_depends_on_fold :
    mergedOrder [1, 2] [[1, 3], [1, 4]] ≠ mergedOrder [1, 2] [[1, 4], [1, 3]] := by decide

/-! ## 2. document level: what `readAt` returns for an array document in conflict -/
section Doc
open Melda.RevTree Melda.DState
open C12b (visible InTree CacheOK Cache)
open C16b (TrueOrder)
open C05 (WellIndexed)
open C12 (Closed)

/-- what C06 promises about the array `arr` shown for an array document whose tree `t` is in conflict, read at
    `base`; `ord r` is the array version denoted by the revision `r` -/
structure ConflictSpec (ord : Rev → List JVal) (t : RevTree) (base : Rev) (arr : List JVal) : Prop where
  /-- (i) exactly the elements of the version read and of every leaf's version -/
  mem_iff : ∀ x, x ∈ arr ↔ x ∈ ord base ∨ ∃ l ∈ t.leafs, x ∈ ord l
  /-- (ii) no duplicates -/
  nodup : (ord base).Nodup → (∀ l ∈ t.leafs, (ord l).Nodup) → arr.Nodup
  /-- (iii) the version read (the winner's, in `read`) keeps its relative order -/
  base_order : (ord base).Sublist arr
  /-- (iv) two concurrent versions that do not disagree both keep their order -/
  two_versions : ∀ a b, t.leafs = [a, b] → (base = a ∨ base = b) → (ord a).Nodup → (ord b).Nodup →
    Consistent (ord a) (ord b) → (ord a).Sublist arr ∧ (ord b).Sublist arr
  /-- (iv, n versions, exact) a leaf keeps its order iff it agrees with the merge accumulated before it -/
  leaf_order_iff : ∀ pre l post, t.leafs = pre ++ l :: post → (ord base).Nodup → (∀ l ∈ t.leafs, (ord l).Nodup) →
    ((ord l).Sublist arr ↔ Consistent (ord l) (mergedOrder (ord base) (pre.map ord)))
  /-- (iv, n versions, on the inputs) if every leaf agrees with the version read and elements common to two
      leaves belong to the version read, every leaf keeps its order -/
  all_leaves_order : (ord base).Nodup → (∀ l ∈ t.leafs, (ord l).Nodup) →
    (∀ l ∈ t.leafs, Consistent (ord l) (ord base)) →
    t.leafs.Pairwise (fun l l' => ∀ x, x ∈ ord l → x ∈ ord l' → x ∈ ord base) →
    ∀ l ∈ t.leafs, (ord l).Sublist arr

theorem visible_eq_of_conflict (ord : Rev → List JVal) {t : RevTree} (base : Rev) (h : t.leafs.length > 1) :
    visible ord t base = mergedOrder (ord base) (t.leafs.map ord) := by
  unfold visible; rw [C12b.mergeLeafs_of_conflict h]

theorem visible_two (ord : Rev → List JVal) {t : RevTree} {a b base : Rev} (hl : t.leafs = [a, b])
    (hb : base = a ∨ base = b) :
    visible ord t base = if base = a then mergeArrays (ord b) (ord a) else mergeArrays (ord a) (ord b) := by
  rw [visible_eq_of_conflict ord base (by rw [hl]; simp), hl]
  simp only [List.map_cons, List.map_nil, mergedOrder, List.foldl_cons, List.foldl_nil]
  split
  · next e => subst e; rw [merge_self]
  · next e =>
    have e' : base = b := hb.resolve_left e
    subst e'
    exact merge_absorb' _ _ (fun x hx => (mem_merge _ _ x).mpr (Or.inr hx))

/-- the C06 facts about the visible array of a tree in conflict (pure: no store involved) -/
theorem visible_conflict_spec (ord : Rev → List JVal) (t : RevTree) (base : Rev) (h : t.leafs.length > 1) :
    ConflictSpec ord t base (visible ord t base) := by
  have hv := visible_eq_of_conflict ord base h
  have hnd : (ord base).Nodup → (∀ l ∈ t.leafs, (ord l).Nodup) → ∀ x ∈ t.leafs.map ord, x.Nodup := by
    intro _ hl x hx
    obtain ⟨l, hl', rfl⟩ := List.mem_map.mp hx
    exact hl l hl'
  refine ⟨?_, ?_, ?_, ?_, ?_, ?_⟩
  · intro x
    rw [hv, mem_mergedOrder]
    constructor
    · rintro (hx | ⟨l, hl, hx⟩)
      · exact Or.inl hx
      · obtain ⟨a, ha, rfl⟩ := List.mem_map.mp hl
        exact Or.inr ⟨a, ha, hx⟩
    · rintro (hx | ⟨l, hl, hx⟩)
      · exact Or.inl hx
      · exact Or.inr ⟨ord l, List.mem_map.mpr ⟨l, hl, rfl⟩, hx⟩
  · intro hb hl
    rw [hv]
    exact nodup_mergedOrder _ _ hb (hnd hb hl)
  · rw [hv]; exact sublist_mergedOrder _ _
  · intro a b hl hb ha hbn hc
    rw [visible_two ord hl hb]
    split
    · exact ⟨sublist_merge _ _, merge_keeps_m_order _ _ hbn ha (consistent_symm hc)⟩
    · exact ⟨merge_keeps_m_order _ _ ha hbn hc, sublist_merge _ _⟩
  · intro pre l post hl hb hall
    rw [hv, hl]
    simp only [List.map_append, List.map_cons]
    have hall' := hnd hb hall
    rw [hl] at hall'
    simp only [List.map_append, List.map_cons] at hall'
    exact mergedOrder_keeps_leaf_order_iff (ord base) (pre.map ord) (post.map ord) (ord l) hb
      (fun x hx => hall' x (by simp [hx])) (hall' _ (by simp)) (fun x hx => hall' x (by simp [hx]))
  · intro hb hall hc hpriv l hl
    rw [hv]
    apply mergedOrder_keeps_leaf_order (ord base) (t.leafs.map ord) hb (hnd hb hall)
    · intro x hx
      obtain ⟨l', hl', rfl⟩ := List.mem_map.mp hx
      exact hc l' hl'
    · exact List.pairwise_map.mpr hpriv
    · exact List.mem_map.mpr ⟨l, hl, rfl⟩

variable {N : Rev → Prop} {src : Src} {st : DState} {t : RevTree}

/-- **`readAt` on an array document in conflict**: under the hypotheses of `C12b.readAt_spec`, it answers with the
    array `visible ord t base`, which (i) has exactly the elements of the version read and of all leaf versions,
    (ii) is duplicate-free when the versions are, (iii) keeps the order of the version read, (iv) keeps the order
    of both versions of a two-leaf conflict when they do not disagree (and the n-leaf variants of `ConflictSpec`). -/
theorem readAt_conflict_spec (hw : WellIndexed t.entries) (hcl : Closed t.entries) (ord : Rev → List JVal)
    {u : Str} (hu : isArrayDescriptor u = true) {base : Rev} (hc : CacheOK N src st t st.acache)
    (hb : InTree t base) (hto : TrueOrder src st t base (ord base))
    (hl : ∀ l ∈ C16b.mergeLeafs t, InTree t l ∧ TrueOrder src st t l (ord l))
    (hconf : t.leafs.length > 1) :
    ∃ arr c', readAt src st u t base = .ok ([(ORDER_FIELD, .arr arr)], c') ∧ arr = visible ord t base ∧
      ConflictSpec ord t base arr ∧ CacheOK N src st t c' := by
  obtain ⟨c', h, hc', _⟩ := C12b.readAt_spec hw hcl ord hu hc hb hto hl
  exact ⟨_, c', h, rfl, visible_conflict_spec ord t base hconf, hc'⟩

/-- the same for the call `read` makes (`C12.readStep`): array document `p` of a state satisfying the read
    invariant, read at its winner `w` -/
theorem read_array_conflict_spec {N : Str → Rev → Prop} {src : Src} {st : DState} {ord : Str → Rev → List JVal}
    (inv : C12b.ReadInv N src st ord) {p : Str × RevTree} (hp : p ∈ st.p.docs) (ha : isArrayDescriptor p.1 = true)
    {w : Rev} (hw : p.2.winner = some w) (c : Cache) (hc : C12b.AllOK N src st c) (hconf : p.2.leafs.length > 1) :
    ∃ arr c1, readAt src { st with acache := c } p.1 p.2 w = .ok ([(ORDER_FIELD, .arr arr)], c1) ∧
      arr = visible (ord p.1) p.2 w ∧ ConflictSpec (ord p.1) p.2 w arr ∧ w ∈ p.2.leafs ∧ C12b.AllOK N src st c1 := by
  obtain ⟨c1, h1, h2⟩ := C12b.readAt_inv inv hp ha hw c hc
  exact ⟨_, c1, h1, rfl, visible_conflict_spec _ _ _ hconf, (inv.good p hp ha).winner_mem hw, h2⟩

end Doc

/-! ## 3. through `unflatten`: what the user finally sees -/
section Unflatten
open C12b (visible)

/-- general form of `C06b.unflattenOrder_skip_absent`: ALL order entries that `keep` rejects may be dropped at
    once, provided each of them is a reference whose object is absent from the pool -/
theorem unflattenOrder_filter_absent (fuel : Nat) : ∀ (c : JObj) (order : List JVal) (keep : JVal → Bool)
    (c' : JObj) (items : List JVal),
    (∀ v ∈ order, keep v = false → ∃ u, v = .str u ∧ objGet u c = none) →
    unflattenOrder fuel c order = .ok c' items →
    unflattenOrder fuel c (order.filter keep) = .ok c' items := by
  induction fuel with
  | zero => simp [unflattenOrder]
  | succ f ih =>
    intro c order keep c' items hkeep h
    cases order with
    | nil => simpa using h
    | cons x tl =>
      have hk' : ∀ c1 : JObj, c1.Sublist c → ∀ v ∈ tl, keep v = false → ∃ u, v = .str u ∧ objGet u c1 = none := by
        intro c1 hs v hv hk
        obtain ⟨u, e, hn⟩ := hkeep v (List.mem_cons_of_mem _ hv) hk
        exact ⟨u, e, objGet_none_of_sublist hs hn⟩
      simp only [unflattenOrder] at h
      repeat' split at h
      all_goals try (cases h; done)
      · next uuid _ o ho _ c1 item h1 _ c2 items' h2 =>
        cases h
        have hkx : keep (.str uuid) = true := by
          cases hk : keep (.str uuid) with
          | true => rfl
          | false =>
            obtain ⟨u, e, hn⟩ := hkeep _ (by simp) hk
            cases e; rw [hn] at ho; cases ho
        have e := ih c1 tl keep _ _
          (hk' c1 (((unfl_sublist f).1 _ _ _ _ h1).trans (objRemove_sublist _ _))) h2
        simp [hkx, unflattenOrder, ho, h1, e]
      · next uuid _ hnone =>
        have e := ih c tl keep _ _ (hk' c (List.Sublist.refl _)) h
        cases hk : keep (.str uuid) with
        | true => simp [hk, unflattenOrder, hnone, e]
        | false =>
          simp only [List.filter_cons, hk, Bool.false_eq_true, if_false]
          exact (unfl_fuel_mono f).2.1 _ _ _ _ e
      · next hne =>
        have hkx : keep x = true := by
          cases hk : keep x with
          | true => rfl
          | false =>
            obtain ⟨u, e, _⟩ := hkeep _ (by simp) hk
            exact absurd e (hne u)
        have e := ih c tl keep _ _ (hk' c (List.Sublist.refl _)) h
        simp only [List.filter_cons, hkx, if_true]
        rw [unflattenOrder]
        · exact e
        · intro uuid e'; exact hne uuid e'

/-- the merged order without the references to the identifiers `gone` -/
def dropRefs (gone : Str → Bool) (order : List JVal) : List JVal :=
  order.filter (fun v => match v with | .str u => !gone u | _ => true)

theorem mem_dropRefs {gone : Str → Bool} {order : List JVal} {u : Str} :
    JVal.str u ∈ dropRefs gone order ↔ JVal.str u ∈ order ∧ gone u = false := by
  simp [dropRefs, List.mem_filter]

/-- **3(a) elements whose object was deleted never reappear** (one element; composes literally with
    `readAt_conflict_spec`: the order is `visible ord t base`).  `read` does not put the object of a deleted
    winner into the pool (`C12.readStep`), so `objGet u pool = none`; the unflattened array is then the one the
    merged order WITHOUT that element gives. -/
theorem unflatten_visible_skips_deleted (ord : Rev → List JVal) (t : RevTree) (base : Rev) (fuel : Nat) (c : JObj)
    (pre post : List JVal) (u : Str) (c' : JObj) (items : List JVal)
    (hv : visible ord t base = pre ++ .str u :: post) (hdel : objGet u c = none)
    (h : unflattenOrder fuel c (visible ord t base) = .ok c' items) :
    unflattenOrder fuel c (pre ++ post) = .ok c' items := by
  rw [hv] at h
  exact unflattenOrder_skip_absent fuel c pre post u c' items hdel h

/-- **3(a), all deleted elements at once**: whatever set `gone` of identifiers absent from the pool, the
    unflattened array is the one obtained from the merged order with all of them dropped. -/
theorem unflatten_visible_drops_deleted (ord : Rev → List JVal) (t : RevTree) (base : Rev) (fuel : Nat) (c : JObj)
    (gone : Str → Bool) (c' : JObj) (items : List JVal) (hdel : ∀ u, gone u = true → objGet u c = none)
    (h : unflattenOrder fuel c (visible ord t base) = .ok c' items) :
    unflattenOrder fuel c (dropRefs gone (visible ord t base)) = .ok c' items := by
  apply unflattenOrder_filter_absent fuel c _ _ c' items _ h
  intro v _ hk
  cases v with
  | str u => exact ⟨u, rfl, hdel u (by simpa using hk)⟩
  | _ => simp at hk

/-- **3(b) consumption**: after the array has been materialised no element of its merged order is left in the
    pool, and every emitted item used up at least one pool entry. -/
theorem unflatten_visible_consumes (ord : Rev → List JVal) (t : RevTree) (base : Rev) (fuel : Nat) (c c' : JObj)
    (items : List JVal) (h : unflattenOrder fuel c (visible ord t base) = .ok c' items) :
    (∀ u, JVal.str u ∈ visible ord t base → objGet u c' = none) ∧ items.length + c'.length ≤ c.length :=
  unflattenOrder_spec fuel c _ c' items h

/-- **3(b) an element referenced by two arrays is materialised by the first only**: once the first array
    (`visible ord₁ t₁ b₁`) has been materialised, a second array (`visible ord₂ t₂ b₂`) materialised from the pool
    left over (or any later, smaller pool `c₂`) yields exactly what its merged order gives after dropping every
    reference that also occurs in the first array. -/
theorem unflatten_second_array_skips_shared (ord₁ ord₂ : Rev → List JVal) (t₁ t₂ : RevTree) (b₁ b₂ : Rev)
    (f₁ f₂ : Nat) (c c₁ c₂ c₃ : JObj) (items₁ items₂ : List JVal)
    (h1 : unflattenOrder f₁ c (visible ord₁ t₁ b₁) = .ok c₁ items₁) (hs : c₂.Sublist c₁)
    (h2 : unflattenOrder f₂ c₂ (visible ord₂ t₂ b₂) = .ok c₃ items₂) :
    unflattenOrder f₂ c₂ (dropRefs (fun u => decide (JVal.str u ∈ visible ord₁ t₁ b₁)) (visible ord₂ t₂ b₂))
      = .ok c₃ items₂ := by
  apply unflattenOrder_filter_absent f₂ c₂ _ _ c₃ items₂ _ h2
  intro v _ hk
  cases v with
  | str u =>
    refine ⟨u, rfl, objGet_none_of_sublist hs ((unflattenOrder_spec f₁ c _ c₁ items₁ h1).1 u ?_)⟩
    simpa using hk
  | _ => simp at hk

/-- **3(b) inside one array**: a reference that occurs twice in the merged order is materialised once
    (it cannot occur twice when the versions are duplicate-free, `ConflictSpec.nodup`; this covers the rest) -/
theorem unflatten_visible_dup (ord : Rev → List JVal) (t : RevTree) (base : Rev) (fuel : Nat) (c : JObj)
    (pre post : List JVal) (u : Str) (c' : JObj) (items : List JVal)
    (hv : visible ord t base = pre ++ .str u :: post) (hmem : JVal.str u ∈ pre)
    (h : unflattenOrder fuel c (visible ord t base) = .ok c' items) :
    unflattenOrder fuel c (pre ++ post) = .ok c' items := by
  rw [hv] at h
  exact unflattenOrder_dup_general fuel c pre post u c' items hmem h

/-- the first live reference of an order IS materialised (so "exactly one", not only "at most one"):
    if the head of the order is in the pool, the first item is its unflattening -/
theorem unflattenOrder_head_present {fuel : Nat} {c c' : JObj} {u : Str} {o : JVal} {tl items : List JVal}
    (ho : objGet u c = some o) (h : unflattenOrder (fuel + 1) c (.str u :: tl) = .ok c' items) :
    ∃ c1 item items', unflatten fuel (objRemove u c) o = .ok c1 item ∧
      unflattenOrder fuel c1 tl = .ok c' items' ∧ items = item :: items' := by
  simp only [unflattenOrder, ho] at h
  split at h
  · next c1 item h1 =>
    split at h
    · next c2 items' h2 => cases h; exact ⟨c1, item, items', h1, h2, rfl⟩
    · cases h
    · cases h
  · cases h
  · cases h

/-- **bridge to `read`**: the pool entry `C12.readStep` creates for an array document `u` whose `readAt` answered
    `[(ORDER_FIELD, .arr order)]` makes `unflatten` of the reference `u` run `unflattenOrder` on that very
    `order` (so, with `readAt_conflict_spec`, on `visible ord t base`). -/
theorem unflatten_array_doc (fuel : Nat) (c : JObj) (u : Str) (order : List JVal)
    (hu : isArrayDescriptor u = true)
    (hc : objGet u c = some (.obj (objInsert ID_FIELD (.str u) [(ORDER_FIELD, .arr order)]))) :
    unflatten (fuel + 1) c (.str u) =
      match unflattenOrder fuel (objRemove u c) order with
      | .ok c2 items => .ok c2 (.arr items)
      | .panic m => .panic m
      | .fuel => .fuel := by
  have hget : objGet ORDER_FIELD (objInsert ID_FIELD (.str u) [(ORDER_FIELD, .arr order)]) = some (.arr order) := by
    rw [objInsert, if_neg (by decide), if_neg (by decide)]
    simp [objGet]
  cases u with
  | nil => simp [isArrayDescriptor] at hu
  | cons ch rest =>
    have hch : ch = '^' := by simpa [isArrayDescriptor] using hu
    subst hch
    rw [unflatten]
    · simp only [hu, if_true, hc, hget]
      rfl
    · intro t ht; cases ht

end Unflatten

/-! ## 4. non-vacuity: concrete conflicts -/
section Examples

/-- three leaves (the first is the winner's own version); `9` was inserted by two replicas at different places:
    it appears exactly once, nothing is lost, the result is duplicate-free, the winner's order is kept; the third
    version disagrees with the accumulated merge about `9` and its order is not kept -/
example :
    mergedOrder [1, 2, 3] [[1, 2, 3], [1, 9, 2, 3], [1, 2, 3, 9, 8]] = [1, 9, 8, 2, 3] ∧
    (mergedOrder [1, 2, 3] [[1, 2, 3], [1, 9, 2, 3], [1, 2, 3, 9, 8]]).count 9 = 1 ∧
    (mergedOrder [1, 2, 3] [[1, 2, 3], [1, 9, 2, 3], [1, 2, 3, 9, 8]]).Nodup ∧
    [1, 2, 3].Sublist (mergedOrder [1, 2, 3] [[1, 2, 3], [1, 9, 2, 3], [1, 2, 3, 9, 8]]) ∧
    [1, 9, 2, 3].Sublist (mergedOrder [1, 2, 3] [[1, 2, 3], [1, 9, 2, 3], [1, 2, 3, 9, 8]]) ∧
    ¬ Consistent [1, 2, 3, 9, 8] (mergedOrder [1, 2, 3] [[1, 2, 3], [1, 9, 2, 3]]) ∧
    ¬ [1, 2, 3, 9, 8].Sublist (mergedOrder [1, 2, 3] [[1, 2, 3], [1, 9, 2, 3], [1, 2, 3, 9, 8]]) := by decide

/-- one replica removed `2`, another appended `4`: the merged array still holds `2`, because the other versions
    hold it — that IS the specified behaviour (removal becomes effective only by deleting the OBJECT, part 3) -/
example : mergedOrder [1, 2, 3] [[1, 2, 3], [1, 3], [1, 2, 3, 4]] = [1, 2, 3, 4] ∧
    2 ∈ mergedOrder [1, 2, 3] [[1, 2, 3], [1, 3], [1, 2, 3, 4]] := by decide

/-- the consistent case, four leaves: the hypotheses of `mergedOrder_keeps_leaf_order` hold (each replica
    inserted its own elements, one also removed `2`) and every version is a sub-list of the result -/
example :
    let base := [1, 2, 3]
    let leaves := [[1, 2, 3], [1, 7, 2, 3], [1, 2, 8, 3], [9, 1, 3]]
    base.Nodup ∧ (∀ l ∈ leaves, l.Nodup) ∧ (∀ l ∈ leaves, Consistent l base) ∧
    leaves.Pairwise (fun l l' => ∀ x, x ∈ l → x ∈ l' → x ∈ base) ∧
    mergedOrder base leaves = [9, 1, 7, 2, 8, 3] ∧ ∀ l ∈ leaves, l.Sublist (mergedOrder base leaves) := by decide

/-- the hypotheses of `mergedOrder_keeps_leaf_order_iff` / `_acc` on a leaf that shares a FRESH element with an
    earlier leaf (so `mergedOrder_keeps_leaf_order` does not apply) and still agrees with the accumulated merge -/
example :
    [1, 2, 3].Nodup ∧ (∀ x ∈ [[1, 7, 2, 3]], x.Nodup) ∧ [1, 7, 8, 2, 3].Nodup ∧ (∀ x ∈ [[9, 1, 3]], x.Nodup) ∧
    Consistent [1, 7, 8, 2, 3] (mergedOrder [1, 2, 3] [[1, 7, 2, 3]]) ∧
    [1, 7, 8, 2, 3].Sublist (mergedOrder [1, 2, 3] ([[1, 7, 2, 3]] ++ [1, 7, 8, 2, 3] :: [[9, 1, 3]])) := by decide

/-- the use of the fold theorems on these data (not only `decide`) -/
example : ∀ l ∈ [[1, 2, 3], [1, 7, 2, 3], [1, 2, 8, 3], [9, 1, 3]],
    l.Sublist (mergedOrder [1, 2, 3] [[1, 2, 3], [1, 7, 2, 3], [1, 2, 8, 3], [9, 1, 3]]) :=
  mergedOrder_keeps_leaf_order [1, 2, 3] _ (by decide) (by decide) (by decide) (by decide)

/-- hypotheses of `consistent_of_sublists`, `consistent_acc_of_private`, `mergedOrder_perm_leaves_perm` -/
example : [1, 2, 3, 4].Nodup ∧ [1, 3].Sublist [1, 2, 3, 4] ∧ [2, 3, 4].Sublist [1, 2, 3, 4] := by decide
example : [1, 7, 2, 3].Nodup ∧ [1, 2, 3].Sublist [1, 7, 2, 3] ∧
    (∀ x, x ∈ [1, 2, 8, 3] → x ∈ [1, 7, 2, 3] → x ∈ [1, 2, 3]) ∧ Consistent [1, 2, 8, 3] [1, 2, 3] := by decide
example : [[1, 3], [1, 4]].Perm [[1, 4], [1, 3]] ∧ [1, 2].Nodup ∧ ∀ l ∈ [[1, 3], [1, 4]], l.Nodup := by decide

/-! document level: the replica of `C12b.Ex` (array document `uA`, tree `tA` with the two leaves `r2a`, `r2b`,
    versions `[x, z, y]` and `[x, y, qq]` of the common ancestor `[x, y]`) satisfies every hypothesis of
    `readAt_conflict_spec`, of `read_array_conflict_spec`, and of the order clauses of `ConflictSpec` -/
open C12b C12b.Ex in
example : ∃ c', DState.readAt C04b.src0 stX uA tA r2b = .ok ([(ORDER_FIELD, .arr VA)], c') ∧
    (ordA r2a).Sublist VA ∧ (ordA r2b).Sublist VA ∧ VA.Nodup := by
  obtain ⟨arr, c', h, e, spec, _⟩ := readAt_conflict_spec (N := NX) (src := C04b.src0) (st := stX)
    tA_good.widx tA_good.closed ordA (u := uA) (by decide) (base := r2b) cacheA
    (leaf_inTree tA_good (by decide)) to2b
    (fun l hl => ⟨leaf_inTree tA_good (mergeLeafs_sub hl), hordA l (mergeLeafs_sub hl)⟩) (by decide)
  rw [visA] at e; subst e
  have h2 := spec.two_versions r2a r2b (by decide) (Or.inr rfl) (by decide) (by decide) (by decide)
  have h3 := spec.all_leaves_order (by decide) (by decide) (by decide) (by decide)
  have h4 := (spec.leaf_order_iff [r2a] r2b [] (by decide) (by decide) (by decide)).mpr (by decide)
  exact ⟨c', h, h2.1, h2.2, spec.nodup (by decide) (by decide)⟩

open C12b C12b.Ex in
example : ∃ arr c1, DState.readAt C04b.src0 { stX with acache := stX.acache } uA tA r2b = .ok ([(ORDER_FIELD, .arr arr)], c1) ∧
    ConflictSpec ordA tA r2b arr := by
  obtain ⟨arr, c1, h, _, spec, _⟩ := read_array_conflict_spec (p := (uA, tA)) invX (by decide) (by decide)
    tA_facts.2.1 stX.acache (fun q hq hqa => invX.cache q hq hqa) (by decide)
  exact ⟨arr, c1, h, spec⟩

/-- through `unflatten`: pool with objects `x`, `z`; the merged order `[x, dead, z, x]` (`dead` deleted, `x`
    referenced twice) materialises `x` once, `z` once and nothing for `dead`; a second array referencing `x`
    again gets nothing -/
example :
    unflattenOrder 6 [(['x'], .obj [(['k'], .num ['1'])]), (['z'], .obj [(['k'], .num ['2'])])]
        [.str ['x'], .str ['d'], .str ['z'], .str ['x']]
      = .ok [] [.obj [(['k'], .num ['1'])], .obj [(['k'], .num ['2'])]] ∧
    unflattenOrder 6 [] [.str ['x']] = .ok [] [] := by
  constructor <;> rfl

/-- `unflatten_array_doc` on a concrete pool -/
example :
    unflatten 6 [(['^', 'd'], .obj (objInsert ID_FIELD (.str ['^', 'd']) [(ORDER_FIELD, .arr [.str ['x'], .str ['x']])])),
                 (['x'], .obj [(['k'], .num ['1'])])] (.str ['^', 'd'])
      = .ok [] (.arr [.obj [(['k'], .num ['1'])]]) := by rfl

end Examples

end Melda.Props.C06c

/-! axiom audit -/
section Audit
open Melda.Props.C06c
#print axioms filter_mem_of_sublist
#print axioms consistent_of_sublists
#print axioms consistent_iff_common_superseq
#print axioms merge_keeps_m_order_iff
#print axioms mergedOrder_keeps_base_order
#print axioms mergedOrder_keeps_leaf_order_iff
#print axioms mergedOrder_keeps_leaf_order_acc
#print axioms mergedOrder_keeps_leaf_order_two
#print axioms mergedOrder_keeps_first_leaf_order
#print axioms mergedOrder_keeps_last_leaf_order
#print axioms consistent_acc_of_private
#print axioms mergedOrder_keeps_leaf_order
#print axioms mergedOrder_perm_leaves
#print axioms mergedOrder_perm_leaves_perm
#print axioms merge_absorb'
#print axioms pairwise_consistent_not_sufficient
#print axioms pairwise_consistent_not_sufficient'
#print axioms mergedOrder_order_depends_on_fold
#print axioms visible_two
#print axioms visible_conflict_spec
#print axioms readAt_conflict_spec
#print axioms read_array_conflict_spec
#print axioms unflattenOrder_filter_absent
#print axioms unflatten_visible_skips_deleted
#print axioms unflatten_visible_drops_deleted
#print axioms unflatten_visible_consumes
#print axioms unflatten_second_array_skips_shared
#print axioms unflatten_visible_dup
#print axioms unflattenOrder_head_present
#print axioms unflatten_array_doc
end Audit
