/-
  C04 (state level) — after a document is submitted with `update`, reading the replica returns that
  document exactly, from any prior state satisfying the state invariant `Inv`.

  Stage A (tree level)
  * `add_child_general`, `add_child_becomes_winner`, `add_child_leafs`, `add_del_becomes_winner`:
    in a tree satisfying `TreeOK` with winner `w`, a fresh unresolved child of `w` (an update or a
    deletion) becomes the winner, replaces `w` among the leaves, and `TreeOK` is kept.
    `child_fresh`: such a child is never already recorded.
  Stage B (object level, non-array identifiers)
  * `readObject_writeObject_mono`, `updateObject_spec` (+ `createObject_spec`, `deleteObject_spec`),
    `update_idem_trees`, `updateObject_twice`.
  Stage C (document level, documents without flattened arrays)
  * `update_read_plain` : `update H src st doc = .ok (st', root) → ∃ c, read src st' = .ok (addIds (.obj doc), c)`
    from ANY state satisfying `Inv`; `update_keeps_inv`: `Inv` is kept, `root = √`, array cache untouched;
    `update_read_core`: the same for an arbitrary collision-free universe `S` of object bodies.
  * FINDING `root_id_counterexample`: a root object with its own `_id` (≠ `√`) is stored under that
    identifier and `read` answers `no_root` — hence the hypothesis `objId doc = ROOT_ID`.
  Stage D (object level only)
  * `updateObject_array_spec`: after `updateObject` on an array descriptor the winner denotes the
    submitted order (`TrueOrder`), assuming soundness of the one `rebuildOrder` call made.
  Hypotheses beyond the task text (all shown satisfiable in the `Examples` section):
  `ParentClosed` and `beyond` in `TreeOK` (without them a child of the winner may already be recorded
  or may not become the winner); collision freedom is restricted to the bodies that occur
  (`CollisionFree H S`: a global `DigestInj` is unsatisfiable together with `HexOut`, and false for
  the model anyway because of `#` fields); tracked objects of the document have no `#` field
  (`NoHash`, via `Faithful`); the root is stored under `√`.
-/
import Melda.Doc
import Melda.Props.C04
import Melda.Props.C05
import Melda.Props.C15
import Melda.Props.C16
import Melda.Props.C19
namespace Melda.Props.C04b
open Melda Melda.RevTree Melda.DState
open Melda.Props.C05 (CmpOrder KeysNodup WellIndexed Reaches LiveLeaf)
open Melda.Props.C19 (Canonical AlnumStr HexOut)

/-! ## Stage A: the child of the winner becomes the winner -/

theorem cmpOrder : CmpOrder Canonical where
  refl := C19.cmp_refl
  eq_iff := C19.cmp_eq_iff
  antisymm := C19.cmp_antisymm
  trans := C19.cmp_trans

/-- every parent mentioned in the tree is recorded in the tree -/
def ParentClosed (es : List RtEntry) : Prop :=
  ∀ e ∈ es, ∀ p, e.parent = some p → ∃ e' ∈ es, e'.rev = p

/-- the per-tree invariant -/
structure TreeOK (t : RevTree) : Prop where
  winner_eq : t.winner = maxRev (liveLeafs t.entries)
  keys : KeysNodup t.entries
  idx : WellIndexed t.entries
  canon : ∀ e ∈ t.entries, Canonical e.rev
  closed : ParentClosed t.entries
  /-- everything recorded beyond the winner's generation is a resolution marker -/
  beyond : ∀ w, t.winner = some w → ∀ e ∈ t.entries, w.index < e.rev.index → e.rev.isResolved = true

theorem winner_validate (t : RevTree) (h : TreeOK t) : (validate t).winner = t.winner := by
  rw [C05.validate_winner, h.winner_eq]

theorem winner_live {t : RevTree} (h : TreeOK t) {w : Rev} (hw : t.winner = some w) :
    LiveLeaf t.entries w ∧ ∀ l, LiveLeaf t.entries l → Rev.cmp l w ≠ .gt := by
  rw [← winner_validate t h] at hw
  exact (C05.winner_spec cmpOrder t h.keys h.idx h.canon w).mp hw

theorem reaches_append {es : List RtEntry} {r : Rev} (x : RtEntry) (h : Reaches es r) :
    Reaches (es ++ [x]) r := by
  induction h with
  | root e hm hp h1 => exact Reaches.root e (List.mem_append_left _ hm) hp h1
  | step e p hm hp _ ih => exact Reaches.step e p (List.mem_append_left _ hm) hp ih

theorem reaches_of_append {es : List RtEntry} {r w x : Rev} {s : Bool}
    (hnp : ∀ e ∈ es, e.parent ≠ some r) (h : Reaches (es ++ [⟨r, some w, s⟩]) x) (hx : x ≠ r) :
    Reaches es x := by
  induction h with
  | root e hm hp h1 =>
    rcases List.mem_append.mp hm with hm | hm
    · exact Reaches.root e hm hp h1
    · simp only [List.mem_singleton] at hm; subst hm; cases hp
  | step e p hm hp _ ih =>
    rcases List.mem_append.mp hm with hm | hm
    · exact Reaches.step e p hm hp (ih (fun e' => hnp e hm (e' ▸ hp)))
    · simp only [List.mem_singleton] at hm; subst hm; exact absurd rfl hx

theorem cmp_not_gt_index {l w : Rev} (hl : ¬ l.isResolved = true) (hw : ¬ w.isResolved = true)
    (h : Rev.cmp l w ≠ .gt) : l.index ≤ w.index := by
  apply Classical.byContradiction
  intro hn
  have hlt : w.index < l.index := by omega
  exact h ((C19.cmp_gt_iff l w).mpr (C19.cmp_index w l hw hl hlt))

/-- the facts about the entries after the addition of a fresh child `r` of the winner `w` -/
theorem add_child_core {t : RevTree} (ht : TreeOK t) {w r : Rev} (hw : t.winner = some w)
    (hidx : r.index = w.index + 1) (hcan : Canonical r) (hres : ¬ r.isResolved = true)
    (hnew : t.contains r = false) (s : Bool) :
    let es' := t.entries ++ [⟨r, some w, s⟩]
    KeysNodup es' ∧ WellIndexed es' ∧ (∀ e ∈ es', Canonical e.rev) ∧ ParentClosed es' ∧
    (∀ l, LiveLeaf es' l ↔ (l = r ∨ (LiveLeaf t.entries l ∧ l ≠ w))) := by
  intro es'
  obtain ⟨hwl, hmax⟩ := winner_live ht hw
  have hnin : ∀ e ∈ t.entries, e.rev ≠ r := by
    intro e he heq
    have := (C05.contains_iff t r).mpr ⟨e, he, heq⟩
    rw [hnew] at this; cases this
  have hnp : ∀ e ∈ t.entries, e.parent ≠ some r := by
    intro e he hp
    obtain ⟨e', he', hr⟩ := ht.closed e he r hp
    exact hnin e' he' hr
  have hk : KeysNodup es' := by
    simp only [es', KeysNodup, List.map_append, List.map_cons, List.map_nil]
    refine List.nodup_append.mpr ⟨ht.keys, by simp, ?_⟩
    intro a ha b hb
    simp only [List.mem_singleton] at hb
    obtain ⟨e, he, rfl⟩ := List.mem_map.mp ha
    rw [hb]; exact hnin e he
  have hwi : WellIndexed es' := by
    intro e he p hp
    rcases List.mem_append.mp he with he | he
    · exact ht.idx e he p hp
    · simp only [List.mem_singleton] at he; subst he
      simp only [Option.some.injEq] at hp; subst hp
      exact hidx.symm
  have hc : ∀ e ∈ es', Canonical e.rev := by
    intro e he
    rcases List.mem_append.mp he with he | he
    · exact ht.canon e he
    · simp only [List.mem_singleton] at he; subst he; exact hcan
  have hpc : ParentClosed es' := by
    intro e he p hp
    rcases List.mem_append.mp he with he | he
    · obtain ⟨e', he', hr⟩ := ht.closed e he p hp
      exact ⟨e', List.mem_append_left _ he', hr⟩
    · simp only [List.mem_singleton] at he; subst he
      simp only [Option.some.injEq] at hp; subst hp
      obtain ⟨⟨e', he', hr⟩, _⟩ := hwl
      exact ⟨e', List.mem_append_left _ he', hr⟩
  refine ⟨hk, hwi, hc, hpc, ?_⟩
  intro l
  constructor
  · rintro ⟨⟨e, he, rfl⟩, h2, h3, h4⟩
    by_cases hlr : e.rev = r
    · exact Or.inl hlr
    · right
      have he' : e ∈ t.entries := by
        rcases List.mem_append.mp he with he | he
        · exact he
        · simp only [List.mem_singleton] at he; subst he; exact absurd rfl hlr
      refine ⟨⟨⟨e, he', rfl⟩, h2, fun e' he'' => h3 e' (List.mem_append_left _ he''),
        reaches_of_append hnp h4 hlr⟩, ?_⟩
      intro hew
      exact h3 ⟨r, some w, s⟩ (List.mem_append_right _ (by simp)) (by rw [hew])
  · rintro (rfl | ⟨⟨⟨e, he, rfl⟩, h2, h3, h4⟩, hne⟩)
    · refine ⟨⟨⟨l, some w, s⟩, List.mem_append_right _ (by simp), rfl⟩, hres, ?_, ?_⟩
      · intro e he hp
        rcases List.mem_append.mp he with he | he
        · exact hnp e he hp
        · simp only [List.mem_singleton] at he; subst he
          simp only [Option.some.injEq] at hp
          rw [hp] at hidx; omega
      · exact Reaches.step ⟨l, some w, s⟩ w (List.mem_append_right _ (by simp)) rfl
          (reaches_append _ hwl.2.2.2)
    · refine ⟨⟨e, List.mem_append_left _ he, rfl⟩, h2, ?_, reaches_append _ h4⟩
      intro e' he' hp
      rcases List.mem_append.mp he' with he' | he'
      · exact h3 e' he' hp
      · simp only [List.mem_singleton] at he'; subst he'
        simp only [Option.some.injEq] at hp
        exact hne hp.symm

/-- **Stage A (general form).** In a tree satisfying `TreeOK` with winner `w`, adding a fresh,
    canonical, unresolved revision `r` of index `w.index + 1` as a child of `w` makes `r` the winner;
    the leaves are the old leaves with `w` replaced by `r`; and the tree invariant is kept. -/
theorem add_child_general {t : RevTree} (ht : TreeOK t) {w r : Rev} (hw : t.winner = some w)
    (hidx : r.index = w.index + 1) (hcan : Canonical r) (hres : ¬ r.isResolved = true)
    (hnew : t.contains r = false) (s : Bool) :
    (t.add r (some w) s).1.winner = some r ∧
    (∀ l, l ∈ (t.add r (some w) s).1.leafs ↔ (l = r ∨ (LiveLeaf t.entries l ∧ l ≠ w))) ∧
    C05.Sorted (t.add r (some w) s).1.leafs ∧
    TreeOK (t.add r (some w) s).1 := by
  obtain ⟨hk, hwi, hc, hpc, hll⟩ := add_child_core ht hw hidx hcan hres hnew s
  obtain ⟨hwl, hmax⟩ := winner_live ht hw
  rw [C15.add_fst, hnew]
  simp only [Bool.false_eq_true, if_false]
  suffices key : ∀ T : RevTree, T.entries = t.entries ++ [⟨r, some w, s⟩] →
      (validate T).winner = some r ∧
      (∀ l, l ∈ (validate T).leafs ↔ (l = r ∨ (LiveLeaf t.entries l ∧ l ≠ w))) ∧
      C05.Sorted (validate T).leafs ∧ TreeOK (validate T) from key _ rfl
  intro T hTe
  rw [← hTe] at hk hwi hc hpc hll
  have hwin : (validate T).winner = some r := by
    rw [C05.winner_spec cmpOrder T hk hwi hc r]
    refine ⟨(hll r).mpr (Or.inl rfl), ?_⟩
    intro l hl
    rcases (hll l).mp hl with rfl | ⟨hl', _⟩
    · rw [C19.cmp_refl]; intro h; cases h
    · have h1 := cmp_not_gt_index hl'.2.1 hwl.2.1 (hmax l hl')
      have : Rev.cmp l r = .lt := C19.cmp_index l r hl'.2.1 hres (by omega)
      rw [this]; intro h; cases h
  refine ⟨hwin, ?_, C05.sortRevs_sorted cmpOrder _, ?_⟩
  · intro l
    rw [C05.mem_leafs_iff cmpOrder T hk hwi hc l]
    exact hll l
  · refine ⟨rfl, hk, hwi, hc, hpc, ?_⟩
    intro w' hw' e he hlt
    rw [hwin] at hw'
    cases hw'
    rw [C05.validate_entries, hTe] at he
    rcases List.mem_append.mp he with he | he
    · exact ht.beyond w hw e he (by omega)
    · simp only [List.mem_singleton] at he; subst he
      simp at hlt

/-- a child of the winner that is not a resolution marker is not yet recorded -/
theorem child_fresh {t : RevTree} (ht : TreeOK t) {w r : Rev} (hw : t.winner = some w)
    (hidx : r.index = w.index + 1) (hres : ¬ r.isResolved = true) : t.contains r = false := by
  cases h : t.contains r with
  | false => rfl
  | true =>
    obtain ⟨e, he, rfl⟩ := (C05.contains_iff t _).mp h
    exact absurd (ht.beyond w hw e he (by omega)) hres

theorem upd_not_resolved (H : Bytes → Str) (d : Str) (w : Rev) (hd : d ≠ Rev.RESOLVED) :
    ¬ (Rev.upd H d w).isResolved = true := by
  simp [Rev.isResolved, Rev.upd, hd]

/-- **Stage A.** `t` validated with `KeysNodup`, `WellIndexed`, canonical entries (all in `TreeOK`),
    winner `w`; `r = Rev.upd H d w` with `d` alphanumeric, not the resolution digest, and `r` not yet
    in the tree: `r` is the new winner and replaces `w` among the leaves. -/
theorem add_child_becomes_winner {H : Bytes → Str} (hH : HexOut H) {t : RevTree} (ht : TreeOK t)
    {w : Rev} (hw : t.winner = some w) {d : Str} (hd : AlnumStr d) (hdr : d ≠ Rev.RESOLVED)
    (hnew : t.contains (Rev.upd H d w) = false) :
    (t.add (Rev.upd H d w) (some w) true).1.winner = some (Rev.upd H d w) ∧
    (∀ l, l ∈ (t.add (Rev.upd H d w) (some w) true).1.leafs ↔
      (l = Rev.upd H d w ∨ (LiveLeaf t.entries l ∧ l ≠ w))) ∧
    TreeOK (t.add (Rev.upd H d w) (some w) true).1 := by
  obtain ⟨⟨e, he, hr⟩, _⟩ := (winner_live ht hw).1
  have hcw : Canonical w := hr ▸ ht.canon e he
  obtain ⟨h1, h2, _, h4⟩ := add_child_general ht hw (r := Rev.upd H d w) rfl
    (C19.upd_canonical hH d hd w hcw) (upd_not_resolved H d w hdr) hnew true
  exact ⟨h1, h2, h4⟩

/-- the old leaves, for a tree whose leaf cache is valid -/
theorem add_child_leafs {H : Bytes → Str} (hH : HexOut H) {t : RevTree} (ht : TreeOK t)
    (hl : t.leafs = sortRevs (liveLeafs t.entries))
    {w : Rev} (hw : t.winner = some w) {d : Str} (hd : AlnumStr d) (hdr : d ≠ Rev.RESOLVED)
    (hnew : t.contains (Rev.upd H d w) = false) (l : Rev) :
    l ∈ (t.add (Rev.upd H d w) (some w) true).1.leafs ↔ (l = Rev.upd H d w ∨ (l ∈ t.leafs ∧ l ≠ w)) := by
  rw [(add_child_becomes_winner hH ht hw hd hdr hnew).2.1 l, hl,
    ← C05.validate_leafs, C05.mem_leafs_iff cmpOrder t ht.keys ht.idx ht.canon l]

/-- **Stage A, deletion.** `Rev.del H w` becomes the winner. (In a `TreeOK` tree it is never already
    recorded: `child_fresh`.) -/
theorem add_del_becomes_winner {H : Bytes → Str} (hH : HexOut H) {t : RevTree} (ht : TreeOK t)
    {w : Rev} (hw : t.winner = some w) :
    (t.add (Rev.del H w) (some w) true).1.winner = some (Rev.del H w) ∧
    (∀ l, l ∈ (t.add (Rev.del H w) (some w) true).1.leafs ↔
      (l = Rev.del H w ∨ (LiveLeaf t.entries l ∧ l ≠ w))) ∧
    TreeOK (t.add (Rev.del H w) (some w) true).1 :=
  add_child_becomes_winner hH ht hw C19.DELETED_alnum (by decide)
    (child_fresh ht hw rfl (upd_not_resolved H _ w (by decide)))

/-! ## Stage B: `updateObject` on a non-array identifier -/

/-! ### frame lemmas: `writeObject`, `withTree`, `readObject` -/

theorem writeObject_p (st : DState) (r : Rev) (o : JObj) : (st.writeObject r o).p = st.p := by
  unfold writeObject; split
  · rfl
  · split <;> rfl

theorem writeObject_acache (st : DState) (r : Rev) (o : JObj) : (st.writeObject r o).acache = st.acache := by
  unfold writeObject; split
  · rfl
  · split <;> rfl

theorem writeObject_stage (st : DState) (r : Rev) (o : JObj) :
    (st.writeObject r o).stage = st.stage ∨
    (r.isSpecial = false ∧ st.p.objects.contains r.digest = false ∧
      st.stage.any (fun p => p.1 = r.digest) = false ∧
      (st.writeObject r o).stage = st.stage ++ [(r.digest, o)]) := by
  unfold writeObject
  split
  · exact Or.inl rfl
  · next h1 =>
    split
    · exact Or.inl rfl
    · next h2 =>
      simp only [Bool.or_eq_true, not_or, Bool.not_eq_true] at h2
      exact Or.inr ⟨by simpa using h1, h2.1, h2.2, rfl⟩

theorem treeOf_writeObject (st : DState) (r : Rev) (o : JObj) (u : Str) :
    (st.writeObject r o).treeOf u = st.treeOf u := by
  unfold treeOf; rw [writeObject_p]

theorem readObject_congr (src : Src) {st st' : DState} (h : st'.stage = st.stage) (r : Rev) :
    readObject src st' r = readObject src st r := by
  unfold readObject; rw [h]

theorem readObject_withTree (src : Src) (st : DState) (u : Str) (t : RevTree) (r : Rev) :
    readObject src (st.withTree u t) r = readObject src st r := readObject_congr src rfl r

/-- reading a stored body (the non-special case of `readObject`) -/
def readStored (src : Src) (stage : List (Str × JObj)) (d : Str) : Except String JObj :=
  match src d with
  | some o => .ok o
  | none => match stage.find? (fun p => p.1 = d) with
    | some p => .ok p.2
    | none => .error "value_not_found"

theorem readObject_nonspecial (src : Src) (st : DState) {r : Rev} (h : r.isSpecial = false) :
    readObject src st r = readStored src st.stage r.digest := by
  simp only [Rev.isSpecial, Bool.or_eq_false_iff] at h
  obtain ⟨⟨⟨h1, h2⟩, h3⟩, h4⟩ := h
  unfold readObject readStored
  simp only [h1, h2, h3, h4, Bool.false_eq_true, if_false]
  cases src r.digest with
  | some o => rfl
  | none =>
    simp only
    cases st.stage.find? (fun p => p.1 = r.digest) <;> rfl

theorem readObject_special (src src' : Src) (st st' : DState) {r : Rev} (h : r.isSpecial = true) :
    readObject src st r = readObject src' st' r := by
  unfold readObject
  cases h1 : r.isEmpty <;> cases h2 : r.isDeleted <;> cases h3 : r.isResolved <;>
    cases h4 : r.isCharcode <;> simp_all [Rev.isSpecial]

theorem readObject_append (src : Src) {st st' : DState} {l : List (Str × JObj)}
    (h : st'.stage = st.stage ++ l) {r : Rev} {x : JObj} (hr : readObject src st r = .ok x) :
    readObject src st' r = .ok x := by
  cases hsp : r.isSpecial with
  | true => rw [readObject_special src src st' st hsp]; exact hr
  | false =>
    rw [readObject_nonspecial src _ hsp] at hr ⊢
    unfold readStored at hr ⊢
    rw [h]
    cases hs : src r.digest with
    | some o => simpa [hs] using hr
    | none =>
      simp only [hs] at hr ⊢
      cases hf : st.stage.find? (fun p => p.1 = r.digest) with
      | some p => simp only [hf] at hr; simp only [List.find?_append, hf, Option.some_or]; exact hr
      | none => simp [hf] at hr

/-- **`writeObject` only adds to the stage: every successful read stays the same.** -/
theorem readObject_writeObject_mono (src : Src) (st : DState) (r' : Rev) (o' : JObj) {r : Rev} {x : JObj}
    (hr : readObject src st r = .ok x) : readObject src (st.writeObject r' o') r = .ok x := by
  rcases writeObject_stage st r' o' with h | ⟨_, _, _, h⟩
  · rw [readObject_congr src h]; exact hr
  · exact readObject_append src h hr

theorem find_setTree_self (docs : List (Str × RevTree)) (u : Str) (t : RevTree) :
    (setTree docs u t).find? (fun p => p.1 = u) = some (u, t) := by
  induction docs with
  | nil => simp [setTree]
  | cons x xs ih =>
    obtain ⟨k, y⟩ := x
    simp only [setTree]
    split
    · simp
    · next hk =>
      split
      · simp
      · simp [List.find?_cons, hk, ih]

theorem find_setTree_other (docs : List (Str × RevTree)) (u u' : Str) (t : RevTree) (hne : u' ≠ u) :
    (setTree docs u t).find? (fun p => p.1 = u') = docs.find? (fun p => p.1 = u') := by
  have hne' : ¬ u = u' := fun e => hne e.symm
  induction docs with
  | nil => simp [setTree, hne']
  | cons x xs ih =>
    obtain ⟨k, y⟩ := x
    simp only [setTree]
    split
    · next hk => subst hk; simp [List.find?_cons, hne']
    · split
      · simp [List.find?_cons, hne']
      · by_cases hk : k = u'
        · simp [List.find?_cons, hk]
        · simp [List.find?_cons, hk, ih]

theorem treeOf_withTree_self (st : DState) (u : Str) (t : RevTree) : (st.withTree u t).treeOf u = some t := by
  simp [treeOf, withTree, find_setTree_self]

theorem treeOf_withTree_other (st : DState) (u u' : Str) (t : RevTree) (hne : u' ≠ u) :
    (st.withTree u t).treeOf u' = st.treeOf u' := by
  simp [treeOf, withTree, find_setTree_other _ _ _ _ hne]

/-- the documents map is sorted by identifier (BTreeMap) -/
def DocsSorted (docs : List (Str × RevTree)) : Prop := docs.Pairwise (fun p q => strLt p.1 q.1 = true)

theorem mem_setTree {docs : List (Str × RevTree)} {u : Str} {t : RevTree} {q : Str × RevTree}
    (h : q ∈ setTree docs u t) : q = (u, t) ∨ q ∈ docs := by
  induction docs with
  | nil => simp [setTree] at h; exact Or.inl h
  | cons x xs ih =>
    obtain ⟨k, y⟩ := x
    simp only [setTree] at h
    split at h
    · rcases List.mem_cons.mp h with h | h
      · exact Or.inl h
      · exact Or.inr (List.mem_cons_of_mem _ h)
    · split at h
      · rcases List.mem_cons.mp h with h | h
        · exact Or.inl h
        · exact Or.inr h
      · rcases List.mem_cons.mp h with h | h
        · exact Or.inr (by rw [h]; exact List.mem_cons_self)
        · rcases ih h with h | h
          · exact Or.inl h
          · exact Or.inr (List.mem_cons_of_mem _ h)

theorem setTree_sorted {docs : List (Str × RevTree)} (hs : DocsSorted docs) (u : Str) (t : RevTree) :
    DocsSorted (setTree docs u t) := by
  induction docs with
  | nil => simp [setTree, DocsSorted]
  | cons x xs ih =>
    obtain ⟨k, y⟩ := x
    have hs' := List.pairwise_cons.mp hs
    simp only [setTree]
    split
    · next hk => subst hk; exact List.pairwise_cons.mpr ⟨hs'.1, hs'.2⟩
    · next hk =>
      split
      · next hlt =>
        refine List.pairwise_cons.mpr ⟨?_, hs⟩
        intro q hq
        rcases List.mem_cons.mp hq with hq | hq
        · rw [hq]; exact hlt
        · exact C04.strLt_trans _ _ _ hlt (hs'.1 q hq)
      · next hlt =>
        refine List.pairwise_cons.mpr ⟨?_, ih hs'.2⟩
        intro q hq
        rcases mem_setTree hq with hq | hq
        · rw [hq]
          exact C04.strLt_total _ _ (by simpa using hlt) (fun e => hk e.symm)
        · exact hs'.1 q hq

/-! ### stored bodies, collision freedom -/

/-- the object has no `#` field (its digest is the hash of its text, or `e` when it is empty) -/
def NoHash (o : JObj) : Prop := objGet HASH_FIELD o = none

/-- a revision carrying digest `d` reads back as `o` even when the digest is one of the special ones
    (empty object, character code); `d` is a usable digest: alphanumeric, not the deletion / resolution
    marker -/
def Faithful (d : Str) (o : JObj) : Prop :=
  AlnumStr d ∧ d ≠ Rev.DELETED ∧ d ≠ Rev.RESOLVED ∧
  ∀ (r : Rev), r.digest = d → r.isSpecial = true → ∀ (src : Src) (st : DState), readObject src st r = .ok o

/-- collision freedom of the digest on a set `S` of objects (the design's assumption, restricted to
    the objects that actually occur so that it is satisfiable) -/
def CollisionFree (H : Bytes → Str) (S : JObj → Prop) : Prop :=
  ∀ o₁ o₂ d, S o₁ → S o₂ → digestObject H o₁ = .ok d → digestObject H o₂ = .ok d → o₁ = o₂

/-- stored bodies hash to the digest they are stored under, and belong to the universe `S`;
    every digest listed as committed is served by `src` -/
structure StoreOK (H : Bytes → Str) (src : Src) (S : JObj → Prop) (st : DState) : Prop where
  src_ok : ∀ d o, src d = some o → digestObject H o = .ok d ∧ S o
  stage_ok : ∀ p ∈ st.stage, digestObject H p.2 = .ok p.1 ∧ S p.2
  objs_ok : ∀ d ∈ st.p.objects, (src d).isSome = true

/-- the body of the winner is readable and hashes to the winner's digest (`BodiesOK`, for the winner) -/
def WinnerBody (H : Bytes → Str) (src : Src) (st : DState) (t : RevTree) : Prop :=
  ∀ w, t.winner = some w → w.isSpecial = false →
    ∃ o', readObject src st w = .ok o' ∧ digestObject H o' = .ok w.digest

/-- a stored body read under a non-special revision hashes to that revision's digest -/
theorem readObject_digest {H : Bytes → Str} {src : Src} {S : JObj → Prop} {st : DState}
    (hS : StoreOK H src S st) {r : Rev} (hr : r.isSpecial = false) {x : JObj}
    (h : readObject src st r = .ok x) : digestObject H x = .ok r.digest ∧ S x := by
  rw [readObject_nonspecial src st hr] at h
  unfold readStored at h
  cases hs : src r.digest with
  | some o =>
    simp only [hs, Except.ok.injEq] at h; subst h
    exact hS.src_ok _ _ hs
  | none =>
    simp only [hs] at h
    cases hf : st.stage.find? (fun p => p.1 = r.digest) with
    | none => simp [hf] at h
    | some p =>
      simp only [hf, Except.ok.injEq] at h; subst h
      have hm := List.mem_of_find?_eq_some hf
      have hk : p.1 = r.digest := by simpa using List.find?_some hf
      rw [← hk]; exact hS.stage_ok p hm

theorem storeOK_writeObject {H : Bytes → Str} {src : Src} {S : JObj → Prop} {st : DState}
    (hS : StoreOK H src S st) (r : Rev) (o : JObj) (hd : digestObject H o = .ok r.digest) (hSo : S o) :
    StoreOK H src S (st.writeObject r o) := by
  refine ⟨hS.src_ok, ?_, by rw [writeObject_p]; exact hS.objs_ok⟩
  rcases writeObject_stage st r o with h | ⟨_, _, _, h⟩
  · rw [h]; exact hS.stage_ok
  · rw [h]
    intro p hp
    rcases List.mem_append.mp hp with hp | hp
    · exact hS.stage_ok p hp
    · simp only [List.mem_singleton] at hp; subst hp; exact ⟨hd, hSo⟩

/-- after `writeObject r o` the revision `r` reads back exactly `o` -/
theorem readObject_after_write {H : Bytes → Str} {src : Src} {S : JObj → Prop} {st : DState}
    (hS : StoreOK H src S st) (hcf : CollisionFree H S) (r : Rev) (o : JObj)
    (hd : digestObject H o = .ok r.digest) (hSo : S o) (hf : Faithful r.digest o) :
    readObject src (st.writeObject r o) r = .ok o := by
  cases hsp : r.isSpecial with
  | true => exact hf.2.2.2 r rfl hsp src _
  | false =>
    have hS' := storeOK_writeObject hS r o hd hSo
    have hex : ∃ x, readObject src (st.writeObject r o) r = .ok x := by
      rw [readObject_nonspecial src _ hsp]
      unfold readStored
      cases hs : src r.digest with
      | some x => exact ⟨x, rfl⟩
      | none =>
        simp only
        rcases writeObject_stage st r o with h | ⟨_, _, _, h⟩
        · -- nothing was added: the digest is committed or staged already
          have : st.p.objects.contains r.digest = true ∨ st.stage.any (fun p => p.1 = r.digest) = true := by
            unfold writeObject at h
            simp only [hsp, Bool.false_eq_true, if_false] at h
            by_cases hc : (st.p.objects.contains r.digest || st.stage.any (fun p => p.1 = r.digest)) = true
            · simpa using hc
            · simp only [hc, if_false] at h
              have := congrArg List.length h
              simp at this
          rcases this with hc | hc
          · have := hS.objs_ok r.digest (by simpa using hc)
            rw [hs] at this; cases this
          · rw [h]
            cases hf' : st.stage.find? (fun p => p.1 = r.digest) with
            | some p => exact ⟨p.2, rfl⟩
            | none =>
              rw [List.find?_eq_none] at hf'
              obtain ⟨p, hp, hpk⟩ := List.any_eq_true.mp hc
              exact absurd hpk (hf' p hp)
        · rw [h]
          cases hf' : (st.stage ++ [(r.digest, o)]).find? (fun p => p.1 = r.digest) with
          | some p => exact ⟨p.2, rfl⟩
          | none =>
            rw [List.find?_eq_none] at hf'
            exact absurd (by simp) (hf' (r.digest, o) (by simp))
    obtain ⟨x, hx⟩ := hex
    obtain ⟨hdx, hSx⟩ := readObject_digest hS' hsp hx
    rw [hx, hcf x o r.digest hSx hSo hdx hd]

/-! ### a fresh tree -/

theorem singleton_tree (r : Rev) (hidx : r.index = 1) (hres : ¬ r.isResolved = true) (hcan : Canonical r) :
    (RevTree.empty.add r none true).1.winner = some r ∧ TreeOK (RevTree.empty.add r none true).1 := by
  have hres' : r.isResolved = false := by simpa using hres
  have hent : (RevTree.empty.add r none true).1.entries = [⟨r, none, true⟩] := by
    rw [C15.add_entries]; simp [RevTree.empty, contains, find?]
  have hll : liveLeafs [(⟨r, none, true⟩ : RtEntry)] = [r] := by
    simp [liveLeafs, isParent, reachesRoot, find?, hres', hidx]
  have hwin : (RevTree.empty.add r none true).1.winner = some r := by
    rw [C15.add_fst]
    simp only [RevTree.empty, contains, find?, List.find?_nil, Option.isSome_none, Bool.false_eq_true, if_false]
    rw [C05.validate_winner]
    simp only [List.nil_append, hll]
    rfl
  refine ⟨hwin, ?_, ?_, ?_, ?_, ?_, ?_⟩
  · rw [hwin, hent, hll]; rfl
  · rw [hent]; simp [KeysNodup]
  · rw [hent]; intro e he p hp; simp only [List.mem_singleton] at he; subst he; cases hp
  · rw [hent]; intro e he; simp only [List.mem_singleton] at he; subst he; exact hcan
  · rw [hent]; intro e he p hp; simp only [List.mem_singleton] at he; subst he; cases hp
  · rw [hent, hwin]; intro w hw e he hlt
    simp only [List.mem_singleton] at he; subst he
    cases hw; simp at hlt

/-! ### the specification of `updateObject` -/

/-- what an object-level step on `u` guarantees about the rest of the state -/
structure Frame (H : Bytes → Str) (src : Src) (S : JObj → Prop) (st st' : DState) (u : Str) : Prop where
  other : ∀ u', u' ≠ u → st'.treeOf u' = st.treeOf u'
  reads : ∀ r x, readObject src st r = .ok x → readObject src st' r = .ok x
  store : StoreOK H src S st'
  sorted : DocsSorted st.p.docs → DocsSorted st'.p.docs
  acache : st'.acache = st.acache
  keeps : (st.treeOf u).isSome = true → (st'.treeOf u).isSome = true

theorem storeOK_withTree {H : Bytes → Str} {src : Src} {S : JObj → Prop} {st : DState}
    (hS : StoreOK H src S st) (u : Str) (t : RevTree) : StoreOK H src S (st.withTree u t) :=
  ⟨hS.src_ok, hS.stage_ok, hS.objs_ok⟩

theorem frame_refl {H : Bytes → Str} {src : Src} {S : JObj → Prop} {st : DState} (hS : StoreOK H src S st)
    (u : Str) : Frame H src S st st u :=
  ⟨fun _ _ => rfl, fun _ _ h => h, hS, fun h => h, rfl, fun h => h⟩

/-- the state `(st.withTree u t').writeObject r o` as a step on `u` -/
theorem frame_write {H : Bytes → Str} {src : Src} {S : JObj → Prop} {st : DState} (hS : StoreOK H src S st)
    (u : Str) (t' : RevTree) (r : Rev) (o : JObj) (hd : digestObject H o = .ok r.digest) (hSo : S o) :
    Frame H src S st ((st.withTree u t').writeObject r o) u := by
  refine ⟨?_, ?_, storeOK_writeObject (storeOK_withTree hS u t') r o hd hSo, ?_, ?_, ?_⟩
  · intro u' hne; rw [treeOf_writeObject, treeOf_withTree_other _ _ _ _ hne]
  · intro r' x hr
    apply readObject_writeObject_mono
    rw [readObject_withTree]; exact hr
  · intro hs; rw [writeObject_p]; exact setTree_sorted hs u t'
  · rw [writeObject_acache]; rfl
  · intro _; rw [treeOf_writeObject, treeOf_withTree_self]; rfl

/-- the same with the two operations in the other order (`createObject`) -/
theorem frame_write' {H : Bytes → Str} {src : Src} {S : JObj → Prop} {st : DState} (hS : StoreOK H src S st)
    (u : Str) (t' : RevTree) (r : Rev) (o : JObj) (hd : digestObject H o = .ok r.digest) (hSo : S o) :
    Frame H src S st ((st.writeObject r o).withTree u t') u := by
  refine ⟨?_, ?_, storeOK_withTree (storeOK_writeObject hS r o hd hSo) u t', ?_, ?_, ?_⟩
  · intro u' hne; rw [treeOf_withTree_other _ _ _ _ hne, treeOf_writeObject]
  · intro r' x hr
    rw [readObject_withTree]
    exact readObject_writeObject_mono src st r o hr
  · intro hs
    show DocsSorted (setTree (st.writeObject r o).p.docs u t')
    rw [writeObject_p]; exact setTree_sorted hs u t'
  · show (st.writeObject r o).acache = st.acache
    rw [writeObject_acache]
  · intro _; rw [treeOf_withTree_self]; rfl

/-- the guarantee about the tree of `u` itself -/
def Holds (H : Bytes → Str) (src : Src) (st' : DState) (u : Str) (o : JObj) (rv : Option Str) : Prop :=
  ∃ t' w', st'.treeOf u = some t' ∧ t'.winner = some w' ∧ digestObject H o = .ok w'.digest ∧
    rv = some w'.render ∧ readObject src st' w' = .ok o ∧ TreeOK t' ∧ WinnerBody H src st' t'

theorem createObject_spec {H : Bytes → Str} {src : Src} {S : JObj → Prop}
    {st st' : DState} {u : Str} {o : JObj} {rv : Option Str}
    (hS : StoreOK H src S st) (hcf : CollisionFree H S) (hSo : S o)
    (hf : ∀ d, digestObject H o = .ok d → Faithful d o)
    (htu : st.treeOf u = none)
    (h : createObject H st u o = .ok (st', rv)) :
    Holds H src st' u o rv ∧ Frame H src S st st' u := by
  unfold createObject at h
  cases hd : digestObject H o with
  | error e => simp [hd] at h
  | ok d =>
    simp only [hd, treeOf_writeObject, htu, Option.getD_none] at h
    obtain ⟨hfa, hfd, hfr, _⟩ := hf d hd
    have hres : ¬ (Rev.mk1 d).isResolved = true := by simp [Rev.isResolved, Rev.mk1, hfr]
    obtain ⟨hwin, hok⟩ := singleton_tree (Rev.mk1 d) rfl hres (C19.mk1_canonical d hfa)
    have hadd : (RevTree.empty.add (Rev.mk1 d) none true).2 = true := by
      simp [RevTree.add, unvalidatedAdd, RevTree.empty, contains, find?]
    generalize hT : RevTree.empty.add (Rev.mk1 d) none true = T at h hwin hok hadd
    obtain ⟨t', added⟩ := T
    simp only at hadd hwin hok h
    subst hadd
    simp only [if_true, Res.ok.injEq, Prod.mk.injEq] at h
    obtain ⟨rfl, rfl⟩ := h
    have hrd : readObject src ((st.writeObject (Rev.mk1 d) o).withTree u t') (Rev.mk1 d) = .ok o := by
      rw [readObject_withTree]
      exact readObject_after_write hS hcf (Rev.mk1 d) o hd hSo (hf d hd)
    refine ⟨⟨t', Rev.mk1 d, treeOf_withTree_self _ _ _, hwin, hd, rfl, hrd, hok, ?_⟩,
      frame_write' hS u t' (Rev.mk1 d) o hd hSo⟩
    intro w hw _
    rw [hwin] at hw; cases hw
    exact ⟨o, hrd, hd⟩

/-- **Stage B.** `updateObject` on a non-array identifier: afterwards the tree of `u` has a winner
    whose digest is the digest of `o` and whose body reads back as exactly `o`; the trees of all other
    identifiers and all earlier successful reads are unchanged. -/
theorem updateObject_spec {H : Bytes → Str} (hH : HexOut H) {src : Src} {S : JObj → Prop}
    {st st' : DState} {u : Str} {o : JObj} {rv : Option Str}
    (hu : isArrayDescriptor u = false)
    (hS : StoreOK H src S st) (hcf : CollisionFree H S) (hSo : S o)
    (hf : ∀ d, digestObject H o = .ok d → Faithful d o)
    (htree : ∀ t, st.treeOf u = some t → TreeOK t ∧ WinnerBody H src st t)
    (h : updateObject H src st u o = .ok (st', rv)) :
    Holds H src st' u o rv ∧ Frame H src S st st' u := by
  unfold updateObject at h
  cases htu : st.treeOf u with
  | none => rw [htu] at h; exact createObject_spec hS hcf hSo hf htu h
  | some t =>
    obtain ⟨ht, hwb⟩ := htree t htu
    rw [htu] at h
    simp only at h
    cases hw : t.winner with
    | none => simp [hw] at h
    | some w =>
      simp only [hw, hu, Bool.false_eq_true, if_false, Bool.false_or] at h
      cases hd : digestObject H o with
      | error e => simp [hd] at h
      | ok d =>
        simp only [hd] at h
        obtain ⟨hfa, hfd, hfr, hfs⟩ := hf d hd
        by_cases hdw : d = w.digest
        · -- nothing to add: the winner already carries this digest
          simp only [hdw, ne_eq, not_true_eq_false, decide_false, Bool.false_eq_true, if_false,
            Res.ok.injEq, Prod.mk.injEq] at h
          obtain ⟨rfl, rfl⟩ := h
          have hrd : readObject src st w = .ok o := by
            cases hsp : w.isSpecial with
            | true => exact hfs w hdw.symm hsp src st
            | false =>
              obtain ⟨o', ho', hdo'⟩ := hwb w hw hsp
              obtain ⟨_, hSo'⟩ := readObject_digest hS hsp ho'
              rw [ho', hcf o' o w.digest hSo' hSo hdo' (hdw ▸ hd)]
          exact ⟨⟨t, w, htu, hw, hdw ▸ hd, rfl, hrd, ht, hwb⟩, frame_refl hS u⟩
        · simp only [ne_eq, hdw, not_false_eq_true, decide_true, if_true, Res.ok.injEq, Prod.mk.injEq] at h
          obtain ⟨rfl, rfl⟩ := h
          have hfresh := child_fresh ht hw (r := Rev.upd H d w) rfl (upd_not_resolved H d w hfr)
          obtain ⟨hwin, _, hok⟩ := add_child_becomes_winner hH ht hw hfa hfr hfresh
          have hrd := readObject_after_write (storeOK_withTree hS u (t.add (Rev.upd H d w) (some w) true).1)
            hcf (Rev.upd H d w) o hd hSo (hf d hd)
          refine ⟨⟨_, Rev.upd H d w, ?_, hwin, hd, rfl, hrd, hok, ?_⟩, frame_write hS u _ _ o hd hSo⟩
          · rw [treeOf_writeObject, treeOf_withTree_self]
          · intro w' hw' _
            rw [hwin] at hw'; cases hw'
            exact ⟨o, hrd, hd⟩

/-- **`update_idem_trees`**: submitting the same object again adds nothing — when the winner of `u`
    already carries the digest of `o`, `updateObject` returns the state unchanged. -/
theorem update_idem_trees {H : Bytes → Str} {src : Src} {st : DState} {u : Str} {o : JObj}
    {t : RevTree} {w : Rev} (hu : isArrayDescriptor u = false)
    (htu : st.treeOf u = some t) (hw : t.winner = some w) (hd : digestObject H o = .ok w.digest) :
    updateObject H src st u o = .ok (st, some w.render) := by
  unfold updateObject
  simp [htu, hw, hu, hd]

/-- **Submitting the same object twice**: after a successful `updateObject`, repeating it with the same
    object returns the same state and the same revision — nothing is added. -/
theorem updateObject_twice {H : Bytes → Str} (hH : HexOut H) {src : Src} {S : JObj → Prop}
    {st st' : DState} {u : Str} {o : JObj} {rv : Option Str}
    (hu : isArrayDescriptor u = false)
    (hS : StoreOK H src S st) (hcf : CollisionFree H S) (hSo : S o)
    (hf : ∀ d, digestObject H o = .ok d → Faithful d o)
    (htree : ∀ t, st.treeOf u = some t → TreeOK t ∧ WinnerBody H src st t)
    (h : updateObject H src st u o = .ok (st', rv)) :
    updateObject H src st' u o = .ok (st', rv) := by
  obtain ⟨⟨t', w', h1, h2, h3, h4, _⟩, _⟩ := updateObject_spec hH hu hS hcf hSo hf htree h
  rw [h4]
  exact update_idem_trees hu h1 h2 h3

/-! ### `deleteObject` -/

/-- the tree of `u`, if any, has a deletion as its winner -/
def Dead (st : DState) (u : Str) : Prop :=
  ∀ t, st.treeOf u = some t → ∃ w, t.winner = some w ∧ w.isDeleted = true

theorem frame_withTree {H : Bytes → Str} {src : Src} {S : JObj → Prop} {st : DState} (hS : StoreOK H src S st)
    (u : Str) (t' : RevTree) : Frame H src S st (st.withTree u t') u := by
  refine ⟨?_, ?_, storeOK_withTree hS u t', fun hs => setTree_sorted hs u t', rfl, ?_⟩
  · intro u' hne; exact treeOf_withTree_other _ _ _ _ hne
  · intro r x hr; rw [readObject_withTree]; exact hr
  · intro _; rw [treeOf_withTree_self]; rfl

theorem del_special (H : Bytes → Str) (w : Rev) : (Rev.del H w).isSpecial = true := by
  simp [Rev.isSpecial, Rev.isDeleted, Rev.del, Rev.upd]

theorem del_isDeleted (H : Bytes → Str) (w : Rev) : (Rev.del H w).isDeleted = true := by
  simp [Rev.isDeleted, Rev.del, Rev.upd]

theorem deleteObject_spec {H : Bytes → Str} (hH : HexOut H) {src : Src} {S : JObj → Prop}
    {st st' : DState} {u : Str} {rv : Option Str}
    (hS : StoreOK H src S st)
    (htree : ∀ t, st.treeOf u = some t → TreeOK t ∧ WinnerBody H src st t)
    (h : deleteObject H st u = .ok (st', rv)) :
    Dead st' u ∧ (∀ t, st'.treeOf u = some t → TreeOK t ∧ WinnerBody H src st' t) ∧
    Frame H src S st st' u := by
  unfold deleteObject at h
  cases htu : st.treeOf u with
  | none =>
    simp only [htu, Res.ok.injEq, Prod.mk.injEq] at h
    obtain ⟨rfl, rfl⟩ := h
    exact ⟨fun t ht => (by rw [htu] at ht; cases ht), fun t ht => (by rw [htu] at ht; cases ht), frame_refl hS u⟩
  | some t =>
    obtain ⟨ht, hwb⟩ := htree t htu
    simp only [htu] at h
    cases hw : t.winner with
    | none => simp [hw] at h
    | some w =>
      simp only [hw] at h
      by_cases hc : (!w.isDeleted && !w.isResolved) = true
      · simp only [hc, if_true, Res.ok.injEq, Prod.mk.injEq] at h
        obtain ⟨rfl, rfl⟩ := h
        obtain ⟨hwin, _, hok⟩ := add_del_becomes_winner hH ht hw
        refine ⟨?_, ?_, frame_withTree hS u _⟩
        · intro t' ht'
          rw [treeOf_withTree_self] at ht'; cases ht'
          exact ⟨_, hwin, del_isDeleted H w⟩
        · intro t' ht'
          rw [treeOf_withTree_self] at ht'; cases ht'
          refine ⟨hok, ?_⟩
          intro w' hw' hsp
          rw [hwin] at hw'; cases hw'
          rw [del_special] at hsp; cases hsp
      · simp only [hc, Bool.false_eq_true, if_false, Res.ok.injEq, Prod.mk.injEq] at h
        obtain ⟨rfl, rfl⟩ := h
        refine ⟨?_, ?_, frame_refl hS u⟩
        · intro t' ht'
          rw [htu] at ht'; cases ht'
          have hnr : ¬ w.isResolved = true := (winner_live ht hw).1.2.1
          refine ⟨w, hw, ?_⟩
          cases hd : w.isDeleted with
          | true => rfl
          | false => simp [hd, hnr] at hc
        · intro t' ht'
          rw [htu] at ht'; cases ht'
          exact ⟨ht, hwb⟩

/-! ### the part of a step that does not depend on the identifier; the all-trees invariant -/

structure Glob (H : Bytes → Str) (src : Src) (S : JObj → Prop) (st st' : DState) : Prop where
  reads : ∀ r x, readObject src st r = .ok x → readObject src st' r = .ok x
  store : StoreOK H src S st'
  sorted : DocsSorted st.p.docs → DocsSorted st'.p.docs
  acache : st'.acache = st.acache

theorem Frame.glob {H : Bytes → Str} {src : Src} {S : JObj → Prop} {st st' : DState} {u : Str}
    (h : Frame H src S st st' u) : Glob H src S st st' := ⟨h.reads, h.store, h.sorted, h.acache⟩

theorem Glob.refl {H : Bytes → Str} {src : Src} {S : JObj → Prop} {st : DState} (hS : StoreOK H src S st) :
    Glob H src S st st := ⟨fun _ _ h => h, hS, fun h => h, rfl⟩

theorem Glob.trans {H : Bytes → Str} {src : Src} {S : JObj → Prop} {a b c : DState}
    (h1 : Glob H src S a b) (h2 : Glob H src S b c) : Glob H src S a c :=
  ⟨fun r x h => h2.reads r x (h1.reads r x h), h2.store, fun h => h2.sorted (h1.sorted h),
    h2.acache.trans h1.acache⟩

/-- every tree satisfies the tree invariant and its winner's body is readable and correctly hashed -/
def GoodAll (H : Bytes → Str) (src : Src) (st : DState) : Prop :=
  ∀ u t, st.treeOf u = some t → TreeOK t ∧ WinnerBody H src st t

theorem winnerBody_mono {H : Bytes → Str} {src : Src} {st st' : DState} {t : RevTree}
    (hr : ∀ r x, readObject src st r = .ok x → readObject src st' r = .ok x)
    (h : WinnerBody H src st t) : WinnerBody H src st' t := by
  intro w hw hsp
  obtain ⟨o', h1, h2⟩ := h w hw hsp
  exact ⟨o', hr _ _ h1, h2⟩

theorem goodAll_step {H : Bytes → Str} {src : Src} {S : JObj → Prop} {st st' : DState} {u : Str}
    (hg : GoodAll H src st) (hf : Frame H src S st st' u)
    (hu : ∀ t, st'.treeOf u = some t → TreeOK t ∧ WinnerBody H src st' t) : GoodAll H src st' := by
  intro u' t ht
  by_cases hne : u' = u
  · subst hne; exact hu t ht
  · rw [hf.other u' hne] at ht
    obtain ⟨h1, h2⟩ := hg u' t ht
    exact ⟨h1, winnerBody_mono hf.reads h2⟩

/-! ## Stage C: the two loops of `update` -/

/-- the step of the deletion loop of `update` -/
def goneStep (H : Bytes → Str) (acc : Res DState) (u : Str) : Res DState :=
  match acc with
  | .ok s => (match deleteObject H s u with
    | .ok (s', _) => .ok s'
    | .err _ => .panic "unable_to_delete_object"
    | .panic m => .panic m)
  | e => e

/-- the step of the create / update loop of `update` -/
def poolStep (H : Bytes → Str) (src : Src) (acc : Res DState) (p : Str × JVal) : Res DState :=
  match acc with
  | .ok s => (match p.2 with
    | .obj o => (match updateObject H src s p.1 o with
      | .ok (s', _) => .ok s'
      | .err _ => .panic "unable_to_update_object"
      | .panic m => .panic m)
    | _ => .panic "pool_value_not_an_object")
  | e => e

/-- `update` in terms of the two named steps -/
theorem update_eq (H : Bytes → Str) (src : Src) (st : DState) (doc : JObj) :
    update H src st doc =
      match flatten H [] (.obj doc) [] with
      | .error e => .panic e
      | .ok (pool, root) =>
        match root with
        | .str rootId =>
          match pool.foldl (poolStep H src)
            (((st.p.docs.map (·.1)).filter (fun u => !(objHas u pool))).foldl (goneStep H) (.ok st)) with
          | .ok s => .ok (s, rootId)
          | .err e => .err e
          | .panic m => .panic m
        | _ => .panic "root_identifier_not_a_string" := by
  unfold update
  rfl

theorem goneFold_not_ok (H : Bytes → Str) (l : List Str) (a : Res DState) (ha : ∀ s, a ≠ .ok s) (s' : DState) :
    l.foldl (goneStep H) a ≠ .ok s' := by
  induction l generalizing a with
  | nil => exact ha s'
  | cons u rest ih =>
    rw [List.foldl_cons]
    apply ih
    intro s
    cases a with
    | ok x => exact absurd rfl (ha x)
    | err e => simp [goneStep]
    | panic m => simp [goneStep]

theorem poolFold_not_ok (H : Bytes → Str) (src : Src) (l : List (Str × JVal)) (a : Res DState)
    (ha : ∀ s, a ≠ .ok s) (s' : DState) : l.foldl (poolStep H src) a ≠ .ok s' := by
  induction l generalizing a with
  | nil => exact ha s'
  | cons u rest ih =>
    rw [List.foldl_cons]
    apply ih
    intro s
    cases a with
    | ok x => exact absurd rfl (ha x)
    | err e => simp [poolStep]
    | panic m => simp [poolStep]

theorem goneStep_ok {H : Bytes → Str} {s : DState} {u : Str} {s2 : DState}
    (h : goneStep H (.ok s) u = .ok s2) : ∃ rv, deleteObject H s u = .ok (s2, rv) := by
  simp only [goneStep] at h
  cases hd : deleteObject H s u with
  | ok x => obtain ⟨a, b⟩ := x; simp only [hd, Res.ok.injEq] at h; subst h; exact ⟨b, rfl⟩
  | err e => simp [hd] at h
  | panic m => simp [hd] at h

theorem poolStep_ok {H : Bytes → Str} {src : Src} {s : DState} {p : Str × JVal} {s2 : DState}
    (h : poolStep H src (.ok s) p = .ok s2) :
    ∃ o rv, p.2 = .obj o ∧ updateObject H src s p.1 o = .ok (s2, rv) := by
  simp only [poolStep] at h
  cases hp : p.2 with
  | obj o =>
    simp only [hp] at h
    cases hd : updateObject H src s p.1 o with
    | ok x => obtain ⟨a, b⟩ := x; simp only [hd, Res.ok.injEq] at h; subst h; exact ⟨o, b, rfl, hd⟩
    | err e => simp [hd] at h
    | panic m => simp [hd] at h
  | _ => simp [hp] at h

/-- the deletion loop -/
theorem goneFold_spec {H : Bytes → Str} (hH : HexOut H) {src : Src} {S : JObj → Prop} :
    ∀ (l : List Str) (s s' : DState), l.Nodup → StoreOK H src S s → GoodAll H src s →
      l.foldl (goneStep H) (.ok s) = .ok s' →
      (∀ u ∈ l, Dead s' u) ∧ (∀ u, u ∉ l → s'.treeOf u = s.treeOf u) ∧ Glob H src S s s' ∧ GoodAll H src s'
  | [], s, s', _, hS, hg, h => by
    simp only [List.foldl_nil, Res.ok.injEq] at h; subst h
    exact ⟨fun _ h => (by cases h), fun _ _ => rfl, Glob.refl hS, hg⟩
  | u :: rest, s, s', hn, hS, hg, h => by
    rw [List.foldl_cons] at h
    cases h2 : goneStep H (.ok s) u with
    | ok s2 =>
      rw [h2] at h
      obtain ⟨rv, hdel⟩ := goneStep_ok h2
      obtain ⟨hdead, hgood, hfr⟩ := deleteObject_spec hH (src := src) hS (hg u) hdel
      have hg2 := goodAll_step hg hfr hgood
      have hn' := List.nodup_cons.mp hn
      obtain ⟨i1, i2, i3, i4⟩ := goneFold_spec hH rest s2 s' hn'.2 hfr.store hg2 h
      refine ⟨?_, ?_, hfr.glob.trans i3, i4⟩
      · intro u' hu'
        rcases List.mem_cons.mp hu' with rfl | hu'
        · intro t ht; rw [i2 _ hn'.1] at ht; exact hdead t ht
        · exact i1 u' hu'
      · intro u' hu'
        simp only [List.mem_cons, not_or] at hu'
        rw [i2 u' hu'.2, hfr.other u' hu'.1]
    | err e => rw [h2] at h; exact absurd h (goneFold_not_ok H rest _ (by simp) s')
    | panic m => rw [h2] at h; exact absurd h (goneFold_not_ok H rest _ (by simp) s')

/-- the tree of `u` has a live winner whose body reads back as `o` -/
def Live (src : Src) (st : DState) (u : Str) (o : JObj) : Prop :=
  ∃ t w, st.treeOf u = some t ∧ t.winner = some w ∧ w.isDeleted = false ∧ readObject src st w = .ok o

/-- what is assumed of every pool entry: not an array descriptor; its object belongs to the
    collision-free universe and reads back faithfully under its digest -/
def EntryOK (H : Bytes → Str) (S : JObj → Prop) (p : Str × JVal) : Prop :=
  isArrayDescriptor p.1 = false ∧ ∀ o, p.2 = .obj o → S o ∧ ∀ d, digestObject H o = .ok d → Faithful d o

/-- the create / update loop -/
theorem poolFold_spec {H : Bytes → Str} (hH : HexOut H) {src : Src} {S : JObj → Prop} (hcf : CollisionFree H S) :
    ∀ (l : List (Str × JVal)) (s s' : DState), (C04.keys l).Nodup → (∀ p ∈ l, EntryOK H S p) →
      StoreOK H src S s → GoodAll H src s →
      l.foldl (poolStep H src) (.ok s) = .ok s' →
      (∀ p ∈ l, ∃ o, p.2 = .obj o ∧ Live src s' p.1 o) ∧ (∀ u, u ∉ C04.keys l → s'.treeOf u = s.treeOf u) ∧
      Glob H src S s s' ∧ GoodAll H src s'
  | [], s, s', _, _, hS, hg, h => by
    simp only [List.foldl_nil, Res.ok.injEq] at h; subst h
    exact ⟨fun _ h => (by cases h), fun _ _ => rfl, Glob.refl hS, hg⟩
  | p :: rest, s, s', hn, he, hS, hg, h => by
    rw [List.foldl_cons] at h
    cases h2 : poolStep H src (.ok s) p with
    | ok s2 =>
      rw [h2] at h
      obtain ⟨o, rv, hpo, hupd⟩ := poolStep_ok h2
      obtain ⟨hpa, hpS⟩ := he p List.mem_cons_self
      obtain ⟨hSo, hfa⟩ := hpS o hpo
      obtain ⟨⟨t', w', h1, h2', h3, _, h5, h6, h7⟩, hfr⟩ :=
        updateObject_spec hH hpa hS hcf hSo hfa (hg p.1) hupd
      have hg2 := goodAll_step hg hfr (fun t ht => by rw [h1] at ht; cases ht; exact ⟨h6, h7⟩)
      simp only [C04.keys, List.map_cons, List.nodup_cons] at hn
      obtain ⟨i1, i2, i3, i4⟩ := poolFold_spec hH hcf rest s2 s' hn.2
        (fun q hq => he q (List.mem_cons_of_mem _ hq)) hfr.store hg2 h
      refine ⟨?_, ?_, hfr.glob.trans i3, i4⟩
      · intro q hq
        rcases List.mem_cons.mp hq with rfl | hq
        · refine ⟨o, hpo, t', w', ?_, h2', ?_, i3.reads _ _ h5⟩
          · rw [i2 _ hn.1]; exact h1
          · have := (hfa _ h3).2.1
            simpa [Rev.isDeleted] using this
        · exact i1 q hq
      · intro u' hu'
        simp only [C04.keys, List.map_cons, List.mem_cons, not_or] at hu'
        rw [i2 u' hu'.2, hfr.other u' hu'.1]
    | err e => rw [h2] at h; exact absurd h (poolFold_not_ok H src rest _ (by simp) s')
    | panic m => rw [h2] at h; exact absurd h (poolFold_not_ok H src rest _ (by simp) s')

/-! ### sorted association lists -/

theorem mem_of_objGet {k : Str} {v : JVal} : ∀ {o : JObj}, objGet k o = some v → (k, v) ∈ o
  | [], h => by cases h
  | (k', v') :: t, h => by
    simp only [objGet] at h
    split at h
    · next e => cases h; subst e; exact List.mem_cons_self
    · exact List.mem_cons_of_mem _ (mem_of_objGet h)

theorem objGet_none_of_lt {k : Str} : ∀ {t : JObj}, (∀ q ∈ t, strLt k q.1 = true) → objGet k t = none
  | [], _ => rfl
  | (k', v') :: t, h => by
    have h1 := h (k', v') List.mem_cons_self
    have hne : ¬ k = k' := fun e => by rw [e, C04.strLt_irrefl] at h1; cases h1
    simp only [objGet, hne, if_false]
    exact objGet_none_of_lt (fun q hq => h q (List.mem_cons_of_mem _ hq))

theorem objGet_of_mem_sorted {k : Str} {v : JVal} : ∀ {o : JObj}, C04.SortedKeys o → (k, v) ∈ o →
    objGet k o = some v
  | [], _, h => by cases h
  | (k', v') :: t, hs, h => by
    have hs' := List.pairwise_cons.mp hs
    rcases List.mem_cons.mp h with h | h
    · cases h; simp [objGet]
    · have h1 := hs'.1 (k, v) h
      have hne : ¬ k = k' := fun e => by rw [e, C04.strLt_irrefl] at h1; cases h1
      simp only [objGet, hne, if_false]
      exact objGet_of_mem_sorted hs'.2 h

theorem sortedKeys_ext : ∀ (a b : JObj), C04.SortedKeys a → C04.SortedKeys b →
    (∀ k, objGet k a = objGet k b) → a = b
  | [], [], _, _, _ => rfl
  | [], (k, v) :: t, _, _, h => by have := h k; simp [objGet] at this
  | (k, v) :: t, [], _, _, h => by have := h k; simp [objGet] at this
  | (k, v) :: ta, (k', v') :: tb, ha, hb, h => by
    have ha' := List.pairwise_cons.mp ha
    have hb' := List.pairwise_cons.mp hb
    have hk : k = k' := by
      apply Classical.byContradiction
      intro hne
      have h1 := h k
      simp only [objGet, if_true, hne, if_false] at h1
      have m1 := hb'.1 _ (mem_of_objGet h1.symm)
      have h2 := h k'
      have hne' : ¬ k' = k := fun e => hne e.symm
      simp only [objGet, if_true, hne', if_false] at h2
      have m2 := ha'.1 _ (mem_of_objGet h2)
      simp only at m1 m2
      rw [C04.strLt_asymm _ _ m1] at m2; cases m2
    subst hk
    have hv : v = v' := by
      have h1 := h k
      simpa [objGet] using h1
    subst hv
    have : ta = tb := by
      apply sortedKeys_ext ta tb ha'.2 hb'.2
      intro x
      by_cases hx : x = k
      · subst hx
        rw [objGet_none_of_lt (fun q hq => ha'.1 q hq), objGet_none_of_lt (fun q hq => hb'.1 q hq)]
      · have := h x
        simpa [objGet, hx] using this
    rw [this]

theorem sortedKeys_insAll : ∀ (es : List (Str × JVal)) (A : JObj), C04.SortedKeys A →
    C04.SortedKeys (C04.insAll es A)
  | [], _, h => h
  | e :: es, A, h => by
    show C04.SortedKeys (C04.insAll es (objInsert e.1 e.2 A))
    exact sortedKeys_insAll es _ (C04.sortedKeys_objInsert e.1 e.2 A h)

theorem keys_nodup_of_sorted {o : JObj} (h : C04.SortedKeys o) : (C04.keys o).Nodup := by
  unfold C04.keys
  rw [List.Nodup, List.pairwise_map]
  refine List.Pairwise.imp ?_ h
  intro a b hab e
  rw [e, C04.strLt_irrefl] at hab; cases hab

theorem mem_insAll_nil {k : Str} {v : JVal} {es : List (Str × JVal)}
    (h : (k, v) ∈ C04.insAll es []) : k ∈ C04.keys es := by
  apply Classical.byContradiction
  intro hn
  have h1 := objGet_of_mem_sorted (sortedKeys_insAll es [] List.Pairwise.nil) h
  rw [C04.objGet_insAll_not_mem k es [] hn] at h1
  cases h1

/-! ### the documents map -/

theorem mem_of_treeOf {st : DState} {u : Str} {t : RevTree} (h : st.treeOf u = some t) : (u, t) ∈ st.p.docs := by
  unfold treeOf at h
  cases hf : st.p.docs.find? (fun p => p.1 = u) with
  | none => simp [hf] at h
  | some q =>
    simp only [hf, Option.map_some, Option.some.injEq] at h
    have hm := List.mem_of_find?_eq_some hf
    have hk : q.1 = u := by simpa using List.find?_some hf
    obtain ⟨a, b⟩ := q
    simp only at h hk; subst h; subst hk; exact hm

theorem find_of_mem_sorted {u : Str} {t : RevTree} : ∀ {docs : List (Str × RevTree)}, DocsSorted docs →
    (u, t) ∈ docs → docs.find? (fun p => p.1 = u) = some (u, t)
  | [], _, h => by cases h
  | (k, x) :: rest, hs, h => by
    have hs' := List.pairwise_cons.mp hs
    rcases List.mem_cons.mp h with h | h
    · cases h; simp
    · have h1 := hs'.1 (u, t) h
      have hne : ¬ k = u := fun e => by
        simp only at h1; rw [e, C04.strLt_irrefl] at h1; cases h1
      simp only [List.find?_cons, hne, decide_false]
      exact find_of_mem_sorted hs'.2 h

theorem treeOf_of_mem {st : DState} (hs : DocsSorted st.p.docs) {u : Str} {t : RevTree}
    (h : (u, t) ∈ st.p.docs) : st.treeOf u = some t := by
  unfold treeOf; rw [find_of_mem_sorted hs h]; rfl

theorem docKeys_nodup {docs : List (Str × RevTree)} (h : DocsSorted docs) : (docs.map (·.1)).Nodup := by
  rw [List.Nodup, List.pairwise_map]
  refine List.Pairwise.imp ?_ h
  intro a b hab e
  rw [e, C04.strLt_irrefl] at hab; cases hab

/-! ### `read`: the collection loop -/

abbrev Cache := Lru Rev (List JVal)

/-- the step of the collection loop of `read` -/
def readStep (src : Src) (st : DState) (acc : Res (JObj × Cache)) (p : Str × RevTree) : Res (JObj × Cache) :=
  match acc with
  | .ok (pool, c) =>
    (match p.2.winner with
     | none => .ok (pool, c)
     | some w =>
       if w.isDeleted then .ok (pool, c)
       else match readAt src { st with acache := c } p.1 p.2 w with
         | .ok (o, c') => .ok (objInsert p.1 (.obj (objInsert ID_FIELD (.str p.1) o)) pool, c')
         | .err e => .panic e
         | .panic m => .panic m)
  | e => e

/-- the reconstruction at the end of `read` -/
def readFinish (pool : JObj) (c : Cache) : Res (JVal × Cache) :=
  match objGet ROOT_ID pool with
  | none => .err "root_object_not_found"
  | some rootObj =>
    match unflatten (unflattenFuel pool rootObj) pool rootObj with
    | .ok _ v => (match v with
      | .obj _ => .ok (v, c)
      | _ => .panic "not_an_object")
    | .panic m => .panic m
    | .fuel => .panic "fuel"

theorem read_eq (src : Src) (st : DState) :
    DState.read src st =
      if (st.treeOf ROOT_ID).isNone then .err "no_root"
      else match st.p.docs.foldl (readStep src st) (.ok ([], st.acache)) with
        | .err e => .err e
        | .panic m => .panic m
        | .ok (pool, c) => readFinish pool c := by
  unfold DState.read
  rfl

/-- what the collection loop emits for one tree -/
def emitOf (src : Src) (st : DState) (p : Str × RevTree) : Option (Str × JVal) :=
  match p.2.winner with
  | none => none
  | some w =>
    if w.isDeleted then none
    else match readObject src st w with
      | .ok o => some (p.1, .obj (objInsert ID_FIELD (.str p.1) o))
      | .error _ => none

/-- a tree the loop skips, or a non-array tree whose winner's body can be read -/
def Collectable (src : Src) (st : DState) (p : Str × RevTree) : Prop :=
  p.2.winner = none ∨ (∃ w, p.2.winner = some w ∧ w.isDeleted = true) ∨
  (isArrayDescriptor p.1 = false ∧ ∃ w o, p.2.winner = some w ∧ w.isDeleted = false ∧ readObject src st w = .ok o)

theorem collect_fold (src : Src) (st : DState) : ∀ (L : List (Str × RevTree)) (A : JObj) (c : Cache),
    (∀ p ∈ L, Collectable src st p) →
    L.foldl (readStep src st) (.ok (A, c)) = .ok (C04.insAll (L.filterMap (emitOf src st)) A, c)
  | [], A, c, _ => rfl
  | p :: rest, A, c, h => by
    rw [List.foldl_cons]
    have ih := fun A' => collect_fold src st rest A' c (fun q hq => h q (List.mem_cons_of_mem _ hq))
    rcases h p List.mem_cons_self with hw | ⟨w, hw, hd⟩ | ⟨ha, w, o, hw, hd, hr⟩
    · have h1 : readStep src st (.ok (A, c)) p = .ok (A, c) := by simp [readStep, hw]
      have h2 : emitOf src st p = none := by simp [emitOf, hw]
      rw [h1, List.filterMap_cons, h2]; exact ih A
    · have h1 : readStep src st (.ok (A, c)) p = .ok (A, c) := by simp [readStep, hw, hd]
      have h2 : emitOf src st p = none := by simp [emitOf, hw, hd]
      rw [h1, List.filterMap_cons, h2]; exact ih A
    · have hr' : readObject src { st with acache := c } w = .ok o := by
        rw [readObject_congr src (st' := { st with acache := c }) (st := st) rfl]; exact hr
      have h1 : readStep src st (.ok (A, c)) p =
          .ok (objInsert p.1 (.obj (objInsert ID_FIELD (.str p.1) o)) A, c) := by
        simp [readStep, hw, hd, readAt, ha, hr']
      have h2 : emitOf src st p = some (p.1, .obj (objInsert ID_FIELD (.str p.1) o)) := by
        simp [emitOf, hw, hd, hr]
      rw [h1, List.filterMap_cons, h2]
      exact ih _

theorem emitOf_key {src : Src} {st : DState} {p : Str × RevTree} {e : Str × JVal}
    (h : emitOf src st p = some e) : e.1 = p.1 := by
  unfold emitOf at h
  split at h
  · cases h
  · split at h
    · cases h
    · split at h
      · cases h; rfl
      · cases h

theorem emit_keys_mem {src : Src} {st : DState} {k : Str} : ∀ {L : List (Str × RevTree)},
    k ∈ C04.keys (L.filterMap (emitOf src st)) → ∃ p ∈ L, p.1 = k ∧ (emitOf src st p).isSome = true := by
  intro L h
  simp only [C04.keys, List.mem_map, List.mem_filterMap] at h
  obtain ⟨e, ⟨p, hp, he⟩, hk⟩ := h
  exact ⟨p, hp, by rw [← emitOf_key he, hk], by simp [he]⟩

theorem emit_keys_nodup {src : Src} {st : DState} : ∀ {L : List (Str × RevTree)}, DocsSorted L →
    (C04.keys (L.filterMap (emitOf src st))).Nodup
  | [], _ => by simp [C04.keys]
  | p :: rest, hs => by
    have hs' := List.pairwise_cons.mp hs
    have ih := emit_keys_nodup (src := src) (st := st) hs'.2
    rw [List.filterMap_cons]
    cases he : emitOf src st p with
    | none => exact ih
    | some e =>
      simp only [C04.keys, List.map_cons, List.nodup_cons]
      refine ⟨?_, ih⟩
      intro hm
      obtain ⟨q, hq, hk, _⟩ := emit_keys_mem (src := src) (st := st) hm
      have := hs'.1 q hq
      rw [hk, emitOf_key he, C04.strLt_irrefl] at this; cases this

/-! ### Stage C: the state invariant and the main theorem -/

/-- the document has no flattened array: `flatten` generates no array descriptor for it -/
def NoArrays (doc : JObj) : Prop := C04.descIds (.obj doc) = []

instance (doc : JObj) : Decidable (NoArrays doc) := by unfold NoArrays; infer_instance

/-- **The state invariant.** The documents map is sorted by identifier; stored bodies hash to the
    digest they are stored under (`StoreOK`); every tree is validated, has distinct, well-indexed,
    canonical, parent-closed entries with only resolution markers beyond the winner (`TreeOK`), and the
    body of its winner can be read and hashes to the winner's digest (`WinnerBody`). -/
structure Inv (H : Bytes → Str) (src : Src) (S : JObj → Prop) (st : DState) : Prop where
  sorted : DocsSorted st.p.docs
  store : StoreOK H src S st
  trees : ∀ p ∈ st.p.docs, TreeOK p.2 ∧ WinnerBody H src st p.2

theorem Inv.goodAll {H : Bytes → Str} {src : Src} {S : JObj → Prop} {st : DState} (h : Inv H src S st) :
    GoodAll H src st := fun u t ht => h.trees (u, t) (mem_of_treeOf ht)

/-- the pool `flatten` builds for the document -/
def poolOf (doc : JObj) : JObj := C04.insAll (C04.entV (.obj doc)) []

/-- the objects of the pool belong to the collision-free universe and read back faithfully -/
def PoolOK (H : Bytes → Str) (S : JObj → Prop) (doc : JObj) : Prop :=
  ∀ p ∈ poolOf doc, ∀ o, p.2 = .obj o → S o ∧ ∀ d, digestObject H o = .ok d → Faithful d o

theorem readFinish_withIds (H : Bytes → Str) (doc : JObj) (c : Cache)
    (hwf : C04.WFDoc (.obj doc)) (hnb : C04.NoBangIds (.obj doc)) (hna : NoArrays doc)
    (hroot : C04.objId doc = ROOT_ID) :
    readFinish (C04.withIds (poolOf doc)) c = .ok (C04.addIds (.obj doc), c) := by
  have hdd : C04.DescIdsDistinct (.obj doc) := by
    unfold C04.DescIdsDistinct; rw [hna]; exact List.nodup_nil
  obtain ⟨c', hc'⟩ := C04.read_flatten_fuel H (.obj doc) (poolOf doc) (C04.objId doc) hwf hnb hdd
    (C04.flatten_root H doc hwf)
  unfold C04.readPool at hc'
  rw [hroot] at hc'
  unfold readFinish
  cases hg : objGet ROOT_ID (C04.withIds (poolOf doc)) with
  | none => simp [hg] at hc'
  | some ro =>
    simp only [hg] at hc' ⊢
    rw [hc', C04.addIds_root]

/-- **Stage C (general universe `S`).** -/
theorem update_read_core {H : Bytes → Str} (hH : HexOut H) {src : Src} {S : JObj → Prop}
    (hcf : CollisionFree H S) {st st' : DState} {doc : JObj} {root : Str}
    (hwf : C04.WFDoc (.obj doc)) (hnb : C04.NoBangIds (.obj doc)) (hna : NoArrays doc)
    (hroot : C04.objId doc = ROOT_ID) (hinv : Inv H src S st) (hpool : PoolOK H S doc)
    (h : update H src st doc = .ok (st', root)) :
    DState.read src st' = .ok (C04.addIds (.obj doc), st'.acache) ∧ Inv H src S st' ∧ root = ROOT_ID ∧
    st'.acache = st.acache := by
  have hfl := C04.flatten_root H doc hwf
  rw [update_eq, hfl] at h
  simp only at h
  have hps : C04.SortedKeys (poolOf doc) := sortedKeys_insAll _ [] List.Pairwise.nil
  have hpk : ∀ k v, (k, v) ∈ poolOf doc → isArrayDescriptor k = false := by
    intro k v hm
    have hk := mem_insAll_nil hm
    cases ha : isArrayDescriptor k with
    | false => rfl
    | true =>
      have : k ∈ C04.descIds (.obj doc) := by
        unfold C04.descIds C04.poolKeys
        exact List.mem_filter.mpr ⟨hk, ha⟩
      rw [hna] at this; cases this
  change (match (poolOf doc).foldl (poolStep H src)
      (((st.p.docs.map (·.1)).filter (fun u => !(objHas u (poolOf doc)))).foldl (goneStep H) (.ok st)) with
    | .ok s => Res.ok (s, C04.objId doc)
    | .err e => .err e
    | .panic m => .panic m) = .ok (st', root) at h
  cases r1 : ((st.p.docs.map (·.1)).filter (fun u => !(objHas u (poolOf doc)))).foldl (goneStep H) (.ok st) with
  | err e => rw [r1] at h; exact absurd (by
      cases r2 : (poolOf doc).foldl (poolStep H src) (.err e) with
      | ok s => exact absurd r2 (poolFold_not_ok H src _ _ (by simp) s)
      | err e' => rw [r2] at h; cases h
      | panic m => rw [r2] at h; cases h) (fun (hf : False) => hf)
  | panic m => rw [r1] at h; exact absurd (by
      cases r2 : (poolOf doc).foldl (poolStep H src) (.panic m) with
      | ok s => exact absurd r2 (poolFold_not_ok H src _ _ (by simp) s)
      | err e' => rw [r2] at h; cases h
      | panic m => rw [r2] at h; cases h) (fun (hf : False) => hf)
  | ok s1 =>
    rw [r1] at h
    cases r2 : (poolOf doc).foldl (poolStep H src) (.ok s1) with
    | err e => rw [r2] at h; cases h
    | panic m => rw [r2] at h; cases h
    | ok s2 =>
      rw [r2] at h
      simp only [Res.ok.injEq, Prod.mk.injEq] at h
      obtain ⟨rfl, rfl⟩ := h
      have hgn : ((st.p.docs.map (·.1)).filter (fun u => !(objHas u (poolOf doc)))).Nodup :=
        (docKeys_nodup hinv.sorted).filter _
      obtain ⟨g1, g2, g3, g4⟩ := goneFold_spec hH _ st s1 hgn hinv.store hinv.goodAll r1
      have hent : ∀ p ∈ poolOf doc, EntryOK H S p := fun p hp => ⟨hpk p.1 p.2 hp, hpool p hp⟩
      obtain ⟨p1, p2, p3, p4⟩ := poolFold_spec hH hcf (poolOf doc) s1 s2 (keys_nodup_of_sorted hps) hent
        g3.store g4 r2
      have hsorted2 : DocsSorted s2.p.docs := p3.sorted (g3.sorted hinv.sorted)
      -- pool entries are live in the final state
      have hlive : ∀ k v, objGet k (poolOf doc) = some v → ∃ o, v = .obj o ∧ Live src s2 k o := by
        intro k v hg
        exact p1 (k, v) (mem_of_objGet hg)
      -- everything else is dead
      have hdead : ∀ k t, objGet k (poolOf doc) = none → s2.treeOf k = some t →
          ∃ w, t.winner = some w ∧ w.isDeleted = true := by
        intro k t hg ht
        have hnk : k ∉ C04.keys (poolOf doc) := by
          intro hm
          obtain ⟨q, hq, hqk⟩ := List.mem_map.mp hm
          have := objGet_of_mem_sorted hps (show (q.1, q.2) ∈ poolOf doc from hq)
          rw [hqk, hg] at this; cases this
        rw [p2 k hnk] at ht
        by_cases hgone : k ∈ (st.p.docs.map (·.1)).filter (fun u => !(objHas u (poolOf doc)))
        · exact g1 k hgone t ht
        · exfalso
          rw [g2 k hgone] at ht
          apply hgone
          refine List.mem_filter.mpr ⟨List.mem_map.mpr ⟨(k, t), mem_of_treeOf ht, rfl⟩, ?_⟩
          simp [objHas, hg]
      have hcoll : ∀ p ∈ s2.p.docs, Collectable src s2 p := by
        intro p hp
        have ht := treeOf_of_mem hsorted2 (show (p.1, p.2) ∈ s2.p.docs from hp)
        cases hg : objGet p.1 (poolOf doc) with
        | none =>
          obtain ⟨w, hw, hd⟩ := hdead p.1 p.2 hg ht
          exact Or.inr (Or.inl ⟨w, hw, hd⟩)
        | some v =>
          obtain ⟨o, _, t', w, h1, h2, h3, h4⟩ := hlive p.1 v hg
          rw [ht] at h1; cases h1
          exact Or.inr (Or.inr ⟨hpk p.1 v (mem_of_objGet hg), w, o, h2, h3, h4⟩)
      -- the root
      have hdd : C04.DescIdsDistinct (.obj doc) := by
        unfold C04.DescIdsDistinct; rw [hna]; exact List.nodup_nil
      obtain ⟨ro, hro, _⟩ := C04.unflatten_flatten H (.obj doc) (poolOf doc) (C04.objId doc) hwf hnb hdd hfl
      rw [hroot, C04.objGet_withIds] at hro
      have hrootTree : (s2.treeOf ROOT_ID).isNone = false := by
        cases hg : objGet ROOT_ID (poolOf doc) with
        | none => rw [hg] at hro; cases hro
        | some v =>
          obtain ⟨o, _, t', w, h1, _⟩ := hlive ROOT_ID v hg
          rw [h1]; rfl
      -- the collected pool
      have hQ : C04.insAll (s2.p.docs.filterMap (emitOf src s2)) [] = C04.withIds (poolOf doc) := by
        apply sortedKeys_ext
        · exact sortedKeys_insAll _ [] List.Pairwise.nil
        · exact C04.sortedKeys_map C04.addId (poolOf doc) hps
        · intro k
          rw [C04.objGet_withIds]
          have hnd := emit_keys_nodup (src := src) (st := s2) hsorted2
          cases hg : objGet k (poolOf doc) with
          | none =>
            simp only [Option.map_none]
            rw [C04.objGet_insAll_not_mem k _ []]
            · rfl
            · intro hm
              obtain ⟨q, hq, hk, hsome⟩ := emit_keys_mem hm
              have ht := treeOf_of_mem hsorted2 (show (q.1, q.2) ∈ s2.p.docs from hq)
              rw [hk] at ht
              obtain ⟨w, hw, hd⟩ := hdead k q.2 hg ht
              simp [emitOf, hw, hd] at hsome
          | some v =>
            obtain ⟨o, rfl, t', w, h1, h2, h3, h4⟩ := hlive k _ hg
            simp only [Option.map_some, C04.addId]
            apply C04.objGet_insAll_mem k _ _ [] hnd
            refine List.mem_filterMap.mpr ⟨(k, t'), mem_of_treeOf h1, ?_⟩
            simp [emitOf, h2, h3, h4]
      refine ⟨?_, ⟨hsorted2, p3.store, fun p hp => p4 p.1 p.2 (treeOf_of_mem hsorted2 hp)⟩, hroot,
        p3.acache.trans g3.acache⟩
      rw [read_eq, hrootTree]
      simp only [Bool.false_eq_true, if_false]
      rw [collect_fold src s2 s2.p.docs [] s2.acache hcoll, hQ]
      exact readFinish_withIds H doc s2.acache hwf hnb hna hroot

/-! ### the concrete universe: bodies stored before the update, and the objects of the pool -/

/-- `o` is a stored body of the state -/
def Stored (src : Src) (st : DState) (o : JObj) : Prop := (∃ d, src d = some o) ∨ (∃ p ∈ st.stage, p.2 = o)

/-- `o` is one of the objects `flatten` puts into the pool for `doc` -/
def PoolObj (doc : JObj) (o : JObj) : Prop := ∃ k, (k, JVal.obj o) ∈ poolOf doc

theorem storeOK_weaken {H : Bytes → Str} {src : Src} {S S' : JObj → Prop} {st : DState}
    (h : StoreOK H src S st) (hs : ∀ o, Stored src st o → S' o) : StoreOK H src S' st :=
  ⟨fun d o hd => ⟨(h.src_ok d o hd).1, hs o (Or.inl ⟨d, hd⟩)⟩,
   fun p hp => ⟨(h.stage_ok p hp).1, hs _ (Or.inr ⟨p, hp, rfl⟩)⟩, h.objs_ok⟩

theorem hex_len_ne {H : Bytes → Str} (hH : HexOut H) (b : Bytes) (s : Str) (hs : s.length ≤ 8) : H b ≠ s := by
  intro e
  have := (hH b).1
  rw [e] at this; omega

/-- under a hex hash an object without `#` field reads back faithfully under its digest -/
theorem faithful_of_noHash {H : Bytes → Str} (hH : HexOut H) {o : JObj} (hn : NoHash o) {d : Str}
    (hd : digestObject H o = .ok d) : Faithful d o := by
  unfold digestObject at hd
  split at hd
  · next he =>
    cases hd
    have ho : o = [] := by simpa using he
    subst ho
    refine ⟨C19.EMPTY_alnum, by decide, by decide, ?_⟩
    intro r hr _ src st
    unfold readObject
    simp [Rev.isEmpty, hr]
  · split at hd
    · cases hd
    · unfold NoHash at hn
      rw [hn] at hd
      simp only [Except.ok.injEq] at hd
      subst hd
      refine ⟨⟨?_, ?_⟩, hex_len_ne hH _ _ (by decide), hex_len_ne hH _ _ (by decide), ?_⟩
      · intro e
        have := (hH (utf8 (JVal.obj o).render)).1
        rw [e] at this; cases this
      · intro c hc; exact C19.lowerHex_isAlnum ((hH _).2 c hc)
      · intro r hr hsp
        exfalso
        have hl : r.digest.length = 64 := by rw [hr]; exact (hH _).1
        have h1 : r.isEmpty = false := by
          simp only [Rev.isEmpty, decide_eq_false_iff_not]; intro e; rw [e] at hl; cases hl
        have h2 : r.isDeleted = false := by
          simp only [Rev.isDeleted, decide_eq_false_iff_not]; intro e; rw [e] at hl; cases hl
        have h3 : r.isResolved = false := by
          simp only [Rev.isResolved, decide_eq_false_iff_not]; intro e; rw [e] at hl; cases hl
        have h4 : r.isCharcode = false := by
          unfold Rev.isCharcode
          have : decide (r.digest.length ≤ 8) = false := by rw [hl]; rfl
          rw [this]; rfl
        simp [Rev.isSpecial, h1, h2, h3, h4] at hsp

/-- **Stage C — `update_read_plain`.** For a well-formed document without flattened arrays whose root
    is stored under `√` and whose tracked objects have no `#` field, from ANY state satisfying the
    invariant `Inv` (sorted documents map; bodies hash to their digest; every tree validated with
    distinct, well-indexed, canonical, parent-closed entries; winners' bodies readable), assuming no
    digest collision among the stored bodies and the objects of the document: a successful `update`
    is followed by a `read` that returns exactly the document, with only the identifiers added. -/
theorem update_read_plain {H : Bytes → Str} (hH : HexOut H) {src : Src} {st st' : DState} {doc : JObj} {root : Str}
    (hwf : C04.WFDoc (.obj doc)) (hnb : C04.NoBangIds (.obj doc)) (hna : NoArrays doc)
    (hroot : C04.objId doc = ROOT_ID)
    (hnh : ∀ o, PoolObj doc o → NoHash o)
    (hinv : Inv H src (fun _ => True) st)
    (hcf : CollisionFree H (fun x => Stored src st x ∨ PoolObj doc x))
    (h : update H src st doc = .ok (st', root)) :
    ∃ c, DState.read src st' = .ok (C04.addIds (.obj doc), c) := by
  have hinv' : Inv H src (fun x => Stored src st x ∨ PoolObj doc x) st :=
    ⟨hinv.sorted, storeOK_weaken hinv.store (fun o ho => Or.inl ho), hinv.trees⟩
  have hpool : PoolOK H (fun x => Stored src st x ∨ PoolObj doc x) doc := by
    intro p hp o hpo
    have hpo' : PoolObj doc o := ⟨p.1, by rw [← hpo]; exact hp⟩
    exact ⟨Or.inr hpo', fun d hd => faithful_of_noHash hH (hnh o hpo') hd⟩
  exact ⟨_, (update_read_core hH hcf hwf hnb hna hroot hinv' hpool h).1⟩

/-- the invariant is kept by `update` (for the universe extended by the objects of the document), the
    root identifier returned is `√`, and the array cache is untouched -/
theorem update_keeps_inv {H : Bytes → Str} (hH : HexOut H) {src : Src} {st st' : DState} {doc : JObj} {root : Str}
    (hwf : C04.WFDoc (.obj doc)) (hnb : C04.NoBangIds (.obj doc)) (hna : NoArrays doc)
    (hroot : C04.objId doc = ROOT_ID)
    (hnh : ∀ o, PoolObj doc o → NoHash o)
    (hinv : Inv H src (fun _ => True) st)
    (hcf : CollisionFree H (fun x => Stored src st x ∨ PoolObj doc x))
    (h : update H src st doc = .ok (st', root)) :
    Inv H src (fun _ => True) st' ∧ root = ROOT_ID ∧ st'.acache = st.acache := by
  have hinv' : Inv H src (fun x => Stored src st x ∨ PoolObj doc x) st :=
    ⟨hinv.sorted, storeOK_weaken hinv.store (fun o ho => Or.inl ho), hinv.trees⟩
  have hpool : PoolOK H (fun x => Stored src st x ∨ PoolObj doc x) doc := by
    intro p hp o hpo
    have hpo' : PoolObj doc o := ⟨p.1, by rw [← hpo]; exact hp⟩
    exact ⟨Or.inr hpo', fun d hd => faithful_of_noHash hH (hnh o hpo') hd⟩
  obtain ⟨_, hi, hr, hc⟩ := update_read_core hH hcf hwf hnb hna hroot hinv' hpool h
  exact ⟨⟨hi.sorted, storeOK_weaken hi.store (fun _ _ => trivial), hi.trees⟩, hr, hc⟩

/-! ## Stage D (object level): `updateObject` on an array descriptor

  Proved here: after `updateObject` on an array-descriptor identifier with the full descriptor
  `{"A": newOrder}`, the winner of the tree DENOTES `newOrder` (`TrueOrder`), whichever of the four
  paths the code takes (first revision, full descriptor after a deletion, no change, delta descriptor
  computed with `makeDiffPatch`). The only thing assumed about `rebuildOrder` is its soundness for the
  one call `deltaDescriptor` makes (`hsound`: proved in parallel elsewhere).
  NOT proved here (needs `rebuildOrder` completeness + array-cache soundness across the `read` loop):
  the document-level statement for documents with flattened arrays. -/

/-- the order denoted by a descriptor revision: a full descriptor denotes its order; a delta
    descriptor denotes the patch applied to what its parent denotes (to `[]` when it is a recorded
    root) -/
inductive TrueOrder (src : Src) (st : DState) (t : RevTree) : Rev → List JVal → Prop
  | full {r : Rev} {order : List JVal} : readDesc src st r = .ok (.inl order) → TrueOrder src st t r order
  | delta {r par : Rev} {patch base order : List JVal} : readDesc src st r = .ok (.inr patch) →
      t.getParent r = some par → TrueOrder src st t par base → applyDiffPatch base patch = .ok order →
      TrueOrder src st t r order
  | deltaRoot {r : Rev} {patch order : List JVal} : readDesc src st r = .ok (.inr patch) →
      t.contains r = true → t.getParent r = none → applyDiffPatch [] patch = .ok order →
      TrueOrder src st t r order

theorem readDesc_mono {src : Src} {st st' : DState}
    (hr : ∀ r x, readObject src st r = .ok x → readObject src st' r = .ok x)
    {r : Rev} {d : List JVal ⊕ List JVal} (h : readDesc src st r = .ok d) : readDesc src st' r = .ok d := by
  unfold readDesc at h ⊢
  cases ho : readObject src st r with
  | error e => simp [ho] at h
  | ok o => rw [hr r o ho]; simpa [ho] using h

theorem find_append_some {es l : List RtEntry} {r : Rev} {e : RtEntry} (h : find? es r = some e) :
    find? (es ++ l) r = some e := by
  unfold find? at h ⊢
  rw [List.find?_append, h]; rfl

/-- what a revision denotes is not changed by later additions to the stage and to the tree -/
theorem trueOrder_mono {src : Src} {st st' : DState} {t t' : RevTree} {l : List RtEntry}
    (hr : ∀ r x, readObject src st r = .ok x → readObject src st' r = .ok x)
    (ht : t'.entries = t.entries ++ l) {r : Rev} {order : List JVal}
    (h : TrueOrder src st t r order) : TrueOrder src st' t' r order := by
  induction h with
  | full h1 => exact TrueOrder.full (readDesc_mono hr h1)
  | @delta r par patch base order h1 h2 _ h4 ih =>
    refine TrueOrder.delta (readDesc_mono hr h1) ?_ ih h4
    unfold getParent at h2 ⊢
    cases hf : find? t.entries r with
    | none => simp [hf] at h2
    | some e => rw [ht, find_append_some hf]; simpa [hf] using h2
  | @deltaRoot r patch order h1 h2 h3 h4 =>
    unfold RevTree.contains at h2
    cases hf : find? t.entries r with
    | none => simp [hf] at h2
    | some e =>
      refine TrueOrder.deltaRoot (readDesc_mono hr h1) ?_ ?_ h4
      · unfold RevTree.contains; rw [ht, find_append_some hf]; rfl
      · unfold getParent at h3 ⊢; rw [ht, find_append_some hf]; simpa [hf] using h3

theorem storeOK_acache {H : Bytes → Str} {src : Src} {S : JObj → Prop} {st : DState}
    (hS : StoreOK H src S st) (c : Cache) : StoreOK H src S { st with acache := c } :=
  ⟨hS.src_ok, hS.stage_ok, hS.objs_ok⟩

theorem noHash_order (l : List JVal) : NoHash [(ORDER_FIELD, .arr l)] := by rfl
theorem noHash_delta (l : List JVal) : NoHash [(DELTA_ORDER_FIELD, .arr l)] := by rfl

theorem descOfObject_order (l : List JVal) : descOfObject [(ORDER_FIELD, .arr l)] = .ok (.inl l) := by rfl
theorem descOfObject_delta (l : List JVal) : descOfObject [(DELTA_ORDER_FIELD, .arr l)] = .ok (.inr l) := by rfl

theorem readDesc_of_read {src : Src} {st : DState} {r : Rev} {o : JObj} {d : List JVal ⊕ List JVal}
    (h : readObject src st r = .ok o) (hd : descOfObject o = .ok d) : readDesc src st r = .ok d := by
  unfold readDesc; rw [h]; simp only; rw [hd]

/-- the step `add rev (some w)`, `withTree`, `writeObject` of `updateObject`, for a descriptor body -/
theorem array_add_step {H : Bytes → Str} (hH : HexOut H) {src : Src} {S : JObj → Prop}
    {st : DState} {u : Str} {t : RevTree} {w : Rev} {obj : JObj} {d : Str}
    (hS : StoreOK H src S st) (hcf : CollisionFree H S) (hSo : S obj) (hn : NoHash obj)
    (ht : TreeOK t) (hw : t.winner = some w) (hd : digestObject H obj = .ok d) :
    let t' := (t.add (Rev.upd H d w) (some w) true).1
    let st' := (st.withTree u t').writeObject (Rev.upd H d w) obj
    st'.treeOf u = some t' ∧ t'.winner = some (Rev.upd H d w) ∧ TreeOK t' ∧
    t'.entries = t.entries ++ [⟨Rev.upd H d w, some w, true⟩] ∧
    readObject src st' (Rev.upd H d w) = .ok obj ∧ Frame H src S st st' u := by
  intro t' st'
  have hf := faithful_of_noHash hH hn hd
  have hfresh := child_fresh ht hw (r := Rev.upd H d w) rfl (upd_not_resolved H d w hf.2.2.1)
  obtain ⟨hwin, _, hok⟩ := add_child_becomes_winner hH ht hw hf.1 hf.2.2.1 hfresh
  refine ⟨by rw [treeOf_writeObject, treeOf_withTree_self], hwin, hok, ?_, ?_, frame_write hS u _ _ obj hd hSo⟩
  · show (t.add (Rev.upd H d w) (some w) true).1.entries = _
    rw [C15.add_entries, hfresh]; rfl
  · exact readObject_after_write (storeOK_withTree hS u _) hcf (Rev.upd H d w) obj hd hSo hf

theorem getParent_new {t : RevTree} {r w : Rev} {s : Bool} {es' : List RtEntry}
    (hnew : t.contains r = false) (he : es' = t.entries ++ [⟨r, some w, s⟩]) :
    (RevTree.find? es' r).bind (·.parent) = some w := by
  have hn : find? t.entries r = none := by
    unfold RevTree.contains at hnew
    cases hf : find? t.entries r with
    | none => rfl
    | some e => simp [hf] at hnew
  unfold find? at hn ⊢
  rw [he, List.find?_append, hn]
  simp

/-- **Stage D, object level.** After `updateObject` on an array-descriptor identifier with the full
    descriptor `{"A": newOrder}`, the winner of its tree denotes `newOrder`; the other trees and all
    earlier successful reads are unchanged. `hsound` is the soundness of the one `rebuildOrder` call
    made by `deltaDescriptor`; `hSd` puts the delta descriptor that may be generated into the
    collision-free universe. -/
theorem updateObject_array_spec {H : Bytes → Str} (hH : HexOut H) {src : Src} {S : JObj → Prop}
    {st st' : DState} {u : Str} {newOrder : List JVal} {rv : Option Str}
    (hu : isArrayDescriptor u = true)
    (hS : StoreOK H src S st) (hcf : CollisionFree H S) (hSo : S [(ORDER_FIELD, .arr newOrder)])
    (htree : ∀ t, st.treeOf u = some t → TreeOK t)
    (hsound : ∀ t w order c, st.treeOf u = some t → t.winner = some w →
      rebuildOrder src st t st.acache w = .ok (order, c) → TrueOrder src st t w order)
    (hSd : ∀ t w order c patch, st.treeOf u = some t → t.winner = some w →
      rebuildOrder src st t st.acache w = .ok (order, c) → makeDiffPatch order newOrder = some patch →
      S [(DELTA_ORDER_FIELD, .arr patch)])
    (h : updateObject H src st u [(ORDER_FIELD, .arr newOrder)] = .ok (st', rv)) :
    (∃ t' w', st'.treeOf u = some t' ∧ t'.winner = some w' ∧ rv = some w'.render ∧ TreeOK t' ∧
      TrueOrder src st' t' w' newOrder) ∧
    (∀ u', u' ≠ u → st'.treeOf u' = st.treeOf u') ∧
    (∀ r x, readObject src st r = .ok x → readObject src st' r = .ok x) ∧
    StoreOK H src S st' ∧ (DocsSorted st.p.docs → DocsSorted st'.p.docs) := by
  unfold updateObject at h
  cases htu : st.treeOf u with
  | none =>
    rw [htu] at h
    obtain ⟨⟨t', w', h1, h2, _, h4, h5, h6, _⟩, hfr⟩ :=
      createObject_spec (src := src) hS hcf hSo (fun d hd => faithful_of_noHash hH (noHash_order _) hd) htu h
    exact ⟨⟨t', w', h1, h2, h4, h6, TrueOrder.full (readDesc_of_read h5 (descOfObject_order _))⟩,
      hfr.other, hfr.reads, hfr.store, hfr.sorted⟩
  | some t =>
    have ht := htree t htu
    rw [htu] at h
    simp only at h
    cases hw : t.winner with
    | none => simp [hw] at h
    | some w =>
      simp only [hw, hu, if_true, deltaDescriptor, descOfObject_order] at h
      cases hro : rebuildOrder src st t st.acache w with
      | err e => simp [hro] at h
      | panic m => simp [hro] at h
      | ok x =>
        obtain ⟨winOrder, c⟩ := x
        have hto := hsound t w winOrder c htu hw hro
        simp only [hro] at h
        cases hmp : makeDiffPatch winOrder newOrder with
        | none => simp [hmp] at h
        | some patch =>
          have hrt := C16.makeDiffPatch_roundtrip winOrder newOrder patch hmp
          simp only [hmp] at h
          have hSc := storeOK_acache hS c
          have hreads : ∀ r x, readObject src st r = .ok x →
              readObject src ({ st with acache := c } : DState) r = .ok x := fun r x hx => by
            rw [readObject_congr src (st' := { st with acache := c }) (st := st) rfl]; exact hx
          by_cases hdel : w.isDeleted = true
          · -- full descriptor after a deletion
            simp only [hdel, if_true] at h
            cases hd : digestObject H [(ORDER_FIELD, JVal.arr newOrder)] with
            | error e => simp [hd] at h
            | ok d =>
              simp only [hd, Bool.true_or, if_true, Res.ok.injEq, Prod.mk.injEq] at h
              obtain ⟨rfl, rfl⟩ := h
              obtain ⟨a1, a2, a3, _, a5, a6⟩ := array_add_step hH (src := src) (u := u) hSc hcf hSo
                (noHash_order newOrder) ht hw hd
              exact ⟨⟨_, _, a1, a2, rfl, a3, TrueOrder.full (readDesc_of_read a5 (descOfObject_order _))⟩,
                a6.other, fun r x hx => a6.reads r x (hreads r x hx), a6.store, a6.sorted⟩
          · simp only [hdel, Bool.false_eq_true, if_false] at h
            by_cases hpe : patch.isEmpty = true
            · -- no change
              simp only [hpe, if_true, Res.ok.injEq, Prod.mk.injEq] at h
              obtain ⟨rfl, rfl⟩ := h
              have hp : patch = [] := by simpa using hpe
              subst hp
              have hEq : winOrder = newOrder := by
                simp only [applyDiffPatch, PatchRes.ok.injEq] at hrt; exact hrt
              subst hEq
              refine ⟨⟨t, w, htu, hw, rfl, ht, ?_⟩, fun _ _ => rfl, hreads, hSc, fun hs => hs⟩
              exact trueOrder_mono (l := []) hreads (by simp) hto
            · -- delta descriptor
              simp only [hpe, Bool.false_eq_true, if_false] at h
              cases hd : digestObject H [(DELTA_ORDER_FIELD, JVal.arr patch)] with
              | error e => simp [hd] at h
              | ok d =>
                simp only [hd, Bool.true_or, if_true, Res.ok.injEq, Prod.mk.injEq] at h
                obtain ⟨rfl, rfl⟩ := h
                have hSp := hSd t w winOrder c patch htu hw hro hmp
                obtain ⟨a1, a2, a3, a4, a5, a6⟩ := array_add_step hH (src := src) (u := u) hSc hcf hSp
                  (noHash_delta patch) ht hw hd
                have hreads' : ∀ r x, readObject src st r = .ok x → readObject src _ r = .ok x :=
                  fun r x hx => a6.reads r x (hreads r x hx)
                have hfresh := child_fresh ht hw (r := Rev.upd H d w) rfl
                  (upd_not_resolved H d w (faithful_of_noHash hH (noHash_delta patch) hd).2.2.1)
                refine ⟨⟨_, _, a1, a2, rfl, a3, ?_⟩, a6.other, hreads', a6.store, a6.sorted⟩
                refine TrueOrder.delta (readDesc_of_read a5 (descOfObject_delta _)) ?_
                  (trueOrder_mono hreads' a4 hto) hrt
                unfold getParent
                exact getParent_new hfresh a4

/-! ### non-vacuity, and a finding: a root object with its own identifier cannot be read back -/

section Examples

/-- a hex hash that distinguishes texts of different lengths (enough for the examples) -/
def Hx : Bytes → Str := fun b =>
  List.replicate 62 'a' ++ [hexDigitLower (b.length / 16 % 16), hexDigitLower (b.length % 16)]

theorem hexDigitLower_ok : ∀ n, n < 16 →
    (isDigit (hexDigitLower n) || ('a'.val ≤ (hexDigitLower n).val && (hexDigitLower n).val ≤ 'f'.val)) = true := by
  decide

theorem hexOut_Hx : HexOut Hx := by
  intro b
  refine ⟨by simp [Hx], ?_⟩
  intro c hc
  simp only [Hx, List.mem_append, List.mem_cons, List.not_mem_nil, or_false] at hc
  rcases hc with hc | rfl | rfl
  · rw [List.eq_of_mem_replicate hc]; decide
  · exact hexDigitLower_ok _ (Nat.mod_lt _ (by decide))
  · exact hexDigitLower_ok _ (Nat.mod_lt _ (by decide))

def src0 : Src := fun _ => none

/-- a document with a nested tracked object and no flattened array -/
def docPlain : JObj :=
  [("a".toList, .num "1".toList),
   (C04.flatKey "o", .obj [(ID_FIELD, .str "w".toList), ("s".toList, .str "t".toList)])]

example : C04.WFDoc (.obj docPlain) ∧ C04.NoBangIds (.obj docPlain) ∧ NoArrays docPlain ∧
    C04.objId docPlain = ROOT_ID := by decide

def oW : JObj := [("s".toList, .str "t".toList)]
def oRoot : JObj := [("a".toList, .num "1".toList), (C04.flatKey "o", .str "w".toList)]

theorem poolOf_docPlain : poolOf docPlain = [("w".toList, .obj oW), (ROOT_ID, .obj oRoot)] := by rfl

theorem poolObj_docPlain {o : JObj} (h : PoolObj docPlain o) : o = oW ∨ o = oRoot := by
  obtain ⟨k, hk⟩ := h
  rw [poolOf_docPlain] at hk
  simp only [List.mem_cons, Prod.mk.injEq, JVal.obj.injEq, List.not_mem_nil, or_false] at hk
  rcases hk with ⟨_, h⟩ | ⟨_, h⟩
  · exact Or.inl h
  · exact Or.inr h

/-- the empty replica satisfies the invariant -/
theorem inv_empty (H : Bytes → Str) : Inv H src0 (fun _ => True) {} :=
  ⟨List.Pairwise.nil, ⟨fun d o h => (by cases h), fun p hp => (by cases hp), fun d hd => (by cases hd)⟩,
   fun p hp => (by cases hp)⟩

theorem noHash_docPlain : ∀ o, PoolObj docPlain o → NoHash o := by
  intro o h
  rcases poolObj_docPlain h with rfl | rfl <;> rfl

def digestOf (o : JObj) : Str := match digestObject Hx o with | .ok d => d | .error _ => []

theorem cf_docPlain : CollisionFree Hx (fun x => Stored src0 ({} : DState) x ∨ PoolObj docPlain x) := by
  have hne : digestOf oW ≠ digestOf oRoot := by decide
  have key : ∀ o d, digestObject Hx o = .ok d → digestOf o = d := by
    intro o d h; simp [digestOf, h]
  have hS : ∀ x, (Stored src0 ({} : DState) x ∨ PoolObj docPlain x) → x = oW ∨ x = oRoot := by
    intro x hx
    rcases hx with (⟨d, hd⟩ | ⟨p, hp, _⟩) | hx
    · cases hd
    · cases hp
    · exact poolObj_docPlain hx
  intro o₁ o₂ d h1 h2 hd1 hd2
  rcases hS o₁ h1 with rfl | rfl <;> rcases hS o₂ h2 with rfl | rfl
  · rfl
  · exact absurd ((key _ _ hd1).trans (key _ _ hd2).symm) hne
  · exact absurd ((key _ _ hd2).trans (key _ _ hd1).symm) hne
  · rfl

/-- the replica after submitting `docPlain` to the empty replica -/
def st1 : DState := match update Hx src0 {} docPlain with | .ok (s, _) => s | _ => {}

theorem update_docPlain : update Hx src0 {} docPlain = .ok (st1, ROOT_ID) := by rfl

/-- **all hypotheses of `update_read_plain` hold together** on a concrete instance, and its conclusion -/
example : ∃ c, DState.read src0 st1 = .ok (C04.addIds (.obj docPlain), c) :=
  update_read_plain hexOut_Hx (by decide) (by decide) (by decide) (by decide) noHash_docPlain
    (inv_empty Hx) cf_docPlain update_docPlain

/-- a non-trivial state satisfying the invariant: two trees, two staged bodies -/
theorem inv_st1 : Inv Hx src0 (fun _ => True) st1 :=
  (update_keeps_inv hexOut_Hx (by decide) (by decide) (by decide) (by decide) noHash_docPlain
    (inv_empty Hx) cf_docPlain update_docPlain).1

example : st1.p.docs.length = 2 ∧ st1.stage.length = 2 := by decide

/-- `updateObject_twice` on the example: the second submission of the root object changes nothing -/
example : updateObject Hx src0 st1 ROOT_ID oRoot = .ok (st1, some (Rev.mk1 (digestOf oRoot)).render) := by rfl

/-- a tree with a conflict resolved by a resolution marker satisfies `TreeOK` -/
def exTree : RevTree := validate ⟨C05.exEntries, false, [], none, false⟩

def parentClosedB (es : List RtEntry) : Bool :=
  es.all (fun e => match e.parent with | none => true | some p => es.any (fun e' => e'.rev = p))

theorem parentClosedB_iff (es : List RtEntry) : parentClosedB es = true ↔ ParentClosed es := by
  unfold parentClosedB ParentClosed
  rw [List.all_eq_true]
  constructor
  · intro h e he p hp
    have := h e he; rw [hp] at this
    simpa using this
  · intro h e he
    cases hp : e.parent with
    | none => rfl
    | some p => simpa using h e he p hp

example : TreeOK exTree := by
  have hw : exTree.winner = some C05.r2b := by decide
  refine ⟨rfl, by decide, by decide, by decide, (parentClosedB_iff _).mp (by decide), ?_⟩
  intro w hw' e he hlt
  rw [hw] at hw'; cases hw'
  revert e
  decide

/-- Stage A applies to the example tree (the new revision is built with a different, hex, hash) -/
example : (exTree.add (Rev.upd Hx "dd".toList C05.r2b) (some C05.r2b) true).1.winner =
    some (Rev.upd Hx "dd".toList C05.r2b) := by
  have ht : TreeOK exTree := by
    have hw : exTree.winner = some C05.r2b := by decide
    refine ⟨rfl, by decide, by decide, by decide, (parentClosedB_iff _).mp (by decide), ?_⟩
    intro w hw' e he hlt
    rw [hw] at hw'; cases hw'
    revert e
    decide
  exact (add_child_becomes_winner hexOut_Hx ht (w := C05.r2b) (by decide) (d := "dd".toList) (by decide)
    (by decide) (by decide)).1

/-- the hypotheses of `updateObject_array_spec` hold for a first submission (empty replica) -/
example : ∃ st' rv, updateObject Hx src0 {} "^x@a".toList [(ORDER_FIELD, .arr [.str "p".toList])] = .ok (st', rv) ∧
    ∃ t' w', st'.treeOf "^x@a".toList = some t' ∧ t'.winner = some w' ∧
      TrueOrder src0 st' t' w' [.str "p".toList] := by
  refine ⟨_, _, rfl, ?_⟩
  have hcf : CollisionFree Hx (fun x => x = [(ORDER_FIELD, .arr [.str "p".toList])]) := by
    intro o₁ o₂ d h1 h2 _ _; rw [h1, h2]
  obtain ⟨⟨t', w', h1, h2, _, _, h5⟩, _⟩ := updateObject_array_spec (S := fun x => x = [(ORDER_FIELD, .arr [.str "p".toList])])
    hexOut_Hx (src := src0) (st := {}) (u := "^x@a".toList) (newOrder := [.str "p".toList]) (by decide)
    ⟨fun d o h => (by cases h), fun p hp => (by cases hp), fun d hd => (by cases hd)⟩ hcf rfl
    (fun t ht => (by cases ht)) (fun t w o c ht => (by cases ht)) (fun t w o c p ht => (by cases ht)) rfl
  exact ⟨t', w', h1, h2, h5⟩

/-- **Finding.** A root object carrying its own `_id` (≠ `√`) is stored under that identifier, and
    `read` (which looks for `√`) fails with `no_root`: the hypothesis `objId doc = ROOT_ID` of
    `update_read_plain` cannot be dropped. The document satisfies every other hypothesis. -/
def docRootId : JObj := [(ID_FIELD, .str "x".toList)]

def readErrAfterUpdate (doc : JObj) : Option String :=
  match update Hx src0 {} doc with
  | .ok (s, _) => (match DState.read src0 s with | .err e => some e | _ => none)
  | _ => none

theorem root_id_counterexample :
    C04.WFDoc (.obj docRootId) ∧ C04.NoBangIds (.obj docRootId) ∧ NoArrays docRootId ∧
    C04.objId docRootId ≠ ROOT_ID ∧ readErrAfterUpdate docRootId = some "no_root" := by decide

end Examples

#print axioms add_child_general
#print axioms add_child_becomes_winner
#print axioms add_child_leafs
#print axioms add_del_becomes_winner
#print axioms readObject_writeObject_mono
#print axioms updateObject_spec
#print axioms update_idem_trees
#print axioms updateObject_twice
#print axioms deleteObject_spec
#print axioms update_read_core
#print axioms update_read_plain
#print axioms update_keeps_inv
#print axioms updateObject_array_spec
#print axioms root_id_counterexample

end Melda.Props.C04b
