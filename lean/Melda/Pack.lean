/-
  Model of the pack writer (`DataStorage::pack`) and the pack re-indexer
  (`DataStorage::parse_and_apply_pack`, with the string-literal fix) at byte level.
  Import-free.
-/
import Melda.Json
namespace Melda

/-- `[` obj₁ `,` obj₂ … `]` -/
def packBytes : List Bytes → Bytes
  | [] => [0x5B, 0x5D]
  | o :: t => 0x5B :: (o ++ packTail t)
where packTail : List Bytes → Bytes
  | [] => [0x5D]
  | o :: t => 0x2C :: (o ++ packTail t)

/-- the writer's own index: (offset, length) of every object, in order -/
def packOffsets : Nat → List Bytes → List (Nat × Nat)
  | _, [] => []
  | start, o :: t => (start, o.length) :: packOffsets (start + o.length + 1) t

structure ScanSt where
  depth : Int := 0
  start : Nat := 0
  inStr : Bool := false
  esc : Bool := false
  out : List (Nat × Nat) := []     -- reversed
deriving Inhabited

/-- one byte of the scanner of `parse_and_apply_pack` -/
def scanStep (st : ScanSt) (off : Nat) (c : UInt8) : ScanSt :=
  if st.inStr then
    if st.esc then { st with esc := false }
    else if c = 0x5C then { st with esc := true }
    else if c = 0x22 then { st with inStr := false }
    else st
  else if c = 0x22 then { st with inStr := true }
  else if c = 0x7B then
    { st with start := if st.depth = 0 then off else st.start, depth := st.depth + 1 }
  else if c = 0x7D then
    let d := st.depth - 1
    if d = 0 then { st with depth := d, out := (st.start, off + 1 - st.start) :: st.out }
    else { st with depth := d }
  else st

def scanFrom : ScanSt → Nat → Bytes → ScanSt
  | st, _, [] => st
  | st, off, c :: t => scanFrom (scanStep st off c) (off + 1) t

/-- (offset, length) of every top-level object found by the re-indexer, in order -/
def scanPack (data : Bytes) : List (Nat × Nat) := (scanFrom {} 0 data).out.reverse

/-- the pre-fix scanner (defect D1): counts braces inside strings too -/
def naiveStep (st : ScanSt) (off : Nat) (c : UInt8) : ScanSt :=
  if c = 0x7B then
    { st with start := if st.depth = 0 then off else st.start, depth := st.depth + 1 }
  else if c = 0x7D then
    let d := st.depth - 1
    if d = 0 then { st with depth := d, out := (st.start, off + 1 - st.start) :: st.out }
    else { st with depth := d }
  else st

def naiveScanFrom : ScanSt → Nat → Bytes → ScanSt
  | st, _, [] => st
  | st, off, c :: t => naiveScanFrom (naiveStep st off c) (off + 1) t

def naiveScanPack (data : Bytes) : List (Nat × Nat) := (naiveScanFrom {} 0 data).out.reverse

def slice (data : Bytes) (off len : Nat) : Bytes := (data.drop off).take len

end Melda
