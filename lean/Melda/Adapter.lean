/-
  The storage contract (`adapter.rs`) and models of the logic of the backends.
  `KVSpec` is the write-once key/value specification every backend must refine.
  Import-free.
-/
import Melda.Json
namespace Melda

/-- write-once key/value map, keys kept sorted -/
structure KVSpec where
  items : List (Str × Bytes) := []

namespace KVSpec

def empty : KVSpec := {}

def get (kv : KVSpec) (k : Str) : Option Bytes := (kv.items.find? (fun p => p.1 = k)).map (·.2)

def insertSorted (k : Str) (v : Bytes) : List (Str × Bytes) → List (Str × Bytes)
  | [] => [(k, v)]
  | (k', v') :: t => if strLt k k' then (k, v) :: (k', v') :: t else (k', v') :: insertSorted k v t

/-- `write_object`: the first write wins -/
def write (kv : KVSpec) (k : Str) (v : Bytes) : KVSpec :=
  match kv.get k with
  | some _ => kv
  | none => { items := insertSorted k v kv.items }

/-- `read_object(k, 0, 0)` -/
def read (kv : KVSpec) (k : Str) : Option Bytes := kv.get k

/-- `read_object(k, off, len)` for a non-empty in-range slice -/
def readRange (kv : KVSpec) (k : Str) (off len : Nat) : Option Bytes :=
  match kv.get k with
  | some d => if off + len ≤ d.length then some ((d.drop off).take len) else none
  | none => none

def isSuffix (ext s : Str) : Bool := ext.length ≤ s.length && s.drop (s.length - ext.length) = ext

/-- `list_objects(ext)`: matching keys with the suffix removed (sorted) -/
def list (kv : KVSpec) (ext : Str) : List Str :=
  (kv.items.filter (fun p => isSuffix ext p.1)).map (fun p => p.1.take (p.1.length - ext.length))

end KVSpec
end Melda
