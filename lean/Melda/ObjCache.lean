/-
  The LRU object-body cache of `DataStorage` (`cache: Mutex<LruCache<String, Map>>`, capacity
  `MELDA_DATA_CACHE_CAP`): `write_object` puts the body under the revision's digest, `read_object`
  consults the cache before storage and stage (a hit promotes the entry; a miss does NOT fill the cache),
  `unstage`, `reload` and `refresh` leave it alone.
  `Doc.readObject` / `Doc.writeObject` are the functions without the cache; `Props.C18b` shows that with
  content-addressed bodies the two agree for every capacity and every cache content.
  Import-free.
-/
import Melda.Doc
namespace Melda

abbrev OCache := Lru Str JObj

namespace DState

/-- `DataStorage::read_object` with the cache in front -/
def readObjectC (src : Src) (st : DState) (oc : OCache) (r : Rev) : Except String JObj × OCache :=
  if r.isEmpty then (.ok [], oc)
  else if r.isDeleted then (.ok (markerObj "_deleted"), oc)
  else if r.isResolved then (.ok (markerObj "_resolved"), oc)
  else if r.isCharcode then (.ok [(HASH_FIELD, .str r.digest)], oc)
  else match oc.get r.digest with
    | (some o, oc') => (.ok o, oc')
    | (none, _) => (readObject src st r, oc)

/-- `DataStorage::write_object` with the cache: stage (unless stored or staged already), then cache -/
def writeObjectC (st : DState) (oc : OCache) (r : Rev) (o : JObj) : DState × OCache :=
  if r.isSpecial then (st, oc) else (st.writeObject r o, oc.put r.digest o)

end DState
end Melda
