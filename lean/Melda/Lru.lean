/-
  Model of the `lru` crate's `LruCache` as used by the library (`put`, `get`, `contains`):
  a list, most recently used first, bounded by `cap ≥ 1`.
  Import-free.
-/
namespace Melda

structure Lru (κ ν : Type) where
  cap : Nat
  items : List (κ × ν) := []

namespace Lru
variable {κ ν : Type} [DecidableEq κ]

def empty (cap : Nat) : Lru κ ν := { cap := cap }

/-- `contains` (does not touch recency) -/
def contains (c : Lru κ ν) (k : κ) : Bool := c.items.any (fun p => p.1 = k)

def peek (c : Lru κ ν) (k : κ) : Option ν := (c.items.find? (fun p => p.1 = k)).map (·.2)

/-- `get`: returns the value and moves the entry to the front -/
def get (c : Lru κ ν) (k : κ) : Option ν × Lru κ ν :=
  match c.items.find? (fun p => p.1 = k) with
  | none => (none, c)
  | some p => (some p.2, { c with items := p :: c.items.filter (fun q => q.1 ≠ k) })

/-- `put`: insert or replace at the front, evicting the least recently used entry when full -/
def put (c : Lru κ ν) (k : κ) (v : ν) : Lru κ ν :=
  let rest := c.items.filter (fun q => q.1 ≠ k)
  { c with items := ((k, v) :: rest).take c.cap }

end Lru
end Melda
