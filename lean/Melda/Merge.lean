/-
  Model of `utils::merge_arrays` (index-based transcription).
  `merge m n` is the new content of `order_n` after `merge_arrays(order_m, &mut order_n)`.
  Import-free.
-/
namespace Melda

variable {α : Type} [DecidableEq α]

/-- `iter().position(|e| e == t)` -/
def idxOf? (t : α) : List α → Option Nat
  | [] => none
  | x :: xs => if x = t then some 0 else (idxOf? t xs).map (· + 1)

/-- `Vec::insert(i, t)`; the Rust call panics when `i > len`, here it leaves the list unchanged
    (theorem `Props.C06.insert_in_range` shows the index is always in range) -/
def insertAt (l : List α) (i : Nat) (t : α) : List α := l.insertIdx i t

/-- first loop: find the pivot. Returns (ins_pos_in_n, pivot_pos_in_m) -/
def findPivot (n : List α) : List α → Nat → Nat × Nat
  | [], piv => (0, piv)
  | t :: ts, piv =>
    match idxOf? t n with
    | some p => (p, piv)
    | none => findPivot n ts (piv + 1)

/-- second loop -/
def mergeLoop : List α → Nat → Nat → Nat → List α → List α
  | [], _, _, _, n => n
  | t :: ts, cur, pivot, ins, n =>
    match idxOf? t n with
    | some p => mergeLoop ts (cur + 1) pivot p n
    | none =>
      if cur < pivot then mergeLoop ts (cur + 1) cur ins (insertAt n ins t)
      else mergeLoop ts (cur + 1) pivot (ins + 1) (insertAt n (ins + 1) t)

/-- `merge_arrays(order_m, &mut order_n)` -/
def mergeArrays (m n : List α) : List α :=
  if n.isEmpty then m
  else if m.isEmpty then n
  else
    let (ins, pivot) := findPivot n m 0
    mergeLoop m 0 pivot ins n

end Melda
